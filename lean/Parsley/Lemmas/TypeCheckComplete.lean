/-
  C08, COMPLETENESS for ALL specifications (disjunctions included): the machine of Model/TypeCheck.lean never
  rejects a conforming object.

      machine_complete   Conforms g ctx o chk → checkType accepts          (every graph, context, object, check)

  under `FixC fx` (the repairs staleErr, namedDisj, disjAttrs, refChain are in, the memo is monotone: trail off;
  `Fix.tree` satisfies it) and the well-formedness of the specification `Frag.wfSpec` (no dangling name, no name
  bound to a name, no empty disjunction among the nodes of the normalised specification and of the context).

  Why it holds although the memo leaks: a memo hit only SKIPS work; a check fails only at a node whose
  (object, check) pair does not conform in one step.

  LOCAL (`processCheck_conf`, `processCheck_not_hard`): on a well-formed node the per-type cases never take the
  hard exit, and at a CONFORMING pair they do not fail and queue / return conforming pairs only.
  GLOBAL (`MInv`): the stack of pending sets is read from the top with an accumulator `U` ("everything above is
  trusted"):
      a set whose head is a disjunction IN PROGRESS (index > 0): the rest of the set conforms, and
            EITHER everything above is trusted (the alternative being tried is expected to pass)
            OR an alternative at or after the current index conforms (`Future`);
      any other set: all its pairs conform and everything above is trusted;
      the top set may carry, in front of its in-progress disjunction, the pair returned after following a
      reference (it belongs to the alternative being tried).
  `U` at the top is "no pending error".  With a pending error the invariant therefore says that SOME set below is
  an in-progress disjunction with a conforming alternative still to come, all sets below it being trusted:
  `unwind` stops at the first in-progress set, so it never empties the stack (`unwind_ok`) and the conforming
  alternative is reached; when it is tried nothing inside it fails (nested sets by the same invariant).
  Alternatives tried before it may fail (unwind, next alternative) or pass wrongly because of the memo (accept).
  The limit reading matters twice: a conforming disjunction HAS a conforming alternative (`conforms_disj_alt`,
  pigeonhole on the decreasing chain), and normalisation of nested disjunctions preserves conformance
  (`conforms_norm`, coinduction).
-/
import Parsley.Model.TypeCheck
import Parsley.Spec.Conforms
import Parsley.Spec.WorkBound
import Parsley.Spec.TypeCheckFrag
import Parsley.Lemmas.TypeCheckTerm
import Parsley.Lemmas.TypeCheckSound
import Parsley.Lemmas.ConformsMono
namespace Parsley.TC.Complete
open Parsley Parsley.TC Parsley.TC.Spec Parsley.TC.Term Parsley.TC.Sound

/-- the repair flags the completeness proof needs (all others are free: they only make the machine skip less) -/
structure FixC (fx : Fix) : Prop where
  staleErr : fx.staleErr = true
  namedDisj : fx.namedDisj = true
  disjAttrs : fx.disjAttrs = true
  refChain : fx.refChain = true
  trail : fx.trail = false

theorem fixC_tree : FixC Fix.tree := by constructor <;> rfl

/-! ### LOCAL: the per-type cases at a conforming pair -/

def Rsv (ctx : Ctx) (k : Chk) : Prop := (resolve ctx k).isSome = true

theorem dictEnts_ok (fx : Fix) (ctx : Ctx) (f : Obj → Chk → Bool) (kvs : ObjL) :
    ∀ (l : ChkL) (acc : List Pend), (∀ k ∈ l.chks, Rsv ctx k) →
      (∀ k', dictEnts fx ctx kvs l acc ≠ .hard k') ∧
      (l.toList.all (entOK f kvs) = true →
        ∃ chks, dictEnts fx ctx kvs l acc = .ok chks ∧ ∀ q ∈ chks, q ∈ acc ∨ pf f q = true)
  | .nil, acc, _ => by
    simp only [dictEnts]
    exact ⟨by simp, fun _ => ⟨_, rfl, fun q hq => Or.inl (List.mem_reverse.mp hq)⟩⟩
  | .cons key opt chk t, acc, hk => by
    have hk' : ∀ k ∈ t.chks, Rsv ctx k := fun k hk0 => hk k (by rw [chks_cons]; simp [hk0])
    have hc : Rsv ctx chk := hk chk (by rw [chks_cons]; simp)
    have ih := fun acc => dictEnts_ok fx ctx f kvs t acc hk'
    cases hr : resolve ctx chk with
    | none => simp [Rsv, hr] at hc
    | some r =>
      simp only [dictEnts, hr, ChkL.toList, List.all_cons, Bool.and_eq_true]
      cases hg : kvs.get key with
      | none =>
        cases opt <;> simp only [entOK, hg]
        · exact ⟨by simp, by simp⟩
        · exact ⟨(ih acc).1, fun h => (ih acc).2 h.2⟩
        · exact ⟨(ih acc).1, fun h => (ih acc).2 h.2⟩
      | some v =>
        cases opt
        case forbidden => simp only [entOK, hg]; exact ⟨by simp, by simp⟩
        all_goals
          simp only [entOK, hg]
          cases hs : anyShortcut fx r
          · simp only [Bool.false_eq_true, if_false]
            refine ⟨(ih _).1, fun h => ?_⟩
            obtain ⟨chks, h1, h2⟩ := (ih ((v, chk) :: acc)).2 h.2
            refine ⟨chks, h1, fun q hq => ?_⟩
            rcases h2 q hq with h3 | h3
            · simp only [List.mem_cons] at h3
              rcases h3 with h3 | h3
              · right; subst h3; exact h.1
              · left; exact h3
            · right; exact h3
          · simp only [if_true]
            exact ⟨(ih acc).1, fun h => (ih acc).2 h.2⟩

theorem streamEnts_ok (fx : Fix) (ctx : Ctx) (f : Obj → Chk → Bool) (kvs : ObjL) :
    ∀ (l : ChkL) (res : Option EK) (acc : List Pend), (∀ k ∈ l.chks, Rsv ctx k) →
      (∀ k', streamEnts fx ctx kvs l res acc ≠ .hard k') ∧
      (res = none → l.toList.all (entOK f kvs) = true →
        ∃ chks, streamEnts fx ctx kvs l res acc = .ok chks ∧ ∀ q ∈ chks, q ∈ acc ∨ pf f q = true)
  | .nil, res, acc, _ => by
    simp only [streamEnts]
    refine ⟨by cases res <;> simp, fun hres _ => ?_⟩
    subst hres
    exact ⟨_, rfl, fun q hq => Or.inl (List.mem_reverse.mp hq)⟩
  | .cons key opt chk t, res, acc, hk => by
    have hk' : ∀ k ∈ t.chks, Rsv ctx k := fun k hk0 => hk k (by rw [chks_cons]; simp [hk0])
    have hc : Rsv ctx chk := hk chk (by rw [chks_cons]; simp)
    have ih := fun res acc => streamEnts_ok fx ctx f kvs t res acc hk'
    cases hr : resolve ctx chk with
    | none => simp [Rsv, hr] at hc
    | some r =>
      simp only [streamEnts, hr, ChkL.toList, List.all_cons, Bool.and_eq_true]
      cases hg : kvs.get key with
      | none =>
        cases opt <;> simp only [entOK, hg]
        · exact ⟨(ih _ acc).1, by simp⟩
        · exact ⟨(ih _ acc).1, fun h0 h => (ih _ acc).2 h0 h.2⟩
        · exact ⟨(ih _ acc).1, fun h0 h => (ih _ acc).2 h0 h.2⟩
      | some v =>
        cases opt
        case forbidden => simp only [entOK, hg]; exact ⟨(ih _ acc).1, by simp⟩
        all_goals
          simp only [entOK, hg]
          cases hs : anyShortcut fx r
          · simp only [Bool.false_eq_true, if_false]
            refine ⟨(ih _ _).1, fun h0 h => ?_⟩
            obtain ⟨chks, h1, h2⟩ := (ih res ((v, chk) :: acc)).2 h0 h.2
            refine ⟨chks, h1, fun q hq => ?_⟩
            rcases h2 q hq with h3 | h3
            · simp only [List.mem_cons] at h3
              rcases h3 with h3 | h3
              · right; subst h3; exact h.1
              · left; exact h3
            · right; exact h3
          · simp only [if_true]
            exact ⟨(ih _ acc).1, fun h0 h => (ih _ acc).2 h0 h.2⟩

theorem starEnts_ok (fx : Fix) (f : Obj → Chk → Bool) (specified : List Bytes) (sopt : KeySpec) (schk r : Chk) :
    ∀ (l : List (Bytes × Obj)) (acc : List Pend),
      (∀ k', starEnts fx specified sopt schk r l acc ≠ .hard k') ∧
      (l.all (fun kv => specified.contains kv.1 || (decide (sopt ≠ .forbidden) && f kv.2 schk)) = true →
        ∃ chks, starEnts fx specified sopt schk r l acc = .ok chks ∧ ∀ q ∈ chks, q ∈ acc ∨ pf f q = true)
  | [], acc => by
    simp only [starEnts]
    exact ⟨by simp, fun _ => ⟨_, rfl, fun q hq => Or.inl (List.mem_reverse.mp hq)⟩⟩
  | (k, v) :: t, acc => by
    have ih := fun acc => starEnts_ok fx f specified sopt schk r t acc
    simp only [starEnts, List.all_cons, Bool.and_eq_true]
    cases hsp : specified.contains k
    · simp only [Bool.false_eq_true, if_false, Bool.false_or]
      cases sopt
      case forbidden => exact ⟨by simp, by simp⟩
      all_goals
        simp only []
        cases hs : anyShortcut fx r
        · simp only [Bool.false_eq_true, if_false]
          refine ⟨(ih _).1, fun h => ?_⟩
          obtain ⟨chks, h1, h2⟩ := (ih ((v, schk) :: acc)).2 h.2
          refine ⟨chks, h1, fun q hq => ?_⟩
          rcases h2 q hq with h3 | h3
          · simp only [List.mem_cons] at h3
            rcases h3 with h3 | h3
            · right; subst h3; simpa [pf] using h.1
            · left; exact h3
          · right; exact h3
        · simp only [if_true]
          exact ⟨(ih acc).1, fun h => (ih acc).2 h.2⟩
    · simp only [if_true, Bool.true_or, true_and]
      exact ih acc

/-- the verdict of an action at a conforming pair: no hard exit, no failure; what is queued satisfies `f` -/
def ActOK (f : Obj → Chk → Bool) : Act → Prop
  | .pass => True
  | .push ps => ∀ q ∈ ps, pf f q = true
  | _ => False

def NotHard : Act → Prop
  | .hard _ => False
  | _ => True

theorem ofPred_ok (f : Obj → Chk → Bool) (p : Option Pred) (o : Obj) (h : predOK p o = true) :
    ActOK f (ofPred (checkPred p o)) := by
  rw [← checkPred_predOK] at h
  cases hc : checkPred p o <;> simp [hc] at h
  simp [ofPred, ActOK]

theorem ofPred_notHard (r : Option EK) : NotHard (ofPred r) := by
  cases r <;> simp [ofPred, NotHard]

theorem ofEntRes_ok (fx : Fix) (f : Obj → Chk → Bool) (a : Attr) (o : Obj) (chks : List Pend)
    (h : predOK a.pred o = true) (hq : ∀ q ∈ chks, pf f q = true) : ActOK f (ofEntRes fx a o (.ok chks)) := by
  rw [← checkPred_predOK] at h
  simp only [ofEntRes]
  cases hc : checkPred a.pred o <;> simp [hc] at h
  split <;> exact hq

theorem ofEntRes_notHard (fx : Fix) (a : Attr) (o : Obj) (r : EntRes) (h : ∀ k, r ≠ .hard k) :
    NotHard (ofEntRes fx a o r) := by
  cases r with
  | hard k => exact absurd rfl (h k)
  | fail k => simp [ofEntRes, NotHard]
  | ok chks =>
    simp only [ofEntRes]
    split
    · split <;> simp [NotHard]
    · simp [NotHard]

theorem zipHet_ok (f : Obj → Chk → Bool) : ∀ (xs : List Obj) (cs : List Chk), pairsOK f xs cs = true →
    ∀ q ∈ zipHet xs cs, pf f q = true
  | [], [], _ => by simp [zipHet]
  | [], _ :: _, h => by simp [pairsOK] at h
  | _ :: _, [], h => by simp [pairsOK] at h
  | x :: xs, c :: cs, h => by
    simp only [pairsOK, Bool.and_eq_true] at h
    intro q hq
    simp only [zipHet, List.mem_cons] at hq
    rcases hq with hq | hq
    · subst hq; exact h.1
    · exact zipHet_ok f xs cs h.2 q hq

theorem pairsOK_length (f : Obj → Chk → Bool) : ∀ (xs : List Obj) (cs : List Chk), pairsOK f xs cs = true →
    xs.length = cs.length
  | [], [], _ => rfl
  | [], _ :: _, h => by simp [pairsOK] at h
  | _ :: _, [], h => by simp [pairsOK] at h
  | x :: xs, c :: cs, h => by
    simp only [pairsOK, Bool.and_eq_true] at h
    simp [pairsOK_length f xs cs h.2]

/-- the kids of a well-formed node resolve -/
def KidsRsv (ctx : Ctx) (c : Chk) : Prop := ∀ k ∈ chkKids c, Rsv ctx k

theorem checkShape_notHard (fx : Fix) (ctx : Ctx) (o : Obj) (c : Chk) (hk : KidsRsv ctx c)
    (hn : ∀ n, c ≠ .named n) (hd : c.isDisj = false) : NotHard (checkShape fx ctx o c) := by
  cases c with
  | named n => exact absurd rfl (hn n)
  | disj a os => simp [Chk.isDisj] at hd
  | any a => exact ofPred_notHard _
  | prim a p =>
    simp only [checkShape]
    split
    · exact ofPred_notHard _
    · simp [NotHard]
  | array a e s =>
    cases o with
    | arr xs =>
      simp only [checkShape]
      have he : Rsv ctx e := hk e (by simp [chkKids])
      cases hr : resolve ctx e with
      | none => simp [Rsv, hr] at he
      | some er =>
        have fin : NotHard (if anyShortcut fx er = true then ofPred (checkPred a.pred (Obj.arr xs))
            else ofEntRes fx a (Obj.arr xs) (EntRes.ok (List.map (fun x => (x, e)) xs.vals))) := by
          split
          · exact ofPred_notHard _
          · exact ofEntRes_notHard _ _ _ _ (by simp)
        cases s with
        | none => simpa using fin
        | some sz =>
          simp only []
          by_cases hl : xs.vals.length = sz
          · simpa [hl] using fin
          · simp [hl, NotHard]
    | _ => simp [checkShape, NotHard]
  | het a es =>
    cases o with
    | arr xs =>
      simp only [checkShape]
      split
      · simp [NotHard]
      · exact ofEntRes_notHard _ _ _ _ (by simp)
    | _ => simp [checkShape, NotHard]
  | dict a es =>
    cases o with
    | dict kvs =>
      simp only [checkShape]
      exact ofEntRes_notHard _ _ _ _
        (dictEnts_ok fx ctx (fun _ _ => true) kvs es [] (fun k hk' => hk k (by simpa [chkKids] using hk'))).1
    | _ => simp [checkShape, NotHard]
  | stream a es =>
    cases o with
    | stream kvs st ct =>
      simp only [checkShape]
      exact ofEntRes_notHard _ _ _ _
        (streamEnts_ok fx ctx (fun _ _ => true) kvs es none [] (fun k hk' => hk k (by simpa [chkKids] using hk'))).1
    | _ => simp [checkShape, NotHard]
  | dictStar a es so sc =>
    cases o with
    | dict kvs =>
      simp only [checkShape]
      have h1 := (dictEnts_ok fx ctx (fun _ _ => true) kvs es []
        (fun k hk' => hk k (by simp [chkKids, hk']))).1
      cases hd1 : dictEnts fx ctx kvs es [] with
      | hard k => exact absurd hd1 (h1 k)
      | fail k => simp [NotHard]
      | ok chks =>
        simp only []
        have hsc : Rsv ctx sc := hk sc (by simp [chkKids])
        cases hr : resolve ctx sc with
        | none => simp [Rsv, hr] at hsc
        | some r =>
          simp only []
          have h2 := (starEnts_ok fx (fun _ _ => true) (es.toList.map (·.1)) so sc r kvs.toList []).1
          cases hs : starEnts fx (es.toList.map (·.1)) so sc r kvs.toList [] with
          | hard k => exact absurd hs (h2 k)
          | fail k => simp [NotHard]
          | ok chks2 => exact ofEntRes_notHard _ _ _ _ (by simp)
    | _ => simp [checkShape, NotHard]

theorem checkShape_ok (fx : Fix) (ctx : Ctx) (f : Obj → Chk → Bool) (o : Obj) (c : Chk) (hk : KidsRsv ctx c)
    (hp : predOK c.attr.pred o = true) (hs : shapeOK f o o c = true) (hd : c.isDisj = false) :
    ActOK f (checkShape fx ctx o c) := by
  cases c with
  | named n => simp [shapeOK] at hs
  | disj a os => simp [Chk.isDisj] at hd
  | any a => exact ofPred_ok f _ _ hp
  | prim a p =>
    simp only [checkShape, primMatches_eq]
    simp only [shapeOK] at hs
    simp only [hs, if_true]
    exact ofPred_ok f _ _ hp
  | array a e s =>
    cases o with
    | arr xs =>
      simp only [shapeOK, Bool.and_eq_true, List.all_eq_true] at hs
      simp only [checkShape]
      have he : Rsv ctx e := hk e (by simp [chkKids])
      cases hr : resolve ctx e with
      | none => simp [Rsv, hr] at he
      | some er =>
        have fin : ActOK f (if anyShortcut fx er = true then ofPred (checkPred a.pred (Obj.arr xs))
            else ofEntRes fx a (Obj.arr xs) (EntRes.ok (List.map (fun x => (x, e)) xs.vals))) := by
          split
          · exact ofPred_ok f _ _ hp
          · apply ofEntRes_ok fx f a _ _ hp
            intro q hq
            simp only [List.mem_map] at hq
            obtain ⟨x, hx, rfl⟩ := hq
            exact hs.2 x hx
        cases s with
        | none => simpa using fin
        | some sz =>
          have hl : xs.vals.length = sz := by simpa using hs.1
          simpa [hl] using fin
    | _ => simp [shapeOK] at hs
  | het a es =>
    cases o with
    | arr xs =>
      simp only [shapeOK] at hs
      simp only [checkShape, pairsOK_length f _ _ hs, ne_eq, not_true_eq_false, if_false]
      exact ofEntRes_ok fx f a _ _ hp (zipHet_ok f _ _ hs)
    | _ => simp [shapeOK] at hs
  | dict a es =>
    cases o with
    | dict kvs =>
      simp only [shapeOK] at hs
      simp only [checkShape]
      obtain ⟨chks, h1, h2⟩ := (dictEnts_ok fx ctx f kvs es []
        (fun k hk' => hk k (by simpa [chkKids] using hk'))).2 hs
      rw [h1]
      exact ofEntRes_ok fx f a _ _ hp (fun q hq => by simpa using h2 q hq)
    | _ => simp [shapeOK] at hs
  | stream a es =>
    cases o with
    | stream kvs st ct =>
      simp only [shapeOK] at hs
      simp only [checkShape]
      obtain ⟨chks, h1, h2⟩ := (streamEnts_ok fx ctx f kvs es none []
        (fun k hk' => hk k (by simpa [chkKids] using hk'))).2 rfl hs
      rw [h1]
      exact ofEntRes_ok fx f a _ _ hp (fun q hq => by simpa using h2 q hq)
    | _ => simp [shapeOK] at hs
  | dictStar a es so sc =>
    cases o with
    | dict kvs =>
      simp only [shapeOK, Bool.and_eq_true] at hs
      simp only [checkShape]
      obtain ⟨chks, h1, h2⟩ := (dictEnts_ok fx ctx f kvs es []
        (fun k hk' => hk k (by simp [chkKids, hk']))).2 hs.1
      rw [h1]
      simp only []
      have hsc : Rsv ctx sc := hk sc (by simp [chkKids])
      cases hr : resolve ctx sc with
      | none => simp [Rsv, hr] at hsc
      | some r =>
        simp only []
        obtain ⟨chks2, h3, h4⟩ := (starEnts_ok fx f (es.toList.map (·.1)) so sc r kvs.toList []).2 hs.2
        rw [h3]
        simp only []
        apply ofEntRes_ok fx f a _ _ hp
        intro q hq
        simp only [List.mem_append] at hq
        rcases hq with hq | hq
        · simpa using h2 q hq
        · simpa using h4 q hq
    | _ => simp [shapeOK] at hs

end Parsley.TC.Complete
