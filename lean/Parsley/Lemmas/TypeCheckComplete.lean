/-
  C08, COMPLETENESS for ALL specifications (disjunctions included): the machine of Model/TypeCheck.lean never
  rejects a conforming object.

      checkType_complete   wfSpec ctx chk → Conforms g ctx o chk → check_type (run with the C09 work bound) = accept
      checkType_complete_fuel   the same for any fuel: accept, or the fuel ran out; never reject, never panic
      run_complete         the machine started on a check of a closed well-formed set `G` (`ClosedC`)

  under `FixC fx` (the repairs staleIdx, staleErr, namedDisj, disjAttrs, refChain are in, the memo is monotone: trail off;
  every other flag is free -- they only make the machine skip less or more; `Fix.tree` satisfies it) and the
  well-formedness `Frag.wfSpec` of Spec/TypeCheckWF.lean (every name of the specification and of the context is bound to
  a representation, no empty disjunction): the three ways to leave `check_type` that are not a verdict about the object
  (UnknownTypeCheck -- the entry loops resolve the check of EVERY entry, also of an absent optional key; a name bound to
  a name reaches the per-type match unresolved; `unreachable!()` on an empty disjunction).

  Why it holds although the memo leaks: a memo hit only SKIPS work (`issue` on an examined pair clears the error and
  continues); a check fails only at a node whose (object, check) pair does not conform in one step.

  LOCAL (`processCheck_spec`, from `checkShape_ok` / `checkShape_notHard` / Term.`checkShape_closed`): on a well-formed
  node the per-type cases never take the hard exit; a `fail` refutes the pair; what is queued (`push`) are sub-checks of
  the node that conform if the pair does; a reference is replaced (`ret`) by (value, check without indirect
  requirement), which conforms if the pair does; a disjunction is put back as a set of its own (`pushRaw`).
  GLOBAL (`Stk b todo`, `MInv`): the stack of pending sets is read from the top, `b` = "the top is TRUSTED":
      a set that is not an in-progress disjunction has the trust of what is below it; if trusted, all its pairs conform;
      an in-progress disjunction (index > 0) sits on a stack of trust `b0`: what follows it in its set conforms if `b0`;
            the alternative being tried and everything above is trusted only if `b0`; if `b0` but NOT trusted, an
            alternative at or after the current index conforms (the `Future` clause);
      the top set may carry, in front of its in-progress disjunction, the pair returned after following a reference
            (it belongs to the alternative being tried; then there is no pending error);
      the empty stack is trusted, and a pending error implies `b = false`.
  So with a pending error SOME set below is an in-progress disjunction: `unwind` stops at the first one and never empties
  the stack (`unwind_ok`); there the next alternative is tried: it is the conforming one (trust becomes true: nothing
  inside it fails, nested sets by the same invariant), or the conforming one is still to come, or the region was
  untrusted anyway (`b0 = false`: an exhausted disjunction unwinds further).  Alternatives tried before the conforming
  one may fail (unwind, next alternative) or pass wrongly because of the memo (accept).  The run ends only at the empty
  stack, which is trusted, hence without error: accept (`step_ok`, `run_ok`).
  The limit reading matters twice: a conforming disjunction HAS a conforming alternative (`conforms_disj_alt`,
  pigeonhole on the decreasing chain `conf n`), and normalisation of nested disjunctions preserves conformance
  (`Norm.conforms_norm`, Lemmas/ConformsNorm.lean: one level of the chain is lost per flattened nesting).
  The closed set of a case is the universe `chkU` of Spec/WorkBound.lean (`closedC_chkU`, closure lemmas of
  Lemmas/TypeCheckTerm.lean), well formed by `nodeWF_baseU` / `Norm.wfChk_norm`.
-/
import Parsley.Model.TypeCheck
import Parsley.Spec.Conforms
import Parsley.Spec.WorkBound
import Parsley.Spec.TypeCheckFrag
import Parsley.Lemmas.TypeCheckTerm
import Parsley.Lemmas.TypeCheckSound
import Parsley.Lemmas.ConformsMono
import Parsley.Spec.TypeCheckWF
import Parsley.Lemmas.ConformsNorm
namespace Parsley.TC.Complete
open Parsley Parsley.TC Parsley.TC.Spec Parsley.TC.Term Parsley.TC.Sound Parsley.C08 Parsley.TC.Frag

/-- the repair flags the completeness proof needs (all others are free: they only make the machine skip less) -/
structure FixC (fx : Fix) : Prop where
  staleIdx : fx.staleIdx = true
  staleErr : fx.staleErr = true
  namedDisj : fx.namedDisj = true
  disjAttrs : fx.disjAttrs = true
  refChain : fx.refChain = true
  trail : fx.trail = false

theorem fixC_tree : FixC Fix.tree := by constructor <;> rfl

/-! ### LOCAL: the per-type cases at a conforming pair -/

def Rsv (ctx : Ctx) (k : Chk) : Prop := (resolve ctx k).isSome = true

theorem dictEnts_ok (fx : Fix) (ctx : Ctx) (f : Obj → Chk → Bool) (kvs : ObjL) :
    ∀ (l : ChkL) (acc : List Pend), (∀ k ∈ l.chks, Rsv ctx k) →
      (∀ k', dictEnts fx ctx kvs l acc ≠ .hard k') ∧
      (l.toList.all (entOK f kvs) = true →
        ∃ chks, dictEnts fx ctx kvs l acc = .ok chks ∧ ∀ q ∈ chks, q ∈ acc ∨ pf f q = true)
  | .nil, acc, _ => by
    simp only [dictEnts]
    exact ⟨by simp, fun _ => ⟨_, rfl, fun q hq => Or.inl (List.mem_reverse.mp hq)⟩⟩
  | .cons key opt chk t, acc, hk => by
    have hk' : ∀ k ∈ t.chks, Rsv ctx k := fun k hk0 => hk k (by rw [chks_cons]; simp [hk0])
    have hc : Rsv ctx chk := hk chk (by rw [chks_cons]; simp)
    have ih := fun acc => dictEnts_ok fx ctx f kvs t acc hk'
    cases hr : resolve ctx chk with
    | none => simp [Rsv, hr] at hc
    | some r =>
      simp only [dictEnts, hr, ChkL.toList, List.all_cons, Bool.and_eq_true]
      cases hg : kvs.get key with
      | none =>
        cases opt <;> simp only [entOK, hg]
        · exact ⟨by simp, by simp⟩
        · exact ⟨(ih acc).1, fun h => (ih acc).2 h.2⟩
        · exact ⟨(ih acc).1, fun h => (ih acc).2 h.2⟩
      | some v =>
        cases opt
        case forbidden => simp only [entOK, hg]; exact ⟨by simp, by simp⟩
        all_goals
          simp only [entOK, hg]
          cases hs : anyShortcut fx r
          · simp only [Bool.false_eq_true, if_false]
            refine ⟨(ih _).1, fun h => ?_⟩
            obtain ⟨chks, h1, h2⟩ := (ih ((v, chk) :: acc)).2 h.2
            refine ⟨chks, h1, fun q hq => ?_⟩
            rcases h2 q hq with h3 | h3
            · simp only [List.mem_cons] at h3
              rcases h3 with h3 | h3
              · right; subst h3; exact h.1
              · left; exact h3
            · right; exact h3
          · simp only [if_true]
            exact ⟨(ih acc).1, fun h => (ih acc).2 h.2⟩

theorem streamEnts_ok (fx : Fix) (ctx : Ctx) (f : Obj → Chk → Bool) (kvs : ObjL) :
    ∀ (l : ChkL) (res : Option EK) (acc : List Pend), (∀ k ∈ l.chks, Rsv ctx k) →
      (∀ k', streamEnts fx ctx kvs l res acc ≠ .hard k') ∧
      (res = none → l.toList.all (entOK f kvs) = true →
        ∃ chks, streamEnts fx ctx kvs l res acc = .ok chks ∧ ∀ q ∈ chks, q ∈ acc ∨ pf f q = true)
  | .nil, res, acc, _ => by
    simp only [streamEnts]
    refine ⟨by cases res <;> simp, fun hres _ => ?_⟩
    subst hres
    exact ⟨_, rfl, fun q hq => Or.inl (List.mem_reverse.mp hq)⟩
  | .cons key opt chk t, res, acc, hk => by
    have hk' : ∀ k ∈ t.chks, Rsv ctx k := fun k hk0 => hk k (by rw [chks_cons]; simp [hk0])
    have hc : Rsv ctx chk := hk chk (by rw [chks_cons]; simp)
    have ih := fun res acc => streamEnts_ok fx ctx f kvs t res acc hk'
    cases hr : resolve ctx chk with
    | none => simp [Rsv, hr] at hc
    | some r =>
      simp only [streamEnts, hr, ChkL.toList, List.all_cons, Bool.and_eq_true]
      cases hg : kvs.get key with
      | none =>
        cases opt <;> simp only [entOK, hg]
        · exact ⟨(ih _ acc).1, by simp⟩
        · exact ⟨(ih _ acc).1, fun h0 h => (ih _ acc).2 h0 h.2⟩
        · exact ⟨(ih _ acc).1, fun h0 h => (ih _ acc).2 h0 h.2⟩
      | some v =>
        cases opt
        case forbidden => simp only [entOK, hg]; exact ⟨(ih _ acc).1, by simp⟩
        all_goals
          simp only [entOK, hg]
          cases hs : anyShortcut fx r
          · simp only [Bool.false_eq_true, if_false]
            refine ⟨(ih _ _).1, fun h0 h => ?_⟩
            obtain ⟨chks, h1, h2⟩ := (ih res ((v, chk) :: acc)).2 h0 h.2
            refine ⟨chks, h1, fun q hq => ?_⟩
            rcases h2 q hq with h3 | h3
            · simp only [List.mem_cons] at h3
              rcases h3 with h3 | h3
              · right; subst h3; exact h.1
              · left; exact h3
            · right; exact h3
          · simp only [if_true]
            exact ⟨(ih _ acc).1, fun h0 h => (ih _ acc).2 h0 h.2⟩

theorem starEnts_ok (fx : Fix) (f : Obj → Chk → Bool) (specified : List Bytes) (sopt : KeySpec) (schk r : Chk) :
    ∀ (l : List (Bytes × Obj)) (acc : List Pend),
      (∀ k', starEnts fx specified sopt schk r l acc ≠ .hard k') ∧
      (l.all (fun kv => specified.contains kv.1 || (decide (sopt ≠ .forbidden) && f kv.2 schk)) = true →
        ∃ chks, starEnts fx specified sopt schk r l acc = .ok chks ∧ ∀ q ∈ chks, q ∈ acc ∨ pf f q = true)
  | [], acc => by
    simp only [starEnts]
    exact ⟨by simp, fun _ => ⟨_, rfl, fun q hq => Or.inl (List.mem_reverse.mp hq)⟩⟩
  | (k, v) :: t, acc => by
    have ih := fun acc => starEnts_ok fx f specified sopt schk r t acc
    simp only [starEnts, List.all_cons, Bool.and_eq_true]
    cases hsp : specified.contains k
    · simp only [Bool.false_eq_true, if_false, Bool.false_or]
      cases sopt
      case forbidden => exact ⟨by simp, by simp⟩
      all_goals
        simp only []
        cases hs : anyShortcut fx r
        · simp only [Bool.false_eq_true, if_false]
          refine ⟨(ih _).1, fun h => ?_⟩
          obtain ⟨chks, h1, h2⟩ := (ih ((v, schk) :: acc)).2 h.2
          refine ⟨chks, h1, fun q hq => ?_⟩
          rcases h2 q hq with h3 | h3
          · simp only [List.mem_cons] at h3
            rcases h3 with h3 | h3
            · right; subst h3; simpa [pf] using h.1
            · left; exact h3
          · right; exact h3
        · simp only [if_true]
          exact ⟨(ih acc).1, fun h => (ih acc).2 h.2⟩
    · simp only [if_true, Bool.true_or, true_and]
      exact ih acc

/-- the verdict of an action at a conforming pair: no hard exit, no failure; what is queued satisfies `f` -/
def ActOK (f : Obj → Chk → Bool) : Act → Prop
  | .pass => True
  | .push ps => ∀ q ∈ ps, pf f q = true
  | _ => False

def NotHard : Act → Prop
  | .hard _ => False
  | _ => True

theorem ofPred_ok (f : Obj → Chk → Bool) (p : Option Pred) (o : Obj) (h : predOK p o = true) :
    ActOK f (ofPred (checkPred p o)) := by
  rw [← checkPred_predOK] at h
  cases hc : checkPred p o <;> simp [hc] at h
  simp [ofPred, ActOK]

theorem ofPred_notHard (r : Option EK) : NotHard (ofPred r) := by
  cases r <;> simp [ofPred, NotHard]

theorem ofEntRes_ok (fx : Fix) (f : Obj → Chk → Bool) (a : Attr) (o : Obj) (chks : List Pend)
    (h : predOK a.pred o = true) (hq : ∀ q ∈ chks, pf f q = true) : ActOK f (ofEntRes fx a o (.ok chks)) := by
  rw [← checkPred_predOK] at h
  simp only [ofEntRes]
  cases hc : checkPred a.pred o <;> simp [hc] at h
  split <;> exact hq

theorem ofEntRes_notHard (fx : Fix) (a : Attr) (o : Obj) (r : EntRes) (h : ∀ k, r ≠ .hard k) :
    NotHard (ofEntRes fx a o r) := by
  cases r with
  | hard k => exact absurd rfl (h k)
  | fail k => simp [ofEntRes, NotHard]
  | ok chks =>
    simp only [ofEntRes]
    split
    · split <;> simp [NotHard]
    · simp [NotHard]

theorem zipHet_ok (f : Obj → Chk → Bool) : ∀ (xs : List Obj) (cs : List Chk), pairsOK f xs cs = true →
    ∀ q ∈ zipHet xs cs, pf f q = true
  | [], [], _ => by simp [zipHet]
  | [], _ :: _, h => by simp [pairsOK] at h
  | _ :: _, [], h => by simp [pairsOK] at h
  | x :: xs, c :: cs, h => by
    simp only [pairsOK, Bool.and_eq_true] at h
    intro q hq
    simp only [zipHet, List.mem_cons] at hq
    rcases hq with hq | hq
    · subst hq; exact h.1
    · exact zipHet_ok f xs cs h.2 q hq

theorem pairsOK_length (f : Obj → Chk → Bool) : ∀ (xs : List Obj) (cs : List Chk), pairsOK f xs cs = true →
    xs.length = cs.length
  | [], [], _ => rfl
  | [], _ :: _, h => by simp [pairsOK] at h
  | _ :: _, [], h => by simp [pairsOK] at h
  | x :: xs, c :: cs, h => by
    simp only [pairsOK, Bool.and_eq_true] at h
    simp [pairsOK_length f xs cs h.2]

/-- the kids of a well-formed node resolve -/
def KidsRsv (ctx : Ctx) (c : Chk) : Prop := ∀ k ∈ chkKids c, Rsv ctx k

theorem checkShape_notHard (fx : Fix) (ctx : Ctx) (o : Obj) (c : Chk) (hk : KidsRsv ctx c)
    (hn : ∀ n, c ≠ .named n) (hd : c.isDisj = false) : NotHard (checkShape fx ctx o c) := by
  cases c with
  | named n => exact absurd rfl (hn n)
  | disj a os => simp [Chk.isDisj] at hd
  | any a => exact ofPred_notHard _
  | prim a p =>
    simp only [checkShape]
    split
    · exact ofPred_notHard _
    · simp [NotHard]
  | array a e s =>
    cases o with
    | arr xs =>
      simp only [checkShape]
      have he : Rsv ctx e := hk e (by simp [chkKids])
      cases hr : resolve ctx e with
      | none => simp [Rsv, hr] at he
      | some er =>
        have fin : NotHard (if anyShortcut fx er = true then ofPred (checkPred a.pred (Obj.arr xs))
            else ofEntRes fx a (Obj.arr xs) (EntRes.ok (List.map (fun x => (x, e)) xs.vals))) := by
          split
          · exact ofPred_notHard _
          · exact ofEntRes_notHard _ _ _ _ (by simp)
        cases s with
        | none => simpa using fin
        | some sz =>
          simp only []
          by_cases hl : xs.vals.length = sz
          · simpa [hl] using fin
          · simp [hl, NotHard]
    | _ => simp [checkShape, NotHard]
  | het a es =>
    cases o with
    | arr xs =>
      simp only [checkShape]
      split
      · simp [NotHard]
      · exact ofEntRes_notHard _ _ _ _ (by simp)
    | _ => simp [checkShape, NotHard]
  | dict a es =>
    cases o with
    | dict kvs =>
      simp only [checkShape]
      exact ofEntRes_notHard _ _ _ _
        (dictEnts_ok fx ctx (fun _ _ => true) kvs es [] (fun k hk' => hk k (by simpa [chkKids] using hk'))).1
    | _ => simp [checkShape, NotHard]
  | stream a es =>
    cases o with
    | stream kvs st ct =>
      simp only [checkShape]
      exact ofEntRes_notHard _ _ _ _
        (streamEnts_ok fx ctx (fun _ _ => true) kvs es none [] (fun k hk' => hk k (by simpa [chkKids] using hk'))).1
    | _ => simp [checkShape, NotHard]
  | dictStar a es so sc =>
    cases o with
    | dict kvs =>
      simp only [checkShape]
      have h1 := (dictEnts_ok fx ctx (fun _ _ => true) kvs es []
        (fun k hk' => hk k (by simp [chkKids, hk']))).1
      cases hd1 : dictEnts fx ctx kvs es [] with
      | hard k => exact absurd hd1 (h1 k)
      | fail k => simp [NotHard]
      | ok chks =>
        simp only []
        have hsc : Rsv ctx sc := hk sc (by simp [chkKids])
        cases hr : resolve ctx sc with
        | none => simp [Rsv, hr] at hsc
        | some r =>
          simp only []
          have h2 := (starEnts_ok fx (fun _ _ => true) (es.toList.map (·.1)) so sc r kvs.toList []).1
          cases hs : starEnts fx (es.toList.map (·.1)) so sc r kvs.toList [] with
          | hard k => exact absurd hs (h2 k)
          | fail k => simp [NotHard]
          | ok chks2 => exact ofEntRes_notHard _ _ _ _ (by simp)
    | _ => simp [checkShape, NotHard]

theorem checkShape_ok (fx : Fix) (ctx : Ctx) (f : Obj → Chk → Bool) (o : Obj) (c : Chk) (hk : KidsRsv ctx c)
    (hp : predOK c.attr.pred o = true) (hs : shapeOK f o o c = true) (hd : c.isDisj = false) :
    ActOK f (checkShape fx ctx o c) := by
  cases c with
  | named n => simp [shapeOK] at hs
  | disj a os => simp [Chk.isDisj] at hd
  | any a => exact ofPred_ok f _ _ hp
  | prim a p =>
    simp only [checkShape, primMatches_eq]
    simp only [shapeOK] at hs
    simp only [hs, if_true]
    exact ofPred_ok f _ _ hp
  | array a e s =>
    cases o with
    | arr xs =>
      simp only [shapeOK, Bool.and_eq_true, List.all_eq_true] at hs
      simp only [checkShape]
      have he : Rsv ctx e := hk e (by simp [chkKids])
      cases hr : resolve ctx e with
      | none => simp [Rsv, hr] at he
      | some er =>
        have fin : ActOK f (if anyShortcut fx er = true then ofPred (checkPred a.pred (Obj.arr xs))
            else ofEntRes fx a (Obj.arr xs) (EntRes.ok (List.map (fun x => (x, e)) xs.vals))) := by
          split
          · exact ofPred_ok f _ _ hp
          · apply ofEntRes_ok fx f a _ _ hp
            intro q hq
            simp only [List.mem_map] at hq
            obtain ⟨x, hx, rfl⟩ := hq
            exact hs.2 x hx
        cases s with
        | none => simpa using fin
        | some sz =>
          have hl : xs.vals.length = sz := by simpa using hs.1
          simpa [hl] using fin
    | _ => simp [shapeOK] at hs
  | het a es =>
    cases o with
    | arr xs =>
      simp only [shapeOK] at hs
      simp only [checkShape, pairsOK_length f _ _ hs, ne_eq, not_true_eq_false, if_false]
      exact ofEntRes_ok fx f a _ _ hp (zipHet_ok f _ _ hs)
    | _ => simp [shapeOK] at hs
  | dict a es =>
    cases o with
    | dict kvs =>
      simp only [shapeOK] at hs
      simp only [checkShape]
      obtain ⟨chks, h1, h2⟩ := (dictEnts_ok fx ctx f kvs es []
        (fun k hk' => hk k (by simpa [chkKids] using hk'))).2 hs
      rw [h1]
      exact ofEntRes_ok fx f a _ _ hp (fun q hq => by simpa using h2 q hq)
    | _ => simp [shapeOK] at hs
  | stream a es =>
    cases o with
    | stream kvs st ct =>
      simp only [shapeOK] at hs
      simp only [checkShape]
      obtain ⟨chks, h1, h2⟩ := (streamEnts_ok fx ctx f kvs es none []
        (fun k hk' => hk k (by simpa [chkKids] using hk'))).2 rfl hs
      rw [h1]
      exact ofEntRes_ok fx f a _ _ hp (fun q hq => by simpa using h2 q hq)
    | _ => simp [shapeOK] at hs
  | dictStar a es so sc =>
    cases o with
    | dict kvs =>
      simp only [shapeOK, Bool.and_eq_true] at hs
      simp only [checkShape]
      obtain ⟨chks, h1, h2⟩ := (dictEnts_ok fx ctx f kvs es []
        (fun k hk' => hk k (by simp [chkKids, hk']))).2 hs.1
      rw [h1]
      simp only []
      have hsc : Rsv ctx sc := hk sc (by simp [chkKids])
      cases hr : resolve ctx sc with
      | none => simp [Rsv, hr] at hsc
      | some r =>
        simp only []
        obtain ⟨chks2, h3, h4⟩ := (starEnts_ok fx f (es.toList.map (·.1)) so sc r kvs.toList []).2 hs.2
        rw [h3]
        simp only []
        apply ofEntRes_ok fx f a _ _ hp
        intro q hq
        simp only [List.mem_append] at hq
        rcases hq with hq | hq
        · simpa using h2 q hq
        · simpa using h4 q hq
    | _ => simp [shapeOK] at hs

/-! ### facts about `Conforms` (the limit reading) -/

theorem conf_le (g : Graph) (ctx : Ctx) (m : Nat) :
    ∀ (n : Nat), m ≤ n → ∀ o c, conf g ctx n o c = true → conf g ctx m o c = true
  | 0, h, o, c, hc => by
    have : m = 0 := by omega
    subst this; exact hc
  | n+1, h, o, c, hc => by
    by_cases hm : m = n + 1
    · subst hm; exact hc
    · exact conf_le g ctx m n (by omega) o c (conforms_antitone g ctx n o c hc)

/-- a finite disjunction that holds at every level has ONE alternative that holds at every level
    (pigeonhole on the decreasing chain) -/
theorem conforms_alt_list (g : Graph) (ctx : Ctx) (o : Obj) : ∀ (l : List Chk),
    (∀ n, l.any (fun alt => conf g ctx n o alt) = true) → ∃ alt ∈ l, Conforms g ctx o alt
  | [], h => by simpa using h 0
  | c :: t, h => by
    by_cases hc : Conforms g ctx o c
    · exact ⟨c, by simp, hc⟩
    · have : ∃ n0, conf g ctx n0 o c = false := by
        apply Classical.byContradiction
        intro hne
        apply hc
        intro n
        cases hv : conf g ctx n o c
        · exact absurd ⟨n, hv⟩ hne
        · rfl
      obtain ⟨n0, hn0⟩ := this
      have ht : ∀ n, t.any (fun alt => conf g ctx n o alt) = true := by
        intro n
        have := h (max n n0)
        simp only [List.any_cons, Bool.or_eq_true] at this
        rcases this with h1 | h1
        · have := conf_le g ctx n0 (max n n0) (by omega) o c h1
          rw [hn0] at this; cases this
        · simp only [List.any_eq_true] at h1 ⊢
          obtain ⟨alt, ha, hv⟩ := h1
          exact ⟨alt, ha, conf_le g ctx n (max n n0) (by omega) o alt hv⟩
      obtain ⟨alt, ha, hv⟩ := conforms_alt_list g ctx o t ht
      exact ⟨alt, by simp [ha], hv⟩

/-- what a conforming (object, disjunction) pair gives: the guard, the bare disjunction, and an alternative -/
theorem conforms_disj_alt (g : Graph) (ctx : Ctx) (o : Obj) (a : Attr) (os : ChkL)
    (h : Conforms g ctx o (.disj a os)) :
    Conforms g ctx o (.any a) ∧ Conforms g ctx o (.disj Attr.dflt os) ∧
    ∃ (j : Nat) (alt : Chk), os.chks[j]? = some alt ∧ Conforms g ctx o alt := by
  have hn : ∀ n, indOK o a.ind = true ∧ predOK a.pred (value g o) = true ∧
      os.chks.any (fun alt => conf g ctx n o alt) = true := by
    intro n
    have := h (n + 1)
    simp only [conf, confStep, resolve, Chk.attr, shapeOK, Bool.and_eq_true] at this
    exact ⟨this.1.1, this.1.2, this.2⟩
  refine ⟨?_, ?_, ?_⟩
  · intro n
    cases n with
    | zero => rfl
    | succ n => simp [conf, confStep, resolve, Chk.attr, shapeOK, (hn 0).1, (hn 0).2.1]
  · intro n
    cases n with
    | zero => rfl
    | succ n =>
      simp only [conf, confStep, resolve, Chk.attr, shapeOK, Attr.dflt, indOK, predOK, Bool.true_and]
      exact (hn n).2.2
  · obtain ⟨alt, ha, hv⟩ := conforms_alt_list g ctx o os.chks (fun n => (hn n).2.2)
    obtain ⟨j, hj⟩ := List.mem_iff_getElem?.mp ha
    exact ⟨j, alt, hj, hv⟩

/-! ### LOCAL, assembled: what `processCheck` does at a well-formed node -/

/-- a set of checks closed under everything the machine derives from a queued check (resolution, the form without
    indirect requirement, sub-checks, guard and bare form of a disjunction), all of whose members are well formed:
    they resolve to a representation, and no disjunction is empty -/
def ClosedC (ctx : Ctx) (G : Chk → Prop) : Prop :=
  ∀ tc, G tc → ∃ c, resolve ctx tc = some c ∧ (∀ n, c ≠ .named n) ∧ G c ∧ G c.allowInd ∧ (∀ k ∈ chkKids c, G k) ∧
    (∀ a os, c = .disj a os → os.chks ≠ [] ∧ (a ≠ Attr.dflt → G (.any a)) ∧ G (.disj Attr.dflt os))

def ActSpec (g : Graph) (ctx : Ctx) (o : Obj) (tc c : Chk) : Act → Prop
  | .hard _ => False
  | .fail _ => ¬ CConf g ctx (o, tc)
  | .pass => True
  | .ret p => p.2 = c.allowInd ∧ c.isDisj = false ∧ (CConf g ctx (o, tc) → CConf g ctx p)
  | .push ps => (∀ q ∈ ps, q.2 ∈ chkKids c) ∧ (CConf g ctx (o, tc) → ∀ q ∈ ps, CConf g ctx q)
  | .pushRaw ps => ps = [(o, c)] ∧ c.isDisj = true

theorem resolve_self (ctx : Ctx) (c : Chk) (hn : ∀ n, c ≠ .named n) : resolve ctx c = some c := by
  cases c <;> first | rfl | exact absurd rfl (hn _)

theorem allowInd_not_named (c : Chk) (hn : ∀ n, c ≠ .named n) : ∀ n, c.allowInd ≠ .named n := by
  cases c <;> first | exact absurd rfl (hn _) | (intro n h; cases h)

theorem allowInd_attr (c : Chk) (hn : ∀ n, c ≠ .named n) : c.allowInd.attr = { c.attr with ind := .allowed } := by
  cases c <;> first | rfl | exact absurd rfl (hn _)

theorem allowInd_isDisj (c : Chk) : c.allowInd.isDisj = c.isDisj := by cases c <;> rfl

theorem checkShape_spec (fx : Fix) (g : Graph) (ctx : Ctx) (o : Obj) (tc c : Chk) (hres : resolve ctx tc = some c)
    (hn : ∀ n, c ≠ .named n) (hk : KidsRsv ctx c) (hd : c.isDisj = false) (ho : o.isRef = false) :
    ActSpec g ctx o tc c (checkShape fx ctx o c) := by
  have hns := checkShape_notHard fx ctx o c hk hn hd
  have hpush := checkShape_closed fx ctx o c
  have hok : CConf g ctx (o, tc) → ∀ n, ActOK (conf g ctx n) (checkShape fx ctx o c) := by
    intro h n
    have := h (n + 1)
    simp only [conf] at this
    rw [confStep_res g ctx _ o tc c hres, value_nonref g o ho] at this
    simp only [Bool.and_eq_true] at this
    exact checkShape_ok fx ctx (conf g ctx n) o c hk this.1.2 this.2 hd
  cases hcs : checkShape fx ctx o c with
  | hard k => rw [hcs] at hns; exact hns
  | fail k => intro h; have := hok h 0; rw [hcs] at this; exact this
  | pass => trivial
  | ret p => exact absurd hcs (hpush.2.1 p)
  | pushRaw ps => exact absurd hcs (hpush.2.2 ps)
  | push ps =>
    refine ⟨fun q hq => ((hpush.1 ps hcs).1 q hq).2, fun h q hq n => ?_⟩
    have := hok h n
    rw [hcs] at this
    exact this q hq

theorem processCheck_spec {fx : Fix} (hfx : FixC fx) (g : Graph) (ctx : Ctx) (o : Obj) (tc c : Chk)
    (hres : resolve ctx tc = some c) (hn : ∀ n, c ≠ .named n) (hk : KidsRsv ctx c) :
    ActSpec g ctx o tc c (processCheck fx g ctx o tc c) := by
  unfold processCheck
  cases hd : c.isDisj
  · simp only [Bool.and_false, Bool.false_eq_true, if_false]
    have hfail : ∀ k, indOK o c.attr.ind = false → ActSpec g ctx o tc c (.fail k) := by
      intro k hi h
      have := h 1
      simp only [conf] at this
      rw [confStep_res g ctx _ o tc c hres, hi] at this
      simp at this
    cases hr : o.isRef
    · -- a value
      have hsh := checkShape_spec fx g ctx o tc c hres hn hk hd hr
      cases hi : c.attr.ind <;> cases o <;> first
        | (simp [Obj.isRef] at hr; done)
        | (simp only []; exact hsh)
        | (simp only []; exact hfail _ (by simp [hi, indOK, Obj.isRef]))
    · cases o with
      | ref a b =>
        cases hi : c.attr.ind
        case forbidden => simp only []; exact hfail _ (by simp [hi, indOK, Obj.isRef])
        all_goals
          simp only [hfx.refChain, if_true]
          refine ⟨rfl, hd, fun h n => ?_⟩
          cases n with
          | zero => rfl
          | succ m =>
            have := h (m + 1)
            simp only [conf] at this ⊢
            rw [confStep_res g ctx _ _ tc c hres] at this
            rw [confStep_res g ctx _ _ c.allowInd c.allowInd (resolve_self ctx _ (allowInd_not_named c hn)),
              allowInd_attr c hn]
            have hv : g.chase (g.length + 1) (.ref a b) = value g (.ref a b) := (deref_eq_chase g _ _).symm
            simp only [hv, value_nonref g _ (value_not_ref g (.ref a b)), indOK, Bool.true_and]
            simp only [Bool.and_eq_true] at this
            rw [← shapeOK_allowInd _ (.ref a b) _ _ c hd]
            simp [this.1.2, this.2]
      | _ => simp [Obj.isRef] at hr
  · simp only [hfx.namedDisj, Bool.and_self, if_true]
    exact ⟨rfl, hd⟩

/-! ### GLOBAL: the invariant of the stack of pending sets -/

/-- `Stk b todo`: the stack read from the top, `b` = "the top is TRUSTED" (everything pending up there is expected to
    pass).  A set that is not an in-progress disjunction has the trust of what is below it, and if trusted all its
    pairs conform.  An in-progress disjunction (index > 0) sits on a stack of trust `b0`; what follows it in its set
    conforms if `b0`; the alternative being tried (and everything above) is trusted only if `b0`, and if `b0` but not
    trusted, an alternative at or after the index conforms. -/
inductive Stk (g : Graph) (ctx : Ctx) : Bool → List Ent → Prop
  | nil : Stk g ctx true []
  | plain {b : Bool} {e : Ent} {rest : List Ent} : Stk g ctx b rest → e.idx = 0 →
      (b = true → ∀ p ∈ e.pending, CConf g ctx p) → Stk g ctx b (e :: rest)
  | prog {b b0 : Bool} {e : Ent} {rest : List Ent} {obj : Obj} {a : Attr} {set : ChkL} {ptl : List Pend} :
      Stk g ctx b0 rest → e.pending = (obj, .disj a set) :: ptl → 0 < e.idx →
      (b0 = true → ∀ p ∈ ptl, CConf g ctx p) → (b = true → b0 = true) →
      (b0 = true → b = false → ∃ (j : Nat) (alt : Chk), e.idx ≤ j ∧ set.chks[j]? = some alt ∧ CConf g ctx (obj, alt)) →
      Stk g ctx b (e :: rest)

def PendG (G : Chk → Prop) (todo : List Ent) : Prop := ∀ e ∈ todo, ∀ p ∈ e.pending, G p.2

/-- the invariant: all pending checks are well formed; the stack has a trust `b` that is false when an error is
    pending; the top set may carry, in front of its in-progress disjunction, the pair returned after a reference
    was followed (then there is no error) -/
def MInv (g : Graph) (ctx : Ctx) (G : Chk → Prop) (todo : List Ent) (err : Option EK) : Prop :=
  PendG G todo ∧ ∃ b : Bool, (∀ k, err = some k → b = false) ∧
    (Stk g ctx b todo ∨
     (err = none ∧ ∃ (e : Ent) (rest : List Ent) (p : Pend), todo = { e with pending := p :: e.pending } :: rest ∧
        0 < e.idx ∧ p.2.isDisj = false ∧ Stk g ctx b (e :: rest) ∧ (b = true → CConf g ctx p)))

theorem unwind_ok (g : Graph) (ctx : Ctx) : ∀ (t : List Ent), Stk g ctx false t →
    ∃ t', unwind t = some t' ∧ Stk g ctx false t' ∧ ∀ e ∈ t', e ∈ t
  | [], h => by cases h
  | e :: rest, h => by
    cases h with
    | plain h1 hidx hc =>
      obtain ⟨t', h2, h3, h4⟩ := unwind_ok g ctx rest h1
      refine ⟨t', ?_, h3, fun e' he' => List.mem_cons_of_mem _ (h4 e' he')⟩
      simp only [unwind, hidx]
      cases e.pending with
      | nil => exact h2
      | cons p ptl => simpa using h2
    | prog h1 hp hidx hc hb hf =>
      refine ⟨e :: rest, ?_, Stk.prog h1 hp hidx hc hb hf, fun _ h => h⟩
      simp [unwind, hp, Chk.isDisj, hidx]

theorem unwindOr_ok (g : Graph) (ctx : Ctx) (G : Chk → Prop) (s : St) (t : List Ent) (k : EK)
    (hs : Stk g ctx false t) (hp : PendG G t) :
    ∃ st', unwindOr s t k = .inl st' ∧ MInv g ctx G st'.todo st'.err := by
  obtain ⟨t', h1, h2, h3⟩ := unwind_ok g ctx t hs
  refine ⟨{ s with todo := t' }, by simp [unwindOr, h1], ?_, false, fun _ _ => rfl, Or.inl h2⟩
  intro e he p hp'
  exact hp e (h3 e he) p hp'

theorem pendG_cons (G : Chk → Prop) (e : Ent) (rest : List Ent) :
    PendG G (e :: rest) ↔ (∀ p ∈ e.pending, G p.2) ∧ PendG G rest := by
  simp [PendG]

theorem kidsRsv_of_closed {ctx : Ctx} {G : Chk → Prop} (hG : ClosedC ctx G) (c : Chk)
    (hk : ∀ k ∈ chkKids c, G k) : KidsRsv ctx c := by
  intro k hk'
  obtain ⟨r, hr, _⟩ := hG k (hk k hk')
  simp [Rsv, hr]

/-- the work-loop body on a well-formed pair that conforms if the top of the stack is trusted -/
theorem issue_ok {fx : Fix} (hfx : FixC fx) (g : Graph) (ctx : Ctx) (G : Chk → Prop) (hG : ClosedC ctx G)
    (s : St) (o : Obj) (tc : Chk) (top : Ent) (rest : List Ent) (htodo : s.todo = top :: rest)
    (hpend : PendG G (top :: rest)) (hGtc : G tc) (b : Bool) (hstk : Stk g ctx b (top :: rest))
    (hb : b = true → CConf g ctx (o, tc)) :
    ∃ st', issue fx g ctx s o tc = .inl st' ∧ MInv g ctx G st'.todo st'.err := by
  obtain ⟨c, hres, hn, hGc, hGa, hGk, _⟩ := hG tc hGtc
  have hspec := processCheck_spec hfx g ctx o tc c hres hn (kidsRsv_of_closed hG c hGk)
  unfold issue
  simp only [hres]
  cases hex : haveExamined fx s.examined (o, tc)
  · simp only [Bool.false_eq_true, if_false]
    cases hpc : processCheck fx g ctx o tc c with
    | hard k => rw [hpc] at hspec; exact hspec.elim
    | fail k =>
      rw [hpc] at hspec
      refine ⟨_, rfl, ?_⟩
      simp only [htodo]
      refine ⟨hpend, false, fun _ _ => rfl, Or.inl ?_⟩
      cases b
      · exact hstk
      · exact absurd (hb rfl) hspec
    | pass =>
      refine ⟨_, rfl, ?_⟩
      simp only [htodo]
      exact ⟨hpend, b, by simp, Or.inl hstk⟩
    | ret p =>
      rw [hpc] at hspec
      obtain ⟨hp2, hd, hpc'⟩ := hspec
      simp only [htodo]
      refine ⟨_, rfl, ?_⟩
      simp only []
      have hGp : G p.2 := by rw [hp2]; exact hGa
      have hpd : p.2.isDisj = false := by rw [hp2, allowInd_isDisj]; exact hd
      refine ⟨?_, b, by simp, ?_⟩
      · rw [pendG_cons] at hpend ⊢
        refine ⟨?_, hpend.2⟩
        intro q hq
        simp only [List.mem_cons] at hq
        rcases hq with hq | hq
        · rw [hq]; exact hGp
        · exact hpend.1 q hq
      · cases hstk with
        | plain h1 hidx hc =>
          left
          refine Stk.plain h1 hidx ?_
          intro hb' q hq
          simp only [List.mem_cons] at hq
          rcases hq with hq | hq
          · rw [hq]; exact hpc' (hb hb')
          · exact hc hb' q hq
        | prog h1 hp hidx hc hb0 hf =>
          right
          exact ⟨rfl, top, rest, p, rfl, hidx, hpd, Stk.prog h1 hp hidx hc hb0 hf, fun hb' => hpc' (hb hb')⟩
    | push ps =>
      rw [hpc] at hspec
      obtain ⟨hkids, hconf⟩ := hspec
      refine ⟨_, rfl, ?_⟩
      unfold pushChecks
      simp only []
      generalize hset : ps.filter (fun p => !haveExamined fx ((o, tc) :: s.examined) p) = set
      have hsub : ∀ q ∈ set, q ∈ ps := by
        intro q hq; rw [← hset] at hq; exact (List.mem_filter.mp hq).1
      cases set with
      | nil =>
        simp only [htodo]
        exact ⟨hpend, b, by simp, Or.inl hstk⟩
      | cons q0 qs =>
        simp only [htodo]
        refine ⟨?_, b, by simp, Or.inl ?_⟩
        · rw [pendG_cons]
          exact ⟨fun q hq => hGk _ (hkids q (hsub q hq)), hpend⟩
        · exact Stk.plain hstk rfl (fun hb' q hq => hconf (hb hb') q (hsub q hq))
    | pushRaw ps =>
      rw [hpc] at hspec
      obtain ⟨hps, hd⟩ := hspec
      subst hps
      refine ⟨_, rfl, ?_⟩
      simp only [htodo]
      refine ⟨?_, b, by simp, Or.inl ?_⟩
      · rw [pendG_cons]
        exact ⟨fun q hq => by simp only [List.mem_singleton] at hq; rw [hq]; exact hGc, hpend⟩
      · refine Stk.plain hstk rfl ?_
        intro hb' q hq
        simp only [List.mem_singleton] at hq
        rw [hq]
        exact (conforms_resolve g ctx o tc c hres (resolve_self ctx c hn)).mp (hb hb')
  · simp only [if_true]
    refine ⟨_, rfl, ?_⟩
    simp only [htodo, hfx.staleErr, if_true]
    exact ⟨hpend, b, by simp, Or.inl hstk⟩

def StepOK (g : Graph) (ctx : Ctx) (G : Chk → Prop) (r : St ⊕ (Outcome × Nat)) : Prop :=
  (∃ st', r = .inl st' ∧ MInv g ctx G st'.todo st'.err) ∨ (∃ n, r = .inr (.accept, n))

theorem stepOK_of {g : Graph} {ctx : Ctx} {G : Chk → Prop} {r : St ⊕ (Outcome × Nat)}
    (h : ∃ st', r = .inl st' ∧ MInv g ctx G st'.todo st'.err) : StepOK g ctx G r := Or.inl h

theorem disj_kids_G {ctx : Ctx} {G : Chk → Prop} (hG : ClosedC ctx G) (a : Attr) (set : ChkL)
    (h : G (.disj a set)) :
    (∀ k ∈ set.chks, G k) ∧ set.chks ≠ [] ∧ (a ≠ Attr.dflt → G (.any a)) ∧ G (.disj Attr.dflt set) := by
  obtain ⟨c, hres, _, _, _, hk, hd⟩ := hG _ h
  simp only [resolve, Option.some.injEq] at hres
  subst hres
  obtain ⟨h1, h2, h3⟩ := hd a set rfl
  exact ⟨fun k hk' => hk k (by simpa [chkKids] using hk'), h1, h2, h3⟩

/-- the non-disjunction head of the top set -/
theorem single_ok {fx : Fix} (hfx : FixC fx) (g : Graph) (ctx : Ctx) (G : Chk → Prop) (hG : ClosedC ctx G)
    (s : St) (e : Ent) (rest : List Ent) (obj : Obj) (tc : Chk) (ptl : List Pend)
    (hp : e.pending = (obj, tc) :: ptl) (hnd : tc.isDisj = false)
    (hinv : MInv g ctx G (e :: rest) s.err) :
    StepOK g ctx G (match s.err with
      | some k => unwindOr s ({ e with pending := ptl } :: rest) k
      | none => issue fx g ctx { s with todo := { e with pending := ptl } :: rest } obj tc) := by
  obtain ⟨hpend, b, hberr, hform⟩ := hinv
  rw [pendG_cons] at hpend
  have hpend' : PendG G ({ e with pending := ptl } :: rest) := by
    rw [pendG_cons]
    exact ⟨fun q hq => hpend.1 q (by rw [hp]; exact List.mem_cons_of_mem _ hq), hpend.2⟩
  have hGtc : G tc := hpend.1 (obj, tc) (by rw [hp]; exact List.mem_cons_self)
  cases herr : s.err with
  | some k =>
    simp only []
    have hb := hberr k herr
    subst hb
    rcases hform with hstk | ⟨hnone, _⟩
    · cases hstk with
      | plain h1 hidx hc =>
        exact stepOK_of (unwindOr_ok g ctx G s _ k (Stk.plain h1 hidx (fun h => by cases h)) hpend')
      | prog h1 hp' hidx hc hb0 hf =>
        rw [hp] at hp'
        injection hp' with h1' _
        injection h1' with _ h2'
        rw [h2'] at hnd; simp [Chk.isDisj] at hnd
    · rw [herr] at hnone; cases hnone
  | none =>
    simp only []
    apply stepOK_of
    rcases hform with hstk | ⟨_, e', rest', p, heq, hidx, hpd, hstk, hpc⟩
    · cases hstk with
      | plain h1 hidx hc =>
        refine issue_ok hfx g ctx G hG _ obj tc { e with pending := ptl } rest rfl hpend' hGtc b
          (Stk.plain h1 hidx (fun hb q hq => hc hb q (by rw [hp]; exact List.mem_cons_of_mem _ hq)))
          (fun hb => hc hb (obj, tc) (by rw [hp]; exact List.mem_cons_self))
      | prog h1 hp' hidx hc hb0 hf =>
        rw [hp] at hp'
        injection hp' with h1' _
        injection h1' with _ h2'
        rw [h2'] at hnd; simp [Chk.isDisj] at hnd
    · injection heq with h1 h2
      subst h1; subst h2
      obtain ⟨pd, ix, sn⟩ := e'
      simp only [List.cons.injEq] at hp
      obtain ⟨hp1, hp2⟩ := hp
      subst hp1; subst hp2
      exact issue_ok hfx g ctx G hG _ obj tc ⟨pd, ix, sn⟩ rest rfl hpend' hGtc b hstk hpc

/-- a disjunction at the head of the top set: not started (guard / first alternative) or in progress (passed /
    next alternative / exhausted) -/
theorem disj_ok {fx : Fix} (hfx : FixC fx) (g : Graph) (ctx : Ctx) (G : Chk → Prop) (hG : ClosedC ctx G)
    (s : St) (e : Ent) (rest : List Ent) (obj : Obj) (a : Attr) (set : ChkL) (ptl : List Pend)
    (hp : e.pending = (obj, .disj a set) :: ptl)
    (hinv : MInv g ctx G (e :: rest) s.err) :
    StepOK g ctx G (
        if e.idx > 0 then
          match s.err with
          | none => .inl { s with todo := { e with pending := ptl, idx := 0, snap := none } :: rest }
          | some k =>
            match set.chks[e.idx]? with
            | some c =>
              issue fx g ctx
                (restore fx { s with todo := { e with pending := (obj, .disj a set) :: ptl, idx := e.idx + 1 } :: rest } e)
                obj c
            | none =>
              unwindOr (restore fx s e)
                ({ e with pending := ptl, idx := if fx.staleIdx then 0 else e.idx, snap := none } :: rest) k
        else
          match s.err with
          | some k => unwindOr s ({ e with pending := ptl } :: rest) k
          | none =>
            match set.chks with
            | [] => .inr (.panic "get_next_check: unreachable (empty disjunct)", s.steps)
            | c0 :: _ =>
              if fx.disjAttrs && a != Attr.dflt then
                issue fx g ctx
                  { s with todo := { e with pending := (obj, .disj Attr.dflt set) :: ptl } :: rest }
                  obj (.any a)
              else
                issue fx g ctx
                  { s with todo := { e with pending := (obj, .disj a set) :: ptl, idx := 1,
                                             snap := if fx.trail then some s.examined else none } :: rest }
                  obj c0) := by
  obtain ⟨hpend, b, hberr, hform⟩ := hinv
  rw [pendG_cons] at hpend
  have hpend' : ∀ (i : Nat) (sn : Option (List Pend)), PendG G (({ pending := ptl, idx := i, snap := sn } : Ent) :: rest) := by
    intro i sn
    rw [pendG_cons]
    exact ⟨fun q hq => hpend.1 q (by rw [hp]; exact List.mem_cons_of_mem _ hq), hpend.2⟩
  have hGd : G (.disj a set) := hpend.1 (obj, .disj a set) (by rw [hp]; exact List.mem_cons_self)
  obtain ⟨hGk, hne, hGg, hGb⟩ := disj_kids_G hG a set hGd
  have hpendD : ∀ (a' : Attr), G (.disj a' set) → ∀ (i : Nat) (sn : Option (List Pend)),
      PendG G (({ pending := (obj, .disj a' set) :: ptl, idx := i, snap := sn } : Ent) :: rest) := by
    intro a' ha' i sn
    rw [pendG_cons]
    refine ⟨fun q hq => ?_, hpend.2⟩
    simp only [List.mem_cons] at hq
    rcases hq with hq | hq
    · rw [hq]; exact ha'
    · exact hpend.1 q (by rw [hp]; exact List.mem_cons_of_mem _ hq)
  -- the returned-pair form is impossible: the head is a disjunction
  have hstk : Stk g ctx b (e :: rest) := by
    rcases hform with hstk | ⟨_, e', rest', p, heq, _, hpd, _, _⟩
    · exact hstk
    · injection heq with h1 h2
      subst h1
      simp only [List.cons.injEq] at hp
      rw [hp.1] at hpd
      simp [Chk.isDisj] at hpd
  by_cases hidx : e.idx > 0
  · simp only [hidx, if_true]
    cases hstk with
    | plain h1 hidx0 hc => omega
    | prog h1 hp' hidx' hc hb0 hf =>
      rename_i b0 obj' a' set' ptl'
      rw [hp] at hp'
      simp only [List.cons.injEq, Prod.mk.injEq, Chk.disj.injEq] at hp'
      obtain ⟨⟨ho, ha, hs⟩, hpt⟩ := hp'
      subst ho; subst ha; subst hs; subst hpt
      cases herr : s.err with
      | none =>
        simp only []
        apply stepOK_of
        refine ⟨_, rfl, hpend' 0 none, b0, by simp, Or.inl (Stk.plain h1 rfl hc)⟩
      | some k =>
        simp only []
        have hbf := hberr k herr
        subst hbf
        have hrest : ∀ st : St, restore fx st e = st := by intro st; simp [restore, hfx.trail]
        cases hget : set.chks[e.idx]? with
        | some c =>
          simp only [hrest]
          apply stepOK_of
          have hGc : G c := hGk c (List.mem_of_getElem? hget)
          have hpe := hpendD a hGd (e.idx + 1) e.snap
          cases b0 with
          | false =>
            exact issue_ok hfx g ctx G hG _ obj c _ rest rfl hpe hGc false
              (Stk.prog h1 rfl (Nat.succ_pos _) (fun h => by cases h) (fun h => by cases h) (fun h => by cases h))
              (fun h => by cases h)
          | true =>
            obtain ⟨j, alt, hj, hgj, hcf⟩ := hf rfl rfl
            by_cases hje : j = e.idx
            · subst hje
              rw [hget] at hgj
              injection hgj with hgj
              subst hgj
              exact issue_ok hfx g ctx G hG _ obj c _ rest rfl hpe hGc true
                (Stk.prog h1 rfl (Nat.succ_pos _) hc (fun _ => rfl) (fun _ h => by cases h))
                (fun _ => hcf)
            · exact issue_ok hfx g ctx G hG _ obj c _ rest rfl hpe hGc false
                (Stk.prog h1 rfl (Nat.succ_pos _) hc (fun h => by cases h)
                  (fun _ _ => ⟨j, alt, by simp only []; omega, hgj, hcf⟩))
                (fun h => by cases h)
        | none =>
          simp only [hrest, hfx.staleIdx, if_true]
          apply stepOK_of
          cases b0 with
          | false =>
            exact unwindOr_ok g ctx G s _ k (Stk.plain h1 rfl (fun h => by cases h)) (hpend' 0 none)
          | true =>
            obtain ⟨j, alt, hj, hgj, hcf⟩ := hf rfl rfl
            rw [List.getElem?_eq_none_iff] at hget
            have : set.chks[j]? = none := List.getElem?_eq_none_iff.mpr (by omega)
            rw [this] at hgj; cases hgj
  · simp only [hidx, if_false]
    cases hstk with
    | prog h1 hp' hidx' hc hb0 hf => omega
    | plain h1 hidx0 hc =>
      cases herr : s.err with
      | some k =>
        simp only []
        have hbf := hberr k herr
        subst hbf
        apply stepOK_of
        exact unwindOr_ok g ctx G s _ k (Stk.plain h1 hidx0 (fun h => by cases h)) (hpend' e.idx e.snap)
      | none =>
        simp only []
        cases hch : set.chks with
        | nil => exact absurd hch hne
        | cons c0 cs =>
          simp only []
          have hGc0 : G c0 := hGk c0 (by rw [hch]; exact List.mem_cons_self)
          have hconfD : b = true → CConf g ctx (obj, .disj a set) :=
            fun hb => hc hb _ (by rw [hp]; exact List.mem_cons_self)
          have hconfT : b = true → ∀ q ∈ ptl, CConf g ctx q :=
            fun hb q hq => hc hb q (by rw [hp]; exact List.mem_cons_of_mem _ hq)
          by_cases hattr : (fx.disjAttrs && a != Attr.dflt) = true
          · simp only [hattr, if_true]
            apply stepOK_of
            have hane : a ≠ Attr.dflt := by
              simp only [Bool.and_eq_true, bne_iff_ne] at hattr; exact hattr.2
            refine issue_ok hfx g ctx G hG _ obj (.any a) _ rest rfl (hpendD Attr.dflt hGb e.idx e.snap) (hGg hane) b
              (Stk.plain h1 hidx0 ?_) (fun hb => (conforms_disj_alt g ctx obj a set (hconfD hb)).1)
            intro hb q hq
            simp only [List.mem_cons] at hq
            rcases hq with hq | hq
            · rw [hq]; exact (conforms_disj_alt g ctx obj a set (hconfD hb)).2.1
            · exact hconfT hb q hq
          · simp only [hattr, Bool.false_eq_true, if_false]
            apply stepOK_of
            have hpe := hpendD a hGd 1 (if fx.trail then some s.examined else none)
            cases b with
            | false =>
              exact issue_ok hfx g ctx G hG _ obj c0 _ rest rfl hpe hGc0 false
                (Stk.prog h1 rfl Nat.one_pos (fun h => by cases h) (fun h => by cases h) (fun h => by cases h))
                (fun h => by cases h)
            | true =>
              obtain ⟨j, alt, hgj, hcf⟩ := (conforms_disj_alt g ctx obj a set (hconfD rfl)).2.2
              by_cases hj0 : j = 0
              · subst hj0
                rw [hch] at hgj
                simp only [List.getElem?_cons_zero, Option.some.injEq] at hgj
                subst hgj
                exact issue_ok hfx g ctx G hG _ obj c0 _ rest rfl hpe hGc0 true
                  (Stk.prog h1 rfl Nat.one_pos (hconfT) (fun _ => rfl) (fun _ h => by cases h))
                  (fun _ => hcf)
              · exact issue_ok hfx g ctx G hG _ obj c0 _ rest rfl hpe hGc0 false
                  (Stk.prog h1 rfl Nat.one_pos (hconfT) (fun h => by cases h)
                    (fun _ _ => ⟨j, alt, by simp only []; omega, hgj, hcf⟩))
                  (fun h => by cases h)

/-- one iteration of the `get_next_check` loop keeps the invariant, or the run ends with `accept` -/
theorem step_ok {fx : Fix} (hfx : FixC fx) (g : Graph) (ctx : Ctx) (G : Chk → Prop) (hG : ClosedC ctx G)
    (st0 : St) (hinv : MInv g ctx G st0.todo st0.err) : StepOK g ctx G (step fx g ctx st0) := by
  unfold step
  generalize hst : (if st0.fresh = true then { st0 with steps := st0.steps + 1, fresh := false } else st0) = s
  have hs1 : st0.todo = s.todo := by subst hst; split <;> rfl
  have hs3 : st0.err = s.err := by subst hst; split <;> rfl
  rw [hs1, hs3] at hinv
  clear hst hs1 hs3
  simp only []
  cases htd : s.todo with
  | nil =>
    simp only []
    rw [htd] at hinv
    obtain ⟨_, b, hberr, hform⟩ := hinv
    have hstk : Stk g ctx b [] := by
      rcases hform with h | ⟨_, _, _, _, heq, _⟩
      · exact h
      · cases heq
    cases herr : s.err with
    | some k =>
      have := hberr k herr
      subst this
      cases hstk
    | none => exact Or.inr ⟨_, rfl⟩
  | cons e rest =>
    simp only []
    rw [htd] at hinv
    cases hp : e.pending with
    | nil =>
      simp only []
      obtain ⟨hpend, b, hberr, hform⟩ := hinv
      have hstk : Stk g ctx b (e :: rest) := by
        rcases hform with h | ⟨_, e', _, p, heq, _⟩
        · exact h
        · injection heq with h1 _
          subst h1
          simp at hp
      rw [pendG_cons] at hpend
      cases herr : s.err with
      | none =>
        simp only []
        apply stepOK_of
        cases hstk with
        | plain h1 _ _ => exact ⟨_, rfl, hpend.2, b, by simp, Or.inl h1⟩
        | prog _ hp' _ _ _ _ => rw [hp] at hp'; cases hp'
      | some k =>
        simp only []
        have := hberr k herr
        subst this
        apply stepOK_of
        refine unwindOr_ok g ctx G s _ k hstk ?_
        rw [pendG_cons]; exact hpend
    | cons p ptl =>
      obtain ⟨obj, tc⟩ := p
      simp only []
      cases tc with
      | disj a set => exact disj_ok hfx g ctx G hG s e rest obj a set ptl hp hinv
      | named n => exact single_ok hfx g ctx G hG s e rest obj _ ptl hp rfl hinv
      | any a => exact single_ok hfx g ctx G hG s e rest obj _ ptl hp rfl hinv
      | prim a p => exact single_ok hfx g ctx G hG s e rest obj _ ptl hp rfl hinv
      | array a el sz => exact single_ok hfx g ctx G hG s e rest obj _ ptl hp rfl hinv
      | het a es => exact single_ok hfx g ctx G hG s e rest obj _ ptl hp rfl hinv
      | dict a es => exact single_ok hfx g ctx G hG s e rest obj _ ptl hp rfl hinv
      | dictStar a es so sc => exact single_ok hfx g ctx G hG s e rest obj _ ptl hp rfl hinv
      | stream a es => exact single_ok hfx g ctx G hG s e rest obj _ ptl hp rfl hinv

/-- a run from a state satisfying the invariant never ends with a rejection or a panic -/
theorem run_ok {fx : Fix} (hfx : FixC fx) (g : Graph) (ctx : Ctx) (G : Chk → Prop) (hG : ClosedC ctx G) :
    ∀ (n : Nat) (st : St), MInv g ctx G st.todo st.err →
      (run fx g ctx n st).1 = .accept ∨ (run fx g ctx n st).1 = .outOfFuel
  | 0, st, _ => by simp [run]
  | n+1, st, hinv => by
    simp only [run]
    rcases step_ok hfx g ctx G hG st hinv with ⟨st', h1, h2⟩ | ⟨m, h1⟩
    · rw [h1]; exact run_ok hfx g ctx G hG n st' h2
    · rw [h1]; exact Or.inl rfl

/-- COMPLETENESS over a closed well-formed set of checks `G`, for the machine started on a check of `G` (what
    `check_type` does after `resolve` and `normalize_check`): a conforming object is never rejected -/
theorem run_complete {fx : Fix} (hfx : FixC fx) (g : Graph) (ctx : Ctx) (G : Chk → Prop) (hG : ClosedC ctx G)
    (o : Obj) (c : Chk) (hc : G c) (hconf : Conforms g ctx o c) (fuel : Nat) :
    (run fx g ctx fuel (initSt o c)).1 = .accept ∨ (run fx g ctx fuel (initSt o c)).1 = .outOfFuel := by
  apply run_ok hfx g ctx G hG
  refine ⟨?_, true, by simp [initSt], Or.inl ?_⟩
  · intro e he p hp
    simp only [initSt, List.mem_singleton] at he
    subst he
    simp only [List.mem_singleton] at hp
    subst hp; exact hc
  · refine Stk.plain Stk.nil rfl ?_
    intro _ p hp
    simp only [List.mem_singleton] at hp
    subst hp; exact hconf

/-! ### the closed set of a case: the universe `chkU` of Spec/WorkBound.lean under `Frag.wfSpec` -/

/-- a well-formed node: a name is bound to a representation, a disjunction is not empty -/
def NodeWF (ctx : Ctx) (b : Chk) : Prop :=
  (∀ n, b = .named n → ∃ r, ctx.lookup n = some r ∧ ∀ m, r ≠ .named m) ∧ (∀ a, b ≠ .disj a .nil)

theorem nodeWF_plain (ctx : Ctx) (b : Chk) (h1 : ∀ n, b ≠ .named n) (h2 : ∀ a, b ≠ .disj a .nil) : NodeWF ctx b :=
  ⟨fun n hn => absurd hn (h1 n), h2⟩

mutual
theorem nodeWF_subs (ctx : Ctx) : ∀ (c : Chk), wfChk ctx c = true → ∀ b ∈ chkSubs c, NodeWF ctx b
  | .named n, h, b, hb => by
    simp only [chkSubs, List.mem_singleton] at hb
    subst hb
    refine ⟨fun m hm => ?_, fun a ha => (by cases ha)⟩
    injection hm with hm; subst hm
    simp only [wfChk] at h
    cases hl : ctx.lookup n with
    | none => simp [hl] at h
    | some r =>
      refine ⟨r, rfl, fun m hm => ?_⟩
      subst hm
      simp [hl] at h
  | .any a, _, b, hb => by
    simp only [chkSubs, List.mem_singleton] at hb
    subst hb
    exact nodeWF_plain ctx _ (fun _ h => by cases h) (fun _ h => by cases h)
  | .prim a p, _, b, hb => by
    simp only [chkSubs, List.mem_singleton] at hb
    subst hb
    exact nodeWF_plain ctx _ (fun _ h => by cases h) (fun _ h => by cases h)
  | .array a e sz, h, b, hb => by
    simp only [chkSubs, List.mem_cons] at hb
    simp only [wfChk] at h
    rcases hb with hb | hb
    · subst hb; exact nodeWF_plain ctx _ (fun _ h => by cases h) (fun _ h => by cases h)
    · exact nodeWF_subs ctx e h b hb
  | .het a es, h, b, hb => by
    simp only [chkSubs, List.mem_cons] at hb
    simp only [wfChk] at h
    rcases hb with hb | hb
    · subst hb; exact nodeWF_plain ctx _ (fun _ h => by cases h) (fun _ h => by cases h)
    · exact nodeWF_subsL ctx es h b hb
  | .dict a es, h, b, hb => by
    simp only [chkSubs, List.mem_cons] at hb
    simp only [wfChk] at h
    rcases hb with hb | hb
    · subst hb; exact nodeWF_plain ctx _ (fun _ h => by cases h) (fun _ h => by cases h)
    · exact nodeWF_subsL ctx es h b hb
  | .stream a es, h, b, hb => by
    simp only [chkSubs, List.mem_cons] at hb
    simp only [wfChk] at h
    rcases hb with hb | hb
    · subst hb; exact nodeWF_plain ctx _ (fun _ h => by cases h) (fun _ h => by cases h)
    · exact nodeWF_subsL ctx es h b hb
  | .dictStar a es so sc, h, b, hb => by
    simp only [chkSubs, List.mem_cons, List.mem_append] at hb
    simp only [wfChk, Bool.and_eq_true] at h
    rcases hb with hb | hb | hb
    · subst hb; exact nodeWF_plain ctx _ (fun _ h => by cases h) (fun _ h => by cases h)
    · exact nodeWF_subsL ctx es h.1 b hb
    · exact nodeWF_subs ctx sc h.2 b hb
  | .disj a os, h, b, hb => by
    simp only [chkSubs, List.mem_cons] at hb
    simp only [wfChk, Bool.and_eq_true] at h
    rcases hb with hb | hb
    · subst hb
      refine ⟨fun m hm => (by cases hm), fun a' ha => ?_⟩
      injection ha with _ ha
      subst ha
      simp at h
    · exact nodeWF_subsL ctx os h.2 b hb
theorem nodeWF_subsL (ctx : Ctx) : ∀ (l : ChkL), wfChkL ctx l = true → ∀ b ∈ chkLSubs l, NodeWF ctx b
  | .nil, _, b, hb => by simp [chkLSubs] at hb
  | .cons k o c t, h, b, hb => by
    simp only [chkLSubs, List.mem_append] at hb
    simp only [wfChkL, Bool.and_eq_true] at h
    rcases hb with hb | hb
    · exact nodeWF_subs ctx c h.1 b hb
    · exact nodeWF_subsL ctx t h.2 b hb
end

theorem nodeWF_baseU (ctx : Ctx) (c0 : Chk) (h : wfChk ctx c0 = true) (hctx : wfCtx ctx = true) :
    ∀ b ∈ baseU ctx c0, NodeWF ctx b := by
  intro b hb
  simp only [baseU, List.mem_append, List.mem_flatMap] at hb
  rcases hb with hb | ⟨d, hd, hb⟩
  · exact nodeWF_subs ctx c0 h b hb
  · simp only [wfCtx, List.all_eq_true] at hctx
    exact nodeWF_subs ctx d.2 (hctx d hd) b hb

theorem nodeWF_decor (ctx : Ctx) (b d : Chk) (hd : d ∈ decor b) (h : NodeWF ctx b) : NodeWF ctx d := by
  simp only [decor, List.mem_cons, List.not_mem_nil, or_false] at hd
  rcases hd with hd | hd | hd | hd | hd <;> subst hd
  · exact h
  · cases b with
    | named n => exact h
    | disj a os =>
      refine ⟨fun m hm => (by cases hm), fun a' ha => ?_⟩
      simp only [Chk.allowInd, Chk.setAttr, Chk.disj.injEq] at ha
      exact h.2 _ (by rw [ha.2])
    | _ => exact nodeWF_plain ctx _ (fun _ h => by cases h) (fun _ h => by cases h)
  · cases b with
    | named n => exact h
    | disj a os =>
      refine ⟨fun m hm => (by cases hm), fun a' ha => ?_⟩
      simp only [Chk.setAttr, Chk.disj.injEq] at ha
      exact h.2 _ (by rw [ha.2])
    | _ => exact nodeWF_plain ctx _ (fun _ h => by cases h) (fun _ h => by cases h)
  · exact nodeWF_plain ctx _ (fun _ h => by cases h) (fun _ h => by cases h)
  · exact nodeWF_plain ctx _ (fun _ h => by cases h) (fun _ h => by cases h)

theorem chks_ne_nil (os : ChkL) (h : os ≠ .nil) : os.chks ≠ [] := by
  cases os with
  | nil => exact absurd rfl h
  | cons k o c t => simp [ChkL.chks, ChkL.toList]

/-- the universe of a well-formed case is a closed well-formed set -/
theorem closedC_chkU (ctx : Ctx) (c0 : Chk) (hwf : ∀ b ∈ baseU ctx c0, NodeWF ctx b) :
    ClosedC ctx (fun d => d ∈ chkU ctx c0) := by
  have hU : ∀ d ∈ chkU ctx c0, NodeWF ctx d := by
    intro d hd
    simp only [chkU, List.mem_flatMap] at hd
    obtain ⟨b, hb, hd⟩ := hd
    exact nodeWF_decor ctx b d hd (hwf b hb)
  intro tc htc
  have hres : ∃ c, resolve ctx tc = some c ∧ ∀ n, c ≠ .named n := by
    cases tc with
    | named n =>
      obtain ⟨r, hr, hrn⟩ := (hU _ htc).1 n rfl
      exact ⟨r, hr, hrn⟩
    | _ => exact ⟨_, rfl, fun n h => (by cases h)⟩
  obtain ⟨c, hres, hn⟩ := hres
  have hc : c ∈ chkU ctx c0 := chkU_resolve ctx c0 tc c htc hres
  refine ⟨c, hres, hn, hc, chkU_allowInd ctx c0 c hc, fun k hk => chkU_kids ctx c0 c k hc hk, ?_⟩
  intro a os he
  subst he
  have hsp := chkU_split ctx c0 a os hc
  refine ⟨chks_ne_nil os (fun h => (hU _ hc).2 a (by rw [h])), hsp.1, hsp.2⟩

/-- what `wfSpec` says about the check the machine is started on -/
theorem wfSpec_resolve (ctx : Ctx) (chk : Chk) (h : wfSpec ctx chk = true) :
    ∃ rep, resolve ctx chk = some rep ∧ (∀ n, rep ≠ .named n) ∧ wfChk ctx rep = true ∧ wfCtx ctx = true := by
  simp only [wfSpec, Bool.and_eq_true] at h
  cases chk with
  | named n =>
    obtain ⟨r, hr, hrn⟩ := (nodeWF_subs ctx (.named n) h.1 _ (chkSubs_self _)).1 n rfl
    obtain ⟨d, hd, hde⟩ := lookup_mem_ctx ctx n r hr
    have := h.2
    simp only [wfCtx, List.all_eq_true] at this
    exact ⟨r, hr, hrn, by rw [← hde]; exact this d hd, h.2⟩
  | _ => exact ⟨_, rfl, fun n hn => (by cases hn), h.1, h.2⟩

/-- COMPLETENESS of `check_type`, any fuel: a conforming object of a well-formed specification is never rejected
    (and the checker never panics on it) -/
theorem checkType_complete_fuel {fx : Fix} (hfx : FixC fx) (g : Graph) (ctx : Ctx) (o : Obj) (chk : Chk)
    (hwf : wfSpec ctx chk = true) (hconf : Conforms g ctx o chk) (fuel : Nat) :
    (checkTypeFuel fx g ctx fuel o chk).1 = .accept ∨ (checkTypeFuel fx g ctx fuel o chk).1 = .outOfFuel := by
  obtain ⟨rep, hres, hn, hwfr, hwfc⟩ := wfSpec_resolve ctx chk hwf
  unfold checkTypeFuel
  simp only [hres]
  have h1 : Conforms g ctx o rep := (conforms_resolve g ctx o chk rep hres (resolve_self ctx rep hn)).mp hconf
  have h2 : Conforms g ctx o (rep.norm fx) := Norm.conforms_norm fx g ctx o rep h1
  have h3 : wfChk ctx (rep.norm fx) = true := Norm.wfChk_norm fx ctx rep hwfr
  exact run_complete hfx g ctx _ (closedC_chkU ctx (rep.norm fx) (nodeWF_baseU ctx _ h3 hwfc)) o (rep.norm fx)
    (base_sub_chkU ctx _ _ (by simp [baseU, chkSubs_self])) h2 fuel

/-- COMPLETENESS of `check_type` run with the work bound of C09: a conforming object is ACCEPTED -/
theorem checkType_complete {fx : Fix} (hfx : FixC fx) (g : Graph) (ctx : Ctx) (o : Obj) (chk : Chk)
    (hwf : wfSpec ctx chk = true) (hconf : Conforms g ctx o chk) :
    (checkTypeFuel fx g ctx (workBound fx g ctx o chk) o chk).1 = .accept := by
  rcases checkType_complete_fuel hfx g ctx o chk hwf hconf (workBound fx g ctx o chk) with h | h
  · exact h
  · exact absurd h (checkTypeFuel_terminates fx hfx.trail g ctx o chk)

end Parsley.TC.Complete
