/-
  C08, fragment F2: the decidable `Frag.inF2` (Spec/TypeCheckFrag.lean) is an instance of the abstract closure
  condition `Closed2` (Lemmas/TypeCheckF2Defs.lean); a `Closed2` family, extended by its alternatives and by the
  `allow_indirect` forms of its disjunctions, is `Complete.ClosedC`; `normalize_check` is the identity on it.
-/
import Parsley.Lemmas.TypeCheckF2Defs
import Parsley.Lemmas.TypeCheckSound
import Parsley.Lemmas.TypeCheckComplete
namespace Parsley.TC.F2
open Parsley Parsley.TC Parsley.TC.Spec Parsley.TC.Term Parsley.TC.Frag

/-! ### `eraseDups` -/

theorem eraseDups_length_le {α : Type} [BEq α] :
    ∀ (n : Nat) (l : List α), l.length ≤ n → l.eraseDups.length ≤ l.length
  | _, [], _ => by simp
  | 0, a :: as, h => by simp at h
  | n+1, a :: as, h => by
    rw [List.eraseDups_cons]
    have h1 := List.length_filter_le (fun b => !b == a) as
    have h2 := eraseDups_length_le n (as.filter fun b => !b == a)
      (by simp only [List.length_cons] at h; omega)
    simp only [List.length_cons]; omega

theorem nodup_of_eraseDups_length {α : Type} [BEq α] [LawfulBEq α] :
    ∀ (n : Nat) (l : List α), l.length ≤ n → l.eraseDups.length = l.length → l.Nodup
  | _, [], _, _ => List.nodup_nil
  | 0, a :: as, h, _ => by simp at h
  | n+1, a :: as, h, he => by
    rw [List.eraseDups_cons] at he
    have h1 := List.length_filter_le (fun b => !b == a) as
    have h2 := eraseDups_length_le _ (as.filter fun b => !b == a) (Nat.le_refl _)
    simp only [List.length_cons] at he h
    have h3 : (as.filter fun b => !b == a).length = as.length := by omega
    have h4 : as.filter (fun b => !b == a) = as := List.length_filter_eq_length_iff.mp h3 |> List.filter_eq_self.mpr
    rw [h4] at he
    have ih := nodup_of_eraseDups_length n as (by omega) (by omega)
    refine List.nodup_cons.mpr ⟨?_, ih⟩
    intro hm
    have := List.filter_eq_self.mp h4 a hm
    simp at this

theorem nodup_of_eraseDups (l : List Chk) (h : l.eraseDups.length = l.length) : l.Nodup :=
  nodup_of_eraseDups_length l.length l (Nat.le_refl _) h

/-! ### the decidable fragment predicate is an instance of `Closed2` -/

theorem mem_altLists {ctx : Ctx} {L : List Chk} {X : List Chk} :
    X ∈ altLists ctx L ↔ ∃ tc, tc ∈ L ∧ ∃ a os, resolve ctx tc = some (.disj a os) ∧ os.chks = X := by
  simp only [altLists, List.mem_eraseDups, List.mem_filterMap]
  constructor
  · rintro ⟨tc, htc, hm⟩
    refine ⟨tc, htc, ?_⟩
    split at hm
    · rename_i a os hr
      exact ⟨a, os, hr, by simpa using hm⟩
    · cases hm
  · rintro ⟨tc, htc, a, os, hr, rfl⟩
    exact ⟨tc, htc, by simp [hr]⟩

theorem expand2_nodisj {ctx : Ctx} {tc r : Chk} (hr : resolve ctx tc = some r) (hd : r.isDisj = false) :
    expand2 ctx tc = r :: r.allowInd :: chkKids r := by
  unfold expand2
  rw [hr]
  cases r <;> first | rfl | simp [Chk.isDisj] at hd

theorem nodeOK2_nodisj {ctx : Ctx} {r : Chk} (hd : r.isDisj = false) : nodeOK2 ctx r = nodeOK ctx r := by
  cases r <;> first | rfl | simp [Chk.isDisj] at hd

theorem inF2_closed2 (ctx : Ctx) (c : Chk) (h : inF2 ctx c = true) :
    Closed2 ctx (fun k => k ∈ reachable2 ctx c) (fun L => L ∈ altLists ctx (reachable2 ctx c)) ∧
      c ∈ reachable2 ctx c := by
  simp only [inF2, Bool.and_eq_true, List.all_eq_true, List.contains_iff_mem, Bool.or_eq_true,
    Bool.not_eq_true', beq_iff_eq] at h
  obtain ⟨⟨⟨hc, hnode⟩, hpriv⟩, hsep⟩ := h
  have hdisj : ∀ tc ∈ reachable2 ctx c, ∀ a os, resolve ctx tc = some (.disj a os) →
      os.chks ≠ [] ∧ (∀ k ∈ os.chks, isLeafAlt k = true) ∧ os.chks.Nodup := by
    intro tc htc a os hr
    have h1 := (hnode tc htc).1
    simp only [hr, nodeOK2, Bool.and_eq_true, Bool.not_eq_true', List.isEmpty_eq_false_iff,
      List.all_eq_true, decide_eq_true_eq] at h1
    exact ⟨h1.1.1, h1.1.2, nodup_of_eraseDups _ h1.2⟩
  refine ⟨⟨?_, ?_, ?_⟩, hc⟩
  · intro tc htc
    obtain ⟨h1, h2⟩ := hnode tc htc
    cases hr : resolve ctx tc with
    | none => simp [hr] at h1
    | some r =>
      simp only [hr] at h1
      cases hd : r.isDisj with
      | false =>
        rw [nodeOK2_nodisj hd] at h1
        rw [expand2_nodisj hr hd] at h2
        refine ⟨r, rfl, h2 r (by simp), Or.inl ⟨h1, h2 _ (by simp), fun k hk => h2 k (by simp [hk])⟩⟩
      | true =>
        cases r <;> simp [Chk.isDisj] at hd
        rename_i a os
        simp only [expand2, hr] at h2
        refine ⟨.disj a os, rfl, h2 _ (by simp), Or.inr ⟨a, os, rfl, ?_, h2 _ (by simp), h2 _ (by simp)⟩⟩
        exact mem_altLists.mpr ⟨tc, htc, a, os, hr, rfl⟩
  · intro X hX
    obtain ⟨tc, htc, a, os, hr, rfl⟩ := mem_altLists.mp hX
    obtain ⟨e1, e2, e3⟩ := hdisj tc htc a os hr
    refine ⟨e1, e2, e3, fun k hk hm => ?_⟩
    have := hpriv _ hX k hk
    rw [List.contains_iff_mem.mpr hm] at this
    cases this
  · intro X Y hX hY
    rcases hsep X hX Y hY with he | hne
    · exact Or.inl he
    · refine Or.inr fun k hk hm => ?_
      have := hne k hk
      rw [List.contains_iff_mem.mpr hm] at this
      cases this

/-! ### `Closed2` gives `ClosedC` -/

theorem leafAlt_cases {k : Chk} (h : isLeafAlt k = true) :
    (∃ p, k = .any ⟨p, .allowed⟩) ∨ (∃ p q, k = .prim ⟨p, .allowed⟩ q) := by
  cases k <;> simp [isLeafAlt] at h
  · rename_i a; cases a; simp_all
  · rename_i a q; cases a; simp_all

theorem closed2_disj {ctx : Ctx} {G : Chk → Prop} {A : List Chk → Prop} (h : Closed2 ctx G A) {a : Attr} {os : ChkL}
    (hg : G (.disj a os)) : A os.chks ∧ G (.any a) ∧ G (.disj Attr.dflt os) := by
  obtain ⟨c, hres, _, hcase⟩ := h.node _ hg
  simp only [resolve, Option.some.injEq] at hres; subst hres
  rcases hcase with ⟨hn, _⟩ | ⟨a', os', he, hA, h1, h2⟩
  · simp [nodeOK] at hn
  · cases he; exact ⟨hA, h1, h2⟩

theorem closed2_closedC {ctx : Ctx} {G : Chk → Prop} {A : List Chk → Prop} (h : Closed2 ctx G A) :
    Complete.ClosedC ctx (fun tc => G tc ∨ (∃ L, A L ∧ tc ∈ L) ∨
      ∃ a os, G (.disj a os) ∧ tc = .disj { a with ind := .allowed } os) := by
  intro tc htc
  rcases htc with hg | ⟨L, hL, hm⟩ | ⟨a, os, hg, rfl⟩
  · obtain ⟨c, hres, hGc, hcase⟩ := h.node tc hg
    rcases hcase with ⟨hn, hai, hk⟩ | ⟨a, os, rfl, hA, h1, h2⟩
    · refine ⟨c, hres, ?_, Or.inl hGc, Or.inl hai, fun k hk' => Or.inl (hk k hk'), ?_⟩
      · intro n he; subst he; simp [nodeOK] at hn
      · intro a os he; subst he; simp [nodeOK] at hn
    · refine ⟨_, hres, (fun n he => by cases he), Or.inl hGc, Or.inr (Or.inr ⟨a, os, hGc, rfl⟩),
        fun k hk => Or.inr (Or.inl ⟨os.chks, hA, by simpa [chkKids] using hk⟩), ?_⟩
      intro a' os' he
      cases he
      exact ⟨(h.alts _ hA).1, fun _ => Or.inl h1, Or.inl h2⟩
  · have hleaf := (h.alts L hL).2.1 tc hm
    rcases leafAlt_cases hleaf with ⟨p, rfl⟩ | ⟨p, q, rfl⟩
    · refine ⟨_, rfl, (fun n he => by cases he), Or.inr (Or.inl ⟨L, hL, hm⟩), Or.inr (Or.inl ⟨L, hL, hm⟩),
        (fun k hk => by simp [chkKids] at hk), (fun a os he => by cases he)⟩
    · refine ⟨_, rfl, (fun n he => by cases he), Or.inr (Or.inl ⟨L, hL, hm⟩), Or.inr (Or.inl ⟨L, hL, hm⟩),
        (fun k hk => by simp [chkKids] at hk), (fun a os he => by cases he)⟩
  · obtain ⟨hA, h1, h2⟩ := closed2_disj h hg
    refine ⟨_, rfl, (fun n he => by cases he), Or.inr (Or.inr ⟨a, os, hg, rfl⟩), Or.inr (Or.inr ⟨a, os, hg, rfl⟩),
      fun k hk => Or.inr (Or.inl ⟨os.chks, hA, by simpa [chkKids] using hk⟩), ?_⟩
    intro a' os' he
    cases he
    refine ⟨(h.alts _ hA).1, fun _ => Or.inl ?_, Or.inl h2⟩
    obtain ⟨c, hres, _, hcase⟩ := h.node _ h1
    simp only [resolve, Option.some.injEq] at hres; subst hres
    rcases hcase with ⟨_, hai, _⟩ | ⟨a', os', he, _⟩
    · exact hai
    · cases he

/-! ### `normalize_check` is the identity on a `Closed2` family -/

theorem normFlat_leaves (fx : Fix) : ∀ (os : ChkL), (∀ k ∈ os.chks, isLeafAlt k = true) → os.normFlat fx = os
  | .nil, _ => rfl
  | .cons key opt c t, h => by
    have hc := h c (by simp [Sound.chks_cons])
    have ht := normFlat_leaves fx t (fun k hk => h k (by simp [Sound.chks_cons, hk]))
    cases c <;> simp [isLeafAlt] at hc
    all_goals simp only [ChkL.normFlat, Chk.norm, ht]

theorem closed2_kids {ctx : Ctx} {G : Chk → Prop} {A : List Chk → Prop} (h : Closed2 ctx G A) {c : Chk} (hg : G c)
    (hn : ∀ n, c ≠ .named n) (hd : c.isDisj = false) : ∀ k ∈ chkKids c, G k := by
  obtain ⟨c', hres, _, hcase⟩ := h.node _ hg
  rw [Complete.resolve_self ctx c hn] at hres
  simp only [Option.some.injEq] at hres; subst hres
  rcases hcase with ⟨_, _, hk⟩ | ⟨a', os', he, _⟩
  · exact hk
  · subst he; simp [Chk.isDisj] at hd

mutual
theorem closed2_norm_id {ctx : Ctx} {G : Chk → Prop} {A : List Chk → Prop} (h : Closed2 ctx G A) (fx : Fix) :
    ∀ (c : Chk), G c → c.norm fx = c
  | .named n, _ => rfl
  | .any a, _ => rfl
  | .prim a p, _ => rfl
  | .disj a os, hg => by
    have hA := (closed2_disj h hg).1
    simp only [Chk.norm, normFlat_leaves fx os (h.alts _ hA).2.1]
  | .array a e s, hg => by
    have hk := closed2_kids h hg (fun n he => by cases he) rfl
    simp only [Chk.norm, closed2_norm_id h fx e (hk e (by simp [chkKids]))]
  | .het a es, hg => by
    have hk := closed2_kids h hg (fun n he => by cases he) rfl
    simp only [Chk.norm, closed2_normL_id h fx es (fun k hk' => hk k (by simpa [chkKids] using hk'))]
  | .dict a es, hg => by
    have hk := closed2_kids h hg (fun n he => by cases he) rfl
    simp only [Chk.norm, closed2_normL_id h fx es (fun k hk' => hk k (by simpa [chkKids] using hk'))]
  | .stream a es, hg => by
    have hk := closed2_kids h hg (fun n he => by cases he) rfl
    simp only [Chk.norm, closed2_normL_id h fx es (fun k hk' => hk k (by simpa [chkKids] using hk'))]
  | .dictStar a es so sc, hg => by
    have hk := closed2_kids h hg (fun n he => by cases he) rfl
    simp only [Chk.norm, closed2_normL_id h fx es (fun k hk' => hk k (by simp [chkKids, hk'])),
      closed2_norm_id h fx sc (hk sc (by simp [chkKids]))]
theorem closed2_normL_id {ctx : Ctx} {G : Chk → Prop} {A : List Chk → Prop} (h : Closed2 ctx G A) (fx : Fix) :
    ∀ (l : ChkL), (∀ k ∈ l.chks, G k) → l.norm fx = l
  | .nil, _ => rfl
  | .cons key opt c t, hl => by
    simp only [ChkL.norm, closed2_norm_id h fx c (hl c (by simp [Sound.chks_cons])),
      closed2_normL_id h fx t (fun k hk => hl k (by simp [Sound.chks_cons, hk]))]
end

end Parsley.TC.F2
