/-
  C08, fragment F2 (disjunctions of private leaf alternatives): the ABSTRACT closure condition `Closed2` the
  soundness proof of Lemmas/TypeCheckSoundF2.lean works with, and the f-independent reading of a leaf
  alternative / of a list of alternatives.  `Lemmas/TypeCheckF2Closed.lean` shows that the decidable `Frag.inF2`
  (Spec/TypeCheckFrag.lean) is an instance.
-/
import Parsley.Model.TypeCheck
import Parsley.Spec.Conforms
import Parsley.Spec.WorkBound
import Parsley.Spec.TypeCheckFrag
namespace Parsley.TC.F2
open Parsley Parsley.TC Parsley.TC.Spec Parsley.TC.Term Parsley.TC.Frag

/-- `G` = the checks that can be queued OUTSIDE the alternatives of a disjunction, `A` = the lists of alternatives of
    the disjunctions of `G`.
    * every member of `G` resolves inside `G`, either to an F1 node (closed under `allow_indirect` and sub-checks)
      or to a disjunction whose list of alternatives is in `A` and whose guard and bare form are in `G`;
    * a list of alternatives is non-empty, duplicate-free, consists of leaf checks without indirect requirement,
      and is PRIVATE: none of its members is in `G`;
    * two lists of alternatives are equal or disjoint. -/
structure Closed2 (ctx : Ctx) (G : Chk → Prop) (A : List Chk → Prop) : Prop where
  node : ∀ tc, G tc → ∃ c, resolve ctx tc = some c ∧ G c ∧
      ((nodeOK ctx c = true ∧ G c.allowInd ∧ ∀ k ∈ chkKids c, G k) ∨
       (∃ a os, c = .disj a os ∧ A os.chks ∧ G (.any a) ∧ G (.disj Attr.dflt os)))
  alts : ∀ L, A L → L ≠ [] ∧ (∀ k ∈ L, isLeafAlt k = true) ∧ L.Nodup ∧ (∀ k ∈ L, ¬ G k)
  sep : ∀ L L', A L → A L' → L = L' ∨ ∀ k ∈ L, k ∉ L'

/-- the reading of a leaf alternative (no indirect requirement): it looks at the value only -/
def leafOK (g : Graph) (x : Obj) : Chk → Bool
  | .any a => predOK a.pred (value g x)
  | .prim a p => predOK a.pred (value g x) && primOK (value g x) p
  | _ => false

/-- the reading of a list of leaf alternatives -/
def disjOK (g : Graph) (x : Obj) (L : List Chk) : Bool := L.any (leafOK g x)

end Parsley.TC.F2
