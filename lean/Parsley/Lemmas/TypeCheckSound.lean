/-
  C08: the machine of Model/TypeCheck.lean accepts exactly the conforming objects on FRAGMENT F1
  (specifications in which no disjunction is reachable).  Import-light (core + the model/spec files).

  Flags: `FixOK fx` = memoFull, anyAttrs, compoundPred, refChain on, anyInd and trail off; `Fix.tree`
  satisfies it (`fixOK_tree`), `Fix.orig` does not (and the theorem is false for it: Props/C08.lean,
  `F1_fails_for_orig_witness`).

  Plan of the proof.
  * LOCAL: on an F1 node the per-type cases compute one unfolding of the declarative reading:
      `processCheck_nonref`  actVal f (processCheck .. o tc c) = some (confStep g ctx f o tc)
    where `actVal f` reads `fail` as false, `pass` as true and `push ps` as "f holds of all of ps", for every
    `f` that holds of the checks the `Any` short-cut skips (`TrivTrue`; all `conf n` are such).  For a reference
    (`processCheck_ref`): either the indirect requirement forbids it (fail, and confStep is false), or the pair
    (value, c.allow_indirect) is returned to the pending set and has THE SAME unfolding as the reference pair.
  * GLOBAL (`GInv`): with Cov = memo ∪ pending checks,
      gq    every covered check lies in a closed set `G` of F1 checks;
      comp  if the root conforms then every covered pair conforms        (nothing unnecessary is ever queued);
      errc  a pending error refutes the root (on F1 no alternative is ever abandoned: `unwind_none`);
      snd   while there is no error, every memo pair's obligations are covered: a value pair's unfolding
            holds for every f that holds on Cov, a reference pair has the same unfolding as a covered value pair.
    `step_inv` shows one iteration of the get_next_check loop preserves GInv (`issue_inv` for the work-loop
    body) and that a final answer is right: at `accept` the pending stack is empty, so the memo is a
    post-fixed point of `confStep`, hence inside the greatest fixed point `Conforms` (`accept_sound`); a
    reject comes with a refuted required pair.
  * `checkType_F1` / `checkType_F1_iff`: for every closed F1 set `G` containing the check; the decidable
    instance is `inF1` (closure of the reachable checks computed by `reachable`, tested by `closedB`).
-/
import Parsley.Model.TypeCheck
import Parsley.Spec.Conforms
import Parsley.Spec.WorkBound
import Parsley.Spec.TypeCheckFrag
import Parsley.Lemmas.TypeCheckTerm
namespace Parsley.TC.Sound
open Parsley Parsley.TC Parsley.TC.Spec Parsley.TC.Term Parsley.TC.Frag

/-- the repair flags the correctness proof needs -/
structure FixOK (fx : Fix) : Prop where
  memoFull : fx.memoFull = true
  anyAttrs : fx.anyAttrs = true
  compoundPred : fx.compoundPred = true
  refChain : fx.refChain = true
  anyInd : fx.anyInd = false
  trail : fx.trail = false

theorem fixOK_tree : FixOK Fix.tree := by constructor <;> rfl

/-- checks every object conforms to -/
def triv (ctx : Ctx) (k : Chk) : Bool :=
  match resolve ctx k with
  | some (.any a) => a.pred.isNone && decide (a.ind = .allowed)
  | _ => false

def TrivTrue (ctx : Ctx) (f : Obj → Chk → Bool) : Prop := ∀ x k, triv ctx k = true → f x k = true

def pf (f : Obj → Chk → Bool) (q : Pend) : Bool := f q.1 q.2

def entVal (f : Obj → Chk → Bool) : EntRes → Option Bool
  | .hard _ => none
  | .fail _ => some false
  | .ok chks => some (chks.all (pf f))

def actVal (f : Obj → Chk → Bool) : Act → Option Bool
  | .hard _ => none
  | .ret _ => none
  | .pushRaw _ => none
  | .fail _ => some false
  | .pass => some true
  | .push ps => some (ps.all (pf f))

theorem actVal_fail (f : Obj → Chk → Bool) (k : EK) : actVal f (.fail k) = some false := rfl

theorem anyShortcut_eq {fx : Fix} (h : FixOK fx) (r : Chk) :
    anyShortcut fx r = (match r with | .any a => a.pred.isNone | _ => false) := by
  cases r <;> simp [anyShortcut, h.anyInd, h.anyAttrs]

theorem shortcut_triv {fx : Fix} (h : FixOK fx) (ctx : Ctx) (k r : Chk) (hr : resolve ctx k = some r)
    (hk : kidOK ctx k = true) (hs : anyShortcut fx r = true) : triv ctx k = true := by
  rw [anyShortcut_eq h] at hs
  unfold kidOK at hk
  unfold triv
  rw [hr] at hk ⊢
  cases r <;> simp at hs
  rename_i a
  simp only [] at hk ⊢
  cases hp : a.pred <;> simp_all

theorem chks_cons (key : Bytes) (opt : KeySpec) (c : Chk) (t : ChkL) :
    (ChkL.cons key opt c t).chks = c :: t.chks := by simp [ChkL.chks, ChkL.toList]

theorem dictEnts_val {fx : Fix} (h : FixOK fx) (ctx : Ctx) (f : Obj → Chk → Bool) (hf : TrivTrue ctx f)
    (kvs : ObjL) : ∀ (l : ChkL) (acc : List Pend), (∀ k ∈ l.chks, kidOK ctx k = true) →
      entVal f (dictEnts fx ctx kvs l acc) = some (acc.all (pf f) && l.toList.all (entOK f kvs))
  | .nil, acc, _ => by simp [dictEnts, entVal, ChkL.toList, List.all_reverse]
  | .cons key opt chk t, acc, hk => by
    have hk' : ∀ k ∈ t.chks, kidOK ctx k = true := fun k hk0 => hk k (by rw [chks_cons]; simp [hk0])
    have hc : kidOK ctx chk = true := hk chk (by rw [chks_cons]; simp)
    have ih := fun acc => dictEnts_val h ctx f hf kvs t acc hk'
    cases hr : resolve ctx chk with
    | none => simp [kidOK, hr] at hc
    | some r =>
      simp only [dictEnts, hr, ChkL.toList, List.all_cons]
      cases hg : kvs.get key with
      | none =>
        cases opt <;> simp only [entOK, hg] <;> first | (rw [ih]; simp) | simp [entVal]
      | some v =>
        cases opt
        case forbidden => simp [entOK, hg, entVal]
        all_goals
          simp only [entOK, hg]
          cases hs : anyShortcut fx r
          · simp only [Bool.false_eq_true, if_false, ih, List.all_cons, pf]
            congr 1
            cases f v chk <;> simp
          · simp only [if_true, ih]
            have := hf v chk (shortcut_triv h ctx chk r hr hc hs)
            simp [this]

theorem streamEnts_val {fx : Fix} (h : FixOK fx) (ctx : Ctx) (f : Obj → Chk → Bool) (hf : TrivTrue ctx f)
    (kvs : ObjL) : ∀ (l : ChkL) (res : Option EK) (acc : List Pend), (∀ k ∈ l.chks, kidOK ctx k = true) →
      entVal f (streamEnts fx ctx kvs l res acc) =
        some (res.isNone && acc.all (pf f) && l.toList.all (entOK f kvs))
  | .nil, res, acc, _ => by
    cases res <;> simp [streamEnts, entVal, ChkL.toList, List.all_reverse]
  | .cons key opt chk t, res, acc, hk => by
    have hk' : ∀ k ∈ t.chks, kidOK ctx k = true := fun k hk0 => hk k (by rw [chks_cons]; simp [hk0])
    have hc : kidOK ctx chk = true := hk chk (by rw [chks_cons]; simp)
    have ih := fun res acc => streamEnts_val h ctx f hf kvs t res acc hk'
    cases hr : resolve ctx chk with
    | none => simp [kidOK, hr] at hc
    | some r =>
      simp only [streamEnts, hr, ChkL.toList, List.all_cons]
      cases hg : kvs.get key with
      | none =>
        cases opt <;> simp only [entOK, hg] <;> rw [ih] <;> simp
      | some v =>
        cases opt
        case forbidden => simp only [entOK, hg]; rw [ih]; simp
        all_goals
          simp only [entOK, hg]
          cases hs : anyShortcut fx r
          · simp only [Bool.false_eq_true, if_false, ih, List.all_cons, pf]
            congr 1
            cases f v chk <;> simp
          · simp only [if_true, ih]
            have := hf v chk (shortcut_triv h ctx chk r hr hc hs)
            simp [this]

theorem starEnts_val {fx : Fix} (h : FixOK fx) (ctx : Ctx) (f : Obj → Chk → Bool) (hf : TrivTrue ctx f)
    (specified : List Bytes) (sopt : KeySpec) (schk r : Chk) (hr : resolve ctx schk = some r)
    (hc : kidOK ctx schk = true) : ∀ (l : List (Bytes × Obj)) (acc : List Pend),
      entVal f (starEnts fx specified sopt schk r l acc) =
        some (acc.all (pf f) &&
          l.all (fun kv => specified.contains kv.1 || (decide (sopt ≠ .forbidden) && f kv.2 schk)))
  | [], acc => by simp [starEnts, entVal, List.all_reverse]
  | (k, v) :: t, acc => by
    have ih := fun acc => starEnts_val h ctx f hf specified sopt schk r hr hc t acc
    simp only [starEnts, List.all_cons]
    cases hsp : specified.contains k
    · simp only [Bool.false_eq_true, if_false, Bool.false_or]
      cases sopt
      case forbidden => simp [entVal]
      all_goals
        simp only []
        cases hs : anyShortcut fx r
        · simp only [Bool.false_eq_true, if_false, ih, List.all_cons, pf]
          congr 1
          cases f v schk <;> simp
        · simp only [if_true, ih]
          have := hf v schk (shortcut_triv h ctx schk r hr hc hs)
          simp [this]
    · simp only [if_true, ih, Bool.true_or, Bool.true_and]

theorem checkPred_predOK (p : Option Pred) (o : Obj) : (checkPred p o).isNone = predOK p o := by
  cases p with
  | none => rfl
  | some p => simp only [checkPred, predOK]; cases p.eval o <;> simp

theorem ofPred_val (f : Obj → Chk → Bool) (p : Option Pred) (o : Obj) :
    actVal f (ofPred (checkPred p o)) = some (predOK p o) := by
  rw [← checkPred_predOK]
  cases checkPred p o <;> simp [ofPred, actVal]

theorem ofEntRes_val {fx : Fix} (h : FixOK fx) (f : Obj → Chk → Bool) (a : Attr) (o : Obj) (r : EntRes) :
    actVal f (ofEntRes fx a o r) = (entVal f r).map (fun b => predOK a.pred o && b) := by
  cases r with
  | hard k => rfl
  | fail k => simp [ofEntRes, actVal, entVal]
  | ok chks =>
    simp only [ofEntRes, h.compoundPred, if_true, entVal, Option.map_some]
    rw [← checkPred_predOK]
    cases checkPred a.pred o <;> simp [actVal]

theorem pairsOK_zip (f : Obj → Chk → Bool) : ∀ (xs : List Obj) (cs : List Chk),
    pairsOK f xs cs = (decide (xs.length = cs.length) && (zipHet xs cs).all (pf f))
  | [], [] => by simp [pairsOK, zipHet]
  | [], c :: cs => by simp [pairsOK]
  | x :: xs, [] => by simp [pairsOK]
  | x :: xs, c :: cs => by
    simp only [pairsOK, zipHet, List.all_cons, pf, pairsOK_zip f xs cs, List.length_cons, Nat.add_right_cancel_iff]
    cases f x c <;> simp

theorem primMatches_eq (o : Obj) (p : Prim) : primMatches o p = primOK o p := by
  cases o <;> cases p <;> rfl

theorem checkShape_val {fx : Fix} (h : FixOK fx) (ctx : Ctx) (f : Obj → Chk → Bool) (hf : TrivTrue ctx f)
    (o : Obj) (c : Chk) (hc : nodeOK ctx c = true) :
    actVal f (checkShape fx ctx o c) = some (predOK c.attr.pred o && shapeOK f o o c) := by
  cases c with
  | named n => simp [nodeOK] at hc
  | disj a os => simp [nodeOK] at hc
  | any a => simp [checkShape, ofPred_val, shapeOK, Chk.attr]
  | prim a p =>
    simp only [checkShape, shapeOK, Chk.attr, primMatches_eq]
    cases primOK o p
    · simp [actVal]
    · simp only [if_true, ofPred_val]; simp
  | array a e s =>
    simp only [nodeOK] at hc
    cases o with
    | arr xs =>
      simp only [checkShape, shapeOK, Chk.attr]
      cases hr : resolve ctx e with
      | none => simp [kidOK, hr] at hc
      | some er =>
        have fin : actVal f (if anyShortcut fx er = true then ofPred (checkPred a.pred (Obj.arr xs))
              else ofEntRes fx a (Obj.arr xs) (EntRes.ok (List.map (fun x => (x, e)) xs.vals))) =
            some (predOK a.pred (Obj.arr xs) && xs.vals.all (fun x => f x e)) := by
          cases hs : anyShortcut fx er
          · simp only [Bool.false_eq_true, if_false, ofEntRes_val h, entVal, Option.map_some, List.all_map]
            rfl
          · simp only [if_true, ofPred_val]
            have := shortcut_triv h ctx e er hr hc hs
            have : xs.vals.all (fun x => f x e) = true := by
              simp only [List.all_eq_true]; intro x _; exact hf x e this
            simp [this]
        cases s with
        | none => simpa using fin
        | some sz =>
          simp only []
          by_cases hl : xs.vals.length = sz
          · simpa [hl] using fin
          · simp [hl, actVal]
    | _ => simp [checkShape, shapeOK, actVal]
  | het a es =>
    cases o with
    | arr xs =>
      simp only [checkShape, shapeOK, Chk.attr, pairsOK_zip]
      by_cases hl : xs.vals.length = es.chks.length
      · simp [hl, ofEntRes_val h, entVal]
      · simp [hl, actVal]
    | _ => simp [checkShape, shapeOK, actVal]
  | dict a es =>
    simp only [nodeOK, List.all_eq_true] at hc
    cases o with
    | dict kvs =>
      simp only [checkShape, shapeOK, Chk.attr, ofEntRes_val h, dictEnts_val h ctx f hf kvs es [] hc]
      simp
    | _ => simp [checkShape, shapeOK, actVal]
  | stream a es =>
    simp only [nodeOK, List.all_eq_true] at hc
    cases o with
    | stream kvs st ct =>
      simp only [checkShape, shapeOK, Chk.attr, ofEntRes_val h, streamEnts_val h ctx f hf kvs es none [] hc]
      simp
    | _ => simp [checkShape, shapeOK, actVal]
  | dictStar a es so sc =>
    simp only [nodeOK, Bool.and_eq_true, List.all_eq_true] at hc
    cases o with
    | dict kvs =>
      simp only [checkShape, shapeOK, Chk.attr]
      have h1 := dictEnts_val h ctx f hf kvs es [] hc.1
      cases hd : dictEnts fx ctx kvs es [] with
      | hard k => simp [hd, entVal] at h1
      | fail k =>
        simp only [hd, entVal, List.all_nil, Bool.true_and, Option.some.injEq] at h1
        simp [← h1, actVal]
      | ok chks =>
        simp only [hd, entVal, List.all_nil, Bool.true_and, Option.some.injEq] at h1
        simp only []
        cases hr : resolve ctx sc with
        | none => have := hc.2; simp [kidOK, hr] at this
        | some r =>
          simp only []
          have h2 := starEnts_val h ctx f hf (es.toList.map (·.1)) so sc r hr hc.2 kvs.toList []
          cases hs : starEnts fx (es.toList.map (·.1)) so sc r kvs.toList [] with
          | hard k => simp [hs, entVal] at h2
          | fail k =>
            simp only [hs, entVal, List.all_nil, Bool.true_and, Option.some.injEq] at h2
            simp only [actVal]; rw [← h2]; simp
          | ok chks2 =>
            simp only [hs, entVal, List.all_nil, Bool.true_and, Option.some.injEq] at h2
            simp only [ofEntRes_val h, entVal, Option.map_some, List.all_append, h1, h2]
    | _ => simp [checkShape, shapeOK, actVal]

theorem deref_eq_chase (g : Graph) : ∀ n o, deref g n o = g.chase n o
  | 0, o => by simp [deref, Graph.chase]
  | n+1, o => by
    cases o with
    | ref a b =>
      simp only [deref, Graph.chase]
      cases h : g.lookup (a, b) with
      | none => rfl
      | some t => exact deref_eq_chase g n t
    | _ => simp [deref, Graph.chase]

theorem deref_not_ref (g : Graph) : ∀ n o, (deref g n o).isRef = false
  | 0, o => by simp [deref, Obj.isRef]
  | n+1, o => by
    cases o with
    | ref a b =>
      simp only [deref]
      split
      · exact deref_not_ref g n _
      · rfl
    | _ => simp [deref, Obj.isRef]

theorem value_not_ref (g : Graph) (o : Obj) : (value g o).isRef = false := deref_not_ref g _ o

theorem value_nonref (g : Graph) (o : Obj) (h : o.isRef = false) : value g o = o := by
  cases o <;> first | rfl | simp [Obj.isRef] at h

theorem nodeOK_not_disj (ctx : Ctx) (c : Chk) (h : nodeOK ctx c = true) : c.isDisj = false := by
  cases c <;> simp [nodeOK] at h <;> rfl

theorem nodeOK_not_named (ctx : Ctx) (c : Chk) (h : nodeOK ctx c = true) : resolve ctx c = some c := by
  cases c <;> simp [nodeOK] at h <;> rfl

theorem confStep_res (g : Graph) (ctx : Ctx) (f : Obj → Chk → Bool) (o : Obj) (tc c : Chk)
    (h : resolve ctx tc = some c) :
    confStep g ctx f o tc =
      (indOK o c.attr.ind && predOK c.attr.pred (value g o) && shapeOK f o (value g o) c) := by
  simp [confStep, h]

theorem processCheck_nonref {fx : Fix} (h : FixOK fx) (g : Graph) (ctx : Ctx) (f : Obj → Chk → Bool)
    (hf : TrivTrue ctx f) (o : Obj) (tc c : Chk) (hres : resolve ctx tc = some c)
    (hc : nodeOK ctx c = true) (ho : o.isRef = false) :
    actVal f (processCheck fx g ctx o tc c) = some (confStep g ctx f o tc) := by
  rw [confStep_res g ctx f o tc c hres, value_nonref g o ho]
  have hd := nodeOK_not_disj ctx c hc
  have hs := checkShape_val h ctx f hf o c hc
  unfold processCheck
  simp only [hd, Bool.and_false, Bool.false_eq_true, if_false]
  cases hi : c.attr.ind <;> cases o <;> first | (simp [Obj.isRef] at ho; done) | simp [indOK, Obj.isRef, actVal_fail, hs]

theorem shapeOK_allowInd (f : Obj → Chk → Bool) (o o' v : Obj) (c : Chk) (hd : c.isDisj = false) :
    shapeOK f o v c = shapeOK f o' v c.allowInd := by
  cases c <;> first | rfl | simp [Chk.isDisj] at hd

theorem processCheck_ref {fx : Fix} (h : FixOK fx) (g : Graph) (ctx : Ctx) (a b : Nat) (tc c : Chk)
    (hres : resolve ctx tc = some c) (hc : nodeOK ctx c = true) :
    (c.attr.ind = .forbidden ∧ (∃ k, processCheck fx g ctx (.ref a b) tc c = .fail k) ∧
        ∀ f, confStep g ctx f (.ref a b) tc = false) ∨
    (processCheck fx g ctx (.ref a b) tc c = .ret (value g (.ref a b), c.allowInd) ∧
        ∀ f, confStep g ctx f (.ref a b) tc = confStep g ctx f (value g (.ref a b)) c.allowInd) := by
  have hd := nodeOK_not_disj ctx c hc
  have hn := nodeOK_not_named ctx c hc
  have hn' : resolve ctx c.allowInd = some c.allowInd := by
    cases c <;> first | rfl | simp [nodeOK] at hc
  have hattr : c.allowInd.attr = { c.attr with ind := .allowed } := by
    cases c <;> first | rfl | simp [nodeOK] at hc
  unfold processCheck
  simp only [hd, Bool.and_false, Bool.false_eq_true, if_false, h.refChain, if_true]
  cases hi : c.attr.ind
  case forbidden =>
    left
    refine ⟨rfl, ⟨_, rfl⟩, fun f => ?_⟩
    rw [confStep_res g ctx f _ tc c hres, hi]; simp [indOK, Obj.isRef]
  all_goals
    right
    simp only [value, deref_eq_chase, true_and]
    intro f
    rw [confStep_res g ctx f _ tc c hres, confStep_res g ctx f _ c.allowInd c.allowInd hn', hattr, hi]
    have hv := value_nonref g _ (value_not_ref g (.ref a b))
    simp only [value, deref_eq_chase] at hv
    simp only [value, deref_eq_chase, hv, indOK, Obj.isRef, Bool.true_and]
    rw [← shapeOK_allowInd f _ _ _ c hd]

/-! ### the invariant of the machine on fragment F1 -/

/-- a set of queued checks closed under everything the machine derives from them, all of whose members
    resolve to F1 nodes -/
def Closed (ctx : Ctx) (G : Chk → Prop) : Prop :=
  ∀ tc, G tc → ∃ c, resolve ctx tc = some c ∧ nodeOK ctx c = true ∧ G c ∧ G c.allowInd ∧
    ∀ k ∈ chkKids c, G k

def Pending (todo : List Ent) (q : Pend) : Prop := ∃ e ∈ todo, q ∈ e.pending
def Cov (todo : List Ent) (ex : List Pend) (q : Pend) : Prop := q ∈ ex ∨ Pending todo q

theorem pending_cons (e : Ent) (rest : List Ent) (q : Pend) :
    Pending (e :: rest) q ↔ q ∈ e.pending ∨ Pending rest q := by
  simp [Pending]

def CConf (g : Graph) (ctx : Ctx) (p : Pend) : Prop := Conforms g ctx p.1 p.2

def SoundAt (g : Graph) (ctx : Ctx) (todo : List Ent) (ex : List Pend) (p : Pend) : Prop :=
  (p.1.isRef = false → ∀ f, TrivTrue ctx f → (∀ q, Cov todo ex q → f q.1 q.2 = true) →
      confStep g ctx f p.1 p.2 = true) ∧
  (p.1.isRef = true → ∃ q, Cov todo ex q ∧ q.1.isRef = false ∧
      ∀ f, confStep g ctx f p.1 p.2 = confStep g ctx f q.1 q.2)

structure GInv (g : Graph) (ctx : Ctx) (G : Chk → Prop) (root : Pend)
    (todo : List Ent) (ex : List Pend) (err : Option EK) : Prop where
  gq : ∀ q, Cov todo ex q → G q.2
  comp : CConf g ctx root → ∀ q, Cov todo ex q → CConf g ctx q
  errc : ∀ k, err = some k → ¬ CConf g ctx root
  snd : err = none → (∀ p ∈ ex, SoundAt g ctx todo ex p) ∧ Cov todo ex root

theorem soundAt_mono (g : Graph) (ctx : Ctx) {todo todo' : List Ent} {ex ex' : List Pend} (p : Pend)
    (hm : ∀ q, Cov todo ex q → Cov todo' ex' q) (h : SoundAt g ctx todo ex p) : SoundAt g ctx todo' ex' p := by
  refine ⟨fun hr f hf hq => h.1 hr f hf (fun q hc => hq q (hm q hc)), fun hr => ?_⟩
  obtain ⟨q, hq, h1, h2⟩ := h.2 hr
  exact ⟨q, hm q hq, h1, h2⟩

theorem ginv_step {g : Graph} {ctx : Ctx} {G : Chk → Prop} {root : Pend} {todo todo' : List Ent}
    {ex ex' : List Pend} {err' : Option EK}
    (hinv : GInv g ctx G root todo ex none) (p : Pend) (hp : Cov todo ex p)
    (hmono : ∀ q, Cov todo ex q → Cov todo' ex' q)
    (hnew : ∀ q, Cov todo' ex' q → Cov todo ex q ∨ (G q.2 ∧ (CConf g ctx p → CConf g ctx q)))
    (hsnd : err' = none → ∀ q ∈ ex', q ∈ ex ∨ SoundAt g ctx todo' ex' q)
    (herr : ∀ k, err' = some k → ¬ CConf g ctx p) :
    GInv g ctx G root todo' ex' err' := by
  refine ⟨?_, ?_, ?_, ?_⟩
  · intro q hq
    rcases hnew q hq with h | h
    · exact hinv.gq q h
    · exact h.1
  · intro hr q hq
    rcases hnew q hq with h | h
    · exact hinv.comp hr q h
    · exact h.2 (hinv.comp hr p hp)
  · intro k hk hr
    exact herr k hk (hinv.comp hr p hp)
  · intro he
    have := hinv.snd rfl
    refine ⟨?_, hmono _ this.2⟩
    intro q hq
    rcases hsnd he q hq with h | h
    · exact soundAt_mono g ctx q hmono (this.1 q h)
    · exact h

theorem haveExamined_iff {fx : Fix} (h : FixOK fx) (ex : List Pend) (p : Pend) :
    haveExamined fx ex p = true ↔ p ∈ ex := by
  simp only [haveExamined, List.any_eq_true, memoEq, h.memoFull, if_true, Bool.and_eq_true, decide_eq_true_eq]
  constructor
  · rintro ⟨q, hq, h1, h2⟩
    have : p = q := Prod.ext h1 h2
    rw [this]; exact hq
  · intro hp; exact ⟨p, hp, rfl, rfl⟩

theorem pushChecks_spec {fx : Fix} (h : FixOK fx) (st : St) (ps : List Pend) :
    (pushChecks fx st ps).examined = st.examined ∧ (pushChecks fx st ps).err = st.err ∧
    ∀ q, Pending (pushChecks fx st ps).todo q ↔ (Pending st.todo q ∨ (q ∈ ps ∧ q ∉ st.examined)) := by
  unfold pushChecks
  generalize hset : ps.filter (fun p => !haveExamined fx st.examined p) = set
  have hmem : ∀ q, q ∈ set ↔ (q ∈ ps ∧ q ∉ st.examined) := by
    intro q
    rw [← hset, List.mem_filter, ← haveExamined_iff h st.examined q]
    cases haveExamined fx st.examined q <;> simp
  cases set with
  | nil =>
    refine ⟨rfl, rfl, fun q => ?_⟩
    have := hmem q
    simp only [List.not_mem_nil, false_iff] at this
    simp only []
    constructor
    · exact Or.inl
    · rintro (h1 | h1)
      · exact h1
      · exact absurd h1 this
  | cons a t =>
    refine ⟨rfl, rfl, fun q => ?_⟩
    simp only [pending_cons, hmem]
    constructor
    · rintro (h1 | h1)
      · exact Or.inr h1
      · exact Or.inl h1
    · rintro (h1 | h1)
      · exact Or.inr h1
      · exact Or.inl h1

theorem processCheck_push_kids (fx : Fix) (g : Graph) (ctx : Ctx) (o : Obj) (tc c : Chk) (ps : List Pend)
    (h : processCheck fx g ctx o tc c = .push ps) : ∀ q ∈ ps, q.2 ∈ chkKids c := by
  have hshape := checkShape_closed fx ctx o c
  unfold processCheck at h
  split at h
  · simp at h
  · split at h
    · simp at h
    · split at h
      · simp at h
      · split at h <;> simp at h
    · simp at h
    · intro q hq; exact ((hshape.1 ps h).1 q hq).2

theorem trivTrue_true (ctx : Ctx) : TrivTrue ctx (fun _ _ => true) := fun _ _ _ => rfl

theorem trivTrue_conf (g : Graph) (ctx : Ctx) : ∀ n, TrivTrue ctx (conf g ctx n)
  | 0 => fun _ _ _ => rfl
  | n+1 => by
    intro x k hk
    simp only [conf, confStep]
    unfold triv at hk
    cases hr : resolve ctx k with
    | none => simp [hr] at hk
    | some r =>
      rw [hr] at hk
      cases r <;> simp at hk
      rename_i a
      simp [Chk.attr, hk.2, hk.1, indOK, predOK, shapeOK]

theorem cconf_of_step (g : Graph) (ctx : Ctx) (p q : Pend)
    (h : ∀ n, confStep g ctx (conf g ctx n) p.1 p.2 = true → conf g ctx n q.1 q.2 = true) :
    CConf g ctx p → CConf g ctx q := by
  intro hp n
  exact h n (hp (n + 1))

theorem not_cconf_of_false (g : Graph) (ctx : Ctx) (p : Pend)
    (h : confStep g ctx (conf g ctx 0) p.1 p.2 = false) : ¬ CConf g ctx p := by
  intro hp
  have := hp 1
  simp only [conf] at this h
  rw [h] at this; cases this

theorem cov_cons (e : Ent) (rest : List Ent) (ex : List Pend) (q : Pend) :
    Cov (e :: rest) ex q ↔ q ∈ ex ∨ q ∈ e.pending ∨ Pending rest q := by
  simp [Cov, pending_cons]

theorem issue_inv {fx : Fix} (hfx : FixOK fx) (g : Graph) (ctx : Ctx) (G : Chk → Prop) (hG : Closed ctx G)
    (root : Pend) (s : St) (e : Ent) (rest : List Ent) (o : Obj) (tc : Chk) (ptl : List Pend)
    (hp : e.pending = (o, tc) :: ptl) (htodo : s.todo = { e with pending := ptl } :: rest)
    (herr : s.err = none) (hinv : GInv g ctx G root (e :: rest) s.examined none) :
    (∀ st', issue fx g ctx s o tc = .inl st' → GInv g ctx G root st'.todo st'.examined st'.err) ∧
    (∀ r, issue fx g ctx s o tc ≠ .inr r) := by
  have hcov : Cov (e :: rest) s.examined (o, tc) := Or.inr ⟨e, by simp, by simp [hp]⟩
  obtain ⟨c, hres, hnode, hGc, hGa, hGk⟩ := hG tc (hinv.gq _ hcov)
  unfold issue
  simp only [hres]
  cases hex : haveExamined fx s.examined (o, tc)
  · simp only [Bool.false_eq_true, if_false]
    have hnotin : (o, tc) ∉ s.examined := by
      intro hm; rw [(haveExamined_iff hfx _ _).mpr hm] at hex; cases hex
    cases hr : o.isRef
    · -- a value
      have hval := fun f hf => processCheck_nonref hfx g ctx f hf o tc c hres hnode hr
      have sound_of : ∀ (todo' : List Ent), 
          (∀ f, TrivTrue ctx f → (∀ q, Cov todo' ((o, tc) :: s.examined) q → f q.1 q.2 = true) →
            actVal f (processCheck fx g ctx o tc c) = some true) →
          SoundAt g ctx todo' ((o, tc) :: s.examined) (o, tc) := by
        intro todo' h
        refine ⟨fun _ f hf hq => ?_, fun h' => ?_⟩
        · have := h f hf hq
          rw [hval f hf] at this
          simpa using this
        · simp only [hr] at h'; cases h'
      cases hpc : processCheck fx g ctx o tc c with
      | hard k => have := hval _ (trivTrue_true ctx); simp [hpc, actVal] at this
      | ret p => have := hval _ (trivTrue_true ctx); simp [hpc, actVal] at this
      | pushRaw ps => have := hval _ (trivTrue_true ctx); simp [hpc, actVal] at this
      | fail k =>
        refine ⟨?_, by simp⟩
        intro st' h
        injection h with h; subst h
        simp only [htodo]
        refine ginv_step hinv (o, tc) hcov ?_ ?_ (by simp) ?_
        · intro q; simp only [cov_cons, hp, List.mem_cons]; grind
        · intro q; simp only [cov_cons, hp, List.mem_cons]; grind
        · intro k' _
          apply not_cconf_of_false
          have := hval _ (trivTrue_conf g ctx 0)
          simpa [hpc, actVal] using this.symm
      | pass =>
        refine ⟨?_, by simp⟩
        intro st' h
        injection h with h; subst h
        simp only [htodo]
        refine ginv_step hinv (o, tc) hcov ?_ ?_ ?_ (by simp)
        · intro q; simp only [cov_cons, hp, List.mem_cons]; grind
        · intro q; simp only [cov_cons, hp, List.mem_cons]; grind
        · intro _ q hq
          simp only [List.mem_cons] at hq
          rcases hq with hq | hq
          · right; subst hq
            apply sound_of
            intro f hf _; simp [hpc, actVal]
          · left; exact hq
      | push ps =>
        refine ⟨?_, by simp⟩
        intro st' h
        injection h with h; subst h
        have hpk := processCheck_push_kids fx g ctx o tc c ps hpc
        simp only [htodo]
        obtain ⟨h1, h2, h3⟩ := pushChecks_spec hfx
          { todo := { e with pending := ptl } :: rest, examined := (o, tc) :: s.examined, err := none,
            steps := s.steps, fresh := true } ps
        rw [h1, h2]
        refine ginv_step hinv (o, tc) hcov ?_ ?_ ?_ (by simp)
        · intro q; simp only [Cov, h3, pending_cons, hp, List.mem_cons]; grind
        · intro q; simp only [Cov, h3, pending_cons, hp, List.mem_cons]
          intro hq
          by_cases hqp : q ∈ ps
          · right
            refine ⟨hGk _ (hpk q hqp), ?_⟩
            apply cconf_of_step
            intro n hn
            have := hval _ (trivTrue_conf g ctx n)
            rw [hpc, hn] at this
            simp only [actVal, Option.some.injEq, List.all_eq_true] at this
            exact this q hqp
          · left; grind
        · intro _ q hq
          simp only [List.mem_cons] at hq
          rcases hq with hq | hq
          · right; subst hq
            apply sound_of
            intro f hf hall
            simp only [hpc, actVal, Option.some.injEq, List.all_eq_true]
            intro q hq
            apply hall q
            simp only [Cov, h3, List.mem_cons]
            by_cases hqe : q = (o, tc) ∨ q ∈ s.examined
            · left; exact hqe
            · right; right; exact ⟨hq, hqe⟩
          · left; exact hq
    · -- a reference
      cases o with
      | ref a b =>
        rcases processCheck_ref hfx g ctx a b tc c hres hnode with ⟨_, ⟨k, hk⟩, hfalse⟩ | ⟨hret, heq⟩
        · rw [hk]
          refine ⟨?_, by simp⟩
          intro st' h
          injection h with h; subst h
          simp only [htodo]
          refine ginv_step hinv (.ref a b, tc) hcov ?_ ?_ (by simp) ?_
          · intro q; simp only [cov_cons, hp, List.mem_cons]; grind
          · intro q; simp only [cov_cons, hp, List.mem_cons]; grind
          · intro k' _
            exact not_cconf_of_false g ctx _ (hfalse _)
        · rw [hret]
          simp only [htodo]
          refine ⟨?_, by simp⟩
          intro st' h
          injection h with h; subst h
          refine ginv_step hinv (.ref a b, tc) hcov ?_ ?_ ?_ (by simp)
          · intro q; simp only [cov_cons, hp, List.mem_cons]; grind
          · intro q; simp only [cov_cons, hp, List.mem_cons]
            intro hq
            by_cases hqv : q = (value g (.ref a b), c.allowInd)
            · right; subst hqv
              refine ⟨hGa, ?_⟩
              intro hpp m
              cases m with
              | zero => rfl
              | succ m =>
                have := hpp (m + 1)
                simp only [conf] at this ⊢
                rw [← heq]; exact this
            · left; grind
          · intro _ q hq
            simp only [List.mem_cons] at hq
            rcases hq with hq | hq
            · right; subst hq
              refine ⟨fun h' => by simp [Obj.isRef] at h', fun _ => ?_⟩
              refine ⟨(value g (.ref a b), c.allowInd), ?_, value_not_ref g _, heq⟩
              simp only [cov_cons, List.mem_cons]; grind
            · left; exact hq
      | _ => simp [Obj.isRef] at hr
  · -- already examined: skipped
    simp only [if_true]
    refine ⟨?_, by simp⟩
    intro st' h
    injection h with h; subst h
    have hin := (haveExamined_iff hfx _ _).mp hex
    simp only [htodo, herr, ite_self]
    refine ginv_step hinv (o, tc) hcov ?_ ?_ ?_ (by simp)
    · intro q; simp only [cov_cons, hp, List.mem_cons]; grind
    · intro q; simp only [cov_cons, hp, List.mem_cons]; grind
    · intro _ q hq; left; exact hq

theorem closed_not_disj {ctx : Ctx} {G : Chk → Prop} (hG : Closed ctx G) (tc : Chk) (h : G tc) :
    tc.isDisj = false := by
  obtain ⟨c, hres, hnode, _⟩ := hG tc h
  cases tc <;> first | rfl | skip
  simp only [resolve, Option.some.injEq] at hres
  subst hres
  simp [nodeOK] at hnode

theorem unwind_none : ∀ (t : List Ent), (∀ e ∈ t, ∀ p ∈ e.pending, p.2.isDisj = false) → unwind t = none
  | [], _ => rfl
  | e :: rest, h => by
    have ih := unwind_none rest (fun e' he' => h e' (by simp [he']))
    simp only [unwind]
    cases hp : e.pending with
    | nil => exact ih
    | cons p ptl =>
      obtain ⟨o, tc⟩ := p
      have := h e (by simp) (o, tc) (by simp [hp])
      simp only [] at this
      simp only [this, Bool.false_and, Bool.false_eq_true, if_false]
      exact ih

/-- at acceptance the memo is a post-fixed point of the one-step unfolding: everything in it conforms -/
theorem accept_sound (g : Graph) (ctx : Ctx) (ex : List Pend) (h : ∀ p ∈ ex, SoundAt g ctx [] ex p) :
    ∀ n, ∀ p ∈ ex, conf g ctx n p.1 p.2 = true
  | 0 => fun _ _ => rfl
  | n+1 => by
    have ih := accept_sound g ctx ex h n
    have hcov : ∀ q, Cov [] ex q → conf g ctx n q.1 q.2 = true := by
      intro q hq
      rcases hq with hq | ⟨e, he, _⟩
      · exact ih q hq
      · cases he
    have hval : ∀ p ∈ ex, p.1.isRef = false → conf g ctx (n+1) p.1 p.2 = true := by
      intro p hp hr
      exact (h p hp).1 hr _ (trivTrue_conf g ctx n) hcov
    intro p hp
    cases hr : p.1.isRef
    · exact hval p hp hr
    · obtain ⟨q, hq, hqr, heq⟩ := (h p hp).2 hr
      simp only [conf]
      rw [heq]
      rcases hq with hq | ⟨e, he, _⟩
      · exact hval q hq hqr
      · cases he

theorem step_inv {fx : Fix} (hfx : FixOK fx) (g : Graph) (ctx : Ctx) (G : Chk → Prop) (hG : Closed ctx G)
    (root : Pend) (st0 : St) (hinv : GInv g ctx G root st0.todo st0.examined st0.err) :
    (∀ st', step fx g ctx st0 = .inl st' → GInv g ctx G root st'.todo st'.examined st'.err) ∧
    (∀ r, step fx g ctx st0 = .inr r →
      (r.1 = .accept → CConf g ctx root) ∧ (r.1 ≠ .accept → ¬ CConf g ctx root)) := by
  unfold step
  generalize hst : (if st0.fresh = true then { st0 with steps := st0.steps + 1, fresh := false } else st0) = s
  have hs1 : st0.todo = s.todo := by subst hst; split <;> rfl
  have hs2 : st0.examined = s.examined := by subst hst; split <;> rfl
  have hs3 : st0.err = s.err := by subst hst; split <;> rfl
  rw [hs1, hs2, hs3] at hinv
  clear hst hs1 hs2 hs3
  simp only []
  have rej : ∀ (t : List Ent) (k : EK), s.err = some k →
      (∀ e ∈ t, ∀ p ∈ e.pending, Cov s.todo s.examined p) →
      (∀ st', unwindOr s t k = .inl st' → GInv g ctx G root st'.todo st'.examined st'.err) ∧
      (∀ r, unwindOr s t k = .inr r →
        (r.1 = .accept → CConf g ctx root) ∧ (r.1 ≠ .accept → ¬ CConf g ctx root)) := by
    intro t k hk hsub
    have : unwind t = none := unwind_none t (fun e he p hp =>
      closed_not_disj hG _ (hinv.gq p (hsub e he p hp)))
    simp only [unwindOr, this]
    refine ⟨by simp, ?_⟩
    intro r hr
    injection hr with hr; subst hr
    exact ⟨by simp, fun _ => hinv.errc k hk⟩
  cases htd : s.todo with
  | nil =>
    simp only []
    cases herr : s.err with
    | some k =>
      refine ⟨by simp, ?_⟩
      intro r hr
      injection hr with hr; subst hr
      exact ⟨by simp, fun _ => hinv.errc k herr⟩
    | none =>
      refine ⟨by simp, ?_⟩
      intro r hr
      injection hr with hr; subst hr
      refine ⟨fun _ => ?_, by simp⟩
      have := hinv.snd herr
      rw [htd] at this
      intro n
      have hroot : root ∈ s.examined := by
        rcases this.2 with h | ⟨e, he, _⟩
        · exact h
        · cases he
      exact accept_sound g ctx s.examined this.1 n root hroot
  | cons e rest =>
    simp only []
    rw [htd] at hinv
    cases hp : e.pending with
    | nil =>
      simp only []
      cases herr : s.err with
      | none =>
        simp only []
        refine ⟨?_, by simp⟩
        intro st' h
        injection h with h; subst h
        rw [herr] at hinv
        have hroot := (hinv.snd rfl).2
        refine ginv_step hinv root hroot ?_ ?_ ?_ (by simp)
        · intro q; simp only [Cov, pending_cons, hp, List.not_mem_nil]; grind
        · intro q; simp only [Cov, pending_cons, hp, List.not_mem_nil]; grind
        · intro _ q hq; left; exact hq
      | some k =>
        simp only []
        apply rej _ k herr
        intro e' he' p hp'
        rw [htd]
        exact Or.inr ⟨e', he', hp'⟩
    | cons p ptl =>
      obtain ⟨obj, tc⟩ := p
      simp only []
      have hcov : Cov (e :: rest) s.examined (obj, tc) := Or.inr ⟨e, by simp, by simp [hp]⟩
      have hnd := closed_not_disj hG _ (hinv.gq _ hcov)
      have single :
          (∀ st', (match s.err with
            | some k => unwindOr s ({ e with pending := ptl } :: rest) k
            | none => issue fx g ctx { s with todo := { e with pending := ptl } :: rest } obj tc) = .inl st' →
              GInv g ctx G root st'.todo st'.examined st'.err) ∧
          (∀ r, (match s.err with
            | some k => unwindOr s ({ e with pending := ptl } :: rest) k
            | none => issue fx g ctx { s with todo := { e with pending := ptl } :: rest } obj tc) = .inr r →
              (r.1 = .accept → CConf g ctx root) ∧ (r.1 ≠ .accept → ¬ CConf g ctx root)) := by
        cases herr : s.err with
        | some k =>
          simp only []
          apply rej _ k herr
          intro e' he' p hp'
          rw [htd]
          simp only [List.mem_cons] at he'
          rcases he' with he' | he'
          · subst he'
            exact Or.inr ⟨e, by simp, by simp only [] at hp'; simp [hp, hp']⟩
          · exact Or.inr ⟨e', by simp [he'], hp'⟩
        | none =>
          simp only []
          rw [herr] at hinv
          have := issue_inv hfx g ctx G hG root
            { todo := { e with pending := ptl } :: rest, examined := s.examined, err := none,
              steps := s.steps, fresh := s.fresh }
            e rest obj tc ptl hp rfl rfl hinv
          exact ⟨this.1, fun r hr => absurd hr (this.2 r)⟩
      cases tc with
      | disj a set => simp [Chk.isDisj] at hnd
      | named n => exact single
      | any a => exact single
      | prim a p => exact single
      | array a el sz => exact single
      | het a es => exact single
      | dict a es => exact single
      | dictStar a es so sc => exact single
      | stream a es => exact single

theorem run_inv {fx : Fix} (hfx : FixOK fx) (g : Graph) (ctx : Ctx) (G : Chk → Prop) (hG : Closed ctx G)
    (root : Pend) : ∀ (n : Nat) (st : St), GInv g ctx G root st.todo st.examined st.err →
      ((run fx g ctx n st).1 = .accept → CConf g ctx root) ∧
      ((run fx g ctx n st).1 ≠ .accept → (run fx g ctx n st).1 ≠ .outOfFuel → ¬ CConf g ctx root)
  | 0, st, _ => by simp [run]
  | n+1, st, hinv => by
    have hs := step_inv hfx g ctx G hG root st hinv
    simp only [run]
    cases hstep : step fx g ctx st with
    | inl st' => exact run_inv hfx g ctx G hG root n st' (hs.1 st' hstep)
    | inr r =>
      have := hs.2 r hstep
      exact ⟨this.1, fun h _ => this.2 h⟩

mutual
theorem norm_id {ctx : Ctx} {G : Chk → Prop} (hG : Closed ctx G) (fx : Fix) : ∀ (c : Chk), G c → c.norm fx = c
  | .named n, _ => rfl
  | .any a, _ => rfl
  | .prim a p, _ => rfl
  | .disj a os, h => by have := closed_not_disj hG _ h; simp [Chk.isDisj] at this
  | .array a e s, h => by
    obtain ⟨c, hres, _, _, _, hk⟩ := hG _ h
    simp only [resolve, Option.some.injEq] at hres; subst hres
    simp only [Chk.norm, norm_id hG fx e (hk e (by simp [chkKids]))]
  | .het a es, h => by
    obtain ⟨c, hres, _, _, _, hk⟩ := hG _ h
    simp only [resolve, Option.some.injEq] at hres; subst hres
    simp only [Chk.norm, normL_id hG fx es (fun k hk' => hk k (by simpa [chkKids] using hk'))]
  | .dict a es, h => by
    obtain ⟨c, hres, _, _, _, hk⟩ := hG _ h
    simp only [resolve, Option.some.injEq] at hres; subst hres
    simp only [Chk.norm, normL_id hG fx es (fun k hk' => hk k (by simpa [chkKids] using hk'))]
  | .stream a es, h => by
    obtain ⟨c, hres, _, _, _, hk⟩ := hG _ h
    simp only [resolve, Option.some.injEq] at hres; subst hres
    simp only [Chk.norm, normL_id hG fx es (fun k hk' => hk k (by simpa [chkKids] using hk'))]
  | .dictStar a es so sc, h => by
    obtain ⟨c, hres, _, _, _, hk⟩ := hG _ h
    simp only [resolve, Option.some.injEq] at hres; subst hres
    simp only [Chk.norm, normL_id hG fx es (fun k hk' => hk k (by simp [chkKids, hk'])),
      norm_id hG fx sc (hk sc (by simp [chkKids]))]
theorem normL_id {ctx : Ctx} {G : Chk → Prop} (hG : Closed ctx G) (fx : Fix) :
    ∀ (l : ChkL), (∀ k ∈ l.chks, G k) → l.norm fx = l
  | .nil, _ => rfl
  | .cons key opt c t, h => by
    simp only [ChkL.norm, norm_id hG fx c (h c (by simp [chks_cons])),
      normL_id hG fx t (fun k hk => h k (by simp [chks_cons, hk]))]
end

theorem conforms_resolve (g : Graph) (ctx : Ctx) (o : Obj) (chk rep : Chk) (h1 : resolve ctx chk = some rep)
    (h2 : resolve ctx rep = some rep) : Conforms g ctx o chk ↔ Conforms g ctx o rep := by
  have : ∀ n, conf g ctx n o chk = conf g ctx n o rep := by
    intro n
    cases n with
    | zero => rfl
    | succ n => simp only [conf]; rw [confStep_res g ctx _ o chk rep h1, confStep_res g ctx _ o rep rep h2]
  constructor
  · intro h n; rw [← this]; exact h n
  · intro h n; rw [this]; exact h n

/-- C08 on fragment F1 (no disjunction reachable; `Any`-typed components without a bare indirect
    requirement): for every graph and object, a finished run accepts iff the object conforms -/
theorem checkType_F1 {fx : Fix} (hfx : FixOK fx) (g : Graph) (ctx : Ctx) (G : Chk → Prop) (hG : Closed ctx G)
    (o : Obj) (chk : Chk) (hc : G chk) (fuel : Nat) :
    ((checkTypeFuel fx g ctx fuel o chk).1 = .accept → Conforms g ctx o chk) ∧
    ((checkTypeFuel fx g ctx fuel o chk).1 ≠ .accept → (checkTypeFuel fx g ctx fuel o chk).1 ≠ .outOfFuel →
      ¬ Conforms g ctx o chk) := by
  obtain ⟨rep, hres, hnode, hGrep, _, _⟩ := hG chk hc
  have hrr := nodeOK_not_named ctx rep hnode
  rw [conforms_resolve g ctx o chk rep hres hrr]
  unfold checkTypeFuel
  simp only [hres, norm_id hG fx rep hGrep]
  apply run_inv hfx g ctx G hG (o, rep) fuel (initSt o rep)
  refine ⟨?_, ?_, by simp [initSt], ?_⟩
  · intro q hq
    simp only [initSt, Cov, Pending, List.not_mem_nil, false_or, List.mem_singleton, exists_eq_left] at hq
    subst hq; exact hGrep
  · intro hr q hq
    simp only [initSt, Cov, Pending, List.not_mem_nil, false_or, List.mem_singleton, exists_eq_left] at hq
    subst hq; exact hr
  · intro _
    refine ⟨by simp [initSt], ?_⟩
    simp [initSt, Cov, Pending]

theorem checkType_F1_iff {fx : Fix} (hfx : FixOK fx) (g : Graph) (ctx : Ctx) (G : Chk → Prop)
    (hG : Closed ctx G) (o : Obj) (chk : Chk) (hc : G chk) :
    (checkTypeFuel fx g ctx (workBound fx g ctx o chk) o chk).1 = .accept ↔ Conforms g ctx o chk := by
  have h := checkType_F1 hfx g ctx G hG o chk hc (workBound fx g ctx o chk)
  have ht := checkTypeFuel_terminates fx hfx.trail g ctx o chk
  constructor
  · exact h.1
  · intro hc'
    apply Classical.byContradiction
    intro hne
    exact h.2 hne ht hc'

/-! ### the decidable fragment predicate -/

theorem closedB_closed (ctx : Ctx) (L : List Chk) (h : closedB ctx L = true) : Closed ctx (fun c => c ∈ L) := by
  intro tc htc
  simp only [closedB, List.all_eq_true] at h
  have := h tc htc
  cases hr : resolve ctx tc with
  | none => simp [hr] at this
  | some c =>
    simp only [hr, Bool.and_eq_true, List.contains_iff_mem, List.all_eq_true] at this
    exact ⟨c, rfl, this.1.1.1, this.1.1.2, this.1.2, this.2⟩

theorem inF1_closed (ctx : Ctx) (c : Chk) (h : inF1 ctx c = true) :
    Closed ctx (fun k => k ∈ reachable ctx c) ∧ c ∈ reachable ctx c := by
  simp only [inF1, Bool.and_eq_true, List.contains_iff_mem] at h
  exact ⟨closedB_closed ctx _ h.2, h.1⟩

end Parsley.TC.Sound
