/-
  C08: SOUNDNESS of the machine of Model/TypeCheck.lean on FRAGMENT F2 (disjunctions whose alternatives are
  private, pairwise different leaf checks without an indirect requirement of their own; F1 elsewhere).

  Why the memo leak cannot bite on F2.
  * An alternative is a leaf, so a disjunction in progress never pushes a new pending set: the set with the
    disjunction in progress is the TOP of the stack, every other set has index 0.  Hence `unwind` never finds a
    disjunction to resume (`unwind_idx0`): on F2 every error outside a disjunction in progress, and the exhaustion of
    a disjunction, is FATAL (the run rejects).
  * The memo keeps the pairs (x, alt) of failed alternatives.  By privacy such a pair is only looked up again as an
    alternative of a disjunction with THE SAME list of alternatives `L` on an object with the same value.  The
    invariant `Base.alt` ("AltGood"): for every memo pair (y, k) with k in a list of alternatives L, SOME alternative of L holds
    of y (`disjOK g y L`) -- except for the pairs taken up by the disjunction in progress (`Exc`: (x, L[j]) for
    j < idx, and (value x, L[j]) for the alternatives already tried on the value).  When the disjunction in progress
    passes, some alternative holds of x, and all excepted pairs become good; when it fails the run rejects.  A memo
    hit on (x, L[idx]) is never an excepted pair because the alternatives are pairwise different, so "skipped as
    passed" is right: the disjunction does hold of x.
  * Outside the alternatives the F1 invariant is kept (`SoundAt`: the one-step obligations of every memo pair are
    covered), with `Cov` = memo, pending, and the disjunction pairs already decided (`DDone`).
  At `accept` nothing is pending: the memo (without alternative pairs) together with the decided disjunction pairs is
  a post-fixed point of the one-step unfolding, hence inside `Conforms` (`accept_sound2`).
-/
import Parsley.Lemmas.TypeCheckF2Defs
import Parsley.Lemmas.TypeCheckF2Closed
import Parsley.Lemmas.TypeCheckSound
import Parsley.Lemmas.TypeCheckComplete
namespace Parsley.TC.F2
open Parsley Parsley.TC Parsley.TC.Spec Parsley.TC.Term Parsley.TC.Frag Parsley.TC.Sound

/-- the repair flags the F2 theorem needs: those of the F1 proof and those of the completeness proof -/
structure FixF2 (fx : Fix) : Prop where
  ok : FixOK fx
  c : Complete.FixC fx

theorem fixF2_tree : FixF2 Fix.tree := ⟨fixOK_tree, Complete.fixC_tree⟩

/-! ### leaf alternatives -/

theorem leaf_resolve (ctx : Ctx) (k : Chk) (h : isLeafAlt k = true) : resolve ctx k = some k := by
  cases k <;> first | rfl | simp [isLeafAlt] at h

theorem leaf_not_disj (k : Chk) (h : isLeafAlt k = true) : k.isDisj = false := by
  cases k <;> first | rfl | simp [isLeafAlt] at h

theorem leaf_confStep (g : Graph) (ctx : Ctx) (f : Obj → Chk → Bool) (x : Obj) (k : Chk)
    (h : isLeafAlt k = true) : confStep g ctx f x k = leafOK g x k := by
  cases k <;> simp [isLeafAlt] at h <;>
    simp [confStep, resolve, Chk.attr, h, indOK, shapeOK, leafOK]

theorem value_value (g : Graph) (x : Obj) : value g (value g x) = value g x :=
  value_nonref g _ (value_not_ref g x)

theorem leafOK_value (g : Graph) (x : Obj) (k : Chk) : leafOK g (value g x) k = leafOK g x k := by
  cases k <;> simp [leafOK, value_value]

theorem disjOK_value (g : Graph) (x : Obj) (L : List Chk) : disjOK g (value g x) L = disjOK g x L := by
  have : leafOK g (value g x) = leafOK g x := funext (leafOK_value g x)
  simp [disjOK, this]

theorem leaf_process_val {fx : Fix} (g : Graph) (ctx : Ctx) (x : Obj) (k : Chk) (h : isLeafAlt k = true)
    (hx : x.isRef = false) :
    (leafOK g x k = true → processCheck fx g ctx x k k = .pass) ∧
    (leafOK g x k = false → ∃ e, processCheck fx g ctx x k k = .fail e) := by
  have hv := value_nonref g x hx
  cases k <;> simp [isLeafAlt] at h
  case any a =>
    have hp := checkPred_predOK a.pred x
    cases x <;> first | (simp [Obj.isRef] at hx; done) |
      (simp only [processCheck, Chk.isDisj, Bool.and_false, Bool.false_eq_true, if_false, Chk.attr, h,
        checkShape, leafOK, hv]
       rw [← hp]
       cases checkPred a.pred _ <;> simp [ofPred])
  case prim a p =>
    have hp := checkPred_predOK a.pred x
    cases x <;> first | (simp [Obj.isRef] at hx; done) |
      (simp only [processCheck, Chk.isDisj, Bool.and_false, Bool.false_eq_true, if_false, Chk.attr, h,
        checkShape, leafOK, hv, primMatches_eq]
       rw [← hp]
       cases primOK _ p <;> cases checkPred a.pred _ <;> simp [ofPred])

theorem leaf_allowInd (k : Chk) (h : isLeafAlt k = true) : k.allowInd = k := by
  cases k <;> simp [isLeafAlt] at h
  case any a => cases a; simp_all [Chk.allowInd, Chk.setAttr, Chk.attr]
  case prim a p => cases a; simp_all [Chk.allowInd, Chk.setAttr, Chk.attr]

theorem leaf_process_ref {fx : Fix} (hfx : FixOK fx) (g : Graph) (ctx : Ctx) (a b : Nat) (k : Chk)
    (h : isLeafAlt k = true) :
    processCheck fx g ctx (.ref a b) k k = .ret (value g (.ref a b), k) := by
  have hd := leaf_not_disj k h
  have ha := leaf_allowInd k h
  have hi : k.attr.ind = .allowed := by
    cases k <;> simp [isLeafAlt] at h <;> simpa [Chk.attr] using h
  unfold processCheck
  simp only [hd, Bool.and_false, Bool.false_eq_true, if_false, hi, hfx.refChain, if_true, ha, value, deref_eq_chase]

/-! ### coverage, obligations, the invariant -/

/-- a disjunction pair whose guard has been taken up and whose bare form is pending or DECIDED (some alternative
    holds of the object) -/
def DDone (g : Graph) (P E : Pend → Prop) (q : Pend) : Prop :=
  ∃ a os, q.2 = .disj a os ∧ (a = Attr.dflt ∨ E (q.1, .any a)) ∧
    (P (q.1, .disj Attr.dflt os) ∨ disjOK g q.1 os.chks = true)

def CovP (g : Graph) (G : Chk → Prop) (P E : Pend → Prop) (q : Pend) : Prop :=
  G q.2 ∧ (E q ∨ P q ∨ DDone g P E q)

/-- covered pairs: in the memo, pending, or a decided disjunction pair (only checks of `G`: never an alternative) -/
def Cov (g : Graph) (G : Chk → Prop) (todo : List Ent) (ex : List Pend) : Pend → Prop :=
  CovP g G (Pending todo) (fun q => q ∈ ex)

theorem covP_mono {g : Graph} {G : Chk → Prop} {P P' E E' : Pend → Prop}
    (hGd : ∀ a os, G (.disj a os) → G (.disj Attr.dflt os))
    (hE : ∀ q, E q → E' q)
    (hP : ∀ q, G q.2 → P q → P' q ∨ ∃ os, q.2 = .disj Attr.dflt os ∧ disjOK g q.1 os.chks = true)
    (q : Pend) (h : CovP g G P E q) : CovP g G P' E' q := by
  obtain ⟨hG, h⟩ := h
  refine ⟨hG, ?_⟩
  rcases h with h | h | ⟨a, os, hq, hg, hb⟩
  · exact Or.inl (hE q h)
  · rcases hP q hG h with h' | ⟨os, hq, hd⟩
    · exact Or.inr (Or.inl h')
    · exact Or.inr (Or.inr ⟨Attr.dflt, os, hq, Or.inl rfl, Or.inr hd⟩)
  · refine Or.inr (Or.inr ⟨a, os, hq, hg.imp id (hE _), ?_⟩)
    rcases hb with hb | hb
    · have hG0 : G (Chk.disj Attr.dflt os) := hGd a os (hq ▸ hG)
      rcases hP (q.1, .disj Attr.dflt os) hG0 hb with h' | ⟨os', hq', hd⟩
      · exact Or.inl h'
      · simp only [Chk.disj.injEq, true_and] at hq'
        subst hq'
        exact Or.inr hd
    · exact Or.inr hb

/-- the one-step obligations of a memo pair `p` (a check of `G`) are covered by `C` -/
def SoundAt (g : Graph) (ctx : Ctx) (C : Pend → Prop) (p : Pend) : Prop :=
  ∀ c, resolve ctx p.2 = some c →
    (c.isDisj = true → C (p.1, c)) ∧
    (c.isDisj = false →
      (p.1.isRef = false → ∀ f, TrivTrue ctx f → (∀ q, C q → f q.1 q.2 = true) →
          confStep g ctx f p.1 p.2 = true) ∧
      (p.1.isRef = true → ∃ q, C q ∧ q.1.isRef = false ∧ q.2.isDisj = false ∧ resolve ctx q.2 = some q.2 ∧
          ∀ f, confStep g ctx f p.1 p.2 = confStep g ctx f q.1 q.2))

theorem soundAt_mono {g : Graph} {ctx : Ctx} {C C' : Pend → Prop} (p : Pend) (hm : ∀ q, C q → C' q)
    (h : SoundAt g ctx C p) : SoundAt g ctx C' p := by
  intro c hc
  obtain ⟨h1, h2⟩ := h c hc
  refine ⟨fun hd => hm _ (h1 hd), fun hd => ⟨fun hr f hf hq => (h2 hd).1 hr f hf (fun q hc => hq q (hm q hc)), fun hr => ?_⟩⟩
  obtain ⟨q, hq, r1, r2, r3, r4⟩ := (h2 hd).2 hr
  exact ⟨q, hm q hq, r1, r2, r3, r4⟩

/-- the memo pairs of the disjunction in progress on `x` (alternatives `L`, index `i`; `j` alternatives already
    tried on the value of `x`) -/
def Exc (g : Graph) (x : Obj) (L : List Chk) (i j : Nat) (p : Pend) : Prop :=
  (p.1 = x ∧ p.2 ∈ L.take i) ∨ (p.1 = value g x ∧ p.2 ∈ L.take j)

structure Base (g : Graph) (ctx : Ctx) (G : Chk → Prop) (A : List Chk → Prop) (root : Pend)
    (todo : List Ent) (ex : List Pend) (exc : Pend → Prop) : Prop where
  nd : ∀ p ∈ ex, p.2.isDisj = false
  alt : ∀ p ∈ ex, ∀ L, A L → p.2 ∈ L → disjOK g p.1 L = true ∨ exc p
  snd : ∀ p ∈ ex, G p.2 → SoundAt g ctx (Cov g G todo ex) p
  root : Cov g G todo ex root

theorem base_step {g : Graph} {ctx : Ctx} {G : Chk → Prop} {A : List Chk → Prop} {root : Pend}
    {todo todo' : List Ent} {ex ex' : List Pend} {exc exc' : Pend → Prop}
    (h : Base g ctx G A root todo ex exc)
    (hcov : ∀ q, Cov g G todo ex q → Cov g G todo' ex' q)
    (hnew : ∀ p ∈ ex', p ∈ ex ∨ (p.2.isDisj = false ∧ (G p.2 → SoundAt g ctx (Cov g G todo' ex') p) ∧
      (∀ L, A L → p.2 ∈ L → disjOK g p.1 L = true ∨ exc' p)))
    (hexc : ∀ p ∈ ex, exc p → exc' p ∨ ∀ L, A L → p.2 ∈ L → disjOK g p.1 L = true) :
    Base g ctx G A root todo' ex' exc' := by
  refine ⟨?_, ?_, ?_, hcov _ h.root⟩
  · intro p hp
    rcases hnew p hp with h1 | h1
    · exact h.nd p h1
    · exact h1.1
  · intro p hp L hL hk
    rcases hnew p hp with h1 | h1
    · rcases h.alt p h1 L hL hk with h2 | h2
      · exact Or.inl h2
      · rcases hexc p h1 h2 with h3 | h3
        · exact Or.inr h3
        · exact Or.inl (h3 L hL hk)
    · exact h1.2.2 L hL hk
  · intro p hp hG
    rcases hnew p hp with h1 | h1
    · exact soundAt_mono p hcov (h.snd p h1 hG)
    · exact h1.2.1 hG

def Idx0 (todo : List Ent) : Prop := ∀ e ∈ todo, e.idx = 0
def PendG (G : Chk → Prop) (todo : List Ent) : Prop := ∀ e ∈ todo, ∀ p ∈ e.pending, G p.2

/-- the invariant: `dead` = an error is pending outside a disjunction in progress (the run will reject);
    `norm` = no error, no disjunction in progress; `prog` = the bare disjunction at the front of the top set is in
    progress (index `i` > 0); `progv` = additionally the pair (value, alternative) returned after the reference
    was followed sits in front of it -/
def Inv (g : Graph) (ctx : Ctx) (G : Chk → Prop) (A : List Chk → Prop) (root : Pend)
    (todo : List Ent) (ex : List Pend) (err : Option EK) : Prop :=
  ((∃ k, err = some k) ∧ Idx0 todo) ∨
  (err = none ∧ Idx0 todo ∧ PendG G todo ∧ Base g ctx G A root todo ex (fun _ => False)) ∨
  (∃ x os ptl i sn rest, todo = ⟨(x, .disj Attr.dflt os) :: ptl, i, sn⟩ :: rest ∧ 0 < i ∧ Idx0 rest ∧
      PendG G todo ∧ Base g ctx G A root todo ex (Exc g x os.chks i i) ∧
      (err = none → disjOK g x os.chks = true)) ∨
  (∃ x os ptl i sn rest k, todo = ⟨(value g x, k) :: (x, .disj Attr.dflt os) :: ptl, i + 1, sn⟩ :: rest ∧
      err = none ∧ x.isRef = true ∧ os.chks[i]? = some k ∧ Idx0 rest ∧
      PendG G (⟨(x, .disj Attr.dflt os) :: ptl, i + 1, sn⟩ :: rest) ∧
      Base g ctx G A root todo ex (Exc g x os.chks (i + 1) i))

theorem c2_disj {ctx : Ctx} {G : Chk → Prop} {A : List Chk → Prop} (hC : Closed2 ctx G A) (a : Attr) (os : ChkL)
    (h : G (.disj a os)) : A os.chks ∧ G (.any a) ∧ G (.disj Attr.dflt os) := closed2_disj hC h

theorem pending_nil (q : Pend) : ¬ Pending [] q := by
  rintro ⟨e, he, _⟩; cases he

/-- at acceptance: the memo pairs of `G` and the decided disjunction pairs all conform -/
theorem accept_sound2 {g : Graph} {ctx : Ctx} {G : Chk → Prop} {A : List Chk → Prop} (hC : Closed2 ctx G A)
    (ex : List Pend) (hnd : ∀ p ∈ ex, p.2.isDisj = false)
    (hs : ∀ p ∈ ex, G p.2 → SoundAt g ctx (Cov g G [] ex) p) :
    ∀ n, ∀ q, Cov g G [] ex q → conf g ctx n q.1 q.2 = true
  | 0 => fun _ _ => rfl
  | n+1 => by
    have ih := accept_sound2 hC ex hnd hs n
    have hval : ∀ p ∈ ex, G p.2 → ∀ c, resolve ctx p.2 = some c → c.isDisj = false → p.1.isRef = false →
        conf g ctx (n+1) p.1 p.2 = true :=
      fun p hp hG c hc hd hr => ((hs p hp hG c hc).2 hd).1 hr _ (trivTrue_conf g ctx n) ih
    have hM : ∀ p ∈ ex, G p.2 → ∀ c, resolve ctx p.2 = some c → c.isDisj = false →
        conf g ctx (n+1) p.1 p.2 = true := by
      intro p hp hG c hc hd
      cases hr : p.1.isRef
      · exact hval p hp hG c hc hd hr
      · obtain ⟨q, hq, r1, r2, r3, r4⟩ := ((hs p hp hG c hc).2 hd).2 hr
        simp only [conf]
        rw [r4]
        obtain ⟨hGq, hq | hq | ⟨a, os, hq, _⟩⟩ := hq
        · exact hval q hq hGq q.2 r3 r2 r1
        · exact absurd hq (pending_nil q)
        · rw [hq] at r2; simp [Chk.isDisj] at r2
    have hD : ∀ x a os, G (.disj a os) → (a = Attr.dflt ∨ (x, Chk.any a) ∈ ex) → disjOK g x os.chks = true →
        ∀ tc, resolve ctx tc = some (.disj a os) → conf g ctx (n+1) x tc = true := by
      intro x a os hG hg hd tc hres
      obtain ⟨hA, hGa, _⟩ := c2_disj hC a os hG
      simp only [conf]
      rw [confStep_res g ctx _ x tc _ hres]
      simp only [Chk.attr, shapeOK, Bool.and_eq_true, List.any_eq_true]
      refine ⟨?_, ?_⟩
      · rcases hg with hg | hg
        · subst hg; simp [Attr.dflt, indOK, predOK]
        · have := hM _ hg hGa (.any a) rfl rfl
          simp only [conf] at this
          rw [confStep_res g ctx _ x (.any a) (.any a) rfl] at this
          simpa [Chk.attr, shapeOK] using this
      · simp only [disjOK, List.any_eq_true] at hd
        obtain ⟨k, hk, hl⟩ := hd
        refine ⟨k, hk, ?_⟩
        cases n with
        | zero => rfl
        | succ m =>
          simp only [conf]
          rw [leaf_confStep g ctx _ x k ((hC.alts _ hA).2.1 k hk)]
          exact hl
    intro q hq
    obtain ⟨hG, hq | hq | ⟨a, os, hq2, hg, hb⟩⟩ := hq
    · obtain ⟨c, hres, hGc, _⟩ := hC.node _ hG
      cases hd : c.isDisj
      · exact hM q hq hG c hres hd
      · have hcov := (hs q hq hG c hres).1 hd
        cases c with
        | disj a os =>
          obtain ⟨_, h1 | h1 | ⟨a', os', h2, hg, hb⟩⟩ := hcov
          · have := hnd _ h1; simp [Chk.isDisj] at this
          · exact absurd h1 (pending_nil _)
          · simp only [Chk.disj.injEq] at h2
            obtain ⟨h2a, h2b⟩ := h2
            subst h2a; subst h2b
            rcases hb with hb | hb
            · exact absurd hb (pending_nil _)
            · exact hD q.1 a os hGc hg hb q.2 hres
        | _ => simp [Chk.isDisj] at hd
    · exact absurd hq (pending_nil q)
    · rcases hb with hb | hb
      · exact absurd hb (pending_nil _)
      · have hGd : G (.disj a os) := hq2 ▸ hG
        exact hD q.1 a os hGd hg hb q.2 (by rw [hq2]; rfl)

theorem unwind_idx0 : ∀ (t : List Ent), Idx0 t → unwind t = none
  | [], _ => rfl
  | e :: rest, h => by
    have ih := unwind_idx0 rest (fun e' he' => h e' (by simp [he']))
    have h0 : e.idx = 0 := h e (by simp)
    simp only [unwind]
    cases hp : e.pending with
    | nil => exact ih
    | cons p ptl =>
      obtain ⟨o, tc⟩ := p
      simp only [h0, Nat.lt_irrefl, decide_false, Bool.and_false, Bool.false_eq_true, if_false]
      exact ih

theorem unwindOr_idx0 (s : St) (t : List Ent) (k : EK) (h : Idx0 t) : unwindOr s t k = .inr (.reject k, s.steps) := by
  simp [unwindOr, unwind_idx0 t h]

theorem pushChecks_todo (fx : Fix) (st : St) (ps : List Pend) :
    (pushChecks fx st ps).todo = st.todo ∨
      ∃ set, (pushChecks fx st ps).todo = ⟨set, 0, none⟩ :: st.todo ∧ ∀ q ∈ set, q ∈ ps := by
  unfold pushChecks
  generalize hset : ps.filter (fun p => !haveExamined fx st.examined p) = set
  cases set with
  | nil => exact Or.inl rfl
  | cons a t =>
    refine Or.inr ⟨a :: t, rfl, fun q hq => ?_⟩
    rw [← hset] at hq
    exact (List.mem_filter.mp hq).1

theorem pushChecks_all {fx : Fix} (h : FixOK fx) (todo : List Ent) (ex : List Pend) (err : Option EK)
    (steps : Nat) (fresh : Bool) (ps : List Pend) :
    (pushChecks fx ⟨todo, ex, err, steps, fresh⟩ ps).examined = ex ∧
    (pushChecks fx ⟨todo, ex, err, steps, fresh⟩ ps).err = err ∧
    (∀ q, Pending (pushChecks fx ⟨todo, ex, err, steps, fresh⟩ ps).todo q ↔ (Pending todo q ∨ (q ∈ ps ∧ q ∉ ex))) ∧
    ((pushChecks fx ⟨todo, ex, err, steps, fresh⟩ ps).todo = todo ∨
      ∃ set, (pushChecks fx ⟨todo, ex, err, steps, fresh⟩ ps).todo = ⟨set, 0, none⟩ :: todo ∧ ∀ q ∈ set, q ∈ ps) := by
  obtain ⟨h1, h2, h3⟩ := pushChecks_spec h ⟨todo, ex, err, steps, fresh⟩ ps
  exact ⟨h1, h2, h3, pushChecks_todo fx _ ps⟩

theorem resolve_fun {ctx : Ctx} {tc c c' : Chk} (h : resolve ctx tc = some c) (h' : resolve ctx tc = some c') :
    c = c' := by
  rw [h] at h'; injection h' with h'

/-- the work-loop body on a pair of `G` (not a disjunction itself), no error pending, no disjunction in progress -/
theorem issueG {fx : Fix} (hfx : FixF2 fx) {g : Graph} {ctx : Ctx} {G : Chk → Prop} {A : List Chk → Prop}
    (hC : Closed2 ctx G A) (root : Pend) (s : St) (o : Obj) (tc : Chk) (C : Pend → Prop)
    (hG : G tc) (hnd : tc.isDisj = false) (hne : s.todo ≠ [])
    (hidx : Idx0 s.todo) (hpg : PendG G s.todo)
    (hexnd : ∀ p ∈ s.examined, p.2.isDisj = false)
    (halt : ∀ p ∈ s.examined, ∀ L, A L → p.2 ∈ L → disjOK g p.1 L = true)
    (hsnd : ∀ p ∈ s.examined, G p.2 → SoundAt g ctx C p) (hroot : C root)
    (hCov : ∀ q, C q → Cov g G s.todo ((o, tc) :: s.examined) q) :
    (∀ st', issue fx g ctx s o tc = .inl st' → Inv g ctx G A root st'.todo st'.examined st'.err) ∧
    (∀ r, issue fx g ctx s o tc = .inr r → r.1 ≠ .accept) := by
  have hGd : ∀ a os, G (.disj a os) → G (.disj Attr.dflt os) := fun a os h => (c2_disj hC a os h).2.2
  have mk : ∀ (todo' : List Ent) (ex' : List Pend), Idx0 todo' → PendG G todo' →
      (∀ q, Pending s.todo q → Pending todo' q) → (∀ q, q ∈ (o, tc) :: s.examined → q ∈ ex') →
      (∀ p ∈ ex', p ∈ s.examined ∨ (p = (o, tc) ∧ SoundAt g ctx (Cov g G todo' ex') (o, tc))) →
      Inv g ctx G A root todo' ex' none := by
    intro todo' ex' hi hp hP hE hnew
    have hm : ∀ q, C q → Cov g G todo' ex' q := fun q hq =>
      covP_mono hGd hE (fun q _ h => Or.inl (hP q h)) q (hCov q hq)
    refine Or.inr (Or.inl ⟨rfl, hi, hp, ⟨?_, ?_, ?_, hm _ hroot⟩⟩)
    · intro p hp'
      rcases hnew p hp' with h | ⟨h, _⟩
      · exact hexnd p h
      · rw [h]; exact hnd
    · intro p hp' L hL hk
      rcases hnew p hp' with h | ⟨h, _⟩
      · exact Or.inl (halt p h L hL hk)
      · rw [h] at hk; exact absurd hG ((hC.alts L hL).2.2.2 tc hk)
    · intro p hp' hGp
      rcases hnew p hp' with h | ⟨h, h2⟩
      · exact soundAt_mono p hm (hsnd p h hGp)
      · rw [h]; exact h2
  obtain ⟨c, hres, hGc, hnode⟩ := hC.node tc hG
  unfold issue
  simp only [hres]
  cases hex : haveExamined fx s.examined (o, tc)
  · simp only [Bool.false_eq_true, if_false]
    rcases hnode with ⟨hnode, hGa, hGk⟩ | ⟨a, os, hc, hA, hGany, hG0⟩
    · have hcd := nodeOK_not_disj ctx c hnode
      cases hr : o.isRef
      · -- a value
        have hval := fun f hf => processCheck_nonref hfx.ok g ctx f hf o tc c hres hnode hr
        have sound_of : ∀ (todo' : List Ent) (ex' : List Pend),
            (∀ f, TrivTrue ctx f → (∀ q, Cov g G todo' ex' q → f q.1 q.2 = true) →
              actVal f (processCheck fx g ctx o tc c) = some true) →
            SoundAt g ctx (Cov g G todo' ex') (o, tc) := by
          intro todo' ex' h c' hc'
          have := resolve_fun hres hc'
          subst this
          refine ⟨fun hd => (by rw [hcd] at hd; cases hd), fun _ => ⟨fun _ f hf hq => ?_, fun h' => ?_⟩⟩
          · have := h f hf hq
            rw [hval f hf] at this
            simpa using this
          · simp only [hr] at h'; cases h'
        cases hpc : processCheck fx g ctx o tc c with
        | hard k => exact ⟨by simp, fun r hr => by injection hr with hr; subst hr; simp⟩
        | ret p => have := hval _ (trivTrue_true ctx); simp [hpc, actVal] at this
        | pushRaw ps => have := hval _ (trivTrue_true ctx); simp [hpc, actVal] at this
        | fail k =>
          refine ⟨?_, by simp⟩
          intro st' h
          injection h with h; subst h
          exact Or.inl ⟨⟨k, rfl⟩, hidx⟩
        | pass =>
          refine ⟨?_, by simp⟩
          intro st' h
          injection h with h; subst h
          refine mk _ _ hidx hpg (fun q h => h) (fun q h => h) ?_
          intro p hp
          simp only [List.mem_cons] at hp
          rcases hp with hp | hp
          · exact Or.inr ⟨hp, sound_of _ _ (fun f hf _ => by simp [hpc, actVal])⟩
          · exact Or.inl hp
        | push ps =>
          refine ⟨?_, by simp⟩
          intro st' h
          injection h with h; subst h
          have hpk := processCheck_push_kids fx g ctx o tc c ps hpc
          obtain ⟨h1, h2, h3, h4⟩ := pushChecks_all hfx.ok s.todo ((o, tc) :: s.examined) none s.steps true ps
          have e1 : s.todo = s.todo := rfl
          have e2 : (o, tc) :: s.examined = (o, tc) :: s.examined := rfl
          rw [h2, h1]
          refine mk _ _ ?_ ?_ ?_ (fun q h => h) ?_
          · rcases h4 with h4 | ⟨set, h4, _⟩
            · rw [h4, e1]; exact hidx
            · rw [h4, e1]
              intro e he
              simp only [List.mem_cons] at he
              rcases he with he | he
              · rw [he]
              · exact hidx e he
          · rcases h4 with h4 | ⟨set, h4, hset⟩
            · rw [h4, e1]; exact hpg
            · rw [h4, e1]
              intro e he q hq
              simp only [List.mem_cons] at he
              rcases he with he | he
              · rw [he] at hq
                exact hGk _ (hpk q (hset q hq))
              · exact hpg e he q hq
          · intro q hq
            rw [h3, e1]; exact Or.inl hq
          · intro p hp
            simp only [List.mem_cons] at hp
            rcases hp with hp | hp
            · refine Or.inr ⟨hp, sound_of _ _ (fun f hf hall => ?_)⟩
              simp only [hpc, actVal, Option.some.injEq, List.all_eq_true]
              intro q hq
              apply hall q
              refine ⟨hGk _ (hpk q hq), ?_⟩
              by_cases hqe : q ∈ (o, tc) :: s.examined
              · exact Or.inl hqe
              · refine Or.inr (Or.inl ?_)
                rw [h3]
                exact Or.inr ⟨hq, by rw [e2]; exact hqe⟩
            · exact Or.inl hp
      · -- a reference
        cases o with
        | ref a b =>
          rcases processCheck_ref hfx.ok g ctx a b tc c hres hnode with ⟨_, ⟨k, hk⟩, _⟩ | ⟨hret, heq⟩
          · rw [hk]
            refine ⟨?_, by simp⟩
            intro st' h
            injection h with h; subst h
            exact Or.inl ⟨⟨k, rfl⟩, hidx⟩
          · rw [hret]
            cases htd : s.todo with
            | nil => exact absurd htd hne
            | cons e rest =>
              simp only []
              refine ⟨?_, by simp⟩
              intro st' h
              injection h with h; subst h
              rw [htd] at hidx hpg
              have hcn : ∀ n, c ≠ .named n := by
                intro n hn; subst hn; simp [nodeOK] at hnode
              refine mk _ _ ?_ ?_ ?_ (fun q h => h) ?_
              · intro e' he'
                simp only [List.mem_cons] at he'
                rcases he' with he' | he'
                · rw [he']; exact hidx e (by simp)
                · exact hidx e' (by simp [he'])
              · intro e' he' q hq
                simp only [List.mem_cons] at he'
                rcases he' with he' | he'
                · rw [he'] at hq
                  simp only [List.mem_cons] at hq
                  rcases hq with hq | hq
                  · rw [hq]; exact hGa
                  · exact hpg e (by simp) q hq
                · exact hpg e' (by simp [he']) q hq
              · intro q hq
                rw [htd] at hq
                simp only [pending_cons, List.mem_cons] at hq ⊢
                rcases hq with hq | hq
                · exact Or.inl (Or.inr hq)
                · exact Or.inr hq
              · intro p hp
                simp only [List.mem_cons] at hp
                rcases hp with hp | hp
                · refine Or.inr ⟨hp, ?_⟩
                  intro c' hc'
                  have := resolve_fun hres hc'
                  subst this
                  refine ⟨fun hd => (by rw [hcd] at hd; cases hd), fun _ => ⟨fun h' => (by simp [Obj.isRef] at h'), fun _ => ?_⟩⟩
                  refine ⟨(value g (.ref a b), c.allowInd), ⟨hGa, Or.inr (Or.inl ?_)⟩, value_not_ref g _, ?_,
                    Complete.resolve_self ctx _ (Complete.allowInd_not_named c hcn), heq⟩
                  · simp [pending_cons]
                  · rw [Complete.allowInd_isDisj]; exact hcd
                · exact Or.inl hp
        | _ => simp [Obj.isRef] at hr
    · -- a name bound to a disjunction: put back as a pending set of its own
      have hpc : processCheck fx g ctx o tc c = .pushRaw [(o, c)] := by
        unfold processCheck
        simp [hfx.c.namedDisj, hc, Chk.isDisj]
      rw [hpc]
      refine ⟨?_, by simp⟩
      intro st' h
      injection h with h; subst h
      refine mk _ _ ?_ ?_ ?_ (fun q h => h) ?_
      · intro e he
        simp only [List.mem_cons] at he
        rcases he with he | he
        · rw [he]
        · exact hidx e he
      · intro e he q hq
        simp only [List.mem_cons] at he
        rcases he with he | he
        · rw [he] at hq
          simp only [List.mem_singleton] at hq
          rw [hq]; exact hGc
        · exact hpg e he q hq
      · intro q hq
        simp only [pending_cons]; exact Or.inr hq
      · intro p hp
        simp only [List.mem_cons] at hp
        rcases hp with hp | hp
        · refine Or.inr ⟨hp, ?_⟩
          intro c' hc'
          have := resolve_fun hres hc'
          subst this
          refine ⟨fun _ => ⟨hGc, Or.inr (Or.inl ?_)⟩, fun hd => (by rw [hc] at hd; simp [Chk.isDisj] at hd)⟩
          simp [pending_cons]
        · exact Or.inl hp
  · -- already examined: skipped as passed
    simp only [if_true]
    refine ⟨?_, by simp⟩
    intro st' h
    injection h with h; subst h
    have hin := (haveExamined_iff hfx.ok _ _).mp hex
    simp only [hfx.c.staleErr, if_true]
    refine mk _ _ hidx hpg (fun q h => h) ?_ (fun p hp => Or.inl hp)
    intro q hq
    simp only [List.mem_cons] at hq
    rcases hq with hq | hq
    · rw [hq]; exact hin
    · exact hq

/-! ### the alternatives of a disjunction in progress -/

theorem mem_take_succ {α} (L : List α) (i : Nat) (k : α) (h : L[i]? = some k) : k ∈ L.take (i+1) := by
  rw [List.mem_iff_getElem?]
  exact ⟨i, by simp [h]⟩

theorem mem_take_mono {α} (L : List α) (i j : Nat) (hij : i ≤ j) (k : α) (h : k ∈ L.take i) : k ∈ L.take j := by
  rw [List.mem_iff_getElem?] at h ⊢
  obtain ⟨n, hn⟩ := h
  refine ⟨n, ?_⟩
  simp only [List.getElem?_take] at hn ⊢
  split at hn
  · rw [if_pos (by omega)]; exact hn
  · cases hn

theorem nodup_not_mem_take {α} (L : List α) (hn : L.Nodup) (i : Nat) (k : α) (h : L[i]? = some k) :
    k ∉ L.take i := by
  intro hm
  rw [List.mem_iff_getElem?] at hm
  obtain ⟨n, hn'⟩ := hm
  simp only [List.getElem?_take] at hn'
  split at hn'
  · have := (List.getElem?_inj (List.getElem?_eq_some_iff.mp hn').1 hn).mp (hn'.trans h.symm)
    omega
  · cases hn'

theorem mem_of_getElem? {α} (L : List α) (i : Nat) (k : α) (h : L[i]? = some k) : k ∈ L :=
  List.mem_iff_getElem?.mpr ⟨i, h⟩

theorem exc_mono {g : Graph} {x : Obj} {L : List Chk} {i j i' j' : Nat} (hi : i ≤ i') (hj : j ≤ j') (p : Pend)
    (h : Exc g x L i j p) : Exc g x L i' j' p := by
  rcases h with ⟨h1, h2⟩ | ⟨h1, h2⟩
  · exact Or.inl ⟨h1, mem_take_mono L i i' hi _ h2⟩
  · exact Or.inr ⟨h1, mem_take_mono L j j' hj _ h2⟩

theorem cov_ex_mono {g : Graph} {ctx : Ctx} {G : Chk → Prop} {A : List Chk → Prop} (hC : Closed2 ctx G A)
    {todo todo' : List Ent} {ex ex' : List Pend} (hE : ∀ q, q ∈ ex → q ∈ ex')
    (hP : ∀ q, G q.2 → Pending todo q → Pending todo' q) (q : Pend) (h : Cov g G todo ex q) :
    Cov g G todo' ex' q :=
  covP_mono (fun a os h => (c2_disj hC a os h).2.2) hE (fun q hG h => Or.inl (hP q hG h)) q h

/-- the pair (x, k) of an alternative, or the pair (value, k) after the reference was followed, is new in the memo:
    what `base_step` needs about it -/
theorem new_alt_pair {g : Graph} {ctx : Ctx} {G : Chk → Prop} {A : List Chk → Prop} (hC : Closed2 ctx G A)
    (C : Pend → Prop) (exc' : Pend → Prop) (L : List Chk) (hA : A L) (y : Obj) (k : Chk) (hkL : k ∈ L)
    (hexc : exc' (y, k)) :
    (y, k).2.isDisj = false ∧ (G (y, k).2 → SoundAt g ctx C (y, k)) ∧
      (∀ L', A L' → (y, k).2 ∈ L' → disjOK g (y, k).1 L' = true ∨ exc' (y, k)) :=
  ⟨leaf_not_disj k ((hC.alts L hA).2.1 k hkL), fun hG => absurd hG ((hC.alts L hA).2.2.2 k hkL),
    fun _ _ _ => Or.inr hexc⟩

/-- taking up alternative `i` of the bare disjunction at the front of the top set (index already advanced) -/
theorem tryAlt {fx : Fix} (hfx : FixF2 fx) {g : Graph} {ctx : Ctx} {G : Chk → Prop} {A : List Chk → Prop}
    (hC : Closed2 ctx G A) (root : Pend) (s : St) (x : Obj) (os : ChkL) (ptl : List Pend) (i : Nat)
    (sn : Option (List Pend)) (rest : List Ent) (k : Chk)
    (htodo : s.todo = ⟨(x, .disj Attr.dflt os) :: ptl, i + 1, sn⟩ :: rest)
    (hA : A os.chks) (hk : os.chks[i]? = some k) (hidx : Idx0 rest) (hpg : PendG G s.todo)
    (hb : Base g ctx G A root s.todo s.examined (Exc g x os.chks i i)) :
    (∀ st', issue fx g ctx s x k = .inl st' → Inv g ctx G A root st'.todo st'.examined st'.err) ∧
    (∀ r, issue fx g ctx s x k = .inr r → r.1 ≠ .accept) := by
  obtain ⟨_, hleaf, hnodup, hpriv⟩ := hC.alts _ hA
  have hkL : k ∈ os.chks := mem_of_getElem? _ i k hk
  have hlk := hleaf k hkL
  unfold issue
  simp only [leaf_resolve ctx k hlk]
  cases hex : haveExamined fx s.examined (x, k)
  · simp only [Bool.false_eq_true, if_false]
    have hcov1 : ∀ q, Cov g G s.todo s.examined q → Cov g G s.todo ((x, k) :: s.examined) q :=
      cov_ex_mono hC (fun q h => List.mem_cons_of_mem _ h) (fun q _ h => h)
    have hb1 : Base g ctx G A root s.todo ((x, k) :: s.examined) (Exc g x os.chks (i + 1) (i + 1)) := by
      refine base_step hb hcov1 ?_ (fun p _ he => Or.inl (exc_mono (Nat.le_succ i) (Nat.le_succ i) p he))
      intro p hp
      simp only [List.mem_cons] at hp
      rcases hp with hp | hp
      · right; rw [hp]
        exact new_alt_pair hC _ _ _ hA x k hkL (Or.inl ⟨rfl, mem_take_succ _ i k hk⟩)
      · exact Or.inl hp
    cases hr : x.isRef
    · obtain ⟨h1, h2⟩ := leaf_process_val (fx := fx) g ctx x k hlk hr
      cases hl : leafOK g x k
      · obtain ⟨e, he⟩ := h2 hl
        rw [he]
        refine ⟨?_, by simp⟩
        intro st' h
        injection h with h; subst h
        exact Or.inr (Or.inr (Or.inl ⟨x, os, ptl, i + 1, sn, rest, htodo, Nat.succ_pos i, hidx, hpg, hb1,
          fun h => (by cases h)⟩))
      · rw [h1 hl]
        refine ⟨?_, by simp⟩
        intro st' h
        injection h with h; subst h
        refine Or.inr (Or.inr (Or.inl ⟨x, os, ptl, i + 1, sn, rest, htodo, Nat.succ_pos i, hidx, hpg, hb1,
          fun _ => ?_⟩))
        simp only [disjOK, List.any_eq_true]
        exact ⟨k, hkL, hl⟩
    · cases x with
      | ref a b =>
        rw [leaf_process_ref hfx.ok g ctx a b k hlk, htodo]
        simp only []
        refine ⟨?_, by simp⟩
        intro st' h
        injection h with h; subst h
        refine Or.inr (Or.inr (Or.inr ⟨.ref a b, os, ptl, i, sn, rest, k, rfl, rfl, rfl, hk, hidx,
          (by rw [← htodo]; exact hpg), ?_⟩))
        refine base_step hb ?_ ?_ (fun p _ he => Or.inl (exc_mono (Nat.le_succ i) (Nat.le_refl i) p he))
        · apply cov_ex_mono hC (fun q h => List.mem_cons_of_mem _ h)
          intro q _ hq
          rw [htodo] at hq
          simp only [pending_cons, List.mem_cons] at hq ⊢
          rcases hq with hq | hq
          · exact Or.inl (Or.inr hq)
          · exact Or.inr hq
        · intro p hp
          simp only [List.mem_cons] at hp
          rcases hp with hp | hp
          · right; rw [hp]
            exact new_alt_pair hC _ _ _ hA _ k hkL (Or.inl ⟨rfl, mem_take_succ _ i k hk⟩)
          · exact Or.inl hp
      | _ => simp [Obj.isRef] at hr
  · simp only [if_true, hfx.c.staleErr]
    refine ⟨?_, by simp⟩
    intro st' h
    injection h with h; subst h
    have hin := (haveExamined_iff hfx.ok _ _).mp hex
    refine Or.inr (Or.inr (Or.inl ⟨x, os, ptl, i + 1, sn, rest, htodo, Nat.succ_pos i, hidx, hpg, ?_, fun _ => ?_⟩))
    · exact base_step hb (fun q h => h) (fun p hp => Or.inl hp)
        (fun p _ he => Or.inl (exc_mono (Nat.le_succ i) (Nat.le_succ i) p he))
    · rcases hb.alt _ hin _ hA hkL with h | ⟨_, h⟩ | ⟨_, h⟩
      · exact h
      · exact absurd h (nodup_not_mem_take _ hnodup i k hk)
      · exact absurd h (nodup_not_mem_take _ hnodup i k hk)

/-- taking up the pair (value of x, alternative `i`) returned after the reference `x` was followed -/
theorem valAlt {fx : Fix} (hfx : FixF2 fx) {g : Graph} {ctx : Ctx} {G : Chk → Prop} {A : List Chk → Prop}
    (hC : Closed2 ctx G A) (root : Pend) (s : St) (x : Obj) (os : ChkL) (ptl : List Pend) (i : Nat)
    (sn : Option (List Pend)) (rest : List Ent) (k : Chk)
    (htodo : s.todo = ⟨(x, .disj Attr.dflt os) :: ptl, i + 1, sn⟩ :: rest) (hx : x.isRef = true)
    (hA : A os.chks) (hk : os.chks[i]? = some k) (hidx : Idx0 rest) (hpg : PendG G s.todo)
    (hb : Base g ctx G A root s.todo s.examined (Exc g x os.chks (i + 1) i)) :
    (∀ st', issue fx g ctx s (value g x) k = .inl st' → Inv g ctx G A root st'.todo st'.examined st'.err) ∧
    (∀ r, issue fx g ctx s (value g x) k = .inr r → r.1 ≠ .accept) := by
  obtain ⟨_, hleaf, hnodup, hpriv⟩ := hC.alts _ hA
  have hkL : k ∈ os.chks := mem_of_getElem? _ i k hk
  have hlk := hleaf k hkL
  have hvr := value_not_ref g x
  unfold issue
  simp only [leaf_resolve ctx k hlk]
  cases hex : haveExamined fx s.examined (value g x, k)
  · simp only [Bool.false_eq_true, if_false]
    have hcov1 : ∀ q, Cov g G s.todo s.examined q → Cov g G s.todo ((value g x, k) :: s.examined) q :=
      cov_ex_mono hC (fun q h => List.mem_cons_of_mem _ h) (fun q _ h => h)
    have hb1 : Base g ctx G A root s.todo ((value g x, k) :: s.examined) (Exc g x os.chks (i + 1) (i + 1)) := by
      refine base_step hb hcov1 ?_ (fun p _ he => Or.inl (exc_mono (Nat.le_refl _) (Nat.le_succ i) p he))
      intro p hp
      simp only [List.mem_cons] at hp
      rcases hp with hp | hp
      · right; rw [hp]
        exact new_alt_pair hC _ _ _ hA _ k hkL (Or.inr ⟨rfl, mem_take_succ _ i k hk⟩)
      · exact Or.inl hp
    obtain ⟨h1, h2⟩ := leaf_process_val (fx := fx) g ctx (value g x) k hlk hvr
    cases hl : leafOK g (value g x) k
    · obtain ⟨e, he⟩ := h2 hl
      rw [he]
      refine ⟨?_, by simp⟩
      intro st' h
      injection h with h; subst h
      exact Or.inr (Or.inr (Or.inl ⟨x, os, ptl, i + 1, sn, rest, htodo, Nat.succ_pos i, hidx, hpg, hb1,
        fun h => (by cases h)⟩))
    · rw [h1 hl]
      refine ⟨?_, by simp⟩
      intro st' h
      injection h with h; subst h
      refine Or.inr (Or.inr (Or.inl ⟨x, os, ptl, i + 1, sn, rest, htodo, Nat.succ_pos i, hidx, hpg, hb1,
        fun _ => ?_⟩))
      simp only [disjOK, List.any_eq_true]
      exact ⟨k, hkL, by rw [← leafOK_value]; exact hl⟩
  · simp only [if_true, hfx.c.staleErr]
    refine ⟨?_, by simp⟩
    intro st' h
    injection h with h; subst h
    have hin := (haveExamined_iff hfx.ok _ _).mp hex
    refine Or.inr (Or.inr (Or.inl ⟨x, os, ptl, i + 1, sn, rest, htodo, Nat.succ_pos i, hidx, hpg, ?_, fun _ => ?_⟩))
    · exact base_step hb (fun q h => h) (fun p hp => Or.inl hp)
        (fun p _ he => Or.inl (exc_mono (Nat.le_refl _) (Nat.le_succ i) p he))
    · rcases hb.alt _ hin _ hA hkL with h | ⟨h, _⟩ | ⟨_, h⟩
      · rw [← disjOK_value]; exact h
      · simp only [] at h
        rw [← h, hvr] at hx; cases hx
      · exact absurd h (nodup_not_mem_take _ hnodup i k hk)

/-! ### one iteration of the `get_next_check` loop -/

theorem covP_mono2 {g : Graph} {G : Chk → Prop} {P P' E E' : Pend → Prop}
    (hE : ∀ q, E q → E' q)
    (hP : ∀ q, G q.2 → P q → P' q ∨ E' q ∨ DDone g P' E' q)
    (hP0 : ∀ x os, P (x, .disj Attr.dflt os) → P' (x, .disj Attr.dflt os) ∨ disjOK g x os.chks = true)
    (q : Pend) (h : CovP g G P E q) : CovP g G P' E' q := by
  obtain ⟨hG, h⟩ := h
  refine ⟨hG, ?_⟩
  rcases h with h | h | ⟨a, os, hq, hg, hb⟩
  · exact Or.inl (hE q h)
  · rcases hP q hG h with h' | h' | h'
    · exact Or.inr (Or.inl h')
    · exact Or.inl h'
    · exact Or.inr (Or.inr h')
  · refine Or.inr (Or.inr ⟨a, os, hq, hg.imp id (hE _), ?_⟩)
    rcases hb with hb | hb
    · exact hP0 _ _ hb
    · exact Or.inr hb

theorem base_todo {g : Graph} {ctx : Ctx} {G : Chk → Prop} {A : List Chk → Prop} (hC : Closed2 ctx G A)
    {root : Pend} {todo todo' : List Ent} {ex : List Pend} {exc : Pend → Prop}
    (h : Base g ctx G A root todo ex exc) (hP : ∀ q, G q.2 → Pending todo q → Pending todo' q) :
    Base g ctx G A root todo' ex exc :=
  base_step h (cov_ex_mono hC (fun q h => h) hP) (fun p hp => Or.inl hp) (fun p _ he => Or.inl he)

theorem out_reject {P : St → Prop} {Q : Prop} (k : EK) (n : Nat) :
    (∀ st', (Sum.inr (Outcome.reject k, n) : St ⊕ (Outcome × Nat)) = .inl st' → P st') ∧
    (∀ r, (Sum.inr (Outcome.reject k, n) : St ⊕ (Outcome × Nat)) = .inr r → r.1 = .accept → Q) := by
  refine ⟨by simp, ?_⟩
  intro r hr
  injection hr with hr; subst hr
  intro h; cases h

theorem out_weaken {P : St → Prop} {Q : Prop} {res : St ⊕ (Outcome × Nat)}
    (h : (∀ st', res = .inl st' → P st') ∧ (∀ r, res = .inr r → r.1 ≠ .accept)) :
    (∀ st', res = .inl st' → P st') ∧ (∀ r, res = .inr r → r.1 = .accept → Q) :=
  ⟨h.1, fun r hr ha => absurd ha (h.2 r hr)⟩

theorem step_inv2 {fx : Fix} (hfx : FixF2 fx) {g : Graph} {ctx : Ctx} {G : Chk → Prop} {A : List Chk → Prop}
    (hC : Closed2 ctx G A) (root : Pend) (st0 : St)
    (hinv : Inv g ctx G A root st0.todo st0.examined st0.err) :
    (∀ st', step fx g ctx st0 = .inl st' → Inv g ctx G A root st'.todo st'.examined st'.err) ∧
    (∀ r, step fx g ctx st0 = .inr r → r.1 = .accept → CConf g ctx root) := by
  unfold step
  generalize hst : (if st0.fresh = true then { st0 with steps := st0.steps + 1, fresh := false } else st0) = s
  have hs1 : st0.todo = s.todo := by subst hst; split <;> rfl
  have hs2 : st0.examined = s.examined := by subst hst; split <;> rfl
  have hs3 : st0.err = s.err := by subst hst; split <;> rfl
  rw [hs1, hs2, hs3] at hinv
  clear hst hs1 hs2 hs3
  simp only []
  rcases hinv with ⟨⟨k, hk⟩, hidx⟩ | ⟨herr, hidx, hpg, hb⟩ |
    ⟨x, os, ptl, i, sn, rest, htd, hi, hidx, hpg, hb, hdone⟩ |
    ⟨x, os, ptl, i, sn, rest, k, htd, herr, hx, hk, hidx, hpg, hb⟩
  · -- an error is pending and no disjunction is in progress: the run rejects
    cases htd : s.todo with
    | nil => simp only [hk]; exact out_reject k _
    | cons e rest =>
      simp only []
      rw [htd] at hidx
      have h0 : e.idx = 0 := hidx e (by simp)
      have hidx' : ∀ ptl sn, Idx0 (⟨ptl, 0, sn⟩ :: rest) := by
        intro ptl sn e' he'
        simp only [List.mem_cons] at he'
        rcases he' with he' | he'
        · rw [he']
        · exact hidx e' (by simp [he'])
      cases hp : e.pending with
      | nil =>
        simp only [hk]
        rw [unwindOr_idx0 _ _ _ hidx]; exact out_reject k _
      | cons p ptl =>
        obtain ⟨obj, tc⟩ := p
        cases tc with
        | disj a set =>
          simp only [h0, Nat.lt_irrefl, gt_iff_lt, if_false, hk]
          rw [unwindOr_idx0 _ _ _ (hidx' ptl _)]; exact out_reject k _
        | _ =>
          simp only [hk, h0]
          rw [unwindOr_idx0 _ _ _ (hidx' ptl _)]; exact out_reject k _
  · -- no error, no disjunction in progress
    cases htd : s.todo with
    | nil =>
      simp only [herr]
      refine ⟨by simp, ?_⟩
      intro r hr _
      rw [htd] at hb
      intro n
      exact accept_sound2 hC s.examined hb.nd hb.snd n root hb.root
    | cons e rest =>
      simp only []
      rw [htd] at hidx hpg hb
      have h0 : e.idx = 0 := hidx e (by simp)
      have hidxr : Idx0 rest := fun e' he' => hidx e' (by simp [he'])
      have hpgr : PendG G rest := fun e' he' => hpg e' (by simp [he'])
      have halt : ∀ p ∈ s.examined, ∀ L, A L → p.2 ∈ L → disjOK g p.1 L = true := by
        intro p hp L hL hk
        rcases hb.alt p hp L hL hk with h | h
        · exact h
        · exact h.elim
      cases hp : e.pending with
      | nil =>
        simp only [herr]
        refine ⟨?_, by simp⟩
        intro st' h
        injection h with h; subst h
        refine Or.inr (Or.inl ⟨rfl, hidxr, hpgr, base_todo hC hb ?_⟩)
        intro q _ hq
        simpa [pending_cons, hp] using hq
      | cons p ptl =>
        obtain ⟨obj, tc⟩ := p
        have hGtc : G tc := hpg e (by simp) (obj, tc) (by simp [hp])
        have hGptl : ∀ q ∈ ptl, G q.2 := fun q hq => hpg e (by simp) q (by simp [hp, hq])
        have hidx' : ∀ ptl sn, Idx0 (⟨ptl, 0, sn⟩ :: rest) := by
          intro ptl sn e' he'
          simp only [List.mem_cons] at he'
          rcases he' with he' | he'
          · rw [he']
          · exact hidxr e' he'
        have single : tc.isDisj = false →
            (∀ st', issue fx g ctx { s with todo := ⟨ptl, 0, e.snap⟩ :: rest, err := none } obj tc = .inl st' →
              Inv g ctx G A root st'.todo st'.examined st'.err) ∧
            (∀ r, issue fx g ctx { s with todo := ⟨ptl, 0, e.snap⟩ :: rest, err := none } obj tc = .inr r →
              r.1 = .accept → CConf g ctx root) := by
          intro hnd
          apply out_weaken
          refine issueG hfx hC root _ obj tc (Cov g G (e :: rest) s.examined) hGtc hnd (by simp) (hidx' _ _) ?_
            hb.nd halt hb.snd hb.root ?_
          · intro e' he' q hq
            simp only [List.mem_cons] at he'
            rcases he' with he' | he'
            · rw [he'] at hq; exact hGptl q hq
            · exact hpgr e' he' q hq
          · apply covP_mono2 (fun q h => List.mem_cons_of_mem _ h)
            · intro q _ hq
              simp only [pending_cons, hp, List.mem_cons] at hq ⊢
              rcases hq with (hq | hq) | hq
              · exact Or.inr (Or.inl (Or.inl hq))
              · exact Or.inl (Or.inl hq)
              · exact Or.inl (Or.inr hq)
            · intro x os hq
              simp only [pending_cons, hp, List.mem_cons] at hq ⊢
              rcases hq with (hq | hq) | hq
              · injection hq with _ hq
                rw [← hq] at hnd; simp [Chk.isDisj] at hnd
              · exact Or.inl (Or.inl hq)
              · exact Or.inl (Or.inr hq)
        cases tc with
        | disj a set =>
          simp only [h0, Nat.lt_irrefl, gt_iff_lt, if_false, herr]
          obtain ⟨hA, hGany, hG0⟩ := c2_disj hC a set hGtc
          cases hsc : set.chks with
          | nil => exact absurd hsc (hC.alts _ hA).1
          | cons c0 t =>
            simp only []
            by_cases ha : a = Attr.dflt
            · subst ha
              simp only [bne_self_eq_false, Bool.and_false, Bool.false_eq_true, if_false]
              apply out_weaken
              refine tryAlt hfx hC root _ obj set ptl 0 _ rest c0 rfl hA (by simp [hsc]) hidxr ?_ ?_
              · intro e' he' q hq
                simp only [List.mem_cons] at he'
                rcases he' with he' | he'
                · rw [he'] at hq
                  simp only [List.mem_cons] at hq
                  rcases hq with hq | hq
                  · rw [hq]; exact hG0
                  · exact hGptl q hq
                · exact hpgr e' he' q hq
              · refine base_step hb ?_ (fun p hp => Or.inl hp) (fun p _ he => he.elim)
                apply cov_ex_mono hC (fun q h => h)
                intro q _ hq
                simpa [pending_cons, hp] using hq
            · have hne : (a != Attr.dflt) = true := by simpa using ha
              simp only [hfx.c.disjAttrs, hne, Bool.and_self, if_true]
              apply out_weaken
              refine issueG hfx hC root _ obj (.any a) (Cov g G (e :: rest) s.examined) hGany rfl (by simp)
                (hidx' _ _) ?_ hb.nd halt hb.snd hb.root ?_
              · intro e' he' q hq
                simp only [List.mem_cons] at he'
                rcases he' with he' | he'
                · rw [he'] at hq
                  simp only [List.mem_cons] at hq
                  rcases hq with hq | hq
                  · rw [hq]; exact hG0
                  · exact hGptl q hq
                · exact hpgr e' he' q hq
              · apply covP_mono2 (fun q h => List.mem_cons_of_mem _ h)
                · intro q _ hq
                  simp only [pending_cons, hp, List.mem_cons] at hq ⊢
                  rcases hq with (hq | hq) | hq
                  · refine Or.inr (Or.inr ⟨a, set, by rw [hq], Or.inr (by rw [hq]; simp), Or.inl ?_⟩)
                    rw [hq]; simp [pending_cons]
                  · exact Or.inl (Or.inl (Or.inr hq))
                  · exact Or.inl (Or.inr hq)
                · intro x os hq
                  simp only [pending_cons, hp, List.mem_cons] at hq ⊢
                  rcases hq with (hq | hq) | hq
                  · injection hq with _ hq
                    injection hq with hq _
                    exact absurd hq.symm ha
                  · exact Or.inl (Or.inl (Or.inr hq))
                  · exact Or.inl (Or.inr hq)
        | named n => simp only [herr, h0]; exact single rfl
        | any a => simp only [herr, h0]; exact single rfl
        | prim a p => simp only [herr, h0]; exact single rfl
        | array a el sz => simp only [herr, h0]; exact single rfl
        | het a es => simp only [herr, h0]; exact single rfl
        | dict a es => simp only [herr, h0]; exact single rfl
        | dictStar a es so sc => simp only [herr, h0]; exact single rfl
        | stream a es => simp only [herr, h0]; exact single rfl
  · -- the bare disjunction at the front of the top set is in progress
    rw [htd] at hpg hb
    have hG0 : G (.disj Attr.dflt os) := hpg _ List.mem_cons_self (x, .disj Attr.dflt os) List.mem_cons_self
    obtain ⟨hA, _, _⟩ := c2_disj hC _ os hG0
    have hpg' : ∀ j sn', PendG G (⟨(x, .disj Attr.dflt os) :: ptl, j, sn'⟩ :: rest) := by
      intro j sn' e' he' q hq
      simp only [List.mem_cons] at he'
      rcases he' with he' | he'
      · rw [he'] at hq; exact hpg _ List.mem_cons_self q hq
      · exact hpg e' (by simp [he']) q hq
    simp only [htd, gt_iff_lt, hi, if_true]
    cases herr : s.err with
    | none =>
      simp only []
      refine ⟨?_, by simp⟩
      intro st' h
      injection h with h; subst h
      refine Or.inr (Or.inl ⟨rfl, ?_, ?_, ?_⟩)
      · intro e' he'
        simp only [List.mem_cons] at he'
        rcases he' with he' | he'
        · rw [he']
        · exact hidx e' he'
      · intro e' he' q hq
        simp only [List.mem_cons] at he'
        rcases he' with he' | he'
        · rw [he'] at hq; exact hpg _ List.mem_cons_self q (List.mem_cons_of_mem _ hq)
        · exact hpg e' (by simp [he']) q hq
      · refine base_step hb ?_ (fun p hp => Or.inl hp) ?_
        · apply covP_mono (fun a os h => (c2_disj hC a os h).2.2) (fun q h => h)
          intro q _ hq
          simp only [pending_cons, List.mem_cons] at hq ⊢
          rcases hq with (hq | hq) | hq
          · exact Or.inr ⟨os, by rw [hq], by rw [hq]; exact hdone herr⟩
          · exact Or.inl (Or.inl hq)
          · exact Or.inl (Or.inr hq)
        · intro p _ he
          right
          intro L' hL' hk'
          have hmem : p.2 ∈ os.chks := by
            rcases he with ⟨_, h⟩ | ⟨_, h⟩ <;> exact List.mem_of_mem_take h
          have hLL : os.chks = L' := by
            rcases hC.sep _ _ hA hL' with h | h
            · exact h
            · exact absurd hk' (h _ hmem)
          rw [← hLL]
          rcases he with ⟨h, _⟩ | ⟨h, _⟩
          · rw [h]; exact hdone herr
          · rw [h, disjOK_value]; exact hdone herr
    | some k0 =>
      simp only []
      cases hk : os.chks[i]? with
      | none =>
        simp only [restore, hfx.ok.trail, hfx.c.staleIdx, Bool.false_eq_true, if_false, if_true]
        rw [unwindOr_idx0]
        · exact out_reject k0 _
        · intro e' he'
          simp only [List.mem_cons] at he'
          rcases he' with he' | he'
          · rw [he']
          · exact hidx e' he'
      | some c =>
        simp only [restore, hfx.ok.trail, Bool.false_eq_true, if_false]
        apply out_weaken
        exact tryAlt hfx hC root _ x os ptl i sn rest c rfl hA hk hidx (hpg' _ _)
          (base_todo hC hb (fun q _ hq => by simpa [pending_cons] using hq))
  · -- the pair (value, alternative) returned after the reference was followed is at the front
    rw [htd] at hb
    have hG0 : G (.disj Attr.dflt os) := hpg _ List.mem_cons_self (x, .disj Attr.dflt os) List.mem_cons_self
    obtain ⟨hA, _, _⟩ := c2_disj hC _ os hG0
    obtain ⟨_, hleaf, _, hpriv⟩ := hC.alts _ hA
    have hkL : k ∈ os.chks := mem_of_getElem? _ i k hk
    have hlk := hleaf k hkL
    have hb' : Base g ctx G A root (⟨(x, .disj Attr.dflt os) :: ptl, i + 1, sn⟩ :: rest) s.examined
        (Exc g x os.chks (i + 1) i) := by
      refine base_todo hC hb ?_
      intro q hGq hq
      simp only [pending_cons, List.mem_cons] at hq ⊢
      rcases hq with (hq | hq) | hq
      · rw [hq] at hGq; exact absurd hGq (hpriv k hkL)
      · exact Or.inl hq
      · exact Or.inr hq
    have key := valAlt hfx hC root
      { s with todo := ⟨(x, .disj Attr.dflt os) :: ptl, i + 1, sn⟩ :: rest, err := none } x os ptl i sn rest k rfl hx
      hA hk hidx hpg hb'
    simp only [htd, herr]
    cases k with
    | any a => exact out_weaken key
    | prim a p => exact out_weaken key
    | _ => simp [isLeafAlt] at hlk

theorem run_inv2 {fx : Fix} (hfx : FixF2 fx) {g : Graph} {ctx : Ctx} {G : Chk → Prop} {A : List Chk → Prop}
    (hC : Closed2 ctx G A) (root : Pend) : ∀ (n : Nat) (st : St),
      Inv g ctx G A root st.todo st.examined st.err → (run fx g ctx n st).1 = .accept → CConf g ctx root
  | 0, st, _ => by simp [run]
  | n+1, st, hinv => by
    have hs := step_inv2 hfx hC root st hinv
    simp only [run]
    cases hstep : step fx g ctx st with
    | inl st' => exact run_inv2 hfx hC root n st' (hs.1 st' hstep)
    | inr r => exact hs.2 r hstep

theorem closed2_rep {ctx : Ctx} {G : Chk → Prop} {A : List Chk → Prop} (hC : Closed2 ctx G A) (chk : Chk)
    (hc : G chk) : ∃ rep, resolve ctx chk = some rep ∧ G rep ∧ resolve ctx rep = some rep := by
  obtain ⟨rep, hres, hG, h | ⟨a, os, h, _⟩⟩ := hC.node chk hc
  · exact ⟨rep, hres, hG, nodeOK_not_named ctx rep h.1⟩
  · exact ⟨rep, hres, hG, by rw [h]; rfl⟩

/-- SOUNDNESS on F2, any fuel: an accepting run of `check_type` implies conformance -/
theorem checkType_F2_sound {fx : Fix} (hfx : FixF2 fx) (g : Graph) (ctx : Ctx) (G : Chk → Prop)
    (A : List Chk → Prop) (hC : Closed2 ctx G A) (o : Obj) (chk : Chk) (hc : G chk) (fuel : Nat) :
    (checkTypeFuel fx g ctx fuel o chk).1 = .accept → Conforms g ctx o chk := by
  obtain ⟨rep, hres, hGrep, hrr⟩ := closed2_rep hC chk hc
  rw [conforms_resolve g ctx o chk rep hres hrr]
  unfold checkTypeFuel
  simp only [hres, closed2_norm_id hC fx rep hGrep]
  apply run_inv2 hfx hC (o, rep) fuel (initSt o rep)
  refine Or.inr (Or.inl ⟨rfl, ?_, ?_, ⟨?_, ?_, ?_, ?_⟩⟩)
  · intro e he
    simp only [initSt, List.mem_singleton] at he
    rw [he]
  · intro e he q hq
    simp only [initSt, List.mem_singleton] at he
    rw [he] at hq
    simp only [List.mem_singleton] at hq
    rw [hq]; exact hGrep
  · intro p hp; simp [initSt] at hp
  · intro p hp; simp [initSt] at hp
  · intro p hp; simp [initSt] at hp
  · exact ⟨hGrep, Or.inr (Or.inl ⟨_, List.mem_singleton.mpr rfl, List.mem_singleton.mpr rfl⟩)⟩

/-- COMPLETENESS on F2 without the well-formedness hypothesis on the whole context: the closed set of F2 extended by
    the alternatives is a closed well-formed set in the sense of Lemmas/TypeCheckComplete.lean -/
theorem checkType_F2_complete {fx : Fix} (hfx : FixF2 fx) (g : Graph) (ctx : Ctx) (G : Chk → Prop)
    (A : List Chk → Prop) (hC : Closed2 ctx G A) (o : Obj) (chk : Chk) (hc : G chk)
    (hconf : Conforms g ctx o chk) (fuel : Nat) :
    (checkTypeFuel fx g ctx fuel o chk).1 = .accept ∨ (checkTypeFuel fx g ctx fuel o chk).1 = .outOfFuel := by
  obtain ⟨rep, hres, hGrep, hrr⟩ := closed2_rep hC chk hc
  rw [conforms_resolve g ctx o chk rep hres hrr] at hconf
  unfold checkTypeFuel
  simp only [hres, closed2_norm_id hC fx rep hGrep]
  exact Complete.run_complete hfx.c g ctx _ (closed2_closedC hC) o rep (Or.inl hGrep) hconf fuel

/-- C08 on fragment F2: run with the work bound of C09, the machine accepts iff the object conforms -/
theorem checkType_F2_iff {fx : Fix} (hfx : FixF2 fx) (g : Graph) (ctx : Ctx) (G : Chk → Prop)
    (A : List Chk → Prop) (hC : Closed2 ctx G A) (o : Obj) (chk : Chk) (hc : G chk) :
    (checkTypeFuel fx g ctx (workBound fx g ctx o chk) o chk).1 = .accept ↔ Conforms g ctx o chk := by
  constructor
  · exact checkType_F2_sound hfx g ctx G A hC o chk hc _
  · intro hconf
    rcases checkType_F2_complete hfx g ctx G A hC o chk hc hconf (workBound fx g ctx o chk) with h | h
    · exact h
    · exact absurd h (checkTypeFuel_terminates fx hfx.ok.trail g ctx o chk)

end Parsley.TC.F2
