/-
  C09: termination of the type-check machine with an explicit bound (see Spec/WorkBound.lean).
  Potential argument: `phi st = costA * (|pairU| - |examined|) + todoCost st.todo` decreases with every
  iteration of the `get_next_check` loop, for every configuration of the repair flags in which the memo
  is monotone (`trail = false`; in particular `Fix.orig` and `Fix.tree`).
-/
import Parsley.Model.TypeCheck
import Parsley.Spec.Conforms
import Parsley.Spec.WorkBound
namespace Parsley.TC.Term
open Parsley Parsley.TC Parsley.TC.Spec

/-! ### closure of the sub-term universes -/

theorem chkSubs_self (c : Chk) : c ∈ chkSubs c := by
  cases c <;> simp [chkSubs]

theorem objSubs_self (o : Obj) : o ∈ objSubs o := by
  cases o <;> simp [objSubs]

theorem chks_sub : ∀ (l : ChkL) (k : Chk), k ∈ l.chks → k ∈ chkLSubs l
  | .nil, k, h => by simp [ChkL.chks, ChkL.toList] at h
  | .cons _ _ c t, k, h => by
    simp only [ChkL.chks, ChkL.toList, List.map_cons, List.mem_cons] at h
    simp only [chkLSubs, List.mem_append]
    rcases h with h | h
    · left; subst h; exact chkSubs_self _
    · right; exact chks_sub t k h

theorem vals_sub : ∀ (l : ObjL) (k : Obj), k ∈ l.vals → k ∈ objLSubs l
  | .nil, k, h => by simp [ObjL.vals, ObjL.toList] at h
  | .cons _ v t, k, h => by
    simp only [ObjL.vals, ObjL.toList, List.map_cons, List.mem_cons] at h
    simp only [objLSubs, List.mem_append]
    rcases h with h | h
    · left; subst h; exact objSubs_self _
    · right; exact vals_sub t k h

mutual
theorem chkSubs_kids : ∀ (r b k : Chk), b ∈ chkSubs r → k ∈ chkKids b → k ∈ chkSubs r
  | .named n, b, k, hb, hk => by
    simp only [chkSubs, List.mem_singleton] at hb; subst hb; simp [chkKids] at hk
  | .any a, b, k, hb, hk => by
    simp only [chkSubs, List.mem_singleton] at hb; subst hb; simp [chkKids] at hk
  | .prim a p, b, k, hb, hk => by
    simp only [chkSubs, List.mem_singleton] at hb; subst hb; simp [chkKids] at hk
  | .array a e s, b, k, hb, hk => by
    simp only [chkSubs, List.mem_cons] at hb ⊢
    rcases hb with hb | hb
    · subst hb; simp only [chkKids, List.mem_singleton] at hk; subst hk
      right; exact chkSubs_self _
    · right; exact chkSubs_kids e b k hb hk
  | .het a es, b, k, hb, hk => by
    simp only [chkSubs, List.mem_cons] at hb ⊢
    rcases hb with hb | hb
    · subst hb; simp only [chkKids] at hk; right; exact chks_sub _ _ hk
    · right; exact chkLSubs_kids es b k hb hk
  | .dict a es, b, k, hb, hk => by
    simp only [chkSubs, List.mem_cons] at hb ⊢
    rcases hb with hb | hb
    · subst hb; simp only [chkKids] at hk; right; exact chks_sub _ _ hk
    · right; exact chkLSubs_kids es b k hb hk
  | .stream a es, b, k, hb, hk => by
    simp only [chkSubs, List.mem_cons] at hb ⊢
    rcases hb with hb | hb
    · subst hb; simp only [chkKids] at hk; right; exact chks_sub _ _ hk
    · right; exact chkLSubs_kids es b k hb hk
  | .disj a es, b, k, hb, hk => by
    simp only [chkSubs, List.mem_cons] at hb ⊢
    rcases hb with hb | hb
    · subst hb; simp only [chkKids] at hk; right; exact chks_sub _ _ hk
    · right; exact chkLSubs_kids es b k hb hk
  | .dictStar a es so sc, b, k, hb, hk => by
    simp only [chkSubs, List.mem_cons, List.mem_append] at hb ⊢
    rcases hb with hb | hb | hb
    · subst hb; simp only [chkKids, List.mem_append, List.mem_singleton] at hk
      rcases hk with hk | hk
      · right; left; exact chks_sub _ _ hk
      · subst hk; right; right; exact chkSubs_self _
    · right; left; exact chkLSubs_kids es b k hb hk
    · right; right; exact chkSubs_kids sc b k hb hk
theorem chkLSubs_kids : ∀ (l : ChkL) (b k : Chk), b ∈ chkLSubs l → k ∈ chkKids b → k ∈ chkLSubs l
  | .nil, b, k, hb, hk => by simp [chkLSubs] at hb
  | .cons _ _ c t, b, k, hb, hk => by
    simp only [chkLSubs, List.mem_append] at hb ⊢
    rcases hb with hb | hb
    · left; exact chkSubs_kids c b k hb hk
    · right; exact chkLSubs_kids t b k hb hk
end

mutual
theorem objSubs_kids : ∀ (r b k : Obj), b ∈ objSubs r → k ∈ objKids b → k ∈ objSubs r
  | .arr xs, b, k, hb, hk => by
    simp only [objSubs, List.mem_cons] at hb ⊢
    rcases hb with hb | hb
    · subst hb; simp only [objKids] at hk; right; exact vals_sub _ _ hk
    · right; exact objLSubs_kids xs b k hb hk
  | .dict xs, b, k, hb, hk => by
    simp only [objSubs, List.mem_cons] at hb ⊢
    rcases hb with hb | hb
    · subst hb; simp only [objKids] at hk; right; exact vals_sub _ _ hk
    · right; exact objLSubs_kids xs b k hb hk
  | .stream xs s c, b, k, hb, hk => by
    simp only [objSubs, List.mem_cons] at hb ⊢
    rcases hb with hb | hb
    · subst hb; simp only [objKids] at hk; right; exact vals_sub _ _ hk
    · right; exact objLSubs_kids xs b k hb hk
  | .ref _ _, b, k, hb, hk => by
    simp only [objSubs, List.mem_singleton] at hb; subst hb; simp [objKids] at hk
  | .bool _, b, k, hb, hk => by
    simp only [objSubs, List.mem_singleton] at hb; subst hb; simp [objKids] at hk
  | .str _, b, k, hb, hk => by
    simp only [objSubs, List.mem_singleton] at hb; subst hb; simp [objKids] at hk
  | .name _, b, k, hb, hk => by
    simp only [objSubs, List.mem_singleton] at hb; subst hb; simp [objKids] at hk
  | .null, b, k, hb, hk => by
    simp only [objSubs, List.mem_singleton] at hb; subst hb; simp [objKids] at hk
  | .comment _, b, k, hb, hk => by
    simp only [objSubs, List.mem_singleton] at hb; subst hb; simp [objKids] at hk
  | .int _, b, k, hb, hk => by
    simp only [objSubs, List.mem_singleton] at hb; subst hb; simp [objKids] at hk
  | .real _ _, b, k, hb, hk => by
    simp only [objSubs, List.mem_singleton] at hb; subst hb; simp [objKids] at hk
theorem objLSubs_kids : ∀ (l : ObjL) (b k : Obj), b ∈ objLSubs l → k ∈ objKids b → k ∈ objLSubs l
  | .nil, b, k, hb, hk => by simp [objLSubs] at hb
  | .cons _ v t, b, k, hb, hk => by
    simp only [objLSubs, List.mem_append] at hb ⊢
    rcases hb with hb | hb
    · left; exact objSubs_kids v b k hb hk
    · right; exact objLSubs_kids t b k hb hk
end

/-! ### the universes of a case are closed under what the machine does -/

theorem le_maxOf {α : Type} (f : α → Nat) : ∀ (l : List α) (a : α), a ∈ l → f a ≤ maxOf f l
  | [], a, h => by simp at h
  | b :: t, a, h => by
    simp only [List.mem_cons] at h
    simp only [maxOf]
    rcases h with h | h
    · subst h; omega
    · have := le_maxOf f t a h; omega

theorem chkKids_setAttr (c : Chk) (a : Attr) : chkKids (c.setAttr a) = chkKids c := by
  cases c <;> rfl

theorem setAttr_setAttr (c : Chk) (a b : Attr) : (c.setAttr a).setAttr b = c.setAttr b := by
  cases c <;> rfl

theorem attr_setAttr (c : Chk) (a : Attr) (h : ∀ n, c ≠ .named n) : (c.setAttr a).attr = a := by
  cases c <;> first | rfl | (exact absurd rfl (h _))

section
variable (g : Graph) (ctx : Ctx) (o0 : Obj) (c0 : Chk)

theorem null_mem_objU : Obj.null ∈ objU g o0 := by simp [objU]

theorem objU_kids (b k : Obj) (hb : b ∈ objU g o0) (hk : k ∈ objKids b) : k ∈ objU g o0 := by
  simp only [objU, List.mem_cons, List.mem_append, List.mem_flatMap] at hb ⊢
  rcases hb with hb | hb | ⟨d, hd, hb⟩
  · subst hb; simp [objKids] at hk
  · right; left; exact objSubs_kids _ _ _ hb hk
  · right; right; exact ⟨d, hd, objSubs_kids _ _ _ hb hk⟩

theorem lookup_mem_graph : ∀ (g : Graph) (id : Nat × Nat) (t : Obj), g.lookup id = some t → ∃ d ∈ g, d.2 = t
  | [], id, t, h => by simp [Graph.lookup] at h
  | (k, v) :: r, id, t, h => by
    simp only [Graph.lookup] at h
    split at h
    · injection h with h; exact ⟨(k, v), by simp, h⟩
    · obtain ⟨d, hd, e⟩ := lookup_mem_graph r id t h
      exact ⟨d, by simp [hd], e⟩

theorem objU_lookup (id : Nat × Nat) (t : Obj) (h : g.lookup id = some t) : t ∈ objU g o0 := by
  obtain ⟨d, hd, e⟩ := lookup_mem_graph g id t h
  simp only [objU, List.mem_cons, List.mem_append, List.mem_flatMap]
  right; right; exact ⟨d, hd, by rw [e]; exact objSubs_self t⟩

theorem objU_chase : ∀ (n : Nat) (x : Obj), x ∈ objU g o0 → g.chase n x ∈ objU g o0
  | 0, x, _ => by simp [Graph.chase, null_mem_objU]
  | n+1, x, hx => by
    cases x with
    | ref a b =>
      simp only [Graph.chase]
      cases h : g.lookup (a, b) with
      | none => exact null_mem_objU g o0
      | some t => exact objU_chase n t (objU_lookup g o0 _ _ h)
    | _ => simpa [Graph.chase] using hx

theorem baseU_kids (b k : Chk) (hb : b ∈ baseU ctx c0) (hk : k ∈ chkKids b) : k ∈ baseU ctx c0 := by
  simp only [baseU, List.mem_append, List.mem_flatMap] at hb ⊢
  rcases hb with hb | ⟨d, hd, hb⟩
  · left; exact chkSubs_kids _ _ _ hb hk
  · right; exact ⟨d, hd, chkSubs_kids _ _ _ hb hk⟩

theorem base_sub_chkU (b : Chk) (hb : b ∈ baseU ctx c0) : b ∈ chkU ctx c0 := by
  simp only [chkU, List.mem_flatMap]
  exact ⟨b, hb, by simp [decor]⟩

theorem lookup_mem_ctx : ∀ (ctx : Ctx) (n : String) (v : Chk), ctx.lookup n = some v → ∃ d ∈ ctx, d.2 = v
  | [], n, v, h => by simp [Ctx.lookup] at h
  | (k, w) :: r, n, v, h => by
    simp only [Ctx.lookup] at h
    cases hr : Ctx.lookup r n with
    | some x =>
      simp only [hr] at h
      injection h with h
      obtain ⟨d, hd, e⟩ := lookup_mem_ctx r n x hr
      exact ⟨d, by simp [hd], by rw [e, h]⟩
    | none =>
      simp only [hr] at h
      split at h
      · injection h with h; exact ⟨(k, w), by simp, h⟩
      · simp at h

theorem chkU_lookup (n : String) (v : Chk) (h : ctx.lookup n = some v) : v ∈ chkU ctx c0 := by
  obtain ⟨d, hd, e⟩ := lookup_mem_ctx ctx n v h
  apply base_sub_chkU
  simp only [baseU, List.mem_append, List.mem_flatMap]
  right; exact ⟨d, hd, by rw [e]; exact chkSubs_self v⟩

/-- a decorated node has the children of the node, or none -/
theorem decor_kids (b d k : Chk) (hd : d ∈ decor b) (hk : k ∈ chkKids d) : k ∈ chkKids b := by
  simp only [decor, List.mem_cons, List.not_mem_nil, or_false] at hd
  rcases hd with hd | hd | hd | hd | hd <;> subst hd
  · exact hk
  · simpa [Chk.allowInd, chkKids_setAttr] using hk
  · simpa [chkKids_setAttr] using hk
  · simp [chkKids] at hk
  · simp [chkKids] at hk

theorem chkU_kids (d k : Chk) (hd : d ∈ chkU ctx c0) (hk : k ∈ chkKids d) : k ∈ chkU ctx c0 := by
  simp only [chkU, List.mem_flatMap] at hd
  obtain ⟨b, hb, hd⟩ := hd
  exact base_sub_chkU ctx c0 k (baseU_kids ctx c0 b k hb (decor_kids b d k hd hk))

theorem chkU_width (d : Chk) (hd : d ∈ chkU ctx c0) : (chkKids d).length ≤ Wc ctx c0 := by
  simp only [chkU, List.mem_flatMap] at hd
  obtain ⟨b, hb, hd⟩ := hd
  have h1 : (chkKids d).length ≤ (chkKids b).length := by
    simp only [decor, List.mem_cons, List.not_mem_nil, or_false] at hd
    rcases hd with hd | hd | hd | hd | hd <;> subst hd
    · exact Nat.le_refl _
    · rw [Chk.allowInd, chkKids_setAttr]; exact Nat.le_refl _
    · rw [chkKids_setAttr]; exact Nat.le_refl _
    · simp [chkKids]
    · simp [chkKids]
  have h2 := le_maxOf (fun d => (chkKids d).length) (baseU ctx c0) b hb
  simp only [Wc]; omega

theorem objU_width (x : Obj) (hx : x ∈ objU g o0) : (objKids x).length ≤ Wo g o0 :=
  le_maxOf (fun x => (objKids x).length) (objU g o0) x hx

theorem allowInd_any (a : Attr) : (Chk.any a).allowInd = .any { a with ind := .allowed } := rfl

theorem chkU_allowInd (d : Chk) (hd : d ∈ chkU ctx c0) : d.allowInd ∈ chkU ctx c0 := by
  simp only [chkU, List.mem_flatMap] at hd ⊢
  obtain ⟨b, hb, hd⟩ := hd
  refine ⟨b, hb, ?_⟩
  simp only [decor, List.mem_cons, List.not_mem_nil, or_false] at hd ⊢
  rcases hd with hd | hd | hd | hd | hd <;> subst hd
  · right; left; rfl
  · right; left; cases b <;> rfl
  · right; right; left; cases b <;> rfl
  · right; right; right; right; cases b <;> rfl
  · right; right; right; right; cases b <;> rfl

/-- guard and bare form of a queued disjunction -/
theorem chkU_split (a : Attr) (set : ChkL) (hd : Chk.disj a set ∈ chkU ctx c0) :
    (a ≠ Attr.dflt → Chk.any a ∈ chkU ctx c0) ∧ Chk.disj Attr.dflt set ∈ chkU ctx c0 := by
  simp only [chkU, List.mem_flatMap] at hd ⊢
  obtain ⟨b, hb, hd⟩ := hd
  simp only [decor, List.mem_cons, List.not_mem_nil, or_false] at hd
  rcases hd with hd | hd | hd | hd | hd
  · subst hd
    exact ⟨fun _ => ⟨_, hb, by simp [decor, Chk.attr]⟩, ⟨_, hb, by simp [decor, Chk.setAttr]⟩⟩
  · cases b <;> simp [Chk.allowInd, Chk.setAttr] at hd
    obtain ⟨h1, h2⟩ := hd
    subst h1; subst h2
    exact ⟨fun _ => ⟨_, hb, by simp [decor, Chk.attr, Chk.allowInd, Chk.setAttr]⟩,
           ⟨_, hb, by simp [decor, Chk.setAttr]⟩⟩
  · cases b <;> simp [Chk.setAttr] at hd
    obtain ⟨h1, h2⟩ := hd
    subst h1; subst h2
    exact ⟨fun h => absurd rfl h, ⟨_, hb, by simp [decor, Chk.setAttr]⟩⟩
  · simp at hd
  · simp at hd

theorem resolve_cases (tc c : Chk) (h : resolve ctx tc = some c) :
    c = tc ∨ ∃ n, tc = .named n ∧ ctx.lookup n = some c := by
  cases tc <;> simp [resolve] at h <;> first | (left; exact h.symm) | (right; exact ⟨_, rfl, h⟩)

theorem chkU_resolve (tc c : Chk) (htc : tc ∈ chkU ctx c0) (h : resolve ctx tc = some c) :
    c ∈ chkU ctx c0 := by
  rcases resolve_cases ctx tc c h with h | ⟨n, _, h⟩
  · rw [h]; exact htc
  · exact chkU_lookup ctx c0 n c h

theorem mem_pairU (p : Pend) : p ∈ pairU g ctx o0 c0 ↔ p.1 ∈ objU g o0 ∧ p.2 ∈ chkU ctx c0 := by
  obtain ⟨x, d⟩ := p
  simp only [pairU, List.mem_flatMap, List.mem_map, Prod.mk.injEq]
  constructor
  · rintro ⟨x', hx', d', hd', rfl, rfl⟩; exact ⟨hx', hd'⟩
  · rintro ⟨hx, hd⟩; exact ⟨x, hx, d, hd, rfl, rfl⟩

end

/-! ### what the per-type cases queue -/

theorem get_mem_vals : ∀ (kvs : ObjL) (key : Bytes) (v : Obj), kvs.get key = some v → v ∈ kvs.vals
  | .nil, key, v, h => by simp [ObjL.get] at h
  | .cons k x t, key, v, h => by
    simp only [ObjL.get] at h
    simp only [ObjL.vals, ObjL.toList, List.map_cons, List.mem_cons]
    split at h
    · injection h with h; left; exact h.symm
    · right; exact get_mem_vals t key v h

theorem toList_mem_vals (kvs : ObjL) (k : Bytes) (v : Obj) (h : (k, v) ∈ kvs.toList) : v ∈ kvs.vals := by
  simp only [ObjL.vals, List.mem_map]; exact ⟨(k, v), h, rfl⟩

theorem dictEnts_closed (fx : Fix) (ctx : Ctx) (kvs : ObjL) (Q : Chk → Prop) :
    ∀ (l : ChkL) (acc chks : List Pend), dictEnts fx ctx kvs l acc = .ok chks →
      (∀ p ∈ acc, p.1 ∈ kvs.vals ∧ Q p.2) → (∀ k ∈ l.chks, Q k) →
      (∀ p ∈ chks, p.1 ∈ kvs.vals ∧ Q p.2) ∧ chks.length ≤ acc.length + l.chks.length
  | .nil, acc, chks, h, hacc, _ => by
    simp only [dictEnts, EntRes.ok.injEq] at h
    subst h
    exact ⟨fun p hp => hacc p (List.mem_reverse.mp hp), by simp⟩
  | .cons key opt chk t, acc, chks, h, hacc, hl => by
    have hl' : ∀ k ∈ t.chks, Q k := fun k hk => hl k (by simp [ChkL.chks, ChkL.toList] at hk ⊢; right; exact hk)
    have hq : Q chk := hl chk (by simp [ChkL.chks, ChkL.toList])
    have hlen : (ChkL.cons key opt chk t).chks.length = t.chks.length + 1 := by simp [ChkL.chks, ChkL.toList]
    simp only [dictEnts] at h
    split at h
    · simp at h
    · split at h
      · have := dictEnts_closed fx ctx kvs Q t acc chks h hacc hl'; exact ⟨this.1, by omega⟩
      · have := dictEnts_closed fx ctx kvs Q t acc chks h hacc hl'; exact ⟨this.1, by omega⟩
      · simp at h
      · simp at h
      · rename_i v hget _
        split at h
        · have := dictEnts_closed fx ctx kvs Q t acc chks h hacc hl'; exact ⟨this.1, by omega⟩
        · have hacc' : ∀ p ∈ (v, chk) :: acc, p.1 ∈ kvs.vals ∧ Q p.2 := by
            intro p hp
            simp only [List.mem_cons] at hp
            rcases hp with hp | hp
            · subst hp; exact ⟨get_mem_vals kvs key v hget, hq⟩
            · exact hacc p hp
          have := dictEnts_closed fx ctx kvs Q t _ chks h hacc' hl'
          exact ⟨this.1, by have := this.2; simp at this; omega⟩

theorem streamEnts_closed (fx : Fix) (ctx : Ctx) (kvs : ObjL) (Q : Chk → Prop) :
    ∀ (l : ChkL) (res : Option EK) (acc chks : List Pend), streamEnts fx ctx kvs l res acc = .ok chks →
      (∀ p ∈ acc, p.1 ∈ kvs.vals ∧ Q p.2) → (∀ k ∈ l.chks, Q k) →
      (∀ p ∈ chks, p.1 ∈ kvs.vals ∧ Q p.2) ∧ chks.length ≤ acc.length + l.chks.length
  | .nil, res, acc, chks, h, hacc, _ => by
    simp only [streamEnts] at h
    split at h
    · simp at h
    · simp only [EntRes.ok.injEq] at h
      subst h
      exact ⟨fun p hp => hacc p (List.mem_reverse.mp hp), by simp⟩
  | .cons key opt chk t, res, acc, chks, h, hacc, hl => by
    have hl' : ∀ k ∈ t.chks, Q k := fun k hk => hl k (by simp [ChkL.chks, ChkL.toList] at hk ⊢; right; exact hk)
    have hq : Q chk := hl chk (by simp [ChkL.chks, ChkL.toList])
    have hlen : (ChkL.cons key opt chk t).chks.length = t.chks.length + 1 := by simp [ChkL.chks, ChkL.toList]
    simp only [streamEnts] at h
    split at h
    · simp at h
    · split at h
      · have := streamEnts_closed fx ctx kvs Q t _ acc chks h hacc hl'; exact ⟨this.1, by omega⟩
      · have := streamEnts_closed fx ctx kvs Q t _ acc chks h hacc hl'; exact ⟨this.1, by omega⟩
      · have := streamEnts_closed fx ctx kvs Q t _ acc chks h hacc hl'; exact ⟨this.1, by omega⟩
      · have := streamEnts_closed fx ctx kvs Q t _ acc chks h hacc hl'; exact ⟨this.1, by omega⟩
      · rename_i v hget _
        split at h
        · have := streamEnts_closed fx ctx kvs Q t _ acc chks h hacc hl'; exact ⟨this.1, by omega⟩
        · have hacc' : ∀ p ∈ (v, chk) :: acc, p.1 ∈ kvs.vals ∧ Q p.2 := by
            intro p hp
            simp only [List.mem_cons] at hp
            rcases hp with hp | hp
            · subst hp; exact ⟨get_mem_vals kvs key v hget, hq⟩
            · exact hacc p hp
          have := streamEnts_closed fx ctx kvs Q t _ _ chks h hacc' hl'
          exact ⟨this.1, by have := this.2; simp at this; omega⟩

theorem starEnts_closed (fx : Fix) (specified : List Bytes) (sopt : KeySpec) (schk r : Chk) (V : Obj → Prop) :
    ∀ (l : List (Bytes × Obj)) (acc chks : List Pend), starEnts fx specified sopt schk r l acc = .ok chks →
      (∀ p ∈ acc, V p.1 ∧ p.2 = schk) → (∀ kv ∈ l, V kv.2) →
      (∀ p ∈ chks, V p.1 ∧ p.2 = schk) ∧ chks.length ≤ acc.length + l.length
  | [], acc, chks, h, hacc, _ => by
    simp only [starEnts, EntRes.ok.injEq] at h
    subst h
    exact ⟨fun p hp => hacc p (List.mem_reverse.mp hp), by simp⟩
  | (k, v) :: t, acc, chks, h, hacc, hl => by
    have hl' : ∀ kv ∈ t, V kv.2 := fun kv hk => hl kv (by simp [hk])
    have hv : V v := hl (k, v) (by simp)
    simp only [starEnts] at h
    split at h
    · have := starEnts_closed fx specified sopt schk r V t acc chks h hacc hl'
      exact ⟨this.1, by have := this.2; simp; omega⟩
    · split at h
      · simp at h
      · split at h
        · have := starEnts_closed fx specified sopt schk r V t acc chks h hacc hl'
          exact ⟨this.1, by have := this.2; simp; omega⟩
        · have hacc' : ∀ p ∈ (v, schk) :: acc, V p.1 ∧ p.2 = schk := by
            intro p hp
            simp only [List.mem_cons] at hp
            rcases hp with hp | hp
            · subst hp; exact ⟨hv, rfl⟩
            · exact hacc p hp
          have := starEnts_closed fx specified sopt schk r V t _ chks h hacc' hl'
          exact ⟨this.1, by have := this.2; simp at this ⊢; omega⟩

theorem zipHet_closed : ∀ (xs : List Obj) (cs : List Chk),
    (∀ p ∈ zipHet xs cs, p.1 ∈ xs ∧ p.2 ∈ cs) ∧ (zipHet xs cs).length ≤ xs.length
  | [], cs => by simp [zipHet]
  | x :: xs, [] => by simp [zipHet]
  | x :: xs, c :: cs => by
    have ih := zipHet_closed xs cs
    simp only [zipHet, List.mem_cons, List.length_cons]
    refine ⟨?_, by omega⟩
    intro p hp
    rcases hp with hp | hp
    · subst hp; simp
    · have := ih.1 p hp; exact ⟨Or.inr this.1, Or.inr this.2⟩

theorem ofPred_not_push (r : Option EK) :
    (∀ ps, ofPred r ≠ .push ps) ∧ (∀ p, ofPred r ≠ .ret p) ∧ (∀ ps, ofPred r ≠ .pushRaw ps) := by
  cases r <;> simp [ofPred]

theorem ofEntRes_push (fx : Fix) (a : Attr) (o : Obj) (r : EntRes) :
    (∀ ps, ofEntRes fx a o r = .push ps → r = .ok ps) ∧ (∀ p, ofEntRes fx a o r ≠ .ret p) ∧
    (∀ ps, ofEntRes fx a o r ≠ .pushRaw ps) := by
  cases r with
  | hard k => simp [ofEntRes]
  | fail k => simp [ofEntRes]
  | ok chks =>
    simp only [ofEntRes]
    split
    · split <;> simp
    · simp

def PushOK (o : Obj) (c : Chk) (a : Act) : Prop :=
  (∀ ps, a = .push ps →
    (∀ p ∈ ps, p.1 ∈ objKids o ∧ p.2 ∈ chkKids c) ∧ ps.length ≤ (objKids o).length + (chkKids c).length) ∧
  (∀ p, a ≠ .ret p) ∧ (∀ ps, a ≠ .pushRaw ps)

theorem pushOK_fail (o : Obj) (c : Chk) (k : EK) : PushOK o c (.fail k) := by simp [PushOK]
theorem pushOK_hard (o : Obj) (c : Chk) (k : EK) : PushOK o c (.hard k) := by simp [PushOK]
theorem pushOK_ofPred (o : Obj) (c : Chk) (r : Option EK) : PushOK o c (ofPred r) := by
  cases r <;> simp [PushOK, ofPred]

theorem pushOK_ofEntRes (fx : Fix) (a : Attr) (o o' : Obj) (c : Chk) (r : EntRes)
    (h : ∀ ps, r = .ok ps →
      (∀ p ∈ ps, p.1 ∈ objKids o ∧ p.2 ∈ chkKids c) ∧ ps.length ≤ (objKids o).length + (chkKids c).length) :
    PushOK o c (ofEntRes fx a o' r) := by
  have := ofEntRes_push fx a o' r
  exact ⟨fun ps hps => h ps (this.1 ps hps), this.2.1, this.2.2⟩

theorem checkShape_closed (fx : Fix) (ctx : Ctx) (o : Obj) (c : Chk) : PushOK o c (checkShape fx ctx o c) := by
  cases c with
  | named n => exact pushOK_hard _ _ _
  | disj a os => exact pushOK_hard _ _ _
  | any a => exact pushOK_ofPred _ _ _
  | prim a p =>
    simp only [checkShape]
    split
    · exact pushOK_ofPred _ _ _
    · exact pushOK_fail _ _ _
  | array a elem size =>
    cases o with
    | arr xs =>
      simp only [checkShape]
      split
      · exact pushOK_fail _ _ _
      · split
        · exact pushOK_hard _ _ _
        · split
          · exact pushOK_ofPred _ _ _
          · apply pushOK_ofEntRes
            intro ps hps
            simp only [EntRes.ok.injEq] at hps
            subst hps
            refine ⟨?_, by simp [objKids]⟩
            intro p hp
            simp only [List.mem_map] at hp
            obtain ⟨e, he, rfl⟩ := hp
            exact ⟨by simpa [objKids] using he, by simp [chkKids]⟩
    | _ => exact pushOK_fail _ _ _
  | het a elems =>
    cases o with
    | arr xs =>
      simp only [checkShape]
      split
      · exact pushOK_fail _ _ _
      · apply pushOK_ofEntRes
        intro ps hps
        simp only [EntRes.ok.injEq] at hps
        subst hps
        have := zipHet_closed xs.vals elems.chks
        exact ⟨fun p hp => by simpa [objKids, chkKids] using this.1 p hp, by simp [objKids]; omega⟩
    | _ => exact pushOK_fail _ _ _
  | dict a ents =>
    cases o with
    | dict kvs =>
      simp only [checkShape]
      apply pushOK_ofEntRes
      intro ps hps
      have := dictEnts_closed fx ctx kvs (fun k => k ∈ ents.chks) ents [] ps hps (by simp) (fun k hk => hk)
      exact ⟨fun p hp => by simpa [objKids, chkKids] using this.1 p hp, by have := this.2; simp [chkKids] at this ⊢; omega⟩
    | _ => exact pushOK_fail _ _ _
  | stream a ents =>
    cases o with
    | stream kvs st ct =>
      simp only [checkShape]
      apply pushOK_ofEntRes
      intro ps hps
      have := streamEnts_closed fx ctx kvs (fun k => k ∈ ents.chks) ents none [] ps hps (by simp) (fun k hk => hk)
      exact ⟨fun p hp => by simpa [objKids, chkKids] using this.1 p hp, by have := this.2; simp [chkKids] at this ⊢; omega⟩
    | _ => exact pushOK_fail _ _ _
  | dictStar a ents sopt schk =>
    cases o with
    | dict kvs =>
      simp only [checkShape]
      cases h1 : dictEnts fx ctx kvs ents [] with
      | hard k => exact pushOK_hard _ _ _
      | fail k => exact pushOK_fail _ _ _
      | ok chks =>
        simp only []
        have c1 := dictEnts_closed fx ctx kvs (fun k => k ∈ ents.chks) ents [] chks h1 (by simp) (fun k hk => hk)
        cases h2 : resolve ctx schk with
        | none => exact pushOK_hard _ _ _
        | some r =>
          simp only []
          cases h3 : starEnts fx (ents.toList.map (·.1)) sopt schk r kvs.toList [] with
          | hard k => exact pushOK_hard _ _ _
          | fail k => exact pushOK_fail _ _ _
          | ok chks2 =>
            simp only []
            have c2 := starEnts_closed fx _ sopt schk r (fun v => v ∈ kvs.vals) kvs.toList [] chks2 h3 (by simp)
              (fun kv hkv => toList_mem_vals kvs kv.1 kv.2 hkv)
            apply pushOK_ofEntRes
            intro ps hps
            simp only [EntRes.ok.injEq] at hps
            subst hps
            refine ⟨?_, ?_⟩
            · intro p hp
              simp only [List.mem_append] at hp
              rcases hp with hp | hp
              · have := c1.1 p hp
                exact ⟨by simpa [objKids] using this.1, by simp [chkKids]; left; exact this.2⟩
              · have := c2.1 p hp
                exact ⟨by simpa [objKids] using this.1, by simp [chkKids]; right; exact this.2⟩
            · have l1 := c1.2
              have l2 := c2.2
              have l3 : kvs.toList.length = kvs.vals.length := by simp [ObjL.vals]
              simp [objKids, chkKids] at l1 l2 ⊢
              omega
    | _ => exact pushOK_fail _ _ _

end Parsley.TC.Term
