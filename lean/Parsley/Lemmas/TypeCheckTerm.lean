/-
  C09: termination of the type-check machine with an explicit bound (see Spec/WorkBound.lean).
  Potential argument: `phi st = costA * (|pairU| - |examined|) + todoCost st.todo` decreases with every
  iteration of the `get_next_check` loop, for every configuration of the repair flags in which the memo
  is monotone (`trail = false`; in particular `Fix.orig` and `Fix.tree`).
-/
import Parsley.Model.TypeCheck
import Parsley.Spec.Conforms
import Parsley.Spec.WorkBound
namespace Parsley.TC.Term
open Parsley Parsley.TC Parsley.TC.Spec

/-! ### closure of the sub-term universes -/

theorem chkSubs_self (c : Chk) : c ∈ chkSubs c := by
  cases c <;> simp [chkSubs]

theorem objSubs_self (o : Obj) : o ∈ objSubs o := by
  cases o <;> simp [objSubs]

theorem chks_sub : ∀ (l : ChkL) (k : Chk), k ∈ l.chks → k ∈ chkLSubs l
  | .nil, k, h => by simp [ChkL.chks, ChkL.toList] at h
  | .cons _ _ c t, k, h => by
    simp only [ChkL.chks, ChkL.toList, List.map_cons, List.mem_cons] at h
    simp only [chkLSubs, List.mem_append]
    rcases h with h | h
    · left; subst h; exact chkSubs_self _
    · right; exact chks_sub t k h

theorem vals_sub : ∀ (l : ObjL) (k : Obj), k ∈ l.vals → k ∈ objLSubs l
  | .nil, k, h => by simp [ObjL.vals, ObjL.toList] at h
  | .cons _ v t, k, h => by
    simp only [ObjL.vals, ObjL.toList, List.map_cons, List.mem_cons] at h
    simp only [objLSubs, List.mem_append]
    rcases h with h | h
    · left; subst h; exact objSubs_self _
    · right; exact vals_sub t k h

mutual
theorem chkSubs_kids : ∀ (r b k : Chk), b ∈ chkSubs r → k ∈ chkKids b → k ∈ chkSubs r
  | .named n, b, k, hb, hk => by
    simp only [chkSubs, List.mem_singleton] at hb; subst hb; simp [chkKids] at hk
  | .any a, b, k, hb, hk => by
    simp only [chkSubs, List.mem_singleton] at hb; subst hb; simp [chkKids] at hk
  | .prim a p, b, k, hb, hk => by
    simp only [chkSubs, List.mem_singleton] at hb; subst hb; simp [chkKids] at hk
  | .array a e s, b, k, hb, hk => by
    simp only [chkSubs, List.mem_cons] at hb ⊢
    rcases hb with hb | hb
    · subst hb; simp only [chkKids, List.mem_singleton] at hk; subst hk
      right; exact chkSubs_self _
    · right; exact chkSubs_kids e b k hb hk
  | .het a es, b, k, hb, hk => by
    simp only [chkSubs, List.mem_cons] at hb ⊢
    rcases hb with hb | hb
    · subst hb; simp only [chkKids] at hk; right; exact chks_sub _ _ hk
    · right; exact chkLSubs_kids es b k hb hk
  | .dict a es, b, k, hb, hk => by
    simp only [chkSubs, List.mem_cons] at hb ⊢
    rcases hb with hb | hb
    · subst hb; simp only [chkKids] at hk; right; exact chks_sub _ _ hk
    · right; exact chkLSubs_kids es b k hb hk
  | .stream a es, b, k, hb, hk => by
    simp only [chkSubs, List.mem_cons] at hb ⊢
    rcases hb with hb | hb
    · subst hb; simp only [chkKids] at hk; right; exact chks_sub _ _ hk
    · right; exact chkLSubs_kids es b k hb hk
  | .disj a es, b, k, hb, hk => by
    simp only [chkSubs, List.mem_cons] at hb ⊢
    rcases hb with hb | hb
    · subst hb; simp only [chkKids] at hk; right; exact chks_sub _ _ hk
    · right; exact chkLSubs_kids es b k hb hk
  | .dictStar a es so sc, b, k, hb, hk => by
    simp only [chkSubs, List.mem_cons, List.mem_append] at hb ⊢
    rcases hb with hb | hb | hb
    · subst hb; simp only [chkKids, List.mem_append, List.mem_singleton] at hk
      rcases hk with hk | hk
      · right; left; exact chks_sub _ _ hk
      · subst hk; right; right; exact chkSubs_self _
    · right; left; exact chkLSubs_kids es b k hb hk
    · right; right; exact chkSubs_kids sc b k hb hk
theorem chkLSubs_kids : ∀ (l : ChkL) (b k : Chk), b ∈ chkLSubs l → k ∈ chkKids b → k ∈ chkLSubs l
  | .nil, b, k, hb, hk => by simp [chkLSubs] at hb
  | .cons _ _ c t, b, k, hb, hk => by
    simp only [chkLSubs, List.mem_append] at hb ⊢
    rcases hb with hb | hb
    · left; exact chkSubs_kids c b k hb hk
    · right; exact chkLSubs_kids t b k hb hk
end

mutual
theorem objSubs_kids : ∀ (r b k : Obj), b ∈ objSubs r → k ∈ objKids b → k ∈ objSubs r
  | .arr xs, b, k, hb, hk => by
    simp only [objSubs, List.mem_cons] at hb ⊢
    rcases hb with hb | hb
    · subst hb; simp only [objKids] at hk; right; exact vals_sub _ _ hk
    · right; exact objLSubs_kids xs b k hb hk
  | .dict xs, b, k, hb, hk => by
    simp only [objSubs, List.mem_cons] at hb ⊢
    rcases hb with hb | hb
    · subst hb; simp only [objKids] at hk; right; exact vals_sub _ _ hk
    · right; exact objLSubs_kids xs b k hb hk
  | .stream xs s c, b, k, hb, hk => by
    simp only [objSubs, List.mem_cons] at hb ⊢
    rcases hb with hb | hb
    · subst hb; simp only [objKids] at hk; right; exact vals_sub _ _ hk
    · right; exact objLSubs_kids xs b k hb hk
  | .ref _ _, b, k, hb, hk => by
    simp only [objSubs, List.mem_singleton] at hb; subst hb; simp [objKids] at hk
  | .bool _, b, k, hb, hk => by
    simp only [objSubs, List.mem_singleton] at hb; subst hb; simp [objKids] at hk
  | .str _, b, k, hb, hk => by
    simp only [objSubs, List.mem_singleton] at hb; subst hb; simp [objKids] at hk
  | .name _, b, k, hb, hk => by
    simp only [objSubs, List.mem_singleton] at hb; subst hb; simp [objKids] at hk
  | .null, b, k, hb, hk => by
    simp only [objSubs, List.mem_singleton] at hb; subst hb; simp [objKids] at hk
  | .comment _, b, k, hb, hk => by
    simp only [objSubs, List.mem_singleton] at hb; subst hb; simp [objKids] at hk
  | .int _, b, k, hb, hk => by
    simp only [objSubs, List.mem_singleton] at hb; subst hb; simp [objKids] at hk
  | .real _ _, b, k, hb, hk => by
    simp only [objSubs, List.mem_singleton] at hb; subst hb; simp [objKids] at hk
theorem objLSubs_kids : ∀ (l : ObjL) (b k : Obj), b ∈ objLSubs l → k ∈ objKids b → k ∈ objLSubs l
  | .nil, b, k, hb, hk => by simp [objLSubs] at hb
  | .cons _ v t, b, k, hb, hk => by
    simp only [objLSubs, List.mem_append] at hb ⊢
    rcases hb with hb | hb
    · left; exact objSubs_kids v b k hb hk
    · right; exact objLSubs_kids t b k hb hk
end

/-! ### the universes of a case are closed under what the machine does -/

theorem le_maxOf {α : Type} (f : α → Nat) : ∀ (l : List α) (a : α), a ∈ l → f a ≤ maxOf f l
  | [], a, h => by simp at h
  | b :: t, a, h => by
    simp only [List.mem_cons] at h
    simp only [maxOf]
    rcases h with h | h
    · subst h; omega
    · have := le_maxOf f t a h; omega

theorem chkKids_setAttr (c : Chk) (a : Attr) : chkKids (c.setAttr a) = chkKids c := by
  cases c <;> rfl

theorem setAttr_setAttr (c : Chk) (a b : Attr) : (c.setAttr a).setAttr b = c.setAttr b := by
  cases c <;> rfl

theorem attr_setAttr (c : Chk) (a : Attr) (h : ∀ n, c ≠ .named n) : (c.setAttr a).attr = a := by
  cases c <;> first | rfl | (exact absurd rfl (h _))

section
variable (g : Graph) (ctx : Ctx) (o0 : Obj) (c0 : Chk)

theorem null_mem_objU : Obj.null ∈ objU g o0 := by simp [objU]

theorem objU_kids (b k : Obj) (hb : b ∈ objU g o0) (hk : k ∈ objKids b) : k ∈ objU g o0 := by
  simp only [objU, List.mem_cons, List.mem_append, List.mem_flatMap] at hb ⊢
  rcases hb with hb | hb | ⟨d, hd, hb⟩
  · subst hb; simp [objKids] at hk
  · right; left; exact objSubs_kids _ _ _ hb hk
  · right; right; exact ⟨d, hd, objSubs_kids _ _ _ hb hk⟩

theorem lookup_mem_graph : ∀ (g : Graph) (id : Nat × Nat) (t : Obj), g.lookup id = some t → ∃ d ∈ g, d.2 = t
  | [], id, t, h => by simp [Graph.lookup] at h
  | (k, v) :: r, id, t, h => by
    simp only [Graph.lookup] at h
    split at h
    · injection h with h; exact ⟨(k, v), by simp, h⟩
    · obtain ⟨d, hd, e⟩ := lookup_mem_graph r id t h
      exact ⟨d, by simp [hd], e⟩

theorem objU_lookup (id : Nat × Nat) (t : Obj) (h : g.lookup id = some t) : t ∈ objU g o0 := by
  obtain ⟨d, hd, e⟩ := lookup_mem_graph g id t h
  simp only [objU, List.mem_cons, List.mem_append, List.mem_flatMap]
  right; right; exact ⟨d, hd, by rw [e]; exact objSubs_self t⟩

theorem objU_chase : ∀ (n : Nat) (x : Obj), x ∈ objU g o0 → g.chase n x ∈ objU g o0
  | 0, x, _ => by simp [Graph.chase, null_mem_objU]
  | n+1, x, hx => by
    cases x with
    | ref a b =>
      simp only [Graph.chase]
      cases h : g.lookup (a, b) with
      | none => exact null_mem_objU g o0
      | some t => exact objU_chase n t (objU_lookup g o0 _ _ h)
    | _ => simpa [Graph.chase] using hx

theorem baseU_kids (b k : Chk) (hb : b ∈ baseU ctx c0) (hk : k ∈ chkKids b) : k ∈ baseU ctx c0 := by
  simp only [baseU, List.mem_append, List.mem_flatMap] at hb ⊢
  rcases hb with hb | ⟨d, hd, hb⟩
  · left; exact chkSubs_kids _ _ _ hb hk
  · right; exact ⟨d, hd, chkSubs_kids _ _ _ hb hk⟩

theorem base_sub_chkU (b : Chk) (hb : b ∈ baseU ctx c0) : b ∈ chkU ctx c0 := by
  simp only [chkU, List.mem_flatMap]
  exact ⟨b, hb, by simp [decor]⟩

theorem lookup_mem_ctx : ∀ (ctx : Ctx) (n : String) (v : Chk), ctx.lookup n = some v → ∃ d ∈ ctx, d.2 = v
  | [], n, v, h => by simp [Ctx.lookup] at h
  | (k, w) :: r, n, v, h => by
    simp only [Ctx.lookup] at h
    cases hr : Ctx.lookup r n with
    | some x =>
      simp only [hr] at h
      injection h with h
      obtain ⟨d, hd, e⟩ := lookup_mem_ctx r n x hr
      exact ⟨d, by simp [hd], by rw [e, h]⟩
    | none =>
      simp only [hr] at h
      split at h
      · injection h with h; exact ⟨(k, w), by simp, h⟩
      · simp at h

theorem chkU_lookup (n : String) (v : Chk) (h : ctx.lookup n = some v) : v ∈ chkU ctx c0 := by
  obtain ⟨d, hd, e⟩ := lookup_mem_ctx ctx n v h
  apply base_sub_chkU
  simp only [baseU, List.mem_append, List.mem_flatMap]
  right; exact ⟨d, hd, by rw [e]; exact chkSubs_self v⟩

/-- a decorated node has the children of the node, or none -/
theorem decor_kids (b d k : Chk) (hd : d ∈ decor b) (hk : k ∈ chkKids d) : k ∈ chkKids b := by
  simp only [decor, List.mem_cons, List.not_mem_nil, or_false] at hd
  rcases hd with hd | hd | hd | hd | hd <;> subst hd
  · exact hk
  · simpa [Chk.allowInd, chkKids_setAttr] using hk
  · simpa [chkKids_setAttr] using hk
  · simp [chkKids] at hk
  · simp [chkKids] at hk

theorem chkU_kids (d k : Chk) (hd : d ∈ chkU ctx c0) (hk : k ∈ chkKids d) : k ∈ chkU ctx c0 := by
  simp only [chkU, List.mem_flatMap] at hd
  obtain ⟨b, hb, hd⟩ := hd
  exact base_sub_chkU ctx c0 k (baseU_kids ctx c0 b k hb (decor_kids b d k hd hk))

theorem chkU_width (d : Chk) (hd : d ∈ chkU ctx c0) : (chkKids d).length ≤ Wc ctx c0 := by
  simp only [chkU, List.mem_flatMap] at hd
  obtain ⟨b, hb, hd⟩ := hd
  have h1 : (chkKids d).length ≤ (chkKids b).length := by
    simp only [decor, List.mem_cons, List.not_mem_nil, or_false] at hd
    rcases hd with hd | hd | hd | hd | hd <;> subst hd
    · exact Nat.le_refl _
    · rw [Chk.allowInd, chkKids_setAttr]; exact Nat.le_refl _
    · rw [chkKids_setAttr]; exact Nat.le_refl _
    · simp [chkKids]
    · simp [chkKids]
  have h2 := le_maxOf (fun d => (chkKids d).length) (baseU ctx c0) b hb
  simp only [Wc]; omega

theorem objU_width (x : Obj) (hx : x ∈ objU g o0) : (objKids x).length ≤ Wo g o0 :=
  le_maxOf (fun x => (objKids x).length) (objU g o0) x hx

theorem allowInd_any (a : Attr) : (Chk.any a).allowInd = .any { a with ind := .allowed } := rfl

theorem chkU_allowInd (d : Chk) (hd : d ∈ chkU ctx c0) : d.allowInd ∈ chkU ctx c0 := by
  simp only [chkU, List.mem_flatMap] at hd ⊢
  obtain ⟨b, hb, hd⟩ := hd
  refine ⟨b, hb, ?_⟩
  simp only [decor, List.mem_cons, List.not_mem_nil, or_false] at hd ⊢
  rcases hd with hd | hd | hd | hd | hd <;> subst hd
  · right; left; rfl
  · right; left; cases b <;> rfl
  · right; right; left; cases b <;> rfl
  · right; right; right; right; cases b <;> rfl
  · right; right; right; right; cases b <;> rfl

/-- guard and bare form of a queued disjunction -/
theorem chkU_split (a : Attr) (set : ChkL) (hd : Chk.disj a set ∈ chkU ctx c0) :
    (a ≠ Attr.dflt → Chk.any a ∈ chkU ctx c0) ∧ Chk.disj Attr.dflt set ∈ chkU ctx c0 := by
  simp only [chkU, List.mem_flatMap] at hd ⊢
  obtain ⟨b, hb, hd⟩ := hd
  simp only [decor, List.mem_cons, List.not_mem_nil, or_false] at hd
  rcases hd with hd | hd | hd | hd | hd
  · subst hd
    exact ⟨fun _ => ⟨_, hb, by simp [decor, Chk.attr]⟩, ⟨_, hb, by simp [decor, Chk.setAttr]⟩⟩
  · cases b <;> simp [Chk.allowInd, Chk.setAttr] at hd
    obtain ⟨h1, h2⟩ := hd
    subst h1; subst h2
    exact ⟨fun _ => ⟨_, hb, by simp [decor, Chk.attr, Chk.allowInd, Chk.setAttr]⟩,
           ⟨_, hb, by simp [decor, Chk.setAttr]⟩⟩
  · cases b <;> simp [Chk.setAttr] at hd
    obtain ⟨h1, h2⟩ := hd
    subst h1; subst h2
    exact ⟨fun h => absurd rfl h, ⟨_, hb, by simp [decor, Chk.setAttr]⟩⟩
  · simp at hd
  · simp at hd

theorem resolve_cases (tc c : Chk) (h : resolve ctx tc = some c) :
    c = tc ∨ ∃ n, tc = .named n ∧ ctx.lookup n = some c := by
  cases tc <;> simp [resolve] at h <;> first | (left; exact h.symm) | (right; exact ⟨_, rfl, h⟩)

theorem chkU_resolve (tc c : Chk) (htc : tc ∈ chkU ctx c0) (h : resolve ctx tc = some c) :
    c ∈ chkU ctx c0 := by
  rcases resolve_cases ctx tc c h with h | ⟨n, _, h⟩
  · rw [h]; exact htc
  · exact chkU_lookup ctx c0 n c h

theorem mem_pairU (p : Pend) : p ∈ pairU g ctx o0 c0 ↔ p.1 ∈ objU g o0 ∧ p.2 ∈ chkU ctx c0 := by
  obtain ⟨x, d⟩ := p
  simp only [pairU, List.mem_flatMap, List.mem_map, Prod.mk.injEq]
  constructor
  · rintro ⟨x', hx', d', hd', rfl, rfl⟩; exact ⟨hx', hd'⟩
  · rintro ⟨hx, hd⟩; exact ⟨x, hx, d, hd, rfl, rfl⟩

end

/-! ### what the per-type cases queue -/

theorem get_mem_vals : ∀ (kvs : ObjL) (key : Bytes) (v : Obj), kvs.get key = some v → v ∈ kvs.vals
  | .nil, key, v, h => by simp [ObjL.get] at h
  | .cons k x t, key, v, h => by
    simp only [ObjL.get] at h
    simp only [ObjL.vals, ObjL.toList, List.map_cons, List.mem_cons]
    split at h
    · injection h with h; left; exact h.symm
    · right; exact get_mem_vals t key v h

theorem toList_mem_vals (kvs : ObjL) (k : Bytes) (v : Obj) (h : (k, v) ∈ kvs.toList) : v ∈ kvs.vals := by
  simp only [ObjL.vals, List.mem_map]; exact ⟨(k, v), h, rfl⟩

theorem dictEnts_closed (fx : Fix) (ctx : Ctx) (kvs : ObjL) (Q : Chk → Prop) :
    ∀ (l : ChkL) (acc chks : List Pend), dictEnts fx ctx kvs l acc = .ok chks →
      (∀ p ∈ acc, p.1 ∈ kvs.vals ∧ Q p.2) → (∀ k ∈ l.chks, Q k) →
      (∀ p ∈ chks, p.1 ∈ kvs.vals ∧ Q p.2) ∧ chks.length ≤ acc.length + l.chks.length
  | .nil, acc, chks, h, hacc, _ => by
    simp only [dictEnts, EntRes.ok.injEq] at h
    subst h
    exact ⟨fun p hp => hacc p (List.mem_reverse.mp hp), by simp⟩
  | .cons key opt chk t, acc, chks, h, hacc, hl => by
    have hl' : ∀ k ∈ t.chks, Q k := fun k hk => hl k (by simp [ChkL.chks, ChkL.toList] at hk ⊢; right; exact hk)
    have hq : Q chk := hl chk (by simp [ChkL.chks, ChkL.toList])
    have hlen : (ChkL.cons key opt chk t).chks.length = t.chks.length + 1 := by simp [ChkL.chks, ChkL.toList]
    simp only [dictEnts] at h
    split at h
    · simp at h
    · split at h
      · have := dictEnts_closed fx ctx kvs Q t acc chks h hacc hl'; exact ⟨this.1, by omega⟩
      · have := dictEnts_closed fx ctx kvs Q t acc chks h hacc hl'; exact ⟨this.1, by omega⟩
      · simp at h
      · simp at h
      · rename_i v hget _
        split at h
        · have := dictEnts_closed fx ctx kvs Q t acc chks h hacc hl'; exact ⟨this.1, by omega⟩
        · have hacc' : ∀ p ∈ (v, chk) :: acc, p.1 ∈ kvs.vals ∧ Q p.2 := by
            intro p hp
            simp only [List.mem_cons] at hp
            rcases hp with hp | hp
            · subst hp; exact ⟨get_mem_vals kvs key v hget, hq⟩
            · exact hacc p hp
          have := dictEnts_closed fx ctx kvs Q t _ chks h hacc' hl'
          exact ⟨this.1, by have := this.2; simp at this; omega⟩

theorem streamEnts_closed (fx : Fix) (ctx : Ctx) (kvs : ObjL) (Q : Chk → Prop) :
    ∀ (l : ChkL) (res : Option EK) (acc chks : List Pend), streamEnts fx ctx kvs l res acc = .ok chks →
      (∀ p ∈ acc, p.1 ∈ kvs.vals ∧ Q p.2) → (∀ k ∈ l.chks, Q k) →
      (∀ p ∈ chks, p.1 ∈ kvs.vals ∧ Q p.2) ∧ chks.length ≤ acc.length + l.chks.length
  | .nil, res, acc, chks, h, hacc, _ => by
    simp only [streamEnts] at h
    split at h
    · simp at h
    · simp only [EntRes.ok.injEq] at h
      subst h
      exact ⟨fun p hp => hacc p (List.mem_reverse.mp hp), by simp⟩
  | .cons key opt chk t, res, acc, chks, h, hacc, hl => by
    have hl' : ∀ k ∈ t.chks, Q k := fun k hk => hl k (by simp [ChkL.chks, ChkL.toList] at hk ⊢; right; exact hk)
    have hq : Q chk := hl chk (by simp [ChkL.chks, ChkL.toList])
    have hlen : (ChkL.cons key opt chk t).chks.length = t.chks.length + 1 := by simp [ChkL.chks, ChkL.toList]
    simp only [streamEnts] at h
    split at h
    · simp at h
    · split at h
      · have := streamEnts_closed fx ctx kvs Q t _ acc chks h hacc hl'; exact ⟨this.1, by omega⟩
      · have := streamEnts_closed fx ctx kvs Q t _ acc chks h hacc hl'; exact ⟨this.1, by omega⟩
      · have := streamEnts_closed fx ctx kvs Q t _ acc chks h hacc hl'; exact ⟨this.1, by omega⟩
      · have := streamEnts_closed fx ctx kvs Q t _ acc chks h hacc hl'; exact ⟨this.1, by omega⟩
      · rename_i v hget _
        split at h
        · have := streamEnts_closed fx ctx kvs Q t _ acc chks h hacc hl'; exact ⟨this.1, by omega⟩
        · have hacc' : ∀ p ∈ (v, chk) :: acc, p.1 ∈ kvs.vals ∧ Q p.2 := by
            intro p hp
            simp only [List.mem_cons] at hp
            rcases hp with hp | hp
            · subst hp; exact ⟨get_mem_vals kvs key v hget, hq⟩
            · exact hacc p hp
          have := streamEnts_closed fx ctx kvs Q t _ _ chks h hacc' hl'
          exact ⟨this.1, by have := this.2; simp at this; omega⟩

theorem starEnts_closed (fx : Fix) (specified : List Bytes) (sopt : KeySpec) (schk r : Chk) (V : Obj → Prop) :
    ∀ (l : List (Bytes × Obj)) (acc chks : List Pend), starEnts fx specified sopt schk r l acc = .ok chks →
      (∀ p ∈ acc, V p.1 ∧ p.2 = schk) → (∀ kv ∈ l, V kv.2) →
      (∀ p ∈ chks, V p.1 ∧ p.2 = schk) ∧ chks.length ≤ acc.length + l.length
  | [], acc, chks, h, hacc, _ => by
    simp only [starEnts, EntRes.ok.injEq] at h
    subst h
    exact ⟨fun p hp => hacc p (List.mem_reverse.mp hp), by simp⟩
  | (k, v) :: t, acc, chks, h, hacc, hl => by
    have hl' : ∀ kv ∈ t, V kv.2 := fun kv hk => hl kv (by simp [hk])
    have hv : V v := hl (k, v) (by simp)
    simp only [starEnts] at h
    split at h
    · have := starEnts_closed fx specified sopt schk r V t acc chks h hacc hl'
      exact ⟨this.1, by have := this.2; simp; omega⟩
    · split at h
      · simp at h
      · split at h
        · have := starEnts_closed fx specified sopt schk r V t acc chks h hacc hl'
          exact ⟨this.1, by have := this.2; simp; omega⟩
        · have hacc' : ∀ p ∈ (v, schk) :: acc, V p.1 ∧ p.2 = schk := by
            intro p hp
            simp only [List.mem_cons] at hp
            rcases hp with hp | hp
            · subst hp; exact ⟨hv, rfl⟩
            · exact hacc p hp
          have := starEnts_closed fx specified sopt schk r V t _ chks h hacc' hl'
          exact ⟨this.1, by have := this.2; simp at this ⊢; omega⟩

theorem zipHet_closed : ∀ (xs : List Obj) (cs : List Chk),
    (∀ p ∈ zipHet xs cs, p.1 ∈ xs ∧ p.2 ∈ cs) ∧ (zipHet xs cs).length ≤ xs.length
  | [], cs => by simp [zipHet]
  | x :: xs, [] => by simp [zipHet]
  | x :: xs, c :: cs => by
    have ih := zipHet_closed xs cs
    simp only [zipHet, List.mem_cons, List.length_cons]
    refine ⟨?_, by omega⟩
    intro p hp
    rcases hp with hp | hp
    · subst hp; simp
    · have := ih.1 p hp; exact ⟨Or.inr this.1, Or.inr this.2⟩

theorem ofPred_not_push (r : Option EK) :
    (∀ ps, ofPred r ≠ .push ps) ∧ (∀ p, ofPred r ≠ .ret p) ∧ (∀ ps, ofPred r ≠ .pushRaw ps) := by
  cases r <;> simp [ofPred]

theorem ofEntRes_push (fx : Fix) (a : Attr) (o : Obj) (r : EntRes) :
    (∀ ps, ofEntRes fx a o r = .push ps → r = .ok ps) ∧ (∀ p, ofEntRes fx a o r ≠ .ret p) ∧
    (∀ ps, ofEntRes fx a o r ≠ .pushRaw ps) := by
  cases r with
  | hard k => simp [ofEntRes]
  | fail k => simp [ofEntRes]
  | ok chks =>
    simp only [ofEntRes]
    split
    · split <;> simp
    · simp

def PushOK (o : Obj) (c : Chk) (a : Act) : Prop :=
  (∀ ps, a = .push ps →
    (∀ p ∈ ps, p.1 ∈ objKids o ∧ p.2 ∈ chkKids c) ∧ ps.length ≤ (objKids o).length + (chkKids c).length) ∧
  (∀ p, a ≠ .ret p) ∧ (∀ ps, a ≠ .pushRaw ps)

theorem pushOK_fail (o : Obj) (c : Chk) (k : EK) : PushOK o c (.fail k) := by simp [PushOK]
theorem pushOK_hard (o : Obj) (c : Chk) (k : EK) : PushOK o c (.hard k) := by simp [PushOK]
theorem pushOK_ofPred (o : Obj) (c : Chk) (r : Option EK) : PushOK o c (ofPred r) := by
  cases r <;> simp [PushOK, ofPred]

theorem pushOK_ofEntRes (fx : Fix) (a : Attr) (o o' : Obj) (c : Chk) (r : EntRes)
    (h : ∀ ps, r = .ok ps →
      (∀ p ∈ ps, p.1 ∈ objKids o ∧ p.2 ∈ chkKids c) ∧ ps.length ≤ (objKids o).length + (chkKids c).length) :
    PushOK o c (ofEntRes fx a o' r) := by
  have := ofEntRes_push fx a o' r
  exact ⟨fun ps hps => h ps (this.1 ps hps), this.2.1, this.2.2⟩

theorem checkShape_closed (fx : Fix) (ctx : Ctx) (o : Obj) (c : Chk) : PushOK o c (checkShape fx ctx o c) := by
  cases c with
  | named n => exact pushOK_hard _ _ _
  | disj a os => exact pushOK_hard _ _ _
  | any a => exact pushOK_ofPred _ _ _
  | prim a p =>
    simp only [checkShape]
    split
    · exact pushOK_ofPred _ _ _
    · exact pushOK_fail _ _ _
  | array a elem size =>
    cases o with
    | arr xs =>
      have fin : ∀ er, PushOK (Obj.arr xs) (Chk.array a elem size)
          (if anyShortcut fx er = true then ofPred (checkPred a.pred (Obj.arr xs))
           else ofEntRes fx a (Obj.arr xs) (EntRes.ok (List.map (fun e => (e, elem)) xs.vals))) := by
        intro er
        split
        · exact pushOK_ofPred _ _ _
        · apply pushOK_ofEntRes
          intro ps hps
          simp only [EntRes.ok.injEq] at hps
          subst hps
          refine ⟨?_, by simp [objKids]⟩
          intro p hp
          simp only [List.mem_map] at hp
          obtain ⟨e, he, rfl⟩ := hp
          exact ⟨by simpa [objKids] using he, by simp [chkKids]⟩
      simp only [checkShape]
      split
      · split
        · exact pushOK_fail _ _ _
        · split
          · exact pushOK_hard _ _ _
          · exact fin _
      · simp only [Bool.false_eq_true, if_false]
        split
        · exact pushOK_hard _ _ _
        · exact fin _
    | _ => exact pushOK_fail _ _ _
  | het a elems =>
    cases o with
    | arr xs =>
      simp only [checkShape]
      split
      · exact pushOK_fail _ _ _
      · apply pushOK_ofEntRes
        intro ps hps
        simp only [EntRes.ok.injEq] at hps
        subst hps
        have := zipHet_closed xs.vals elems.chks
        exact ⟨fun p hp => by simpa [objKids, chkKids] using this.1 p hp, by simp [objKids]; omega⟩
    | _ => exact pushOK_fail _ _ _
  | dict a ents =>
    cases o with
    | dict kvs =>
      simp only [checkShape]
      apply pushOK_ofEntRes
      intro ps hps
      have := dictEnts_closed fx ctx kvs (fun k => k ∈ ents.chks) ents [] ps hps (by simp) (fun k hk => hk)
      exact ⟨fun p hp => by simpa [objKids, chkKids] using this.1 p hp, by have := this.2; simp [chkKids] at this ⊢; omega⟩
    | _ => exact pushOK_fail _ _ _
  | stream a ents =>
    cases o with
    | stream kvs st ct =>
      simp only [checkShape]
      apply pushOK_ofEntRes
      intro ps hps
      have := streamEnts_closed fx ctx kvs (fun k => k ∈ ents.chks) ents none [] ps hps (by simp) (fun k hk => hk)
      exact ⟨fun p hp => by simpa [objKids, chkKids] using this.1 p hp, by have := this.2; simp [chkKids] at this ⊢; omega⟩
    | _ => exact pushOK_fail _ _ _
  | dictStar a ents sopt schk =>
    cases o with
    | dict kvs =>
      simp only [checkShape]
      cases h1 : dictEnts fx ctx kvs ents [] with
      | hard k => exact pushOK_hard _ _ _
      | fail k => exact pushOK_fail _ _ _
      | ok chks =>
        simp only []
        have c1 := dictEnts_closed fx ctx kvs (fun k => k ∈ ents.chks) ents [] chks h1 (by simp) (fun k hk => hk)
        cases h2 : resolve ctx schk with
        | none => exact pushOK_hard _ _ _
        | some r =>
          simp only []
          cases h3 : starEnts fx (ents.toList.map (·.1)) sopt schk r kvs.toList [] with
          | hard k => exact pushOK_hard _ _ _
          | fail k => exact pushOK_fail _ _ _
          | ok chks2 =>
            simp only []
            have c2 := starEnts_closed fx _ sopt schk r (fun v => v ∈ kvs.vals) kvs.toList [] chks2 h3 (by simp)
              (fun kv hkv => toList_mem_vals kvs kv.1 kv.2 hkv)
            apply pushOK_ofEntRes
            intro ps hps
            simp only [EntRes.ok.injEq] at hps
            subst hps
            refine ⟨?_, ?_⟩
            · intro p hp
              simp only [List.mem_append] at hp
              rcases hp with hp | hp
              · have := c1.1 p hp
                exact ⟨by simpa [objKids] using this.1, by simp [chkKids]; left; exact this.2⟩
              · have := c2.1 p hp
                exact ⟨by simpa [objKids] using this.1, by simp [chkKids]; right; exact this.2⟩
            · have l1 := c1.2
              have l2 := c2.2
              have l3 : kvs.toList.length = kvs.vals.length := by simp [ObjL.vals]
              simp [objKids, chkKids] at l1 l2 ⊢
              omega
    | _ => exact pushOK_fail _ _ _

section
variable (fx : Fix) (g : Graph) (ctx : Ctx) (o0 : Obj) (c0 : Chk)

/-- the pair lies in the universe of the case -/
def InU (p : Pend) : Prop := p.1 ∈ objU g o0 ∧ p.2 ∈ chkU ctx c0

theorem processCheck_closed (o : Obj) (tc c : Chk) (ho : o ∈ objU g o0) (htc : tc ∈ chkU ctx c0)
    (hc : c ∈ chkU ctx c0) :
    (∀ p, processCheck fx g ctx o tc c = .ret p → InU g ctx o0 c0 p) ∧
    (∀ ps, processCheck fx g ctx o tc c = .push ps →
      (∀ p ∈ ps, InU g ctx o0 c0 p) ∧ ps.length ≤ Wo g o0 + Wc ctx c0) ∧
    (∀ ps, processCheck fx g ctx o tc c = .pushRaw ps → ps = [(o, c)]) := by
  have hshape := checkShape_closed fx ctx o c
  have shapeU : ∀ ps, checkShape fx ctx o c = .push ps →
      (∀ p ∈ ps, InU g ctx o0 c0 p) ∧ ps.length ≤ Wo g o0 + Wc ctx c0 := by
    intro ps hps
    have := hshape.1 ps hps
    refine ⟨fun p hp => ⟨objU_kids g o0 o p.1 ho (this.1 p hp).1, chkU_kids ctx c0 c p.2 hc (this.1 p hp).2⟩, ?_⟩
    have w1 := objU_width g o0 o ho
    have w2 := chkU_width ctx c0 c hc
    omega
  unfold processCheck
  split
  · simp
  · split
    · simp
    · rename_i a b _
      split
      · refine ⟨?_, by simp, by simp⟩
        intro p hp
        simp only [Act.ret.injEq] at hp
        subst hp
        exact ⟨objU_chase g o0 _ _ ho, chkU_allowInd ctx c0 c hc⟩
      · split
        · rename_i t ht
          refine ⟨?_, by simp, by simp⟩
          intro p hp
          simp only [Act.ret.injEq] at hp
          subst hp
          exact ⟨objU_lookup g o0 _ _ ht, chkU_allowInd ctx c0 c hc⟩
        · refine ⟨?_, by simp, by simp⟩
          intro p hp
          simp only [Act.ret.injEq] at hp
          subst hp
          refine ⟨null_mem_objU g o0, ?_⟩
          split
          · exact chkU_allowInd ctx c0 c hc
          · exact htc
    · simp
    · exact ⟨fun p hp => absurd hp (hshape.2.1 p), shapeU, fun ps hps => absurd hps (hshape.2.2 ps)⟩

end

/-! ### the potential -/

def itemCostAt (i : Nat) (p : Pend) : Nat :=
  match p.2 with
  | .disj a set => (set.chks.length - i) + 2 + (if a = Attr.dflt then 0 else 1)
  | _ => 1

def pendCost : List Pend → Nat
  | [] => 0
  | p :: t => itemCostAt 0 p + pendCost t

def entCost (e : Ent) : Nat :=
  1 + match e.pending with
      | [] => 0
      | p :: t => itemCostAt e.idx p + pendCost t

def todoCost : List Ent → Nat
  | [] => 0
  | e :: t => entCost e + todoCost t

def phi (A K : Nat) (todo : List Ent) (ex : List Pend) : Nat := A * (K - ex.length) + todoCost todo

theorem itemCostAt_le (i : Nat) (p : Pend) : itemCostAt i p ≤ itemCostAt 0 p := by
  unfold itemCostAt; split <;> omega

theorem itemCostAt_pos (i : Nat) (p : Pend) : 1 ≤ itemCostAt i p := by
  unfold itemCostAt; split <;> omega

theorem entCost_le (e : Ent) : entCost e ≤ 1 + pendCost e.pending := by
  unfold entCost
  cases e.pending with
  | nil => simp [pendCost]
  | cons p t => have := itemCostAt_le e.idx p; simp only [pendCost]; omega

theorem entCost_pos (e : Ent) : 1 ≤ entCost e := by unfold entCost; omega

theorem nodup_length_le {α : Type} [DecidableEq α] :
    ∀ (l L : List α), l.Nodup → (∀ a ∈ l, a ∈ L) → l.length ≤ L.length
  | [], L, _, _ => by simp
  | a :: l, L, hn, hs => by
    have ha : a ∈ L := hs a (by simp)
    have hn' := List.nodup_cons.mp hn
    have : l.length ≤ (L.erase a).length := by
      apply nodup_length_le l (L.erase a) hn'.2
      intro b hb
      have hne : b ≠ a := fun h => hn'.1 (h ▸ hb)
      exact (List.mem_erase_of_ne hne).mpr (hs b (by simp [hb]))
    have h2 := List.length_erase_of_mem ha
    have h3 : 0 < L.length := List.length_pos_of_mem ha
    simp only [List.length_cons]
    omega

theorem unwind_cost : ∀ (t t' : List Ent), unwind t = some t' →
    todoCost t' ≤ todoCost t ∧ (∀ e ∈ t', e ∈ t)
  | [], t', h => by simp [unwind] at h
  | e :: rest, t', h => by
    simp only [unwind] at h
    have hrec : unwind rest = some t' → todoCost t' ≤ todoCost (e :: rest) ∧ (∀ x ∈ t', x ∈ e :: rest) := by
      intro h
      have := unwind_cost rest t' h
      exact ⟨by simp only [todoCost]; omega, fun x hx => by simp [this.2 x hx]⟩
    split at h
    · split at h
      · injection h with h; subst h; exact ⟨Nat.le_refl _, fun x hx => hx⟩
      · exact hrec h
    · exact hrec h

section
variable (fx : Fix) (g : Graph) (ctx : Ctx) (o0 : Obj) (c0 : Chk)

def PendU (t : List Ent) : Prop := ∀ e ∈ t, ∀ p ∈ e.pending, InU g ctx o0 c0 p

structure Inv (todo : List Ent) (ex : List Pend) : Prop where
  nodup : ex.Nodup
  exU : ∀ p ∈ ex, InU g ctx o0 c0 p
  pendU : PendU g ctx o0 c0 todo

theorem pendU_cons (e : Ent) (rest : List Ent) :
    PendU g ctx o0 c0 (e :: rest) ↔ (∀ p ∈ e.pending, InU g ctx o0 c0 p) ∧ PendU g ctx o0 c0 rest := by
  simp [PendU]

theorem itemCost_bound (p : Pend) (h : InU g ctx o0 c0 p) : itemCostAt 0 p ≤ Wc ctx c0 + 3 := by
  obtain ⟨x, d⟩ := p
  cases d with
  | disj a set =>
    have := chkU_width ctx c0 _ h.2
    simp only [chkKids] at this
    simp only [itemCostAt]
    split <;> omega
  | _ => simp [itemCostAt]

theorem pendCost_bound : ∀ (l : List Pend), (∀ p ∈ l, InU g ctx o0 c0 p) →
    pendCost l ≤ l.length * (Wc ctx c0 + 3)
  | [], _ => by simp [pendCost]
  | p :: t, h => by
    have h1 := itemCost_bound g ctx o0 c0 p (h p (by simp))
    have h2 := pendCost_bound t (fun q hq => h q (by simp [hq]))
    simp only [pendCost, List.length_cons, Nat.add_mul]
    omega

theorem entCost_ge (e : Ent) (h : ∀ p ∈ e.pending, InU g ctx o0 c0 p) :
    1 + pendCost e.pending ≤ entCost e + Wc ctx c0 := by
  unfold entCost
  cases hp : e.pending with
  | nil => simp [pendCost]
  | cons p t =>
    have hin := h p (by simp [hp])
    obtain ⟨x, d⟩ := p
    simp only [pendCost]
    cases d with
    | disj a set =>
      have := chkU_width ctx c0 _ hin.2
      simp only [chkKids] at this
      simp only [itemCostAt]
      split <;> omega
    | _ => simp [itemCostAt]

theorem mem_of_haveExamined_false (ex : List Pend) (p : Pend) (h : haveExamined fx ex p = false) : p ∉ ex := by
  intro hm
  have : haveExamined fx ex p = true := by
    simp only [haveExamined, List.any_eq_true]
    refine ⟨p, hm, ?_⟩
    simp [memoEq]
  rw [this] at h; exact absurd h (by simp)

theorem ex_room (ex : List Pend) (p : Pend) (hn : ex.Nodup) (hex : ∀ q ∈ ex, InU g ctx o0 c0 q)
    (hp : InU g ctx o0 c0 p) (hnot : p ∉ ex) : ex.length + 1 ≤ (pairU g ctx o0 c0).length := by
  have := nodup_length_le (p :: ex) (pairU g ctx o0 c0) (List.nodup_cons.mpr ⟨hnot, hn⟩) (by
    intro q hq
    simp only [List.mem_cons] at hq
    rcases hq with hq | hq
    · subst hq; exact (mem_pairU g ctx o0 c0 _).mpr hp
    · exact (mem_pairU g ctx o0 c0 _).mpr (hex q hq))
  simpa using this

theorem costA_eq : costA g ctx o0 c0 =
    1 + (Wo g o0 + Wc ctx c0) * (Wc ctx c0 + 3) + 2 * (Wc ctx c0 + 3) := by
  simp only [costA, Nat.add_mul]; omega

theorem phi_examine (todo : List Ent) (ex : List Pend) (p : Pend)
    (h : ex.length + 1 ≤ (pairU g ctx o0 c0).length) :
    phi (costA g ctx o0 c0) (pairU g ctx o0 c0).length todo (p :: ex) + costA g ctx o0 c0
      = phi (costA g ctx o0 c0) (pairU g ctx o0 c0).length todo ex := by
  simp only [phi, List.length_cons]
  have : (pairU g ctx o0 c0).length - ex.length = ((pairU g ctx o0 c0).length - (ex.length + 1)) + 1 := by omega
  rw [this, Nat.mul_succ]; omega

theorem issue_ok (s : St) (o : Obj) (tc : Chk)
    (hinv : Inv g ctx o0 c0 s.todo s.examined) (hp : InU g ctx o0 c0 (o, tc)) :
    ∀ st', issue fx g ctx s o tc = .inl st' →
      Inv g ctx o0 c0 st'.todo st'.examined ∧
      phi (costA g ctx o0 c0) (pairU g ctx o0 c0).length st'.todo st'.examined
        ≤ phi (costA g ctx o0 c0) (pairU g ctx o0 c0).length s.todo s.examined := by
  intro st' h
  unfold issue at h
  cases hr : resolve ctx tc with
  | none => simp [hr] at h
  | some c =>
    simp only [hr] at h
    split at h
    · injection h with h; subst h; exact ⟨hinv, Nat.le_refl _⟩
    · rename_i hne
      have hne' : haveExamined fx s.examined (o, tc) = false := by
        cases hh : haveExamined fx s.examined (o, tc) <;> simp_all
      have hnot := mem_of_haveExamined_false fx s.examined (o, tc) hne'
      have room := ex_room g ctx o0 c0 s.examined (o, tc) hinv.nodup hinv.exU hp hnot
      have hphi := fun todo => phi_examine g ctx o0 c0 todo s.examined (o, tc) room
      have hc := chkU_resolve ctx c0 tc c hp.2 hr
      have pc := processCheck_closed fx g ctx o0 c0 o tc c hp.1 hp.2 hc
      have hnd : ((o, tc) :: s.examined).Nodup := List.nodup_cons.mpr ⟨hnot, hinv.nodup⟩
      have hexU : ∀ q ∈ (o, tc) :: s.examined, InU g ctx o0 c0 q := by
        intro q hq
        simp only [List.mem_cons] at hq
        rcases hq with hq | hq
        · subst hq; exact hp
        · exact hinv.exU q hq
      have hA := costA_eq g ctx o0 c0
      cases hpc : processCheck fx g ctx o tc c with
      | hard k => simp [hpc] at h
      | fail k =>
        simp only [hpc] at h
        injection h with h; subst h
        exact ⟨⟨hnd, hexU, hinv.pendU⟩, by have := hphi s.todo; simp only []; omega⟩
      | pass =>
        simp only [hpc] at h
        injection h with h; subst h
        exact ⟨⟨hnd, hexU, hinv.pendU⟩, by have := hphi s.todo; simp only []; omega⟩
      | ret p =>
        simp only [hpc] at h
        have hpU := pc.1 p hpc
        cases htd : s.todo with
        | nil => simp [htd] at h
        | cons e rest =>
          simp only [htd] at h
          injection h with h; subst h
          have hpend := hinv.pendU
          rw [htd, pendU_cons] at hpend
          refine ⟨⟨hnd, hexU, ?_⟩, ?_⟩
          · simp only [pendU_cons]
            refine ⟨?_, hpend.2⟩
            intro q hq
            simp only [List.mem_cons] at hq
            rcases hq with hq | hq
            · subst hq; exact hpU
            · exact hpend.1 q hq
          · have h1 := hphi (e :: rest)
            have h2 := entCost_ge g ctx o0 c0 e hpend.1
            have h3 := itemCost_bound g ctx o0 c0 p hpU
            have h4 := itemCostAt_le e.idx p
            simp only [phi, todoCost] at h1 ⊢
            have h5 : entCost { e with pending := p :: e.pending } = 1 + (itemCostAt e.idx p + pendCost e.pending) := by
              simp [entCost]
            rw [h5]
            simp only [List.length_cons] at h1 ⊢
            omega
      | push ps =>
        simp only [hpc] at h
        injection h with h; subst h
        have hps := pc.2.1 ps hpc
        unfold pushChecks
        simp only []
        generalize hset : ps.filter (fun p => !haveExamined fx ((o, tc) :: s.examined) p) = set
        have hsetU : ∀ q ∈ set, InU g ctx o0 c0 q := by
          intro q hq; rw [← hset] at hq; exact hps.1 q (List.mem_filter.mp hq).1
        have hsetL : set.length ≤ Wo g o0 + Wc ctx c0 := by
          have : set.length ≤ ps.length := by rw [← hset]; exact List.length_filter_le _ _
          omega
        cases set with
        | nil =>
          exact ⟨⟨hnd, hexU, hinv.pendU⟩, by have := hphi s.todo; simp only []; omega⟩
        | cons q qs =>
          simp only []
          refine ⟨⟨hnd, hexU, ?_⟩, ?_⟩
          · simp only [pendU_cons]
            exact ⟨hsetU, hinv.pendU⟩
          · have h1 := hphi s.todo
            have h2 := pendCost_bound g ctx o0 c0 (q :: qs) hsetU
            have h3 : (q :: qs).length * (Wc ctx c0 + 3) ≤ (Wo g o0 + Wc ctx c0) * (Wc ctx c0 + 3) :=
              Nat.mul_le_mul_right _ hsetL
            simp only [phi, todoCost] at h1 ⊢
            have h5 : entCost ⟨q :: qs, 0, none⟩ = 1 + pendCost (q :: qs) := by
              simp [entCost, pendCost]
            rw [h5]
            simp only [List.length_cons] at h1 h2 h3 ⊢
            omega
      | pushRaw ps =>
        simp only [hpc] at h
        injection h with h; subst h
        have hps := pc.2.2 ps hpc
        subst hps
        have hcU : InU g ctx o0 c0 (o, c) := ⟨hp.1, hc⟩
        refine ⟨⟨hnd, hexU, ?_⟩, ?_⟩
        · simp only [pendU_cons]
          refine ⟨?_, hinv.pendU⟩
          intro q hq
          simp only [List.mem_singleton] at hq
          subst hq; exact hcU
        · have h1 := hphi s.todo
          have h3 := itemCost_bound g ctx o0 c0 (o, c) hcU
          simp only [phi, todoCost] at h1 ⊢
          have h5 : entCost ⟨[(o, c)], 0, none⟩ = 1 + itemCostAt 0 (o, c) := by
            simp [entCost, pendCost]
          rw [h5]
          simp only [List.length_cons] at h1 ⊢
          have : 0 ≤ (Wo g o0 + Wc ctx c0) * (Wc ctx c0 + 3) := Nat.zero_le _
          omega

theorem unwindOr_ok (s : St) (t : List Ent) (k : EK) (n : Nat)
    (hnd : s.examined.Nodup) (hex : ∀ p ∈ s.examined, InU g ctx o0 c0 p)
    (hpend : PendU g ctx o0 c0 t)
    (hcost : phi (costA g ctx o0 c0) (pairU g ctx o0 c0).length t s.examined + 1 ≤ n) :
    ∀ st', unwindOr s t k = .inl st' →
      Inv g ctx o0 c0 st'.todo st'.examined ∧
      phi (costA g ctx o0 c0) (pairU g ctx o0 c0).length st'.todo st'.examined + 1 ≤ n := by
  intro st' h
  unfold unwindOr at h
  cases hu : unwind t with
  | none => simp [hu] at h
  | some t' =>
    simp only [hu] at h
    injection h with h; subst h
    have := unwind_cost t t' hu
    refine ⟨⟨hnd, hex, fun e he => hpend e (this.2 e he)⟩, ?_⟩
    simp only [phi] at hcost ⊢
    omega

theorem issue_step (s : St) (o : Obj) (tc : Chk) (n : Nat)
    (hinv : Inv g ctx o0 c0 s.todo s.examined) (hp : InU g ctx o0 c0 (o, tc))
    (hcost : phi (costA g ctx o0 c0) (pairU g ctx o0 c0).length s.todo s.examined + 1 ≤ n) :
    ∀ st', issue fx g ctx s o tc = .inl st' →
      Inv g ctx o0 c0 st'.todo st'.examined ∧
      phi (costA g ctx o0 c0) (pairU g ctx o0 c0).length st'.todo st'.examined + 1 ≤ n := by
  intro st' h
  have := issue_ok fx g ctx o0 c0 s o tc hinv hp st' h
  exact ⟨this.1, by omega⟩

theorem cost_drop (e e' : Ent) (p : Pend) (ptl : List Pend) (hp : e.pending = p :: ptl)
    (hp' : e'.pending = ptl) : entCost e' + 1 ≤ entCost e := by
  have h1 := entCost_le e'
  have h2 := itemCostAt_pos e.idx p
  rw [hp'] at h1
  simp only [entCost, hp] at h1 ⊢
  omega

theorem step_ok (htr : fx.trail = false) (st0 : St) (hinv : Inv g ctx o0 c0 st0.todo st0.examined) :
    ∀ st', step fx g ctx st0 = .inl st' →
      Inv g ctx o0 c0 st'.todo st'.examined ∧
      phi (costA g ctx o0 c0) (pairU g ctx o0 c0).length st'.todo st'.examined + 1
        ≤ phi (costA g ctx o0 c0) (pairU g ctx o0 c0).length st0.todo st0.examined := by
  unfold step
  generalize hst : (if st0.fresh = true then { st0 with steps := st0.steps + 1, fresh := false } else st0) = s
  have hs1 : st0.todo = s.todo := by subst hst; split <;> rfl
  have hs2 : st0.examined = s.examined := by subst hst; split <;> rfl
  rw [hs1, hs2] at hinv ⊢
  clear hst hs1 hs2
  simp only []
  cases htd : s.todo with
  | nil => cases s.err <;> simp
  | cons e rest =>
    rw [htd] at hinv
    have hpend := hinv.pendU
    rw [pendU_cons] at hpend
    have key : ∀ (s' : St) (o : Obj) (tc : Chk), s'.examined = s.examined →
        PendU g ctx o0 c0 s'.todo → InU g ctx o0 c0 (o, tc) →
        todoCost s'.todo + 1 ≤ todoCost (e :: rest) →
        ∀ st', issue fx g ctx s' o tc = .inl st' →
          Inv g ctx o0 c0 st'.todo st'.examined ∧
          phi (costA g ctx o0 c0) (pairU g ctx o0 c0).length st'.todo st'.examined + 1
            ≤ phi (costA g ctx o0 c0) (pairU g ctx o0 c0).length (e :: rest) s.examined := by
      intro s' o tc hE hP hIn hC
      apply issue_step fx g ctx o0 c0 s' o tc _ ⟨hE ▸ hinv.nodup, hE ▸ hinv.exU, hP⟩ hIn
      rw [hE]; simp only [phi]; omega
    have keyU : ∀ (t : List Ent) (k : EK), PendU g ctx o0 c0 t →
        todoCost t + 1 ≤ todoCost (e :: rest) →
        ∀ st', unwindOr s t k = .inl st' →
          Inv g ctx o0 c0 st'.todo st'.examined ∧
          phi (costA g ctx o0 c0) (pairU g ctx o0 c0).length st'.todo st'.examined + 1
            ≤ phi (costA g ctx o0 c0) (pairU g ctx o0 c0).length (e :: rest) s.examined := by
      intro t k hP hC
      apply unwindOr_ok g ctx o0 c0 s t k _ hinv.nodup hinv.exU hP
      simp only [phi]; omega
    have hrest : ∀ (s' : St) (e' : Ent), restore fx s' e' = s' := by
      intro s' e'; simp [restore, htr]
    simp only []
    cases hp : e.pending with
    | nil =>
      simp only []
      cases herr : s.err with
      | none =>
        intro st' h
        simp only [Sum.inl.injEq] at h
        subst h
        refine ⟨⟨hinv.nodup, hinv.exU, hpend.2⟩, ?_⟩
        have := entCost_pos e
        simp only [phi, todoCost]; omega
      | some k =>
        simp only []
        have hu : unwindOr s (e :: rest) k = unwindOr s rest k := by
          simp [unwindOr, unwind, hp]
        rw [hu]
        apply keyU rest k hpend.2
        have := entCost_pos e
        simp only [todoCost]; omega
    | cons p ptl =>
      obtain ⟨obj, tc⟩ := p
      rw [hp] at hpend
      have hInFront : InU g ctx o0 c0 (obj, tc) := hpend.1 _ (by simp)
      have hPtl : ∀ q ∈ ptl, InU g ctx o0 c0 q := fun q hq => hpend.1 q (by simp [hq])
      -- dropping the front item
      have dropP : ∀ (i : Nat) (sn : Option (List Pend)),
          PendU g ctx o0 c0 ({ e with pending := ptl, idx := i, snap := sn } :: rest) := by
        intro i sn; rw [pendU_cons]; exact ⟨hPtl, hpend.2⟩
      have dropC : ∀ (i : Nat) (sn : Option (List Pend)),
          todoCost ({ e with pending := ptl, idx := i, snap := sn } :: rest) + 1 ≤ todoCost (e :: rest) := by
        intro i sn
        have := cost_drop e { e with pending := ptl, idx := i, snap := sn } (obj, tc) ptl hp rfl
        simp only [todoCost]; omega
      have single : ∀ (hnd : ∀ a set, tc ≠ .disj a set) st',
          (match s.err with
            | some k => unwindOr s ({ e with pending := ptl } :: rest) k
            | none => issue fx g ctx { s with todo := { e with pending := ptl } :: rest } obj tc) = .inl st' →
          Inv g ctx o0 c0 st'.todo st'.examined ∧
          phi (costA g ctx o0 c0) (pairU g ctx o0 c0).length st'.todo st'.examined + 1
            ≤ phi (costA g ctx o0 c0) (pairU g ctx o0 c0).length (e :: rest) s.examined := by
        intro _ st'
        cases s.err with
        | some k => exact keyU _ k (dropP e.idx e.snap) (dropC e.idx e.snap) st'
        | none =>
          refine key _ obj tc ?_ ?_ hInFront ?_ st'
          · rfl
          · exact dropP e.idx e.snap
          · exact dropC e.idx e.snap
      simp only []
      cases tc with
      | disj a set =>
        simp only []
        have hkids : ∀ c ∈ set.chks, InU g ctx o0 c0 (obj, c) := fun c hc =>
          ⟨hInFront.1, chkU_kids ctx c0 _ c hInFront.2 (by simpa [chkKids] using hc)⟩
        split
        · rename_i hidx
          cases herr : s.err with
          | none =>
            intro st' h
            simp only [Sum.inl.injEq] at h
            subst h
            refine ⟨⟨hinv.nodup, hinv.exU, dropP 0 none⟩, ?_⟩
            have := dropC 0 none
            simp only [phi]; omega
          | some k =>
            simp only []
            cases hget : set.chks[e.idx]? with
            | none =>
              simp only [hrest]
              exact keyU _ k (dropP _ none) (dropC _ none)
            | some c =>
              simp only [hrest]
              have hc : c ∈ set.chks := List.mem_of_getElem? hget
              have hlt : e.idx < set.chks.length := by
                have := List.getElem?_eq_some_iff.mp hget
                exact this.1
              refine key _ obj c ?_ ?_ (hkids c hc) ?_
              · rfl
              · simp only [pendU_cons]; exact ⟨by simpa using hpend.1, hpend.2⟩
              · simp only [todoCost, entCost, hp, itemCostAt]
                split <;> omega
        · rename_i hidx
          cases herr : s.err with
          | some k =>
            simp only []
            exact keyU _ k (dropP e.idx e.snap) (dropC e.idx e.snap)
          | none =>
            simp only []
            cases hch : set.chks with
            | nil => simp
            | cons c0' cs =>
              simp only []
              have hc : c0' ∈ set.chks := by simp [hch]
              split
              · rename_i hg
                have ha : a ≠ Attr.dflt := by
                  simp only [Bool.and_eq_true, bne_iff_ne] at hg; exact hg.2
                have sp := chkU_split ctx c0 a set hInFront.2
                refine key _ obj (.any a) ?_ ?_ ⟨hInFront.1, sp.1 ha⟩ ?_
                · rfl
                · simp only [pendU_cons]
                  refine ⟨?_, hpend.2⟩
                  intro q hq
                  simp only [List.mem_cons] at hq
                  rcases hq with hq | hq
                  · subst hq; exact ⟨hInFront.1, sp.2⟩
                  · exact hPtl q hq
                · simp only [todoCost, entCost, hp, itemCostAt]
                  simp only [ha, if_false, if_true]
                  omega
              · refine key _ obj c0' ?_ ?_ (hkids c0' hc) ?_
                · rfl
                · simp only [pendU_cons]; exact ⟨by simpa using hpend.1, hpend.2⟩
                · have h0 : e.idx = 0 := by omega
                  simp only [todoCost, entCost, hp, itemCostAt, h0, hch, List.length_cons]
                  split <;> omega
      | named n => exact single (by intro a set h; cases h)
      | any a => exact single (by intro a set h; cases h)
      | prim a p => exact single (by intro a set h; cases h)
      | array a el sz => exact single (by intro a set h; cases h)
      | het a es => exact single (by intro a set h; cases h)
      | dict a es => exact single (by intro a set h; cases h)
      | dictStar a es so sc => exact single (by intro a set h; cases h)
      | stream a es => exact single (by intro a set h; cases h)

/-- a single step never produces the out-of-fuel marker -/
theorem step_inr (st : St) : ∀ r, step fx g ctx st = .inr r → r.1 ≠ .outOfFuel := by
  have key : ∀ (s : St) o tc, ∀ r, issue fx g ctx s o tc = .inr r → r.1 ≠ .outOfFuel := by
    intro s o tc r h
    unfold issue at h
    cases hr : resolve ctx tc with
    | none => simp only [hr] at h; injection h with h; subst h; simp
    | some c =>
      simp only [hr] at h
      split at h
      · simp at h
      · cases hpc : processCheck fx g ctx o tc c with
        | hard k => simp only [hpc] at h; injection h with h; subst h; simp
        | fail k => simp [hpc] at h
        | pass => simp [hpc] at h
        | ret p =>
          simp only [hpc] at h
          cases htd : s.todo with
          | nil => simp only [htd] at h; injection h with h; subst h; simp
          | cons e rest => simp [htd] at h
        | push ps => simp [hpc] at h
        | pushRaw ps => simp [hpc] at h
  have keyU : ∀ (s : St) (t : List Ent) (k : EK), ∀ r, unwindOr s t k = .inr r → r.1 ≠ .outOfFuel := by
    intro s t k r h
    unfold unwindOr at h
    cases hu : unwind t with
    | none => simp only [hu] at h; injection h with h; subst h; simp
    | some t' => simp [hu] at h
  unfold step
  generalize (if st.fresh = true then { st with steps := st.steps + 1, fresh := false } else st) = s
  simp only []
  cases htd : s.todo with
  | nil =>
    simp only []
    cases s.err <;> (intro r h; injection h with h; subst h; simp)
  | cons e rest =>
    simp only []
    cases hp : e.pending with
    | nil =>
      simp only []
      cases herr : s.err with
      | none => intro r h; simp at h
      | some k => exact keyU s _ k
    | cons p ptl =>
      obtain ⟨obj, tc⟩ := p
      simp only []
      have single : ∀ r,
          (match s.err with
            | some k => unwindOr s ({ e with pending := ptl } :: rest) k
            | none => issue fx g ctx { s with todo := { e with pending := ptl } :: rest } obj tc) = .inr r →
          r.1 ≠ .outOfFuel := by
        cases s.err with
        | some k => exact keyU s _ k
        | none => exact key _ obj tc
      cases tc with
      | disj a set =>
        simp only []
        split
        · cases herr : s.err with
          | none => intro r h; simp at h
          | some k =>
            simp only []
            cases set.chks[e.idx]? with
            | none => exact keyU _ _ k
            | some c => exact key _ obj c
        · cases herr : s.err with
          | some k => exact keyU s _ k
          | none =>
            simp only []
            cases set.chks with
            | nil => intro r h; injection h with h; subst h; simp
            | cons c0' cs =>
              simp only []
              split
              · exact key _ obj _
              · exact key _ obj c0'
      | named n => exact single
      | any a => exact single
      | prim a p => exact single
      | array a el sz => exact single
      | het a es => exact single
      | dict a es => exact single
      | dictStar a es so sc => exact single
      | stream a es => exact single

theorem run_terminates (htr : fx.trail = false) :
    ∀ (n : Nat) (st : St), Inv g ctx o0 c0 st.todo st.examined →
      phi (costA g ctx o0 c0) (pairU g ctx o0 c0).length st.todo st.examined < n →
      (run fx g ctx n st).1 ≠ .outOfFuel
  | 0, st, _, h => by omega
  | n+1, st, hinv, h => by
    simp only [run]
    cases hs : step fx g ctx st with
    | inr r => exact step_inr fx g ctx st r hs
    | inl st' =>
      simp only []
      have := step_ok fx g ctx o0 c0 htr st hinv st' hs
      exact run_terminates htr n st' this.1 (by omega)

end

theorem pairU_length (g : Graph) (ctx : Ctx) (o : Obj) (c : Chk) :
    (pairU g ctx o c).length = (objU g o).length * (chkU ctx c).length := by
  unfold pairU
  induction objU g o with
  | nil => simp
  | cons x t ih => simp only [List.flatMap_cons, List.length_append, List.length_map, ih, List.length_cons,
                     Nat.succ_mul]; omega

/-- C09: the machine finishes within `workBound` iterations of the `get_next_check` loop, for every
    graph, context, object and specification, in every configuration with a monotone memo -/
theorem checkTypeFuel_terminates (fx : Fix) (htr : fx.trail = false) (g : Graph) (ctx : Ctx) (o : Obj)
    (chk : Chk) : (checkTypeFuel fx g ctx (workBound fx g ctx o chk) o chk).1 ≠ .outOfFuel := by
  unfold checkTypeFuel workBound
  cases hr : resolve ctx chk with
  | none => simp
  | some rep =>
    simp only []
    have hIn : InU g ctx o (rep.norm fx) (o, rep.norm fx) :=
      ⟨by simp [objU, objSubs_self], base_sub_chkU ctx _ _ (by simp [baseU, chkSubs_self])⟩
    apply run_terminates fx g ctx o (rep.norm fx) htr
    · refine ⟨by simp [initSt], by simp [initSt], ?_⟩
      simp only [initSt, pendU_cons]
      refine ⟨?_, by simp [PendU]⟩
      intro p hp
      simp only [List.mem_singleton] at hp
      subst hp; exact hIn
    · have := itemCost_bound g ctx o (rep.norm fx) _ hIn
      simp only [initSt, phi, todoCost, entCost, pendCost, bound, List.length_nil, Nat.sub_zero,
        ← pairU_length]
      omega

end Parsley.TC.Term
