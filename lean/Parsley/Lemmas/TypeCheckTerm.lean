/-
  C09: termination of the type-check machine with an explicit bound (see Spec/WorkBound.lean).
  Potential argument: `phi st = costA * (|pairU| - |examined|) + todoCost st.todo` decreases with every
  iteration of the `get_next_check` loop, for every configuration of the repair flags in which the memo
  is monotone (`trail = false`; in particular `Fix.orig` and `Fix.tree`).
-/
import Parsley.Model.TypeCheck
import Parsley.Spec.Conforms
import Parsley.Spec.WorkBound
namespace Parsley.TC.Term
open Parsley Parsley.TC Parsley.TC.Spec

/-! ### closure of the sub-term universes -/

theorem chkSubs_self (c : Chk) : c ∈ chkSubs c := by
  cases c <;> simp [chkSubs]

theorem objSubs_self (o : Obj) : o ∈ objSubs o := by
  cases o <;> simp [objSubs]

theorem chks_sub : ∀ (l : ChkL) (k : Chk), k ∈ l.chks → k ∈ chkLSubs l
  | .nil, k, h => by simp [ChkL.chks, ChkL.toList] at h
  | .cons _ _ c t, k, h => by
    simp only [ChkL.chks, ChkL.toList, List.map_cons, List.mem_cons] at h
    simp only [chkLSubs, List.mem_append]
    rcases h with h | h
    · left; subst h; exact chkSubs_self _
    · right; exact chks_sub t k h

theorem vals_sub : ∀ (l : ObjL) (k : Obj), k ∈ l.vals → k ∈ objLSubs l
  | .nil, k, h => by simp [ObjL.vals, ObjL.toList] at h
  | .cons _ v t, k, h => by
    simp only [ObjL.vals, ObjL.toList, List.map_cons, List.mem_cons] at h
    simp only [objLSubs, List.mem_append]
    rcases h with h | h
    · left; subst h; exact objSubs_self _
    · right; exact vals_sub t k h

mutual
theorem chkSubs_kids : ∀ (r b k : Chk), b ∈ chkSubs r → k ∈ chkKids b → k ∈ chkSubs r
  | .named n, b, k, hb, hk => by
    simp only [chkSubs, List.mem_singleton] at hb; subst hb; simp [chkKids] at hk
  | .any a, b, k, hb, hk => by
    simp only [chkSubs, List.mem_singleton] at hb; subst hb; simp [chkKids] at hk
  | .prim a p, b, k, hb, hk => by
    simp only [chkSubs, List.mem_singleton] at hb; subst hb; simp [chkKids] at hk
  | .array a e s, b, k, hb, hk => by
    simp only [chkSubs, List.mem_cons] at hb ⊢
    rcases hb with hb | hb
    · subst hb; simp only [chkKids, List.mem_singleton] at hk; subst hk
      right; exact chkSubs_self _
    · right; exact chkSubs_kids e b k hb hk
  | .het a es, b, k, hb, hk => by
    simp only [chkSubs, List.mem_cons] at hb ⊢
    rcases hb with hb | hb
    · subst hb; simp only [chkKids] at hk; right; exact chks_sub _ _ hk
    · right; exact chkLSubs_kids es b k hb hk
  | .dict a es, b, k, hb, hk => by
    simp only [chkSubs, List.mem_cons] at hb ⊢
    rcases hb with hb | hb
    · subst hb; simp only [chkKids] at hk; right; exact chks_sub _ _ hk
    · right; exact chkLSubs_kids es b k hb hk
  | .stream a es, b, k, hb, hk => by
    simp only [chkSubs, List.mem_cons] at hb ⊢
    rcases hb with hb | hb
    · subst hb; simp only [chkKids] at hk; right; exact chks_sub _ _ hk
    · right; exact chkLSubs_kids es b k hb hk
  | .disj a es, b, k, hb, hk => by
    simp only [chkSubs, List.mem_cons] at hb ⊢
    rcases hb with hb | hb
    · subst hb; simp only [chkKids] at hk; right; exact chks_sub _ _ hk
    · right; exact chkLSubs_kids es b k hb hk
  | .dictStar a es so sc, b, k, hb, hk => by
    simp only [chkSubs, List.mem_cons, List.mem_append] at hb ⊢
    rcases hb with hb | hb | hb
    · subst hb; simp only [chkKids, List.mem_append, List.mem_singleton] at hk
      rcases hk with hk | hk
      · right; left; exact chks_sub _ _ hk
      · subst hk; right; right; exact chkSubs_self _
    · right; left; exact chkLSubs_kids es b k hb hk
    · right; right; exact chkSubs_kids sc b k hb hk
theorem chkLSubs_kids : ∀ (l : ChkL) (b k : Chk), b ∈ chkLSubs l → k ∈ chkKids b → k ∈ chkLSubs l
  | .nil, b, k, hb, hk => by simp [chkLSubs] at hb
  | .cons _ _ c t, b, k, hb, hk => by
    simp only [chkLSubs, List.mem_append] at hb ⊢
    rcases hb with hb | hb
    · left; exact chkSubs_kids c b k hb hk
    · right; exact chkLSubs_kids t b k hb hk
end

mutual
theorem objSubs_kids : ∀ (r b k : Obj), b ∈ objSubs r → k ∈ objKids b → k ∈ objSubs r
  | .arr xs, b, k, hb, hk => by
    simp only [objSubs, List.mem_cons] at hb ⊢
    rcases hb with hb | hb
    · subst hb; simp only [objKids] at hk; right; exact vals_sub _ _ hk
    · right; exact objLSubs_kids xs b k hb hk
  | .dict xs, b, k, hb, hk => by
    simp only [objSubs, List.mem_cons] at hb ⊢
    rcases hb with hb | hb
    · subst hb; simp only [objKids] at hk; right; exact vals_sub _ _ hk
    · right; exact objLSubs_kids xs b k hb hk
  | .stream xs s c, b, k, hb, hk => by
    simp only [objSubs, List.mem_cons] at hb ⊢
    rcases hb with hb | hb
    · subst hb; simp only [objKids] at hk; right; exact vals_sub _ _ hk
    · right; exact objLSubs_kids xs b k hb hk
  | .ref _ _, b, k, hb, hk => by
    simp only [objSubs, List.mem_singleton] at hb; subst hb; simp [objKids] at hk
  | .bool _, b, k, hb, hk => by
    simp only [objSubs, List.mem_singleton] at hb; subst hb; simp [objKids] at hk
  | .str _, b, k, hb, hk => by
    simp only [objSubs, List.mem_singleton] at hb; subst hb; simp [objKids] at hk
  | .name _, b, k, hb, hk => by
    simp only [objSubs, List.mem_singleton] at hb; subst hb; simp [objKids] at hk
  | .null, b, k, hb, hk => by
    simp only [objSubs, List.mem_singleton] at hb; subst hb; simp [objKids] at hk
  | .comment _, b, k, hb, hk => by
    simp only [objSubs, List.mem_singleton] at hb; subst hb; simp [objKids] at hk
  | .int _, b, k, hb, hk => by
    simp only [objSubs, List.mem_singleton] at hb; subst hb; simp [objKids] at hk
  | .real _ _, b, k, hb, hk => by
    simp only [objSubs, List.mem_singleton] at hb; subst hb; simp [objKids] at hk
theorem objLSubs_kids : ∀ (l : ObjL) (b k : Obj), b ∈ objLSubs l → k ∈ objKids b → k ∈ objLSubs l
  | .nil, b, k, hb, hk => by simp [objLSubs] at hb
  | .cons _ v t, b, k, hb, hk => by
    simp only [objLSubs, List.mem_append] at hb ⊢
    rcases hb with hb | hb
    · left; exact objSubs_kids v b k hb hk
    · right; exact objLSubs_kids t b k hb hk
end

end Parsley.TC.Term
