/-
  Helper lemmas for C13: positional notation (encoders vs. the accumulating loops of the code),
  list slicing, and the step combinator.
-/
import Parsley.Model.Xref
import Parsley.Spec.Xref
namespace Parsley.C13
open Parsley Parsley.Xref Parsley.XrefSpec

@[simp] theorem andThen_ok {α β : Type} (v : α) (c : Nat) (f : α → Nat → Step β) :
    andThen (.ok v, c) f = f v c := rfl
@[simp] theorem andThen_err {α β : Type} (k : ErrK) (c : Nat) (f : α → Nat → Step β) :
    andThen ((.err k, c) : Step α) f = (.err k, c) := rfl
@[simp] theorem andThen_panic {α β : Type} (p : String) (c : Nat) (f : α → Nat → Step β) :
    andThen ((.panic p, c) : Step α) f = (.panic p, c) := rfl

/-- if `andThen r f` is `ok`, then `r` was `ok` -/
theorem andThen_eq_ok {α β : Type} {r : Step α} {f : α → Nat → Step β} {w : β} {c : Nat}
    (h : andThen r f = (.ok w, c)) : ∃ v c1, r = (.ok v, c1) ∧ f v c1 = (.ok w, c) := by
  rcases r with ⟨r, c1⟩
  cases r with
  | ok v => exact ⟨v, c1, rfl, h⟩
  | err k => simp [andThen] at h
  | panic p => simp [andThen] at h

/-! ### arithmetic of positional notation -/

theorem step_arith (b P acc v : Nat) : (acc * b + v / P) * P + v % P = acc * (b * P) + v := by
  have h := Nat.div_add_mod v P
  rw [Nat.add_mul, Nat.mul_assoc, Nat.mul_comm (v / P) P]
  omega

theorem div_lt_base (b w v : Nat) (hv : v < b ^ (w + 1)) : v / b ^ w < b := by
  rw [Nat.pow_succ] at hv
  exact Nat.div_lt_of_lt_mul hv

theorem mod_pow_lt (b w v : Nat) (hb : 0 < b) : v % b ^ w < b ^ w :=
  Nat.mod_lt _ (Nat.pow_pos hb)

theorem encBase_length (b off w v : Nat) : (encBase b off w v).length = w := by
  induction w generalizing v with
  | zero => rfl
  | succ w ih => simp [encBase, ih]

/-- the digit written at the top position -/
theorem top_digit_toNat (b off w v : Nat) (hb : off + b ≤ 256) (hv : v < b ^ (w + 1)) :
    (UInt8.ofNat (off + v / b ^ w % b)).toNat = off + v / b ^ w := by
  have h1 := div_lt_base b w v hv
  rw [Nat.mod_eq_of_lt h1]
  simp only [UInt8.toNat_ofNat']
  exact Nat.mod_eq_of_lt (by omega)

/-- the fold `a ↦ a·b + (c − off)` over `w` written digits adds the written number -/
theorem foldl_encBase (b off : Nat) (hb : off + b ≤ 256) (hb0 : 0 < b) (w : Nat) :
    ∀ (v acc : Nat), v < b ^ w →
      (encBase b off w v).foldl (fun a (c : UInt8) => a * b + (c.toNat - off)) acc = acc * b ^ w + v := by
  induction w with
  | zero => intro v acc hv; simp at hv; simp [encBase, hv]
  | succ w ih =>
    intro v acc hv
    simp only [encBase, List.foldl_cons]
    rw [top_digit_toNat b off w v hb hv, ih _ _ (mod_pow_lt b w v hb0)]
    rw [Nat.add_sub_cancel_left, Nat.pow_succ, Nat.mul_comm (b ^ w) b]
    exact step_arith b (b ^ w) acc v

theorem decVal_padDec (w v : Nat) (hv : v < 10 ^ w) : decVal (padDec w v) = v := by
  have := foldl_encBase 10 48 (by omega) (by omega) w v 0 hv
  simpa [decVal, padDec] using this

theorem all_isDigit_padDec (w v : Nat) : (padDec w v).all Xref.isDigit = true := by
  induction w generalizing v with
  | zero => rfl
  | succ w ih =>
    simp only [padDec, encBase, List.all_cons, Bool.and_eq_true]
    refine ⟨?_, ih _⟩
    have h : v / 10 ^ w % 10 < 10 := Nat.mod_lt _ (by omega)
    have h2 : (48 + v / 10 ^ w % 10) % 256 = 48 + v / 10 ^ w % 10 := Nat.mod_eq_of_lt (by omega)
    simp only [Xref.isDigit, Bool.and_eq_true, decide_eq_true_eq, UInt8.le_iff_toNat_le,
      UInt8.toNat_ofNat', h2]
    exact ⟨by simp, by simp; omega⟩

theorem padDec_length (w v : Nat) : (padDec w v).length = w := encBase_length _ _ _ _

/-! ### list slicing at a known offset -/

theorem getElem?_mid (pre : Bytes) (b : UInt8) (t : Bytes) : (pre ++ b :: t)[pre.length]? = some b := by
  simp

theorem drop_mid (pre x : Bytes) : (pre ++ x).drop pre.length = x := by
  simp

/-! ### sequential decoding at a cursor -/


theorem drop_step {s : Bytes} {c : Nat} {x r : Bytes} (h : s.drop c = x ++ r) :
    s.drop (c + x.length) = r := by
  rw [← List.drop_drop, h]; simp

theorem getElem?_of_drop {s : Bytes} {c : Nat} {b : UInt8} {r : Bytes} (h : s.drop c = b :: r) :
    s[c]? = some b := by
  have : (s.drop c)[0]? = some b := by rw [h]; rfl
  simpa using this

theorem drop_cons_step {s : Bytes} {c : Nat} {b : UInt8} {r : Bytes} (h : s.drop c = b :: r) :
    s.drop (c + 1) = r := by
  have := drop_step (x := [b]) (r := r) (by simpa using h)
  simpa using this

theorem parseUsizeW_encBE (w : Nat) : ∀ (v acc : Nat) (s : Bytes) (c : Nat) (rest : Bytes),
    s.drop c = encBE w v ++ rest → v < 256 ^ w → acc * 256 ^ w + v < usizeLim →
    parseUsizeW w s c acc = (.ok (acc * 256 ^ w + v), c + w) := by
  induction w with
  | zero => intro v acc s c rest _ hv _; simp at hv; simp [parseUsizeW, hv]
  | succ w ih =>
    intro v acc s c rest hs hv hlim
    simp only [encBE, encBase, List.cons_append] at hs
    have htop := top_digit_toNat 256 0 w v (by omega) hv
    simp only [Nat.zero_add] at htop hs
    have harith := step_arith 256 (256 ^ w) acc v
    have hP : 0 < 256 ^ w := Nat.pow_pos (by omega)
    have hpow : 256 ^ (w + 1) = 256 * 256 ^ w := by rw [Nat.pow_succ, Nat.mul_comm]
    have hlt : acc * 256 + v / 256 ^ w < usizeLim := by
      have : acc * 256 + v / 256 ^ w ≤ (acc * 256 + v / 256 ^ w) * 256 ^ w := Nat.le_mul_of_pos_right _ hP
      rw [hpow] at hlim
      omega
    simp only [parseUsizeW, getElem?_of_drop hs, htop, Nat.mod_eq_of_lt hlt]
    have := ih (v % 256 ^ w) (acc * 256 + v / 256 ^ w) s (c + 1) rest (drop_cons_step hs)
      (mod_pow_lt 256 w v (by omega)) (by rw [harith, ← hpow]; exact hlim)
    rw [this, harith, ← hpow]
    simp [Nat.add_assoc, Nat.add_comm 1 w]

/-! ### rows of a cross-reference stream -/

theorem pow256_le (w : Nat) (h : w ≤ 4) : 256 ^ w ≤ 4294967296 := by
  have := Nat.pow_le_pow_right (n := 256) (by omega) h
  have h4 : (256 : Nat) ^ 4 = 4294967296 := by decide
  omega

theorem field_ok (w v : Nat) (s : Bytes) (c : Nat) (rest : Bytes)
    (hs : s.drop c = encBE w v ++ rest) (hw : w ≤ 4) (hv : v < 256 ^ w) :
    parseUsizeW w s c 0 = (.ok v, c + w) := by
  have hl : (0 : Nat) * 256 ^ w + v < usizeLim := by
    have := pow256_le w hw
    have : usizeLim = 18446744073709551616 := by decide
    omega
  have := parseUsizeW_encBE w v 0 s c rest hs hv hl
  simpa using this

theorem encBE_length (w v : Nat) : (encBE w v).length = w := encBase_length _ _ _ _

theorem row_roundtrip (w0 w1 w2 obj : Nat) (e : SEnt) (s : Bytes) (c : Nat) (rest : Bytes)
    (hs : s.drop c = encRow w0 w1 w2 e ++ rest)
    (h0 : w0 ≤ 4) (h1 : w1 ≤ 4) (h2 : w2 ≤ 4) (hf : e.fits w0 w1 w2) :
    rowP w0 w1 w2 obj s c = (.ok ⟨sEnt obj e, c, c + (w0 + w1 + w2)⟩, c + (w0 + w1 + w2)) := by
  obtain ⟨ht, ht0, hf2, hf3⟩ := hf
  simp only [encRow, List.append_assoc] at hs
  have hs1 := drop_step hs
  have hs2 := drop_step hs1
  simp only [encBE_length] at hs1 hs2
  -- field 1
  have htyp : (if (w0 == 0) = true then ((.ok 1, c) : Step Nat)
      else andThen (parseUsizeW w0 s c 0) fun f c => if f > 2 then (.err .guard, c) else (.ok f, c))
      = (.ok e.typ, c + w0) := by
    by_cases hw0 : w0 = 0
    · simp [hw0, ht0 hw0]
    · have hlt : e.typ < 256 ^ w0 := by
        have : 256 ^ 1 ≤ 256 ^ w0 := Nat.pow_le_pow_right (by omega) (by omega)
        omega
      have hne : (w0 == 0) = false := by simp [hw0]
      rw [hne, field_ok w0 e.typ s c _ hs h0 hlt]
      simp [andThen]; omega
  have hf2' := field_ok w1 e.f2 s (c + w0) _ hs1 h1 hf2
  have hf3' : (if w2 > 0 then parseUsizeW w2 s (c + w0 + w1) 0 else ((.ok 0, c + w0 + w1) : Step Nat))
      = (.ok e.f3, c + w0 + w1 + w2) := by
    by_cases hw2 : w2 = 0
    · subst hw2; simp at hf3; simp [hf3]
    · have : w2 > 0 := by omega
      simp only [this, if_true]
      exact field_ok w2 e.f3 s (c + w0 + w1) _ hs2 h2 hf3
  unfold rowP
  simp only [htyp, andThen_ok, hf2', hf3']
  have hc : c + w0 + w1 + w2 = c + (w0 + w1 + w2) := by omega
  rcases e with ⟨t, f2, f3⟩
  simp only at ht
  have : t = 0 ∨ t = 1 ∨ t = 2 := by omega
  rcases this with rfl | rfl | rfl <;> simp [sEnt, hc]

theorem encRow_length (w0 w1 w2 : Nat) (e : SEnt) : (encRow w0 w1 w2 e).length = w0 + w1 + w2 := by
  simp [encRow, encBE_length]; omega

theorem rows_roundtrip (w0 w1 w2 : Nat) (h0 : w0 ≤ 4) (h1 : w1 ≤ 4) (h2 : w2 ≤ 4) :
    ∀ (es : List SEnt) (obj : Nat) (s : Bytes) (c : Nat) (rest : Bytes),
    s.drop c = encRows w0 w1 w2 es ++ rest → (∀ e ∈ es, e.fits w0 w1 w2) → obj + es.length ≤ usizeLim →
    ∃ l, rowsLoop w0 w1 w2 es.length obj s c = (.ok l, c + es.length * (w0 + w1 + w2))
      ∧ l.map (·.val) = numberS obj es := by
  intro es
  induction es with
  | nil => intro obj s c rest _ _ _; exact ⟨[], by simp [rowsLoop], rfl⟩
  | cons e t ih =>
    intro obj s c rest hs hf hlim
    simp only [encRows, List.flatMap_cons, List.append_assoc] at hs
    have hrow := row_roundtrip w0 w1 w2 obj e s c _ hs h0 h1 h2 (hf e (by simp))
    have hs' := drop_step hs
    rw [encRow_length] at hs'
    simp only [List.length_cons] at hlim
    obtain ⟨l, hl, hm⟩ := ih (obj + 1) s (c + (w0 + w1 + w2)) rest hs'
      (fun x hx => hf x (by simp [hx])) (by omega)
    refine ⟨(⟨sEnt obj e, c, c + (w0 + w1 + w2)⟩ : Located Ent) :: l, ?_, ?_⟩
    · have hlt : ¬ obj ≥ usizeLim := by omega
      simp only [List.length_cons, rowsLoop, hlt, if_false, hrow, hl]
      congr 1
      rw [Nat.succ_mul]; omega
    · simp [numberS, hm]

def indexOf (subs : List (Nat × List SEnt)) : List (Nat × Nat) := subs.map fun p => (p.1, p.2.length)
def totalRows (subs : List (Nat × List SEnt)) : Nat := (subs.map fun p => p.2.length).sum

theorem encRows_length (w0 w1 w2 : Nat) (es : List SEnt) :
    (encRows w0 w1 w2 es).length = es.length * (w0 + w1 + w2) := by
  induction es with
  | nil => simp [encRows]
  | cons e t ih =>
    simp only [encRows, List.flatMap_cons, List.length_append, encRow_length, List.length_cons] at *
    rw [ih, Nat.succ_mul]; omega

theorem index_roundtrip (w0 w1 w2 : Nat) (h0 : w0 ≤ 4) (h1 : w1 ≤ 4) (h2 : w2 ≤ 4) :
    ∀ (subs : List (Nat × List SEnt)) (s : Bytes) (c : Nat) (rest : Bytes),
    s.drop c = (subs.flatMap fun p => encRows w0 w1 w2 p.2) ++ rest →
    (∀ p ∈ subs, ∀ e ∈ p.2, e.fits w0 w1 w2) → (∀ p ∈ subs, p.1 + p.2.length ≤ usizeLim) →
    ∃ l, indexLoop w0 w1 w2 (indexOf subs) s c = (.ok l, c + totalRows subs * (w0 + w1 + w2))
      ∧ l.map (·.val) = streamEnts subs := by
  intro subs
  induction subs with
  | nil => intro s c rest _ _ _; exact ⟨[], by simp [indexLoop, indexOf, totalRows], rfl⟩
  | cons p t ih =>
    intro s c rest hs hf hlim
    obtain ⟨st, es⟩ := p
    simp only [List.flatMap_cons, List.append_assoc] at hs
    obtain ⟨l1, hl1, hm1⟩ := rows_roundtrip w0 w1 w2 h0 h1 h2 es st s c _ hs
      (fun e he => hf (st, es) (by simp) e he) (hlim (st, es) (by simp))
    have hs' := drop_step hs
    rw [encRows_length] at hs'
    obtain ⟨l2, hl2, hm2⟩ := ih s _ rest hs' (fun q hq => hf q (by simp [hq])) (fun q hq => hlim q (by simp [hq]))
    refine ⟨l1 ++ l2, ?_, ?_⟩
    · simp only [indexOf, List.map_cons, indexLoop, hl1]
      simp only [indexOf] at hl2
      rw [hl2]
      simp only [totalRows, List.map_cons, List.sum_cons]
      congr 1
      rw [Nat.add_mul]; omega
    · simp [streamEnts, hm1, hm2]



theorem parseUsizeW_ok (w : Nat) : ∀ (s : Bytes) (c acc v c' : Nat),
    parseUsizeW w s c acc = (.ok v, c') → c' = c + w ∧ (0 < w → c' ≤ s.length) := by
  induction w with
  | zero => intro s c acc v c' h; simp [parseUsizeW] at h; omega
  | succ w ih =>
    intro s c acc v c' h
    simp only [parseUsizeW] at h
    cases hb : s[c]? with
    | none => simp [hb] at h
    | some b =>
      simp only [hb] at h
      have ⟨h1, h2⟩ := ih s (c + 1) _ v c' h
      have hc : c < s.length := by
        rcases Nat.lt_or_ge c s.length with h | h
        · exact h
        · simp [List.getElem?_eq_none h] at hb
      refine ⟨by omega, fun _ => ?_⟩
      by_cases hw : 0 < w
      · exact h2 hw
      · have : w = 0 := by omega
        subst this; omega

theorem parseUsizeW_no_panic (w : Nat) : ∀ (s : Bytes) (c acc : Nat) (p : String) (c' : Nat),
    parseUsizeW w s c acc ≠ (.panic p, c') := by
  induction w with
  | zero => intro s c acc p c'; simp [parseUsizeW]
  | succ w ih =>
    intro s c acc p c'
    simp only [parseUsizeW]
    cases hb : s[c]? with
    | none => simp
    | some b => exact ih _ _ _ _ _

/-- what a successful row decode looks like: the object number is the one asked for, at least
    `w1` bytes were consumed and the cursor is still inside the buffer -/
theorem rowP_ok (w0 w1 w2 obj : Nat) (s : Bytes) (c : Nat) (e : Located Ent) (c' : Nat)
    (h : rowP w0 w1 w2 obj s c = (.ok e, c')) :
    e.val.obj = obj ∧ c' = c + w0 + w1 + w2 ∧ (0 < w1 → c' ≤ s.length) := by
  unfold rowP at h
  obtain ⟨t, c0, ht, h⟩ := andThen_eq_ok h
  obtain ⟨f2, c1, hf2, h⟩ := andThen_eq_ok h
  obtain ⟨f3, c2, hf3, h⟩ := andThen_eq_ok h
  have hc0 : c0 = c + w0 := by
    by_cases hw0 : w0 = 0
    · simp [hw0] at ht; omega
    · have hne : (w0 == 0) = false := by simp [hw0]
      rw [hne] at ht
      simp only [Bool.false_eq_true, if_false] at ht
      obtain ⟨f, cc, hf, hg⟩ := andThen_eq_ok ht
      have := (parseUsizeW_ok w0 s c 0 f cc hf).1
      split at hg
      · simp at hg
      · simp at hg; omega
  have ⟨hc1, hl1⟩ := parseUsizeW_ok w1 s c0 0 f2 c1 hf2
  have hc2 : c2 = c1 + w2 ∧ (0 < w1 → c2 ≤ s.length) := by
    by_cases hw2 : w2 > 0
    · simp only [hw2, if_true] at hf3
      have ⟨a, b⟩ := parseUsizeW_ok w2 s c1 0 f3 c2 hf3
      exact ⟨a, fun _ => b hw2⟩
    · simp only [hw2, if_false] at hf3
      simp at hf3
      exact ⟨by omega, fun h => by have := hl1 h; omega⟩
  have hobj : e.val.obj = obj ∧ c' = c2 := by
    split at h <;> simp at h <;> (obtain ⟨h1, h2⟩ := h; subst h1; exact ⟨rfl, h2.symm⟩)
  exact ⟨hobj.1, by omega, fun h => by have := hc2.2 h; omega⟩


/-! ### dictionary accessors -/


theorem dget_eq_lookup (d : Dict) (k : Bytes) : dget d k = lookup d k := by
  induction d with
  | nil => rfl
  | cons p t ih =>
    obtain ⟨k', v⟩ := p
    simp only [dget, lookup, List.find?_cons]
    cases h : (k' == k)
    · simpa [lookup] using ih
    · simp

theorem getName_eq (d : Dict) (k : Bytes) : getName d k = nameVal (lookup d k) := by
  unfold getName; rw [dget_eq_lookup]
  cases lookup d k with
  | none => rfl
  | some v => cases v with
    | atom a => cases a <;> rfl
    | arr l => rfl

theorem getUsize_eq (d : Dict) (k : Bytes) : getUsize d k = natVal (lookup d k) := by
  unfold getUsize; rw [dget_eq_lookup]
  cases lookup d k with
  | none => rfl
  | some v => cases v with
    | atom a => cases a <;> rfl
    | arr l => rfl

theorem getArray_eq (d : Dict) (k : Bytes) : getArray d k = arrVal (lookup d k) := by
  unfold getArray; rw [dget_eq_lookup]
  cases lookup d k with
  | none => rfl
  | some v => cases v <;> rfl

/-- the `/W` part of `get_dict_info`, as one function -/
def modelWidths (w : List Atom) : Option (Nat × Nat × Nat) :=
  if w.length != 3 then none
  else match widthList w with
    | some [w0, w1, w2] => if w1 == 0 then none else some (w0, w1, w2)
    | _ => none

theorem widthList_cons (a : Atom) (t : List Atom) :
    widthList (a :: t) =
      match natAtom a with
      | some x => if x ≤ 4 then (widthList t).map (x :: ·) else none
      | none => none := by
  cases a with
  | int i =>
    simp only [widthList, natAtom]
    by_cases h : i < 0
    · have : ¬ 0 ≤ i := by omega
      simp [h, this]
    · have h' : 0 ≤ i := by omega
      simp only [h, if_false, h', if_true]
      by_cases h4 : i.toNat > 4
      · have : ¬ i.toNat ≤ 4 := by omega
        simp [h4, this]
      · have : i.toNat ≤ 4 := by omega
        simp only [h4, if_false, this, if_true]
        cases widthList t <;> rfl
  | name b => rfl
  | dict t => rfl
  | null => rfl
  | other => rfl

theorem widthList_length : ∀ (l : List Atom) (r : List Nat), widthList l = some r → r.length = l.length
  | [], r, h => by simp [widthList] at h; simp [← h]
  | a :: t, r, h => by
    rw [widthList_cons] at h
    cases hn : natAtom a with
    | none => simp [hn] at h
    | some x =>
      simp only [hn] at h
      split at h
      · cases ht : widthList t with
        | none => simp [ht] at h
        | some r' =>
          simp [ht] at h
          have := widthList_length t r' ht
          simp [← h, this]
      · simp at h

theorem modelWidths_eq (w : List Atom) : modelWidths w = widthsMeaning w := by
  unfold modelWidths widthsMeaning
  match w with
  | [] => rfl
  | [_] => simp
  | [_, _] => simp
  | _ :: _ :: _ :: _ :: _ => simp
  | [x0, x1, x2] =>
    simp only [List.length_cons, List.length_nil, bne_self_eq_false, Bool.false_eq_true, if_false,
      widthList_cons, List.map_cons, List.map_nil]
    cases natAtom x0 <;> cases natAtom x1 <;> cases natAtom x2 <;> simp [widthList]
    rename_i a b c
    by_cases ha : a ≤ 4 <;> by_cases hb : b ≤ 4 <;> by_cases hc : c ≤ 4 <;> by_cases hz : b = 0 <;> simp [ha, hb, hc, hz]


theorem indexPairs_int_int (s c : Int) (t : List Atom) :
    indexPairs (.int s :: .int c :: t) =
      match natAtom (.int s), natAtom (.int c) with
      | some s, some c => (indexPairs t).map ((s, c) :: ·)
      | _, _ => none := by
  simp only [indexPairs, natAtom]
  by_cases hs : s < 0
  · have : ¬ 0 ≤ s := by omega
    simp [hs, this]
  · have hs' : 0 ≤ s := by omega
    by_cases hc : c < 0
    · have : ¬ 0 ≤ c := by omega
      simp [hs, hs', hc, this]
    · have hc' : 0 ≤ c := by omega
      simp only [hs, hs', hc, hc', if_false, if_true]
      cases indexPairs t <;> rfl

theorem indexPairs_cons2 (a b : Atom) (t : List Atom) :
    indexPairs (a :: b :: t) =
      match natAtom a, natAtom b with
      | some s, some c => (indexPairs t).map ((s, c) :: ·)
      | _, _ => none := by
  cases a with
  | int s =>
    cases b with
    | int c => exact indexPairs_int_int s c t
    | name _ => simp only [indexPairs, natAtom]; split <;> simp_all
    | dict _ => simp only [indexPairs, natAtom]; split <;> simp_all
    | null => simp only [indexPairs, natAtom]; split <;> simp_all
    | other => simp only [indexPairs, natAtom]; split <;> simp_all
  | name _ => simp only [indexPairs, natAtom]
  | dict _ => simp only [indexPairs, natAtom]
  | null => simp only [indexPairs, natAtom]
  | other => simp only [indexPairs, natAtom]

theorem indexPairs_spec : ∀ (l : List Atom), l.length % 2 = 0 →
    indexPairs l = if l.all (fun a => (natAtom a).isSome) then some (pairs (l.filterMap natAtom)) else none
  | [], _ => by simp [indexPairs, pairs]
  | [_], h => by simp at h
  | a :: b :: t, h => by
    have ht : t.length % 2 = 0 := by simp at h; omega
    rw [indexPairs_cons2, indexPairs_spec t ht]
    cases ha : natAtom a <;> cases hb : natAtom b <;> simp [ha, hb, pairs]

/-- the `/Index` part of `get_dict_info`: `none` = error, `some none` = absent -/
def modelIndex (v : Option (List Atom)) : Option (Option (List (Nat × Nat))) :=
  match v with
  | some i =>
    if i.length % 2 != 0 then none
    else match indexPairs i with
      | some l => some (some l)
      | none => none
  | none => some none

theorem modelIndex_eq (size : Nat) (v : Option (List Atom)) :
    (modelIndex v).map (fun o => match o with | some l => l | none => [(0, size)]) = indexMeaning size v := by
  cases v with
  | none => rfl
  | some l =>
    simp only [modelIndex, indexMeaning]
    by_cases h : l.length % 2 = 0
    · simp only [h, bne_self_eq_false, Bool.false_eq_true, if_false, indexPairs_spec l h, true_and]
      split <;> simp_all
    · simp [h]


theorem len3 {α : Type} : ∀ (l : List α), l.length = 3 → ∃ a b c, l = [a, b, c]
  | [a, b, c], _ => ⟨a, b, c, rfl⟩
  | [], h => by simp at h
  | [_], h => by simp at h
  | [_, _], h => by simp at h
  | _ :: _ :: _ :: _ :: _, h => by simp at h

/-- the tail of `get_dict_info` from `/W` on -/
def modelTail (d : Dict) (size : Nat) (index : Option (List (Nat × Nat))) : Res DictInfo :=
  match arrVal (lookup d sW) with
  | none => .err .guard
  | some w =>
    match modelWidths w with
    | none => .err .guard
    | some (w0, w1, w2) =>
      match streamFilters d with
      | none => .err .guard
      | some fs => .ok ⟨size, natVal (lookup d kPrev), index, w0, w1, w2, fs⟩

theorem tail_eq (d : Dict) (size : Nat) (index : Option (List (Nat × Nat))) :
    (match arrVal (lookup d sW) with
      | none => Res.err ErrK.guard
      | some w =>
        if (w.length != 3) = true then Res.err ErrK.guard
        else
          match widthList w with
          | none => Res.err ErrK.guard
          | some [w0, w1, w2] =>
            if (w1 == 0) = true then Res.err ErrK.guard
            else
              match streamFilters d with
              | none => Res.err ErrK.guard
              | some fs =>
                Res.ok { size := size, prev := natVal (lookup d kPrev), index := index, w0 := w0, w1 := w1, w2 := w2, filters := fs }
          | some _ => Res.panic "w_array[i]") = modelTail d size index := by
  unfold modelTail
  cases arrVal (lookup d sW) with
  | none => rfl
  | some w =>
    simp only
    unfold modelWidths
    by_cases hl : w.length = 3
    · have : (w.length != 3) = false := by simp [hl]
      simp only [this, Bool.false_eq_true, if_false]
      cases hw : widthList w with
      | none => rfl
      | some r =>
        have := widthList_length w r hw
        obtain ⟨a, b, c, rfl⟩ := len3 r (by omega)
        simp only
        by_cases hb : b = 0
        · simp [hb]
        · have : (b == 0) = false := by simp [hb]
          simp only [this, Bool.false_eq_true, if_false]
    · have : (w.length != 3) = true := by simp [hl]
      simp [this]

/-- `get_dict_info` as a cascade over what the spec-side readers see -/
theorem getDictInfo_eq (d : Dict) : getDictInfo d =
    match nameVal (lookup d sType) with
    | none => .err .guard
    | some t =>
      if t = sXRef then
        match natVal (lookup d sSize) with
        | none => .err .guard
        | some size =>
          match modelIndex (arrVal (lookup d sIndex)) with
          | none => .err .guard
          | some index => modelTail d size index
      else .err .guard := by
  unfold getDictInfo
  rw [getName_eq, getUsize_eq, getUsize_eq, getArray_eq, getArray_eq]
  rw [show kType = sType from rfl, show kSize = sSize from rfl, show kIndex = sIndex from rfl,
    show kW = sW from rfl]
  cases nameVal (lookup d sType) with
  | none => rfl
  | some t =>
    simp only
    by_cases ht : t = sXRef
    · subst ht
      have : (sXRef != nXRef) = false := by decide
      simp only [this, Bool.false_eq_true, if_false, if_true]
      cases natVal (lookup d sSize) with
      | none => rfl
      | some size =>
        simp only
        cases arrVal (lookup d sIndex) with
        | none => simp only [modelIndex]; exact tail_eq d size none
        | some i =>
          simp only [modelIndex]
          by_cases hi : (i.length % 2 != 0) = true
          · simp [hi]
          · simp only [hi, if_false]
            cases indexPairs i with
            | none => rfl
            | some l => simp only; exact tail_eq d size (some l)
    · have : (t != nXRef) = true := by
        simp only [bne_iff_ne, ne_eq]; exact ht
      simp [this, ht]


/-! ### the 20-byte table entry -/


theorem len_succ {α : Type} {l : List α} {n : Nat} (h : l.length = n + 1) :
    ∃ a t, l = a :: t ∧ t.length = n := by
  cases l with
  | nil => simp at h
  | cons a t => exact ⟨a, t, rfl, by simpa using h⟩

theorem isDigit_eq_isDig : Xref.isDigit = XrefSpec.isDig := by
  funext b
  simp [Xref.isDigit, XrefSpec.isDig, UInt8.le_iff_toNat_le]

theorem foldl_dec (ds : Bytes) : ∀ acc, ds.foldl (fun a (c : UInt8) => a * 10 + (c.toNat - 48)) acc
    = acc * 10 ^ ds.length + decOf ds := by
  induction ds with
  | nil => intro acc; simp [decOf]
  | cons d t ih =>
    intro acc
    simp only [List.foldl_cons, ih, decOf, List.length_cons, Nat.pow_succ]
    rw [Nat.add_mul, Nat.mul_assoc, Nat.mul_comm 10 (10 ^ t.length)]
    omega

theorem decVal_eq_decOf (ds : Bytes) : decVal ds = decOf ds := by
  simp [decVal, foldl_dec]

/-- an all-digit string of length `n` denotes a number below `10^n` -/
theorem decOf_lt (ds : Bytes) (h : ds.all XrefSpec.isDig = true) : decOf ds < 10 ^ ds.length := by
  induction ds with
  | nil => simp [decOf]
  | cons d t ih =>
    simp only [List.all_cons, Bool.and_eq_true] at h
    have := ih h.2
    have hd : d.toNat - 48 ≤ 9 := by
      have := h.1; simp [XrefSpec.isDig] at this; omega
    simp only [decOf, List.length_cons, Nat.pow_succ]
    have : (d.toNat - 48) * 10 ^ t.length ≤ 9 * 10 ^ t.length := Nat.mul_le_mul_right _ hd
    omega

theorem entryForm_lit (b0 b1 b2 b3 b4 b5 b6 b7 b8 b9 b10 b11 b12 b13 b14 b15 b16 b17 b18 b19 : UInt8) :
    entryForm [b0, b1, b2, b3, b4, b5, b6, b7, b8, b9, b10, b11, b12, b13, b14, b15, b16, b17, b18, b19] =
      if [b0, b1, b2, b3, b4, b5, b6, b7, b8, b9].all isDig = true ∧ b10 = 32 ∧
         [b11, b12, b13, b14, b15].all isDig = true ∧ b16 = 32 ∧ (b17 = 102 ∨ b17 = 110) ∧
         ([b18, b19] = [32, 13] ∨ [b18, b19] = [32, 10] ∨ [b18, b19] = [13, 10]) ∧
         decOf [b11, b12, b13, b14, b15] ≤ 65535
      then some (decOf [b0, b1, b2, b3, b4, b5, b6, b7, b8, b9], decOf [b11, b12, b13, b14, b15], b17 == 110)
      else none := by
  unfold entryForm
  simp only [List.length_cons, List.length_nil, List.take_succ_cons, List.take_zero, List.drop_succ_cons,
    List.drop_zero, List.getElem?_cons_succ, List.getElem?_cons_zero, true_and, Option.some.injEq,
    Nat.reduceAdd]
  simp

theorem extract_eq (n : Nat) (s : Bytes) (c : Nat) (x r : Bytes) (h : s.drop c = x ++ r)
    (hx : x.length = n) : extract n s c = (.ok x, c + n) := by
  have hl : (s.drop c).length = x.length + r.length := by rw [h]; simp
  simp only [List.length_drop] at hl
  have : ¬ s.length - c < n := by omega
  simp only [extract, this, if_false, h]
  subst hx; simp

theorem exact_byte (b : UInt8) (s : Bytes) (c : Nat) :
    exact [b] s c = if s[c]? = some b then (.ok (), c + 1) else (.err .guard, c) := by
  unfold exact
  cases hd : s.drop c with
  | nil =>
    have : s[c]? = none := by
      have : s.length ≤ c := by simpa using hd
      exact List.getElem?_eq_none this
    simp [this]
  | cons a t =>
    have : s[c]? = some a := getElem?_of_drop hd
    by_cases hab : a = b
    · subst hab; simp [this, List.isPrefixOf]
    · have : ¬ b = a := fun h => hab h.symm
      simp [*, List.isPrefixOf]

theorem ent_long (idx : Nat) (s : Bytes) (i : Nat) (h : i + 20 ≤ s.length) :
    (∀ x, entryAt s i = some x → xrefEntP idx s i = (.ok ⟨mkEnt idx x, i, i + 20⟩, i + 20)) ∧
    (entryAt s i = none → ∃ c, xrefEntP idx s i = (.err .guard, c)) := by
  have hsplit : s.drop i = (s.drop i).take 20 ++ s.drop (i + 20) := by
    rw [← List.drop_drop]; exact (List.take_append_drop 20 _).symm
  have hw : ((s.drop i).take 20).length = 19 + 1 := by simp; omega
  have hlen : s.length - i = 20 + (s.length - (i + 20)) := by omega
  unfold entryAt
  generalize (s.drop i).take 20 = w at hsplit hw
  generalize s.drop (i + 20) = rest at hsplit
  obtain ⟨b0, w0, rfl, hw0⟩ := len_succ (n := 19) hw
  obtain ⟨b1, w1, rfl, hw1⟩ := len_succ (n := 18) hw0
  obtain ⟨b2, w2, rfl, hw2⟩ := len_succ (n := 17) hw1
  obtain ⟨b3, w3, rfl, hw3⟩ := len_succ (n := 16) hw2
  obtain ⟨b4, w4, rfl, hw4⟩ := len_succ (n := 15) hw3
  obtain ⟨b5, w5, rfl, hw5⟩ := len_succ (n := 14) hw4
  obtain ⟨b6, w6, rfl, hw6⟩ := len_succ (n := 13) hw5
  obtain ⟨b7, w7, rfl, hw7⟩ := len_succ (n := 12) hw6
  obtain ⟨b8, w8, rfl, hw8⟩ := len_succ (n := 11) hw7
  obtain ⟨b9, w9, rfl, hw9⟩ := len_succ (n := 10) hw8
  obtain ⟨b10, w10, rfl, hw10⟩ := len_succ (n := 9) hw9
  obtain ⟨b11, w11, rfl, hw11⟩ := len_succ (n := 8) hw10
  obtain ⟨b12, w12, rfl, hw12⟩ := len_succ (n := 7) hw11
  obtain ⟨b13, w13, rfl, hw13⟩ := len_succ (n := 6) hw12
  obtain ⟨b14, w14, rfl, hw14⟩ := len_succ (n := 5) hw13
  obtain ⟨b15, w15, rfl, hw15⟩ := len_succ (n := 4) hw14
  obtain ⟨b16, w16, rfl, hw16⟩ := len_succ (n := 3) hw15
  obtain ⟨b17, w17, rfl, hw17⟩ := len_succ (n := 2) hw16
  obtain ⟨b18, w18, rfl, hw18⟩ := len_succ (n := 1) hw17
  obtain ⟨b19, w19, rfl, hw19⟩ := len_succ (n := 0) hw18
  have hnil : w19 = [] := List.eq_nil_of_length_eq_zero hw19
  subst hnil
  -- the buffer from each field's offset
  have e0 : s.drop i = [b0, b1, b2, b3, b4, b5, b6, b7, b8, b9] ++ ([b10, b11, b12, b13, b14, b15, b16, b17, b18, b19] ++ rest) := by rw [hsplit]; rfl
  have e10 : s.drop (i + 10) = b10 :: ([b11, b12, b13, b14, b15, b16, b17, b18, b19] ++ rest) := by rw [← List.drop_drop, hsplit]; rfl
  have e11 : s.drop (i + 10 + 1) = [b11, b12, b13, b14, b15] ++ ([b16, b17, b18, b19] ++ rest) := by
    rw [Nat.add_assoc, ← List.drop_drop, hsplit]; rfl
  have e16 : s.drop (i + 10 + 1 + 5) = b16 :: ([b17, b18, b19] ++ rest) := by
    rw [Nat.add_assoc, Nat.add_assoc, ← List.drop_drop, hsplit]; rfl
  have e17 : s.drop (i + 10 + 1 + 5 + 1) = [b17] ++ ([b18, b19] ++ rest) := by
    rw [Nat.add_assoc, Nat.add_assoc, Nat.add_assoc, ← List.drop_drop, hsplit]; rfl
  have e18 : s.drop (i + 10 + 1 + 5 + 1 + 1) = [b18, b19] ++ rest := by
    rw [Nat.add_assoc, Nat.add_assoc, Nat.add_assoc, Nat.add_assoc, ← List.drop_drop, hsplit]; rfl
  have hc : i + 10 + 1 + 5 + 1 + 1 + 2 = i + 20 := by omega
  rw [entryForm_lit]
  have hAlen : [b0, b1, b2, b3, b4, b5, b6, b7, b8, b9].length = 10 := rfl
  have hGlen : [b11, b12, b13, b14, b15].length = 5 := rfl
  have hElen : [b18, b19].length = 2 := rfl
  clear hsplit hw hw0 hw1 hw2 hw3 hw4 hw5 hw6 hw7 hw8 hw9 hw10 hw11 hw12 hw13 hw14 hw15 hw16 hw17 hw18 hw19
  generalize [b0, b1, b2, b3, b4, b5, b6, b7, b8, b9] = A at *
  generalize [b11, b12, b13, b14, b15] = G at *
  generalize [b18, b19] = E at *
  by_cases hA : A.all isDig = true
  · have hAl := decOf_lt _ hA
    have hA' : ¬ decOf A ≥ usizeLim := by
      have : usizeLim = 18446744073709551616 := by decide
      rw [hAlen] at hAl; omega
    have cA : (∃ x, x ∈ A ∧ isDig x = false) = False := by simpa using hA
    by_cases h10 : b10 = 32
    · by_cases hG : G.all isDig = true
      · have hGl := decOf_lt _ hG
        have hG' : ¬ decOf G ≥ usizeLim := by
          have : usizeLim = 18446744073709551616 := by decide
          rw [hGlen] at hGl; omega
        have cG : (∃ x, x ∈ G ∧ isDig x = false) = False := by simpa using hG
        by_cases hgen : decOf G ≤ 65535
        · have cgen : (65535 < decOf G) = False := by simp; omega
          by_cases h16 : b16 = 32
          · by_cases h17 : b17 = 102 ∨ b17 = 110
            · have c17 : (¬b17 = 102 ∧ ¬b17 = 110) = False := by
                rcases h17 with h | h <;> simp [h]
              by_cases hE : (E = [32, 13] ∨ E = [32, 10] ∨ E = [13, 10])
              · have cE : ((¬E = [32, 13] ∧ ¬E = [32, 10]) ∧ ¬E = [13, 10]) = False := by
                  rcases hE with h | h | h <;> simp [h]
                constructor
                · intro x hx
                  rw [if_pos ⟨hA, h10, hG, h16, h17, hE, hgen⟩] at hx
                  obtain rfl := Option.some.inj hx
                  simp [xrefEntP, andThen_ok, andThen_err, exact_byte, getElem?_of_drop e10, getElem?_of_drop e16, extract_eq 10 s i _ _ e0 hAlen, extract_eq 5 s _ _ _ e11 hGlen, extract_eq 1 s _ _ _ e17 rfl, extract_eq 2 s _ _ _ e18 hElen, hc, isDigit_eq_isDig, decVal_eq_decOf, cA, hA', h10, cG, hG', cgen, h16, c17, cE, mkEnt]
                · intro hx
                  rw [if_pos ⟨hA, h10, hG, h16, h17, hE, hgen⟩] at hx
                  cases hx
              · have cE : ((¬E = [32, 13] ∧ ¬E = [32, 10]) ∧ ¬E = [13, 10]) = True := by
                  simp only [not_or] at hE; simp [hE]
                constructor
                · intro x hx; simp [hE] at hx
                · intro _; simp [xrefEntP, andThen_ok, andThen_err, exact_byte, getElem?_of_drop e10, getElem?_of_drop e16, extract_eq 10 s i _ _ e0 hAlen, extract_eq 5 s _ _ _ e11 hGlen, extract_eq 1 s _ _ _ e17 rfl, extract_eq 2 s _ _ _ e18 hElen, hc, isDigit_eq_isDig, decVal_eq_decOf, cA, hA', h10, cG, hG', cgen, h16, c17, cE]
            · have c17 : (¬b17 = 102 ∧ ¬b17 = 110) = True := by
                simp only [not_or] at h17; simp [h17]
              constructor
              · intro x hx; simp [h17] at hx
              · intro _; simp [xrefEntP, andThen_ok, andThen_err, exact_byte, getElem?_of_drop e10, getElem?_of_drop e16, extract_eq 10 s i _ _ e0 hAlen, extract_eq 5 s _ _ _ e11 hGlen, extract_eq 1 s _ _ _ e17 rfl, extract_eq 2 s _ _ _ e18 hElen, hc, isDigit_eq_isDig, decVal_eq_decOf, cA, hA', h10, cG, hG', cgen, h16, c17]
          · constructor
            · intro x hx; simp [h16] at hx
            · intro _; simp [xrefEntP, andThen_ok, andThen_err, exact_byte, getElem?_of_drop e10, getElem?_of_drop e16, extract_eq 10 s i _ _ e0 hAlen, extract_eq 5 s _ _ _ e11 hGlen, extract_eq 1 s _ _ _ e17 rfl, extract_eq 2 s _ _ _ e18 hElen, hc, isDigit_eq_isDig, decVal_eq_decOf, cA, hA', h10, cG, hG', cgen, h16]
        · have cgen : (65535 < decOf G) = True := by simp; omega
          constructor
          · intro x hx; simp [hgen] at hx
          · intro _; simp [xrefEntP, andThen_ok, andThen_err, exact_byte, getElem?_of_drop e10, getElem?_of_drop e16, extract_eq 10 s i _ _ e0 hAlen, extract_eq 5 s _ _ _ e11 hGlen, extract_eq 1 s _ _ _ e17 rfl, extract_eq 2 s _ _ _ e18 hElen, hc, isDigit_eq_isDig, decVal_eq_decOf, cA, hA', h10, cG, hG', cgen]
      · have cG : (∃ x, x ∈ G ∧ isDig x = false) = True := by simpa using hG
        constructor
        · intro x hx; simp [hG] at hx
        · intro _; simp [xrefEntP, andThen_ok, andThen_err, exact_byte, getElem?_of_drop e10, getElem?_of_drop e16, extract_eq 10 s i _ _ e0 hAlen, extract_eq 5 s _ _ _ e11 hGlen, extract_eq 1 s _ _ _ e17 rfl, extract_eq 2 s _ _ _ e18 hElen, hc, isDigit_eq_isDig, decVal_eq_decOf, cA, hA', h10, cG]
    · constructor
      · intro x hx; simp [h10] at hx
      · intro _; simp [xrefEntP, andThen_ok, andThen_err, exact_byte, getElem?_of_drop e10, getElem?_of_drop e16, extract_eq 10 s i _ _ e0 hAlen, extract_eq 5 s _ _ _ e11 hGlen, extract_eq 1 s _ _ _ e17 rfl, extract_eq 2 s _ _ _ e18 hElen, hc, isDigit_eq_isDig, decVal_eq_decOf, cA, hA', h10]
  · have cA : (∃ x, x ∈ A ∧ isDig x = false) = True := by simpa using hA
    constructor
    · intro x hx; simp [hA] at hx
    · intro _; simp [xrefEntP, andThen_ok, andThen_err, exact_byte, getElem?_of_drop e10, getElem?_of_drop e16, extract_eq 10 s i _ _ e0 hAlen, extract_eq 5 s _ _ _ e11 hGlen, extract_eq 1 s _ _ _ e17 rfl, extract_eq 2 s _ _ _ e18 hElen, hc, isDigit_eq_isDig, decVal_eq_decOf, cA]



theorem andThen_eq_panic {α β : Type} {r : Step α} {f : α → Nat → Step β} {p : String} {c : Nat}
    (h : andThen r f = (.panic p, c)) :
    r = (.panic p, c) ∨ ∃ v c1, r = (.ok v, c1) ∧ f v c1 = (.panic p, c) := by
  rcases r with ⟨r, c1⟩
  cases r with
  | ok v => exact Or.inr ⟨v, c1, rfl, h⟩
  | err k => simp [andThen] at h
  | panic q => simp [andThen] at h; left; simp [h]

theorem extract_ok {n : Nat} {s : Bytes} {c : Nat} {x : Bytes} {c' : Nat}
    (h : extract n s c = (.ok x, c')) : c' = c + n ∧ n ≤ s.length - c ∧ x.length = n := by
  unfold extract at h
  split at h
  · simp at h
  · simp only [Prod.mk.injEq, Res.ok.injEq] at h
    obtain ⟨rfl, rfl⟩ := h
    refine ⟨rfl, by omega, ?_⟩
    simp; omega

theorem extract_ne_panic (n : Nat) (s : Bytes) (c : Nat) (p : String) (c' : Nat) :
    extract n s c ≠ (.panic p, c') := by
  unfold extract; split <;> simp

theorem exact_ok {tag s : Bytes} {c : Nat} {u : Unit} {c' : Nat}
    (h : exact tag s c = (.ok u, c')) : c' = c + tag.length ∧ tag.length ≤ s.length - c := by
  unfold exact at h
  split at h
  · rename_i hp
    simp only [Prod.mk.injEq] at h
    have := List.IsPrefix.length_le (List.isPrefixOf_iff_prefix.mp hp)
    simp at this
    exact ⟨h.2.symm, this⟩
  · simp at h

theorem exact_ne_panic (tag s : Bytes) (c : Nat) (p : String) (c' : Nat) :
    exact tag s c ≠ (.panic p, c') := by
  unfold exact; split <;> simp

/-- a successful entry parse consumed 20 bytes that were there -/
theorem ent_ok_len (idx : Nat) (s : Bytes) (i : Nat) (e : Located Ent) (c : Nat)
    (h : xrefEntP idx s i = (.ok e, c)) : i + 20 ≤ s.length := by
  unfold xrefEntP at h
  obtain ⟨inf, c1, h1, h⟩ := andThen_eq_ok h
  split at h
  · simp at h
  split at h
  · simp at h
  obtain ⟨_, c2, h2, h⟩ := andThen_eq_ok h
  obtain ⟨gs, c3, h3, h⟩ := andThen_eq_ok h
  split at h
  · simp at h
  split at h
  · simp at h
  split at h
  · simp at h
  obtain ⟨_, c4, h4, h⟩ := andThen_eq_ok h
  obtain ⟨flg, c5, h5, h⟩ := andThen_eq_ok h
  split at h
  · simp at h
  · split at h
    · simp at h
    · obtain ⟨eol, c6, h6, h⟩ := andThen_eq_ok h
      have a1 := extract_ok h1
      have a2 := exact_ok h2
      have a3 := extract_ok h3
      have a4 := exact_ok h4
      have a5 := extract_ok h5
      have a6 := extract_ok h6
      simp only [List.length_cons, List.length_nil] at a2 a4
      omega

theorem ent_no_panic (idx : Nat) (s : Bytes) (i : Nat) (p : String) (c : Nat) :
    xrefEntP idx s i ≠ (.panic p, c) := by
  intro h
  unfold xrefEntP at h
  rcases andThen_eq_panic h with h | ⟨inf, c1, h1, h⟩
  · exact extract_ne_panic _ _ _ _ _ h
  split at h
  · simp at h
  split at h
  · simp at h
  rcases andThen_eq_panic h with h | ⟨_, c2, h2, h⟩
  · exact exact_ne_panic _ _ _ _ _ h
  rcases andThen_eq_panic h with h | ⟨gs, c3, h3, h⟩
  · exact extract_ne_panic _ _ _ _ _ h
  split at h
  · simp at h
  split at h
  · simp at h
  split at h
  · simp at h
  rcases andThen_eq_panic h with h | ⟨_, c4, h4, h⟩
  · exact exact_ne_panic _ _ _ _ _ h
  rcases andThen_eq_panic h with h | ⟨flg, c5, h5, h⟩
  · exact extract_ne_panic _ _ _ _ _ h
  split at h
  · have := (extract_ok h5).2.2; simp at this
  · split at h
    · simp at h
    · rcases andThen_eq_panic h with h | ⟨eol, c6, h6, h⟩
      · exact extract_ne_panic _ _ _ _ _ h
      · split at h <;> simp at h


theorem entryAt_short (s : Bytes) (i : Nat) (h : ¬ i + 20 ≤ s.length) : entryAt s i = none := by
  unfold entryAt entryForm
  have : ¬ ((s.drop i).take 20).length = 20 := by simp; omega
  rw [if_neg (fun hc => this hc.1)]


/-! ### numbers and white space in a subsection header -/


/-- stop condition of `parse_allowed_bytes`: end of buffer or a byte that is not allowed -/
def stopsAt (p : UInt8 → Bool) (r : Bytes) : Prop := ∀ b, r.head? = some b → p b = false

theorem takeWhile_prefix (p : UInt8 → Bool) : ∀ (pre r : Bytes), pre.all p = true → stopsAt p r →
    (pre ++ r).takeWhile p = pre := by
  intro pre
  induction pre with
  | nil =>
    intro r _ hr
    cases r with
    | nil => rfl
    | cons b t => simp [List.takeWhile, hr b rfl]
  | cons a t ih =>
    intro r ha hr
    simp only [List.all_cons, Bool.and_eq_true] at ha
    simp [List.takeWhile, ha.1, ih r ha.2 hr]

theorem parseAllowed_prefix (p : UInt8 → Bool) (s : Bytes) (c : Nat) (pre r : Bytes)
    (hs : s.drop c = pre ++ r) (hp : pre.all p = true) (hr : stopsAt p r) :
    parseAllowed p s c = (pre, c + pre.length) := by
  simp [parseAllowed, hs, takeWhile_prefix p pre r hp hr]

theorem head_of_drop {s : Bytes} {c : Nat} {r : Bytes} (h : s.drop c = r) : s[c]? = r.head? := by
  cases r with
  | nil =>
    have : s.length ≤ c := by simpa using h
    simp [List.getElem?_eq_none this]
  | cons b t => simpa using getElem?_of_drop h

/-- the digit loop of `IntegerP` over written digits -/
theorem accDigits_padDec (w : Nat) : ∀ (v n : Nat), v < 10 ^ w → n * 10 ^ w + v ≤ i64Max →
    accDigits (padDec w v) n = some (n * 10 ^ w + v) := by
  induction w with
  | zero => intro v n hv _; simp at hv; simp [padDec, encBase, accDigits, hv]
  | succ w ih =>
    intro v n hv hlim
    simp only [padDec, encBase, accDigits]
    have htop := top_digit_toNat 10 48 w v (by omega) hv
    have harith := step_arith 10 (10 ^ w) n v
    have hP : 0 < 10 ^ w := Nat.pow_pos (by omega)
    have hpow : 10 ^ (w + 1) = 10 * 10 ^ w := by rw [Nat.pow_succ, Nat.mul_comm]
    rw [htop, Nat.add_sub_cancel_left]
    have hle : n * 10 + v / 10 ^ w ≤ (n * 10 + v / 10 ^ w) * 10 ^ w := Nat.le_mul_of_pos_right _ hP
    have h2' : n * 10 + v / 10 ^ w ≤ i64Max := by
      rw [hpow] at hlim
      exact Nat.le_trans hle (Nat.le_trans (Nat.le_add_right _ _) (harith ▸ hlim))
    have h1 : ¬ n * 10 > i64Max := Nat.not_lt.mpr (Nat.le_trans (Nat.le_add_right _ _) h2')
    have h2 : ¬ n * 10 + v / 10 ^ w > i64Max := Nat.not_lt.mpr h2'
    simp only [h1, h2, if_false]
    have := ih (v % 10 ^ w) (n * 10 + v / 10 ^ w) (mod_pow_lt 10 w v (by omega)) (by rw [harith, ← hpow]; exact hlim)
    simp only [padDec] at this
    rw [this, harith, ← hpow]

theorem padDec_head (w v : Nat) (hw : 0 < w) : ∃ d t, padDec w v = d :: t ∧ Xref.isDigit d = true := by
  cases w with
  | zero => omega
  | succ w =>
    refine ⟨_, _, rfl, ?_⟩
    have := all_isDigit_padDec (w + 1) v
    simp only [padDec, encBase, List.all_cons, Bool.and_eq_true] at this
    exact this.1

/-- `IntegerP` reads back a written (zero-padded) number that is followed by a non-digit -/
theorem integerP_padDec (w v : Nat) (s : Bytes) (c : Nat) (r : Bytes)
    (hs : s.drop c = padDec w v ++ r) (hw : 0 < w) (hv : v < 10 ^ w) (hlim : v ≤ i64Max)
    (hr : stopsAt Xref.isDigit r) :
    integerP s c = (.ok ⟨(v : Int), c, c + w⟩, c + w) := by
  obtain ⟨d, t, hd, hdig⟩ := padDec_head w v hw
  have h0 : s[c]? = some d := by
    have := head_of_drop hs; rw [hd] at this; simpa using this
  have hd45 : ¬ d = 45 := by intro h; subst h; revert hdig; decide
  have hd43 : ¬ d = 43 := by intro h; subst h; revert hdig; decide
  have hpa := parseAllowed_prefix Xref.isDigit s c (padDec w v) r hs (all_isDigit_padDec w v) hr
  have hne : (padDec w v).isEmpty = false := by rw [hd]; rfl
  have hacc := accDigits_padDec w v 0 hv (by omega)
  simp only [Nat.zero_mul, Nat.zero_add] at hacc
  unfold integerP
  simp [h0, hd45, hd43, hpa, hne, hacc, padDec_length]


theorem isBlank_ws (b : UInt8) (h : XrefSpec.isBlank b = true) : Xref.isWsNoEol b = true := by
  simp only [XrefSpec.isBlank, Bool.or_eq_true, beq_iff_eq] at h
  simp only [Xref.isWsNoEol, Bool.or_eq_true, beq_iff_eq]
  rcases h with ((h | h) | h) | h <;> simp [h]

theorem all_imp {p q : UInt8 → Bool} (l : Bytes) (h : ∀ b, p b = true → q b = true) (hl : l.all p = true) :
    l.all q = true := by
  simp only [List.all_eq_true] at *
  exact fun x hx => h x (hl x hx)

theorem blank_getLast_ne_cr (l : Bytes) (h : l.all XrefSpec.isBlank = true) : (l.getLast? == some 13) = false := by
  cases hg : l.getLast? with
  | none => rfl
  | some b =>
    have hm : b ∈ l := List.mem_of_getLast? hg
    have := (List.all_eq_true.mp h) b hm
    have hb : ¬ b = 13 := by intro h13; subst h13; revert this; decide
    simp [hb]

/-- `WhitespaceNoEOL(true)` over blanks (no CR among them) followed by a non-blank -/
theorem wsNoEol_blanks (s : Bytes) (c : Nat) (lead r : Bytes) (hs : s.drop c = lead ++ r)
    (hl : lead.all XrefSpec.isBlank = true) (hr : stopsAt Xref.isWsNoEol r) :
    wsNoEol true s c = (.ok (), c + lead.length) := by
  have hpa := parseAllowed_prefix Xref.isWsNoEol s c lead r hs (all_imp lead isBlank_ws hl) hr
  unfold wsNoEol
  simp [hpa, blank_getLast_ne_cr lead hl]

/-- the `WhitespaceEOL` loop over white space followed by something that is neither white space
    nor a comment -/
theorem wsEol_ws (s : Bytes) (c : Nat) (pre r : Bytes) (hs : s.drop c = pre ++ r)
    (hp : pre.all Xref.isWsEol = true) (hne : pre ≠ [])
    (hr : ∀ b, r.head? = some b → Xref.isWsEol b = false ∧ b ≠ 37) :
    wsEol false s c = (.ok (), c + pre.length) := by
  have hpa := parseAllowed_prefix Xref.isWsEol s c pre r hs hp (fun b hb => (hr b hb).1)
  have hnext : s[c + pre.length]? = r.head? := head_of_drop (drop_step hs)
  have h37 : (s[c + pre.length]? == some 37) = false := by
    rw [hnext]
    cases hh : r.head? with
    | none => rfl
    | some b => have := (hr b hh).2; simp [this]
  have hemp : pre.isEmpty = false := by cases pre <;> simp_all
  unfold wsEol
  have : s.length - c + 1 = (s.length - c) + 1 := rfl
  rw [this]
  simp [wsEolLoop, hpa, h37, hemp]

theorem isWs_eq : XrefSpec.isWs = Xref.isWsEol := by
  funext b; rfl



theorem encEntry_length (e : TEnt) : (encEntry e).length = 20 := by
  cases h : e.eol <;> simp [encEntry, padDec_length, Eol.bytes, h]

theorem entryForm_enc (e : TEnt) (hwf : e.wf) : entryForm (encEntry e) = some (e.info, e.gen, e.inuse) := by
  obtain ⟨hi, hg⟩ := hwf
  have hAall := all_isDigit_padDec 10 e.info
  have hGall := all_isDigit_padDec 5 e.gen
  have hAval := decVal_padDec 10 e.info hi
  have hGval := decVal_padDec 5 e.gen (by omega)
  rw [isDigit_eq_isDig] at hAall hGall
  rw [decVal_eq_decOf] at hAval hGval
  have hAlen := padDec_length 10 e.info
  have hGlen := padDec_length 5 e.gen
  unfold encEntry
  generalize padDec 10 e.info = A at *
  generalize padDec 5 e.gen = G at *
  obtain ⟨a0, at0, ae0, ah0⟩ := len_succ (n := 9) hAlen
  obtain ⟨a1, at1, ae1, ah1⟩ := len_succ (n := 8) ah0
  subst ae1
  obtain ⟨a2, at2, ae2, ah2⟩ := len_succ (n := 7) ah1
  subst ae2
  obtain ⟨a3, at3, ae3, ah3⟩ := len_succ (n := 6) ah2
  subst ae3
  obtain ⟨a4, at4, ae4, ah4⟩ := len_succ (n := 5) ah3
  subst ae4
  obtain ⟨a5, at5, ae5, ah5⟩ := len_succ (n := 4) ah4
  subst ae5
  obtain ⟨a6, at6, ae6, ah6⟩ := len_succ (n := 3) ah5
  subst ae6
  obtain ⟨a7, at7, ae7, ah7⟩ := len_succ (n := 2) ah6
  subst ae7
  obtain ⟨a8, at8, ae8, ah8⟩ := len_succ (n := 1) ah7
  subst ae8
  obtain ⟨a9, at9, ae9, ah9⟩ := len_succ (n := 0) ah8
  subst ae9
  have anil : at9 = [] := List.eq_nil_of_length_eq_zero ah9
  subst anil
  obtain ⟨g0, gt0, ge0, gh0⟩ := len_succ (n := 4) hGlen
  obtain ⟨g1, gt1, ge1, gh1⟩ := len_succ (n := 3) gh0
  subst ge1
  obtain ⟨g2, gt2, ge2, gh2⟩ := len_succ (n := 2) gh1
  subst ge2
  obtain ⟨g3, gt3, ge3, gh3⟩ := len_succ (n := 1) gh2
  subst ge3
  obtain ⟨g4, gt4, ge4, gh4⟩ := len_succ (n := 0) gh3
  subst ge4
  have gnil : gt4 = [] := List.eq_nil_of_length_eq_zero gh4
  subst gnil
  subst ae0
  subst ge0
  have hflag : ((if e.inuse = true then (110 : UInt8) else 102) = 102 ∨ (if e.inuse = true then (110 : UInt8) else 102) = 110) := by
    cases e.inuse <;> simp
  have hfl : ((if e.inuse = true then (110 : UInt8) else 102) == 110) = e.inuse := by
    cases e.inuse <;> simp
  cases heol : e.eol <;>
    (simp only [Eol.bytes, List.cons_append, List.nil_append, List.append_assoc]
     rw [entryForm_lit, if_pos ⟨hAall, rfl, hGall, rfl, hflag, by simp, by omega⟩, hAval, hGval, hfl])

end Parsley.C13
