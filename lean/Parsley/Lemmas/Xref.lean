/-
  Helper lemmas for C13: positional notation (encoders vs. the accumulating loops of the code),
  list slicing, and the step combinator.
-/
import Parsley.Model.Xref
import Parsley.Spec.Xref
namespace Parsley.C13
open Parsley Parsley.Xref Parsley.XrefSpec

@[simp] theorem andThen_ok {α β : Type} (v : α) (c : Nat) (f : α → Nat → Step β) :
    andThen (.ok v, c) f = f v c := rfl
@[simp] theorem andThen_err {α β : Type} (k : ErrK) (c : Nat) (f : α → Nat → Step β) :
    andThen ((.err k, c) : Step α) f = (.err k, c) := rfl
@[simp] theorem andThen_panic {α β : Type} (p : String) (c : Nat) (f : α → Nat → Step β) :
    andThen ((.panic p, c) : Step α) f = (.panic p, c) := rfl

/-- if `andThen r f` is `ok`, then `r` was `ok` -/
theorem andThen_eq_ok {α β : Type} {r : Step α} {f : α → Nat → Step β} {w : β} {c : Nat}
    (h : andThen r f = (.ok w, c)) : ∃ v c1, r = (.ok v, c1) ∧ f v c1 = (.ok w, c) := by
  rcases r with ⟨r, c1⟩
  cases r with
  | ok v => exact ⟨v, c1, rfl, h⟩
  | err k => simp [andThen] at h
  | panic p => simp [andThen] at h

/-! ### arithmetic of positional notation -/

theorem step_arith (b P acc v : Nat) : (acc * b + v / P) * P + v % P = acc * (b * P) + v := by
  have h := Nat.div_add_mod v P
  rw [Nat.add_mul, Nat.mul_assoc, Nat.mul_comm (v / P) P]
  omega

theorem div_lt_base (b w v : Nat) (hv : v < b ^ (w + 1)) : v / b ^ w < b := by
  rw [Nat.pow_succ] at hv
  exact Nat.div_lt_of_lt_mul hv

theorem mod_pow_lt (b w v : Nat) (hb : 0 < b) : v % b ^ w < b ^ w :=
  Nat.mod_lt _ (Nat.pow_pos hb)

theorem encBase_length (b off w v : Nat) : (encBase b off w v).length = w := by
  induction w generalizing v with
  | zero => rfl
  | succ w ih => simp [encBase, ih]

/-- the digit written at the top position -/
theorem top_digit_toNat (b off w v : Nat) (hb : off + b ≤ 256) (hv : v < b ^ (w + 1)) :
    (UInt8.ofNat (off + v / b ^ w % b)).toNat = off + v / b ^ w := by
  have h1 := div_lt_base b w v hv
  rw [Nat.mod_eq_of_lt h1]
  simp only [UInt8.toNat_ofNat']
  exact Nat.mod_eq_of_lt (by omega)

/-- the fold `a ↦ a·b + (c − off)` over `w` written digits adds the written number -/
theorem foldl_encBase (b off : Nat) (hb : off + b ≤ 256) (hb0 : 0 < b) (w : Nat) :
    ∀ (v acc : Nat), v < b ^ w →
      (encBase b off w v).foldl (fun a (c : UInt8) => a * b + (c.toNat - off)) acc = acc * b ^ w + v := by
  induction w with
  | zero => intro v acc hv; simp at hv; simp [encBase, hv]
  | succ w ih =>
    intro v acc hv
    simp only [encBase, List.foldl_cons]
    rw [top_digit_toNat b off w v hb hv, ih _ _ (mod_pow_lt b w v hb0)]
    rw [Nat.add_sub_cancel_left, Nat.pow_succ, Nat.mul_comm (b ^ w) b]
    exact step_arith b (b ^ w) acc v

theorem decVal_padDec (w v : Nat) (hv : v < 10 ^ w) : decVal (padDec w v) = v := by
  have := foldl_encBase 10 48 (by omega) (by omega) w v 0 hv
  simpa [decVal, padDec] using this

theorem all_isDigit_padDec (w v : Nat) : (padDec w v).all Xref.isDigit = true := by
  induction w generalizing v with
  | zero => rfl
  | succ w ih =>
    simp only [padDec, encBase, List.all_cons, Bool.and_eq_true]
    refine ⟨?_, ih _⟩
    have h : v / 10 ^ w % 10 < 10 := Nat.mod_lt _ (by omega)
    have h2 : (48 + v / 10 ^ w % 10) % 256 = 48 + v / 10 ^ w % 10 := Nat.mod_eq_of_lt (by omega)
    simp only [Xref.isDigit, Bool.and_eq_true, decide_eq_true_eq, UInt8.le_iff_toNat_le,
      UInt8.toNat_ofNat', h2]
    exact ⟨by simp, by simp; omega⟩

theorem padDec_length (w v : Nat) : (padDec w v).length = w := encBase_length _ _ _ _

/-! ### list slicing at a known offset -/

theorem getElem?_mid (pre : Bytes) (b : UInt8) (t : Bytes) : (pre ++ b :: t)[pre.length]? = some b := by
  simp

theorem drop_mid (pre x : Bytes) : (pre ++ x).drop pre.length = x := by
  simp

/-! ### sequential decoding at a cursor -/


theorem drop_step {s : Bytes} {c : Nat} {x r : Bytes} (h : s.drop c = x ++ r) :
    s.drop (c + x.length) = r := by
  rw [← List.drop_drop, h]; simp

theorem getElem?_of_drop {s : Bytes} {c : Nat} {b : UInt8} {r : Bytes} (h : s.drop c = b :: r) :
    s[c]? = some b := by
  have : (s.drop c)[0]? = some b := by rw [h]; rfl
  simpa using this

theorem drop_cons_step {s : Bytes} {c : Nat} {b : UInt8} {r : Bytes} (h : s.drop c = b :: r) :
    s.drop (c + 1) = r := by
  have := drop_step (x := [b]) (r := r) (by simpa using h)
  simpa using this

theorem parseUsizeW_encBE (w : Nat) : ∀ (v acc : Nat) (s : Bytes) (c : Nat) (rest : Bytes),
    s.drop c = encBE w v ++ rest → v < 256 ^ w → acc * 256 ^ w + v < usizeLim →
    parseUsizeW w s c acc = (.ok (acc * 256 ^ w + v), c + w) := by
  induction w with
  | zero => intro v acc s c rest _ hv _; simp at hv; simp [parseUsizeW, hv]
  | succ w ih =>
    intro v acc s c rest hs hv hlim
    simp only [encBE, encBase, List.cons_append] at hs
    have htop := top_digit_toNat 256 0 w v (by omega) hv
    simp only [Nat.zero_add] at htop hs
    have harith := step_arith 256 (256 ^ w) acc v
    have hP : 0 < 256 ^ w := Nat.pow_pos (by omega)
    have hpow : 256 ^ (w + 1) = 256 * 256 ^ w := by rw [Nat.pow_succ, Nat.mul_comm]
    have hlt : acc * 256 + v / 256 ^ w < usizeLim := by
      have : acc * 256 + v / 256 ^ w ≤ (acc * 256 + v / 256 ^ w) * 256 ^ w := Nat.le_mul_of_pos_right _ hP
      rw [hpow] at hlim
      omega
    simp only [parseUsizeW, getElem?_of_drop hs, htop, Nat.mod_eq_of_lt hlt]
    have := ih (v % 256 ^ w) (acc * 256 + v / 256 ^ w) s (c + 1) rest (drop_cons_step hs)
      (mod_pow_lt 256 w v (by omega)) (by rw [harith, ← hpow]; exact hlim)
    rw [this, harith, ← hpow]
    simp [Nat.add_assoc, Nat.add_comm 1 w]

/-! ### rows of a cross-reference stream -/

theorem pow256_le (w : Nat) (h : w ≤ 4) : 256 ^ w ≤ 4294967296 := by
  have := Nat.pow_le_pow_right (n := 256) (by omega) h
  have h4 : (256 : Nat) ^ 4 = 4294967296 := by decide
  omega

theorem field_ok (w v : Nat) (s : Bytes) (c : Nat) (rest : Bytes)
    (hs : s.drop c = encBE w v ++ rest) (hw : w ≤ 4) (hv : v < 256 ^ w) :
    parseUsizeW w s c 0 = (.ok v, c + w) := by
  have hl : (0 : Nat) * 256 ^ w + v < usizeLim := by
    have := pow256_le w hw
    have : usizeLim = 18446744073709551616 := by decide
    omega
  have := parseUsizeW_encBE w v 0 s c rest hs hv hl
  simpa using this

theorem encBE_length (w v : Nat) : (encBE w v).length = w := encBase_length _ _ _ _

theorem row_roundtrip (w0 w1 w2 obj : Nat) (e : SEnt) (s : Bytes) (c : Nat) (rest : Bytes)
    (hs : s.drop c = encRow w0 w1 w2 e ++ rest)
    (h0 : w0 ≤ 4) (h1 : w1 ≤ 4) (h2 : w2 ≤ 4) (hf : e.fits w0 w1 w2) :
    rowP w0 w1 w2 obj s c = (.ok ⟨sEnt obj e, c, c + (w0 + w1 + w2)⟩, c + (w0 + w1 + w2)) := by
  obtain ⟨ht, ht0, hf2, hf3⟩ := hf
  simp only [encRow, List.append_assoc] at hs
  have hs1 := drop_step hs
  have hs2 := drop_step hs1
  simp only [encBE_length] at hs1 hs2
  -- field 1
  have htyp : (if (w0 == 0) = true then ((.ok 1, c) : Step Nat)
      else andThen (parseUsizeW w0 s c 0) fun f c => if f > 2 then (.err .guard, c) else (.ok f, c))
      = (.ok e.typ, c + w0) := by
    by_cases hw0 : w0 = 0
    · simp [hw0, ht0 hw0]
    · have hlt : e.typ < 256 ^ w0 := by
        have : 256 ^ 1 ≤ 256 ^ w0 := Nat.pow_le_pow_right (by omega) (by omega)
        omega
      have hne : (w0 == 0) = false := by simp [hw0]
      rw [hne, field_ok w0 e.typ s c _ hs h0 hlt]
      simp [andThen]; omega
  have hf2' := field_ok w1 e.f2 s (c + w0) _ hs1 h1 hf2
  have hf3' : (if w2 > 0 then parseUsizeW w2 s (c + w0 + w1) 0 else ((.ok 0, c + w0 + w1) : Step Nat))
      = (.ok e.f3, c + w0 + w1 + w2) := by
    by_cases hw2 : w2 = 0
    · subst hw2; simp at hf3; simp [hf3]
    · have : w2 > 0 := by omega
      simp only [this, if_true]
      exact field_ok w2 e.f3 s (c + w0 + w1) _ hs2 h2 hf3
  unfold rowP
  simp only [htyp, andThen_ok, hf2', hf3']
  have hc : c + w0 + w1 + w2 = c + (w0 + w1 + w2) := by omega
  rcases e with ⟨t, f2, f3⟩
  simp only at ht
  have : t = 0 ∨ t = 1 ∨ t = 2 := by omega
  rcases this with rfl | rfl | rfl <;> simp [sEnt, hc]

theorem encRow_length (w0 w1 w2 : Nat) (e : SEnt) : (encRow w0 w1 w2 e).length = w0 + w1 + w2 := by
  simp [encRow, encBE_length]; omega

theorem rows_roundtrip (w0 w1 w2 : Nat) (h0 : w0 ≤ 4) (h1 : w1 ≤ 4) (h2 : w2 ≤ 4) :
    ∀ (es : List SEnt) (obj : Nat) (s : Bytes) (c : Nat) (rest : Bytes),
    s.drop c = encRows w0 w1 w2 es ++ rest → (∀ e ∈ es, e.fits w0 w1 w2) → obj + es.length ≤ usizeLim →
    ∃ l, rowsLoop w0 w1 w2 es.length obj s c = (.ok l, c + es.length * (w0 + w1 + w2))
      ∧ l.map (·.val) = numberS obj es := by
  intro es
  induction es with
  | nil => intro obj s c rest _ _ _; exact ⟨[], by simp [rowsLoop], rfl⟩
  | cons e t ih =>
    intro obj s c rest hs hf hlim
    simp only [encRows, List.flatMap_cons, List.append_assoc] at hs
    have hrow := row_roundtrip w0 w1 w2 obj e s c _ hs h0 h1 h2 (hf e (by simp))
    have hs' := drop_step hs
    rw [encRow_length] at hs'
    simp only [List.length_cons] at hlim
    obtain ⟨l, hl, hm⟩ := ih (obj + 1) s (c + (w0 + w1 + w2)) rest hs'
      (fun x hx => hf x (by simp [hx])) (by omega)
    refine ⟨(⟨sEnt obj e, c, c + (w0 + w1 + w2)⟩ : Located Ent) :: l, ?_, ?_⟩
    · have hlt : ¬ obj ≥ usizeLim := by omega
      simp only [List.length_cons, rowsLoop, hlt, if_false, hrow, hl]
      congr 1
      rw [Nat.succ_mul]; omega
    · simp [numberS, hm]

def indexOf (subs : List (Nat × List SEnt)) : List (Nat × Nat) := subs.map fun p => (p.1, p.2.length)
def totalRows (subs : List (Nat × List SEnt)) : Nat := (subs.map fun p => p.2.length).sum

theorem encRows_length (w0 w1 w2 : Nat) (es : List SEnt) :
    (encRows w0 w1 w2 es).length = es.length * (w0 + w1 + w2) := by
  induction es with
  | nil => simp [encRows]
  | cons e t ih =>
    simp only [encRows, List.flatMap_cons, List.length_append, encRow_length, List.length_cons] at *
    rw [ih, Nat.succ_mul]; omega

theorem index_roundtrip (w0 w1 w2 : Nat) (h0 : w0 ≤ 4) (h1 : w1 ≤ 4) (h2 : w2 ≤ 4) :
    ∀ (subs : List (Nat × List SEnt)) (s : Bytes) (c : Nat) (rest : Bytes),
    s.drop c = (subs.flatMap fun p => encRows w0 w1 w2 p.2) ++ rest →
    (∀ p ∈ subs, ∀ e ∈ p.2, e.fits w0 w1 w2) → (∀ p ∈ subs, p.1 + p.2.length ≤ usizeLim) →
    ∃ l, indexLoop w0 w1 w2 (indexOf subs) s c = (.ok l, c + totalRows subs * (w0 + w1 + w2))
      ∧ l.map (·.val) = streamEnts subs := by
  intro subs
  induction subs with
  | nil => intro s c rest _ _ _; exact ⟨[], by simp [indexLoop, indexOf, totalRows], rfl⟩
  | cons p t ih =>
    intro s c rest hs hf hlim
    obtain ⟨st, es⟩ := p
    simp only [List.flatMap_cons, List.append_assoc] at hs
    obtain ⟨l1, hl1, hm1⟩ := rows_roundtrip w0 w1 w2 h0 h1 h2 es st s c _ hs
      (fun e he => hf (st, es) (by simp) e he) (hlim (st, es) (by simp))
    have hs' := drop_step hs
    rw [encRows_length] at hs'
    obtain ⟨l2, hl2, hm2⟩ := ih s _ rest hs' (fun q hq => hf q (by simp [hq])) (fun q hq => hlim q (by simp [hq]))
    refine ⟨l1 ++ l2, ?_, ?_⟩
    · simp only [indexOf, List.map_cons, indexLoop, hl1]
      simp only [indexOf] at hl2
      rw [hl2]
      simp only [totalRows, List.map_cons, List.sum_cons]
      congr 1
      rw [Nat.add_mul]; omega
    · simp [streamEnts, hm1, hm2]



theorem parseUsizeW_ok (w : Nat) : ∀ (s : Bytes) (c acc v c' : Nat),
    parseUsizeW w s c acc = (.ok v, c') → c' = c + w ∧ (0 < w → c' ≤ s.length) := by
  induction w with
  | zero => intro s c acc v c' h; simp [parseUsizeW] at h; omega
  | succ w ih =>
    intro s c acc v c' h
    simp only [parseUsizeW] at h
    cases hb : s[c]? with
    | none => simp [hb] at h
    | some b =>
      simp only [hb] at h
      have ⟨h1, h2⟩ := ih s (c + 1) _ v c' h
      have hc : c < s.length := by
        rcases Nat.lt_or_ge c s.length with h | h
        · exact h
        · simp [List.getElem?_eq_none h] at hb
      refine ⟨by omega, fun _ => ?_⟩
      by_cases hw : 0 < w
      · exact h2 hw
      · have : w = 0 := by omega
        subst this; omega

theorem parseUsizeW_no_panic (w : Nat) : ∀ (s : Bytes) (c acc : Nat) (p : String) (c' : Nat),
    parseUsizeW w s c acc ≠ (.panic p, c') := by
  induction w with
  | zero => intro s c acc p c'; simp [parseUsizeW]
  | succ w ih =>
    intro s c acc p c'
    simp only [parseUsizeW]
    cases hb : s[c]? with
    | none => simp
    | some b => exact ih _ _ _ _ _

/-- what a successful row decode looks like: the object number is the one asked for, at least
    `w1` bytes were consumed and the cursor is still inside the buffer -/
theorem rowP_ok (w0 w1 w2 obj : Nat) (s : Bytes) (c : Nat) (e : Located Ent) (c' : Nat)
    (h : rowP w0 w1 w2 obj s c = (.ok e, c')) :
    e.val.obj = obj ∧ c' = c + w0 + w1 + w2 ∧ (0 < w1 → c' ≤ s.length) := by
  unfold rowP at h
  obtain ⟨t, c0, ht, h⟩ := andThen_eq_ok h
  obtain ⟨f2, c1, hf2, h⟩ := andThen_eq_ok h
  obtain ⟨f3, c2, hf3, h⟩ := andThen_eq_ok h
  have hc0 : c0 = c + w0 := by
    by_cases hw0 : w0 = 0
    · simp [hw0] at ht; omega
    · have hne : (w0 == 0) = false := by simp [hw0]
      rw [hne] at ht
      simp only [Bool.false_eq_true, if_false] at ht
      obtain ⟨f, cc, hf, hg⟩ := andThen_eq_ok ht
      have := (parseUsizeW_ok w0 s c 0 f cc hf).1
      split at hg
      · simp at hg
      · simp at hg; omega
  have ⟨hc1, hl1⟩ := parseUsizeW_ok w1 s c0 0 f2 c1 hf2
  have hc2 : c2 = c1 + w2 ∧ (0 < w1 → c2 ≤ s.length) := by
    by_cases hw2 : w2 > 0
    · simp only [hw2, if_true] at hf3
      have ⟨a, b⟩ := parseUsizeW_ok w2 s c1 0 f3 c2 hf3
      exact ⟨a, fun _ => b hw2⟩
    · simp only [hw2, if_false] at hf3
      simp at hf3
      exact ⟨by omega, fun h => by have := hl1 h; omega⟩
  have hobj : e.val.obj = obj ∧ c' = c2 := by
    split at h <;> simp at h <;> (obtain ⟨h1, h2⟩ := h; subst h1; exact ⟨rfl, h2.symm⟩)
  exact ⟨hobj.1, by omega, fun h => by have := hc2.2 h; omega⟩


/-! ### dictionary accessors -/


theorem dget_eq_lookup (d : Dict) (k : Bytes) : dget d k = lookup d k := by
  induction d with
  | nil => rfl
  | cons p t ih =>
    obtain ⟨k', v⟩ := p
    simp only [dget, lookup, List.find?_cons]
    cases h : (k' == k)
    · simpa [lookup] using ih
    · simp

theorem getName_eq (d : Dict) (k : Bytes) : getName d k = nameVal (lookup d k) := by
  unfold getName; rw [dget_eq_lookup]
  cases lookup d k with
  | none => rfl
  | some v => cases v with
    | atom a => cases a <;> rfl
    | arr l => rfl

theorem getUsize_eq (d : Dict) (k : Bytes) : getUsize d k = natVal (lookup d k) := by
  unfold getUsize; rw [dget_eq_lookup]
  cases lookup d k with
  | none => rfl
  | some v => cases v with
    | atom a => cases a <;> rfl
    | arr l => rfl

theorem getArray_eq (d : Dict) (k : Bytes) : getArray d k = arrVal (lookup d k) := by
  unfold getArray; rw [dget_eq_lookup]
  cases lookup d k with
  | none => rfl
  | some v => cases v <;> rfl

/-- the `/W` part of `get_dict_info`, as one function -/
def modelWidths (w : List Atom) : Option (Nat × Nat × Nat) :=
  if w.length != 3 then none
  else match widthList w with
    | some [w0, w1, w2] => if w1 == 0 then none else some (w0, w1, w2)
    | _ => none

theorem widthList_cons (a : Atom) (t : List Atom) :
    widthList (a :: t) =
      match natAtom a with
      | some x => if x ≤ 4 then (widthList t).map (x :: ·) else none
      | none => none := by
  cases a with
  | int i =>
    simp only [widthList, natAtom]
    by_cases h : i < 0
    · have : ¬ 0 ≤ i := by omega
      simp [h, this]
    · have h' : 0 ≤ i := by omega
      simp only [h, if_false, h', if_true]
      by_cases h4 : i.toNat > 4
      · have : ¬ i.toNat ≤ 4 := by omega
        simp [h4, this]
      · have : i.toNat ≤ 4 := by omega
        simp only [h4, if_false, this, if_true]
        cases widthList t <;> rfl
  | name b => rfl
  | dict t => rfl
  | null => rfl
  | other => rfl

theorem widthList_length : ∀ (l : List Atom) (r : List Nat), widthList l = some r → r.length = l.length
  | [], r, h => by simp [widthList] at h; simp [← h]
  | a :: t, r, h => by
    rw [widthList_cons] at h
    cases hn : natAtom a with
    | none => simp [hn] at h
    | some x =>
      simp only [hn] at h
      split at h
      · cases ht : widthList t with
        | none => simp [ht] at h
        | some r' =>
          simp [ht] at h
          have := widthList_length t r' ht
          simp [← h, this]
      · simp at h

theorem modelWidths_eq (w : List Atom) : modelWidths w = widthsMeaning w := by
  unfold modelWidths widthsMeaning
  match w with
  | [] => rfl
  | [_] => simp
  | [_, _] => simp
  | _ :: _ :: _ :: _ :: _ => simp
  | [x0, x1, x2] =>
    simp only [List.length_cons, List.length_nil, bne_self_eq_false, Bool.false_eq_true, if_false,
      widthList_cons, List.map_cons, List.map_nil]
    cases natAtom x0 <;> cases natAtom x1 <;> cases natAtom x2 <;> simp [widthList]
    rename_i a b c
    by_cases ha : a ≤ 4 <;> by_cases hb : b ≤ 4 <;> by_cases hc : c ≤ 4 <;> by_cases hz : b = 0 <;> simp [ha, hb, hc, hz]


theorem indexPairs_int_int (s c : Int) (t : List Atom) :
    indexPairs (.int s :: .int c :: t) =
      match natAtom (.int s), natAtom (.int c) with
      | some s, some c => (indexPairs t).map ((s, c) :: ·)
      | _, _ => none := by
  simp only [indexPairs, natAtom]
  by_cases hs : s < 0
  · have : ¬ 0 ≤ s := by omega
    simp [hs, this]
  · have hs' : 0 ≤ s := by omega
    by_cases hc : c < 0
    · have : ¬ 0 ≤ c := by omega
      simp [hs, hs', hc, this]
    · have hc' : 0 ≤ c := by omega
      simp only [hs, hs', hc, hc', if_false, if_true]
      cases indexPairs t <;> rfl

theorem indexPairs_cons2 (a b : Atom) (t : List Atom) :
    indexPairs (a :: b :: t) =
      match natAtom a, natAtom b with
      | some s, some c => (indexPairs t).map ((s, c) :: ·)
      | _, _ => none := by
  cases a with
  | int s =>
    cases b with
    | int c => exact indexPairs_int_int s c t
    | name _ => simp only [indexPairs, natAtom]; split <;> simp_all
    | dict _ => simp only [indexPairs, natAtom]; split <;> simp_all
    | null => simp only [indexPairs, natAtom]; split <;> simp_all
    | other => simp only [indexPairs, natAtom]; split <;> simp_all
  | name _ => simp only [indexPairs, natAtom]
  | dict _ => simp only [indexPairs, natAtom]
  | null => simp only [indexPairs, natAtom]
  | other => simp only [indexPairs, natAtom]

theorem indexPairs_spec : ∀ (l : List Atom), l.length % 2 = 0 →
    indexPairs l = if l.all (fun a => (natAtom a).isSome) then some (pairs (l.filterMap natAtom)) else none
  | [], _ => by simp [indexPairs, pairs]
  | [_], h => by simp at h
  | a :: b :: t, h => by
    have ht : t.length % 2 = 0 := by simp at h; omega
    rw [indexPairs_cons2, indexPairs_spec t ht]
    cases ha : natAtom a <;> cases hb : natAtom b <;> simp [ha, hb, pairs]

/-- the `/Index` part of `get_dict_info`: `none` = error, `some none` = absent -/
def modelIndex (v : Option (List Atom)) : Option (Option (List (Nat × Nat))) :=
  match v with
  | some i =>
    if i.length % 2 != 0 then none
    else match indexPairs i with
      | some l => some (some l)
      | none => none
  | none => some none

theorem modelIndex_eq (size : Nat) (v : Option (List Atom)) :
    (modelIndex v).map (fun o => match o with | some l => l | none => [(0, size)]) = indexMeaning size v := by
  cases v with
  | none => rfl
  | some l =>
    simp only [modelIndex, indexMeaning]
    by_cases h : l.length % 2 = 0
    · simp only [h, bne_self_eq_false, Bool.false_eq_true, if_false, indexPairs_spec l h, true_and]
      split <;> simp_all
    · simp [h]


theorem len3 {α : Type} : ∀ (l : List α), l.length = 3 → ∃ a b c, l = [a, b, c]
  | [a, b, c], _ => ⟨a, b, c, rfl⟩
  | [], h => by simp at h
  | [_], h => by simp at h
  | [_, _], h => by simp at h
  | _ :: _ :: _ :: _ :: _, h => by simp at h

/-- the tail of `get_dict_info` from `/W` on -/
def modelTail (d : Dict) (size : Nat) (index : Option (List (Nat × Nat))) : Res DictInfo :=
  match arrVal (lookup d sW) with
  | none => .err .guard
  | some w =>
    match modelWidths w with
    | none => .err .guard
    | some (w0, w1, w2) =>
      match streamFilters d with
      | none => .err .guard
      | some fs => .ok ⟨size, natVal (lookup d kPrev), index, w0, w1, w2, fs⟩

theorem tail_eq (d : Dict) (size : Nat) (index : Option (List (Nat × Nat))) :
    (match arrVal (lookup d sW) with
      | none => Res.err ErrK.guard
      | some w =>
        if (w.length != 3) = true then Res.err ErrK.guard
        else
          match widthList w with
          | none => Res.err ErrK.guard
          | some [w0, w1, w2] =>
            if (w1 == 0) = true then Res.err ErrK.guard
            else
              match streamFilters d with
              | none => Res.err ErrK.guard
              | some fs =>
                Res.ok { size := size, prev := natVal (lookup d kPrev), index := index, w0 := w0, w1 := w1, w2 := w2, filters := fs }
          | some _ => Res.panic "w_array[i]") = modelTail d size index := by
  unfold modelTail
  cases arrVal (lookup d sW) with
  | none => rfl
  | some w =>
    simp only
    unfold modelWidths
    by_cases hl : w.length = 3
    · have : (w.length != 3) = false := by simp [hl]
      simp only [this, Bool.false_eq_true, if_false]
      cases hw : widthList w with
      | none => rfl
      | some r =>
        have := widthList_length w r hw
        obtain ⟨a, b, c, rfl⟩ := len3 r (by omega)
        simp only
        by_cases hb : b = 0
        · simp [hb]
        · have : (b == 0) = false := by simp [hb]
          simp only [this, Bool.false_eq_true, if_false]
    · have : (w.length != 3) = true := by simp [hl]
      simp [this]

/-- `get_dict_info` as a cascade over what the spec-side readers see -/
theorem getDictInfo_eq (d : Dict) : getDictInfo d =
    match nameVal (lookup d sType) with
    | none => .err .guard
    | some t =>
      if t = sXRef then
        match natVal (lookup d sSize) with
        | none => .err .guard
        | some size =>
          match modelIndex (arrVal (lookup d sIndex)) with
          | none => .err .guard
          | some index => modelTail d size index
      else .err .guard := by
  unfold getDictInfo
  rw [getName_eq, getUsize_eq, getUsize_eq, getArray_eq, getArray_eq]
  rw [show kType = sType from rfl, show kSize = sSize from rfl, show kIndex = sIndex from rfl,
    show kW = sW from rfl]
  cases nameVal (lookup d sType) with
  | none => rfl
  | some t =>
    simp only
    by_cases ht : t = sXRef
    · subst ht
      have : (sXRef != nXRef) = false := by decide
      simp only [this, Bool.false_eq_true, if_false, if_true]
      cases natVal (lookup d sSize) with
      | none => rfl
      | some size =>
        simp only
        cases arrVal (lookup d sIndex) with
        | none => simp only [modelIndex]; exact tail_eq d size none
        | some i =>
          simp only [modelIndex]
          by_cases hi : (i.length % 2 != 0) = true
          · simp [hi]
          · simp only [hi, if_false]
            cases indexPairs i with
            | none => rfl
            | some l => simp only; exact tail_eq d size (some l)
    · have : (t != nXRef) = true := by
        simp only [bne_iff_ne, ne_eq]; exact ht
      simp [this, ht]


end Parsley.C13
