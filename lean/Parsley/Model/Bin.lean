/-
  Model of src/pcore/prim_binary.rs: UInt8P … UInt64P, Int8P … Int64P, ByteVecP.
  Each parser is composed from the next narrower one exactly as the Rust code
  does (`(hi << k) + lo`, cursor restored with `set_cursor_unsafe(start)` when the
  second half fails).  Values are kept in the fixed-width machine types.
-/
import Parsley.Base.Basic
namespace Parsley.Bin
open Parsley

inductive Endian where | little | big
deriving DecidableEq, Repr, Inhabited

/-- `UInt8P::parse`: `peek`, `incr_cursor_unsafe`. -/
def uint8P : P UInt8 := fun s i =>
  match s[i]? with
  | some b => (.ok ⟨b, i, i + 1⟩, i + 1)
  | none => (.err .eob, i)

/-- The shared shape of UInt16P/UInt32P/UInt64P: parse two halves with `p`,
    restore the cursor to `start` if the second fails, combine by endianness. -/
@[inline] def pair {α β : Type} (p : P α) (comb : α → α → β) (e : Endian) : P β := fun s i =>
  match p s i with
  | (.ok v1, i1) =>
    match p s i1 with
    | (.ok v2, i2) =>
      let v := match e with
        | .big => comb v1.val v2.val
        | .little => comb v2.val v1.val
      (.ok ⟨v, i, i2⟩, i2)
    | (.err k, _) => (.err k, i)              -- buf.set_cursor_unsafe(start)
    | (.panic st, j) => (.panic st, j)
  | (.err k, j) => (.err k, j)                 -- `?` : cursor as the sub-parser left it
  | (.panic st, j) => (.panic st, j)

def comb16 (hi lo : UInt8) : UInt16 := (hi.toUInt16 <<< 8) + lo.toUInt16
def comb32 (hi lo : UInt16) : UInt32 := (hi.toUInt32 <<< 16) + lo.toUInt32
def comb64 (hi lo : UInt32) : UInt64 := (hi.toUInt64 <<< 32) + lo.toUInt64

def uint16P (e : Endian) : P UInt16 := pair uint8P comb16 e
def uint32P (e : Endian) : P UInt32 := pair (uint16P e) comb32 e
def uint64P (e : Endian) : P UInt64 := pair (uint32P e) comb64 e

/-- `v.place(*v.val() as iN)` -/
@[inline] def castP {α β : Type} (p : P α) (f : α → β) : P β := fun s i =>
  match p s i with
  | (.ok v, j) => (.ok ⟨f v.val, v.start, v.stop⟩, j)
  | (.err k, j) => (.err k, j)
  | (.panic st, j) => (.panic st, j)

def int8P : P Int8 := castP uint8P UInt8.toInt8
def int16P (e : Endian) : P Int16 := castP (uint16P e) UInt16.toInt16
def int32P (e : Endian) : P Int32 := castP (uint32P e) UInt32.toInt32
def int64P (e : Endian) : P Int64 := castP (uint64P e) UInt64.toInt64

/-- `ByteVecP::parse` over `ParseBuffer::extract`. -/
def byteVecP (len : Nat) : P Bytes := fun s i =>
  if s.length - i < len then (.err .eob, i)
  else (.ok ⟨(s.drop i).take len, i, i + len⟩, i + len)

end Parsley.Bin
