/-
  C17 — model of `ParseBuffer` (src/pcore/parsebuffer.rs:326-580) and of the two view
  transformations (src/pcore/transforms.rs:43-77), written over the *concrete*
  representation the Rust code uses:

      ParseBuffer { buf: Rc<Vec<u8>>, start, end, ofs }      (ofs ABSOLUTE, start ≤ ofs ≤ end)

  * `Sys.heap` is the set of `Vec<u8>` allocations, a `PB` refers to one by index (`store`);
    `Rc::strong_count` of an allocation is the number of live `PB`s referring to it
    (`strong`); `Rc::get_mut` succeeds iff that number is 1 (no `Weak` is ever created in
    the crate).  Releasing a buffer (Rust `drop` of the value) empties its slot.
  * Every Rust partial operation is an explicit `Res.panic`: slice `buf[a..b]`, index
    `buf[i]`, `assert!`, `usize` subtraction below zero, `usize` addition of a
    caller-supplied number (debug build) and `windows(0)`.  Additions whose operands are
    bounded by fields (`ofs + len` after `remaining() >= len`, `start + s + n` after the
    `new_view` assert …) are stored into fields, so `wf_preserved` (fields ≤ store length,
    and a `Vec` never exceeds `isize::MAX`) covers them.
  * Every method returns the result **and** the buffer afterwards (also on `Err`), so that
    "a failed request does not move the cursor" is a theorem about the model, not a
    consequence of its type.

  The definitions mirror the tree **with the C17 fixes applied**
  (pending_fixes/C17-01-…, C17-02-…).  The pre-fix bodies are kept at the end (`…Orig`)
  with the witness theorems in Props/C17.lean.
  Import-free (core only).
-/
import Parsley.Base.Basic
import Parsley.Spec.Buffer
namespace Parsley.Buffer
open Parsley Parsley.BufferSpec

def usizeMax : Nat := 18446744073709551615

/-- debug-build `a + b` on `usize` -/
def uadd (a b : Nat) (site : String) : Res Nat :=
  if a + b ≤ usizeMax then .ok (a + b) else .panic site

/-- `ParseBuffer` -/
structure PB where
  store : Nat
  start : Nat
  stop : Nat        -- `end`
  ofs : Nat
deriving DecidableEq, Repr

/-- `&buf[lo .. hi]` -/
def slice (b : Bytes) (lo hi : Nat) : Res Bytes :=
  if lo ≤ hi ∧ hi ≤ b.length then .ok ((b.drop lo).take (hi - lo)) else .panic "slice index"

/-- `fn size(&self) -> usize { self.end - self.start }` -/
def size (p : PB) : Res Nat :=
  if p.start ≤ p.stop then .ok (p.stop - p.start) else .panic "size: subtract with overflow"

/-- `assert!(self.ofs <= self.end); self.end - self.ofs` -/
def remaining (p : PB) : Res Nat :=
  if p.ofs ≤ p.stop then .ok (p.stop - p.ofs) else .panic "remaining: assert"

/-- `self.ofs - self.start` -/
def getCursor (p : PB) : Res Nat :=
  if p.start ≤ p.ofs then .ok (p.ofs - p.start) else .panic "get_cursor: subtract with overflow"

/-- the `for b in …iter() { if !allow.contains(b) {break}; r.push(*b); consumed += 1 }` loop;
    `keep = true` for parse_allowed_bytes, `false` for parse_bytes_until -/
def collect (set : Bytes) (keep : Bool) : Bytes → Bytes
  | [] => []
  | x :: xs => if set.contains x == keep then x :: collect set keep xs else []

/-- `for (skip, w) in slice.windows(n).enumerate() { if w.starts_with(tag) { return skip } }`
    with `k` windows left, the next one starting at `skip` -/
def scanLoop (tag sl : Bytes) : Nat → Nat → Option Nat
  | 0, _ => none
  | k + 1, skip =>
    if tag.isPrefixOf ((sl.drop skip).take tag.length) then some skip
    else scanLoop tag sl k (skip + 1)

/-- `let mut skip = 1; for w in slice.windows(n).rev() { if w.starts_with(tag) { skip = skip + n - 1;
    return skip }; skip += 1 }` with `k` windows left (the next one starts at `k-1`) -/
def bscanLoop (tag sl : Bytes) : Nat → Nat → Option Nat
  | 0, _ => none
  | k + 1, skip =>
    if tag.isPrefixOf ((sl.drop k).take tag.length) then some (skip + tag.length - 1)
    else bscanLoop tag sl k (skip + 1)

/-- number of windows `slice.windows(n)` yields (n ≠ 0) -/
def nWindows (len n : Nat) : Nat := if n ≤ len then len - n + 1 else 0

/-- `ParseBufferT for ParseBuffer`, method by method; `b` is the `Vec` the `Rc` points to. -/
def run (m : Meth) (b : Bytes) (p : PB) : Res Out × PB :=
  match m with
  | .size => ((size p).map .nat, p)
  | .remaining => ((remaining p).map .nat, p)
  | .getCursor => ((getCursor p).map .nat, p)
  | .peek =>                                   -- if ofs < end { Some(buf[ofs]) } else { None }
    if p.ofs < p.stop then
      match b[p.ofs]? with
      | some x => (.ok (.obyte (some x)), p)
      | none => (.panic "peek: index", p)
    else (.ok (.obyte none), p)
  | .buf => ((slice b p.ofs p.stop).map .bytes, p)
  | .setCursor k =>                            -- if ofs <= self.end - self.start   [C17-02]
    match size p with
    | .ok sz => if k ≤ sz then (.ok .unit, { p with ofs := p.start + k }) else (.err .eob, p)
    | .err e => (.err e, p)
    | .panic s => (.panic s, p)
  | .incr => if p.ofs < p.stop then (.ok .unit, { p with ofs := p.ofs + 1 }) else (.err .eob, p)
  | .decr => if p.ofs > p.start then (.ok .unit, { p with ofs := p.ofs - 1 }) else (.err .eob, p)
  | .checkCursor k =>                          -- ofs < self.end - self.start          [C17-02]
    match size p with
    | .ok sz => (.ok (.bool (decide (k < sz))), p)
    | .err e => (.err e, p)
    | .panic s => (.panic s, p)
  | .setCursorU k =>                           -- assert!(ofs <= self.end - self.start) [C17-02]
    match size p with
    | .ok sz => if k ≤ sz then (.ok .unit, { p with ofs := p.start + k }) else (.panic "assert", p)
    | .err e => (.err e, p)
    | .panic s => (.panic s, p)
  | .incrU => if p.ofs < p.stop then (.ok .unit, { p with ofs := p.ofs + 1 }) else (.panic "assert", p)
  | .decrU => if p.ofs > p.start then (.ok .unit, { p with ofs := p.ofs - 1 }) else (.panic "assert", p)
  | .checkPrefix t =>
    match slice b p.ofs p.stop with
    | .ok sl => (.ok (.bool (t.isPrefixOf sl)), p)
    | .err e => (.err e, p)
    | .panic s => (.panic s, p)
  | .allowed t =>
    match slice b p.ofs p.stop with
    | .ok sl => let r := collect t true sl; (.ok (.bytes r), { p with ofs := p.ofs + r.length })
    | .err e => (.err e, p)
    | .panic s => (.panic s, p)
  | .until_ t =>
    match slice b p.ofs p.stop with
    | .ok sl => let r := collect t false sl; (.ok (.bytes r), { p with ofs := p.ofs + r.length })
    | .err e => (.err e, p)
    | .panic s => (.panic s, p)
  | .scan t =>
    match getCursor p with                     -- let start = self.get_cursor();
    | .panic s => (.panic s, p)
    | .err e => (.err e, p)
    | .ok _ =>
      match slice b p.ofs p.stop with
      | .panic s => (.panic s, p)
      | .err e => (.err e, p)
      | .ok sl =>
        if t.length = 0 then (.panic "windows(0)", p) else
        match scanLoop t sl (nWindows sl.length t.length) 0 with
        | some skip => (.ok (.nat skip), { p with ofs := p.ofs + skip })
        | none => (.err .eob, p)
  | .bscan t =>
    match getCursor p with
    | .panic s => (.panic s, p)
    | .err e => (.err e, p)
    | .ok _ =>
      match slice b p.start p.ofs with
      | .panic s => (.panic s, p)
      | .err e => (.err e, p)
      | .ok sl =>
        if t.length = 0 then (.panic "windows(0)", p) else
        match bscanLoop t sl (nWindows sl.length t.length) 1 with
        | some skip =>
          if skip ≤ p.ofs then (.ok (.nat skip), { p with ofs := p.ofs - skip })
          else (.panic "backward_scan: subtract with overflow", p)
        | none => (.err .eob, p)
  | .exact t =>
    match getCursor p with
    | .panic s => (.panic s, p)
    | .err e => (.err e, p)
    | .ok _ =>
      match slice b p.ofs p.stop with
      | .panic s => (.panic s, p)
      | .err e => (.err e, p)
      | .ok sl =>
        if t.isPrefixOf sl then (.ok (.bool true), { p with ofs := p.ofs + t.length })
        else (.err .guard, p)
  | .extract n =>
    match remaining p with
    | .panic s => (.panic s, p)
    | .err e => (.err e, p)
    | .ok rem =>
      if rem < n then
        match getCursor p with
        | .panic s => (.panic s, p)
        | _ => (.err .eob, p)
      else
        match slice b p.ofs (p.ofs + n) with
        | .ok sl => (.ok (.bytes sl), { p with ofs := p.ofs + n })
        | .err e => (.err e, p)
        | .panic s => (.panic s, p)

/-- `ParseBuffer::new_view(buf, start, size)`: `assert!(start + size <= buf.size())`.  Both callers
    have established `start + size ≤ buf.size()` before (so the sum is bounded by a field). -/
def newView (p : PB) (s n : Nat) : Res PB :=
  match size p with
  | .ok sz =>
    if s + n ≤ sz then
      .ok { store := p.store, start := p.start + s, ofs := p.start + s, stop := p.start + s + n }
    else .panic "new_view: assert"
  | .panic st => .panic st
  | .err e => .err e

/-- `RestrictView::transform`: `if self.size <= buf.size() && self.start <= buf.size() - self.size` [C17-02] -/
def restrictView (p : PB) (s n : Nat) : Res PB :=
  match size p with
  | .ok sz => if n ≤ sz ∧ s ≤ sz - n then newView p s n else .err .bounds
  | .err e => .err e
  | .panic st => .panic st

/-- `RestrictViewFrom::transform`: `if self.start < buf.size() { new_view(buf, start, buf.size() - start) }` -/
def restrictViewFrom (p : PB) (s : Nat) : Res PB :=
  match size p with
  | .ok sz => if s < sz then newView p s (sz - s) else .err .bounds
  | .err e => .err e
  | .panic st => .panic st

/-- The whole system: allocations and slots. -/
structure Sys where
  heap : List Bytes
  views : List (Option PB)
deriving DecidableEq, Repr

def Sys.keys (s : Sys) : List (Option Nat) := s.views.map (Option.map PB.store)

/-- `Rc::strong_count` -/
def Sys.strong (s : Sys) (k : Nat) : Nat := sharers s.keys k

def Sys.get (s : Sys) (i : Nat) : Option PB :=
  match s.views[i]? with
  | some (some p) => some p
  | _ => none

/-- `StreamBufferT::drop` on an unshared buffer (`Rc::get_mut` returned `Some(b)`)  [C17-01, C17-02] -/
def dropUnshared (b : Bytes) (p : PB) (len : Nat) : Res (Bool × Bytes × PB) :=
  match getCursor p with                                 -- if self.ofs - self.start < len { false }
  | .panic st => .panic st
  | .err e => .err e
  | .ok c =>
    if c < len then .ok (false, b, p)
    else
      let b1 := b.take p.stop                            -- b.truncate(self.end);
      if p.start + len ≤ b1.length then                  -- b.drain(.. self.start + len);
        let b2 := b1.drop (p.start + len)
        if p.start + len ≤ p.ofs then                    -- self.ofs -= self.start + len;
          .ok (true, b2, { p with start := 0, ofs := p.ofs - (p.start + len), stop := b2.length })
        else .panic "drop: subtract with overflow"
      else .panic "drop: drain range"

/-- `StreamBufferT::append` on an unshared buffer  [C17-01] -/
def appendUnshared (b : Bytes) (p : PB) (bs : Bytes) : Bool × Bytes × PB :=
  let b1 := b.take p.stop                                -- b.truncate(self.end);
  (true, b1 ++ bs, { p with stop := p.stop + bs.length }) -- self.end += buf.len(); b.extend_from_slice(buf)

def step (s : Sys) (op : Op) : Res Out × Sys :=
  match op with
  | .new bs =>
    (.ok .created, { heap := s.heap ++ [bs],
                     views := s.views ++ [some { store := s.heap.length, start := 0, ofs := 0, stop := bs.length }] })
  | .view i st n =>
    match s.get i with
    | none => (.ok .noslot, s)
    | some p =>
      match restrictView p st n with
      | .ok v => (.ok .created, { s with views := s.views ++ [some v] })
      | .err e => (.err e, { s with views := s.views ++ [none] })
      | .panic x => (.panic x, s)
  | .viewFrom i st =>
    match s.get i with
    | none => (.ok .noslot, s)
    | some p =>
      match restrictViewFrom p st with
      | .ok v => (.ok .created, { s with views := s.views ++ [some v] })
      | .err e => (.err e, { s with views := s.views ++ [none] })
      | .panic x => (.panic x, s)
  | .release i =>
    match s.get i with
    | none => (.ok .noslot, s)
    | some _ => (.ok .unit, { s with views := s.views.set i none })
  | .meth i m =>
    match s.get i with
    | none => (.ok .noslot, s)
    | some p =>
      match s.heap[p.store]? with
      | none => (.panic "model: dangling store", s)
      | some b =>
        let (r, p') := run m b p
        (r, { s with views := s.views.set i (some p') })
  | .drop i n =>
    match s.get i with
    | none => (.ok .noslot, s)
    | some p =>
      if s.strong p.store ≠ 1 then (.ok (.bool false), s)     -- Rc::get_mut → None
      else
        match s.heap[p.store]? with
        | none => (.panic "model: dangling store", s)
        | some b =>
          match dropUnshared b p n with
          | .ok (r, b', p') =>
            (.ok (.bool r), { heap := s.heap.set p.store b', views := s.views.set i (some p') })
          | .err e => (.err e, s)
          | .panic x => (.panic x, s)
  | .append i bs =>
    match s.get i with
    | none => (.ok .noslot, s)
    | some p =>
      if s.strong p.store ≠ 1 then (.ok (.bool false), s)
      else
        match s.heap[p.store]? with
        | none => (.panic "model: dangling store", s)
        | some b =>
          let (r, b', p') := appendUnshared b p bs
          (.ok (.bool r), { heap := s.heap.set p.store b', views := s.views.set i (some p') })

def runOps (s : Sys) : List Op → List (Res Out) × Sys
  | [] => ([], s)
  | op :: ops =>
    let r := step s op
    if r.1.isPanic then ([r.1], r.2)
    else (r.1 :: (runOps r.2 ops).1, (runOps r.2 ops).2)

def Sys.init (bs : Bytes) : Sys :=
  { heap := [bs], views := [some { store := 0, start := 0, ofs := 0, stop := bs.length }] }

/-! ### The code before the C17 fixes (commit 666c934), kept for the witness theorems -/

/-- `set_cursor` as it was: `if self.start + ofs <= self.end` -/
def setCursorOrig (p : PB) (k : Nat) : Res Out × PB :=
  match uadd p.start k "set_cursor: add with overflow" with
  | .ok a => if a ≤ p.stop then (.ok .unit, { p with ofs := a }) else (.err .eob, p)
  | .err e => (.err e, p)
  | .panic s => (.panic s, p)

/-- `check_cursor` as it was: `self.start + ofs < self.end` -/
def checkCursorOrig (p : PB) (k : Nat) : Res Out × PB :=
  match uadd p.start k "check_cursor: add with overflow" with
  | .ok a => (.ok (.bool (decide (a < p.stop))), p)
  | .err e => (.err e, p)
  | .panic s => (.panic s, p)

/-- `set_cursor_unsafe` as it was: `assert!(self.start + ofs <= self.end)` -/
def setCursorUOrig (p : PB) (k : Nat) : Res Out × PB :=
  match uadd p.start k "set_cursor_unsafe: add with overflow" with
  | .ok a => if a ≤ p.stop then (.ok .unit, { p with ofs := a }) else (.panic "assert", p)
  | .err e => (.err e, p)
  | .panic s => (.panic s, p)

/-- `RestrictView::transform` as it was: `if self.start + self.size <= buf.size()` -/
def restrictViewOrig (p : PB) (s n : Nat) : Res PB :=
  match uadd s n "RestrictView: add with overflow", size p with
  | .ok sn, .ok sz => if sn ≤ sz then newView p s n else .err .bounds
  | .panic st, _ => .panic st
  | _, .panic st => .panic st
  | .err e, _ => .err e
  | _, .err e => .err e

/-- `drop` as it was: the whole `Vec` from `start+len` on is kept, `ofs -= len`, `end = b.len()` -/
def dropUnsharedOrig (b : Bytes) (p : PB) (len : Nat) : Res (Bool × Bytes × PB) :=
  match uadd p.start len "drop: add with overflow" with
  | .panic st => .panic st
  | .err e => .err e
  | .ok a =>
    if p.ofs < a then .ok (false, b, p)
    else if a ≤ b.length then                              -- b.split_off(self.start + len)
      let b' := b.drop a
      if len ≤ p.ofs then .ok (true, b', { p with start := 0, ofs := p.ofs - len, stop := b'.length })
      else .panic "drop: subtract with overflow"
    else .panic "split_off: at > len"

/-- `append` as it was: the bytes go to the end of the `Vec`, not to the end of the view -/
def appendUnsharedOrig (b : Bytes) (p : PB) (bs : Bytes) : Bool × Bytes × PB :=
  (true, b ++ bs, { p with stop := p.stop + bs.length })

/-- `ParseBufferT` as it was -/
def runOrig (m : Meth) (b : Bytes) (p : PB) : Res Out × PB :=
  match m with
  | .setCursor k => setCursorOrig p k
  | .checkCursor k => checkCursorOrig p k
  | .setCursorU k => setCursorUOrig p k
  | m => run m b p

/-- the system step over the pre-fix method bodies (driver tag `oops`) -/
def stepOrig (s : Sys) (op : Op) : Res Out × Sys :=
  match op with
  | .view i st n =>
    match s.get i with
    | none => (.ok .noslot, s)
    | some p =>
      match restrictViewOrig p st n with
      | .ok v => (.ok .created, { s with views := s.views ++ [some v] })
      | .err e => (.err e, { s with views := s.views ++ [none] })
      | .panic x => (.panic x, s)
  | .meth i m =>
    match s.get i with
    | none => (.ok .noslot, s)
    | some p =>
      match s.heap[p.store]? with
      | none => (.panic "model: dangling store", s)
      | some b =>
        let (r, p') := runOrig m b p
        (r, { s with views := s.views.set i (some p') })
  | .drop i n =>
    match s.get i with
    | none => (.ok .noslot, s)
    | some p =>
      if s.strong p.store ≠ 1 then (.ok (.bool false), s)
      else
        match s.heap[p.store]? with
        | none => (.panic "model: dangling store", s)
        | some b =>
          match dropUnsharedOrig b p n with
          | .ok (r, b', p') =>
            (.ok (.bool r), { heap := s.heap.set p.store b', views := s.views.set i (some p') })
          | .err e => (.err e, s)
          | .panic x => (.panic x, s)
  | .append i bs =>
    match s.get i with
    | none => (.ok .noslot, s)
    | some p =>
      if s.strong p.store ≠ 1 then (.ok (.bool false), s)
      else
        match s.heap[p.store]? with
        | none => (.panic "model: dangling store", s)
        | some b =>
          let (r, b', p') := appendUnsharedOrig b p bs
          (.ok (.bool r), { heap := s.heap.set p.store b', views := s.views.set i (some p') })
  | op => step s op

def runOpsOrig (s : Sys) : List Op → List (Res Out) × Sys
  | [] => ([], s)
  | op :: ops =>
    let r := stepOrig s op
    if r.1.isPanic then ([r.1], r.2)
    else (r.1 :: (runOpsOrig r.2 ops).1, (runOpsOrig r.2 ops).2)

end Parsley.Buffer
