/-
  Model of src/pcore/prim_combinators.rs (Sequence, Alternate, Star, Not) over
  src/pcore/prim_ascii.rs (AsciiCharPrimitive, AsciiChar) and the three buffer
  primitives they use (ParseBuffer::get_cursor / buf / set_cursor_unsafe,
  parse_prim / parse_guarded of src/pcore/parsebuffer.rs).

  Written line by line after the Rust, with the same exits:
    * every `buf.set_cursor_unsafe(x)` is `setCursor`, whose `assert!` is the
      outcome `panic "set_cursor_unsafe"`;
    * `buf.buf()` (= `&self.buf[self.ofs .. self.end]`) panics when the cursor is
      beyond the end;
    * the `while let Ok(o) = r` loop of `Star::parse` is `starLoop`, bounded by
      an explicit `fuel`; running out of fuel is the distinguished outcome
      `hang` (in Rust: an unbounded loop pushing onto `v`).  `Props/C18.lean`
      proves `run_fuel_sufficient`: `|s| - i + 1` iterations always suffice when
      star bodies consume, and the result does not depend on the fuel beyond that.
  The buffer is an unrestricted `ParseBuffer` (start = 0, end = |s|); views are C17.
  Uses only the expression *syntax* (`E`, `Guard`) of Spec/Peg.lean.
-/
import Parsley.Base.Basic
import Parsley.Spec.Peg
namespace Parsley.Comb
open Parsley Parsley.Peg

/-- The located value tree the composed parser returns:
    `LocatedVal<char>`, `LocatedVal<(T1,T2)>`, `LocatedVal<Alt<T1,T2>>`,
    `LocatedVal<Vec<T>>`, `LocatedVal<()>` – each with its `start end`. -/
inductive T where
  | ch (c : UInt8) (s e : Nat)
  | pair (a b : T) (s e : Nat)
  | left (a : T) (s e : Nat)
  | right (a : T) (s e : Nat)
  | list (l : List T) (s e : Nat)
  | unit (s e : Nat)
deriving Repr, Inhabited

def T.start : T → Nat
  | .ch _ s _ | .pair _ _ s _ | .left _ s _ | .right _ s _ | .list _ s _ | .unit s _ => s
def T.stop : T → Nat
  | .ch _ _ e | .pair _ _ _ e | .left _ _ e | .right _ _ e | .list _ _ e | .unit _ e => e

/-- Outcome of a modelled `parse` call. -/
inductive Out where
  | ok (v : T)
  | err (k : ErrK)
  | panic (site : String)
  | hang                       -- the `while` loop of `Star::parse` did not finish within `fuel`
deriving Repr, Inhabited

/-- `ParseBuffer::set_cursor_unsafe(ofs)`: `assert!(self.start + ofs <= self.end)`. -/
def setCursor (s : Bytes) (ofs : Nat) : Option Nat :=
  if ofs ≤ s.length then some ofs else none

/-- `buf.set_cursor_unsafe(start); return Err(err)` -/
def restore (s : Bytes) (start : Nat) (k : ErrK) (cur : Nat) : Out × Nat :=
  match setCursor s start with
  | some c => (.err k, c)
  | none => (.panic "set_cursor_unsafe", cur)

/-- `AsciiCharPrimitive::parse(buf: &[u8])`: value and bytes consumed. -/
def asciiPrim : Bytes → Except ErrK (UInt8 × Nat)
  | [] => .error .eob                                   -- buf.is_empty()
  | c :: _ =>
    if c.toNat ≥ 128 then .error .prim                   -- !c.is_ascii()
    else .ok (c, 1)

/-- `parse_prim::<AsciiCharPrimitive>` (guard = `any`) and
    `parse_guarded::<AsciiCharPrimitive>` (otherwise); returns `Out` of a
    childless `ch` whose span the caller fills in. -/
def parsePrim (g : Guard) (s : Bytes) (i : Nat) : Except (Out) UInt8 × Nat :=
  -- let start = buf.get_cursor();
  -- P::parse(buf.buf())?          buf() slices [ofs .. end]
  if i > s.length then (.error (.panic "buf-slice"), i) else
  match asciiPrim (s.drop i) with
  | .error k => (.error (.err k), i)
  | .ok (t, consumed) =>
    -- if !guard(&t) { return Err(GuardError) }        (no guard for parse_prim)
    if !(g.holds t) then (.error (.err .guard), i) else
    -- buf.set_cursor_unsafe(start + consumed)
    match setCursor s (i + consumed) with
    | some c => (.ok t, c)
    | none => (.error (.panic "set_cursor_unsafe"), i)

/-- `AsciiChar::parse` -/
def asciiChar (g : Guard) (s : Bytes) (i : Nat) : Out × Nat :=
  let start := i                                          -- buf.get_cursor()
  match parsePrim g s i with
  | (.error o, j) => (o, j)                               -- `?`
  | (.ok c, j) =>
    let stop := j                                          -- buf.get_cursor()
    (.ok (.ch c start stop), j)

/-- A *raw* single-byte operand (not part of the crate; defined in the harness as
    `RawChar`, with the crate's own `parse_prim::<AsciiCharPrimitive>`):
    ```
    let start = buf.get_cursor();
    let c = parse_prim::<AsciiCharPrimitive>(buf)?;      // consumes the byte
    if !guard(&c) { return Err(GuardError) }              // … and does not give it back
    Ok(LocatedVal::new(c, start, buf.get_cursor()))
    ```
    It has the cursor discipline of the crate's hand-written parsers that do not restore on
    failure, and exists so that the restores done by the combinators themselves are observable. -/
def rawChar (g : Guard) (s : Bytes) (i : Nat) : Out × Nat :=
  let start := i
  match parsePrim .any s i with
  | (.error o, j) => (o, j)
  | (.ok c, j) =>
    if !(g.holds c) then (.err .guard, j)
    else (.ok (.ch c start j), j)

/-- The loop of `Star::parse`.  State: `c` (cursor after the last success),
    `v` (values so far), `(r, cur)` (result of the latest body parse and the
    buffer cursor after it).  `p j` runs the body at cursor `j`. -/
def starLoop (p : Nat → Out × Nat) (s : Bytes) (start : Nat) :
    Nat → Nat → List T → Out × Nat → Out × Nat
  | 0, _, _, (_, cur) => (.hang, cur)
  | fuel + 1, c, v, (r, cur) =>
    match r with
    | .ok o =>                                             -- while let Ok(o) = r {
      let v := v ++ [o]                                    --   v.push(o);
      let c := cur                                         --   c = buf.get_cursor();
      starLoop p s start fuel c v (p cur)                  --   r = self.p.parse(buf) }
    | .err _ =>
      match setCursor s c with                             -- buf.set_cursor_unsafe(c);
      | some c' => (.ok (.list v start c), c')             -- Ok(LocatedVal::new(v, start, end = c))
      | none => (.panic "set_cursor_unsafe", cur)
    | .panic st => (.panic st, cur)                        -- unwinding
    | .hang => (.hang, cur)

/-- `ParsleyParser::parse` of the parser built from `e`, at cursor `i` of buffer `s`.
    Returns the outcome and the buffer cursor afterwards. -/
def run : E → Nat → Bytes → Nat → Out × Nat
  | .chr g false, _, s, i => asciiChar g s i
  | .chr g true, _, s, i => rawChar g s i
  | .seq a b, fuel, s, i =>                                -- Sequence::parse
    let start := i                                         -- buf.get_cursor()
    match run a fuel s i with                              -- self.p1.parse(buf)
    | (.err k, cur) => restore s start k cur               -- set_cursor_unsafe(start); return Err(err)
    | (.panic st, cur) => (.panic st, cur)
    | (.hang, cur) => (.hang, cur)
    | (.ok o1, cur) =>
      match run b fuel s cur with                          -- self.p2.parse(buf)
      | (.err k, cur) => restore s start k cur
      | (.panic st, cur) => (.panic st, cur)
      | (.hang, cur) => (.hang, cur)
      | (.ok o2, cur) =>
        let stop := cur                                    -- buf.get_cursor()
        (.ok (.pair o1 o2 start stop), cur)
  | .alt a b, fuel, s, i =>                                -- Alternate::parse
    let start := i
    match run a fuel s i with
    | (.ok o, cur) => (.ok (.left o start cur), cur)       -- end = get_cursor(); Ok(Alt::Left(o))
    | (.panic st, cur) => (.panic st, cur)
    | (.hang, cur) => (.hang, cur)
    | (.err _, cur) =>
      match setCursor s start with                         -- buf.set_cursor_unsafe(start)
      | none => (.panic "set_cursor_unsafe", cur)
      | some c =>
        match run b fuel s c with                          -- self.p2.parse(buf)
        | (.err k, cur) => restore s start k cur
        | (.panic st, cur) => (.panic st, cur)
        | (.hang, cur) => (.hang, cur)
        | (.ok o2, cur) => (.ok (.right o2 start cur), cur)
  | .star a, fuel, s, i =>                                 -- Star::parse
    -- start = get_cursor(); c = start; v = Vec::new(); r = self.p.parse(buf)
    starLoop (fun j => run a fuel s j) s i fuel i [] (run a fuel s i)
  | .not a, fuel, s, i =>                                  -- Not::parse
    let start := i
    match run a fuel s i with
    | (.panic st, cur) => (.panic st, cur)
    | (.hang, cur) => (.hang, cur)
    | (r, cur) =>
      -- end = get_cursor(); set_cursor_unsafe(start)
      match setCursor s start with
      | none => (.panic "set_cursor_unsafe", cur)
      | some c =>
        match r with
        | .ok _ => (.err .guard, c)                        -- Err(GuardError("not"))
        | _ => (.ok (.unit start start), c)                -- Ok(LocatedVal::new((), start, start))

/-- The fuel the driver uses: one loop test per remaining byte, plus the failing one. -/
def fuelFor (s : Bytes) (i : Nat) : Nat := s.length - i + 1

/-! ### Span-free structure and span discipline of a value tree -/

mutual
/-- forget the locations -/
def T.shape : T → Shape
  | .ch c _ _ => .ch c
  | .pair a b _ _ => .pair a.shape b.shape
  | .left a _ _ => .left a.shape
  | .right a _ _ => .right a.shape
  | .list l _ _ => .list (shapes l)
  | .unit _ _ => .unit
def shapes : List T → List Shape
  | [] => []
  | t :: ts => t.shape :: shapes ts
end

mutual
/-- Spans nest consistently with the structure: a character covers one byte, the
    two parts of a pair tile the pair's span in order, an alternative's value has
    the alternative's span, the elements of a repetition tile its span in order,
    a negation's span is empty. -/
def T.nest : T → Bool
  | .ch _ s e => e == s + 1
  | .pair a b s e => a.nest && b.nest && a.start == s && a.stop == b.start && b.stop == e
  | .left a s e => a.nest && a.start == s && a.stop == e
  | .right a s e => a.nest && a.start == s && a.stop == e
  | .list l s e => tiles l s e
  | .unit s e => e == s
/-- `l` is a chain of nested values covering exactly `[from, to)` -/
def tiles : List T → Nat → Nat → Bool
  | [], s, e => e == s
  | t :: ts, s, e => t.nest && t.start == s && tiles ts t.stop e
end

end Parsley.Comb
