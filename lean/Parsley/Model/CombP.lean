/-
  Generic model of src/pcore/prim_combinators.rs: `Sequence`, `Alternate`, `Star`, `Not` as
  higher-order functions over ARBITRARY component parsers (`P α`), plus `AsciiChar` of
  src/pcore/prim_ascii.rs as a component in the same style.

  Model/Comb.lean (C18) interprets a closed expression language over single-byte operands; here
  the components are parameters, exactly as the Rust structs are generic in `P1 P2 : ParsleyParser`.
  Written line by line after the Rust, with the same exits:
    * every `buf.set_cursor_unsafe(x)` is `setCursor`, whose `assert!` is the outcome
      `panic "set_cursor_unsafe"`;
    * a component that panics unwinds through the combinator (the cursor stays where it was);
    * the `while let Ok(o) = r` loop of `Star::parse` is `starLoop`, bounded by an explicit fuel of
      `remaining + 1` loop tests; running out of fuel (in Rust: an unbounded loop pushing onto `v`
      when the body succeeds without consuming) is the outcome `panic "star: unbounded loop"`.
      Lemmas/ReparseComb.lean proves that the fuel is never exhausted when the body consumes
      (`starP_iter`).
  The values keep the nested located values of the components
  (`LocatedVal<(P1::T, P2::T)>`, `LocatedVal<Alt<P1::T, P2::T>>`, `LocatedVal<Vec<P::T>>`).
  Import-free apart from Base (core Lean only).
-/
import Parsley.Base.Basic
namespace Parsley.CombP
open Parsley

/-- `enum Alt<T1, T2> { Left(T1), Right(T2) }` -/
inductive Alt (α β : Type) where
  | left (a : α)
  | right (b : β)
deriving Repr, DecidableEq

/-- `ParseBuffer::set_cursor_unsafe(ofs)`: `assert!(self.start + ofs <= self.end)`. -/
def setCursor (s : Bytes) (ofs : Nat) : Option Nat :=
  if ofs ≤ s.length then some ofs else none

/-- `buf.set_cursor_unsafe(start); return Err(err)` -/
def restore {α : Type} (s : Bytes) (start : Nat) (k : ErrK) (cur : Nat) : Res (Located α) × Nat :=
  match setCursor s start with
  | some c => (.err k, c)
  | none => (.panic "set_cursor_unsafe", cur)

/-- `Sequence::parse` -/
def seqP {α β : Type} (p1 : P α) (p2 : P β) : P (Located α × Located β) := fun s i =>
  let start := i                                           -- buf.get_cursor()
  match p1 s i with                                        -- self.p1.parse(buf)
  | (.err k, cur) => restore s start k cur                 -- set_cursor_unsafe(start); return Err(err)
  | (.panic st, cur) => (.panic st, cur)
  | (.ok o1, cur) =>
    match p2 s cur with                                    -- self.p2.parse(buf)
    | (.err k, cur) => restore s start k cur
    | (.panic st, cur) => (.panic st, cur)
    | (.ok o2, cur) =>
      let stop := cur                                      -- buf.get_cursor()
      (.ok ⟨(o1, o2), start, stop⟩, cur)

/-- `Alternate::parse` -/
def altP {α β : Type} (p1 : P α) (p2 : P β) : P (Alt (Located α) (Located β)) := fun s i =>
  let start := i
  match p1 s i with
  | (.ok o, cur) => (.ok ⟨.left o, start, cur⟩, cur)       -- end = get_cursor(); Ok(Alt::Left(o))
  | (.panic st, cur) => (.panic st, cur)
  | (.err _, cur) =>
    match setCursor s start with                           -- buf.set_cursor_unsafe(start)
    | none => (.panic "set_cursor_unsafe", cur)
    | some c =>
      match p2 s c with                                    -- self.p2.parse(buf)
      | (.err k, cur) => restore s start k cur
      | (.panic st, cur) => (.panic st, cur)
      | (.ok o2, cur) => (.ok ⟨.right o2, start, cur⟩, cur)

/-- The loop of `Star::parse`.  `c` is the cursor after the last success (= the buffer cursor at
    which the body runs next), `v` the values pushed so far. -/
def starLoop {α : Type} (p : P α) (s : Bytes) (start : Nat) :
    Nat → Nat → List (Located α) → Res (Located (List (Located α))) × Nat
  | 0, c, _ => (.panic "star: unbounded loop", c)
  | fuel + 1, c, v =>
    match p s c with                                       -- r = self.p.parse(buf)
    | (.ok o, cur) =>                                      -- while let Ok(o) = r {
      starLoop p s start fuel cur (v ++ [o])               --   v.push(o); c = buf.get_cursor() }
    | (.err _, cur) =>
      match setCursor s c with                             -- buf.set_cursor_unsafe(c)
      | some c' => (.ok ⟨v, start, c⟩, c')                 -- Ok(LocatedVal::new(v, start, end = c))
      | none => (.panic "set_cursor_unsafe", cur)
    | (.panic st, cur) => (.panic st, cur)

/-- `Star::parse` -/
def starP {α : Type} (p : P α) : P (List (Located α)) := fun s i =>
  starLoop p s i (s.length - i + 1) i []

/-- `Not::parse` -/
def notP {α : Type} (p : P α) : P Unit := fun s i =>
  let start := i
  match p s i with
  | (.panic st, cur) => (.panic st, cur)
  | (r, cur) =>
    match setCursor s start with                           -- end = get_cursor(); set_cursor_unsafe(start)
    | none => (.panic "set_cursor_unsafe", cur)
    | some c =>
      match r with
      | .ok _ => (.err .guard, c)                          -- Err(GuardError("not"))
      | _ => (.ok ⟨(), start, start⟩, c)                   -- Ok(LocatedVal::new((), start, start))

/-- `match &mut self.guard { None => parse_prim(..), Some(b) => parse_guarded(.., b) }`: does the
    guard (if any) let the character through? -/
def guardPass (guard : Option (UInt8 → Bool)) (c : UInt8) : Bool :=
  match guard with
  | none => true
  | some g => g c

/-- `AsciiChar::parse` over `parse_prim::<AsciiCharPrimitive>` (`guard = none`) /
    `parse_guarded::<AsciiCharPrimitive>` (`guard = some g`). -/
def chrP (guard : Option (UInt8 → Bool)) : P UInt8 := fun s i =>
  let start := i                                           -- buf.get_cursor()
  if i > s.length then (.panic "buf-slice", i) else        -- buf.buf() = &self.buf[self.ofs .. self.end]
  match s.drop i with
  | [] => (.err .eob, i)                                   -- buf.is_empty()
  | c :: _ =>
    if c.toNat ≥ 128 then (.err .prim, i)                  -- !c.is_ascii()
    else
      if !(guardPass guard c) then (.err .guard, i)                       -- GuardError, cursor untouched
      else
        match setCursor s (start + 1) with                 -- buf.set_cursor_unsafe(start + consumed)
        | some e => (.ok ⟨c, start, e⟩, e)                 -- LocatedVal::new(c, start, buf.get_cursor())
        | none => (.panic "set_cursor_unsafe", i)

end Parsley.CombP
