/-
  Executable model of the content-stream text extractor
      src/pdf_lib/pdf_content_streams.rs   (CSObjP 53-141, TextExtractor::parse_internal 212-447)
  and of the token parsers it calls
      src/pdf_lib/pdf_prim.rs   WhitespaceEOL, Comment, IntegerP, RealP, HexString,
                                RawLiteralString, NameP, OperatorP, Boolean, Null
      src/pdf_lib/pdf_obj.rs    ArrayP, DictP, ReferenceP, PDFObjP, parse_pdf_obj
  Import-free apart from Base and the regenerated operator table.

  Mirrors /repo at c253761 (incl. the C02/C15 fixes to `PDFObjP`/`IntegerP`: explicit `+`,
  `R` must end its token, `IntegerP` needs a digit) PLUS the pending fixes C12-01..04
  (q/Q rows; TJ operand count; Tj ' " operand kinds by position; stream may end at an operator
  boundary).  Line numbers in comments refer to pdf_content_streams.rs before C12-02..04.

  Conventions
  * The buffer is an unrestricted `ParseBuffer`; the cursor is represented by the
    *remaining input* (`cursor = len(buf) - len(rest)`), so "result and cursor afterwards"
    is `Res (α × Bytes)`.  The extractor turns every token-parser failure into an
    immediate `Err(GuardError)` (lines 227-241), so the cursor after a failure is never
    read again; the few places where the Rust code *continues* after a failed sub-parser
    (the `n g R` look-ahead in `PDFObjP`, `exact("]")`, `exact(">>")`) restore the cursor
    explicitly in Rust and are modelled with the restored remaining input.
  * Observable result of `extract`: the token list, or `err` (kind/message/location are
    not property-level; in fact every error of `parse_internal` is a `GuardError`).
  * Loops over the input (`WhitespaceEOL`, `parse_allowed_bytes`, `parse_bytes_until`,
    the literal-string scanner, the hex-escape normaliser) are structural recursions over
    the remaining bytes.  The object parser (arrays/dictionaries nest) and the extractor
    loop take a `fuel`; every unit of fuel is paid for by at least half a consumed byte,
    `extract` supplies `2*len+2` resp. `len+1`, and running out is the explicit outcome
    `panic "fuel"` (proved unreachable on the domain of the theorems).
  * Rust partial operations on this path: `int_of_hex`'s `assert!` (argument is always a
    hex digit: filtered by `parse_allowed_bytes`), `RealT::numerator().unwrap()` (guarded
    by `is_integer`), `IntegerT::usize_val().unwrap()` (guarded by the sign test in
    `ReferenceP`), `leave_obj`'s `assert!` (always after a successful `enter_obj`),
    `panic!("unexpected lit string")` (dead: `parse_bytes_until` stops only at the three
    bytes matched before it), `nested_compats += 1` (needs 2^64 `BX`).  They are modelled
    at the point where the guard is evaluated, as `panic` outcomes where the guard could
    fail in the model's own terms (`numerator`, `usize_val`), and are otherwise dead code.
-/
import Parsley.Base.Basic
import Parsley.Model.OpTypes
import Parsley.Gen.Operators
namespace Parsley.Content

/-! ## byte classes -/

/-- `b" \0\t\r\n\x0c"` -/
def isWs (b : UInt8) : Bool := b == 32 || b == 0 || b == 9 || b == 13 || b == 10 || b == 12

/-- terminators of `NameP`/`OperatorP`: `b" \0\t\r\n\x0c()<>[]{}/%"` -/
def isDelim (b : UInt8) : Bool :=
  isWs b || b == 40 || b == 41 || b == 60 || b == 62 || b == 91 || b == 93 || b == 123 || b == 125
    || b == 47 || b == 37

def isDigit (b : UInt8) : Bool := 48 ≤ b && b ≤ 57

/-- `u8::is_ascii_hexdigit` -/
def isHexDigit (b : UInt8) : Bool := isDigit b || (97 ≤ b && b ≤ 102) || (65 ≤ b && b ≤ 70)

/-! ## WhitespaceEOL (empty_ok) and Comment

`WhitespaceEOL::parse`: loop { consume `" \0\t\r\n\x0c"`*; if at `%` consume the comment
(up to and including `\n`, or to the end of the buffer) and loop again }.  One automaton
with a flag "inside a comment".  Never fails with `empty_ok = true`. -/
def skipWsAux : Bool → Bytes → Bytes
  | _, [] => []
  | true, b :: t => if b == 10 then skipWsAux false t else skipWsAux true t
  | false, b :: t =>
    if isWs b then skipWsAux false t else if b == 37 then skipWsAux true t else b :: t

def skipWs (s : Bytes) : Bytes := skipWsAux false s

/-- `Comment::parse` after the `%`: up to and including the next `\n` (or to the end). -/
def commentRest (t : Bytes) : Bytes :=
  match t.dropWhile (fun b => b != 10) with
  | _ :: r => r
  | [] => []

/-- `WhitespaceEOL::new(false)`: fails iff nothing (neither whitespace nor a comment) was consumed. -/
def wsNonEmpty (s : Bytes) : Option Bytes :=
  let r := skipWs s
  if r.length == s.length then none else some r

/-- `buf.exact(tag)`: on success the rest after the tag. -/
def exact : Bytes → Bytes → Option Bytes
  | [], s => some s
  | _ :: _, [] => none
  | t :: ts, b :: s => if t == b then exact ts s else none

/-! ## numbers -/

def i64Max : Nat := 2 ^ 63 - 1
def i128Max : Nat := 2 ^ 127 - 1

/-- the digit loops of `IntegerP`/`RealP`: `checked_mul(num,10)` then `checked_add(.., c-48)`;
    `lim` is the `MAX` of the integer type; the accumulator is non-negative throughout.
    Also returns `den` for the fractional loop (`den` is multiplied by 10 per digit, checked). -/
def accDigits (lim : Nat) : Nat → Bytes → Option Nat
  | n, [] => some n
  | n, c :: cs =>
    if n * 10 > lim then none
    else if n * 10 + (c.toNat - 48) > lim then none
    else accDigits lim (n * 10 + (c.toNat - 48)) cs

def accFrac (lim : Nat) : Nat → Nat → Bytes → Option (Nat × Nat)
  | n, d, [] => some (n, d)
  | n, d, c :: cs =>
    if n * 10 > lim then none
    else if n * 10 + (c.toNat - 48) > lim then none
    else if d * 10 > lim then none
    else accFrac lim (n * 10 + (c.toNat - 48)) (d * 10) cs

/-- optional sign: `-` sets minus, `+` is consumed. -/
def signP : Bytes → Bool × Bytes
  | 45 :: t => (true, t)
  | 43 :: t => (false, t)
  | s => (false, s)

def applySign (minus : Bool) (n : Nat) : Int := if minus then -(Int.ofNat n) else Int.ofNat n

/-- `IntegerP::parse` (pdf_prim.rs; an empty digit string is an error). -/
def integerP (s : Bytes) : Res (Int × Bytes) :=
  let (minus, s1) := signP s
  let ds := s1.takeWhile isDigit
  let r := s1.dropWhile isDigit
  if ds.isEmpty then .err .guard
  else match accDigits i64Max 0 ds with
    | none => .err .guard
    | some n => .ok (applySign minus n, r)

/-- `RealP::parse` (pdf_prim.rs 287-371): value as (numerator, denominator). -/
def realP (s : Bytes) : Res ((Int × Nat) × Bytes) :=
  let (minus, s1) := signP s
  let ds := s1.takeWhile isDigit
  let r := s1.dropWhile isDigit
  if ds.isEmpty && r.head? != some 46 then .err .guard
  else match accDigits i128Max 0 ds with
    | none => .err .guard
    | some n =>
      match r with
      | 46 :: r1 =>
        let fs := r1.takeWhile isDigit
        let r2 := r1.dropWhile isDigit
        match accFrac i128Max n 1 fs with
        | none => .err .guard
        | some (n', d) => .ok ((applySign minus n', d), r2)
      | _ => .ok ((applySign minus n, 1), r)

/-- `RealT::is_integer`: numerator fits `i64` and denominator is 1. -/
def realIsInteger (v : Int × Nat) : Bool :=
  decide (-(2 ^ 63 : Int) ≤ v.1) && decide (v.1 ≤ (2 ^ 63 - 1 : Int)) && v.2 == 1

/-! ## strings -/

/-- `int_of_hex` on a byte known to be a hex digit. -/
def hexVal (b : UInt8) : UInt8 :=
  if isDigit b then b - 48 else if 97 ≤ b && b ≤ 102 then b - 97 + 10 else b - 65 + 10

def hexPairs : Bytes → Bytes
  | a :: b :: t => (16 * hexVal a + hexVal b) :: hexPairs t
  | _ => []

/-- `HexString::parse` positioned at `<` (pdf_prim.rs 392-430). -/
def hexStringP : Bytes → Res (Bytes × Bytes)
  | 60 :: t =>
    let ok := fun b => isHexDigit b || isWs b
    let body := t.takeWhile ok
    match t.dropWhile ok with
    | 62 :: r =>
      let hx := body.filter (fun b => !isWs b)
      let hx := if hx.length % 2 != 0 then hx ++ [48] else hx
      .ok (hexPairs hx, r)
    | _ => .err .guard
  | _ => .err .guard

/-- the scanner loop of `RawLiteralString::parse` after the opening `(`.
    `depth` is the Rust `depth`; `esc` is "last_slash == Some(cursor-1)" (a stale `last_slash`
    behaves exactly like `None` in every arm).  Returns content (without the closing paren). -/
def litLoop : Nat → Bool → Bytes → Res (Bytes × Bytes)
  | _, _, [] => .err .eob
  | d, esc, b :: t =>
    if b == 40 then
      -- '(' : escaped → literal; else depth += 1
      match litLoop (if esc then d else d + 1) false t with
      | .ok (v, r) => .ok (b :: v, r) | .err k => .err k | .panic p => .panic p
    else if b == 41 then
      if esc then
        match litLoop d false t with
        | .ok (v, r) => .ok (b :: v, r) | .err k => .err k | .panic p => .panic p
      else if d - 1 == 0 then .ok ([], t)
      else
        match litLoop (d - 1) false t with
        | .ok (v, r) => .ok (b :: v, r) | .err k => .err k | .panic p => .panic p
    else if b == 92 then
      match litLoop d (!esc) t with
      | .ok (v, r) => .ok (b :: v, r) | .err k => .err k | .panic p => .panic p
    else
      match litLoop d false t with
      | .ok (v, r) => .ok (b :: v, r) | .err k => .err k | .panic p => .panic p

/-- `RawLiteralString::parse` positioned at `(`. -/
def litStringP : Bytes → Res (Bytes × Bytes)
  | 40 :: t => litLoop 1 false t
  | _ => .err .guard

/-! ## names and operators -/

def toLowerAscii (b : UInt8) : UInt8 := if 65 ≤ b && b ≤ 90 then b + 32 else b

/-- the local `from_hex` applied to a lower-cased hex digit -/
def fromHexLower (b : UInt8) : UInt8 := if isDigit b then b - 48 else b - 97 + 10

/-- the `windows(3)` normaliser shared by `NameP` and `OperatorP` (pdf_prim.rs 599-657):
    `#hh` becomes the byte `hh` (error if zero), everything else is copied; spans shorter than
    three bytes are returned unchanged. -/
def normHex : Bytes → Res Bytes
  | a :: t@(b :: c :: rest) =>
    if a == 35 && isHexDigit b && isHexDigit c then
      let ch := 16 * fromHexLower (toLowerAscii b) + fromHexLower (toLowerAscii c)
      if ch == 0 then .err .guard
      else match normHex rest with
        | .ok v => .ok (ch :: v) | .err k => .err k | .panic p => .panic p
    else match normHex t with
      | .ok v => .ok (a :: v) | .err k => .err k | .panic p => .panic p
  | short => .ok short

/-- `NameP::parse` positioned at `/`. -/
def nameP : Bytes → Res (Bytes × Bytes)
  | 47 :: t =>
    match normHex (t.takeWhile (fun b => !isDelim b)) with
    | .ok v => .ok (v, t.dropWhile (fun b => !isDelim b))
    | .err k => .err k | .panic p => .panic p
  | _ => .err .guard

def isCont (b : UInt8) : Bool := 0x80 ≤ b && b ≤ 0xBF

/-- `std::str::from_utf8(..).is_ok()` -/
def validUtf8 : Bytes → Bool
  | [] => true
  | b0 :: t =>
    if b0 < 0x80 then validUtf8 t
    else if 0xC2 ≤ b0 && b0 ≤ 0xDF then
      match t with
      | b1 :: t1 => isCont b1 && validUtf8 t1
      | _ => false
    else if 0xE0 ≤ b0 && b0 ≤ 0xEF then
      match t with
      | b1 :: b2 :: t2 =>
        (if b0 == 0xE0 then 0xA0 ≤ b1 && b1 ≤ 0xBF
         else if b0 == 0xED then 0x80 ≤ b1 && b1 ≤ 0x9F else isCont b1)
        && isCont b2 && validUtf8 t2
      | _ => false
    else if 0xF0 ≤ b0 && b0 ≤ 0xF4 then
      match t with
      | b1 :: b2 :: b3 :: t3 =>
        (if b0 == 0xF0 then 0x90 ≤ b1 && b1 ≤ 0xBF
         else if b0 == 0xF4 then 0x80 ≤ b1 && b1 ≤ 0x8F else isCont b1)
        && isCont b2 && isCont b3 && validUtf8 t3
      | _ => false
    else false

/-- `OperatorP::parse`: the (normalised, UTF-8) operator name. -/
def operatorP (s : Bytes) : Res (Bytes × Bytes) :=
  let span := s.takeWhile (fun b => !isDelim b)
  if span.isEmpty then .err .guard
  else match normHex span with
    | .ok v => if validUtf8 v then .ok (v, s.dropWhile (fun b => !isDelim b)) else .err .guard
    | .err k => .err k | .panic p => .panic p

/-! ## objects -/

/-- `PDFObjT` as far as this parser can produce it (no streams, no comment objects: the
    whitespace parser in front of every object consumes comments).  Dictionaries keep their
    entries in insertion order (the extractor never looks inside a dictionary). -/
inductive Obj where
  | arr (l : List Obj)
  | dict (l : List (Bytes × Obj))
  | ref (n g : Nat)
  | bool (b : Bool)
  | str (b : Bytes)
  | name (b : Bytes)
  | null
  | int (i : Int)
  | real (n : Int) (d : Nat)
deriving Inhabited

def Obj.isNull : Obj → Bool | .null => true | _ => false

/-- `ReferenceP::parse` (pdf_obj.rs 423-463). -/
def referenceP (s : Bytes) : Res (Obj × Bytes) :=
  match integerP s with
  | .err k => .err k | .panic p => .panic p
  | .ok (num, r1) =>
    if num < 0 then .err .guard
    else
      match integerP (skipWs r1) with
      | .err k => .err k | .panic p => .panic p
      | .ok (gen, r3) =>
        if gen < 0 then .err .guard
        else match exact [82] (skipWs r3) with
          | none => .err .guard
          | some r5 => .ok (.ref num.toNat gen.toNat, r5)

/-- the number / indirect-reference arm of `PDFObjP::parse_internal` (pdf_obj.rs 565-641). -/
def numOrRefP (s : Bytes) : Res (Obj × Bytes) :=
  match realP s with
  | .err k => .err k | .panic p => .panic p
  | .ok (v, r1) =>
    if !realIsInteger v then .ok (.real v.1 v.2, r1)
    else
      let n1 := Obj.int v.1
      match wsNonEmpty r1 with
      | none => .ok (n1, r1)
      | some r2 =>
        match integerP r2 with
        | .err _ => .ok (n1, r1)
        | .panic p => .panic p
        | .ok (_, r3) =>
          match wsNonEmpty r3 with
          | none => .ok (n1, r1)
          | some r4 =>
            -- `check_prefix(b"R")`, and the keyword has to end its token
            let atRef := match r4 with
              | 82 :: [] => true
              | 82 :: c :: _ => isDelim c
              | _ => false
            if atRef then referenceP s else .ok (n1, r1)

mutual
/-- `parse_pdf_obj` (depth wrapper, `budget = max_depth - cur_depth`) followed by
    `PDFObjP::parse` (leading whitespace, then `parse_internal`). -/
def pdfObjP : Nat → Nat → Bytes → Res (Obj × Bytes)
  | 0, _, _ => .panic "fuel"
  | _ + 1, 0, _ => .err .guard            -- "max recursion bound exceeded"
  | fuel + 1, budget + 1, s0 =>
    match skipWs s0 with
    | [] => .err .eob
    | b :: t =>
      let s := b :: t
      if b == 116 || b == 102 then
        match exact [116, 114, 117, 101] s with
        | some r => .ok (.bool true, r)
        | none => match exact [102, 97, 108, 115, 101] s with
          | some r => .ok (.bool false, r)
          | none => .err .guard
      else if b == 110 then
        match exact [110, 117, 108, 108] s with
        | some r => .ok (.null, r)
        | none => .err .guard
      else if b == 40 then
        match litStringP s with
        | .ok (v, r) => .ok (.str v, r) | .err k => .err k | .panic p => .panic p
      else if b == 47 then
        match nameP s with
        | .ok (v, r) => .ok (.name v, r) | .err k => .err k | .panic p => .panic p
      else if b == 91 then
        match arrLoopP fuel budget t with
        | .ok (l, r) => .ok (.arr l, r) | .err k => .err k | .panic p => .panic p
      else if b == 60 then
        if t.head? == some 60 then
          match dictLoopP fuel budget [] (t.drop 1) with
          | .ok (l, r) => .ok (.dict l, r) | .err k => .err k | .panic p => .panic p
        else
          match hexStringP s with
          | .ok (v, r) => .ok (.str v, r) | .err k => .err k | .panic p => .panic p
      else if isDigit b || b == 45 || b == 46 || b == 43 then numOrRefP s
      else .err .guard                     -- "not at PDF object"

/-- the `while !end` loop of `ArrayP::parse` after the opening bracket. -/
def arrLoopP : Nat → Nat → Bytes → Res (List Obj × Bytes)
  | 0, _, _ => .panic "fuel"
  | fuel + 1, budget, s0 =>
    let s := skipWs s0
    match exact [93] s with
    | some r => .ok ([], r)
    | none =>
      match pdfObjP fuel budget s with
      | .err k => .err k | .panic p => .panic p
      | .ok (o, r) =>
        match arrLoopP fuel budget r with
        | .ok (l, r') => .ok (o :: l, r') | .err k => .err k | .panic p => .panic p

/-- the `while !end` loop of `DictP::parse` after `<<`; `keys` = the `names` set
    (keys of the entries kept so far; entries with a `null` value are dropped and
    their key is not recorded). -/
def dictLoopP : Nat → Nat → List Bytes → Bytes → Res (List (Bytes × Obj) × Bytes)
  | 0, _, _, _ => .panic "fuel"
  | fuel + 1, budget, keys, s0 =>
    let s := skipWs s0
    match exact [62, 62] s with
    | some r => .ok ([], r)
    | none =>
      match nameP s with
      | .err k => .err k | .panic p => .panic p
      | .ok (key, r1) =>
        if keys.contains key then .err .guard
        else
          match pdfObjP fuel budget (skipWs r1) with
          | .err k => .err k | .panic p => .panic p
          | .ok (o, r2) =>
            if o.isNull then dictLoopP fuel budget keys r2
            else match dictLoopP fuel budget (key :: keys) r2 with
              | .ok (l, r') => .ok ((key, o) :: l, r') | .err k => .err k | .panic p => .panic p
end

/-- `CSObjT` -/
inductive CSObj where
  | op (name : Bytes)
  | comment
  | val (o : Obj)
deriving Inhabited

/-- `CSObjP::parse`: leading whitespace, then `parse_internal` (lines 53-141).
    `fuel` is for the nested object parser only; `maxDepth` is `PDFObjContext::max_depth`
    (the context's `cur_depth` is 0 between tokens). -/
def csObjP (maxDepth fuel : Nat) (s0 : Bytes) : Res (CSObj × Bytes) :=
  match skipWs s0 with
  | [] => .err .eob
  | b :: t =>
    let s := b :: t
    if b == 40 then
      match litStringP s with
      | .ok (v, r) => .ok (.val (.str v), r) | .err k => .err k | .panic p => .panic p
    else if b == 37 then
      -- unreachable after `skipWs` (a `%` is consumed as whitespace); kept because the code has it
      .ok (.comment, commentRest t)
    else if b == 47 then
      match nameP s with
      | .ok (v, r) => .ok (.val (.name v), r) | .err k => .err k | .panic p => .panic p
    else if b == 91 then
      match arrLoopP fuel maxDepth t with
      | .ok (l, r) => .ok (.val (.arr l), r) | .err k => .err k | .panic p => .panic p
    else if b == 60 then
      if t.head? == some 60 then
        match dictLoopP fuel maxDepth [] (t.drop 1) with
        | .ok (l, r) => .ok (.val (.dict l), r) | .err k => .err k | .panic p => .panic p
      else
        match hexStringP s with
        | .ok (v, r) => .ok (.val (.str v), r) | .err k => .err k | .panic p => .panic p
    else if isDigit b || b == 45 || b == 46 then
      match realP s with
      | .err k => .err k | .panic p => .panic p
      | .ok (v, r) =>
        if !realIsInteger v then .ok (.val (.real v.1 v.2), r)
        else .ok (.val (.int v.1), r)
    else
      match operatorP s with
      | .err k => .err k | .panic p => .panic p
      | .ok (n, r) =>
        if n == [116, 114, 117, 101] then .ok (.val (.bool true), r)
        else if n == [102, 97, 108, 115, 101] then .ok (.val (.bool false), r)
        else if n == [110, 117, 108, 108] then .ok (.val .null, r)
        else .ok (.op n, r)

/-! ## the extractor -/

/-- `ParserState` -/
inductive PState where
  | content | text | path | clipping | inlineImage
deriving DecidableEq, Repr, Inhabited

/-- `opinfo`: a `BTreeMap` filled by inserting the rows of `OPERATORS` in order
    (a later duplicate would overwrite an earlier one). -/
def opinfo (name : Bytes) : Option (OpType × List ArgType) :=
  match Gen.operators.reverse.find? (fun r => r.1 == name) with
  | some r => some r.2
  | none => none

def opBT : Bytes := [66, 84]
def opET : Bytes := [69, 84]
def opM : Bytes := [109]
def opRe : Bytes := [114, 101]
def opBI : Bytes := [66, 73]
def opID : Bytes := [73, 68]
def opEI : Bytes := [69, 73]
def opTj : Bytes := [84, 106]
def opTJ : Bytes := [84, 74]
def opQuote : Bytes := [39]
def opDQuote : Bytes := [34]
def opTd : Bytes := [84, 100]
def opTD : Bytes := [84, 68]
def opTstar : Bytes := [84, 42]
def opBX : Bytes := [66, 88]
def opEX : Bytes := [69, 88]

/-- the transition `match` (lines 271-328); `none` = "unexpected operator in state". -/
def nextState (st : PState) (ty : OpType) (name : Bytes) : Option PState :=
  match st with
  | .content =>
    match ty with
    | .generalGraphics | .specialGraphics | .color | .textState | .markedContent | .compat
    | .shading | .xObject => some .content
    | .textObject => if name == opBT then some .text else none
    | .pathConstruction => if name == opM || name == opRe then some .path else none
    | .inlineImage => if name == opBI then some .inlineImage else none
    | _ => none
  | .path =>
    match ty with
    | .pathConstruction => some .path
    | .pathPainting => some .content
    | .pathClipping => some .clipping
    | _ => none
  | .clipping =>
    match ty with
    | .pathPainting => some .content
    | _ => none
  | .inlineImage =>
    match ty with
    | .inlineImage =>
      if name == opID then some .inlineImage else if name == opEI then some .content else none
    | _ => none
  | .text =>
    match ty with
    | .generalGraphics | .color | .textState | .textShow | .textPositioning | .markedContent
    | .compat => some .text
    | .textObject => if name == opET then some .content else none
    | _ => none

def isNumObj : Obj → Bool | .int _ => true | .real _ _ => true | _ => false

/-- the `for (a, t) in args.iter().zip(op_args.iter())` loop of the `Tj ' "` arm: every operand
    is checked against the kind the operator table declares for its position. -/
def showArgs (name : Bytes) : List Obj → List ArgType → Res (List Tok)
  | a :: rest, t :: ts =>
    match a, t with
    | .str v, .string =>
      match showArgs name rest ts with
      | .ok toks => .ok ((if name != opTj then [Tok.space] else []) ++ Tok.raw v :: toks)
      | .err k => .err k | .panic p => .panic p
    | o, .number => if isNumObj o then showArgs name rest ts else .err .guard
    | _, _ => .err .guard
  | _, _ => .ok []

/-- the `for o in array.objs()` loop of the `TJ` arm (lines 380-405). -/
def showArray : List Obj → Res (List Tok)
  | [] => .ok []
  | .str v :: rest =>
    match showArray rest with
    | .ok ts => .ok (Tok.raw v :: ts) | .err k => .err k | .panic p => .panic p
  | o :: rest => if isNumObj o then showArray rest else .err .guard

/-- the operator `match` (lines 336-432): tokens pushed and the new `nested_compats`. -/
def handleOp (ty : OpType) (name : Bytes) (opArgs : List ArgType) (args : List Obj) (compat : Nat) :
    Res (List Tok × Nat) :=
  if ty == .textShow && (name == opTj || name == opQuote || name == opDQuote) then
    if args.length != opArgs.length then .err .guard
    else match showArgs name args opArgs with
      | .ok ts => .ok (ts, compat) | .err k => .err k | .panic p => .panic p
  else if ty == .textShow && name == opTJ then
    if args.length != opArgs.length then .err .guard
    else match args.getLast? with
    | none => .ok ([], compat)
    | some (.arr l) =>
      match showArray l with
      | .ok ts => .ok (ts, compat) | .err k => .err k | .panic p => .panic p
    | some _ => .err .guard
  else if ty == .textPositioning && (name == opTd || name == opTD || name == opTstar) then
    .ok ([.space], compat)
  else if ty == .textObject then .ok ([.space], compat)
  else if ty == .compat && name == opBX then .ok ([], compat + 1)
  else if ty == .compat && name == opEX then .ok ([], compat - 1)
  else .ok ([], compat)

/-- the `loop` of `parse_internal` (lines 222-443).  Returns the tokens produced from here on
    (the Rust code accumulates them in `texts` and discards them on error — same observable). -/
def extractLoop (maxDepth : Nat) : Nat → PState → Nat → List Obj → Bytes → Res (List Tok)
  | 0, _, _, _, _ => .panic "fuel"
  | fuel + 1, st, compat, args, s0 =>
    let s := skipWs s0
    -- the stream may end at an operator boundary (no pending operands)
    if s.isEmpty && args.isEmpty then .ok []
    else
    match csObjP maxDepth (2 * s.length + 2) s with
    | .err _ => .err .guard
    | .panic p => .panic p
    | .ok (.comment, r) => extractLoop maxDepth fuel st compat args r
    | .ok (.val o, r) => extractLoop maxDepth fuel st compat (args ++ [o]) r
    | .ok (.op name, r) =>
      match opinfo name with
      | none =>
        if compat > 0 then extractLoop maxDepth fuel st compat [] r else .err .guard
      | some (ty, opArgs) =>
        match nextState st ty name with
        | none => .err .guard
        | some nx =>
          match handleOp ty name opArgs args compat with
          | .err k => .err k | .panic p => .panic p
          | .ok (ts, compat') =>
            let r' := skipWs r
            if r'.isEmpty then .ok ts
            else match extractLoop maxDepth fuel nx compat' [] r' with
              | .ok ts' => .ok (ts ++ ts') | .err k => .err k | .panic p => .panic p

/-- `TextExtractor::new(ctxt, id).parse(buf)` on a fresh context with `max_depth = maxDepth`. -/
def extract (maxDepth : Nat) (s : Bytes) : Res (List Tok) :=
  extractLoop maxDepth ((skipWs s).length + 1) .content 0 [] (skipWs s)

end Parsley.Content
