/-
  Models of the remaining `ParsleyParser` implementors of the PDF side that had no model of their own
  (C15 fourth follow-up: every implementor's reported location is observed):

    src/pdf_lib/pdf_file.rs             HeaderP (45-61), StartXrefP (522-551), TrailerP (482-509), BodyP (438-463)
    src/pdf_lib/pdf_content_streams.rs  CSObjP::parse_internal (49-138), CSObjP::parse (143-158)

  Written line by line after the Rust code over the token models of Model/Prim.lean, the object parser of
  Model/Obj.lean and the indirect-object parser of Model/Indirect.lean: same exits, result AND cursor
  afterwards (none of these parsers restores the cursor on failure - they propagate with `?`).
  Contexts are fresh (`PDFObjContext::new(max)`), as the harness builds them.
  Import-free (core + Parsley.Model only).
-/
import Parsley.Model.Indirect
namespace Parsley.FileParts
open Parsley Parsley.Prim Parsley.Obj Parsley.Indirect

/-! ## HeaderP -/

/-- `HeaderT { version, binary }` -/
structure Header where
  version : Located Bytes
  binary : Option (Located Bytes)
deriving DecidableEq, Repr

/-- `HeaderP::parse`: `Comment` once (`?`), then once more if it succeeds -/
def headerP : P Header := fun s i =>
  match comment s i with
  | (.err k, j) => (.err k, j)
  | (.panic p, j) => (.panic p, j)
  | (.ok v, j) =>
    match comment s j with
    | (.ok b, k) => (.ok ⟨⟨v, some b⟩, i, k⟩, k)
    | (.err _, k) => (.ok ⟨⟨v, none⟩, i, k⟩, k)
    | (.panic p, k) => (.panic p, k)

/-! ## StartXrefP -/

def kwStartxref : Bytes := [115, 116, 97, 114, 116, 120, 114, 101, 102]

/-- `StartXrefP::parse`: `exact(b"startxref")` (failure re-wrapped as GuardError, cursor untouched),
    `WhitespaceEOL::new(false)` (`?`), `IntegerP` (`?`), `usize::try_from` (negative: GuardError, cursor
    after the number) -/
def startXrefP : P Nat := fun s i =>
  match exact kwStartxref s i with
  | (false, _) => (.err .guard, i)
  | (true, j) =>
    match wsEOL false s j with
    | (.err k, c) => (.err k, c)
    | (.panic p, c) => (.panic p, c)
    | (.ok _, c) =>
      match integerP s c with
      | (.err k, e) => (.err k, e)
      | (.panic p, e) => (.panic p, e)
      | (.ok n, e) =>
        if isUsize n.val then (.ok ⟨n.val.toNat, i, e⟩, e) else (.err .guard, e)

/-! ## TrailerP -/

def kwTrailer : Bytes := [116, 114, 97, 105, 108, 101, 114]

/-- `DictP::new(ctxt).parse(buf)` on a context of depth `cur` / bound `max`: `exact(b"<<")?`, then the
    `while !end` loop (Model/Obj.lean `dictLoop`, elements by `parse_pdf_obj`) -/
def dictP (max cur : Nat) (s : Bytes) (i : Nat) : (Res (List (Bytes × Obj)) × Nat) × Nat :=
  match exact [60, 60] s i with
  | (false, _) => ((.err .guard, i), cur)
  | (true, j) => dictLoop (parseObjB max (max - cur)) (s.length + 1 - i) cur s j [] []

/-- `TrailerP::new(ctxt).parse(buf)` with a fresh context of bound `max`: `exact(b"trailer")`,
    `WhitespaceEOL::new(true)` (`?`), `DictP` (any error re-wrapped as GuardError, cursor where it is) -/
def trailerP (max : Nat) : P (List (Bytes × Obj)) := fun s i =>
  match exact kwTrailer s i with
  | (false, _) => (.err .guard, i)
  | (true, j) =>
    match wsEOL true s j with
    | (.err k, c) => (.err k, c)
    | (.panic p, c) => (.panic p, c)
    | (.ok _, c) =>
      match (dictP max 0 s c).1 with
      | (.err _, e) => (.err .guard, e)
      | (.panic p, e) => (.panic p, e)
      | (.ok kvs, e) => (.ok ⟨kvs, i, e⟩, e)

/-! ## BodyP -/

/-- the `loop` of `BodyP::parse`: indirect objects until one fails; the cursor stays where the failed
    attempt left it.  Every success consumes at least `endobj`, so `remaining + 2` rounds suffice. -/
def bodyLoop : Nat → Ctx → Bytes → Nat → List (Located Indirect) → Res (List (Located Indirect)) × Nat
  | 0, _, _, i, _ => (.panic "BodyP loop: fuel", i)
  | f + 1, c, s, i, acc =>
    match parseIndirect c s i with
    | ((.ok v, j), c') => bodyLoop f c' s j (v :: acc)
    | ((.err _, j), _) => (.ok acc.reverse, j)
    | ((.panic p, j), _) => (.panic p, j)

/-- `BodyP::new(ctxt).parse(buf)` with a fresh context of bound `max` (never fails) -/
def bodyP (max : Nat) : P (List (Located Indirect)) := fun s i =>
  match bodyLoop (s.length + 2 - i) (Ctx.new max) s i [] with
  | (.ok l, j) => (.ok ⟨l, i, j⟩, j)
  | (.err k, j) => (.err k, j)
  | (.panic p, j) => (.panic p, j)

/-! ## CSObjP -/

/-- `CSObjT` -/
inductive CSObj where
  | op (name : Bytes)
  | arr (xs : List Obj)
  | dict (kvs : List (Bytes × Obj))
  | bool (b : Bool)
  | str (v : Bytes)
  | name (v : Bytes)
  | null
  | comment (v : Bytes)
  | int (n : Int)
  | real (n : Int) (d : Nat)

/-- `RealT::is_integer`: numerator representable as `i64` and denominator 1 -/
def realIsInteger (r : Int × Nat) : Bool := -(2 ^ 63 : Int) ≤ r.1 && r.1 ≤ (2 ^ 63 - 1 : Int) && r.2 == 1

def liftCS {α : Type} (f : α → CSObj) : Res (Located α) × Nat → Res CSObj × Nat
  | (.ok v, j) => (.ok (f v.val), j)
  | (.err k, j) => (.err k, j)
  | (.panic p, j) => (.panic p, j)

/-- `CSObjP::parse_internal` with a fresh context of bound `max` -/
def csObjInternal (max : Nat) (s : Bytes) (i : Nat) : Res CSObj × Nat :=
  match peek s i with
  | none => (.err .eob, i)
  | some c =>
    if c == 40 then liftCS .str (rawLitString s i)
    else if c == 37 then liftCS .comment (comment s i)
    else if c == 47 then liftCS .name (nameP s i)
    else if c == 91 then
      -- ArrayP::parse: `exact("[")` succeeds here
      match (arrayLoop (parseObjB max max) (s.length + 1 - i) 0 s (i + 1) []).1 with
      | (.ok xs, j) => (.ok (.arr xs), j)
      | (.err k, j) => (.err k, j)
      | (.panic p, j) => (.panic p, j)
    else if c == 60 then
      if peek s (i + 1) == some 60 then
        match (dictP max 0 s i).1 with
        | (.ok kvs, j) => (.ok (.dict kvs), j)
        | (.err k, j) => (.err k, j)
        | (.panic p, j) => (.panic p, j)
      else liftCS .str (hexString s i)
    else if isDigit c || c == 45 || c == 46 then
      match realP s i with
      | (.ok r, j) => if realIsInteger r.val then (.ok (.int r.val.1), j) else (.ok (.real r.val.1 r.val.2), j)
      | (.err k, j) => (.err k, j)
      | (.panic p, j) => (.panic p, j)
    else
      match operatorP s i with
      | (.ok o, j) =>
        if o.val == kwTrue then (.ok (.bool true), j)
        else if o.val == kwFalse then (.ok (.bool false), j)
        else if o.val == kwNull then (.ok .null, j)
        else (.ok (.op o.val), j)
      | (.err k, j) => (.err k, j)
      | (.panic p, j) => (.panic p, j)

/-- `CSObjP::new(ctxt).parse(buf)`: optional whitespace, then `parse_internal`, located from the first
    byte after the whitespace -/
def csObjP (max : Nat) : P CSObj := fun s i =>
  match wsEOL true s i with
  | (.err k, j) => (.err k, j)
  | (.panic p, j) => (.panic p, j)
  | (.ok _, start) =>
    match csObjInternal max s start with
    | (.ok v, j) => (.ok ⟨v, start, j⟩, j)
    | (.err k, j) => (.err k, j)
    | (.panic p, j) => (.panic p, j)

end Parsley.FileParts
