/-
  Model of the stream-filter code of parsley-rust (as repaired by pending_fixes/C06-01..03):

    src/pdf_lib/pdf_obj.rs      StreamT::filters           (/Filter x /DecodeParms pairing)
    src/pdf_lib/pdf_streams.rs  decode_stream              (chain application, dictionary pruning)
    src/pdf_lib/pdf_filters.rs  ASCIIHexDecode::transform  (staging loop + binascii::hex2bin)
                                ASCII85Decode::transform   (staging loop + ascii85::decode under catch_unwind)
                                FlateDecode::transform     (flate2 read-side decoder drained by read_to_end)

  The external crates are modelled from their vendored sources (`binascii-0.1.4/src/lib.rs`
  hex2bin, `ascii85-0.2.1/src/decode.rs`) line by line; zlib is the executable `Inflate`.
  The pre-repair glue (`hexDecodeOld`, `a85DecodeOld`, `flateOldGlue`) is kept to state the
  witness theorems of the three defects.
  Rust partial operations are explicit: the `u32` arithmetic of `ascii85::decode_digit`
  (overflow-checked in the debug profile the harness is built with) yields `Res.panic`, which
  the glue's `catch_unwind` turns into a `TransformError`.
  Import-free.
-/
import Parsley.Base.Basic
import Parsley.Model.Inflate
namespace Parsley.Filters
open Parsley

/-! ## PDF objects as far as `filters()` and the pruning look at them -/

inductive Obj where
  | null
  | bool (b : Bool)
  | int (i : Int)
  | name (n : Bytes)
  | str (s : Bytes)
  | ref (n g : Nat)
  | arr (l : List Obj)
  | dict (l : List (Bytes × Obj))
  | other                      -- Real, Stream, Comment: never inspected by this code
deriving Repr, Inhabited

/-- `DictT`: a `BTreeMap<DictKey, _>` as an association list with unique keys in key order. -/
abbrev Dict := List (Bytes × Obj)

def kFilter : Bytes := [70, 105, 108, 116, 101, 114]
def kDecodeParms : Bytes := [68, 101, 99, 111, 100, 101, 80, 97, 114, 109, 115]
def kPredictor : Bytes := [80, 114, 101, 100, 105, 99, 116, 111, 114]
def nFlate : Bytes := [70, 108, 97, 116, 101, 68, 101, 99, 111, 100, 101]
def nHex : Bytes := [65, 83, 67, 73, 73, 72, 101, 120, 68, 101, 99, 111, 100, 101]
def nA85 : Bytes := [65, 83, 67, 73, 73, 56, 53, 68, 101, 99, 111, 100, 101]
def nDCT : Bytes := [68, 67, 84, 68, 101, 99, 111, 100, 101]

/-- `DictT::get` -/
def lookup (k : Bytes) : Dict → Option Obj
  | [] => none
  | (k', v) :: t => if k' = k then some v else lookup k t

/-- `get_name_obj` -/
def getNameObj (d : Dict) (k : Bytes) : Option Bytes :=
  match lookup k d with | some (.name n) => some n | _ => none
/-- `get_dict` -/
def getDict (d : Dict) (k : Bytes) : Option Dict :=
  match lookup k d with | some (.dict x) => some x | _ => none
/-- `get_array` -/
def getArray (d : Dict) (k : Bytes) : Option (List Obj) :=
  match lookup k d with | some (.arr x) => some x | _ => none

structure Filter where
  name : Bytes
  options : Option Dict
deriving Repr

/-- the `zip` loop of the array/array case; every exit is the same `GuardError` -/
def zipFilters : List Obj → List Obj → List Filter → Res (List Filter)
  | f :: fs, p :: ps, acc =>
    match f, p with
    | .name n, .null => zipFilters fs ps (acc ++ [⟨n, none⟩])
    | .name n, .dict d => zipFilters fs ps (acc ++ [⟨n, some d⟩])
    | .name _, _ => .err .guard        -- "Invalid objects in DecodeParms of stream"
    | _, _ => .err .guard              -- "Invalid objects in Filter of stream"
  | _, _, acc => .ok acc

/-- the loop of the array / no-parameter-array case -/
def namesOnly : List Obj → List Filter → Res (List Filter)
  | [], acc => .ok acc
  | .name n :: fs, acc => namesOnly fs (acc ++ [⟨n, none⟩])
  | _ :: _, _ => .err .guard           -- "Invalid objects in Filter of stream"

/-- `StreamT::filters` -/
def filters (d : Dict) : Res (List Filter) :=
  match getNameObj d kFilter with
  | some name =>
    match getDict d kDecodeParms with
    | some p => .ok [⟨name, some p⟩]
    | none =>
      if (getArray d kDecodeParms).isSome then .err .guard   -- "Mismatched Filter and DecodeParms in stream"
      else .ok [⟨name, none⟩]
  | none =>
    match getArray d kFilter with
    | some fa =>
      match getArray d kDecodeParms with
      | some da =>
        if da.length != fa.length then .err .guard           -- "Mismatched lengths …"
        else zipFilters fa da []
      | none => namesOnly fa []
    | none => .ok []

/-! ## ASCIIHexDecode -/

/-- the PDF whitespace bytes both staging loops skip -/
def isWs (b : UInt8) : Bool :=
  b == 0x00 || b == 0x09 || b == 0x0A || b == 0x0C || b == 0x0D || b == 0x20

def isHexDigit (b : UInt8) : Bool :=
  (0x30 ≤ b && b ≤ 0x39) || (0x41 ≤ b && b ≤ 0x46) || (0x61 ≤ b && b ≤ 0x66)

/-- `binascii::hex2bin`, the digit match -/
def nibble (d : UInt8) : Option UInt8 :=
  if 0x61 ≤ d && d ≤ 0x66 then some (d - 0x61 + 10)
  else if 0x41 ≤ d && d ≤ 0x46 then some (d - 0x41 + 10)
  else if 0x30 ≤ d && d ≤ 0x39 then some (d - 0x30)
  else none

/-- the block loop of `hex2bin` (`num = (num << 4) | val` twice per output byte); output reversed -/
def hex2binLoop : Bytes → Bytes → Res Bytes
  | a :: b :: t, acc =>
    match nibble a, nibble b with
    | some x, some y => hex2binLoop t ((((0 : UInt8) <<< 4 ||| x) <<< 4 ||| y) :: acc)
    | _, _ => .err .transform                       -- ConvertError::InvalidInput
  | [_], _ => .panic "hex2bin: slice index"          -- unreachable: the length is even
  | [], acc => .ok acc.reverse

/-- `binascii::hex2bin(input, output)` with `output.len() = outLen` -/
def hex2bin (input : Bytes) (outLen : Nat) : Res Bytes :=
  if input.length % 2 != 0 then .err .transform     -- InvalidInputLength
  else if input.length / 2 > outLen then .err .transform   -- InvalidOutputLength
  else hex2binLoop input []

/-- the staging loop of the repaired `ASCIIHexDecode::transform`; `st` is the stage, reversed -/
def hexStage : Bytes → Bytes → Res Bytes
  | [], _ => .err .transform                        -- "no EOD in input"
  | b :: t, st =>
    if isWs b then hexStage t st
    else if b == 0x3E then .ok (if st.length % 2 == 1 then (0x30 :: st).reverse else st.reverse)
    else if isHexDigit b then hexStage t (b :: st)
    else .err .transform                            -- "illegal char"

/-- `ASCIIHexDecode::transform` (repaired: output buffer sized, parity of the staged length) -/
def hexDecode (input : Bytes) : Res Bytes :=
  match hexStage input [] with
  | .ok stage => hex2bin stage (stage.length / 2)
  | .err k => .err k
  | .panic s => .panic s

/-- pre-repair staging loop: the padding test looks at the raw index `i` -/
def hexStageOld : Bytes → Nat → Bytes → Res Bytes
  | [], _, _ => .err .transform
  | b :: t, i, st =>
    if isWs b then hexStageOld t (i + 1) st
    else if b == 0x3E then .ok (if i % 2 == 1 then (0x30 :: st).reverse else st.reverse)
    else if isHexDigit b then hexStageOld t (i + 1) (b :: st)
    else .err .transform

/-- pre-repair `ASCIIHexDecode::transform`: `Vec::with_capacity(..)` has length 0 -/
def hexDecodeOld (input : Bytes) : Res Bytes :=
  match hexStageOld input 0 [] with
  | .ok stage => hex2bin stage 0
  | .err k => .err k
  | .panic s => .panic s

/-! ## ASCII85Decode -/

/-- repaired staging loop: whitespace skipped, aligned `z` expanded to `!!!!!`, misaligned `z`
    rejected, `~` resets the group position; `st` is the stage, reversed -/
def a85Stage : Bytes → Bytes → Nat → Res Bytes
  | [], st, _ => .ok st.reverse
  | b :: t, st, g =>
    if isWs b then a85Stage t st g
    else if b == 0x7A then
      if g != 0 then .err .transform                 -- "misaligned z in input"
      else a85Stage t (0x21 :: 0x21 :: 0x21 :: 0x21 :: 0x21 :: st) g
    else if b == 0x7E then a85Stage t (0x7E :: st) 0
    else a85Stage t (b :: st) ((g + 1) % 5)

/-- `char::is_whitespace` restricted to the code points a staged byte can be -/
def isUniWs (b : UInt8) : Bool :=
  (0x09 ≤ b && b ≤ 0x0D) || b == 0x20 || b == 0x85 || b == 0xA0

/-- `u8::is_ascii_whitespace` -/
def isAsciiWs (b : UInt8) : Bool :=
  b == 0x20 || b == 0x09 || b == 0x0A || b == 0x0C || b == 0x0D

/-- `trim_start_matches("<~")` -/
def trimLt : Bytes → Bytes
  | a :: b :: t => if a == 0x3C && b == 0x7E then trimLt t else a :: b :: t
  | s => s

/-- `trim_end_matches("~>")` on the reversed string -/
def trimGtRev : Bytes → Bytes
  | a :: b :: t => if a == 0x3E && b == 0x7E then trimGtRev t else a :: b :: t
  | s => s

def a85Table (counter : Nat) : Nat :=
  match counter with
  | 0 => 85 * 85 * 85 * 85 | 1 => 85 * 85 * 85 | 2 => 85 * 85 | 3 => 85 | _ => 1

structure A85St where
  counter : Nat
  chunk : Nat
  result : Bytes          -- reversed
deriving Repr

/-- `decode_digit`: `*chunk += byte as u32 * TABLE[*counter]` with the debug-profile overflow checks -/
def decodeDigit (digit : UInt8) (s : A85St) : Res A85St :=
  let byte := digit.toNat - 33
  let m := byte * a85Table s.counter
  if m ≥ 2 ^ 32 then .panic "ascii85: attempt to multiply with overflow"
  else if s.chunk + m ≥ 2 ^ 32 then .panic "ascii85: attempt to add with overflow"
  else
    let c := s.chunk + m
    if s.counter == 4 then
      .ok ⟨0, 0, UInt8.ofNat (c % 256) :: UInt8.ofNat (c / 256 % 256) :: UInt8.ofNat (c / 65536 % 256)
                  :: UInt8.ofNat (c / 16777216) :: s.result⟩
    else .ok ⟨s.counter + 1, c, s.result⟩

/-- the `for digit in …` loop of `ascii85::decode` -/
def a85Loop : Bytes → A85St → Res A85St
  | [], s => .ok s
  | d :: t, s =>
    if d == 0x7A then .err .transform      -- `z`: "Missaligned z", or falls through to the range check (122 > 117)
    else if d < 33 || d > 117 then .err .transform
    else match decodeDigit d s with
      | .ok s => a85Loop t s
      | .err k => .err k
      | .panic m => .panic m

/-- `while counter != 0 { decode_digit(b'u', …); to_remove += 1 }` -/
def a85Pad : Nat → A85St → Nat → Res (A85St × Nat)
  | 0, s, rm => if s.counter == 0 then .ok (s, rm) else .panic "ascii85: pad loop"
  | fuel + 1, s, rm =>
    if s.counter == 0 then .ok (s, rm)
    else match decodeDigit 0x75 s with
      | .ok s => a85Pad fuel s (rm + 1)
      | .err k => .err k
      | .panic m => .panic m

/-- `ascii85::decode(&stage)`; a staged byte ≥ 0x80 stands for the two UTF-8 bytes of that
    `char`, both of which are > 117 and not `z`, so the byte loop rejects it like the model does -/
def a85Crate (stage : Bytes) : Res Bytes :=
  let s := stage.dropWhile isUniWs                        -- trim_start
  let s := trimLt s                                       -- trim_start_matches("<~")
  let r := s.reverse.dropWhile isUniWs                    -- trim_end
  let s := (trimGtRev r).reverse                          -- trim_end_matches("~>")
  let s := s.filter (fun c => !isAsciiWs c)
  match a85Loop s ⟨0, 0, []⟩ with
  | .err k => .err k
  | .panic m => .panic m
  | .ok st =>
    match a85Pad 5 st 0 with
    | .err k => .err k
    | .panic m => .panic m
    | .ok (st, rm) =>
      if st.result.length < rm then .panic "ascii85: drain range"
      else .ok (st.result.drop rm).reverse

/-- `ASCII85Decode::transform` (repaired): a panic inside the crate is caught by `catch_unwind`
    and reported as a `TransformError` -/
def a85Decode (input : Bytes) : Res Bytes :=
  match a85Stage input [] 0 with
  | .ok stage =>
    match a85Crate stage with
    | .ok out => .ok out
    | .err k => .err k
    | .panic _ => .err .transform
  | .err k => .err k
  | .panic s => .panic s

/-- pre-repair `ASCII85Decode::transform`: whitespace removed, everything else left to the crate -/
def a85DecodeOld (input : Bytes) : Res Bytes :=
  match a85Crate (input.filter (fun b => !isWs b)) with
  | .ok out => .ok out
  | .err k => .err k
  | .panic _ => .err .transform

/-! ## FlateDecode -/

/-- A pull-style streaming decoder (`std::io::Read`): `read` yields the next chunk (empty = end
    of stream) or fails.  `size` is a progress measure: a non-empty chunk strictly decreases it
    (every real decoder has one: the amount of output still to come). -/
structure StreamDec (σ : Type) where
  read : σ → Res (Bytes × σ)
  size : σ → Nat
  progress : ∀ s c s', read s = .ok (c, s') → c ≠ [] → size s' < size s

/-- `Read::read_to_end`: pull until a read returns no bytes; any failure discards what was read -/
def readToEnd {σ : Type} (D : StreamDec σ) (s : σ) (acc : Bytes) : Res Bytes :=
  match h : D.read s with
  | .ok (c, s') =>
    if hc : c = [] then .ok acc
    else
      have : D.size s' < D.size s := D.progress s c s' h hc
      readToEnd D s' (acc ++ c)
  | .err k => .err k
  | .panic m => .panic m
termination_by D.size s

/-- pre-repair glue, abstractly: one `write` (the decoder hands back what fits its 32 KiB
    buffer) followed by `finish`, which does not fail on an unfinished stream: a single read. -/
def flateOldGlue {σ : Type} (D : StreamDec σ) (s : σ) : Res Bytes :=
  match D.read s with
  | .ok (c, _) => .ok c
  | .err k => .err k
  | .panic m => .panic m

/-- the zlib decoder as a stream: the decoded payload handed out in chunks of at most `chunk+1`
    bytes; a rejected stream fails (possibly after some chunks — the glue discards them). -/
structure ZState where
  pending : Bytes
  failed : Bool

def zlibDec (chunk : Nat) : StreamDec ZState where
  read s :=
    if s.pending.isEmpty then (if s.failed then .err .transform else .ok ([], s))
    else .ok (s.pending.take (chunk + 1), ⟨s.pending.drop (chunk + 1), s.failed⟩)
  size s := s.pending.length
  progress := by
    intro s c s' h hc
    by_cases he : s.pending.isEmpty
    · simp only [he, if_true] at h
      split at h
      · cases h
      · cases h; exact absurd rfl hc
    · simp only [he] at h
      cases h
      cases hp : s.pending with
      | nil => simp [hp] at he
      | cons x t => simp only [List.drop_succ_cons, List.length_cons]; have := List.length_drop (i := chunk) (l := t); omega

def zlibInit (input : Bytes) : Res ZState :=
  match Inflate.inflate input with
  | .ok d => .ok ⟨d, false⟩
  | .err _ => .ok ⟨[], true⟩
  | .panic m => .panic m

/-- parameters of the code that is outside this property -/
structure Ext where
  /-- `flate_lzw_filter` for `/Predictor ≠ 1` (property C07) -/
  post : Dict → Bytes → Res Bytes
  /-- `DCTDecode::transform` (jpeg-decoder, opaque) -/
  dct : Bytes → Res Bytes

/-- `options.and_then(get "Predictor").and_then(Integer).unwrap_or(1)` -/
def predictorOf (o : Option Dict) : Int :=
  match o with
  | some d => match lookup kPredictor d with | some (.int i) => i | _ => 1
  | none => 1

/-- `FlateDecode::transform` (repaired) over any streaming decoder state -/
def flateGlue {σ : Type} (ext : Ext) (D : StreamDec σ) (o : Option Dict) (s : σ) : Res Bytes :=
  match readToEnd D s [] with
  | .ok decoded => if predictorOf o = 1 then .ok decoded else ext.post (o.getD []) decoded
  | .err k => .err k
  | .panic m => .panic m

def flateDecode (ext : Ext) (o : Option Dict) (input : Bytes) : Res Bytes :=
  match zlibInit input with
  | .ok s => flateGlue ext (zlibDec 32767) o s
  | .err k => .err k
  | .panic m => .panic m

/-! ## decode_stream -/

def applyFilter (ext : Ext) (f : Filter) (input : Bytes) : Res Bytes :=
  if f.name = nFlate then flateDecode ext f.options input
  else if f.name = nA85 then a85Decode input
  else if f.name = nHex then hexDecode input
  else if f.name = nDCT then ext.dct input
  else .err .guard                                    -- "Cannot handle filter … in object stream"

/-- the `for filter in &filters` loop -/
def runChain (ext : Ext) : List Filter → Bytes → Res Bytes
  | [], x => .ok x
  | f :: fs, x =>
    match applyFilter ext f x with
    | .ok y => runChain ext fs y
    | .err k => .err k
    | .panic m => .panic m

/-- the pruned dictionary: every entry except `/Filter` and `/DecodeParms`, order kept -/
def prune (d : Dict) : Dict :=
  d.filter fun kv => !(kv.1 = kFilter || kv.1 = kDecodeParms)

/-- `decode_stream`: decoded content and pruned dictionary -/
def decodeStream (ext : Ext) (d : Dict) (content : Bytes) : Res (Bytes × Dict) :=
  match filters d with
  | .ok fs =>
    match runChain ext fs content with
    | .ok out => .ok (out, prune d)
    | .err k => .err k
    | .panic m => .panic m
  | .err k => .err k
  | .panic m => .panic m

end Parsley.Filters
