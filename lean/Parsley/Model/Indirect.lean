/-
  Model of the indirect-object parser of src/pdf_lib/pdf_obj.rs:
    PDFObjContext (defns / cur_depth / max_depth / eol_after_stream_content),
    register_obj, lookup_obj, convert_stream_length,
    IndirectP::parse_internal, IndirectP::parse, parse_pdf_indirect_obj.

  `parse_internal` is one long function; the model cuts it at three points
  (same order, same exits, same cursor on every exit):
    indirectHead    `n g obj` + the object                       (lines 736-767)
    indirectBody    the `let obj = if let Dict … stream …` block (lines 771-825)
    indirectFinish  ws, `endobj`, IndirectT, register_obj        (lines 827-858)
  The context is threaded explicitly.  `BTreeMap::insert` overwrites the old
  binding *before* the duplicate error is returned; the model does the same.
  Import-free (core + Parsley.Model only).
-/
import Parsley.Model.Obj
namespace Parsley.Indirect
open Parsley Parsley.Prim Parsley.Obj

/-! ## the context -/

/-- `ObjectId = (usize, usize)` -/
abbrev ObjId := Nat × Nat

/-- the derived `Ord` of a pair: lexicographic -/
def idLt (a b : ObjId) : Bool := a.1 < b.1 || (a.1 == b.1 && a.2 < b.2)

/-- `defns : BTreeMap<ObjectId, Rc<LocatedVal<PDFObjT>>>` as a sorted association list -/
abbrev Defs := List (ObjId × Located Obj)

/-- `BTreeMap::insert`: the previous binding (if any) and the updated map -/
def defsInsert (k : ObjId) (v : Located Obj) : Defs → Option (Located Obj) × Defs
  | [] => (none, [(k, v)])
  | (k', v') :: t =>
    if idLt k k' then (none, (k, v) :: (k', v') :: t)
    else if idLt k' k then
      let (old, t') := defsInsert k v t
      (old, (k', v') :: t')
    else (some v', (k, v) :: t)

/-- `BTreeMap::get` -/
def defsGet (k : ObjId) : Defs → Option (Located Obj)
  | [] => none
  | (k', v) :: t => if k == k' then some v else defsGet k t

/-- `PDFObjContext` (the `encrypted` flag is not touched by these parsers) -/
structure Ctx where
  defs : Defs
  cur : Nat
  max : Nat
  eol : Bool            -- eol_after_stream_content (always false: `new` sets it, nothing changes it)

/-- `PDFObjContext::new(max_depth)` -/
def Ctx.new (max : Nat) : Ctx := ⟨[], 0, max, false⟩

/-- `IndirectT` -/
structure Indirect where
  num : Nat
  gen : Nat
  obj : Located Obj

/-! ## keywords -/

def kwObj : Bytes := [111, 98, 106]
def kwEndobj : Bytes := [101, 110, 100, 111, 98, 106]
def keyLength : Bytes := [76, 101, 110, 103, 116, 104]

/-! ## stream length -/

/-- `convert_stream_length` (`usize_val` is guarded by `is_usize`) -/
def convertStreamLength : Obj → Res Nat
  | .int n => if isUsize n then .ok n.toNat else .err .guard
  | _ => .err .guard

/-- the `let length = match dict.get(b"Length") { … }` of `parse_internal` -/
def streamLength (defs : Defs) (kvs : List (Bytes × Obj)) : Res Nat :=
  match dictGet keyLength kvs with
  | none => .err .guard
  | some (.int n) => convertStreamLength (.int n)
  | some (.ref a g) =>
    match defsGet (a, g) defs with
    | some o => convertStreamLength o.val
    | none => .err .ctx
  | some _ => .err .guard

/-! ## parse_internal, part 1: `n g obj <object>` -/

structure Head where
  num : Nat
  gen : Nat
  o : Located Obj

def indirectHead (c : Ctx) (s : Bytes) (i : Nat) : (Res Head × Nat) × Ctx :=
  match integerP s i with
  | (.err k, j) => ((.err k, j), c)
  | (.panic p, j) => ((.panic p, j), c)
  | (.ok num, j) =>
    if !isUsize num.val then ((.err .guard, i), c)                 -- set_cursor_unsafe(start)
    else
      match wsEOL true s j with
      | (.err k, j1) => ((.err k, j1), c)
      | (.panic p, j1) => ((.panic p, j1), c)
      | (.ok _, j1) =>
        match integerP s j1 with
        | (.err k, j2) => ((.err k, j2), c)
        | (.panic p, j2) => ((.panic p, j2), c)
        | (.ok gen, j2) =>
          if !(gen.val == 0 || isUsize gen.val) then ((.err .guard, j1), c)   -- set_cursor_unsafe(cursor)
          else
            match wsEOL true s j2 with
            | (.err k, j3) => ((.err k, j3), c)
            | (.panic p, j3) => ((.panic p, j3), c)
            | (.ok _, j3) =>
              match exact kwObj s j3 with
              | (false, _) => ((.err .guard, j3), c)
              | (true, j4) =>
                match wsEOL true s j4 with
                | (.err k, j5) => ((.err k, j5), c)
                | (.panic p, j5) => ((.panic p, j5), c)
                | (.ok _, j5) =>
                  -- parse_pdf_obj(self.ctxt, buf)?
                  let (r, d) := parseObj ⟨c.cur, c.max⟩ s j5
                  let c' : Ctx := { c with cur := d.cur }
                  match r with
                  | (.err k, j6) => ((.err k, j6), c')
                  | (.panic p, j6) => ((.panic p, j6), c')
                  | (.ok o, j6) => ((.ok ⟨num.val.toNat, gen.val.toNat, o⟩, j6), c')

/-! ## part 2: stream detection, length lookup, stream content -/

def indirectBody (c : Ctx) (s : Bytes) (o : Located Obj) (j : Nat) : Res (Located Obj) × Nat :=
  match o.val with
  | .dict kvs =>
    match wsEOL true s j with
    | (.err k, p) => (.err k, p)
    | (.panic m, p) => (.panic m, p)
    | (.ok _, p) =>
      if startsWith kwStream s p then                       -- check_prefix(b"stream")
        match streamLength c.defs kvs with
        | .err k => (.err k, p)
        | .panic m => (.panic m, p)
        | .ok n =>
          match streamContentP n c.eol s p with
          | (.err k, e) => (.err k, e)
          | (.panic m, e) => (.panic m, e)
          | (.ok sc, e) => (.ok ⟨.stream kvs sc.val, o.start, sc.stop⟩, e)
      else (.ok o, p)
  | _ => (.ok o, j)

/-! ## part 3: `endobj` and registration -/

def indirectFinish (c : Ctx) (s : Bytes) (start : Nat) (num gen : Nat) (obj : Located Obj) (j : Nat) :
    (Res (Located Indirect) × Nat) × Ctx :=
  match wsEOL true s j with
  | (.err k, j1) => ((.err k, j1), c)
  | (.panic p, j1) => ((.panic p, j1), c)
  | (.ok _, j1) =>
    match exact kwEndobj s j1 with
    | (false, _) => ((.err .guard, j1), c)
    | (true, e) =>
      -- self.ctxt.register_obj(&ind): insert first, then look at what was there
      let (old, defs') := defsInsert (num, gen) obj c.defs
      let c' : Ctx := { c with defs := defs' }
      match old with
      | none => ((.ok ⟨⟨num, gen, obj⟩, start, e⟩, e), c')
      | some _ => ((.err .guard, e), c')

/-- `IndirectP::parse_internal` -/
def indirectInternal (c : Ctx) (s : Bytes) (i : Nat) : (Res (Located Indirect) × Nat) × Ctx :=
  match indirectHead c s i with
  | ((.err k, j), c1) => ((.err k, j), c1)
  | ((.panic p, j), c1) => ((.panic p, j), c1)
  | ((.ok h, j), c1) =>
    match indirectBody c1 s h.o j with
    | (.err k, j') => ((.err k, j'), c1)
    | (.panic p, j') => ((.panic p, j'), c1)
    | (.ok obj, j') => indirectFinish c1 s i h.num h.gen obj j'

/-- `IndirectP::parse` = `parse_pdf_indirect_obj(ctxt, buf)` -/
def parseIndirect (c : Ctx) (s : Bytes) (i : Nat) : (Res (Located Indirect) × Nat) × Ctx :=
  match wsEOL true s i with
  | (.err k, j) => ((.err k, j), c)
  | (.panic p, j) => ((.panic p, j), c)
  | (.ok _, j) => indirectInternal c s j

end Parsley.Indirect
