/-
  An executable zlib / DEFLATE decoder (RFC 1950 / RFC 1951): stored, fixed-Huffman and
  dynamic-Huffman blocks, Adler-32.  It stands in for the external `flate2` + zlib pair, which
  is *modelled, not verified*: the accept/reject rules follow zlib's `inflate.c` /
  `inftrees.c` (header check, window size, FDICT, stored LEN/NLEN, HLIT/HDIST limits,
  over-subscribed / incomplete code sets with the `max == 1` exception, missing end-of-block
  code, bit-length repeat without a previous length or past the end, invalid literal/length
  and distance codes, distance too far back, Adler-32 mismatch, truncated input); bytes after
  the Adler-32 trailer are ignored, as the read-side `flate2` decoder does.
  The stored-block path is proved correct in Props/C06 (`inflate_stored_roundtrip`); the
  Huffman paths are exercised against real zlib output (levels 0-9) by the correspondence run.
  Import-free.
-/
import Parsley.Base.Basic
namespace Parsley.Inflate
open Parsley

/-- Bit reader state: whole bytes not yet fetched, and `cnt` not yet consumed bits of the
    bytes fetched so far, held LSB-first in `acc` (`acc < 2^cnt`). -/
structure BitRd where
  rest : Bytes
  acc : Nat
  cnt : Nat
deriving Repr

/-- fetch bytes until `n` bits are available, then take the low `n` bits -/
def bitsAux (n : Nat) : Bytes → Nat → Nat → Option (Nat × BitRd)
  | rest, acc, cnt =>
    if n ≤ cnt then some (acc % 2 ^ n, ⟨rest, acc / 2 ^ n, cnt - n⟩)
    else match rest with
      | [] => none
      | b :: t => bitsAux n t (acc + b.toNat * 2 ^ cnt) (cnt + 8)

/-- `n` bits, least-significant first (RFC 1951 3.1.1); `none` = input exhausted -/
def BitRd.bits (r : BitRd) (n : Nat) : Option (Nat × BitRd) := bitsAux n r.rest r.acc r.cnt

/-- skip to the next byte boundary (the reader never holds a whole unread byte in `acc`) -/
def BitRd.align (r : BitRd) : BitRd := ⟨r.rest, 0, 0⟩

/-- Adler-32 (RFC 1950 8.2) -/
def adler32 (data : Bytes) : Nat :=
  let (a, b) := data.foldl (fun (p : Nat × Nat) x =>
    let a := (p.1 + x.toNat) % 65521
    (a, (p.2 + a) % 65521)) (1, 0)
  b * 65536 + a

/-- A canonical Huffman code in the representation of `puff.c`: `count[l]` = number of symbols
    with code length `l`, `symbol` = the symbols ordered by (length, symbol value). -/
structure Huff where
  count : Array Nat
  symbol : Array Nat
deriving Repr

/-- Over- or under-subscription of a set of code lengths: starting from 1, doubled per length and
    reduced by the number of codes of that length.  `none` = over-subscribed. -/
def leftOver (count : Array Nat) : Option Nat :=
  (List.range 15).foldl (fun (acc : Option Nat) i =>
    match acc with
    | none => none
    | some left =>
      let l := 2 * left
      let c := count[i + 1]?.getD 0
      if c ≤ l then some (l - c) else none) (some 1)

/-- build the decoding table from the code lengths (0 = symbol unused) -/
def construct (lens : Array Nat) : Huff :=
  let count := lens.foldl (fun (c : Array Nat) l => c.modify l (· + 1)) (Array.replicate 16 0)
  let symbol := (List.range 15).foldl (fun (s : Array Nat) li =>
    let l := li + 1
    (List.range lens.size).foldl (fun (s : Array Nat) i =>
      if lens[i]?.getD 0 == l then s.push i else s) s) (Array.mkEmpty lens.size)
  ⟨count, symbol⟩

/-- zlib's `inflate_table` acceptance rule.  `isCodes` = the code-length code. -/
def tableOk (isCodes : Bool) (h : Huff) : Bool :=
  let maxLen := (List.range 15).foldl (fun m i => if h.count[i + 1]?.getD 0 != 0 then i + 1 else m) 0
  if maxLen == 0 then true   -- no codes at all: accepted, every use is an invalid code
  else match leftOver h.count with
    | none => false
    | some left => !(left > 0 && (isCodes || maxLen != 1))

/-- decode one symbol: read bits MSB-of-code first until the code falls into the range of
    codes of the current length.  `none` = input exhausted, `some none` = invalid code. -/
def decodeSym (h : Huff) (r : BitRd) : Option (Option Nat × BitRd) :=
  let rec go (fuel len code first index : Nat) (r : BitRd) : Option (Option Nat × BitRd) :=
    match fuel with
    | 0 => some (none, r)
    | fuel + 1 =>
      match r.bits 1 with
      | none => none
      | some (b, r) =>
        let code := code + b
        let count := h.count[len]?.getD 0
        if code < first + count then some (h.symbol[index + (code - first)]?, r)
        else go fuel (len + 1) ((code) * 2) ((first + count) * 2) (index + count) r
  go 15 1 0 0 0 r

def lenBase : Array Nat := #[3,4,5,6,7,8,9,10,11,13,15,17,19,23,27,31,35,43,51,59,67,83,99,115,131,163,195,227,258]
def lenExtra : Array Nat := #[0,0,0,0,0,0,0,0,1,1,1,1,2,2,2,2,3,3,3,3,4,4,4,4,5,5,5,5,0]
def distBase : Array Nat := #[1,2,3,4,5,7,9,13,17,25,33,49,65,97,129,193,257,385,513,769,1025,1537,2049,3073,4097,6145,8193,12289,16385,24577]
def distExtra : Array Nat := #[0,0,0,0,1,1,2,2,3,3,4,4,5,5,6,6,7,7,8,8,9,9,10,10,11,11,12,12,13,13]

/-- copy `len` bytes from `dist` back, byte by byte (source and destination may overlap) -/
def copyBack (dist : Nat) : Nat → Array UInt8 → Array UInt8
  | 0, out => out
  | n + 1, out => copyBack dist n (out.push (out[out.size - dist]?.getD 0))

inductive BlockEnd where
  | done (out : Array UInt8) (r : BitRd)
  | bad               -- corrupt data
  | short             -- input exhausted
  | fuel              -- cannot happen with the fuel `inflateRaw` passes (one unit per input bit)

/-- the symbol loop of a Huffman-coded block -/
def codes (lit dist : Huff) : Nat → Array UInt8 → BitRd → BlockEnd
  | 0, _, _ => .fuel
  | fuel + 1, out, r =>
    match decodeSym lit r with
    | none => .short
    | some (none, _) => .bad
    | some (some sym, r) =>
      if sym < 256 then codes lit dist fuel (out.push (UInt8.ofNat sym)) r
      else if sym == 256 then .done out r
      else
        let s := sym - 257
        if s ≥ 29 then .bad else
        match r.bits (lenExtra[s]?.getD 0) with
        | none => .short
        | some (e, r) =>
          let len := lenBase[s]?.getD 0 + e
          match decodeSym dist r with
          | none => .short
          | some (none, _) => .bad
          | some (some ds, r) =>
            if ds ≥ 30 then .bad else
            match r.bits (distExtra[ds]?.getD 0) with
            | none => .short
            | some (e, r) =>
              let d := distBase[ds]?.getD 0 + e
              if d > out.size then .bad        -- invalid distance too far back
              else codes lit dist fuel (copyBack d len out) r

def fixedLit : Huff :=
  construct (Array.replicate 144 8 ++ Array.replicate 112 9 ++ Array.replicate 24 7 ++ Array.replicate 8 8)
def fixedDist : Huff := construct (Array.replicate 30 5)

def clOrder : Array Nat := #[16, 17, 18, 0, 8, 7, 9, 6, 10, 5, 11, 4, 12, 3, 13, 2, 14, 1, 15]

/-- read the `n` literal/length + distance code lengths of a dynamic block header -/
def readLens (cl : Huff) (n : Nat) : Nat → Array Nat → BitRd → Option (Option (Array Nat × BitRd))
  | 0, _, _ => some none
  | fuel + 1, lens, r =>
    if lens.size ≥ n then some (some (lens, r)) else
    match decodeSym cl r with
    | none => none
    | some (none, _) => some none
    | some (some sym, r) =>
      if sym < 16 then readLens cl n fuel (lens.push sym) r
      else
        let (prevNeeded, nb, base) := if sym == 16 then (true, 2, 3) else if sym == 17 then (false, 3, 3) else (false, 7, 11)
        if prevNeeded && lens.size == 0 then some none else
        match r.bits nb with
        | none => none
        | some (e, r) =>
          let rep := base + e
          let v := if prevNeeded then lens[lens.size - 1]?.getD 0 else 0
          if lens.size + rep > n then some none
          else readLens cl n fuel (lens ++ Array.replicate rep v) r

/-- dynamic block header: `none` = short input, `some none` = corrupt -/
def dynamicTables (r : BitRd) : Option (Option (Huff × Huff × BitRd)) :=
  match r.bits 5 with
  | none => none
  | some (hl, r) =>
  match r.bits 5 with
  | none => none
  | some (hd, r) =>
  match r.bits 4 with
  | none => none
  | some (hc, r) =>
    let nlen := hl + 257; let ndist := hd + 1; let ncode := hc + 4
    if nlen > 286 || ndist > 30 then some none else
    let rec clLens (k : Nat) (i : Nat) (a : Array Nat) (r : BitRd) : Option (Array Nat × BitRd) :=
      match k with
      | 0 => some (a, r)
      | k + 1 =>
        match r.bits 3 with
        | none => none
        | some (v, r) => clLens k (i + 1) (a.set! (clOrder[i]?.getD 0) v) r
    match clLens ncode 0 (Array.replicate 19 0) r with
    | none => none
    | some (cll, r) =>
      let cl := construct cll
      if !tableOk true cl then some none else
      match readLens cl (nlen + ndist) (nlen + ndist + 1) (Array.mkEmpty 320) r with
      | none => none
      | some none => some none
      | some (some (lens, r)) =>
        if lens[256]?.getD 0 == 0 then some none else   -- missing end-of-block code
        let lit := construct (lens.extract 0 nlen)
        let dist := construct (lens.extract nlen (nlen + ndist))
        if !tableOk false lit || !tableOk false dist then some none
        else some (some (lit, dist, r))

/-- take `n` whole bytes -/
def takeBytes : Nat → Bytes → Array UInt8 → Option (Array UInt8 × Bytes)
  | 0, rest, out => some (out, rest)
  | _ + 1, [], _ => none
  | n + 1, b :: t, out => takeBytes n t (out.push b)

inductive RawEnd where
  | done (out : Array UInt8) (r : BitRd)
  | bad | short | fuel

/-- the block loop of a raw DEFLATE stream -/
def blocks : Nat → Array UInt8 → BitRd → RawEnd
  | 0, _, _ => .fuel
  | fuel + 1, out, r =>
    match r.bits 1 with
    | none => .short
    | some (final, r) =>
    match r.bits 2 with
    | none => .short
    | some (typ, r) =>
      let next (out : Array UInt8) (r : BitRd) : RawEnd :=
        if final == 1 then .done out r else blocks fuel out r
      if typ == 0 then
        let r := r.align
        match r.rest with
        | l0 :: l1 :: n0 :: n1 :: rest =>
          let len := l0.toNat + 256 * l1.toNat
          let nlen := n0.toNat + 256 * n1.toNat
          if len + nlen != 65535 then .bad else
          match takeBytes len rest out with
          | none => .short
          | some (out, rest) => next out ⟨rest, 0, 0⟩
        | _ => .short
      else if typ == 1 then
        match codes fixedLit fixedDist fuel out r with
        | .done out r => next out r
        | .bad => .bad | .short => .short | .fuel => .fuel
      else if typ == 2 then
        match dynamicTables r with
        | none => .short
        | some none => .bad
        | some (some (lit, dist, r)) =>
          match codes lit dist fuel out r with
          | .done out r => next out r
          | .bad => .bad | .short => .short | .fuel => .fuel
      else .bad

/-- zlib stream: header, DEFLATE data, Adler-32; trailing bytes ignored.
    `ok payload`, or `err transform` for every rejected stream. -/
def inflate (input : Bytes) : Res Bytes :=
  match input with
  | cmf :: flg :: rest =>
    if (cmf.toNat * 256 + flg.toNat) % 31 != 0 then .err .transform      -- incorrect header check
    else if cmf.toNat % 16 != 8 then .err .transform                      -- unknown compression method
    else if cmf.toNat / 16 > 7 then .err .transform                       -- invalid window size
    else if flg.toNat / 32 % 2 == 1 then .err .transform                  -- FDICT: needs a dictionary
    else
      match blocks (8 * rest.length + 8) (Array.mkEmpty (4 * rest.length)) ⟨rest, 0, 0⟩ with
      | .done out r =>
        match r.align.rest with
        | a :: b :: c :: d :: _ =>
          let data := out.toList
          if ((a.toNat * 256 + b.toNat) * 256 + c.toNat) * 256 + d.toNat == adler32 data then .ok data
          else .err .transform                                             -- incorrect data check
        | _ => .err .transform                                             -- truncated trailer
      | .bad => .err .transform
      | .short => .err .transform
      | .fuel => .panic "inflate: out of fuel"
  | _ => .err .transform

end Parsley.Inflate
