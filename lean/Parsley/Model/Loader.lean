/-
  Model of the document loader of src/pdf_lib/pdf_traverse_xref.rs (properties C03 and C04):

    parse_data              header scan, leading-garbage view, backward scans, startxref   (720-881)
    parse_xref_stream       indirect object at the cursor, view on its content, XrefStreamP (99-183)
    parse_xref_section      XrefSectP | fallback to a stream; trailer; hybrid /XRefStm      (190-297)
    get_xref_info           the /Prev loop: cursorset, idset keyed by (num,gen), first seen wins,
                            root from the first section that has one                         (302-372)
    info_from_xref_entries  in-use -> InFile, in-stream -> Stream(container,0), free dropped (375-433)
    parse_objects           first pass + identity check, second pass for InsufficientContext,
                            object-stream pass in BTreeSet order                             (439-692)
  with the pieces of src/pdf_lib/pdf_file.rs (HeaderP, TrailerP, StartXrefP) and
  src/pcore/parsebuffer.rs (scan, backward_scan, check_cursor, set_cursor) they use.

  Written after the code AS IT IS (same exits, in the same order).  `exit_log!` is the outcome
  `Out.reject`; every Rust partial operation inside the component parsers is an explicit
  `panic` outcome of their models and is propagated, never totalised.

  The component parsers are the models of the other properties, reused unchanged:
    Prim/Obj (C02, C15, C16)  tokens, parse_pdf_obj, DictP's loop
    Indirect (C05)            parse_pdf_indirect_obj with the context's definitions
    Xref (C13)                XrefSectP, XrefStreamP (dictionary, /W, /Index, rows)
    ObjStm (C14)              ObjStreamP
    Filters/Inflate (C06), Predictor (C07)   the decoders both stream parsers call
  The buffer after the leading-garbage view is the byte list `data.drop n` with a view-relative
  cursor (that this is legitimate is C17).  Import-free apart from these models.
-/
import Parsley.Model.Indirect
import Parsley.Model.Xref
import Parsley.Model.ObjStm
import Parsley.Model.Filters
import Parsley.Model.Predictor
namespace Parsley.Loader
open Parsley Parsley.Prim Parsley.Obj Parsley.Indirect

/-! ## outcomes -/

/-- outcome of a loader step: a value, `exit_log!` (process::exit(1)), or a panic site reached
    inside a component parser -/
inductive Out (α : Type) where
  | ok (v : α)
  | reject
  | panic (site : String)
deriving Repr

def Out.isPanic {α : Type} : Out α → Bool | .panic _ => true | _ => false

/-! ## keywords and keys -/

def kwPdf : Bytes := [37, 80, 68, 70, 45]                                   -- %PDF-
def kwEOF : Bytes := [37, 37, 69, 79, 70]                                   -- %%EOF
def kwStartxref : Bytes := [115, 116, 97, 114, 116, 120, 114, 101, 102]     -- startxref
def kwTrailer : Bytes := [116, 114, 97, 105, 108, 101, 114]                 -- trailer
def kRoot : Bytes := [82, 111, 111, 116]
def kPrev : Bytes := [80, 114, 101, 118]
def kEncrypt : Bytes := [69, 110, 99, 114, 121, 112, 116]
def kXRefStm : Bytes := [88, 82, 101, 102, 83, 116, 109]
def kDecodeParms : Bytes := [68, 101, 99, 111, 100, 101, 80, 97, 114, 109, 115]
def kPredictor : Bytes := [80, 114, 101, 100, 105, 99, 116, 111, 114]
def kColors : Bytes := [67, 111, 108, 111, 114, 115]
def kColumns : Bytes := [67, 111, 108, 117, 109, 110, 115]
def kBpc : Bytes := [66, 105, 116, 115, 80, 101, 114, 67, 111, 109, 112, 111, 110, 101, 110, 116]

/-! ## ParseBuffer::scan / backward_scan -/

/-- `scan(tag)` on the bytes from the cursor: index of the first window equal to `tag`
    (`windows(tag.len())`: a buffer shorter than the tag has no window) -/
def scanFwd (tag : Bytes) : Bytes → Option Nat
  | [] => none
  | b :: t => if tag.isPrefixOf (b :: t) then some 0 else (scanFwd tag t).map (· + 1)

/-- `backward_scan(tag)` on `buf[start..ofs]`: index of the LAST window equal to `tag`; the
    cursor is moved there (`ofs -= skip` with `skip = ofs - index`) -/
def scanBack (tag : Bytes) : Bytes → Option Nat
  | [] => none
  | b :: t =>
    match scanBack tag t with
    | some k => some (k + 1)
    | none => if tag.isPrefixOf (b :: t) then some 0 else none

/-! ## the decoders handed to the stream parsers (C06 / C07 models) -/

mutual
/-- `PDFObjT` as far as the filter code looks at it -/
def toFObj : Obj → Filters.Obj
  | .null => .null
  | .bool b => .bool b
  | .int n => .int n
  | .name b => .name b
  | .str b => .str b
  | .ref n g => .ref n g
  | .arr xs => .arr (toFList xs)
  | .dict kvs => .dict (toFKvs kvs)
  | .real _ _ => .other
  | .comment _ => .other
  | .stream _ _ => .other
def toFList : List Obj → List Filters.Obj
  | [] => []
  | x :: t => toFObj x :: toFList t
def toFKvs : List (Bytes × Obj) → List (Bytes × Filters.Obj)
  | [] => []
  | (k, v) :: t => (k, toFObj v) :: toFKvs t
end

/-- the integer option of a /DecodeParms dictionary (`None` if absent or not an Integer) -/
def fInt (d : Filters.Dict) (k : Bytes) : Option Int :=
  match Filters.lookup k d with
  | some (.int i) => some i
  | _ => none

/-- the code behind `FlateDecode::transform` that C06 leaves as parameters: the predictor tail is
    the C07 model; DCTDecode (jpeg-decoder) is opaque and never succeeds on the data the loader
    feeds it (a JPEG is neither a cross-reference nor an object stream) -/
def ext : Filters.Ext where
  post := fun d decoded =>
    Pred.transformTail (fInt d kPredictor) (fInt d kColors) (fInt d kColumns) (fInt d kBpc) decoded
  dct := fun _ => .err .transform

/-- decoder for `ObjStreamP` -/
def objDec : ObjStm.Decoder := fun f inp => Filters.applyFilter ext ⟨f.name, f.parms.map toFKvs⟩ inp

/-! ### the stream dictionary as the C13 model reads it -/

def atomOf (idx : Nat) : Obj → Xref.Atom
  | .int v => .int v
  | .name b => .name b
  | .dict _ => .dict idx
  | .null => .null
  | _ => .other

def atomsOf : List Obj → Nat → List Xref.Atom
  | [], _ => []
  | x :: t, k => atomOf k x :: atomsOf t (k + 1)

def valOf : Obj → Xref.Val
  | .arr xs => .arr (atomsOf xs 0)
  | o => .atom (atomOf 0 o)

def toXDict : List (Bytes × Obj) → Xref.Dict
  | [] => []
  | (k, v) :: t => (k, valOf v) :: toXDict t

/-- the /DecodeParms dictionary meant by the tag `atomOf` assigned (position in the array; 0 for a
    single dictionary) -/
def parmsAt (kvs : List (Bytes × Obj)) (tag : Nat) : Option Filters.Dict :=
  match dictGet kDecodeParms kvs with
  | some (.dict d) => some (toFKvs d)
  | some (.arr xs) =>
    match xs[tag]? with
    | some (.dict d) => some (toFKvs d)
    | _ => none
  | _ => none

/-- decoder for `XrefStreamP` -/
def xrefXf (kvs : List (Bytes × Obj)) : Xref.Filter → Bytes → Res Bytes := fun f inp =>
  Filters.applyFilter ext ⟨f.name, match f.opts with | some t => parmsAt kvs t | none => none⟩ inp

/-! ## pdf_file.rs: StartXrefP, DictP, TrailerP -/

/-- `StartXrefP::parse` -/
def startXrefP (s : Bytes) (i : Nat) : Res Nat × Nat :=
  match exact kwStartxref s i with
  | (false, _) => (.err .guard, i)
  | (true, j) =>
    match wsEOL false s j with
    | (.err k, c) => (.err k, c)
    | (.panic p, c) => (.panic p, c)
    | (.ok _, j1) =>
      match integerP s j1 with
      | (.err k, c) => (.err k, c)
      | (.panic p, c) => (.panic p, c)
      | (.ok n, j2) => if n.val < 0 then (.err .guard, j2) else (.ok n.val.toNat, j2)   -- usize::try_from

/-- `DictP::parse` called directly (not through `parse_pdf_obj`): `exact("<<")`, then the loop of
    Model/Obj with the context's depth; returns the dictionary, the cursor and `cur_depth` -/
def dictP (cur max : Nat) (s : Bytes) (i : Nat) : (Res (List (Bytes × Obj)) × Nat) × Nat :=
  match exact [60, 60] s i with
  | (false, _) => ((.err .guard, i), cur)
  | (true, j) => dictLoop (parseObjB max (max - cur)) (s.length + 1 - i) cur s j [] []

/-- `TrailerP::parse` (every failure is re-wrapped as a GuardError; only the cursor differs) -/
def trailerP (c : Ctx) (s : Bytes) (i : Nat) : (Res (List (Bytes × Obj)) × Nat) × Ctx :=
  match exact kwTrailer s i with
  | (false, _) => ((.err .guard, i), c)
  | (true, j) =>
    match wsEOL true s j with
    | (.err k, j1) => ((.err k, j1), c)
    | (.panic p, j1) => ((.panic p, j1), c)
    | (.ok _, j1) =>
      match dictP c.cur c.max s j1 with
      | ((.ok d, j2), cur') => ((.ok d, j2), { c with cur := cur' })
      | ((.err _, j2), cur') => ((.err .guard, j2), { c with cur := cur' })
      | ((.panic p, j2), cur') => ((.panic p, j2), { c with cur := cur' })

/-! ## the loader state: `PDFObjContext` = the C05 context + the `encrypted` flag -/

structure St where
  ctx : Ctx
  enc : Bool

/-- `(Vec<XrefEntT>, Option<Root>, Option<Prev>)` -/
abbrev SectInfo := List Xref.Ent × Option Obj × Option Nat

/-- a step of the xref traversal: outcome, cursor of `pb` afterwards, state afterwards -/
abbrev XStep := Out (Option SectInfo) × Nat × St

/-- `parse_xref_stream` -/
def parseXrefStream (st : St) (s : Bytes) (i : Nat) : XStep :=
  match parseIndirect st.ctx s i with
  | ((.err _, j), c) => (.ok none, j, { st with ctx := c })
  | ((.panic p, j), c) => (.panic p, j, { st with ctx := c })
  | ((.ok ind, j), c) =>
    let st' : St := { st with ctx := c }
    match ind.val.obj.val with
    | .stream kvs sc =>
      -- RestrictView::new(content.start(), content.size()).transform(pb)
      if !(sc.size ≤ s.length && sc.start ≤ s.length - sc.size) then (.ok none, j, st')
      else
        match Xref.xrefStreamP st'.enc (toXDict kvs) (xrefXf kvs) ((s.drop sc.start).take sc.size) 0 with
        | (.err _, _) => (.ok none, j, st')
        | (.panic p, _) => (.panic p, j, st')
        | (.ok ents, _) => (.ok (some (ents.map (·.val), dictGet kRoot kvs, ObjStm.getUsize kvs kPrev)), j, st')
    | _ => (.ok (some ([], none, none)), j, st')      -- not a stream: an empty section without root

/-- `parse_xref_section` -/
def parseXrefSection (st : St) (s : Bytes) (i : Nat) : XStep :=
  match Xref.xrefSectP s i with
  | (.panic p, c) => (.panic p, c, st)
  | (.err _, _) => parseXrefStream st s i                     -- set_cursor_unsafe(start)
  | (.ok xrs, c) =>
    let xrefs := Xref.sectEnts xrs.val
    match scanFwd kwTrailer (s.drop c) with                   -- pb.scan(b"trailer")
    | none => (.ok (some (xrefs, none, none)), c, st)
    | some k =>
      match trailerP st.ctx s (c + k) with
      | ((.panic p, c1), ctx1) => (.panic p, c1, { st with ctx := ctx1 })
      | ((.err _, c1), ctx1) => (.ok (some (xrefs, none, none)), c1, { st with ctx := ctx1 })
      | ((.ok d, c1), ctx1) =>
        let prev := ObjStm.getUsize d kPrev
        let root := dictGet kRoot d
        let st1 : St := { ctx := ctx1, enc := st.enc || (dictGet kEncrypt d).isSome }
        match ObjStm.getUsize d kXRefStm with
        | none => (.ok (some (xrefs, root, prev)), c1, st1)
        | some x =>
          if !(x ≤ s.length) then (.reject, c1, st1)          -- pb.set_cursor(xrstart) fails
          else
            match parseXrefStream st1 s x with
            | (.ok (some (ents, _, _)), c2, st2) => (.ok (some (xrefs ++ ents, root, prev)), c2, st2)
            | (.ok none, c2, st2) => (.reject, c2, st2)
            | (.reject, c2, st2) => (.reject, c2, st2)
            | (.panic p, c2, st2) => (.panic p, c2, st2)

/-- `for e in ents { if idset.insert((obj, gen)) { xrefs.push(e) } }` -/
def addEnts : List Xref.Ent → List (Nat × Nat) → List Xref.Ent → List (Nat × Nat) × List Xref.Ent
  | [], idset, xrefs => (idset, xrefs)
  | e :: t, idset, xrefs =>
    if idset.contains (e.obj, e.gen) then addEnts t idset xrefs
    else addEnts t ((e.obj, e.gen) :: idset) (xrefs ++ [e])

/-- the `loop` of `get_xref_info`.  `cursorset`/`idset` are the two `BTreeSet`s (only membership
    is ever asked), `xrefs` the entries kept so far, `root` the root seen so far. -/
def xrefLoop : Nat → St → Bytes → Nat → List Nat → List (Nat × Nat) → List Xref.Ent → Option Obj →
    Out (List Xref.Ent × Obj) × St
  | 0, st, _, _, _, _, _, _ => (.panic "get_xref_info: fuel", st)
  | f + 1, st, s, next, cursorset, idset, xrefs, root =>
    if cursorset.contains next then (.reject, st)                       -- "Xref cycle detected"
    else if !(next < s.length) then (.reject, st)                       -- !check_cursor(next)
    else
      match parseXrefSection st s next with
      | (.panic p, _, st1) => (.panic p, st1)
      | (.reject, _, st1) => (.reject, st1)
      | (.ok x1, c1, st1) =>
        let second : XStep :=
          match x1 with
          | some i => (.ok (some i), c1, st1)
          | none => parseXrefStream st1 s c1                            -- second try, at the cursor left behind
        match second with
        | (.panic p, _, st2) => (.panic p, st2)
        | (.reject, _, st2) => (.reject, st2)
        | (.ok none, _, st2) => (.reject, st2)                          -- "No xref found"
        | (.ok (some (ents, rt, prev)), _, st2) =>
          let root' : Option (Option Obj) :=                            -- outer none = "No Root specified"
            match root with
            | some r => some (some r)
            | none => match rt with | some r => some (some r) | none => none
          match root' with
          | none => (.reject, st2)
          | some root' =>
            let (idset', xrefs') := addEnts ents idset xrefs
            match prev with
            | none =>
              match root' with
              | some r => (.ok (xrefs', r), st2)
              | none => (.reject, st2)                                  -- "No root object found"
            | some p => xrefLoop f st2 s p (next :: cursorset) idset' xrefs' root'

/-- `get_xref_info`: at most one iteration per distinct in-range offset -/
def getXrefInfo (st : St) (s : Bytes) (start : Nat) : Out (List Xref.Ent × Obj) × St :=
  xrefLoop (s.length + 1) st s start [] [] [] none

/-! ## info_from_xref_entries -/

inductive ObjInfo where
  | inFile (id gen ofs : Nat)
  | inStm (id gen : Nat)
deriving Repr, DecidableEq

def infoOf : List Xref.Ent → List ObjInfo
  | [] => []
  | e :: t =>
    match e.st with
    | .free _ => infoOf t
    | .inUse ofs => .inFile e.obj e.gen ofs :: infoOf t
    | .inStream sobj _ => .inStm sobj 0 :: infoOf t

/-! ## parse_objects -/

/-- `BTreeSet<(usize, usize)>::insert` -/
def setInsert (k : ObjId) : List ObjId → List ObjId
  | [] => [k]
  | k' :: t => if idLt k k' then k :: k' :: t else if idLt k' k then k' :: setInsert k t else k' :: t

/-- the first loop of `parse_objects`: `os` = obj_streams, `sp` = second_pass (reversed) -/
def firstPass : List ObjInfo → Ctx → Bytes → List ObjId → List (Nat × Nat × Nat) →
    Out (List ObjId × List (Nat × Nat × Nat)) × Ctx
  | [], c, _, os, sp => (.ok (os, sp.reverse), c)
  | .inStm id gen :: t, c, s, os, sp => firstPass t c s (setInsert (id, gen) os) sp
  | .inFile id gen ofs :: t, c, s, os, sp =>
    if (defsGet (id, gen) c.defs).isSome then firstPass t c s os sp        -- already parsed
    else if !(ofs < s.length) then (.reject, c)                            -- !check_cursor(ofs)
    else
      match parseIndirect c s ofs with
      | ((.ok io, _), c1) =>
        if (io.val.num, io.val.gen) != (id, gen) then (.reject, c1)         -- identity check
        else firstPass t c1 s os sp
      | ((.err .ctx, _), c1) => firstPass t c1 s os ((id, gen, ofs) :: sp)  -- InsufficientContext
      | ((.err _, _), c1) => (.reject, c1)
      | ((.panic p, _), c1) => (.panic p, c1)

/-- the second loop -/
def secondPass : List (Nat × Nat × Nat) → Ctx → Bytes → Out Unit × Ctx
  | [], c, _ => (.ok (), c)
  | (id, gen, ofs) :: t, c, s =>
    if (defsGet (id, gen) c.defs).isSome then secondPass t c s
    else if !(ofs < s.length) then (.reject, c)
    else
      match parseIndirect c s ofs with
      | ((.ok io, _), c1) =>
        if (io.val.num, io.val.gen) != (id, gen) then (.reject, c1) else secondPass t c1 s
      | ((.err _, _), c1) => (.reject, c1)
      | ((.panic p, _), c1) => (.panic p, c1)

/-- `defined_obj_streams`: the stream objects bound to the collected identifiers, looked up
    BEFORE any object stream is parsed (the `Rc`s are cloned into the set) -/
def definedStreams : List ObjId → Defs → List (ObjId × List (Bytes × Obj) × StreamContent)
  | [], _ => []
  | id :: t, defs =>
    match defsGet id defs with
    | some ⟨.stream kvs sc, _, _⟩ => (id, kvs, sc) :: definedStreams t defs
    | _ => definedStreams t defs

/-- the last loop: every failure is only logged.  `hofs` is the absolute start of the document view. -/
def objStmPass (hofs : Nat) (s : Bytes) : List (ObjId × List (Bytes × Obj) × StreamContent) → ObjStm.Ctx →
    Out Unit × ObjStm.Ctx
  | [], oc => (.ok (), oc)
  | (_, kvs, sc) :: t, oc =>
    if !(sc.size ≤ s.length && sc.start ≤ s.length - sc.size) then objStmPass hofs s t oc   -- view fails: continue
    else
      match ObjStm.objStmParse objDec (hofs + sc.start) oc kvs ((s.drop sc.start).take sc.size) 0 with
      | (.panic p, oc') => (.panic p, oc')
      | (_, oc') => objStmPass hofs s t oc'

/-- the context as `ObjStreamP` sees it (locations of the bound values are never read) -/
def valDefs : Defs → ObjStm.Defs
  | [] => []
  | (k, v) :: t => (k, v.val) :: valDefs t

/-- `parse_objects`; the result is the final definitions map -/
def parseObjects (hofs : Nat) (st : St) (infos : List ObjInfo) (s : Bytes) : Out ObjStm.Defs :=
  match firstPass infos st.ctx s [] [] with
  | (.panic p, _) => .panic p
  | (.reject, _) => .reject
  | (.ok (os, sp), c1) =>
    match secondPass sp c1 s with
    | (.panic p, _) => .panic p
    | (.reject, _) => .reject
    | (.ok _, c2) =>
      let oc : ObjStm.Ctx := ⟨valDefs c2.defs, ⟨c2.cur, c2.max⟩, st.enc⟩
      match objStmPass hofs s (definedStreams os c2.defs) oc with
      | (.panic p, _) => .panic p
      | (.reject, _) => .reject
      | (.ok _, oc') => .ok oc'.defs

/-! ## parse_data -/

/-- what `parse_data` returns: the context's definitions and the root identifier -/
structure Loaded where
  defs : ObjStm.Defs
  root : ObjId

/-- everything after the header view has been established: `s` is the document view, `hofs` the
    number of leading garbage bytes -/
def loadView (hofs : Nat) (s : Bytes) : Out Loaded :=
  -- HeaderP: the version comment (the optional binary comment cannot fail and is not used)
  match comment s 0 with
  | (.err _, _) => .reject
  | (.panic p, _) => .panic p
  | (.ok _, _) =>
    -- set_cursor_unsafe(buflen); backward_scan(%%EOF): the cursor moves to the last %%EOF if any
    let eofCur := match scanBack kwEOF s with | some k => k | none => s.length
    match scanBack kwStartxref (s.take eofCur) with
    | none => .reject
    | some sx =>
      match startXrefP s sx with
      | (.err _, _) => .reject
      | (.panic p, _) => .panic p
      | (.ok ofs, _) =>
        if !(ofs < s.length) then .reject                                 -- !check_cursor(sxref_offset)
        else
          match getXrefInfo ⟨Ctx.new 50, false⟩ s ofs with
          | (.panic p, _) => .panic p
          | (.reject, _) => .reject
          | (.ok (ents, rootRef), st) =>
            match parseObjects hofs st (infoOf ents) s with
            | .panic p => .panic p
            | .reject => .reject
            | .ok defs =>
              match rootRef with
              | .ref n g => .ok ⟨defs, (n, g)⟩
              | _ => .reject                                              -- "Root object is not a reference!"

/-- `parse_data(path, data)` -/
def parseData (data : Bytes) : Out Loaded :=
  match scanFwd kwPdf data with
  | none => .reject                                                       -- "Cannot find PDF magic"
  | some n => loadView n (data.drop n)

end Parsley.Loader
