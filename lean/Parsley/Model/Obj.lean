/-
  Model of the object parser of src/pdf_lib/pdf_obj.rs:
  ReferenceP, PDFObjP::parse_internal (the dispatcher with its look-ahead and
  rewinds), ArrayP, DictP, PDFObjP::parse and the depth wrapper parse_pdf_obj
  (enter_obj / leave_obj on the context's cur_depth / max_depth).

  Recursion: structural on a nesting budget `b` (the wrapper is entered at most
  `max_depth - cur_depth` times on any path); the element loops of arrays and
  dictionaries take a fuel bounded by the remaining input.  Import-free.
-/
import Parsley.Model.Prim
namespace Parsley.Obj
open Parsley Parsley.Prim

/-- `PDFObjT` without inner locations (Rust equality ignores them).  A
    dictionary is its `BTreeMap`: an association list sorted by key bytes. -/
inductive Obj where
  | null
  | bool (b : Bool)
  | int (n : Int)
  | real (n : Int) (d : Nat)
  | str (bs : Bytes)
  | name (bs : Bytes)
  | ref (n g : Nat)
  | arr (xs : List Obj)
  | dict (kvs : List (Bytes × Obj))
  | comment (bs : Bytes)
  | stream (kvs : List (Bytes × Obj)) (sc : StreamContent)
deriving Inhabited

/-- lexicographic `<` on byte strings (`Vec<u8>`'s `Ord`) -/
def bytesLt : Bytes → Bytes → Bool
  | [], [] => false
  | [], _ :: _ => true
  | _ :: _, [] => false
  | a :: s, b :: t => if a < b then true else if b < a then false else bytesLt s t

/-- `BTreeMap::insert` -/
def dictInsert (k : Bytes) (v : Obj) : List (Bytes × Obj) → List (Bytes × Obj)
  | [] => [(k, v)]
  | (k', v') :: t =>
    if bytesLt k k' then (k, v) :: (k', v') :: t
    else if bytesLt k' k then (k', v') :: dictInsert k v t
    else (k, v) :: t

def dictGet (k : Bytes) : List (Bytes × Obj) → Option Obj
  | [] => none
  | (k', v) :: t => if k == k' then some v else dictGet k t

abbrev R := Res (Located Obj) × Nat

/-- `is_zero() || is_usize()` on an `i64` -/
def isUsize (n : Int) : Bool := 0 ≤ n

/-- `ReferenceP::parse` : (num, gen) -/
def referenceP (s : Bytes) (i : Nat) : Res (Nat × Nat) × Nat :=
  match integerP s i with
  | (.err k, j) => (.err k, j)
  | (.panic p, j) => (.panic p, j)
  | (.ok num, j) =>
    if !isUsize num.val then (.err .guard, i)
    else
      match wsEOL true s j with
      | (.err k, j1) => (.err k, j1)
      | (.panic p, j1) => (.panic p, j1)
      | (.ok _, j1) =>
        match integerP s j1 with
        | (.err k, j2) => (.err k, j2)
        | (.panic p, j2) => (.panic p, j2)
        | (.ok gen, j2) =>
          if !isUsize gen.val then (.err .guard, j1)
          else
            match wsEOL true s j2 with
            | (.err k, j3) => (.err k, j3)
            | (.panic p, j3) => (.panic p, j3)
            | (.ok _, j3) =>
              match exact [82] s j3 with
              | (false, _) => (.err .guard, j3)
              | (true, j4) => (.ok (num.val.toNat, gen.val.toNat), j4)

/-- a regular character continues a keyword/number token -/
def isRegular (b : UInt8) : Bool := !isNameTerm b

/-- the number / reference branch of `parse_internal` -/
def numberOrRef (s : Bytes) (i : Nat) : Res Obj × Nat :=
  match realP s i with
  | (.err k, j) => (.err k, j)
  | (.panic p, j) => (.panic p, j)
  | (.ok r, j) =>
    let n := r.val.1
    let d := r.val.2
    -- `is_integer`: numerator representable as i64 and denominator 1
    if !(d == 1 && -(2 ^ 63 : Int) ≤ n && n ≤ (2 ^ 63 - 1 : Int)) then (.ok (.real n d), j)
    else
      match wsEOL false s j with
      | (.panic p, j1) => (.panic p, j1)
      | (.err _, _) => (.ok (.int n), j)
      | (.ok _, j1) =>
        match integerP s j1 with
        | (.panic p, j2) => (.panic p, j2)
        | (.err _, _) => (.ok (.int n), j)
        | (.ok _, j2) =>
          match wsEOL false s j2 with
          | (.panic p, j3) => (.panic p, j3)
          | (.err _, _) => (.ok (.int n), j)
          | (.ok _, j3) =>
            -- `R` must end the token (fix: no `1 2 RG`)
            if startsWith [82] s j3 && !((peek s (j3 + 1)).any isRegular) then
              match referenceP s i with
              | (.ok (a, g), j4) => (.ok (.ref a g), j4)
              | (.err k, j4) => (.err k, j4)
              | (.panic p, j4) => (.panic p, j4)
            else (.ok (.int n), j)

/-- an element parser threading the context's current depth -/
abbrev Elem := Nat → Bytes → Nat → R × Nat

/-- the `while !end` loop of `ArrayP::parse` -/
def arrayLoop (elem : Elem) : Nat → Nat → Bytes → Nat → List Obj → (Res (List Obj) × Nat) × Nat
  | 0, cur, _, i, _ => ((.panic "array loop: fuel", i), cur)
  | f + 1, cur, s, i, acc =>
    match wsEOL true s i with
    | (.err k, j) => ((.err k, j), cur)
    | (.panic p, j) => ((.panic p, j), cur)
    | (.ok _, j) =>
      match exact [93] s j with
      | (true, k) => ((.ok acc.reverse, k), cur)
      | (false, _) =>
        match elem cur s j with
        | ((.ok o, k), cur') => arrayLoop elem f cur' s k (o.val :: acc)
        | ((.err e, k), cur') => ((.err e, k), cur')
        | ((.panic p, k), cur') => ((.panic p, k), cur')

/-- the `while !end` loop of `DictP::parse`; `names` are the keys that already
    have a non-null value -/
def dictLoop (elem : Elem) :
    Nat → Nat → Bytes → Nat → List Bytes → List (Bytes × Obj) → (Res (List (Bytes × Obj)) × Nat) × Nat
  | 0, cur, _, i, _, _ => ((.panic "dict loop: fuel", i), cur)
  | f + 1, cur, s, i, names, map =>
    match wsEOL true s i with
    | (.err k, j) => ((.err k, j), cur)
    | (.panic p, j) => ((.panic p, j), cur)
    | (.ok _, j) =>
      match exact [62, 62] s j with
      | (true, k) => ((.ok map, k), cur)
      | (false, _) =>
        match nameP s j with
        | (.err e, k) => ((.err e, k), cur)
        | (.panic p, k) => ((.panic p, k), cur)
        | (.ok key, k) =>
          if names.contains key.val then ((.err .guard, k), cur)
          else
            match wsEOL true s k with
            | (.err e, k1) => ((.err e, k1), cur)
            | (.panic p, k1) => ((.panic p, k1), cur)
            | (.ok _, k1) =>
              match elem cur s k1 with
              | ((.err e, k2), cur') => ((.err e, k2), cur')
              | ((.panic p, k2), cur') => ((.panic p, k2), cur')
              | ((.ok o, k2), cur') =>
                match o.val with
                | .null => dictLoop elem f cur' s k2 names map
                | v => dictLoop elem f cur' s k2 (key.val :: names) (dictInsert key.val v map)

/-- wrap a token parser's located result as the dispatcher's `PDFObjT` result (`x.unwrap()`, `?`) -/
def liftTok {α : Type} (f : α → Obj) (cur : Nat) : Res (Located α) × Nat → (Res Obj × Nat) × Nat
  | (.ok v, j) => ((.ok (f v.val), j), cur)
  | (.err k, j) => ((.err k, j), cur)
  | (.panic p, j) => ((.panic p, j), cur)

/-- `PDFObjP::parse_internal`, given the parser for nested objects -/
def parseInternal (elem : Elem) (cur : Nat) (s : Bytes) (i : Nat) : (Res Obj × Nat) × Nat :=
  match peek s i with
  | none => ((.err .eob, i), cur)
  | some c =>
    if c == 116 || c == 102 then
      liftTok (fun b => Obj.bool b) cur (boolean s i)
    else if c == 110 then
      liftTok (fun _ => Obj.null) cur (null s i)
    else if c == 40 then
      liftTok (fun v => Obj.str v) cur (rawLitString s i)
    else if c == 37 then
      liftTok (fun v => Obj.comment v) cur (comment s i)
    else if c == 47 then
      liftTok (fun v => Obj.name v) cur (nameP s i)
    else if c == 91 then
      -- ArrayP::parse: `exact("[")` succeeds here
      match arrayLoop elem (s.length + 1 - i) cur s (i + 1) [] with
      | ((.ok xs, j), cur') => ((.ok (.arr xs), j), cur')
      | ((.err k, j), cur') => ((.err k, j), cur')
      | ((.panic p, j), cur') => ((.panic p, j), cur')
    else if c == 60 then
      if peek s (i + 1) == some 60 then
        match dictLoop elem (s.length + 1 - i) cur s (i + 2) [] [] with
        | ((.ok kvs, j), cur') => ((.ok (.dict kvs), j), cur')
        | ((.err k, j), cur') => ((.err k, j), cur')
        | ((.panic p, j), cur') => ((.panic p, j), cur')
      else
        liftTok (fun v => Obj.str v) cur (hexString s i)
    else if !(isDigit c || c == 45 || c == 43 || c == 46) then ((.err .guard, i), cur)
    else (numberOrRef s i, cur)

/-- `PDFObjP::parse`: optional whitespace, then `parse_internal`; the value is located from the
    first byte after the whitespace.  `cur1` is the context depth inside the wrapper. -/
def objParse (el : Elem) (cur1 : Nat) (s : Bytes) (i : Nat) : R × Nat :=
  match wsEOL true s i with
  | (.err k, j) => ((.err k, j), cur1)
  | (.panic p, j) => ((.panic p, j), cur1)
  | (.ok _, start) =>
    match parseInternal el cur1 s start with
    | ((.ok v, j), c) => ((.ok ⟨v, start, j⟩, j), c)
    | ((.err k, j), c) => ((.err k, j), c)
    | ((.panic p, j), c) => ((.panic p, j), c)

/-- `leave_obj()`: `assert!(cur_depth != 0); cur_depth -= 1` -/
def leaveObj : R × Nat → R × Nat
  | (r, cur2) => if cur2 == 0 then ((.panic "leave_obj: assert", r.2), cur2) else (r, cur2 - 1)

/-- `parse_pdf_obj` (the depth wrapper around `PDFObjP::parse`).
    `b` is the nesting budget; `cur`/`max` are the context's depth fields. -/
def parseObjB (max : Nat) : Nat → Elem
  | b, cur, s, i =>
    if cur == max then ((.err .guard, i), cur)          -- enter_obj() = false
    else
      match b with
      | 0 => ((.panic "parse_pdf_obj: budget", i), cur)
      | b + 1 => leaveObj (objParse (parseObjB max b) (cur + 1) s i)   -- enter_obj(); parse; leave_obj()

/-- The context fields the object parser reads and writes. -/
structure Depth where
  cur : Nat
  max : Nat
deriving DecidableEq, Repr

/-- `parse_pdf_obj(ctxt, buf)` -/
def parseObj (c : Depth) (s : Bytes) (i : Nat) : R × Depth :=
  let (r, cur') := parseObjB c.max (c.max - c.cur) c.cur s i
  (r, { c with cur := cur' })

/-- nesting depth of a value = number of nested `parse_pdf_obj` activations
    needed to parse it -/
def maxList (l : List Nat) : Nat := l.foldl Nat.max 0

mutual
def depth : Obj → Nat
  | .arr xs => 1 + depthList xs
  | .dict kvs => 1 + depthKvs kvs
  | .stream kvs _ => 1 + depthKvs kvs
  | _ => 1
def depthList : List Obj → Nat
  | [] => 0
  | x :: t => Nat.max (depth x) (depthList t)
def depthKvs : List (Bytes × Obj) → Nat
  | [] => 0
  | (_, v) :: t => Nat.max (depth v) (depthKvs t)
end

end Parsley.Obj
