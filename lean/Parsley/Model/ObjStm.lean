/-
  Model of the object-stream parser of src/pdf_lib/pdf_streams.rs
  (ObjStreamP: get_dict_info, parse_metadata, parse_stream, parse) together with
  the pieces it calls: StreamT::filters (pdf_obj.rs), RestrictView /
  RestrictViewFrom (pcore/transforms.rs), PDFObjContext::register_obj and
  ParseBuffer::set_cursor.

  The token parsers (WhitespaceEOL, IntegerP) and parse_pdf_obj are the models
  of Model/Prim.lean and Model/Obj.lean.  The filter decoders are a parameter
  `dec` (C06 owns them).  The model mirrors the code AFTER the fix
  pending_fixes/C14-01 (parse_stream seeks to the declared offset); the loop
  as it was before the fix is kept as `streamLoopOld` (witness of defect #17).
  Import-free apart from the two models.
-/
import Parsley.Model.Obj
namespace Parsley.ObjStm
open Parsley Parsley.Prim Parsley.Obj

/-! ## the context: `PDFObjContext` -/

/-- `ObjectId = (usize, usize)` -/
abbrev ObjId := Nat × Nat

/-- the derived `Ord` of a pair -/
def idLt (a b : ObjId) : Bool := a.1 < b.1 || (a.1 == b.1 && a.2 < b.2)

/-- `defns : BTreeMap<ObjectId, _>` as an association list in key order -/
abbrev Defs := List (ObjId × Obj)

/-- `BTreeMap::insert`: the previous value (if any) and the updated map.
    The new value REPLACES an existing one (`register_obj` as written). -/
def defsInsert (k : ObjId) (v : Obj) : Defs → Option Obj × Defs
  | [] => (none, [(k, v)])
  | (k', v') :: t =>
    if idLt k k' then (none, (k, v) :: (k', v') :: t)
    else if idLt k' k then
      let (old, t') := defsInsert k v t
      (old, (k', v') :: t')
    else (some v', (k, v) :: t)

/-- `lookup_obj` -/
def defsGet (k : ObjId) : Defs → Option Obj
  | [] => none
  | (k', v) :: t => if k == k' then some v else defsGet k t

/-- The fields of `PDFObjContext` that the object-stream parser reads or writes. -/
structure Ctx where
  defs : Defs
  depth : Depth
  encrypted : Bool

/-! ## dictionary accessors (`DictT::get_name`, `get_usize`, `get_dict`, `get_array`) -/

abbrev Dict := List (Bytes × Obj)

def getName (d : Dict) (k : Bytes) : Option Bytes :=
  match dictGet k d with | some (.name n) => some n | _ => none
def getUsize (d : Dict) (k : Bytes) : Option Nat :=
  match dictGet k d with
  | some (.int n) => if isUsize n then some n.toNat else none     -- `is_usize` guards `usize_val().unwrap()`
  | _ => none
def getDict (d : Dict) (k : Bytes) : Option Dict :=
  match dictGet k d with | some (.dict kv) => some kv | _ => none
def getArray (d : Dict) (k : Bytes) : Option (List Obj) :=
  match dictGet k d with | some (.arr xs) => some xs | _ => none

def kType : Bytes := [84, 121, 112, 101]
def kN : Bytes := [78]
def kFirst : Bytes := [70, 105, 114, 115, 116]
def kFilter : Bytes := [70, 105, 108, 116, 101, 114]
def kDecodeParms : Bytes := [68, 101, 99, 111, 100, 101, 80, 97, 114, 109, 115]
def nObjStm : Bytes := [79, 98, 106, 83, 116, 109]

/-- `ObjStreamP::get_dict_info` : (/N, /First) -/
def getDictInfo (d : Dict) : Res (Nat × Nat) :=
  match getName d kType with
  | none => .err .guard
  | some t =>
    if t != nObjStm then .err .guard
    else
      match getUsize d kN with
      | none => .err .guard
      | some n =>
        match getUsize d kFirst with
        | none => .err .guard
        | some f => .ok (n, f)

/-! ## `StreamT::filters` -/

structure Filter where
  name : Bytes
  parms : Option Dict

/-- the `zip` loop over /Filter and /DecodeParms arrays -/
def filtersZip : List Obj → List Obj → List Filter → Res (List Filter)
  | f :: ft, d :: dt, acc =>
    match f, d with
    | .name n, .null => filtersZip ft dt (⟨n, none⟩ :: acc)
    | .name n, .dict kv => filtersZip ft dt (⟨n, some kv⟩ :: acc)
    | .name _, _ => .err .guard
    | _, _ => .err .guard
  | _, _, acc => .ok acc.reverse

/-- the loop over a /Filter array without /DecodeParms -/
def filtersNames : List Obj → List Filter → Res (List Filter)
  | [], acc => .ok acc.reverse
  | .name n :: t, acc => filtersNames t (⟨n, none⟩ :: acc)
  | _ :: _, _ => .err .guard

/-- `StreamT::filters` -/
def filters (d : Dict) : Res (List Filter) :=
  match getName d kFilter with
  | some name =>
    match getDict d kDecodeParms with
    | some p => .ok [⟨name, some p⟩]
    | none => if (getArray d kDecodeParms).isSome then .err .guard else .ok [⟨name, none⟩]
  | none =>
    match getArray d kFilter with
    | some fa =>
      match getArray d kDecodeParms with
      | some da => if da.length != fa.length then .err .guard else filtersZip fa da []
      | none => filtersNames fa []
    | none => .ok []

def nFlate : Bytes := [70, 108, 97, 116, 101, 68, 101, 99, 111, 100, 101]
def nA85 : Bytes := [65, 83, 67, 73, 73, 56, 53, 68, 101, 99, 111, 100, 101]
def nAHex : Bytes := [65, 83, 67, 73, 73, 72, 101, 120, 68, 101, 99, 111, 100, 101]
def nDCT : Bytes := [68, 67, 84, 68, 101, 99, 111, 100, 101]

def knownFilter (n : Bytes) : Bool := n == nFlate || n == nA85 || n == nAHex || n == nDCT

/-- the filter decoders: a parameter of the model (C06) -/
abbrev Decoder := Filter → Bytes → Res Bytes

/-- the `for filter in &filters` loop: each decoder reads its input from the cursor to the end
    (`buf.buf()`) and produces a fresh buffer -/
def decodeLoop (dec : Decoder) : List Filter → Bytes → Res Bytes
  | [], d => .ok d
  | f :: t, d =>
    if !knownFilter f.name then .err .guard
    else
      match dec f d with
      | .ok d' => decodeLoop dec t d'
      | .err k => .err k
      | .panic p => .panic p

/-! ## `parse_metadata` -/

abbrev Meta := List (Nat × Nat)      -- (object#, offset) pairs

/-- the `loop` of `parse_metadata` on the header view `s`; `acc` is `obj_ofs` reversed.
    Result and cursor afterwards. -/
def metaLoop (n : Nat) : Nat → Bytes → Nat → Nat → Meta → Res Meta × Nat
  | 0, _, i, _, _ => (.panic "parse_metadata: fuel", i)
  | f + 1, s, i, last, acc =>
    match wsEOL true s i with
    | (.err k, j) => (.err k, j)
    | (.panic p, j) => (.panic p, j)
    | (.ok _, j) =>
      match integerP s j with
      | (.err k, c) => (.err k, c)
      | (.panic p, c) => (.panic p, c)
      | (.ok obj, j1) =>
        if !isUsize obj.val then (.err .guard, j)             -- set_cursor_unsafe(cursor)
        else
          match wsEOL true s j1 with
          | (.err k, c) => (.err k, c)
          | (.panic p, c) => (.panic p, c)
          | (.ok _, j2) =>
            match integerP s j2 with
            | (.err k, c) => (.err k, c)
            | (.panic p, c) => (.panic p, c)
            | (.ok ofs, j3) =>
              if !isUsize ofs.val then (.err .guard, j2)
              else
                let o := ofs.val.toNat
                if o ≤ last && !acc.isEmpty then (.err .guard, j2)
                else
                  let acc' := (obj.val.toNat, o) :: acc
                  if acc'.length == n then (.ok acc'.reverse, j3)
                  else metaLoop n f s j3 o acc'

/-- `parse_metadata(buf, n)` on a fresh view -/
def parseMetadata (s : Bytes) (n : Nat) : Res Meta × Nat :=
  metaLoop n (s.length + 1) s 0 0 []

/-! ## `parse_stream` -/

def usizeLimit : Nat := 2 ^ 64

/-- one extracted object: `LocatedVal<IndirectT>` with `gen = 0` written by the code -/
structure Member where
  num : Nat
  gen : Nat
  obj : Located Obj

abbrev SR := Res (List Member) × Ctx

/-- the `for` loop of `parse_stream` on the content view `s` whose absolute start is `vstart`
    (fixed code: the cursor is set to the declared offset before the object is parsed).
    `i` is the cursor, `acc` the `objs` vector reversed. -/
def streamLoop (vstart : Nat) (s : Bytes) : Meta → Ctx → Nat → List Member → SR
  | [], ctx, _, acc => (.ok acc.reverse, ctx)
  | (onum, ofs) :: t, ctx, i, acc =>
    if i > ofs then (.err .guard, ctx)                            -- parsed past the offset
    -- `buf.set_cursor(*ofs)`: `if ofs <= self.end - self.start { self.ofs = self.start + ofs }`
    -- (the comparison is view-relative since fix C17-02; the add is a debug-checked usize add)
    else if !(ofs ≤ s.length) then (.err .guard, ctx)
    else if vstart + ofs ≥ usizeLimit then (.panic "set_cursor: add overflow", ctx)
    else
      match wsEOL true s ofs with
      | (.err k, _) => (.err k, ctx)
      | (.panic p, _) => (.panic p, ctx)
      | (.ok _, j) =>
        match parseObj ctx.depth s j with
        | ((.err k, _), d') => (.err k, { ctx with depth := d' })
        | ((.panic p, _), d') => (.panic p, { ctx with depth := d' })
        | ((.ok o, e), d') =>
          -- `start` = cursor before parse_pdf_obj, `end` = cursor after
          let m : Member := ⟨onum, 0, ⟨o.val, j, e⟩⟩
          match defsInsert (onum, 0) o.val ctx.defs with
          | (some _, defs') => (.err .guard, { ctx with defs := defs', depth := d' })
          | (none, defs') => streamLoop vstart s t { ctx with defs := defs', depth := d' } e (m :: acc)

/-- the loop as it was BEFORE the fix: no seek, the object is read wherever the previous one ended -/
def streamLoopOld (s : Bytes) : Meta → Ctx → Nat → List Member → SR
  | [], ctx, _, acc => (.ok acc.reverse, ctx)
  | (onum, ofs) :: t, ctx, i, acc =>
    if i > ofs then (.err .guard, ctx)
    else
      match wsEOL true s i with
      | (.err k, _) => (.err k, ctx)
      | (.panic p, _) => (.panic p, ctx)
      | (.ok _, j) =>
        match parseObj ctx.depth s j with
        | ((.err k, _), d') => (.err k, { ctx with depth := d' })
        | ((.panic p, _), d') => (.panic p, { ctx with depth := d' })
        | ((.ok o, e), d') =>
          let m : Member := ⟨onum, 0, ⟨o.val, j, e⟩⟩
          match defsInsert (onum, 0) o.val ctx.defs with
          | (some _, defs') => (.err .guard, { ctx with defs := defs', depth := d' })
          | (none, defs') => streamLoopOld s t { ctx with defs := defs', depth := d' } e (m :: acc)

/-! ## `ObjStreamP::parse` -/

/-- The part of `parse` after filter decoding, on the decoded view `data` whose absolute start
    is `vbase`: header view `[0, First)`, `parse_metadata`, content view `[First, end)`,
    `parse_stream`. -/
def parseViews (vbase : Nat) (ctx : Ctx) (n first : Nat) (data : Bytes) : SR :=
  -- RestrictView::new(0, first): `self.start + self.size <= buf.size()` (0 + first cannot overflow)
  if !(first ≤ data.length) then (.err .guard, ctx)
  else
    match parseMetadata (data.take first) n with
    | (.err k, _) => (.err k, ctx)
    | (.panic p, _) => (.panic p, ctx)
    | (.ok md, _) =>
      -- RestrictViewFrom::new(first): `self.start < buf.size()`
      if !(first < data.length) then (.err .guard, ctx)
      else streamLoop (vbase + first) (data.drop first) md ctx 0 []

/-- `ObjStreamP::new(ctxt, &stream).parse(buf)`.
    `dict` is the stream dictionary, `view` the bytes of the input view, `vbase` its absolute
    start in the underlying vector and `cur` its cursor (which the call never moves). -/
def objStmParse (dec : Decoder) (vbase : Nat) (ctx : Ctx) (dict : Dict) (view : Bytes) (cur : Nat) : SR :=
  match getDictInfo dict with
  | .err k => (.err k, ctx)
  | .panic p => (.panic p, ctx)
  | .ok (n, first) =>
    match filters dict with
    | .err k => (.err k, ctx)
    | .panic p => (.panic p, ctx)
    | .ok fs =>
      if ctx.encrypted then (.err .guard, ctx)
      else
        match fs with
        | [] => parseViews vbase ctx n first view             -- the views are taken from the view's start
        | _ :: _ =>
          match decodeLoop dec fs (view.drop cur) with        -- decoders read from the cursor
          | .err k => (.err k, ctx)
          | .panic p => (.panic p, ctx)
          | .ok data => parseViews 0 ctx n first data         -- a decoder's output is a fresh buffer

end Parsley.ObjStm
