/-
  The two classification enums of src/pdf_lib/pdf_operator_types.rs (lines 20-52).
  Import-free.  `Parsley/Gen/Operators.lean` (regenerated from the real `OPERATORS`
  const on every ./check run) refers to these constructors by the lower-camel-cased
  Rust variant name, so a new or renamed Rust variant breaks the build (= broken obligation).
-/
namespace Parsley.Content

/-- `enum OpType` -/
inductive OpType where
  | compat | pathConstruction | pathPainting | pathClipping | inlineImage | markedContent
  | generalGraphics | specialGraphics | color | textState | textObject | textShow
  | textPositioning | shading | xObject | type3Font
deriving DecidableEq, Repr, Inhabited

/-- `enum ArgType` -/
inductive ArgType where
  | number | numberArray | name | dict | string | numberOrStringArray | nameOrDictionary | star
deriving DecidableEq, Repr, Inhabited

/-- `enum TextToken` (pdf_content_streams.rs 164-167): the observable vocabulary, shared by
    model and spec. -/
inductive Tok where
  | space
  | raw (b : List UInt8)
deriving DecidableEq, Repr, Inhabited

end Parsley.Content
