/-
  Model of src/pdf_lib/pdf_page_dom.rs (to_page_dom and its converters) AFTER the fix
  C11-01 (iterative, cycle-safe `resolve_chain` used by to_page_kids, to_page_content(s),
  to_resource_font_value, to_encoding and the /Resources lookup).

  * `PDFObjContext` is its definition map `defs : List (ObjId × Obj)` (first binding wins =
    the BTreeMap's single binding); the DOM code only ever calls `lookup_obj`.
  * `Rc` identity of a content stream is modelled by its provenance `Src`: the identifier
    whose definition the `Rc` was cloned from, or `inline` when the stream object itself was
    the dictionary value / array element.
  * `BTreeMap`s are association lists kept sorted with the derived `Ord` of the key type;
    the `BTreeSet` `examined` is a duplicate-free list (only membership is ever used).
  * Loops: `resolve_chain`'s `while let` and `to_page_dom`'s `while !q.is_empty()` take a fuel
    (running out is the explicit outcome `panic "...fuel"`; Props/C11 proves it unreachable for
    the fuel the top-level functions pass: `|defs| + 1`).  The `for` loops are structural.
  * The only Rust partial operation is `q.next().unwrap()`; it is an explicit `panic` outcome.
  * Diagnostics printed with `println!` are not modelled.
  Import-free apart from the object model.
-/
import Parsley.Model.Obj
namespace Parsley.PageDom
open Parsley Parsley.Obj

abbrev ObjId := Nat × Nat
abbrev Defs := List (ObjId × Obj)
abbrev Kvs := List (Bytes × Obj)

/-- `PageDOMError` (payloads dropped) -/
inductive DomErr where
  | CatalogConversionBadCatalog | CatalogConversionNoPages | CatalogConversionPagesIdNotFound
  | PageTreeNodeNotDict | PageTreeNodeUnexpectedType
  | PageTreeNodeConversionNoCount | PageTreeNodeConversionNoKids | PageTreeNodeConversionNoParent
  | PageTreeNodeConversionBadKids | PageTreeNodeConversionBadRoot | PageTreeNodeConversionBadNode
  | PageNodeConversionNoParent | PageNodeConversionNoContents | PageNodeConversionBadContents
  | PageNodeConversionBadPage | NoObjectType
  | ResourceFontValueUnknownObjectId | ResourceFontValueNotDict | FontResourceNotDict
  | FontDescrConversionUnknownObjectId | FontDescrConversionNoFontName | FontDescrConversionNoFlags
  | FontDescrConversionBadFontDescr | FontDictConversionNoBaseFont | FontDictConversionNoSubtype
  | FontDictConversionUnknownEncoding | FontDictConversionBadEncoding
  | FontDictConversionBadFontDictionary | FontDictUnresolvedId
deriving DecidableEq, Repr, Inhabited

/-- outcome of a converter: value, located `PageDOMError`, or a Rust panic / exhausted fuel -/
inductive DRes (α : Type) where
  | ok (v : α)
  | err (e : DomErr)
  | panic (site : String)
deriving Repr

def DRes.isPanic : DRes α → Bool | .panic _ => true | _ => false
def DRes.isOk : DRes α → Bool | .ok _ => true | _ => false

/-! ### names used by the converters (ASCII bytes) -/
def nPages : Bytes := [80, 97, 103, 101, 115]
def nPage : Bytes := [80, 97, 103, 101]
def nKids : Bytes := [75, 105, 100, 115]
def nCount : Bytes := [67, 111, 117, 110, 116]
def nParent : Bytes := [80, 97, 114, 101, 110, 116]
def nResources : Bytes := [82, 101, 115, 111, 117, 114, 99, 101, 115]
def nContents : Bytes := [67, 111, 110, 116, 101, 110, 116, 115]
def nType : Bytes := [84, 121, 112, 101]
def nFont : Bytes := [70, 111, 110, 116]
def nFontName : Bytes := [70, 111, 110, 116, 78, 97, 109, 101]
def nFlags : Bytes := [70, 108, 97, 103, 115]
def nFontFile : Bytes := [70, 111, 110, 116, 70, 105, 108, 101]
def nFontFile2 : Bytes := [70, 111, 110, 116, 70, 105, 108, 101, 50]
def nFontFile3 : Bytes := [70, 111, 110, 116, 70, 105, 108, 101, 51]
def nBaseFont : Bytes := [66, 97, 115, 101, 70, 111, 110, 116]
def nSubtype : Bytes := [83, 117, 98, 116, 121, 112, 101]
def nFontDescriptor : Bytes := [70, 111, 110, 116, 68, 101, 115, 99, 114, 105, 112, 116, 111, 114]
def nEncoding : Bytes := [69, 110, 99, 111, 100, 105, 110, 103]
def nMacRomanEncoding : Bytes := [77, 97, 99, 82, 111, 109, 97, 110, 69, 110, 99, 111, 100, 105, 110, 103]
def nMacExpertEncoding : Bytes := [77, 97, 99, 69, 120, 112, 101, 114, 116, 69, 110, 99, 111, 100, 105, 110, 103]
def nWinAnsiEncoding : Bytes := [87, 105, 110, 65, 110, 115, 105, 69, 110, 99, 111, 100, 105, 110, 103]
def nType0 : Bytes := [84, 121, 112, 101, 48]
def nType1 : Bytes := [84, 121, 112, 101, 49]
def nMMType1 : Bytes := [77, 77, 84, 121, 112, 101, 49]
def nType3 : Bytes := [84, 121, 112, 101, 51]
def nTrueType : Bytes := [84, 114, 117, 101, 84, 121, 112, 101]
def nCIDFontType0 : Bytes := [67, 73, 68, 70, 111, 110, 116, 84, 121, 112, 101, 48]
def nCIDFontType1 : Bytes := [67, 73, 68, 70, 111, 110, 116, 84, 121, 112, 101, 49]

/-! ### maps -/

/-- `PDFObjContext::lookup_obj` -/
def lookup (defs : Defs) (id : ObjId) : Option Obj :=
  match defs with
  | [] => none
  | (k, v) :: t => if k == id then some v else lookup t id

/-- derived `Ord` of `(usize, usize)` -/
def idLt (a b : ObjId) : Bool := a.1 < b.1 || (a.1 == b.1 && a.2 < b.2)

/-- `BTreeMap::insert` for a key type with strict order `lt` -/
def bmInsert {κ α : Type} (lt : κ → κ → Bool) (k : κ) (v : α) : List (κ × α) → List (κ × α)
  | [] => [(k, v)]
  | (k', v') :: t =>
    if lt k k' then (k, v) :: (k', v') :: t
    else if lt k' k then (k', v') :: bmInsert lt k v t
    else (k, v) :: t

/-- `BTreeMap::get` (keys compared with the order: equal = neither is less) -/
def bmGet {κ α : Type} (lt : κ → κ → Bool) (k : κ) : List (κ × α) → Option α
  | [] => none
  | (k', v) :: t => if !lt k k' && !lt k' k then some v else bmGet lt k t

/-! ### dictionary accessors of pdf_obj.rs -/

def getRef (d : Kvs) (k : Bytes) : Option ObjId :=
  match dictGet k d with
  | some (.ref n g) => some (n, g)
  | _ => none

def getName (d : Kvs) (k : Bytes) : Option Bytes :=
  match dictGet k d with
  | some (.name n) => some n
  | _ => none

/-- `get_usize`: an integer that `is_usize()` -/
def getUsize (d : Kvs) (k : Bytes) : Option Nat :=
  match dictGet k d with
  | some (.int i) => if 0 ≤ i then some i.toNat else none
  | _ => none

/-! ### `std::str::from_utf8(..).is_ok()` (well-formed UTF-8, Unicode Table 3-7) -/

def cont (b : UInt8) : Bool := 0x80 ≤ b && b ≤ 0xBF

def utf8Valid : Bytes → Bool
  | [] => true
  | [a] => a ≤ 0x7F
  | [a, b] =>
    if a ≤ 0x7F then b ≤ 0x7F
    else 0xC2 ≤ a && a ≤ 0xDF && cont b
  | [a, b, c] =>
    if a ≤ 0x7F then utf8Valid [b, c]
    else if 0xC2 ≤ a && a ≤ 0xDF then cont b && c ≤ 0x7F
    else if a == 0xE0 then 0xA0 ≤ b && b ≤ 0xBF && cont c
    else if a == 0xED then 0x80 ≤ b && b ≤ 0x9F && cont c
    else if 0xE1 ≤ a && a ≤ 0xEF then cont b && cont c
    else false
  | a :: b :: c :: d :: t =>
    if a ≤ 0x7F then utf8Valid (b :: c :: d :: t)
    else if 0xC2 ≤ a && a ≤ 0xDF then cont b && utf8Valid (c :: d :: t)
    else if a == 0xE0 then 0xA0 ≤ b && b ≤ 0xBF && cont c && utf8Valid (d :: t)
    else if a == 0xED then 0x80 ≤ b && b ≤ 0x9F && cont c && utf8Valid (d :: t)
    else if 0xE1 ≤ a && a ≤ 0xEF then cont b && cont c && utf8Valid (d :: t)
    else if a == 0xF0 then 0x90 ≤ b && b ≤ 0xBF && cont c && cont d && utf8Valid t
    else if a == 0xF4 then 0x80 ≤ b && b ≤ 0x8F && cont c && cont d && utf8Valid t
    else if 0xF1 ≤ a && a ≤ 0xF3 then cont b && cont c && cont d && utf8Valid t
    else false

/-! ### DOM types -/

inductive FontType where
  | type0 | type1 | mmType1 | type3 | trueType | cidFontType0 | cidFontType1
  | unknown (n : Bytes)
deriving Repr

inductive FontEnc where
  | macRoman | macExpert | winAnsi
  | unknown (s : Bytes)
  | dict (o : Obj)

/-- `FontDescriptor`; `flags` lists the bit positions whose `FontFlag` is in the set -/
structure FontDescr where
  fontname : Bytes
  flags : List Nat
  fontfile : Option ObjId
  fontfile2 : Option ObjId
  fontfile3 : Option ObjId

structure FontDict where
  subtype : FontType
  basefont : Bytes
  fontdescriptor : Option FontDescr
  encoding : Option FontEnc

/-- `Resources` : font resource name ↦ font dictionary (BTreeMap order) -/
structure Resources where
  fonts : List (Bytes × FontDict)

/-- which `Rc` a content-stream entry is -/
inductive Src where
  | byId (id : ObjId)
  | inline
deriving DecidableEq, Repr

structure RootNode where
  count : Nat
  resources : Option Resources
  kids : List ObjId

structure TreeNode where
  parent : ObjId
  resources : Option Resources
  count : Nat
  kids : List ObjId

structure Page where
  parent : ObjId
  resources : Resources
  contents : List (Src × Obj)

inductive PageKid where
  | node (n : TreeNode)
  | leaf (p : Page)

structure Dom where
  pages : List (ObjId × PageKid) := []
  fontDicts : List (ObjId × FontDict) := []
  fontDescrs : List (ObjId × FontDescr) := []

abbrev QEntry := ObjId × Option Resources × Obj

/-- `ConversionQ` -/
structure ConvQ where
  nodes : List QEntry := []
  examined : List ObjId := []

/-- `ConversionQ::add` -/
def ConvQ.add (q : ConvQ) (id : ObjId) (r : Option Resources) (o : Obj) : ConvQ :=
  if q.examined.contains id then q
  else { nodes := q.nodes ++ [(id, r, o)], examined := id :: q.examined }

/-! ### resolve_chain (fix C11-01) -/

/-- the `while let PDFObjT::Reference(r) = cur.val()` loop; `followed` is the BTreeSet, `src` the
    identifier `cur` was looked up under (none: `cur` is still the argument itself).
    Result `none` = the Rust `None` (undefined object or loop). -/
def resolveLoop (defs : Defs) : Nat → List ObjId → Src → Obj → DRes (Option (Src × Obj))
  | 0, _, _, _ => .panic "resolve_chain: fuel"
  | f + 1, followed, src, cur =>
    match cur with
    | .ref n g =>
      if followed.contains (n, g) then .ok none
      else
        match lookup defs (n, g) with
        | none => .ok none
        | some o => resolveLoop defs f ((n, g) :: followed) (.byId (n, g)) o
    | o => .ok (some (src, o))

def resolveChain (defs : Defs) (o : Obj) : DRes (Option (Src × Obj)) :=
  resolveLoop defs (defs.length + 1) [] .inline o

/-- `get_chain_resolved_dict` -/
def getChainResolvedDict (defs : Defs) (d : Kvs) (k : Bytes) : DRes (Option Kvs) :=
  match dictGet k d with
  | none => .ok none
  | some o =>
    match resolveChain defs o with
    | .panic p => .panic p
    | .err e => .err e
    | .ok none => .ok none
    | .ok (some (_, .dict kvs)) => .ok (some kvs)
    | .ok (some _) => .ok none

/-! ### fonts -/

def flagBits : List Nat := [0, 1, 2, 3, 5, 6, 16, 17, 18]

/-- `to_font_descriptor` -/
def toFontDescriptor (d : Kvs) : Except DomErr FontDescr :=
  match getName d nFontName with
  | none => .error .FontDescrConversionNoFontName
  | some fontname =>
    match getUsize d nFlags with
    | none => .error .FontDescrConversionNoFlags
    | some i =>
      .ok { fontname, flags := flagBits.filter fun b => (i >>> b) % 2 == 1,
            fontfile := getRef d nFontFile, fontfile2 := getRef d nFontFile2,
            fontfile3 := getRef d nFontFile3 }

/-- `to_encoding` -/
def toEncoding (defs : Defs) (o : Obj) : DRes FontEnc :=
  match resolveChain defs o with
  | .panic p => .panic p
  | .err e => .err e
  | .ok none => .err .FontDictConversionBadEncoding
  | .ok (some (_, .name n)) =>
    if !utf8Valid n then .err .FontDictConversionUnknownEncoding
    else if n == nMacRomanEncoding then .ok .macRoman
    else if n == nMacExpertEncoding then .ok .macExpert
    else if n == nWinAnsiEncoding then .ok .winAnsi
    else .ok (.unknown n)
  | .ok (some (_, .dict kvs)) => .ok (.dict (.dict kvs))
  | .ok (some _) => .err .FontDictConversionBadEncoding

def fontTypeOf (n : Bytes) : FontType :=
  if n == nType0 then .type0 else if n == nType1 then .type1 else if n == nMMType1 then .mmType1
  else if n == nType3 then .type3 else if n == nTrueType then .trueType
  else if n == nCIDFontType0 then .cidFontType0 else if n == nCIDFontType1 then .cidFontType1
  else .unknown n

/-- the `/FontDescriptor` part of `to_font_dict` -/
def toFontDescrEntry (defs : Defs) (dom : Dom) (d : Kvs) : DRes (Dom × Option FontDescr) :=
  match dictGet nFontDescriptor d with
  | none => .ok (dom, none)
  | some (.dict dd) =>
    match toFontDescriptor dd with
    | .error e => .err e
    | .ok fd => .ok (dom, some fd)
  | some (.ref n g) =>
    match bmGet idLt (n, g) dom.fontDescrs with
    | some fd => .ok (dom, some fd)
    | none =>
      match lookup defs (n, g) with
      | none => .err .FontDescrConversionUnknownObjectId
      | some (.dict dd) =>
        match toFontDescriptor dd with
        | .error e => .err e
        | .ok fd => .ok ({ dom with fontDescrs := bmInsert idLt (n, g) fd dom.fontDescrs }, some fd)
      | some _ => .err .FontDescrConversionBadFontDescr
  | some _ => .err .FontDescrConversionBadFontDescr

/-- `to_font_dict` -/
def toFontDict (defs : Defs) (dom : Dom) (d : Kvs) : DRes (Dom × FontDict) :=
  match getName d nBaseFont with
  | none => .err .FontDictConversionNoBaseFont
  | some basefont =>
    match getName d nSubtype with
    | none => .err .FontDictConversionNoSubtype
    | some st =>
      match toFontDescrEntry defs dom d with
      | .panic p => .panic p
      | .err e => .err e
      | .ok (dom, fontdescriptor) =>
        match dictGet nEncoding d with
        | none => .ok (dom, { subtype := fontTypeOf st, basefont, fontdescriptor, encoding := none })
        | some o =>
          match toEncoding defs o with
          | .panic p => .panic p
          | .err e => .err e
          | .ok enc =>
            .ok (dom, { subtype := fontTypeOf st, basefont, fontdescriptor, encoding := some enc })

/-- `obj_to_font_dict` -/
def objToFontDict (defs : Defs) (dom : Dom) (o : Obj) : DRes (Dom × FontDict) :=
  match o with
  | .dict d => toFontDict defs dom d
  | _ => .err .FontDictConversionBadFontDictionary

/-- the `for (frn, fr) in d.map().iter()` loop of `to_resource_font_value` -/
def fontLoop (defs : Defs) : Kvs → Dom → List (Bytes × FontDict) → DRes (Dom × List (Bytes × FontDict))
  | [], dom, fonts => .ok (dom, fonts)
  | (frn, fr) :: t, dom, fonts =>
    match fr with
    | .ref n g =>
      match lookup defs (n, g) with
      | none => .err .FontDictUnresolvedId
      | some o =>
        match objToFontDict defs dom o with
        | .panic p => .panic p
        | .err e => .err e
        | .ok (dom, fd) =>
          fontLoop defs t { dom with fontDicts := bmInsert idLt (n, g) fd dom.fontDicts }
            (bmInsert bytesLt frn fd fonts)
    | .dict dd =>
      match toFontDict defs dom dd with
      | .panic p => .panic p
      | .err e => .err e
      | .ok (dom, fd) => fontLoop defs t dom (bmInsert bytesLt frn fd fonts)
    | _ => .err .FontResourceNotDict

/-- `to_resource_font_value` -/
def toResourceFontValue (defs : Defs) (dom : Dom) (o : Obj) : DRes (Dom × List (Bytes × FontDict)) :=
  match resolveChain defs o with
  | .panic p => .panic p
  | .err e => .err e
  | .ok none =>
    match o with
    | .ref _ _ => .err .ResourceFontValueUnknownObjectId
    | _ => .err .ResourceFontValueNotDict
  | .ok (some (_, .dict kvs)) => fontLoop defs kvs dom []
  | .ok (some _) => .err .ResourceFontValueNotDict

/-- the loop of `to_resources` over the resource dictionary -/
def resLoop (defs : Defs) : Kvs → Dom → Option (List (Bytes × FontDict)) →
    DRes (Dom × Option (List (Bytes × FontDict)))
  | [], dom, fonts => .ok (dom, fonts)
  | (k, v) :: t, dom, fonts =>
    if k == nFont then
      match toResourceFontValue defs dom v with
      | .panic p => .panic p
      | .err e => .err e
      | .ok (dom, f) => resLoop defs t dom (some f)
    else resLoop defs t dom fonts

/-- `to_resources` -/
def toResources (defs : Defs) (dom : Dom) (rd : Kvs) : DRes (Dom × Resources) :=
  match resLoop defs rd dom none with
  | .panic p => .panic p
  | .err e => .err e
  | .ok (dom, none) => .ok (dom, ⟨[]⟩)
  | .ok (dom, some f) => .ok (dom, ⟨f⟩)

/-! ### page tree -/

/-- the `for o in a.objs()` loop of `to_page_kids` -/
def kidsLoop (defs : Defs) (r : Option Resources) : List Obj → ConvQ → List ObjId → ConvQ × List ObjId
  | [], q, kids => (q, kids)
  | .ref n g :: t, q, kids =>
    match lookup defs (n, g) with
    | some o => kidsLoop defs r t (q.add (n, g) r o) (kids ++ [(n, g)])
    | none => kidsLoop defs r t q (kids ++ [(n, g)])
  | _ :: t, q, kids => kidsLoop defs r t q kids

/-- `to_page_kids` -/
def toPageKids (defs : Defs) (q : ConvQ) (r : Option Resources) (o : Obj) :
    DRes (ConvQ × Option (List ObjId)) :=
  match resolveChain defs o with
  | .panic p => .panic p
  | .err e => .err e
  | .ok none => .ok (q, none)
  | .ok (some (_, .arr xs)) =>
    let (q, kids) := kidsLoop defs r xs q []
    .ok (q, some kids)
  | .ok (some _) => .ok (q, none)

/-- the /Resources step shared by the three node converters: own dictionary (converted) or none -/
def ownResources (defs : Defs) (dom : Dom) (d : Kvs) : DRes (Dom × Option Resources) :=
  match getChainResolvedDict defs d nResources with
  | .panic p => .panic p
  | .err e => .err e
  | .ok none => .ok (dom, none)
  | .ok (some rd) =>
    match toResources defs dom rd with
    | .panic p => .panic p
    | .err e => .err e
    | .ok (dom, res) => .ok (dom, some res)

/-- `to_root_page_tree_node` -/
def toRootPageTreeNode (defs : Defs) (q : ConvQ) (dom : Dom) (o : Obj) : DRes (ConvQ × Dom × RootNode) :=
  match o with
  | .dict d =>
    match ownResources defs dom d with
    | .panic p => .panic p
    | .err e => .err e
    | .ok (dom, res) =>
      match getUsize d nCount with
      | none => .err .PageTreeNodeConversionNoCount
      | some count =>
        match dictGet nKids d with
        | none => .err .PageTreeNodeConversionNoKids
        | some ko =>
          match toPageKids defs q res ko with
          | .panic p => .panic p
          | .err e => .err e
          | .ok (_, none) => .err .PageTreeNodeConversionBadKids
          | .ok (q, some kids) => .ok (q, dom, { count, resources := res, kids })
  | _ => .err .PageTreeNodeConversionBadRoot

/-- `to_page_tree_node` -/
def toPageTreeNode (defs : Defs) (q : ConvQ) (dom : Dom) (r : Option Resources) (o : Obj) :
    DRes (ConvQ × Dom × TreeNode) :=
  match o with
  | .dict d =>
    match getRef d nParent with
    | none => .err .PageTreeNodeConversionNoParent
    | some parent =>
      match ownResources defs dom d with
      | .panic p => .panic p
      | .err e => .err e
      | .ok (dom, own) =>
        let res := match own with | some x => some x | none => r
        match getUsize d nCount with
        | none => .err .PageTreeNodeConversionNoCount
        | some count =>
          match dictGet nKids d with
          | none => .err .PageTreeNodeConversionNoKids
          | some ko =>
            match toPageKids defs q res ko with
            | .panic p => .panic p
            | .err e => .err e
            | .ok (_, none) => .err .PageTreeNodeConversionBadKids
            | .ok (q, some kids) => .ok (q, dom, { parent, resources := res, count, kids })
  | _ => .err .PageTreeNodeConversionBadNode

/-- `to_page_content` -/
def toPageContent (defs : Defs) (o : Obj) : DRes (Option (Src × Obj)) :=
  match resolveChain defs o with
  | .panic p => .panic p
  | .err e => .err e
  | .ok none => .ok none
  | .ok (some (s, .stream kvs sc)) => .ok (some (s, .stream kvs sc))
  | .ok (some _) => .ok none

/-- the `for o in a.objs()` loop of `to_page_contents` -/
def contentsLoop (defs : Defs) : List Obj → List (Src × Obj) → DRes (Option (List (Src × Obj)))
  | [], v => .ok (some v)
  | o :: t, v =>
    match toPageContent defs o with
    | .panic p => .panic p
    | .err e => .err e
    | .ok none => .ok none
    | .ok (some cs) => contentsLoop defs t (v ++ [cs])

/-- `to_page_contents` -/
def toPageContents (defs : Defs) (o : Obj) : DRes (Option (List (Src × Obj))) :=
  match resolveChain defs o with
  | .panic p => .panic p
  | .err e => .err e
  | .ok none => .ok none
  | .ok (some (s, .stream kvs sc)) => .ok (some [(s, .stream kvs sc)])
  | .ok (some (_, .arr xs)) => contentsLoop defs xs []
  | .ok (some _) => .ok none

/-- `to_page` -/
def toPage (defs : Defs) (dom : Dom) (r : Option Resources) (o : Obj) : DRes (Dom × Page) :=
  match o with
  | .dict d =>
    match getRef d nParent with
    | none => .err .PageNodeConversionNoParent
    | some parent =>
      match ownResources defs dom d with
      | .panic p => .panic p
      | .err e => .err e
      | .ok (dom, own) =>
        let res : Resources := match own, r with
          | some x, _ => x
          | none, some x => x
          | none, none => ⟨[]⟩
        match dictGet nContents d with
        | none => .err .PageNodeConversionNoContents
        | some co =>
          match toPageContents defs co with
          | .panic p => .panic p
          | .err e => .err e
          | .ok none => .err .PageNodeConversionBadContents
          | .ok (some contents) => .ok (dom, { parent, resources := res, contents })
  | _ => .err .PageNodeConversionBadPage

/-- `to_catalog` -/
def toCatalog (defs : Defs) (q : ConvQ) (dom : Dom) (o : Obj) : DRes (ConvQ × Dom × RootNode) :=
  match o with
  | .dict d =>
    match getRef d nPages with
    | some id =>
      match lookup defs id with
      | some po => toRootPageTreeNode defs q dom po
      | none => .err .CatalogConversionPagesIdNotFound
    | none => .err .CatalogConversionNoPages
  | _ => .err .CatalogConversionBadCatalog

/-- one iteration of the `while !q.is_empty()` loop body, after `q.next().unwrap()` gave
    `(id, r, o)` and left `q` -/
def domStep (defs : Defs) (q : ConvQ) (dom : Dom) (id : ObjId) (r : Option Resources) (o : Obj) :
    DRes (ConvQ × Dom) :=
  match o with
  | .dict d =>
    match getName d nType with
    | some t =>
      if t == nPages then
        match toPageTreeNode defs q dom r o with
        | .panic p => .panic p
        | .err e => .err e
        | .ok (q, dom, n) => .ok (q, { dom with pages := bmInsert idLt id (.node n) dom.pages })
      else if t == nPage then
        match toPage defs dom r o with
        | .panic p => .panic p
        | .err e => .err e
        | .ok (dom, p) => .ok (q, { dom with pages := bmInsert idLt id (.leaf p) dom.pages })
      else .err .PageTreeNodeUnexpectedType
    | none => .err .NoObjectType
  | _ => .err .PageTreeNodeNotDict

/-- the work loop of `to_page_dom` -/
def domLoop (defs : Defs) : Nat → ConvQ → Dom → DRes Dom
  | 0, _, _ => .panic "to_page_dom: fuel"
  | f + 1, q, dom =>
    if q.nodes.isEmpty then .ok dom
    else
      match q.nodes with
      | [] => .panic "q.next().unwrap()"
      | (id, r, o) :: rest =>
        match domStep defs { q with nodes := rest } dom id r o with
        | .panic p => .panic p
        | .err e => .err e
        | .ok (q, dom) => domLoop defs f q dom

/-- `to_page_dom` with an explicit loop budget -/
def toPageDomFuel (defs : Defs) (fuel : Nat) (o : Obj) : DRes (RootNode × Dom) :=
  match toCatalog defs {} {} o with
  | .panic p => .panic p
  | .err e => .err e
  | .ok (q, dom, root) =>
    match domLoop defs fuel q dom with
    | .panic p => .panic p
    | .err e => .err e
    | .ok dom => .ok (root, dom)

/-- `to_page_dom` -/
def toPageDom (defs : Defs) (o : Obj) : DRes (RootNode × Dom) :=
  toPageDomFuel defs (defs.length + 1) o

/-! ### public observers used by the correspondence -/

def standardFonts : List Bytes := [
  [84, 105, 109, 101, 115, 45, 82, 111, 109, 97, 110],
  [84, 105, 109, 101, 115, 45, 66, 111, 108, 100],
  [84, 105, 109, 101, 115, 45, 73, 116, 97, 108, 105, 99],
  [84, 105, 109, 101, 115, 45, 66, 111, 108, 100, 73, 116, 97, 108, 105, 99],
  [72, 101, 108, 118, 101, 116, 105, 99, 97],
  [72, 101, 108, 118, 101, 116, 105, 99, 97, 45, 66, 111, 108, 100],
  [72, 101, 108, 118, 101, 116, 105, 99, 97, 45, 79, 98, 108, 105, 113, 117, 101],
  [72, 101, 108, 118, 101, 116, 105, 99, 97, 45, 66, 111, 108, 100, 79, 98, 108, 105, 113, 117, 101],
  [67, 111, 117, 114, 105, 101, 114],
  [67, 111, 117, 114, 105, 101, 114, 45, 66, 111, 108, 100],
  [67, 111, 117, 114, 105, 101, 114, 45, 79, 98, 108, 105, 113, 117, 101],
  [67, 111, 117, 114, 105, 101, 114, 45, 66, 111, 108, 100, 79, 98, 108, 105, 113, 117, 101],
  [83, 121, 109, 98, 111, 108],
  [90, 97, 112, 102, 68, 105, 110, 103, 98, 97, 116, 115]
]

/-- `FontDictionary::is_base_font` -/
def FontDict.isBaseFont (f : FontDict) : Bool :=
  match f.subtype with
  | .type1 => standardFonts.contains f.basefont
  | _ => false

/-- `FontDescriptor::is_embedded` -/
def FontDescr.isEmbedded (fd : FontDescr) : Bool :=
  fd.fontfile.isSome || fd.fontfile2.isSome || fd.fontfile3.isSome

/-- `FontDictionary::is_embedded` as `Option Bool` (`None` = `Unknown`) -/
def FontDict.isEmbedded (f : FontDict) : Option Bool :=
  if f.isBaseFont then some true else f.fontdescriptor.map FontDescr.isEmbedded

/-- `FontDictionary::is_symbolic` -/
def FontDict.isSymbolic (f : FontDict) : Option Bool :=
  f.fontdescriptor.map fun fd => fd.flags.contains 2

end Parsley.PageDom
