/-
  Model of `DateStringPredicate` (src/pdf_lib/common_data_structures.rs:302-327) on the bytes of a PDF
  string.  Import-free (core + Parsley.Base only).

  The Rust code is
      let date_string = std::str::from_utf8(s).unwrap_or("");
      re.is_match(date_string)
  with the relaxed pattern (after fix C10-02 the year is `[0-9]{4}`; it was `\d{4}`, and `\d` of the regex crate
  with Unicode support is the general category Nd, e.g. ARABIC-INDIC DIGIT ONE)
      ^D:[0-9]{4}((0[1-9]|1[0-2])((0[1-9]|[1-2][0-9]|3[0-1])(([0-1][0-9]|2[0-3])(([0-5][0-9])(([0-5][0-9])
        ([+\-Z](([0-1][0-9]'|2[0-3]')([0-5][0-9](')?)?)?)?)?)?)?)?)?$
  Two external components are MODELLED here, not verified (trusted base of C10):
  * `core::str::from_utf8`: strict UTF-8 (no overlong forms, no surrogates, at most U+10FFFF);
  * the `regex` crate (1.x): the haystack is a sequence of scalar values, `^`/`$` match only at the two ends
    of the haystack (no multi-line mode), and every atom of the pattern is an ASCII class.  All groups have a
    fixed width and every optional group is followed only by the end anchor, so "match" is decided by the
    deterministic descent `dateTail` below: at each stage either the input is exhausted, or the next
    component must match and the descent continues.
-/
import Parsley.Base.Basic
namespace Parsley.PdfDate
open Parsley

/-- a continuation byte 0x80..0xBF -/
def isCont (b : UInt8) : Bool := decide (0x80 ≤ b.toNat ∧ b.toNat ≤ 0xBF)

def inR (lo hi : Nat) (b : UInt8) : Bool := decide (lo ≤ b.toNat ∧ b.toNat ≤ hi)

/-- `core::str::from_utf8`: the scalar values, or `none` when the bytes are not well-formed UTF-8 -/
def utf8Decode : Bytes → Option (List Nat)
  | [] => some []
  | b0 :: t =>
    if b0.toNat < 0x80 then (utf8Decode t).map (b0.toNat :: ·)
    else if inR 0xC2 0xDF b0 then
      match t with
      | b1 :: t' =>
        if isCont b1 then (utf8Decode t').map (((b0.toNat - 0xC0) * 64 + (b1.toNat - 0x80)) :: ·) else none
      | _ => none
    else if inR 0xE0 0xEF b0 then
      match t with
      | b1 :: b2 :: t' =>
        let ok1 :=
          if b0.toNat = 0xE0 then inR 0xA0 0xBF b1
          else if b0.toNat = 0xED then inR 0x80 0x9F b1
          else isCont b1
        if ok1 && isCont b2 then
          (utf8Decode t').map
            (((b0.toNat - 0xE0) * 4096 + (b1.toNat - 0x80) * 64 + (b2.toNat - 0x80)) :: ·)
        else none
      | _ => none
    else if inR 0xF0 0xF4 b0 then
      match t with
      | b1 :: b2 :: b3 :: t' =>
        let ok1 :=
          if b0.toNat = 0xF0 then inR 0x90 0xBF b1
          else if b0.toNat = 0xF4 then inR 0x80 0x8F b1
          else isCont b1
        if ok1 && isCont b2 && isCont b3 then
          (utf8Decode t').map
            (((b0.toNat - 0xF0) * 262144 + (b1.toNat - 0x80) * 4096 + (b2.toNat - 0x80) * 64
              + (b3.toNat - 0x80)) :: ·)
        else none
      | _ => none
    else none
termination_by l => l.length

def cIn (lo hi : Char) (c : Nat) : Bool := decide (lo.toNat ≤ c ∧ c ≤ hi.toNat)
def cIs (x : Char) (c : Nat) : Bool := decide (c = x.toNat)

/-- `[0][1-9]|[1][0-2]` -/
def month (a b : Nat) : Bool := (cIs '0' a && cIn '1' '9' b) || (cIs '1' a && cIn '0' '2' b)
/-- `[0][1-9]|[1-2][0-9]|[3][0-1]` -/
def day (a b : Nat) : Bool :=
  (cIs '0' a && cIn '1' '9' b) || (cIn '1' '2' a && cIn '0' '9' b) || (cIs '3' a && cIn '0' '1' b)
/-- `[0-1][0-9]|[2][0-3]` -/
def hour (a b : Nat) : Bool := (cIn '0' '1' a && cIn '0' '9' b) || (cIs '2' a && cIn '0' '3' b)
/-- `[0-5][0-9]` -/
def sixty (a b : Nat) : Bool := cIn '0' '5' a && cIn '0' '9' b

/-- `(([0-1][0-9]'|[2][0-3]')([0-5][0-9](')?)?)?$` : what may follow the `+`, `-` or `Z` -/
def offsetTail : List Nat → Bool
  | [] => true
  | a :: b :: q :: t =>
    hour a b && cIs '\'' q &&
      (match t with
       | [] => true
       | c :: d :: t' => sixty c d && (match t' with | [] => true | [q'] => cIs '\'' q' | _ => false)
       | _ => false)
  | _ => false

/-- the nested optional groups after `D:YYYY`; `stage` 0 = month, 1 = day, 2 = hour, 3 = minute,
    4 = second, 5 = the `[+\-Z]` group -/
def dateTail : Nat → List Nat → Bool
  | _, [] => true
  | 0, a :: b :: t => month a b && dateTail 1 t
  | 1, a :: b :: t => day a b && dateTail 2 t
  | 2, a :: b :: t => hour a b && dateTail 3 t
  | 3, a :: b :: t => sixty a b && dateTail 4 t
  | 4, a :: b :: t => sixty a b && dateTail 5 t
  | 5, o :: t => (cIs '+' o || cIs '-' o || cIs 'Z' o) && offsetTail t
  | _, _ => false

/-- the relaxed date regex on a sequence of scalar values -/
def dateMatch : List Nat → Bool
  | d :: c :: y1 :: y2 :: y3 :: y4 :: t =>
    cIs 'D' d && cIs ':' c && cIn '0' '9' y1 && cIn '0' '9' y2 && cIn '0' '9' y3 && cIn '0' '9' y4 && dateTail 0 t
  | _ => false

/-- `DateStringPredicate::check` on the bytes of a `PDFObjT::String` -/
def dateOK (s : Bytes) : Bool :=
  match utf8Decode s with
  | some cps => dateMatch cps
  | none => false

end Parsley.PdfDate
