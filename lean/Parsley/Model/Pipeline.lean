/-
  END-TO-END model of `pdf_printer` (src/bin/pdf_printer.rs `main` after argument parsing):

      parse_file -> parse_data                       the loader (Model/Loader.lean, reused unchanged)
      process_file
        dump_file      -> dump_root                  breadth-first traversal of the root object with the
                                                     structural `processed` set, `decode_stream` on every
                                                     reachable stream unless the document is encrypted;
                                                     decoding errors are only logged            (95-193, 232-241)
        type_check_file -> catalog_type, check_type  the shipped catalog specification (Gen/CatalogSpec.lean,
                                                     regenerated from the crate) on the machine of
                                                     Model/TypeCheck.lean (tree configuration)     (243-258)
        file_extract_text -> to_page_dom             Model/PageDom.lean; then per leaf page: non-embedded
                                                     font => exit; decoded content streams concatenated with
                                                     a leading space (decode error / non-stream => next page);
                                                     TextExtractor (Model/Content.lean) error => exit (260-342)

  `run = processFile ∘ parseDataE`; `processFile` = root lookup, `dumpRoot`, then `afterCheck` applied to the verdict of
  `typeCheck` (type_check_file's exit, then file_extract_text = `PageDom.toPageDom` + `pagesLoop`).
  `run : Bytes -> Outcome` has exactly three kinds of result: `completed` (exit status 0), `rejected`
  (`exit_log!` = process::exit(1), anywhere), `panic site` (a Rust partial operation of one of the stage
  models fired, or the fuel of one of the loops modelled with fuel ran out).  Every stage model is reused
  as it is; this file adds only the glue of pdf_printer.rs and the conversions between the stage models'
  object types:
      Obj.Obj (loader, page DOM)  --toTC-->  TC.Obj / TC.Graph (type checker; also the element type of the
                                             `processed` set, whose `Ord` is structural and ignores locations)
      Obj.Obj  --Loader.toFKvs-->  Filters.Dict      (decode_stream)
  What `Loader.parseData` drops but the binary's glue needs (the `encrypted` flag for dump_root, the
  context's nesting depth for the text extractor's object parser) is recovered by `parseDataE`, a copy of
  `Loader.loadView`/`parseObjects` that returns the final context too; Props/C01.lean proves that it agrees
  with `Loader.parseData` on everything the latter returns (`parseDataE_eq`).

  Not modelled (no effect on the exit status): log lines, `println!` of the page DOM summary and of the
  extracted text (a failing write to stdout would panic in `println!`: the harness gives the binary
  /dev/null), the `spaced` flag of extract_text, `FileInfo::file_offset` (`pdf_hdr_ofs + o`, both below the
  file / decoded-buffer size) inside log arguments.  dump_root's `depth` labels: see `bfsD` below.  `DCTDecode` is the opaque parameter `Loader.ext.dct` (never succeeds).
  Import-free apart from the stage models.
-/
import Parsley.Model.Loader
import Parsley.Model.TypeCheck
import Parsley.Model.PageDom
import Parsley.Model.Content
import Parsley.Gen.CatalogSpec
import Parsley.Spec.WorkBound
namespace Parsley.Pipeline
open Parsley Parsley.Obj Parsley.Loader

/-- how the process ends -/
inductive Outcome where
  | completed                 -- exit status 0
  | rejected                  -- exit_log!: located diagnostic, exit status 1
  | panic (site : String)     -- a Rust panic / an exhausted model fuel
deriving DecidableEq, Repr

def Outcome.isPanic : Outcome → Bool | .panic _ => true | _ => false

def Outcome.word : Outcome → String
  | .completed => "completed"
  | .rejected => "rejected"
  | .panic s => s!"panic {s}"

/-! ## the loader, returning the final `PDFObjContext` as well -/

/-- what `parse_data` leaves behind: the context (definitions, `encrypted`, `cur_depth`, `max_depth`)
    and the root identifier -/
structure LoadedE where
  defs : ObjStm.Defs
  root : Indirect.ObjId
  enc : Bool
  cur : Nat
  max : Nat

def LoadedE.toLoaded (l : LoadedE) : Loaded := ⟨l.defs, l.root⟩

def Out.map {α β : Type} (f : α → β) : Out α → Out β
  | .ok v => .ok (f v)
  | .reject => .reject
  | .panic p => .panic p

/-- `Loader.parseObjects`, returning the whole final context -/
def parseObjectsE (hofs : Nat) (st : St) (infos : List ObjInfo) (s : Bytes) : Out ObjStm.Ctx :=
  match firstPass infos st.ctx s [] [] with
  | (.panic p, _) => .panic p
  | (.reject, _) => .reject
  | (.ok (os, sp), c1) =>
    match secondPass sp c1 s with
    | (.panic p, _) => .panic p
    | (.reject, _) => .reject
    | (.ok _, c2) =>
      let oc : ObjStm.Ctx := ⟨valDefs c2.defs, ⟨c2.cur, c2.max⟩, st.enc⟩
      match objStmPass hofs s (definedStreams os c2.defs) oc with
      | (.panic p, _) => .panic p
      | (.reject, _) => .reject
      | (.ok _, oc') => .ok oc'

/-- `Loader.loadView`, returning the final context -/
def loadViewE (hofs : Nat) (s : Bytes) : Out LoadedE :=
  match Prim.comment s 0 with
  | (.err _, _) => .reject
  | (.panic p, _) => .panic p
  | (.ok _, _) =>
    let eofCur := match scanBack kwEOF s with | some k => k | none => s.length
    match scanBack kwStartxref (s.take eofCur) with
    | none => .reject
    | some sx =>
      match startXrefP s sx with
      | (.err _, _) => .reject
      | (.panic p, _) => .panic p
      | (.ok ofs, _) =>
        if !(ofs < s.length) then .reject
        else
          match getXrefInfo ⟨Indirect.Ctx.new 50, false⟩ s ofs with
          | (.panic p, _) => .panic p
          | (.reject, _) => .reject
          | (.ok (ents, rootRef), st) =>
            match parseObjectsE hofs st (infoOf ents) s with
            | .panic p => .panic p
            | .reject => .reject
            | .ok oc =>
              match rootRef with
              | .ref n g => .ok ⟨oc.defs, (n, g), oc.encrypted, oc.depth.cur, oc.depth.max⟩
              | _ => .reject

/-- `parse_data(path, data)` with the context it returns -/
def parseDataE (data : Bytes) : Out LoadedE :=
  match scanFwd kwPdf data with
  | none => .reject
  | some n => loadViewE n (data.drop n)

/-! ## conversions between the stage models' object types -/

mutual
/-- `PDFObjT` of the loader as the type checker's object (locations dropped, a dictionary as the key-ordered
    list it already is, an array as a list with unused keys, a stream as dictionary + start + content:
    `size = content.len()` for every stream the parser builds) -/
def toTC : Obj → TC.Obj
  | .null => .null
  | .bool b => .bool b
  | .int n => .int n
  | .real n d => .real n (Int.ofNat d)
  | .str b => .str b
  | .name b => .name b
  | .ref n g => .ref n g
  | .arr xs => .arr (toTCArr xs)
  | .dict kvs => .dict (toTCKvs kvs)
  | .comment b => .comment b
  | .stream kvs sc => .stream (toTCKvs kvs) sc.start sc.content
def toTCArr : List Obj → TC.ObjL
  | [] => .nil
  | x :: t => .cons [] (toTC x) (toTCArr t)
def toTCKvs : List (Bytes × Obj) → TC.ObjL
  | [] => .nil
  | (k, v) :: t => .cons k (toTC v) (toTCKvs t)
end

/-- `PDFObjContext.defns` as the type checker's graph -/
def toGraph : ObjStm.Defs → TC.Graph
  | [] => []
  | (k, v) :: t => (k, toTC v) :: toGraph t

/-! ## dump_root -/

/-- the objects a queue entry makes the traversal look at: array elements, dictionary values (in key
    order), a stream's dictionary values, the definition a reference points to (if any) -/
def kidsOf (defs : ObjStm.Defs) : Obj → List Obj
  | .arr xs => xs
  | .dict kvs => kvs.map (·.2)
  | .stream kvs _ => kvs.map (·.2)
  | .ref n g =>
    match ObjStm.defsGet (n, g) defs with
    | some o => [o]
    | none => []                    -- "does not point to a defined object!" (logged)
  | _ => []

/-- `if !processed.contains(x) { obj_queue.push_back(x); processed.insert(x) }` for each `x`.
    `processed` is a `BTreeSet<Rc<LocatedVal<PDFObjT>>>`: its order is the derived structural one
    (locations ignored), i.e. equality of the `toTC` images. -/
def pushNew : List Obj → List Obj → List TC.Obj → List Obj × List TC.Obj
  | [], q, p => (q, p)
  | c :: t, q, p =>
    if p.contains (toTC c) then pushNew t q p
    else pushNew t (q ++ [c]) (toTC c :: p)

/-- `decode_stream(s)` of a stream object -/
def decodeObjStream (kvs : List (Bytes × Obj)) (sc : Prim.StreamContent) : Res (Bytes × Filters.Dict) :=
  Filters.decodeStream Loader.ext (toFKvs kvs) sc.content

/-- the `while !obj_queue.is_empty()` loop; one unit of fuel per dequeued object -/
def bfs (enc : Bool) (defs : ObjStm.Defs) : Nat → List Obj → List TC.Obj → Out Unit
  | 0, _, _ => .panic "dump_root: fuel"
  | _ + 1, [], _ => .ok ()
  | f + 1, o :: q, p =>
    let (q', p') := pushNew (kidsOf defs o) q p
    match o with
    | .stream kvs sc =>
      if !enc then
        match decodeObjStream kvs sc with
        | .panic s => .panic s
        | _ => bfs enc defs f q' p'            -- Ok: dropped; Err: logged
      else bfs enc defs f q' p'
    | _ => bfs enc defs f q' p'

/-- the budget `dumpRoot` passes: one iteration per distinct object of the universe the traversal stays in
    (`TC.Term.objU`: null, the root, the definitions and all their sub-objects), plus one -/
def bfsFuel (defs : ObjStm.Defs) (root : Obj) : Nat :=
  (TC.Term.objU (toGraph defs) (toTC root)).length + 1

/-- `dump_root(fi, ctxt, root_obj)` -/
def dumpRoot (enc : Bool) (defs : ObjStm.Defs) (root : Obj) : Out Unit :=
  bfs enc defs (bfsFuel defs root) [root] [toTC root]

/-! ### dump_root's depth labels

  The queue of `dump_root` holds pairs `(object, depth : u32)`; a pushed entry gets `depth + 1`, a debug-checked
  `u32` add that is evaluated only when an entry is pushed (lines 130, 139, 149, 171).  The label is used by the
  (disabled) `log_obj` only and never influences control flow, so `bfs` above leaves it out.  `bfsD lim` is the
  loop AS WRITTEN with the labels and the overflow site (`lim = depthLim = 2^32` for the code as it is);
  Lemmas/Pipeline.lean proves `bfsD_eq_bfs`: the two agree whenever the traversal's universe has at most `lim`
  objects (a label is always smaller than the number of processed objects), and Props/C01.lean shows on a scaled
  instance that the site IS reachable by a long enough reference chain.  Fix C01-01 (`saturating_add`) removes
  the site: for the fixed code `bfs` is the loop as written. -/

/-- `u32::MAX + 1` -/
def depthLim : Nat := 2 ^ 32

/-- `pushNew` with the labels: `none` = `depth + 1` overflowed -/
def pushNewD (lim d : Nat) : List Obj → List (Obj × Nat) → List TC.Obj → Option (List (Obj × Nat) × List TC.Obj)
  | [], q, p => some (q, p)
  | c :: t, q, p =>
    if p.contains (toTC c) then pushNewD lim d t q p
    else if lim ≤ d + 1 then none                                  -- attempt to add with overflow
    else pushNewD lim d t (q ++ [(c, d + 1)]) (toTC c :: p)

/-- the `while` loop with the labels -/
def bfsD (lim : Nat) (enc : Bool) (defs : ObjStm.Defs) : Nat → List (Obj × Nat) → List TC.Obj → Out Unit
  | 0, _, _ => .panic "dump_root: fuel"
  | _ + 1, [], _ => .ok ()
  | f + 1, (o, d) :: q, p =>
    match pushNewD lim d (kidsOf defs o) q p with
    | none => .panic "dump_root: depth + 1 overflow"
    | some (q', p') =>
      match o with
      | .stream kvs sc =>
        if !enc then
          match decodeObjStream kvs sc with
          | .panic s => .panic s
          | _ => bfsD lim enc defs f q' p'
        else bfsD lim enc defs f q' p'
      | _ => bfsD lim enc defs f q' p'

/-- `dump_root` as written before fix C01-01 -/
def dumpRootD (enc : Bool) (defs : ObjStm.Defs) (root : Obj) : Out Unit :=
  bfsD depthLim enc defs (bfsFuel defs root) [(root, 0)] [toTC root]

/-! ## type_check_file -/

def shippedCtx : TC.Ctx := Parsley.Gen.CatalogSpec.ctx
def shippedCat : TC.Chk := Parsley.Gen.CatalogSpec.catalog

/-- the verdict of a machine run (the second component is the work-loop iteration count).  A function rather
    than the projection `.1`, so that unfolding `typeCheck` does not make the kernel evaluate the run. -/
def verdictOf : TC.Outcome × Nat → TC.Outcome
  | (r, _) => r

/-- `check_type(ctxt, &tctx, root_obj, catalog_type(&mut tctx))`, run for the explicit work bound of C09 -/
def typeCheck (g : TC.Graph) (o : TC.Obj) : TC.Outcome :=
  verdictOf (TC.checkTypeFuel TC.Fix.tree g shippedCtx (TC.Term.workBound TC.Fix.tree g shippedCtx o shippedCat) o shippedCat)

/-! ## file_extract_text -/

/-- `for (_, fd) in l.resources().fonts().iter() { if fd.is_embedded() == FeaturePresence::False { exit } }` -/
def fontsEmbedded : List (Bytes × PageDom.FontDict) → Bool
  | [] => true
  | (_, fd) :: t => if fd.isEmbedded == some false then false else fontsEmbedded t

/-- the `'_content_loop`: `none` = `continue 'page_loop` -/
def collect : List (PageDom.Src × Obj) → Bytes → Res (Option Bytes)
  | [], buf => .ok (some buf)
  | (_, .stream kvs sc) :: t, buf =>
    match decodeObjStream kvs sc with
    | .ok (out, _) => collect t (buf ++ 32 :: out)       -- buf.append(b" "); buf.append(cs.content())
    | .err _ => .ok none                                   -- "collecting error when decoding stream"
    | .panic s => .panic s
  | _ :: _, _ => .ok none                                  -- "unexpected object found as content stream!"

/-- the `'page_loop`; `d` is the nesting budget `max_depth - cur_depth` of the context handed to
    `TextExtractor::new` -/
def pagesLoop (d : Nat) : List (PageDom.ObjId × PageDom.PageKid) → Outcome
  | [] => .completed
  | (_, .node _) :: t => pagesLoop d t
  | (_, .leaf pg) :: t =>
    if !fontsEmbedded pg.resources.fonts then .rejected        -- "has a non-embedded font"
    else
      match collect pg.contents [] with
      | .panic s => .panic s
      | .err _ => .rejected                                     -- not produced by `collect`
      | .ok none => pagesLoop d t
      | .ok (some buf) =>
        match Content.extract d buf with
        | .ok _ => pagesLoop d t
        | .err _ => .rejected                                   -- "error parsing content in page"
        | .panic s => .panic s

/-! ## process_file -/

/-- `type_check_file`'s verdict, then `file_extract_text`.  (A function of the verdict, so that statements about
    it do not make the kernel evaluate the type-check run on the shipped specification.) -/
def afterCheck (l : LoadedE) (rootObj : Obj) : TC.Outcome → Outcome
  | .reject _ => .rejected                                      -- "Type Check Error"
  | .panic s => .panic s
  | .outOfFuel => .panic "check_type: fuel"
  | .accept =>
    match PageDom.toPageDom l.defs rootObj with
    | .err _ => .rejected                                       -- "Page DOM error"
    | .panic s => .panic s
    | .ok (_, dom) => pagesLoop (l.max - l.cur) dom.pages

/-- everything after `parse_file` -/
def processFile (l : LoadedE) : Outcome :=
  match ObjStm.defsGet l.root l.defs with
  | none => .rejected                                           -- "Root object … not found!"
  | some rootObj =>
    match dumpRoot l.enc l.defs rootObj with
    | .panic s => .panic s
    | .reject => .rejected                                      -- not produced by `dumpRoot`
    | .ok _ => afterCheck l rootObj (typeCheck (toGraph l.defs) (toTC rootObj))

/-- the whole program on the bytes of the file -/
def run (bs : Bytes) : Outcome :=
  match parseDataE bs with
  | .reject => .rejected
  | .panic s => .panic s
  | .ok l => processFile l

end Parsley.Pipeline
