/-
  Model of the predictor code of src/pdf_lib/pdf_filters.rs (after the C07 fix
  `C07-01-predictor-arithmetic.patch`):

    paeth, average, predictor_geometry, flate_lzw_filter       (the function both
    FlateDecode::transform and LZWDecode::transform end in), and the parameter
    extraction + `as usize` casts of FlateDecode::transform.

  Conventions.  `usize` is 64 bit: every Rust `checked_mul`/`checked_add` is a
  comparison with 2^64 here; `x as usize` of an `i64` wraps modulo 2^64 (it does
  NOT panic in Rust); slice/Vec indexing is `l[i]?` and a miss is the explicit
  outcome `Res.panic site` (proved unreachable in Props/C07.lean, never
  totalised).  `Wrapping<u8>`/`Wrapping<u16>` arithmetic is `UInt8`/`UInt16`
  arithmetic.  The `i16`/`u16` intermediate arithmetic of `paeth`/`average` is
  done on `Int`/`Nat`; that no intermediate value leaves the `i16`/`u16` range
  (so the debug-build overflow check cannot fire) is `paeth_i16_in_range` /
  `average_u16_in_range` in Props/C07.lean.
  All errors of this code are `ErrorKind::TransformError` (`ErrK.transform`).
-/
import Parsley.Base.Basic
namespace Parsley.Pred
open Parsley

/-- 2^64 -/
def usizeLim : Nat := 18446744073709551616

/-- `x as usize` for `x : i64` (two's-complement wrap; no panic). -/
def castUsize (x : Int) : Nat := (x % 18446744073709551616).toNat

def checkedMul (x y : Nat) : Option Nat := if x * y < usizeLim then some (x * y) else none
def checkedAdd (x y : Nat) : Option Nat := if x + y < usizeLim then some (x + y) else none

/-- `i16::abs` (on values that `paeth_i16_in_range` shows are far from `i16::MIN`) -/
def absI (x : Int) : Int := if x < 0 then -x else x

/-- `fn paeth(a, b, c)`: `pa = |b - c|`, `pb = |a - c|`, `pc = |a + b - 2c|` in `i16`. -/
def paeth (a b c : UInt8) : UInt8 :=
  let ia : Int := a.toNat
  let ib : Int := b.toNat
  let ic : Int := c.toNat
  let pa := absI (ib - ic)
  let pb := absI (ia - ic)
  let pc := absI (ia + ib - 2 * ic)
  if pa ≤ pb ∧ pa ≤ pc then a else if pb ≤ pc then b else c

/-- `fn average(a, b)`: `((a as u16 + b as u16) / 2) as u8`. -/
def average (a b : UInt8) : UInt8 := UInt8.ofNat ((a.toNat + b.toNat) / 2)

/-- `bits / 8 + if bits % 8 == 0 { 0 } else { 1 }` -/
def ceil8 (bits : Nat) : Nat := bits / 8 + (if bits % 8 = 0 then 0 else 1)

/-- `fn predictor_geometry(colors, columns, bitspercolumn) -> Option<(row_bytes, bytes_per_pixel)>` -/
def geometry (colors columns bpc : Nat) : Option (Nat × Nat) :=
  if bpc = 1 ∨ bpc = 2 ∨ bpc = 4 ∨ bpc = 8 ∨ bpc = 16 then
    match checkedMul colors bpc with
    | none => none
    | some pixelBits =>
      match checkedMul columns pixelBits with
      | none => none
      | some rowBits => some (ceil8 rowBits, max 1 (ceil8 pixelBits))
  else none

/-- `for j in d .. row.len() { row[j] = row[j] + row[j - d] }` (TIFF predictor; `d = colors`).
    `acc` holds the already final elements `row[0..k]`, `rest` is `row[k..]`. -/
def sumLeftLoop {α : Type} (add : α → α → α) (d : Nat) : List α → Nat → List α → Res (List α)
  | [], _, acc => .ok acc
  | x :: t, k, acc =>
    if k < d then sumLeftLoop add d t (k + 1) (acc ++ [x])          -- j < colors: not visited
    else if d = 0 then sumLeftLoop add d t (k + 1) (acc ++ [add x x]) -- row[j - 0] is row[j] itself
    else
      match acc[k - d]? with
      | some l => sumLeftLoop add d t (k + 1) (acc ++ [add x l])
      | none => .panic "tiff: row[j - colors] out of bounds"

/-- `row.chunks_exact(2).map(|p| u16::from_be_bytes([p[0], p[1]]))` -/
def be16 : Bytes → List UInt16
  | hi :: lo :: t => UInt16.ofNat (hi.toNat * 256 + lo.toNat) :: be16 t
  | _ => []

/-- `for s in &samples { out.extend_from_slice(&s.to_be_bytes()) }` -/
def unbe16 : List UInt16 → Bytes
  | [] => []
  | s :: t => UInt8.ofNat (s.toNat / 256) :: UInt8.ofNat (s.toNat % 256) :: unbe16 t

/-- one TIFF row (`bitspercolumn == 8` or the 16-bit branch) -/
def tiffRow (bpc colors : Nat) (row : Bytes) : Res Bytes :=
  if bpc = 8 then sumLeftLoop (· + ·) colors row 0 []
  else
    match sumLeftLoop (· + ·) colors (be16 row) 0 [] with
    | .ok ss => .ok (unbe16 ss)
    | .err k => .err k
    | .panic s => .panic s

/-- `for row in decoded.chunks_exact(row_length) { … }` of the TIFF branch; `n` = number of chunks. -/
def tiffRows (bpc colors rl : Nat) : Nat → Bytes → Bytes → Res Bytes
  | 0, _, out => .ok out
  | n + 1, data, out =>
    match tiffRow bpc colors (data.take rl) with
    | .ok r => tiffRows bpc colors rl n (data.drop rl) (out ++ r)
    | .err k => .err k
    | .panic s => .panic s

/-- the `match predictor { 10 => 0, 11 => a, 12 => b, 13 => average(a, b), _ => paeth(a, b, c) }` -/
def predByte (predictor : Nat) (a b c : UInt8) : UInt8 :=
  if predictor = 10 then 0
  else if predictor = 11 then a
  else if predictor = 12 then b
  else if predictor = 13 then average a b
  else paeth a b c

/-- `for j in 1 .. row_length { … row_data[j] += … }` of the PNG branch.
    Indices are shifted by the filter-type byte: `k = j - 1`, `acc = row_data[1..j]` (final),
    `rest = row_data[j..]`, `prev = prev_row[1..]`; `j > bytes_per_pixel` is `k ≥ bpp`. -/
def pngRowLoop (predictor bpp : Nat) (prev : Bytes) : Bytes → Nat → Bytes → Res Bytes
  | [], _, acc => .ok acc
  | x :: t, k, acc =>
    let ac : Option (UInt8 × UInt8) :=
      if k ≥ bpp then
        if bpp = 0 then                       -- row_data[j - 0] is the not yet updated row_data[j]
          match prev[k]? with
          | some c => some (x, c)
          | none => none
        else
          match acc[k - bpp]?, prev[k - bpp]? with
          | some a, some c => some (a, c)
          | _, _ => none
      else some (0, 0)
    match ac with
    | none => .panic "png: row_data/prev_row[j - bytes_per_pixel] out of bounds"
    | some (a, c) =>
      match prev[k]? with
      | none => .panic "png: prev_row[j] out of bounds"
      | some b => pngRowLoop predictor bpp prev t (k + 1) (acc ++ [x + predByte predictor a b c])

/-- `for row in decoded.chunks_exact(row_length) { … }` of the PNG branch; `n` = number of chunks,
    `prev` = `prev_row[1..]`. -/
def pngRows (predictor bpp rl : Nat) : Nat → Bytes → Bytes → Bytes → Res Bytes
  | 0, _, _, out => .ok out
  | n + 1, data, prev, out =>
    match data.take rl with
    | [] => .panic "png: row_data[0] out of bounds"
    | tag :: enc =>
      if predictor = 15 then .err .transform
      else if tag.toNat ≠ predictor - 10 then .err .transform
      else
        match pngRowLoop predictor bpp prev enc 0 [] with
        | .ok row => pngRows predictor bpp rl n (data.drop rl) row (out ++ row)
        | .err k => .err k
        | .panic s => .panic s

/-- `fn flate_lzw_filter(decoded, loc, predictor, colors, columns, bitspercolumn)` -/
def filter (decoded : Bytes) (predictor colors columns bpc : Nat) : Res Bytes :=
  if predictor = 1 then .ok decoded
  else if predictor ≠ 2 ∧ ¬ (10 ≤ predictor ∧ predictor ≤ 15) then .err .transform
  else
    match geometry colors columns bpc with
    | none => .err .transform
    | some (rowBytes, bpp) =>
      if predictor = 2 then
        if bpc < 8 then .err .transform
        else if rowBytes < 1 then .ok []
        else if decoded.length % rowBytes ≠ 0 then .err .transform
        else tiffRows bpc colors rowBytes (decoded.length / rowBytes) decoded []
      else
        match checkedAdd rowBytes 1 with
        | none => .err .transform
        | some rl =>
          if rl > decoded.length then .err .transform
          else if decoded.length % rl ≠ 0 then .err .transform
          else pngRows predictor bpp rl (decoded.length / rl) decoded (List.replicate rowBytes 0) []

/-- The tail of `FlateDecode::transform` / `LZWDecode::transform`: the four `/DecodeParms`
    integers (`none` = key absent or not an integer ⇒ defaults 1, 1, 1, 8), cast with
    `as usize`, and the call of `flate_lzw_filter` on the inflated data. -/
def transformTail (predictor colors columns bpc : Option Int) (decoded : Bytes) : Res Bytes :=
  filter decoded (castUsize (predictor.getD 1)) (castUsize (colors.getD 1))
    (castUsize (columns.getD 1)) (castUsize (bpc.getD 8))

end Parsley.Pred
