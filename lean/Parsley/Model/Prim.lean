/-
  Model of src/pdf_lib/pdf_prim.rs (token-level PDF parsers) over the
  ParseBuffer primitives of src/pcore/parsebuffer.rs.

  Every parser is `P α = Bytes → Nat → Res (Located α) × Nat`: the result and
  the cursor afterwards (also on failure).  Rust partial operations are
  explicit `Res.panic` outcomes.  Import-free.
-/
import Parsley.Base.Basic
namespace Parsley.Prim
open Parsley

/-! ## ParseBuffer primitives (whole-buffer view; restricted views are C17) -/

def peek (s : Bytes) (i : Nat) : Option UInt8 := s[i]?

/-- `parse_allowed_bytes`: the longest run of allowed bytes at the cursor. -/
def allowed (allow : UInt8 → Bool) (s : Bytes) (i : Nat) : Bytes × Nat :=
  let r := (s.drop i).takeWhile allow
  (r, i + r.length)

/-- `parse_bytes_until` -/
def untilB (term : UInt8 → Bool) (s : Bytes) (i : Nat) : Bytes × Nat :=
  allowed (fun b => !term b) s i

/-- `buf[ofs..end].starts_with(tag)` -/
def startsWith (tag : Bytes) (s : Bytes) (i : Nat) : Bool := tag.isPrefixOf (s.drop i)

/-- `exact`: cursor past the tag on success, unmoved on failure. -/
def exact (tag : Bytes) (s : Bytes) (i : Nat) : Bool × Nat :=
  if startsWith tag s i then (true, i + tag.length) else (false, i)

/-! ## byte classes -/

def isWsNoEol (b : UInt8) : Bool := b == 32 || b == 0 || b == 9 || b == 13 || b == 12
def isWsEol (b : UInt8) : Bool := b == 32 || b == 0 || b == 9 || b == 13 || b == 10 || b == 12
def isDigit (b : UInt8) : Bool := 48 ≤ b && b ≤ 57
def isHexDigit (b : UInt8) : Bool := isDigit b || (97 ≤ b && b ≤ 102) || (65 ≤ b && b ≤ 70)
def isHexWs (b : UInt8) : Bool := b == 32 || b == 13 || b == 10 || b == 9 || b == 0 || b == 12
/-- terminators of names and operators: whitespace and delimiters -/
def isNameTerm (b : UInt8) : Bool :=
  isWsEol b || b == 40 || b == 41 || b == 60 || b == 62 || b == 91 || b == 93 ||
  b == 123 || b == 125 || b == 47 || b == 37

/-- `int_of_hex` (argument known to be a hex digit) -/
def hexVal (b : UInt8) : UInt8 :=
  if isDigit b then b - 48 else if 97 ≤ b && b ≤ 102 then b - 97 + 10 else b - 65 + 10

/-! ## whitespace and comments -/

/-- `WhitespaceNoEOL::parse` -/
def wsNoEOL (emptyOk : Bool) : P Unit := fun s i =>
  let (ws, j) := allowed isWsNoEol s i
  if ws.isEmpty && !emptyOk then (.err .guard, j)
  else
    -- a trailing '\r' followed by '\n' is given back (`decr_cursor_unsafe`: ws is non-empty there)
    if ws.getLast? == some 13 && peek s j == some 10 then
      if j - 1 == i && !emptyOk then (.err .guard, i)     -- nothing left after giving back '\r'
      else (.ok ⟨(), i, j - 1⟩, j - 1)
    else (.ok ⟨(), i, j⟩, j)

/-- `Comment::parse` -/
def comment : P Bytes := fun s i =>
  if peek s i != some 37 then (.err .guard, i)
  else
    let (c, j) := untilB (· == 10) s (i + 1)
    if peek s j == some 10 then (.ok ⟨c, i, j + 1⟩, j + 1) else (.ok ⟨c, i, j⟩, j)

/-- the `loop` of `WhitespaceEOL::parse`; `none` = out of fuel -/
def wsEOLLoop : Nat → Bytes → Nat → Bool → Option (Nat × Bool)
  | 0, _, _, _ => none
  | f + 1, s, i, e =>
    let (v, j) := allowed isWsEol s i
    let e := e && v.isEmpty
    if peek s j == some 37 then
      match comment s j with
      | (.ok _, k) => wsEOLLoop f s k false
      | _ => none                               -- unreachable: peek is '%'
    else some (j, e)

/-- `WhitespaceEOL::parse` -/
def wsEOL (emptyOk : Bool) : P Unit := fun s i =>
  match wsEOLLoop (s.length + 1 - i) s i true with
  | none => (.panic "wsEOL: fuel", i)
  | some (j, isEmpty) =>
    if isEmpty && !emptyOk then (.err .guard, j)
    else (.ok ⟨(), i, j⟩, j)

/-! ## keywords -/

def kwTrue : Bytes := [116, 114, 117, 101]
def kwFalse : Bytes := [102, 97, 108, 115, 101]
def kwNull : Bytes := [110, 117, 108, 108]

/-- `Boolean::parse` -/
def boolean : P Bool := fun s i =>
  match exact kwTrue s i with
  | (true, j) => (.ok ⟨true, i, j⟩, j)
  | (false, _) =>
    match exact kwFalse s i with
    | (true, j) => (.ok ⟨false, i, j⟩, j)
    | (false, _) => (.err .guard, i)

/-- `Null::parse` -/
def null : P Unit := fun s i =>
  match exact kwNull s i with
  | (true, j) => (.ok ⟨(), i, j⟩, j)
  | (false, _) => (.err .guard, i)

/-! ## numbers -/

def i64Max : Nat := 2 ^ 63 - 1
def i128Max : Nat := 2 ^ 127 - 1

/-- optional sign: (minus, cursor) -/
def signPrefix (s : Bytes) (i : Nat) : Bool × Nat :=
  if peek s i == some 45 then (true, i + 1)
  else if peek s i == some 43 then (false, i + 1)
  else (false, i)

/-- the digit loop with `checked_mul(num,10)` / `checked_add(num, c-48)`;
    `none` = numerical overflow -/
def accDigits (limit : Nat) : Bytes → Nat → Option Nat
  | [], n => some n
  | c :: t, n =>
    if n * 10 > limit then none
    else if n * 10 + (c.toNat - 48) > limit then none
    else accDigits limit t (n * 10 + (c.toNat - 48))

/-- the fraction loop of `RealP`: numerator and denominator, each checked -/
def accFrac (limit : Nat) : Bytes → Nat → Nat → Option (Nat × Nat)
  | [], n, d => some (n, d)
  | c :: t, n, d =>
    if n * 10 > limit then none
    else if n * 10 + (c.toNat - 48) > limit then none
    else if d * 10 > limit then none
    else accFrac limit t (n * 10 + (c.toNat - 48)) (d * 10)

/-- `IntegerP::parse` -/
def integerP : P Int := fun s i =>
  let (minus, i1) := signPrefix s i
  let (ds, j) := allowed isDigit s i1
  if ds.isEmpty then (.err .guard, i)
  else
    match accDigits i64Max ds 0 with
    | none => (.err .guard, i)
    | some n => (.ok ⟨if minus then -(n : Int) else (n : Int), i, j⟩, j)

/-- `RealP::parse`: value is (numerator, denominator) -/
def realP : P (Int × Nat) := fun s i =>
  let (minus, i1) := signPrefix s i
  let (ds, j) := allowed isDigit s i1
  if ds.isEmpty && peek s j != some 46 then (.err .guard, i)
  else
    match accDigits i128Max ds 0 with
    | none => (.err .guard, i)
    | some n =>
      if peek s j == some 46 then
        let (fs, k) := allowed isDigit s (j + 1)
        match accFrac i128Max fs n 1 with
        | none => (.err .guard, i)
        | some (n', d) => (.ok ⟨(if minus then -(n' : Int) else (n' : Int), d), i, k⟩, k)
      else (.ok ⟨(if minus then -(n : Int) else (n : Int), 1), i, j⟩, j)

/-! ## strings -/

/-- hex pairs to bytes (`16 * hi + lo`; never overflows a `u8`) -/
def hexPairs : Bytes → Bytes
  | a :: b :: t => (16 * hexVal a + hexVal b) :: hexPairs t
  | _ => []

/-- `HexString::parse` -/
def hexString : P Bytes := fun s i =>
  if peek s i != some 60 then (.err .guard, i)
  else
    let (bytes, j) := allowed (fun b => isHexDigit b || isHexWs b) s (i + 1)
    if peek s j != some 62 then (.err .guard, i)
    else
      let hx := bytes.filter (fun b => !isHexWs b)
      let hx := if hx.length % 2 != 0 then hx ++ [48] else hx
      (.ok ⟨hexPairs hx, i, j + 1⟩, j + 1)

/-- the scanning loop of `RawLiteralString::parse`, byte by byte:
    remaining bytes, absolute position, `last_slash`, `depth`, reversed output.
    `none` = end of buffer before the closing parenthesis. -/
def litLoop : Bytes → Nat → Option Nat → Nat → Bytes → Option (Bytes × Nat)
  | [], _, _, _, _ => none
  | b :: t, pos, ls, depth, acc =>
    let escaped := match ls with | some p => p + 1 == pos | none => false
    if b == 40 then
      if escaped then litLoop t (pos + 1) ls depth (b :: acc)
      else litLoop t (pos + 1) none (depth + 1) (b :: acc)
    else if b == 41 then
      if escaped then litLoop t (pos + 1) ls depth (b :: acc)
      else if depth - 1 == 0 then some (acc.reverse, pos + 1)
      else litLoop t (pos + 1) none (depth - 1) (b :: acc)
    else if b == 92 then
      let ls' := match ls with
        | some p => if p + 1 == pos then none else some pos
        | none => some pos
      litLoop t (pos + 1) ls' depth (b :: acc)
    else litLoop t (pos + 1) ls depth (b :: acc)

/-- `RawLiteralString::parse` -/
def rawLitString : P Bytes := fun s i =>
  if peek s i != some 40 then (.err .guard, i)
  else
    match litLoop (s.drop (i + 1)) (i + 1) none 1 [] with
    | none => (.err .eob, i)
    | some (v, j) => (.ok ⟨v, i, j⟩, j)

/-! ## names and operators -/

/-- The `windows(3)` normalisation loop of `NameP`/`OperatorP`, unrolled on the
    list of remaining span bytes (a window exists iff three bytes remain).
    `none` = "null char in name". -/
def nameDec : Bytes → Option Bytes
  | a :: b :: c :: t =>
    if a == 35 && isHexDigit b && isHexDigit c then
      let ch := 16 * hexVal b + hexVal c
      if ch == 0 then none
      else
        match t with
        | [] => some [ch]                       -- no window x
        | [x2] => some [ch, x2]                 -- no window y: push x[2]
        | [y1, y2] => some [ch, y1, y2]         -- no window w: push y[1], y[2]
        | x :: y :: z :: t' => (nameDec (x :: y :: z :: t')).map (ch :: ·)
    else
      match t with
      | [] => some [a, b, c]                    -- last window: push trailing bytes
      | d :: t' => (nameDec (b :: c :: d :: t')).map (a :: ·)
  | short => some short
termination_by l => l.length

/-- `NameP::parse` (value: the normalised raw bytes, without the '/') -/
def nameP : P Bytes := fun s i =>
  if peek s i != some 47 then (.err .guard, i)
  else
    let (span, j) := untilB isNameTerm s (i + 1)
    match nameDec span with
    | none => (.err .guard, i)
    | some r => (.ok ⟨r, i, j⟩, j)

/-- UTF-8 validity (as `std::str::from_utf8`) -/
def isCont (b : UInt8) : Bool := 0x80 ≤ b && b ≤ 0xBF
def validUtf8 : Bytes → Bool
  | [] => true
  | b0 :: t =>
    if b0 < 0x80 then validUtf8 t
    else if 0xC2 ≤ b0 && b0 ≤ 0xDF then
      match t with
      | b1 :: t1 => isCont b1 && validUtf8 t1
      | _ => false
    else if 0xE0 ≤ b0 && b0 ≤ 0xEF then
      match t with
      | b1 :: b2 :: t2 =>
        let ok1 := if b0 == 0xE0 then 0xA0 ≤ b1 && b1 ≤ 0xBF
                   else if b0 == 0xED then 0x80 ≤ b1 && b1 ≤ 0x9F else isCont b1
        ok1 && isCont b2 && validUtf8 t2
      | _ => false
    else if 0xF0 ≤ b0 && b0 ≤ 0xF4 then
      match t with
      | b1 :: b2 :: b3 :: t3 =>
        let ok1 := if b0 == 0xF0 then 0x90 ≤ b1 && b1 ≤ 0xBF
                   else if b0 == 0xF4 then 0x80 ≤ b1 && b1 ≤ 0x8F else isCont b1
        ok1 && isCont b2 && isCont b3 && validUtf8 t3
      | _ => false
    else false

/-- `OperatorP::parse` (value: the normalised bytes, valid UTF-8) -/
def operatorP : P Bytes := fun s i =>
  let (span, j) := untilB isNameTerm s i
  if i == j then (.err .guard, i)
  else
    match nameDec span with
    | none => (.err .guard, i)
    | some r => if validUtf8 r then (.ok ⟨r, i, j⟩, j) else (.err .guard, i)

/-! ## stream content -/

def kwStream : Bytes := [115, 116, 114, 101, 97, 109]
def kwEndstream : Bytes := [101, 110, 100, 115, 116, 114, 101, 97, 109]

structure StreamContent where
  start : Nat
  size : Nat
  content : Bytes
deriving DecidableEq, Repr

/-- `if buf.peek() == Some(b) { buf.incr_cursor_unsafe() }` -/
def skipByte (b : UInt8) (s : Bytes) (j : Nat) : Nat := if peek s j == some b then j + 1 else j

/-- `StreamContentP::parse` -/
def streamContentP (length : Nat) (eolAfter : Bool) : P StreamContent := fun s i =>
  match exact kwStream s i with
  | (false, _) => (.err .guard, i)
  | (true, j0) =>
    let j1 := skipByte 13 s j0
    if peek s j1 != some 10 then (.err .guard, i)
    else
      let st := j1 + 1
      if s.length - st < length then (.err .eob, i)        -- `extract` fails
      else
        let v := (s.drop st).take length
        let e0 := st + length
        let e2 := skipByte 10 s (skipByte 13 s e0)
        if eolAfter && e0 == e2 then (.err .guard, i)
        else
          match exact kwEndstream s e2 with
          | (false, _) => (.err .guard, i)
          | (true, e3) => (.ok ⟨⟨st, length, v⟩, i, e3⟩, e3)

end Parsley.Prim
