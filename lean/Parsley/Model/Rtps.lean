/-
  Model of src/rtps_lib/rtps_prim.rs and src/rtps_lib/rtps_packet.rs (the RTPS
  packet reader), written parser by parser with the same exits as the Rust code.

  Buffer: an unrestricted `ParseBuffer` (start = 0, end = |s|), cursor `i`.
  Every Rust partial operation on the path is an explicit `panic` outcome here:
    * `remaining()`            `assert!(self.ofs <= self.end)`
    * `set_cursor_unsafe(o)`   `assert!(self.start + o <= self.end)`
    * `exact(tag)`             the slice `self.buf[self.ofs .. self.end]` (panics if ofs > end)
    * the packet loop          `fuel` (an `out-of-fuel` panic; `loopP_fuel_sufficient`
                               in Props/C20.lean shows |s| - i + 1 is always enough)
  `Props/C20.lean` proves none of them reachable from a cursor inside the buffer.
  `UInt8P`/`UInt16P` are the C19 models (`Parsley.Bin`).  `ByteVecP` is re-modelled
  here (`extractP`) with the `remaining()` assert that `extract` goes through.
  Import-free (core only).
-/
import Parsley.Base.Basic
import Parsley.Model.Bin
import Parsley.Model.RtpsTypes
namespace Parsley.Rtps
open Parsley Parsley.Bin

/-- `ParseBuffer::remaining` -/
def remaining (s : Bytes) (i : Nat) : Res Nat :=
  if i ≤ s.length then .ok (s.length - i) else .panic "remaining: assert ofs <= end"

/-- `Err(e)` after `buf.set_cursor_unsafe(start)`; `j` is where the cursor was. -/
def restoreErr {α : Type} (s : Bytes) (start : Nat) (k : ErrK) (j : Nat) : Res (Located α) × Nat :=
  if start ≤ s.length then (.err k, start) else (.panic "set_cursor_unsafe: assert start+ofs <= end", j)

/-- `ByteVecP::new(len).parse` = `ParseBuffer::extract(len)`:
    `if self.remaining() < len { Err(EndOfBuffer at cursor) } else { &buf[ofs..ofs+len]; ofs += len }` -/
def extractP (len : Nat) : P Bytes := fun s i =>
  match remaining s i with
  | .panic st => (.panic st, i)
  | .err k => (.err k, i)
  | .ok rem =>
    if rem < len then (.err .eob, i)
    else (.ok ⟨(s.drop i).take len, i, i + len⟩, i + len)

/-- `ParseBuffer::exact(tag)`: `self.buf[self.ofs .. self.end].starts_with(tag)` -/
def exactP (tag : Bytes) (s : Bytes) (i : Nat) : Res Bool × Nat :=
  if s.length < i then (.panic "exact: slice index ofs..end", i)
  else if tag.isPrefixOf (s.drop i) then (.ok true, i + tag.length)
  else (.err .guard, i)

/-- b"RTPS" -/
def magic : Bytes := [0x52, 0x54, 0x50, 0x53]

/-- `ProtocolVersionP::parse` and `VendorIdP::parse` (identical bodies):
    `UInt16P::new(Endian::Little)`, `?`, span from `start` to the cursor. -/
def u16leP : P UInt16 := fun s i =>
  match uint16P .little s i with
  | (.ok v, j) => (.ok ⟨v.val, i, j⟩, j)
  | (.err k, j) => (.err k, j)
  | (.panic st, j) => (.panic st, j)

def protocolVersionP : P UInt16 := u16leP
def vendorIdP : P UInt16 := u16leP

/-- `GuidPrefixP::parse`: `ByteVecP::new(12)`, `?`; `<[u8;12]>::try_from(slice)` fails iff the
    slice is not 12 long, in which case the cursor is restored and `BoundsError` returned. -/
def guidPrefixP : P Bytes := fun s i =>
  match extractP 12 s i with
  | (.ok g, j) =>
    if g.val.length = 12 then (.ok ⟨g.val, i, j⟩, j)
    else restoreErr s i .bounds j
  | (.err k, j) => (.err k, j)
  | (.panic st, j) => (.panic st, j)

/-- `HeaderP::parse` -/
def headerP : P Header := fun s i =>
  match exactP magic s i with
  | (.panic st, j) => (.panic st, j)
  | (.err _, j) => (.err .guard, j)            -- e.place(GuardError("invalid magic")); cursor untouched by `exact`
  | (.ok _, i1) =>
    match protocolVersionP s i1 with
    | (.panic st, j) => (.panic st, j)
    | (.err k, j) => restoreErr s i k j
    | (.ok pv, i2) =>
      match vendorIdP s i2 with
      | (.panic st, j) => (.panic st, j)
      | (.err k, j) => restoreErr s i k j
      | (.ok vi, i3) =>
        match guidPrefixP s i3 with
        | (.panic st, j) => (.panic st, j)
        | (.err k, j) => restoreErr s i k j
        | (.ok gp, i4) => (.ok ⟨⟨pv.val, vi.val, gp.val⟩, i, i4⟩, i4)

/-- `msg_endian(flags)`: `if flags & 0x01 == 0x01 { Little } else { Big }` -/
def msgEndian (flags : UInt8) : Endian :=
  if flags &&& 0x01 == 0x01 then .little else .big

/-- `SubMessageHeaderP::parse` -/
def subHdrP : P SubHdr := fun s i =>
  match uint8P s i with
  | (.panic st, j) => (.panic st, j)
  | (.err k, j) => (.err k, j)                 -- `?`
  | (.ok id, i1) =>
    match uint8P s i1 with
    | (.panic st, j) => (.panic st, j)
    | (.err k, j) => restoreErr s i k j
    | (.ok flags, i2) =>
      match uint16P (msgEndian flags.val) s i2 with
      | (.panic st, j) => (.panic st, j)
      | (.err k, j) => restoreErr s i k j
      | (.ok len, i3) => (.ok ⟨⟨id.val, flags.val, len.val⟩, i, i3⟩, i3)

/-- `SubMessageP::parse`: header `?`; `length = if hdr.length()==0 { buf.remaining() } else { hdr.length().into() }`;
    `ByteVecP::new(length).parse(buf)?` — on a short payload the cursor stays after the 4-byte header. -/
def subMsgP : P SubMsg := fun s i =>
  match subHdrP s i with
  | (.panic st, j) => (.panic st, j)
  | (.err k, j) => (.err k, j)
  | (.ok hdr, i1) =>
    let length : Res Nat :=
      if hdr.val.length == 0 then remaining s i1 else .ok hdr.val.length.toNat
    match length with
    | .panic st => (.panic st, i1)
    | .err k => (.err k, i1)
    | .ok len =>
      match extractP len s i1 with
      | (.panic st, j) => (.panic st, j)
      | (.err k, j) => (.err k, j)
      | (.ok pld, j) => (.ok ⟨⟨hdr.val, pld.val⟩, i, j⟩, j)

/-- The `loop` of `PacketP::parse`: stop when `buf.remaining() == 0`, otherwise parse one
    sub-message and push it; the first error ends the loop and is returned.
    (`msgs.push` in a loop ↦ cons on the way back.) -/
def loopP : Nat → Bytes → Nat → Res (List SubMsg) × Nat
  | 0, _, i => (.panic "out-of-fuel", i)
  | fuel + 1, s, i =>
    match remaining s i with
    | .panic st => (.panic st, i)
    | .err k => (.err k, i)
    | .ok 0 => (.ok [], i)
    | .ok (_ + 1) =>
      match subMsgP s i with
      | (.panic st, j) => (.panic st, j)
      | (.err k, j) => (.err k, j)
      | (.ok sm, j) =>
        match loopP fuel s j with
        | (.ok ms, c) => (.ok (sm.val :: ms), c)
        | (.err k, c) => (.err k, c)
        | (.panic st, c) => (.panic st, c)

/-- `PacketP::parse` -/
def packetP : P Packet := fun s i =>
  match headerP s i with
  | (.panic st, j) => (.panic st, j)
  | (.err k, j) => (.err k, j)
  | (.ok hdr, i1) =>
    match loopP (s.length - i1 + 1) s i1 with
    | (.panic st, j) => (.panic st, j)
    | (.err k, j) => (.err k, j)
    | (.ok ms, j) => (.ok ⟨⟨hdr.val, ms⟩, i, j⟩, j)

/-- Reading one datagram: a fresh `ParseBuffer::new(datagram)` has cursor 0. -/
def decode (bs : Bytes) : Res Packet :=
  match (packetP bs 0).1 with
  | .ok p => .ok p.val
  | .err k => .err k
  | .panic st => .panic st

end Parsley.Rtps
