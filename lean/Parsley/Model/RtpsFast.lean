/-
  A linear-time evaluation of the model of `PacketP::parse` (Model/Rtps.lean), for the correspondence
  runs on datagrams with tens of thousands of sub-messages.

  `Rtps.loopP` is written against the whole buffer and a cursor, as the Rust code is; every primitive
  (`remaining`, `extract`, `UInt8P`, …) measures or indexes the whole byte list, so a datagram of n
  sub-messages costs about n * |datagram| list steps (65537 five-byte sub-messages: minutes).  `loopF`
  walks the unread input once: it is `loopP` with the buffer replaced by its unread part `s.drop i`,
  the cursor and the buffer's length carried along as numbers.  Every exit of `loopP` (end of buffer,
  short header, zero length = rest of the buffer, short payload, the fuel bound) is kept, with the same
  cursor.

  Nothing here is trusted: `Props/C20Fast.lean` proves `packetFast s = packetP s 0` for every byte
  string (`Parsley.C20.packetFast_eq`), from `loopF_eq : loopF |s| fuel (s.drop i) i = loopP fuel s i`.
  Import-free (core only).
-/
import Parsley.Model.Rtps
namespace Parsley.Rtps
open Parsley Parsley.Bin

/-- the length field as `UInt16P::new(msg_endian(flags))` reads it from the bytes `x y` -/
def lenField (f x y : UInt8) : UInt16 :=
  match msgEndian f with
  | .big => comb16 x y
  | .little => comb16 y x

/-- `loopP fuel s i` computed from the unread input `l = s.drop i`, `n = s.length` -/
def loopF (n : Nat) : Nat → Bytes → Nat → Res (List SubMsg) × Nat
  | 0, _, i => (.panic "out-of-fuel", i)
  | _ + 1, [], i => (.ok [], i)
  | fuel + 1, a :: f :: x :: y :: r, i =>
    let v := lenField f x y
    if v = 0 then
      -- the payload is the rest of the buffer; the loop comes round once more and finds `remaining() == 0`
      match fuel with
      | 0 => (.panic "out-of-fuel", n)
      | _ + 1 => (.ok [⟨⟨a, f, v⟩, r⟩], n)
    else if n - (i + 4) < v.toNat then (.err .eob, i + 4)
    else
      match loopF n fuel (r.drop v.toNat) (i + 4 + v.toNat) with
      | (.ok ms, c) => (.ok (⟨⟨a, f, v⟩, r.take v.toNat⟩ :: ms), c)
      | (.err k, c) => (.err k, c)
      | (.panic st, c) => (.panic st, c)
  | _ + 1, _ :: _, i => (.err .eob, i)

/-- `packetP s 0`: the header parser as it is, then the loop on the unread input -/
def packetFast (s : Bytes) : Res (Located Packet) × Nat :=
  match headerP s 0 with
  | (.panic st, j) => (.panic st, j)
  | (.err k, j) => (.err k, j)
  | (.ok hdr, i1) =>
    match loopF s.length (s.length - i1 + 1) (s.drop i1) i1 with
    | (.panic st, j) => (.panic st, j)
    | (.err k, j) => (.err k, j)
    | (.ok ms, j) => (.ok ⟨⟨hdr.val, ms⟩, 0, j⟩, j)

end Parsley.Rtps
