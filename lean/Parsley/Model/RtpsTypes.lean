/-
  Data types of src/rtps_lib (rtps_prim.rs, rtps_packet.rs): the *values* the RTPS
  reader returns.  Data only — shared by the model (Model/Rtps.lean) and the
  declarative spec (Spec/Rtps.lean), which otherwise do not know each other.

    Header{version: ProtocolVersion{id:u16}, vendorid: VendorId{id:u16}, guid_prefix: GuidPrefix{id:[u8;12]}}
    SubMessageHeader{sub_msg_id:u8, flags:u8, length:u16}
    SubMessage{header, payload: Vec<u8>}
    Packet{hdr, msgs: Vec<SubMessage>}

  `[u8; 12]` is kept as a byte list; that it has exactly 12 elements is part of the
  well-formedness predicate `RtpsSpec.WF` (and proved of every decoded packet).
-/
import Parsley.Base.Basic
namespace Parsley.Rtps
open Parsley

structure Header where
  version : UInt16
  vendor : UInt16
  guidPrefix : Bytes
deriving DecidableEq, Repr, Inhabited

structure SubHdr where
  id : UInt8
  flags : UInt8
  length : UInt16
deriving DecidableEq, Repr, Inhabited

structure SubMsg where
  hdr : SubHdr
  payload : Bytes
deriving DecidableEq, Repr, Inhabited

structure Packet where
  hdr : Header
  msgs : List SubMsg
deriving DecidableEq, Repr, Inhabited

end Parsley.Rtps
