/-
  The LOCATION reported by the two stream parsers of src/pdf_lib/pdf_streams.rs, as `P`-style wrappers around
  the models of the owning properties (Model/ObjStm.lean, C14; Model/Xref.lean, C13):

    ObjStreamP::parse (220-293)    `let start = buf.get_cursor(); … let end = buf.get_cursor();` - the members are
                                   parsed in two VIEWS of the (decoded) buffer, whose own cursor is never moved:
                                   the reported location is (cursor, cursor) whatever was parsed
    XrefStreamP::parse (589-633)   `let start = buf.get_cursor()` is taken from the buffer the parser is GIVEN,
                                   `let end = input.get_cursor()` from the buffer the rows were READ from; behind a
                                   /Filter these are different buffers (encoded / decoded), and the cursor of the
                                   given buffer is not moved

  Dictionaries are the ones the C15 harness builds (`/Type /ObjStm /N n /First f`, `/Type /XRef /Size … /W […]`
  with an optional `/Filter /ASCIIHexDecode`); contexts are fresh.  Import-free (core + Parsley.Model only).
-/
import Parsley.Model.ObjStm
import Parsley.Model.Xref
import Parsley.Model.Filters
namespace Parsley.StreamLoc
open Parsley

/-- `ObjStreamP::new(ctxt, stream).parse(buf)`, fresh context of depth bound `d`, unfiltered stream with `/N n /First first`:
    the members, located at (cursor, cursor); the cursor is where it was -/
def objStreamP (d n first : Nat) : P (List ObjStm.Member) := fun s i =>
  match (ObjStm.parseViews 0 ⟨[], ⟨0, d⟩, false⟩ n first s).1 with
  | .ok ms => (.ok ⟨ms, i, i⟩, i)
  | .err k => (.err k, i)
  | .panic q => (.panic q, i)

def asciiHexName : Bytes := [65, 83, 67, 73, 73, 72, 101, 120, 68, 101, 99, 111, 100, 101]

/-- the decoders available to the C15 cases: ASCIIHexDecode (model of C06) -/
def xf : Xref.Filter → Bytes → Res Bytes := fun f d =>
  if f.name == asciiHexName then Filters.hexDecode d else .err .transform

/-- `XrefStreamP::new(false, stream).parse(buf)` for the dictionary `dict`: entries, `start` = cursor of the given
    buffer, `end` = cursor of the buffer the rows were read from; the cursor afterwards is that of the GIVEN buffer:
    moved only when there is no filter (then both buffers are the same) -/
def xrefStreamLocP (dict : Xref.Dict) : P (List (Located Xref.Ent)) := fun s i =>
  let filtered : Bool := match Xref.getDictInfo dict with
    | .ok m => !m.filters.isEmpty
    | _ => false
  match Xref.xrefStreamP false dict xf s i with
  | (.ok es, c) => (.ok ⟨es, i, c⟩, if filtered then i else c)
  | (.err k, c) => (.err k, if filtered then i else c)
  | (.panic q, c) => (.panic q, if filtered then i else c)

end Parsley.StreamLoc
