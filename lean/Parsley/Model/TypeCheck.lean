/-
  Model of `src/pdf_lib/pdf_type_check.rs` (parsley-rust): objects, type-check specifications,
  `normalize_check`, `resolve`, the pending-check stack (`State`, `get_next_check`, `unwind`,
  `push_checks`, `return_check`, the examined-pair memo) and the work loop of `check_type` with all
  per-type cases in their Rust order.  Import-free (core + Parsley.Base only).

  DATA (shared with C09 and reusable for C10):
  * `Obj`  = `PDFObjT` without locations (the derived `Eq/Ord` of `LocatedVal` ignore them).
             `ObjL` is the list of (key, value) pairs used for dictionaries (a `BTreeMap`: the codec
             keeps it sorted by key, duplicate-free) and for arrays (key = `[]`, unused).
  * `Chk`  = `Rc<TypeCheck>`: `named n` is `TypeCheck::Named`, every other constructor is
             `TypeCheck::Rep` of a `TypeCheckRep { typ, pred, indirect }` (the `name` field of a rep is
             dropped: it is only used to register the rep in the context).  `Attr` = (pred, indirect).
             `dict a ents` / `dictStar a ents sopt schk` = `PDFType::Dict(ents, None / Some(star))`.
             `ChkL` = list of `DictEntry { key, opt, chk }`; for `het`/`disj` key and opt are unused.
  * `Pred` = the predicates the harness can build (`ChoicePred`, the `ReferencePredicate` of
             page_tree.rs, constant ones); `Pred.check` returns the error kind.
  * `Ctx`  = `TypeCheckContext` (name ↦ rep, later registration wins); `Graph` = `PDFObjContext.defns`.

  FIX FLAGS.  `Fix` has one flag per defect found; `Fix.orig` (all false) is the code at the pinned
  commit, `Fix.tree` is the code after the delivered patches /verif/pending_fixes/C08-NN-*.patch.
  Flags that are off in `Fix.tree` describe repairs that are NOT in the tree; they are used only by the
  judge's classifier of known findings ("would this single repair remove the disagreement?").

  The machine is a small-step function `step`; one step is one iteration of the loop inside
  `get_next_check`, followed -- when that returns a check -- by the body of the work loop.  `steps`
  counts work-loop iterations exactly like the `verif` hook counter in the Rust code.
-/
import Parsley.Base.Basic
import Parsley.Model.PdfDate
namespace Parsley.TC
open Parsley

inductive Prim where
  | bool | string | name | null | integer | real | comment
deriving DecidableEq, Repr, Inhabited

inductive Ind where
  | required | allowed | forbidden
deriving DecidableEq, Repr, Inhabited

inductive KeySpec where
  | required | optional | forbidden
deriving DecidableEq, Repr, Inhabited

mutual
inductive Obj where
  | arr (xs : ObjL)
  | dict (kvs : ObjL)
  | stream (kvs : ObjL) (start : Nat) (content : Bytes)
  | ref (num gen : Nat)
  | bool (b : Bool)
  | str (s : Bytes)
  | name (s : Bytes)
  | null
  | comment (s : Bytes)
  | int (i : Int)
  | real (n d : Int)
inductive ObjL where
  | nil
  | cons (k : Bytes) (v : Obj) (t : ObjL)
end
deriving instance DecidableEq for Obj, ObjL
deriving instance Repr for Obj, ObjL
instance : Inhabited Obj := ⟨.null⟩

def ObjL.toList : ObjL → List (Bytes × Obj)
  | .nil => []
  | .cons k v t => (k, v) :: t.toList

def ObjL.vals (l : ObjL) : List Obj := l.toList.map (·.2)
def ObjL.keys (l : ObjL) : List Bytes := l.toList.map (·.1)

/-- `DictT::get` -/
def ObjL.get : ObjL → Bytes → Option Obj
  | .nil, _ => none
  | .cons k v t, key => if k = key then some v else t.get key

def Obj.isRef : Obj → Bool
  | .ref _ _ => true
  | _ => false

/-- error kinds = constructors of `TypeCheckError` -/
inductive EK where
  | refNotFound | arraySize | missingKey | forbiddenKey | typeMismatch | valueMismatch
  | predicate | unknownTypeCheck
deriving DecidableEq, Repr, Inhabited

def EK.toString : EK → String
  | .refNotFound => "refnotfound" | .arraySize => "arraysize" | .missingKey => "missingkey"
  | .forbiddenKey => "forbiddenkey" | .typeMismatch => "typemismatch"
  | .valueMismatch => "valuemismatch" | .predicate => "predicate"
  | .unknownTypeCheck => "unknowntypecheck"

/-! ### the predicates of the shipped specifications (added for C10; add-only)
  `NameTreePredicate` (name_tree.rs:26-118), `NumberTreePredicate` (number_tree.rs:26-118) and
  `DateStringPredicate` (common_data_structures.rs:302-327).  The two tree predicates have the same text up to
  the type of the keys (string / integer) and the dictionary keys they read: the leaf array is read from
  `leafKey`, the final "exactly one of the permitted key combinations" test looks at `comboKey`.
  NumberTreePredicate at the pinned commit reads the leaf array from /Names and tests /Nums in the combination
  (DESIGN section 4 #24); the `numTree` constructor therefore carries the leaf key it reads. -/

def kNames : Bytes := [0x4E, 0x61, 0x6D, 0x65, 0x73]
def kNums : Bytes := [0x4E, 0x75, 0x6D, 0x73]
def kLimits : Bytes := [0x4C, 0x69, 0x6D, 0x69, 0x74, 0x73]
def kKids : Bytes := [0x4B, 0x69, 0x64, 0x73]

def Obj.isStr : Obj → Bool
  | .str _ => true
  | _ => false

def Obj.isInt : Obj → Bool
  | .int _ => true
  | _ => false

/-- the loop `for c in (0..len).step_by(2)`: key at `c`, reference at `c + 1` (the length is even) -/
def altPairs (isKey : Obj → Bool) : List Obj → Bool
  | a :: b :: t => isKey a && b.isRef && altPairs isKey t
  | [] => true
  | [_] => false

/-- the body shared by `NameTreePredicate::check` and `NumberTreePredicate::check`; values are inspected as
    they stand (`a.val()`): a reference is not followed -/
def treePredOK (leafKey comboKey : Bytes) (isKey : Obj → Bool) : Obj → Bool
  | .dict kvs =>
    (match kvs.get leafKey with
     | some (.arr xs) => if xs.vals.length % 2 = 0 then altPairs isKey xs.vals else false
     | some _ => false
     | none => true) &&
    (match kvs.get kLimits with
     | some (.arr xs) => xs.vals.all isKey && decide (xs.vals.length = 2)
     | _ => true) &&
    (match kvs.get kKids with
     | some (.arr xs) => xs.vals.all Obj.isRef
     | some _ => false
     | none => true) &&
    (let n := (kvs.get comboKey).isSome
     let l := (kvs.get kLimits).isSome
     let k := (kvs.get kKids).isSome
     (n && l && !k) || (!n && l && k) || (!n && !l && k) || (n && !l && !k))
  | _ => false

inductive Pred where
  | choice (vals : List Obj)   -- ChoicePred
  | refArray                   -- ReferencePredicate (an array all of whose elements are references)
  | never
  | always
  | nameTree                   -- NameTreePredicate (C10)
  | numTree (leafKey : Bytes)  -- NumberTreePredicate reading its leaf array from `leafKey` (C10)
  | date                       -- DateStringPredicate (C10)
  /-- (C10) the same predicate as a DISTINCT object: the memo compares predicates by the address of the
      `Rc<dyn Predicate>`, so two separately built predicates with the same text are different memo keys;
      the extraction of the shipped specification numbers the predicate objects -/
  | tagged (id : Nat) (p : Pred)
deriving DecidableEq, Repr

def Pred.eval : Pred → Obj → Bool
  | .choice vals, o => vals.any (fun v => decide (o = v))
  | .refArray, .arr xs => xs.vals.all Obj.isRef
  | .refArray, _ => false
  | .never, _ => false
  | .always, _ => true
  | .nameTree, o => treePredOK kNames kNames Obj.isStr o
  | .numTree leafKey, o => treePredOK leafKey kNums Obj.isInt o
  | .date, .str s => PdfDate.dateOK s
  | .date, _ => false
  | .tagged _ p, o => p.eval o

/-- the error kind the predicate's `check` produces -/
def Pred.ek : Pred → EK
  | .choice _ => .valueMismatch
  | .tagged _ p => p.ek
  | _ => .predicate

/-- `check_predicate` -/
def checkPred (p : Option Pred) (o : Obj) : Option EK :=
  match p with
  | none => none
  | some p => if p.eval o then none else some p.ek

structure Attr where
  pred : Option Pred
  ind : Ind
deriving DecidableEq, Repr

def Attr.dflt : Attr := ⟨none, .allowed⟩

mutual
inductive Chk where
  | named (n : String)
  | any (a : Attr)
  | prim (a : Attr) (p : Prim)
  | array (a : Attr) (elem : Chk) (size : Option Nat)
  | het (a : Attr) (elems : ChkL)
  | dict (a : Attr) (ents : ChkL)
  | dictStar (a : Attr) (ents : ChkL) (sopt : KeySpec) (schk : Chk)
  | stream (a : Attr) (ents : ChkL)
  | disj (a : Attr) (opts : ChkL)
inductive ChkL where
  | nil
  | cons (key : Bytes) (opt : KeySpec) (c : Chk) (t : ChkL)
end
deriving instance DecidableEq for Chk, ChkL
deriving instance Repr for Chk, ChkL
instance : Inhabited Chk := ⟨.named ""⟩

def ChkL.toList : ChkL → List (Bytes × KeySpec × Chk)
  | .nil => []
  | .cons k o c t => (k, o, c) :: t.toList

def ChkL.chks (l : ChkL) : List Chk := l.toList.map (·.2.2)

def ChkL.append : ChkL → ChkL → ChkL
  | .nil, r => r
  | .cons k o c t, r => .cons k o c (t.append r)

def Chk.attr : Chk → Attr
  | .named _ => Attr.dflt
  | .any a | .prim a _ | .array a _ _ | .het a _ | .dict a _ | .dictStar a _ _ _ | .stream a _
  | .disj a _ => a

def Chk.setAttr (b : Attr) : Chk → Chk
  | .named n => .named n
  | .any _ => .any b
  | .prim _ p => .prim b p
  | .array _ e s => .array b e s
  | .het _ es => .het b es
  | .dict _ es => .dict b es
  | .dictStar _ es so sc => .dictStar b es so sc
  | .stream _ es => .stream b es
  | .disj _ os => .disj b os

/-- `TypeCheckRep::allow_indirect` -/
def Chk.allowInd (c : Chk) : Chk := c.setAttr { c.attr with ind := .allowed }

def Chk.isDisj : Chk → Bool
  | .disj _ _ => true
  | _ => false

def Chk.isAny : Chk → Bool
  | .any _ => true
  | _ => false

/-- one flag per defect; see the header -/
structure Fix where
  /-- C08-01 (#21): the memo compares predicate identity and the indirect flag too -/
  memoFull : Bool
  /-- C08-02 (#22, predicate half): the `Any` short-cut of dictionary/stream entries and array elements
      is taken only when the `Any` check has no predicate -/
  anyAttrs : Bool
  /-- C08-03 (N4): the disjunct index is reset when a disjunction is exhausted -/
  staleIdx : Bool
  /-- C08-04 (N5): skipping an already examined check clears the pending error -/
  staleErr : Bool
  /-- C08-05 (N3): an undefined reference is checked as null with the indirect requirement removed -/
  undefRef : Bool
  /-- C08-06 (N1): the predicate of an array/dictionary/stream check is applied -/
  compoundPred : Bool
  /-- C08-07 (N2): a disjunction that reaches the work loop (through a name, or as an alternative
      that was not flattened) is put back as a pending set of its own and expanded -/
  namedDisj : Bool
  /-- C08-08 (#23): predicate and indirect requirement of a disjunction apply (guard ∧ bare
      disjunction), and `normalize_check` only flattens attribute-free nested disjunctions -/
  disjAttrs : Bool
  /-- C08-09 (#26): reference chains are followed to their value; a chain that cycles is null -/
  refChain : Bool
  /-- (#25) the memo is restored when an alternative of a disjunction fails -/
  trail : Bool
  /-- (#22, indirect half) the `Any` short-cut is not taken either when the check has an indirect
      requirement (`/Parent 17`); NOT in the tree: the crate's own test
      test_non_root_page_tree_not_wrong asserts that `/Parent [4 0 R]` is accepted -/
  anyInd : Bool
deriving DecidableEq, Repr

def Fix.orig : Fix := ⟨false, false, false, false, false, false, false, false, false, false, false⟩

/-- the code after the patches delivered in /verif/pending_fixes (C08-01 .. C08-09) -/
def Fix.tree : Fix :=
  { Fix.orig with memoFull := true, anyAttrs := true, staleIdx := true, staleErr := true,
                  undefRef := true, compoundPred := true,
                  namedDisj := true, disjAttrs := true, refChain := true }

/-- every repair switched on (used by the classifier only) -/
def Fix.all : Fix := ⟨true, true, true, true, true, true, true, true, true, true, true⟩

/-! ### normalize_check -/

mutual
def Chk.norm (fx : Fix) : Chk → Chk
  | .named n => .named n
  | .any a => .any a
  | .prim a p => .prim a p
  | .array a e s => .array a (e.norm fx) s
  | .het a es => .het a (es.norm fx)
  | .dict a es => .dict a (es.norm fx)
  | .dictStar a es so sc => .dictStar a (es.norm fx) so (sc.norm fx)
  | .stream a es => .stream a (es.norm fx)
  | .disj a os => .disj a (os.normFlat fx)
def ChkL.norm (fx : Fix) : ChkL → ChkL
  | .nil => .nil
  | .cons k o c t => .cons k o (c.norm fx) (t.norm fx)
def ChkL.normFlat (fx : Fix) : ChkL → ChkL
  | .nil => .nil
  | .cons k o c t =>
    match c.norm fx with
    | .disj a nested =>
      if fx.disjAttrs && a != Attr.dflt then .cons k o (.disj a nested) (t.normFlat fx)
      else nested.append (t.normFlat fx)
    | c' => .cons k o c' (t.normFlat fx)
end

/-! ### contexts -/

abbrev Ctx := List (String × Chk)
abbrev Graph := List ((Nat × Nat) × Obj)

/-- `TypeCheckContext::lookup` (the last registration under a name wins) -/
def Ctx.lookup : Ctx → String → Option Chk
  | [], _ => none
  | (k, v) :: t, n =>
    match Ctx.lookup t n with
    | some r => some r
    | none => if k = n then some v else none

/-- `resolve` -/
def resolve (ctx : Ctx) : Chk → Option Chk
  | .named n => ctx.lookup n
  | c => some c

/-- `PDFObjContext::lookup_obj` (the codec keeps ids unique) -/
def Graph.lookup : Graph → Nat × Nat → Option Obj
  | [], _ => none
  | (k, v) :: t, id => if k = id then some v else Graph.lookup t id

/-- (fix refChain, C08-09) follow a reference chain.  The Rust loop keeps the set of ids it has looked
    up and stops at the first repetition; ids are unique in the graph, so a chain of distinct defined
    ids has at most `g.length` links and `fuel` = number of definitions + 1 gives the same result
    (a value, or null for an undefined target or a cycle). -/
def Graph.chase (g : Graph) : Nat → Obj → Obj
  | 0, _ => .null
  | n+1, .ref a b =>
    match g.lookup (a, b) with
    | some t => Graph.chase g n t
    | none => .null
  | _+1, o => o

/-! ### the memo -/

mutual
def Chk.strip : Chk → Chk
  | .named n => .named n
  | .any _ => .any Attr.dflt
  | .prim _ p => .prim Attr.dflt p
  | .array _ e s => .array Attr.dflt e.strip s
  | .het _ es => .het Attr.dflt es.strip
  | .dict _ es => .dict Attr.dflt es.strip
  | .dictStar _ es so sc => .dictStar Attr.dflt es.strip so sc.strip
  | .stream _ es => .stream Attr.dflt es.strip
  | .disj _ os => .disj Attr.dflt os.strip
def ChkL.strip : ChkL → ChkL
  | .nil => .nil
  | .cons k o c t => .cons k o c.strip t.strip
end

abbrev Pend := Obj × Chk

/-- equality of `PendingCheck`s as seen by the `BTreeSet`: objects structurally (no locations);
    checks by `TypeCheckRep::eq`, which at the pinned commit compares the type only, recursively -/
def memoEq (fx : Fix) (p q : Pend) : Bool :=
  decide (p.1 = q.1) && (if fx.memoFull then decide (p.2 = q.2) else decide (p.2.strip = q.2.strip))

def haveExamined (fx : Fix) (ex : List Pend) (p : Pend) : Bool := ex.any (memoEq fx p)

/-! ### the per-type cases of the work loop -/

inductive Act where
  | hard (k : EK)          -- `return Some(err)` out of check_type
  | fail (k : EK)          -- `result = Some(err)`
  | pass                   -- `result` stays `None`, nothing pushed
  | ret (p : Pend)         -- `state.return_check(p)`
  | push (ps : List Pend)  -- `state.push_checks(ps)`
  | pushRaw (ps : List Pend)  -- (fix namedDisj) `push_disjunct`: a new pending set, not filtered by the memo
deriving Repr

def ofPred (r : Option EK) : Act :=
  match r with
  | none => .pass
  | some k => .fail k

def primMatches : Obj → Prim → Bool
  | .bool _, .bool | .str _, .string | .name _, .name | .null, .null | .int _, .integer
  | .real _ _, .real | .comment _, .comment => true
  | _, _ => false

/-- the `(Some(_), _, PDFType::Any) => continue` short-cut -/
def anyShortcut (fx : Fix) (r : Chk) : Bool :=
  match r with
  | .any a =>
    if fx.anyInd then decide (a = Attr.dflt) else if fx.anyAttrs then a.pred.isNone else true
  | _ => false

inductive EntRes where
  | hard (k : EK)
  | fail (k : EK)
  | ok (chks : List Pend)

/-- the loop over the explicitly specified keys of a dictionary type (breaks at the first error) -/
def dictEnts (fx : Fix) (ctx : Ctx) (kvs : ObjL) : ChkL → List Pend → EntRes
  | .nil, acc => .ok acc.reverse
  | .cons key opt chk t, acc =>
    match resolve ctx chk with
    | none => .hard .unknownTypeCheck
    | some r =>
      match kvs.get key, opt with
      | none, .optional => dictEnts fx ctx kvs t acc
      | none, .forbidden => dictEnts fx ctx kvs t acc
      | none, .required => .fail .missingKey
      | some _, .forbidden => .fail .forbiddenKey
      | some v, _ =>
        if anyShortcut fx r then dictEnts fx ctx kvs t acc
        else dictEnts fx ctx kvs t ((v, chk) :: acc)

/-- the loop over the unspecified keys against the `*` entry -/
def starEnts (fx : Fix) (specified : List Bytes) (sopt : KeySpec) (schk r : Chk) :
    List (Bytes × Obj) → List Pend → EntRes
  | [], acc => .ok acc.reverse
  | (k, v) :: t, acc =>
    if specified.contains k then starEnts fx specified sopt schk r t acc
    else
      match sopt with
      | .forbidden => .fail .forbiddenKey
      | _ =>
        if anyShortcut fx r then starEnts fx specified sopt schk r t acc
        else starEnts fx specified sopt schk r t ((v, schk) :: acc)

/-- the loop over the entries of a stream type: no `break`, the last error wins -/
def streamEnts (fx : Fix) (ctx : Ctx) (kvs : ObjL) : ChkL → Option EK → List Pend → EntRes
  | .nil, res, acc =>
    match res with
    | some k => .fail k
    | none => .ok acc.reverse
  | .cons key opt chk t, res, acc =>
    match resolve ctx chk with
    | none => .hard .unknownTypeCheck
    | some r =>
      match kvs.get key, opt with
      | none, .optional => streamEnts fx ctx kvs t res acc
      | none, .forbidden => streamEnts fx ctx kvs t res acc
      | none, .required => streamEnts fx ctx kvs t (some .missingKey) acc
      | some _, .forbidden => streamEnts fx ctx kvs t (some .forbiddenKey) acc
      | some v, _ =>
        if anyShortcut fx r then streamEnts fx ctx kvs t res acc
        else streamEnts fx ctx kvs t res ((v, chk) :: acc)

def ofEntRes (fx : Fix) (a : Attr) (o : Obj) : EntRes → Act
  | .hard k => .hard k
  | .fail k => .fail k
  | .ok chks =>
    if fx.compoundPred then
      match checkPred a.pred o with
      | some k => .fail k
      | none => .push chks
    else .push chks

def zipHet : List Obj → List Chk → List Pend
  | x :: xs, c :: cs => (x, c) :: zipHet xs cs
  | _, _ => []

/-- the non-reference part of the big `match (o.val(), c.typ(), c.indirect())`;
    `c` is the resolved rep (never `named`) -/
def checkShape (fx : Fix) (ctx : Ctx) (o : Obj) (c : Chk) : Act :=
  match c with
  | .named _ => .hard .unknownTypeCheck   -- not reachable: `c` is resolved
  | .disj _ _ => .hard .predicate        -- "Unsupported disjunct type, most likely unnormalized."
  | .any a => ofPred (checkPred a.pred o)
  | .prim a p => if primMatches o p then ofPred (checkPred a.pred o) else .fail .typeMismatch
  | .array a elem size =>
    match o with
    | .arr xs =>
      if (match size with | some sz => decide (xs.vals.length ≠ sz) | none => false) then
        .fail .arraySize
      else
        match resolve ctx elem with
        | none => .hard .unknownTypeCheck
        | some er =>
          if anyShortcut fx er then ofPred (checkPred a.pred o)
          else ofEntRes fx a o (.ok (xs.vals.map fun e => (e, elem)))
    | _ => .fail .typeMismatch
  | .het a elems =>
    match o with
    | .arr xs =>
      if xs.vals.length ≠ elems.chks.length then .fail .arraySize
      else ofEntRes fx a o (.ok (zipHet xs.vals elems.chks))
    | _ => .fail .typeMismatch
  | .dict a ents =>
    match o with
    | .dict kvs => ofEntRes fx a o (dictEnts fx ctx kvs ents [])
    | _ => .fail .typeMismatch
  | .dictStar a ents sopt schk =>
    match o with
    | .dict kvs =>
      match dictEnts fx ctx kvs ents [] with
      | .hard k => .hard k
      | .fail k => .fail k
      | .ok chks =>
        match resolve ctx schk with
        | none => .hard .unknownTypeCheck
        | some r =>
          match starEnts fx (ents.toList.map (·.1)) sopt schk r kvs.toList [] with
          | .hard k => .hard k
          | .fail k => .fail k
          | .ok chks2 => ofEntRes fx a o (.ok (chks ++ chks2))
    | _ => .fail .typeMismatch
  | .stream a ents =>
    match o with
    | .stream kvs _ _ => ofEntRes fx a o (streamEnts fx ctx kvs ents none [])
    | _ => .fail .typeMismatch

/-- the whole `match`: references first, then the indirect requirement, then the type.
    `tc` is the pending check as queued (possibly `named`), `c` its resolution. -/
def processCheck (fx : Fix) (g : Graph) (ctx : Ctx) (o : Obj) (tc c : Chk) : Act :=
  if fx.namedDisj && c.isDisj then .pushRaw [(o, c)] else
  match o, c.attr.ind with
  | .ref _ _, .forbidden => .fail .valueMismatch
  | .ref a b, _ =>
    if fx.refChain then
      .ret (g.chase (g.length + 1) (.ref a b), c.allowInd)
    else
      match g.lookup (a, b) with
      | some t => .ret (t, c.allowInd)
      | none => .ret (.null, if fx.undefRef then c.allowInd else tc)
  | _, .required => .fail .valueMismatch
  | _, _ => checkShape fx ctx o c

/-! ### the state and the machine -/

structure Ent where
  pending : List Pend
  idx : Nat
  /-- (fix trail only) the memo when the disjunction at the front was taken up -/
  snap : Option (List Pend)
deriving Repr

structure St where
  todo : List Ent
  examined : List Pend
  /-- `result` of the work loop -/
  err : Option EK
  /-- work-loop iterations started (= the `verif` hook counter) -/
  steps : Nat
  /-- the next step starts a new work-loop iteration (a fresh `get_next_check` call) -/
  fresh : Bool
deriving Repr

inductive Outcome where
  | accept
  | reject (k : EK)
  | panic (site : String)
  | outOfFuel
deriving DecidableEq, Repr

/-- `State::unwind`: `none` = returned false (stack emptied) -/
def unwind : List Ent → Option (List Ent)
  | [] => none
  | e :: rest =>
    match e.pending with
    | (_, tc) :: _ => if tc.isDisj && decide (e.idx > 0) then some (e :: rest) else unwind rest
    | [] => unwind rest

/-- `unwind()` then `continue`, or `return Err(())` which makes check_type return `result` -/
def unwindOr (st : St) (t : List Ent) (k : EK) : St ⊕ (Outcome × Nat) :=
  match unwind t with
  | some t' => .inl { st with todo := t' }
  | none => .inr (.reject k, st.steps)

/-- `push_checks` -/
def pushChecks (fx : Fix) (st : St) (ps : List Pend) : St :=
  match ps.filter (fun p => !haveExamined fx st.examined p) with
  | [] => st
  | set => { st with todo := ⟨set, 0, none⟩ :: st.todo }

/-- the body of the work loop for the check `(o, tc)` returned by `get_next_check` -/
def issue (fx : Fix) (g : Graph) (ctx : Ctx) (st : St) (o : Obj) (tc : Chk) : St ⊕ (Outcome × Nat) :=
  match resolve ctx tc with
  | none => .inr (.reject .unknownTypeCheck, st.steps)
  | some c =>
    if haveExamined fx st.examined (o, tc) then
      .inl { st with fresh := true, err := if fx.staleErr then none else st.err }
    else
      let st := { st with examined := (o, tc) :: st.examined, err := none, fresh := true }
      match processCheck fx g ctx o tc c with
      | .hard k => .inr (.reject k, st.steps)
      | .fail k => .inl { st with err := some k }
      | .pass => .inl st
      | .ret p =>
        match st.todo with
        | e :: rest => .inl { st with todo := { e with pending := p :: e.pending } :: rest }
        | [] => .inr (.panic "return_check: unreachable", st.steps)
      | .push ps => .inl (pushChecks fx st ps)
      | .pushRaw ps => .inl { st with todo := ⟨ps, 0, none⟩ :: st.todo }

def restore (fx : Fix) (st : St) (e : Ent) : St :=
  if fx.trail then { st with examined := e.snap.getD st.examined } else st

/-- one iteration of the loop in `get_next_check` (+ the work-loop body when it returns a check) -/
def step (fx : Fix) (g : Graph) (ctx : Ctx) (st0 : St) : St ⊕ (Outcome × Nat) :=
  let st : St := if st0.fresh then { st0 with steps := st0.steps + 1, fresh := false } else st0
  match st.todo with
  | [] =>
    -- no more pending checks: Err(()) / Ok(None); the two `assert!`s of the work loop hold by construction
    match st.err with
    | some k => .inr (.reject k, st.steps)
    | none => .inr (.accept, st.steps)
  | e :: rest =>
    match e.pending with
    | [] =>
      match st.err with
      | some k => unwindOr st (e :: rest) k
      | none => .inl { st with todo := rest }
    | (obj, tc) :: ptl =>
      match tc with
      | .disj a set =>
        if e.idx > 0 then
          -- an in-progress disjunct
          match st.err with
          | none => .inl { st with todo := { e with pending := ptl, idx := 0, snap := none } :: rest }
          | some k =>
            match set.chks[e.idx]? with
            | some c =>
              issue fx g ctx
                (restore fx { st with todo := { e with pending := (obj, tc) :: ptl, idx := e.idx + 1 } :: rest } e)
                obj c
            | none =>
              unwindOr (restore fx st e)
                ({ e with pending := ptl, idx := if fx.staleIdx then 0 else e.idx, snap := none } :: rest) k
        else
          match st.err with
          | some k => unwindOr st ({ e with pending := ptl } :: rest) k
          | none =>
            -- an unprocessed disjunct
            match set.chks with
            | [] => .inr (.panic "get_next_check: unreachable (empty disjunct)", st.steps)
            | c0 :: _ =>
              if fx.disjAttrs && a != Attr.dflt then
                issue fx g ctx
                  { st with todo := { e with pending := (obj, .disj Attr.dflt set) :: ptl } :: rest }
                  obj (.any a)
              else
                issue fx g ctx
                  { st with todo := { e with pending := (obj, tc) :: ptl, idx := 1,
                                             snap := if fx.trail then some st.examined else none } :: rest }
                  obj c0
      | _ =>
        match st.err with
        | some k => unwindOr st ({ e with pending := ptl } :: rest) k
        | none => issue fx g ctx { st with todo := { e with pending := ptl } :: rest } obj tc

def run (fx : Fix) (g : Graph) (ctx : Ctx) : Nat → St → Outcome × Nat
  | 0, st => (.outOfFuel, st.steps)
  | n+1, st =>
    match step fx g ctx st with
    | .inl st' => run fx g ctx n st'
    | .inr r => r

/-- `State::new` after `resolve` and `normalize_check` of the top-level check -/
def initSt (o : Obj) (c : Chk) : St :=
  { todo := [⟨[(o, c)], 0, none⟩], examined := [], err := none, steps := 0, fresh := true }

/-- `check_type` with an explicit fuel; returns the outcome and the work-loop iteration count -/
def checkTypeFuel (fx : Fix) (g : Graph) (ctx : Ctx) (fuel : Nat) (o : Obj) (chk : Chk) : Outcome × Nat :=
  match resolve ctx chk with
  | none => (.reject .unknownTypeCheck, 0)
  | some rep => run fx g ctx fuel (initSt o (rep.norm fx))

end Parsley.TC
