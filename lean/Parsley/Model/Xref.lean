/-
  Model of the cross-reference decoders of parsley-rust.

  Part A  src/pdf_lib/pdf_file.rs   XrefEntP (71-174), XrefSubSectP (191-250), XrefSectP (371-413)
          with the pieces of src/pcore/parsebuffer.rs (extract, exact, peek, parse_allowed_bytes)
          and src/pdf_lib/pdf_prim.rs (WhitespaceNoEOL, Comment, WhitespaceEOL, IntegerP) they call.
  Part B  src/pdf_lib/pdf_streams.rs XrefStreamP::get_dict_info (366-499), StreamT::filters
          (pdf_obj.rs 335-403), parse_usize_with_width / parse_stream (501-576), parse (581-630).

  Written line by line after the Rust code, with the same exits.  A parser returns the
  outcome AND the cursor afterwards (several of these parsers leave the cursor mid-way on
  failure).  Partial Rust operations are explicit `panic` outcomes; loops without an evident
  structural measure take a fuel argument (`wsEol`, `sectLoop`) - see `Props/C13.lean` for
  the `…_fuel_sufficient` lemmas.

  `xrefSectP` mirrors the code AFTER pending fix C13-01 (a section ends only where no further
  subsection header starts; an error inside a later subsection is an error).  The loop as
  shipped before the fix is kept as `sectLoopOld`/`xrefSectPOld` for the witness theorem.
-/
import Parsley.Base.Basic
import Parsley.Model.XrefTypes
namespace Parsley.Xref
open Parsley

/-- A step of a parser model: outcome and cursor afterwards. -/
abbrev Step (α : Type) := Res α × Nat

/-- `?` : continue on `Ok`, otherwise return the error with the cursor where it is. -/
@[inline] def andThen {α β : Type} (r : Step α) (f : α → Nat → Step β) : Step β :=
  match r with
  | (.ok v, c) => f v c
  | (.err k, c) => (.err k, c)
  | (.panic p, c) => (.panic p, c)

/-! ### ParseBuffer primitives (whole buffer, cursor `i ≤ s.length`) -/

/-- `ParseBufferT::extract(len)` -/
def extract (n : Nat) (s : Bytes) (i : Nat) : Step Bytes :=
  if s.length - i < n then (.err .eob, i) else (.ok ((s.drop i).take n), i + n)

/-- `ParseBufferT::exact(tag)`: `starts_with`, cursor unmoved on mismatch (GuardError "match") -/
def exact (tag : Bytes) (s : Bytes) (i : Nat) : Step Unit :=
  if tag.isPrefixOf (s.drop i) then (.ok (), i + tag.length) else (.err .guard, i)

/-- `parse_allowed_bytes`: the longest prefix of allowed bytes; never fails -/
def parseAllowed (allow : UInt8 → Bool) (s : Bytes) (i : Nat) : Bytes × Nat :=
  let r := (s.drop i).takeWhile allow
  (r, i + r.length)

def isWsNoEol (b : UInt8) : Bool := b == 32 || b == 0 || b == 9 || b == 13 || b == 12
def isWsEol (b : UInt8) : Bool := b == 32 || b == 0 || b == 9 || b == 13 || b == 10 || b == 12
def isDigit (b : UInt8) : Bool := 48 ≤ b && b ≤ 57
def notLf (b : UInt8) : Bool := b != 10

/-- `WhitespaceNoEOL::new(empty_ok).parse` (rewinds one byte when the blanks end in CR and LF follows) -/
def wsNoEol (emptyOk : Bool) (s : Bytes) (i : Nat) : Step Unit :=
  let (ws, j) := parseAllowed isWsNoEol s i
  if ws.isEmpty && !emptyOk then (.err .guard, j)
  else if ws.getLast? == some 13 && s[j]? == some 10 then
    if j == 0 then (.panic "decr_cursor_unsafe", j) else (.ok (), j - 1)
  else (.ok (), j)

/-- `Comment.parse` -/
def comment (s : Bytes) (i : Nat) : Step Unit :=
  if s[i]? != some 37 then (.err .guard, i)
  else
    let (_, j) := parseAllowed notLf s (i + 1)
    if s[j]? == some 10 then (.ok (), j + 1) else (.ok (), j)

/-- the `loop` of `WhitespaceEOL::parse`; the Bool is `is_empty` -/
def wsEolLoop : Nat → Bytes → Nat → Bool → Step Bool
  | 0, _, i, _ => (.panic "fuel", i)
  | f + 1, s, i, isEmpty =>
    let (v, j) := parseAllowed isWsEol s i
    let isEmpty := isEmpty && v.isEmpty
    if s[j]? == some 37 then
      match comment s j with
      | (.ok _, k) => wsEolLoop f s k false
      | (.err e, k) => (.err e, k)
      | (.panic p, k) => (.panic p, k)
    else (.ok isEmpty, j)

/-- `WhitespaceEOL::new(empty_ok).parse` -/
def wsEol (emptyOk : Bool) (s : Bytes) (i : Nat) : Step Unit :=
  match wsEolLoop (s.length - i + 1) s i true with
  | (.ok isEmpty, j) => if isEmpty && !emptyOk then (.err .guard, j) else (.ok (), j)
  | (.err e, j) => (.err e, j)
  | (.panic p, j) => (.panic p, j)

def i64Max : Nat := 2 ^ 63 - 1

/-- the digit loop of `IntegerP::parse` with `checked_mul`/`checked_add`; `none` = overflow -/
def accDigits : Bytes → Nat → Option Nat
  | [], n => some n
  | c :: t, n =>
    if n * 10 > i64Max then none
    else if n * 10 + (c.toNat - 48) > i64Max then none
    else accDigits t (n * 10 + (c.toNat - 48))

/-- `IntegerP.parse` (restores the cursor on failure; `.` after no digits yields 0 - as the code does) -/
def integerP : P Int := fun s i =>
  let sgn : Bool × Nat :=
    if s[i]? == some 45 then (true, i + 1) else if s[i]? == some 43 then (false, i + 1) else (false, i)
  let (ds, j) := parseAllowed isDigit s sgn.2
  if ds.isEmpty && s[j]? != some 46 then (.err .guard, i)
  else
    match accDigits ds 0 with
    | none => (.err .guard, i)
    | some n => (.ok ⟨if sgn.1 then -(n : Int) else (n : Int), i, j⟩, j)

/-! ### Part A: the classic table -/

/-- `str::parse::<usize>()` on a string of ASCII digits -/
def decVal (ds : Bytes) : Nat := ds.foldl (fun a c => a * 10 + (c.toNat - 48)) 0

def usizeLim : Nat := 2 ^ 64

/-- `XrefEntP::new(ent_idx).parse`.  `read_to_string` failing (not UTF-8) and the digit count
    test both give a GuardError at the same cursor: one test "all bytes are ASCII digits". -/
def xrefEntP (idx : Nat) : P Ent := fun s i =>
  andThen (extract 10 s i) fun inf c1 =>
  if !(inf.all isDigit) then (.err .guard, c1)
  else if decVal inf ≥ usizeLim then (.err .guard, c1)          -- `infs.parse::<usize>()` Err
  else
  andThen (exact [32] s c1) fun _ c2 =>
  andThen (extract 5 s c2) fun gs c3 =>
  if !(gs.all isDigit) then (.err .guard, c3)
  else if decVal gs ≥ usizeLim then (.err .guard, c3)
  else if decVal gs > 65535 then (.err .guard, c3)
  else
  andThen (exact [32] s c3) fun _ c4 =>
  andThen (extract 1 s c4) fun flg c5 =>
  match flg with
  | [] => (.panic "flg[0]", c5)
  | b :: _ =>
    if b != 102 && b != 110 then (.err .guard, c5)
    else
    andThen (extract 2 s c5) fun eol c6 =>
    if eol != [32, 13] && eol != [32, 10] && eol != [13, 10] then (.err .guard, c6)
    else
      let st := if b == 110 then Status.inUse (decVal inf) else Status.free (decVal inf)
      (.ok ⟨⟨idx, decVal gs, st⟩, i, c6⟩, c6)

/-- `for idx in 0 .. xcount { XrefEntP::new(xstart + idx).parse(buf)? }` (`obj` = `xstart + idx`,
    a debug-build `+` on `usize`) -/
def entsLoop : Nat → Nat → Bytes → Nat → Step (List (Located Ent))
  | 0, _, _, c => (.ok [], c)
  | n + 1, obj, s, c =>
    if obj ≥ usizeLim then (.panic "xstart + idx", c)
    else
    match xrefEntP obj s c with
    | (.ok e, c') =>
      match entsLoop n (obj + 1) s c' with
      | (.ok es, c'') => (.ok (e :: es), c'')
      | (.err k, c'') => (.err k, c'')
      | (.panic p, c'') => (.panic p, c'')
    | (.err k, c') => (.err k, c')
    | (.panic p, c') => (.panic p, c')

/-- `XrefSubSectT` -/
structure SubSect where
  start : Nat
  count : Nat
  ents : List (Located Ent)
deriving Repr, DecidableEq

/-- `XrefSubSectP.parse` -/
def xrefSubSectP : P SubSect := fun s i =>
  andThen (wsNoEol true s i) fun _ c0 =>
  andThen (integerP s c0) fun xs c1 =>
  if xs.val < 0 then (.err .guard, c1)                           -- usize::try_from
  else
  andThen (exact [32] s c1) fun _ c2 =>
  andThen (integerP s c2) fun xc c3 =>
  if xc.val < 0 then (.err .guard, c3)
  else
  andThen (wsEol false s c3) fun _ c4 =>
  andThen (entsLoop xc.val.toNat xs.val.toNat s c4) fun es c5 =>
  (.ok ⟨⟨xs.val.toNat, xc.val.toNat, es⟩, i, c5⟩, c5)

/-- does a subsection header start here: a digit or a sign (what `IntegerP` begins with) -/
def startsHeader (b : Option UInt8) : Bool :=
  match b with
  | some c => isDigit c || c == 43 || c == 45
  | none => false

/-- the `loop` of `XrefSectP::parse` after fix C13-01: the first subsection is mandatory; a further
    one is parsed iff, after optional blanks, a header starts; its errors propagate.  When no
    header follows the cursor stays after the blanks (where the old code left it too). -/
def sectLoop : Nat → Bytes → Nat → Bool → Step (List (Located SubSect))
  | 0, _, c, _ => (.panic "fuel", c)
  | f + 1, s, c, first =>
    let more : Step Bool :=
      if first then (.ok true, c)
      else andThen (wsNoEol true s c) fun _ c1 =>
        if startsHeader s[c1]? then (.ok true, c) else (.ok false, c1)
    match more with
    | (.ok true, c) =>
      (match xrefSubSectP s c with
      | (.ok ss, c') =>
        (match sectLoop f s c' false with
        | (.ok l, c'') => (.ok (ss :: l), c'')
        | (.err k, c'') => (.err k, c'')
        | (.panic p, c'') => (.panic p, c''))
      | (.err k, c') => (.err k, c')
      | (.panic p, c') => (.panic p, c'))
    | (.ok false, c) => (.ok [], c)
    | (.err k, c) => (.err k, c)
    | (.panic p, c) => (.panic p, c)

/-- `XrefSectP.parse` -/
def xrefSectP : P (List (Located SubSect)) := fun s i =>
  andThen (wsEol true s i) fun _ c0 =>
  andThen (exact [120, 114, 101, 102] s c0) fun _ c1 =>          -- "xref"; failure re-wrapped as GuardError
  andThen (wsEol false s c1) fun _ c2 =>
  andThen (sectLoop (s.length - c2 + 2) s c2 true) fun l c3 =>
  (.ok ⟨l, i, c3⟩, c3)

/-- `XrefSectT::ents()` (the iterator walks the subsections in order) -/
def sectEnts (l : List (Located SubSect)) : List Ent :=
  l.flatMap fun ss => ss.val.ents.map (·.val)

/-- The loop as shipped BEFORE fix C13-01: any failure after the first subsection ends the
    section with `Ok` (cursor where the failed subsection parser left it). -/
def sectLoopOld : Nat → Bytes → Nat → Bool → Step (List (Located SubSect))
  | 0, _, c, _ => (.panic "fuel", c)
  | f + 1, s, c, first =>
    match xrefSubSectP s c with
    | (.ok ss, c') =>
      (match sectLoopOld f s c' false with
      | (.ok l, c'') => (.ok (ss :: l), c'')
      | (.err k, c'') => (.err k, c'')
      | (.panic p, c'') => (.panic p, c''))
    | (.err k, c') => if first then (.err k, c') else (.ok [], c')
    | (.panic p, c') => (.panic p, c')

def xrefSectPOld : P (List (Located SubSect)) := fun s i =>
  andThen (wsEol true s i) fun _ c0 =>
  andThen (exact [120, 114, 101, 102] s c0) fun _ c1 =>
  andThen (wsEol false s c1) fun _ c2 =>
  andThen (sectLoopOld (s.length - c2 + 2) s c2 true) fun l c3 =>
  (.ok ⟨l, i, c3⟩, c3)

/-! ### Part B: the cross-reference stream -/

/-- `DictT::get` -/
def dget (d : Dict) (k : Bytes) : Option Val :=
  match d with
  | [] => none
  | (k', v) :: t => if k' == k then some v else dget t k

/-- `DictT::get_usize`: an Integer that converts to `usize` -/
def getUsize (d : Dict) (k : Bytes) : Option Nat :=
  match dget d k with
  | some (.atom (.int v)) => if 0 ≤ v then some v.toNat else none
  | _ => none

def getName (d : Dict) (k : Bytes) : Option Bytes :=
  match dget d k with
  | some (.atom (.name n)) => some n
  | _ => none

def getArray (d : Dict) (k : Bytes) : Option (List Atom) :=
  match dget d k with
  | some (.arr l) => some l
  | _ => none

def getDictTag (d : Dict) (k : Bytes) : Option Nat :=
  match dget d k with
  | some (.atom (.dict t)) => some t
  | _ => none

def kType : Bytes := [84, 121, 112, 101]
def kSize : Bytes := [83, 105, 122, 101]
def kPrev : Bytes := [80, 114, 101, 118]
def kIndex : Bytes := [73, 110, 100, 101, 120]
def kW : Bytes := [87]
def kFilter : Bytes := [70, 105, 108, 116, 101, 114]
def kDecodeParms : Bytes := [68, 101, 99, 111, 100, 101, 80, 97, 114, 109, 115]
def nXRef : Bytes := [88, 82, 101, 102]

/-- the pairing loop over `/Index` (`step_by(2)` zipped with `skip(1).step_by(2)`) -/
def indexPairs : List Atom → Option (List (Nat × Nat))
  | .int s :: .int c :: t =>
    if s < 0 then none else if c < 0 then none
    else match indexPairs t with
      | some l => some ((s.toNat, c.toNat) :: l)
      | none => none
  | [] => some []
  | [_] => some []            -- zip stops; unreachable after the even-length test
  | _ :: _ :: _ => none       -- non-integer entries

/-- the loop over `/W` -/
def widthList : List Atom → Option (List Nat)
  | [] => some []
  | .int i :: t =>
    if i < 0 then none else if i.toNat > 4 then none
    else match widthList t with
      | some l => some (i.toNat :: l)
      | none => none
  | _ :: _ => none

/-- the `(Name, Null|Dict)` zip of `StreamT::filters` -/
def zipFilters : List Atom → List Atom → Option (List Filter)
  | .name n :: fs, .null :: ds => (zipFilters fs ds).map (⟨n, none⟩ :: ·)
  | .name n :: fs, .dict t :: ds => (zipFilters fs ds).map (⟨n, some t⟩ :: ·)
  | _ :: _, _ :: _ => none
  | _, _ => some []

def namesOnly : List Atom → Option (List Filter)
  | [] => some []
  | .name n :: t => (namesOnly t).map (⟨n, none⟩ :: ·)
  | _ :: _ => none

/-- `StreamT::filters` (`none` = GuardError) -/
def streamFilters (d : Dict) : Option (List Filter) :=
  match getName d kFilter with
  | some name =>
    match getDictTag d kDecodeParms with
    | some t => some [⟨name, some t⟩]
    | none => if (getArray d kDecodeParms).isSome then none else some [⟨name, none⟩]
  | none =>
    match getArray d kFilter with
    | some fa =>
      match getArray d kDecodeParms with
      | some da => if da.length != fa.length then none else zipFilters fa da
      | none => namesOnly fa
    | none => some []

/-- `XrefStreamDictInfo` -/
structure DictInfo where
  size : Nat
  prev : Option Nat
  index : Option (List (Nat × Nat))
  w0 : Nat
  w1 : Nat
  w2 : Nat
  filters : List Filter
deriving Repr, DecidableEq

/-- `XrefStreamP::get_dict_info` (`none` = GuardError located at the dictionary) -/
def getDictInfo (d : Dict) : Res DictInfo :=
  match getName d kType with
  | none => .err .guard
  | some t =>
  if t != nXRef then .err .guard
  else
  match getUsize d kSize with
  | none => .err .guard
  | some size =>
  let prev := getUsize d kPrev
  let idx : Option (Option (List (Nat × Nat))) :=       -- outer none = error
    match getArray d kIndex with
    | some i =>
      if i.length % 2 != 0 then none
      else match indexPairs i with
        | some l => some (some l)
        | none => none
    | none => some none
  match idx with
  | none => .err .guard
  | some index =>
  match getArray d kW with
  | none => .err .guard
  | some w =>
  if w.length != 3 then .err .guard
  else
  match widthList w with
  | none => .err .guard
  | some [w0, w1, w2] =>
    if w1 == 0 then .err .guard
    else
    match streamFilters d with
    | none => .err .guard
    | some fs => .ok ⟨size, prev, index, w0, w1, w2, fs⟩
  | some _ => .panic "w_array[i]"

/-- `parse_usize_with_width` (`(val << 8) | byte` on `usize`, i.e. modulo 2^64) -/
def parseUsizeW : Nat → Bytes → Nat → Nat → Step Nat
  | 0, _, c, v => (.ok v, c)
  | w + 1, s, c, v =>
    match s[c]? with
    | none => (.err .eob, c)
    | some b => parseUsizeW w s (c + 1) ((v * 256 + b.toNat) % usizeLim)

/-- one iteration of the inner loop of `parse_stream` -/
def rowP (w0 w1 w2 : Nat) (obj : Nat) : P Ent := fun s i =>
  let typ : Step Nat :=
    if w0 == 0 then (.ok 1, i)
    else andThen (parseUsizeW w0 s i 0) fun f c => if f > 2 then (.err .guard, c) else (.ok f, c)
  andThen typ fun t c0 =>
  andThen (parseUsizeW w1 s c0 0) fun f2 c1 =>
  andThen (if w2 > 0 then parseUsizeW w2 s c1 0 else (.ok 0, c1)) fun f3 c2 =>
  match t with
  | 0 => (.ok ⟨⟨obj, f3, .free f2⟩, i, c2⟩, c2)
  | 1 => (.ok ⟨⟨obj, f3, .inUse f2⟩, i, c2⟩, c2)
  | 2 => (.ok ⟨⟨obj, 0, .inStream f2 f3⟩, i, c2⟩, c2)
  | _ => (.panic "unhandled entry type in xref stream", c2)

/-- `for c in 0 .. count` (`obj` = `start_obj + c`, a debug-build `+`) -/
def rowsLoop (w0 w1 w2 : Nat) : Nat → Nat → Bytes → Nat → Step (List (Located Ent))
  | 0, _, _, c => (.ok [], c)
  | n + 1, obj, s, c =>
    if obj ≥ usizeLim then (.panic "start_obj + c", c)
    else
    match rowP w0 w1 w2 obj s c with
    | (.ok e, c') =>
      match rowsLoop w0 w1 w2 n (obj + 1) s c' with
      | (.ok es, c'') => (.ok (e :: es), c'')
      | (.err k, c'') => (.err k, c'')
      | (.panic p, c'') => (.panic p, c'')
    | (.err k, c') => (.err k, c')
    | (.panic p, c') => (.panic p, c')

/-- `for (start_obj, count) in index.iter()` -/
def indexLoop (w0 w1 w2 : Nat) : List (Nat × Nat) → Bytes → Nat → Step (List (Located Ent))
  | [], _, c => (.ok [], c)
  | (st, cnt) :: t, s, c =>
    match rowsLoop w0 w1 w2 cnt st s c with
    | (.ok es, c') =>
      match indexLoop w0 w1 w2 t s c' with
      | (.ok es', c'') => (.ok (es ++ es'), c'')
      | (.err k, c'') => (.err k, c'')
      | (.panic p, c'') => (.panic p, c'')
    | (.err k, c') => (.err k, c')
    | (.panic p, c') => (.panic p, c')

/-- `XrefStreamP::parse_stream` -/
def parseStream (m : DictInfo) (s : Bytes) (i : Nat) : Step (List (Located Ent)) :=
  let index := match m.index with
    | some l => l
    | none => [(0, m.size)]
  indexLoop m.w0 m.w1 m.w2 index s i

def knownFilter (n : Bytes) : Bool :=
  n == "FlateDecode".toUTF8.toList || n == "ASCII85Decode".toUTF8.toList ||
  n == "ASCIIHexDecode".toUTF8.toList || n == "DCTDecode".toUTF8.toList

/-- the filter loop of `XrefStreamP::parse`: every transform reads the current view from its
    cursor and yields a fresh buffer (cursor 0).  The transforms themselves are external
    (C06/C07): parameter `xf`. -/
def applyFilters (xf : Filter → Bytes → Res Bytes) : List Filter → Bytes → Nat → Res (Bytes × Nat)
  | [], s, i => .ok (s, i)
  | f :: t, s, i =>
    if !knownFilter f.name then .err .guard
    else match xf f (s.drop i) with
      | .ok s' => applyFilters xf t s' 0
      | .err k => .err k
      | .panic p => .panic p

/-- `XrefStreamP::new(encrypted, stream).parse(buf)`: the entries and the cursor of the view the
    rows were read from (which is what the returned location's `end` is). -/
def xrefStreamP (encrypted : Bool) (d : Dict) (xf : Filter → Bytes → Res Bytes)
    (s : Bytes) (i : Nat) : Step (List (Located Ent)) :=
  match getDictInfo d with
  | .err k => (.err k, i)
  | .panic p => (.panic p, i)
  | .ok m =>
    if encrypted then (.err .guard, i)
    else
    match applyFilters xf m.filters s i with
    | .err k => (.err k, i)
    | .panic p => (.panic p, i)
    | .ok (s', i') => parseStream m s' i'

end Parsley.Xref
