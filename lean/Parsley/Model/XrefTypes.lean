/-
  Plain data shared by the model and the spec of C13 (no logic here):
  cross-reference entries as `XrefEntT`/`XrefEntStatus` hold them, and the part of a
  stream dictionary (`DictT` of `PDFObjT`) that `XrefStreamP::get_dict_info` and
  `StreamT::filters` look at.
-/
import Parsley.Base.Basic
namespace Parsley.Xref
open Parsley

/-- `XrefEntStatus` -/
inductive Status where
  | free (next : Nat)
  | inUse (ofs : Nat)
  | inStream (sobj : Nat) (idx : Nat)
deriving DecidableEq, Repr, Inhabited

/-- `XrefEntT { obj, gen, status }` -/
structure Ent where
  obj : Nat
  gen : Nat
  st : Status
deriving DecidableEq, Repr, Inhabited

/-- An element of an array value, or a scalar value.  Dictionaries nested inside
    (`/DecodeParms`) are opaque to the xref code: only their presence matters; `tag`
    names the one meant (handed to the external filter transform). -/
inductive Atom where
  | int (v : Int)
  | name (b : Bytes)
  | dict (tag : Nat)
  | null
  | other
deriving DecidableEq, Repr, Inhabited

/-- A dictionary value: a scalar or an array of scalars. -/
inductive Val where
  | atom (a : Atom)
  | arr (l : List Atom)
deriving DecidableEq, Repr, Inhabited

/-- `DictT` (a `BTreeMap`; keys are unique – the harness refuses duplicates). -/
abbrev Dict := List (Bytes × Val)

/-- `Filter { name, options }` -/
structure Filter where
  name : Bytes
  opts : Option Nat
deriving DecidableEq, Repr, Inhabited

end Parsley.Xref
