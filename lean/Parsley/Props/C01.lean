/-
  C01 — Arbitrary input files are processed without panic, abort or hang.

  END-TO-END: `Pipeline.run : Bytes → Outcome` (Model/Pipeline.lean) models `pdf_printer` from the bytes of the
  file to the exit status: loader, dump_root, type check against the shipped catalog specification, page DOM,
  per-page decoding and text extraction, with the glue of src/bin/pdf_printer.rs.  Every Rust partial operation
  of every stage model and every fuel of a loop modelled with fuel is an explicit `panic` outcome.

  WHAT IS LEFT OF THE DECODER HYPOTHESIS.  C03's loader theorem assumed `DecodersTotal` (no decoder panics; no
  decoder returns more than 2^63 bytes).  The first clause is a theorem now (Lemmas/LoaderDecoders.lean) and the
  second is needed in ONE place of the whole pipeline: the object-stream pass of the loader, where decoded data
  becomes a buffer whose address arithmetic must not overflow.  Hence:

      process_file_never_panics       everything after the loader: UNCONDITIONAL, for every loaded context
      pipeline_reduces_to_loader      `run bs` is completed/rejected whenever the loader model reaches no panic site
      pipeline_never_panics_sized     every file below 2^62 bytes, under `DecodedSizes` only (decoding an input of more
                                      than 2^63/2064 bytes yields at most 2^63 bytes)
      pipeline_never_panics_small     NO decoder hypothesis: every file with 2064^k · |file| ≤ 2^63 in which no dictionary
                                      the object parser can read (at any offset, any depth) names more than k filters;
                                      instances: k = 1 up to 4.4·10^15 bytes, k = 2 up to 2.1·10^12, k = 3 up to 10^9
                                      (`pipeline_never_panics_small_k1/_k3`)
      pipeline_never_panics_partial   (kept) the old statement under `DecodersTotal`, now a corollary of `_sized`

  A bound in |file| ALONE does not exist below 72 bytes-scale: a chain of n filters can multiply the length by
  2064^n, n is limited only by the number of filter names in a dictionary (12 bytes each), and the intermediate
  results are not limited by the file - so the chain length has to appear in the statement.

      extract_never_panics            the text extractor is total: full strength, no hypothesis
      dump_root_terminates            the breadth-first traversal finishes within |objU|+1 dequeues on every graph
      dump_root_depth_labels          dump_root AS WRITTEN carries `depth : u32` labels (`depth + 1`, debug-checked): the
                                      labelled loop equals the modelled one while the traversal's universe has at most
                                      2^32 objects (a label is smaller than the number of processed objects);
                                      `depth_overflow_reachable_scaled`: with the limit scaled to 3 a chain of four
                                      references reaches the site.  Fix C01-01 (saturating_add) removes the site.
      shipped_check_total             check_type on the shipped specification: no `unreachable!`, within workBound
      pipeline_fuel_bound_partial     the explicit budgets of the pipeline's loops + the closed forms that exist
      pipeline_encrypted_hybrid_rejected   the /Encrypt behaviour of the loader at pipeline level
      parseDataE_agrees               the loader variant used by the pipeline agrees with Loader.parseData
      pipeline_stages_never_panic_partial   (kept) the stage theorems gathered into one obligation

  NOT covered by any theorem (only by running the real binary): the machine stack actually consumed,
  zlib / jpeg-decoder / regex internals, allocation failure (incl. Vec capacity overflow), wall-clock time,
  stdout being closed.
-/
import Parsley.Props.C16
import Parsley.Props.C05
import Parsley.Props.C07
import Parsley.Props.C13
import Parsley.Props.C14
import Parsley.Props.C11
import Parsley.Props.C09
import Parsley.Props.C03
import Parsley.Lemmas.Pipeline
import Parsley.Lemmas.ContentTotal
import Parsley.Lemmas.PipelineSized
import Parsley.Props.C03Enc
namespace Parsley.C01
open Parsley

/-- every modelled stage, on every input, ends without reaching a panic site -/
theorem pipeline_stages_never_panic_partial :
    -- object parser (parse_pdf_obj): no panic, context depth restored, nesting budget = configured depth
    (∀ (c : Obj.Depth) (s : Bytes) (i : Nat), i ≤ s.length → c.cur ≤ c.max →
        (Obj.parseObj c s i).1.1.isPanic = false ∧ (Obj.parseObj c s i).2 = c) ∧
    -- indirect objects and stream framing (parse_pdf_indirect_obj)
    (∀ (c : Indirect.Ctx) (s : Bytes) (i : Nat), i ≤ s.length → c.cur ≤ c.max →
        (Indirect.parseIndirect c s i).1.1.isPanic = false) ∧
    -- classic cross-reference table (XrefSectP)
    (∀ (s : Bytes) (i : Nat) (p : String) (c : Nat), Xref.xrefSectP s i ≠ (.panic p, c)) ∧
    -- cross-reference stream dictionary and rows (XrefStreamP)
    (∀ (d : Xref.Dict) (p : String), Xref.getDictInfo d ≠ .panic p) ∧
    -- predictor reversal for every value of /Predictor /Colors /Columns /BitsPerComponent
    (∀ (predictor colors columns bpc : Option Int) (decoded : Bytes),
        (Pred.transformTail predictor colors columns bpc decoded).isPanic = false) ∧
    -- object streams (ObjStreamP), for any non-panicking stream decoder and all /N, /First, offsets
    (∀ (dec : ObjStm.Decoder) (vbase : Nat) (ctx : ObjStm.Ctx) (dict : ObjStm.Dict) (view : Bytes) (cur : Nat),
        (∀ f d p, dec f d ≠ .panic p) → (∀ f d d', dec f d = .ok d' → d'.length ≤ 2 ^ 63) →
        vbase + view.length ≤ 2 ^ 63 → ctx.depth.cur ≤ ctx.depth.max → ObjStm.DefsSorted ctx.defs →
        (ObjStm.objStmParse dec vbase ctx dict view cur).1.isPanic = false) ∧
    -- page DOM construction (to_page_dom): terminates within |defs|+1 loop iterations, never panics
    (∀ (defs : PageDom.Defs) (cat : Obj.Obj) (fuel : Nat), defs.length + 1 ≤ fuel →
        PageDom.toPageDomFuel defs fuel cat = PageDom.toPageDom defs cat ∧ ∀ p, PageDom.toPageDom defs cat ≠ .panic p) ∧
    -- the whole document loader (parse_data: header scan, startxref, /Prev chain, xref tables and streams,
    -- object loading in two passes, object streams), composed from the stage models, for every file below
    -- 2^62 bytes and decoders that are total
    (∀ (data : Bytes), data.length < 2 ^ 62 → LoaderNoPanic.DecodersTotal → (Loader.parseData data).isPanic = false) ∧
    -- the type-check work loop terminates within the explicit work bound, for every graph and specification
    (∀ (g : TC.Graph) (ctx : TC.Ctx) (o : TC.Obj) (c : TC.Chk),
        (TC.checkTypeFuel TC.Fix.tree g ctx (TC.Term.workBound TC.Fix.tree g ctx o c) o c).1 ≠ .outOfFuel) :=
  ⟨fun c s i hi hc => ⟨C16.parse_never_panics c s i hi hc, C16.depth_restored c s i hi hc⟩,
   fun c s i hi hc => (C05.indirect_never_panics c s i hi hc).1,
   C13.table_never_panics,
   C13.dictinfo_never_panics,
   C07.predictor_never_panics,
   C14.objstm_never_panics,
   C11.dom_terminates,
   C03.load_never_panics_partial,
   fun g ctx o c => C09.machine_terminates TC.Fix.tree rfl g ctx o c⟩

/-! ## the end-to-end theorems -/

/-- the loader variant of the pipeline agrees with the loader model of C03/C04 on everything that one returns -/
theorem parseDataE_agrees (data : Bytes) :
    Pipeline.Out.map Pipeline.LoadedE.toLoaded (Pipeline.parseDataE data) = Loader.parseData data :=
  PipelineLemmas.parseDataE_eq data

/-- clause 1 of `DecodersTotal` is a theorem -/
theorem decNP : PipelineLemmas.DecNP := LoaderDecoders.applyFilter_no_panic

theorem parseDataE_no_panic_of (data : Bytes) (h : ∀ p, Loader.parseData data ≠ .panic p) (p : String) :
    Pipeline.parseDataE data ≠ .panic p := by
  intro h0
  have h1 := parseDataE_agrees data
  rw [h0] at h1
  exact h p h1.symm

theorem collect_no_panic :
    ∀ (cs : List (PageDom.Src × Obj.Obj)) (buf : Bytes) (p : String), Pipeline.collect cs buf ≠ .panic p := by
  intro cs
  induction cs with
  | nil => intro buf p; simp [Pipeline.collect]
  | cons c t ih =>
    intro buf p
    obtain ⟨src, o⟩ := c
    cases o <;> simp only [Pipeline.collect] <;> try (intro h; cases h)
    rename_i kvs sc
    split
    · exact ih _ _
    · simp
    · rename_i q hq; exact absurd hq (PipelineLemmas.decodeObjStream_np decNP _ _ _)

theorem pagesLoop_no_panic (d : Nat) :
    ∀ (pages : List (PageDom.ObjId × PageDom.PageKid)), (Pipeline.pagesLoop d pages).isPanic = false := by
  intro pages
  induction pages with
  | nil => rfl
  | cons pg t ih =>
    obtain ⟨id, kid⟩ := pg
    cases kid with
    | node n => simpa [Pipeline.pagesLoop] using ih
    | leaf p =>
      simp only [Pipeline.pagesLoop]
      split
      · rfl
      · split
        · rename_i q hq; exact absurd hq (collect_no_panic _ _ _)
        · rfl
        · exact ih
        · split
          · exact ih
          · rfl
          · rename_i q hq; exact absurd hq (ContentTotal.extract_never_panics _ _ _)

theorem afterCheck_no_panic (l : Pipeline.LoadedE) (rootObj : Obj.Obj)
    (tc : TC.Outcome) (h1 : ∀ s, tc ≠ .panic s) (h2 : tc ≠ .outOfFuel) :
    (Pipeline.afterCheck l rootObj tc).isPanic = false := by
  cases tc with
  | reject k => rfl
  | panic s => exact absurd rfl (h1 s)
  | outOfFuel => exact absurd rfl h2
  | accept =>
    simp only [Pipeline.afterCheck]
    split
    · rfl
    · rename_i q hq; exact absurd hq (C11.dom_never_panics _ _ _)
    · exact pagesLoop_no_panic _ _

theorem processFile_no_panic (l : Pipeline.LoadedE) : (Pipeline.processFile l).isPanic = false := by
  unfold Pipeline.processFile
  split
  · rfl
  · rename_i rootObj _
    rw [PipelineLemmas.dumpRoot_ok l.defs rootObj decNP l.enc]
    exact afterCheck_no_panic l rootObj _ (PipelineTC.typeCheck_np _ _) (PipelineTC.typeCheck_fuel _ _)

theorem outcome_cases (o : Pipeline.Outcome) (h : o.isPanic = false) : o = .completed ∨ o = .rejected := by
  cases o with
  | completed => exact Or.inl rfl
  | rejected => exact Or.inr rfl
  | panic s => cases h

/-- **the stages after the loader: UNCONDITIONAL.**  For every loaded context (any definitions map, cyclic or not, of
    any size) dump_root with decode_stream on every reachable stream, the type check against the shipped
    specification, the page DOM, per-page decoding and the text extractor end in `completed` or `rejected`. -/
theorem process_file_never_panics (l : Pipeline.LoadedE) :
    Pipeline.processFile l = .completed ∨ Pipeline.processFile l = .rejected :=
  outcome_cases _ (processFile_no_panic l)

/-- **the pipeline is as total as the loader**: whenever the loader model reaches no panic site on `bs`, the whole
    program ends in `completed` or `rejected` -/
theorem pipeline_reduces_to_loader (bs : Bytes) (h : ∀ p, Loader.parseData bs ≠ .panic p) :
    Pipeline.run bs = .completed ∨ Pipeline.run bs = .rejected := by
  apply outcome_cases
  unfold Pipeline.run
  split
  · rfl
  · rename_i q hq; exact absurd hq (parseDataE_no_panic_of bs h q)
  · exact processFile_no_panic _

/-- **C01, end to end, under the size hypothesis only.**  FULL STATEMENT WANTED: for every byte string, `Pipeline.run bs`
    is `completed` or `rejected`.  PROVED: exactly that for every file below 2^62 bytes under `DecodedSizes`: decoding
    an input of MORE than 2^63/2064 bytes (2^61 for ASCII85, 2^64 for ASCIIHex) yields at most 2^63 bytes - a statement
    about inputs that no such file contains directly, but that the list model cannot exclude for the intermediate
    results of a filter chain (`LoaderDecoders.size_clause_false`).  The decoders' totality (inflate fuel, ASCII85,
    ASCIIHex, predictor) is no longer assumed. -/
theorem pipeline_never_panics_sized (bs : Bytes) (hlen : bs.length < 2 ^ 62) (hs : LoaderDecoders.DecodedSizes) :
    Pipeline.run bs = .completed ∨ Pipeline.run bs = .rejected := by
  apply pipeline_reduces_to_loader
  intro p hp
  have := LoaderDecoders.load_never_panics bs hlen hs
  rw [hp] at this
  cases this

/-- **C01, end to end, WITHOUT any decoder hypothesis**, for files whose filter arrays are short.
    `k` = the largest number of filters any dictionary of the file names (`FilterArraysLE k`: every dictionary the
    object parser can read at any offset of the document, at any nesting depth; `bs.drop n` because the document view
    starts at the `%PDF-` magic).  The size bound `2064^k · |bs| ≤ 2^63` is what makes every decoded object stream a
    Rust buffer: 4.4·10^15 bytes for k = 1, 2.1·10^12 for k = 2, 1.04·10^9 for k = 3, 5·10^5 for k = 4. -/
theorem pipeline_never_panics_small (k : Nat) (bs : Bytes) (hB : 2064 ^ k * bs.length ≤ 2 ^ 63)
    (hfa : ∀ n, PipelineSized.FilterArraysLE k (bs.drop n)) :
    Pipeline.run bs = .completed ∨ Pipeline.run bs = .rejected := by
  apply pipeline_reduces_to_loader
  have hlen : bs.length ≤ 2 ^ 63 :=
    Nat.le_trans (Nat.le_mul_of_pos_left _ (Nat.pow_pos (by decide))) hB
  exact PipelineSized.parseData_no_panic_small k bs hlen hB hfa

/-- single filters only (`/Filter /FlateDecode`, or arrays of one name): every file up to 4 468 688 002 352 120 bytes -/
theorem pipeline_never_panics_small_k1 (bs : Bytes) (hB : bs.length ≤ 4468688002352120)
    (hfa : ∀ n, PipelineSized.FilterArraysLE 1 (bs.drop n)) :
    Pipeline.run bs = .completed ∨ Pipeline.run bs = .rejected :=
  pipeline_never_panics_small 1 bs (Nat.le_trans (Nat.mul_le_mul_left _ hB) (by decide)) hfa

/-- chains of at most three filters: every file up to 1 048 964 155 bytes (1 GB) -/
theorem pipeline_never_panics_small_k3 (bs : Bytes) (hB : bs.length ≤ 1048964155)
    (hfa : ∀ n, PipelineSized.FilterArraysLE 3 (bs.drop n)) :
    Pipeline.run bs = .completed ∨ Pipeline.run bs = .rejected :=
  pipeline_never_panics_small 3 bs (Nat.le_trans (Nat.mul_le_mul_left _ hB) (by decide)) hfa

/-- (kept) the statement of the first two rounds: under C03's `DecodersTotal`.  Now a corollary: only the size
    clause of the hypothesis is used. -/
theorem pipeline_never_panics_partial (bs : Bytes) (hlen : bs.length < 2 ^ 62) (hdec : LoaderNoPanic.DecodersTotal) :
    Pipeline.run bs = .completed ∨ Pipeline.run bs = .rejected :=
  pipeline_never_panics_sized bs hlen (LoaderDecoders.decodedSizes_of_clause hdec.2)

/-- the text extractor is total on every input (full strength: no hypothesis) -/
theorem extract_never_panics (d : Nat) (s : Bytes) (p : String) : Content.extract d s ≠ .panic p :=
  ContentTotal.extract_never_panics d s p

/-- dump_root never panics and always finishes within its budget, on every definition map and root -/
theorem dump_root_terminates (enc : Bool) (defs : ObjStm.Defs) (root : Obj.Obj) :
    Pipeline.dumpRoot enc defs root = .ok () :=
  PipelineLemmas.dumpRoot_ok defs root decNP enc

/-- **dump_root as written (before fix C01-01)**: the `depth : u32` labels.  `depth + 1` is evaluated only when an
    object is pushed, and a label is always smaller than the number of processed objects, so the debug-checked add
    cannot overflow while the traversal's universe (null, the root, the definitions and their sub-objects) has at
    most 2^32 distinct objects: then the loop as written IS the modelled loop (and ends `ok`). -/
theorem dump_root_depth_labels (enc : Bool) (defs : ObjStm.Defs) (root : Obj.Obj)
    (h : (TC.Term.objU (Pipeline.toGraph defs) (Pipeline.toTC root)).length ≤ 2 ^ 32) :
    Pipeline.dumpRootD enc defs root = Pipeline.dumpRoot enc defs root ∧ Pipeline.dumpRootD enc defs root = .ok () := by
  have := PipelineLemmas.dumpRootD_eq defs root h enc
  exact ⟨this, this.trans (dump_root_terminates enc defs root)⟩

/-- a reference chain `1 0 R -> 2 0 R -> 3 0 R -> 4 0 R -> null` -/
def chainDefs : ObjStm.Defs := [((1, 0), .ref 2 0), ((2, 0), .ref 3 0), ((3, 0), .ref 4 0), ((4, 0), .null)]

/-- the overflow site of the labelled loop IS reachable: with the limit scaled from 2^32 to 3, the chain above
    (labels 0,1,2, then `2 + 1`) ends in the overflow outcome; with the real limit the same document is fine.
    (Kernel evaluation of the model on an instance.  The real site needs a chain of 2^32 distinct objects, i.e. a
    file of tens of gigabytes and a processed set of hundreds: not reproducible in the correspondence run.) -/
theorem depth_overflow_reachable_scaled :
    (match Pipeline.bfsD 3 false chainDefs 10 [(.ref 1 0, 0)] [Pipeline.toTC (.ref 1 0)] with
      | .panic s => s == "dump_root: depth + 1 overflow" | _ => false) = true ∧
    (match Pipeline.dumpRootD false chainDefs (.ref 1 0) with | .ok _ => true | _ => false) = true := by
  constructor <;> decide +kernel

/-- the type-check machine on the shipped specification: neither `unreachable!` site, never out of its work bound -/
theorem shipped_check_total (g : TC.Graph) (o : TC.Obj) :
    (∀ s, Pipeline.typeCheck g o ≠ .panic s) ∧ Pipeline.typeCheck g o ≠ .outOfFuel :=
  ⟨PipelineTC.typeCheck_np g o, PipelineTC.typeCheck_fuel g o⟩

/-- **the /Encrypt behaviour at pipeline level.**  Whatever the loader rejects the program rejects (exit status 1);
    in particular the hybrid file whose own trailer declares /Encrypt (C03.encHybridTrailer: the /XRefStm stream is
    read after the flag went up and refused) and the file whose newest trailer declares it above a stream section.
    (The complete one-page document in this layout is corpus/C01/encrypted_hybrid.case, run through the real binary.) -/
theorem pipeline_encrypted_hybrid_rejected :
    (∀ bs, Loader.parseData bs = .reject → Pipeline.run bs = .rejected) ∧
    Pipeline.run C03.encHybridTrailer = .rejected ∧ Pipeline.run C03.encAboveStream = .rejected := by
  have key : ∀ bs, Loader.parseData bs = .reject → Pipeline.run bs = .rejected := by
    intro bs h
    have h1 := parseDataE_agrees bs
    rw [h] at h1
    unfold Pipeline.run
    cases hp : Pipeline.parseDataE bs with
    | reject => rfl
    | panic q => rw [hp] at h1; cases h1
    | ok l => rw [hp] at h1; cases h1
  have rej : ∀ o : Loader.Out Loader.Loaded, C03.isRejected o = true → o = .reject := by
    intro o h; cases o <;> first | rfl | cases h
  exact ⟨key, key _ (rej _ C03.refused_hybrid_declared), key _ (rej _ C03.refused_declared_above_stream)⟩

/-- **explicit budgets** of the loops of the pipeline.
    FULL STATEMENT WANTED: one closed-form step bound in |bs|.
    PROVED, closed forms in |bs| where they exist:
      (1) the /Prev loop of the loader: its budget |s|+1 is never exhausted (and C04.chain_length_bounded: at most |s|
          sections);
      (5) every stream the loader's file-level passes define has a raw content of at most |s| bytes, one
          `decode_stream` yields at most 2064^(number of filters) times that, and a page with m content streams of
          at most k filters each gets a content buffer of at most m·(1 + 2064^k·|s|) bytes - the text extractor's two
          budgets are |buffer|+1 and 2|buffer|+2 (clause 4: never exhausted);
    and budgets in terms of the LOADED document where no closed form in |bs| exists:
      (2) dump_root: |objU|+1 dequeues; (3) check_type: workBound iterations, any larger fuel gives the same run;
          to_page_dom: |defs|+1.
    EXACT DEPENDENCY of the rest: |defs|, |objU|, workBound and the number m of content streams of a page depend on
    the NUMBER AND SIZE OF THE OBJECTS DEFINED, which |bs| bounds only for objects parsed from the file itself; the
    members of an object stream are parsed from decoded data of up to 2064^k·|bs| bytes, and the entry list of a
    cross-reference stream from decoded rows likewise.  No lemma "a parsed object has at most as many nodes as bytes
    consumed" is proved, so even the file-level part of |objU| is not bounded here. -/
theorem pipeline_fuel_bound_partial :
    -- (1) the loader's /Prev loop: budget |s|+1, for every start offset and context
    (∀ (st : Loader.St) (s : Bytes) (start : Nat) (p : String), C05.CtxWF st.ctx →
        (Loader.xrefLoop (s.length + 1) st s start [] [] [] none).1 ≠ .panic p) ∧
    -- (2) dump_root: at most |objU| objects are dequeued, for every graph (cyclic ones included)
    (∀ (enc : Bool) (defs : ObjStm.Defs) (root : Obj.Obj) (f : Nat),
        Pipeline.bfsFuel defs root ≤ f → Pipeline.bfs enc defs f [root] [Pipeline.toTC root] = .ok ()) ∧
    -- (3) check_type on the shipped specification: within workBound iterations; any larger fuel gives the same run
    (∀ (g : TC.Graph) (o : TC.Obj) (m : Nat),
        TC.Term.workBound TC.Fix.tree g Pipeline.shippedCtx o Pipeline.shippedCat ≤ m →
        TC.checkTypeFuel TC.Fix.tree g Pipeline.shippedCtx m o Pipeline.shippedCat =
          TC.checkTypeFuel TC.Fix.tree g Pipeline.shippedCtx
            (TC.Term.workBound TC.Fix.tree g Pipeline.shippedCtx o Pipeline.shippedCat) o Pipeline.shippedCat) ∧
    --     to_page_dom: within |defs|+1 iterations
    (∀ (defs : PageDom.Defs) (cat : Obj.Obj) (fuel : Nat), defs.length + 1 ≤ fuel →
        PageDom.toPageDomFuel defs fuel cat = PageDom.toPageDom defs cat) ∧
    -- (4) text extraction: the budgets |content|+1 (loop) and 2|content|+2 (object parser) are never exhausted
    (∀ (d : Nat) (s : Bytes) (p : String), Content.extract d s ≠ .panic p) ∧
    -- (5) closed forms for decoding: stream contents, one decode_stream, one page's content buffer
    (∀ (s : Bytes) (st : Loader.St) (start : Nat) (infos : List Loader.ObjInfo) (os : List Indirect.ObjId)
        (sp : List (Nat × Nat × Nat)),
        PipelineSized.DefsContent s.length st.ctx.defs →
        PipelineSized.DefsContent s.length (Loader.getXrefInfo st s start).2.ctx.defs ∧
        PipelineSized.DefsContent s.length (Loader.firstPass infos st.ctx s os sp).2.defs ∧
        PipelineSized.DefsContent s.length (Loader.secondPass sp st.ctx s).2.defs) ∧
    (∀ (kvs : List (Bytes × Obj.Obj)) (sc : Prim.StreamContent) (out : Bytes) (d : Filters.Dict),
        Pipeline.decodeObjStream kvs sc = .ok (out, d) →
        out.length ≤ 2064 ^ PipelineSized.nFilters kvs * sc.content.length) ∧
    (∀ (k n : Nat) (cs : List (PageDom.Src × Obj.Obj)) (out : Bytes),
        (∀ c ∈ cs, ∀ kvs sc, c.2 = .stream kvs sc → PipelineSized.nFilters kvs ≤ k ∧ sc.content.length ≤ n) →
        Pipeline.collect cs [] = .ok (some out) → out.length ≤ cs.length * (1 + 2064 ^ k * n)) := by
  refine ⟨?_, ?_, ?_, ?_, extract_never_panics, ?_, PipelineSized.decodeObjStream_len, ?_⟩
  · intro st s start p hwf h
    have := PipelineSized.getXrefInfo_ok' st s start hwf
    unfold Loader.getXrefInfo at this
    revert this h
    generalize Loader.xrefLoop (s.length + 1) st s start [] [] [] none = r
    obtain ⟨o, st'⟩ := r
    intro h this
    simp only at h
    subst h
    exact this
  · intro enc defs root f hf
    apply PipelineLemmas.bfs_ok defs root decNP enc
    · refine ⟨?_, ?_, by simp⟩
      · intro o ho
        simp only [List.mem_singleton] at ho
        subst ho
        simp [TC.Term.objU, TC.Term.objSubs_self]
      · intro x hx
        simp only [List.mem_singleton] at hx
        subst hx
        simp [TC.Term.objU, TC.Term.objSubs_self]
    · unfold Pipeline.bfsFuel at hf
      have h1 : 1 ≤ (TC.Term.objU (Pipeline.toGraph defs) (Pipeline.toTC root)).length := by simp [TC.Term.objU]
      show [root].length + ((TC.Term.objU (Pipeline.toGraph defs) (Pipeline.toTC root)).length - [Pipeline.toTC root].length) < f
      simp only [List.length_cons, List.length_nil]
      omega
  · intro g o m hm
    exact (C09.machine_work_bound TC.Fix.tree rfl g Pipeline.shippedCtx o Pipeline.shippedCat).2 m hm
  · intro defs cat fuel h
    exact (C11.dom_terminates defs cat fuel h).1
  · intro s st start infos os sp h
    have hp := PipelineSized.preserved_content s
    exact ⟨LoaderDefsInv.getXrefInfo_inv s _ hp st start h, LoaderDefsInv.firstPass_inv s _ hp infos st.ctx os sp h,
      LoaderDefsInv.secondPass_inv s _ hp sp st.ctx h⟩
  · intro k n cs out hcs h
    have := PipelineSized.collect_len k n cs [] out hcs h
    simpa using this

/-! ## non-vacuity: concrete runs of the stages on one complete document, evaluated by the KERNEL
    (tests of the definitions on an instance, not theorems about all files).  The whole `Pipeline.run` on this
    document and on ~3000 others is executed, compiled, by the correspondence run and must equal the exit
    status of the real binary (corpus/C01/tiny_complete.case). -/

/-- a complete one-page document: catalog, page tree, page, content stream `BT (Hi) Tj ET q Q`, standard font -/
def tinyDoc : Bytes := [
  37, 80, 68, 70, 45, 49, 46, 52, 10, 49, 32, 48, 32, 111, 98, 106, 10, 60, 60, 32, 47, 84, 121, 112, 101, 32,
  47, 67, 97, 116, 97, 108, 111, 103, 32, 47, 80, 97, 103, 101, 115, 32, 50, 32, 48, 32, 82, 32, 62, 62, 10,
  101, 110, 100, 111, 98, 106, 10, 50, 32, 48, 32, 111, 98, 106, 10, 60, 60, 32, 47, 84, 121, 112, 101, 32, 47,
  80, 97, 103, 101, 115, 32, 47, 75, 105, 100, 115, 32, 91, 51, 32, 48, 32, 82, 93, 32, 47, 67, 111, 117, 110,
  116, 32, 49, 32, 62, 62, 10, 101, 110, 100, 111, 98, 106, 10, 51, 32, 48, 32, 111, 98, 106, 10, 60, 60, 32,
  47, 84, 121, 112, 101, 32, 47, 80, 97, 103, 101, 32, 47, 80, 97, 114, 101, 110, 116, 32, 50, 32, 48, 32, 82,
  32, 47, 77, 101, 100, 105, 97, 66, 111, 120, 32, 91, 48, 32, 48, 32, 57, 32, 57, 93, 32, 47, 67, 111, 110,
  116, 101, 110, 116, 115, 32, 52, 32, 48, 32, 82, 32, 47, 82, 101, 115, 111, 117, 114, 99, 101, 115, 32, 60,
  60, 32, 47, 70, 111, 110, 116, 32, 60, 60, 32, 47, 70, 49, 32, 53, 32, 48, 32, 82, 32, 62, 62, 32, 62, 62, 32,
  62, 62, 10, 101, 110, 100, 111, 98, 106, 10, 52, 32, 48, 32, 111, 98, 106, 10, 60, 60, 32, 47, 76, 101, 110,
  103, 116, 104, 32, 49, 55, 32, 62, 62, 10, 115, 116, 114, 101, 97, 109, 10, 66, 84, 32, 40, 72, 105, 41, 32,
  84, 106, 32, 69, 84, 32, 113, 32, 81, 10, 101, 110, 100, 115, 116, 114, 101, 97, 109, 10, 101, 110, 100, 111,
  98, 106, 10, 53, 32, 48, 32, 111, 98, 106, 10, 60, 60, 32, 47, 84, 121, 112, 101, 32, 47, 70, 111, 110, 116,
  32, 47, 83, 117, 98, 116, 121, 112, 101, 32, 47, 84, 121, 112, 101, 49, 32, 47, 66, 97, 115, 101, 70, 111,
  110, 116, 32, 47, 72, 101, 108, 118, 101, 116, 105, 99, 97, 32, 62, 62, 10, 101, 110, 100, 111, 98, 106, 10,
  120, 114, 101, 102, 10, 48, 32, 54, 10, 48, 48, 48, 48, 48, 48, 48, 48, 48, 48, 32, 54, 53, 53, 51, 53, 32,
  102, 32, 10, 48, 48, 48, 48, 48, 48, 48, 48, 48, 57, 32, 48, 48, 48, 48, 48, 32, 110, 32, 10, 48, 48, 48, 48,
  48, 48, 48, 48, 53, 56, 32, 48, 48, 48, 48, 48, 32, 110, 32, 10, 48, 48, 48, 48, 48, 48, 48, 49, 49, 53, 32,
  48, 48, 48, 48, 48, 32, 110, 32, 10, 48, 48, 48, 48, 48, 48, 48, 50, 51, 55, 32, 48, 48, 48, 48, 48, 32, 110,
  32, 10, 48, 48, 48, 48, 48, 48, 48, 51, 48, 52, 32, 48, 48, 48, 48, 48, 32, 110, 32, 10, 116, 114, 97, 105,
  108, 101, 114, 10, 60, 60, 32, 47, 83, 105, 122, 101, 32, 54, 32, 47, 82, 111, 111, 116, 32, 49, 32, 48, 32,
  82, 32, 62, 62, 10, 115, 116, 97, 114, 116, 120, 114, 101, 102, 10, 51, 55, 52, 10, 37, 37, 69, 79, 70, 10]

example : tinyDoc.length < 2 ^ 62 := by decide +kernel

/-- what the loader leaves behind for `tinyDoc` -/
def tinyLoaded : Pipeline.LoadedE :=
  match Pipeline.parseDataE tinyDoc with
  | .ok l => l
  | _ => ⟨[], (0, 0), false, 0, 0⟩

def tinyRoot : Obj.Obj := (ObjStm.defsGet tinyLoaded.root tinyLoaded.defs).getD .null

-- the loader accepts it: root 1 0, five definitions, not encrypted, nesting depth back at 0 of 50
example : (match Pipeline.parseDataE tinyDoc with
    | .ok l => l.root == (1, 0) && l.defs.length == 5 && !l.enc && l.cur == 0 && l.max == 50
    | _ => false) = true := by decide +kernel
-- dump_root finishes within its budget
example : (match Pipeline.dumpRoot tinyLoaded.enc tinyLoaded.defs tinyRoot with | .ok _ => true | _ => false) = true := by
  decide +kernel
-- the shipped specification accepts its catalog (so the non-panic theorem is not about a machine that always rejects)
set_option maxRecDepth 100000 in
example : Pipeline.typeCheck (Pipeline.toGraph tinyLoaded.defs) (Pipeline.toTC tinyRoot) = .accept := by decide +kernel
-- the page DOM has its one page
example : (match PageDom.toPageDom tinyLoaded.defs tinyRoot with | .ok (_, dom) => dom.pages.length == 1 | _ => false) = true := by
  decide +kernel
-- the invariant `pipeline_never_panics_small` carries through the loader, on this document: every stream object
-- defined names at most one filter (here: none), and the size bound for k = 1 holds with a wide margin
example : (tinyLoaded.defs.all fun kv => match kv.2 with
    | .stream kvs _ => PipelineSized.chainLEb 1 kvs | _ => true) = true ∧ 2064 ^ 1 * tinyDoc.length ≤ 2 ^ 63 := by
  constructor <;> decide +kernel
-- a dictionary naming three filters satisfies the bound for k = 3 and not for k = 2
example : PipelineSized.chainLEb 3 [([70, 105, 108, 116, 101, 114], .arr [.name ObjStm.nAHex, .name ObjStm.nA85, .name ObjStm.nFlate])] = true ∧
    PipelineSized.chainLEb 2 [([70, 105, 108, 116, 101, 114], .arr [.name ObjStm.nAHex, .name ObjStm.nA85, .name ObjStm.nFlate])] = false := by
  constructor <;> decide +kernel
-- the traversal budget on a cyclic graph: `1 0 obj [1 0 R]`
example : (match Pipeline.dumpRoot false [((1, 0), .arr [.ref 1 0])] (.arr [.ref 1 0]) with | .ok _ => true | _ => false) = true := by
  decide +kernel

end Parsley.C01
