/-
  C01 — Arbitrary input files are processed without panic, abort or hang.

  END-TO-END: `Pipeline.run : Bytes → Outcome` (Model/Pipeline.lean) models `pdf_printer` from the bytes of the
  file to the exit status: loader, dump_root, type check against the shipped catalog specification, page DOM,
  per-page decoding and text extraction, with the glue of src/bin/pdf_printer.rs.  Every Rust partial operation
  of every stage model and every fuel of a loop modelled with fuel is an explicit `panic` outcome, so

      pipeline_never_panics_partial   for EVERY byte string below 2^62 bytes, `run bs` is `completed` or
                                      `rejected` - never a panic site, never an exhausted fuel

  is a real obligation.  It is assembled from the stage theorems: C03 loader (with C16, C05, C13, C14, C07 inside),
  dump_root's traversal (proved here: Lemmas/Pipeline.lean), C09 work bound + the two `unreachable!` sites of the
  machine excluded for the regenerated shipped specification (Lemmas/Pipeline.lean), C11 page DOM, and the text
  extractor's totality for all inputs (proved here: Lemmas/ContentTotal.lean).
  `_partial`: ONE hypothesis is inherited from C03 and not discharged - `DecodersTotal` (the executable zlib
  inflate model never ends in its own fuel outcome and no decoder returns more than 2^63 bytes).

      process_file_never_panics       everything after the loader, for EVERY loaded context (no size bound)
      extract_never_panics            the text extractor is total: full strength, no hypothesis
      dump_root_terminates            the breadth-first traversal finishes within |objU|+1 dequeues on every graph
      shipped_check_total             check_type on the shipped specification: no `unreachable!`, within workBound
      pipeline_fuel_bound_partial     the explicit budgets of the pipeline's loops, each a function of the loaded
                                      document; more fuel never changes a result
      parseDataE_agrees               the loader variant used by the pipeline (it also returns the `encrypted`
                                      flag and the nesting depth) agrees with Loader.parseData (C03/C04's model)
      pipeline_stages_never_panic_partial   (kept) the stage theorems gathered into one obligation, so that a
                                      stage model losing its no-panic theorem breaks C01 as well

  NOT covered by any theorem (only by running the real binary): the machine stack actually consumed,
  zlib / jpeg-decoder / regex internals, allocation failure, wall-clock time, stdout being closed.
-/
import Parsley.Props.C16
import Parsley.Props.C05
import Parsley.Props.C07
import Parsley.Props.C13
import Parsley.Props.C14
import Parsley.Props.C11
import Parsley.Props.C09
import Parsley.Props.C03
import Parsley.Lemmas.Pipeline
import Parsley.Lemmas.ContentTotal
namespace Parsley.C01
open Parsley

/-- every modelled stage, on every input, ends without reaching a panic site -/
theorem pipeline_stages_never_panic_partial :
    -- object parser (parse_pdf_obj): no panic, context depth restored, nesting budget = configured depth
    (∀ (c : Obj.Depth) (s : Bytes) (i : Nat), i ≤ s.length → c.cur ≤ c.max →
        (Obj.parseObj c s i).1.1.isPanic = false ∧ (Obj.parseObj c s i).2 = c) ∧
    -- indirect objects and stream framing (parse_pdf_indirect_obj)
    (∀ (c : Indirect.Ctx) (s : Bytes) (i : Nat), i ≤ s.length → c.cur ≤ c.max →
        (Indirect.parseIndirect c s i).1.1.isPanic = false) ∧
    -- classic cross-reference table (XrefSectP)
    (∀ (s : Bytes) (i : Nat) (p : String) (c : Nat), Xref.xrefSectP s i ≠ (.panic p, c)) ∧
    -- cross-reference stream dictionary and rows (XrefStreamP)
    (∀ (d : Xref.Dict) (p : String), Xref.getDictInfo d ≠ .panic p) ∧
    -- predictor reversal for every value of /Predictor /Colors /Columns /BitsPerComponent
    (∀ (predictor colors columns bpc : Option Int) (decoded : Bytes),
        (Pred.transformTail predictor colors columns bpc decoded).isPanic = false) ∧
    -- object streams (ObjStreamP), for any non-panicking stream decoder and all /N, /First, offsets
    (∀ (dec : ObjStm.Decoder) (vbase : Nat) (ctx : ObjStm.Ctx) (dict : ObjStm.Dict) (view : Bytes) (cur : Nat),
        (∀ f d p, dec f d ≠ .panic p) → (∀ f d d', dec f d = .ok d' → d'.length ≤ 2 ^ 63) →
        vbase + view.length ≤ 2 ^ 63 → ctx.depth.cur ≤ ctx.depth.max → ObjStm.DefsSorted ctx.defs →
        (ObjStm.objStmParse dec vbase ctx dict view cur).1.isPanic = false) ∧
    -- page DOM construction (to_page_dom): terminates within |defs|+1 loop iterations, never panics
    (∀ (defs : PageDom.Defs) (cat : Obj.Obj) (fuel : Nat), defs.length + 1 ≤ fuel →
        PageDom.toPageDomFuel defs fuel cat = PageDom.toPageDom defs cat ∧ ∀ p, PageDom.toPageDom defs cat ≠ .panic p) ∧
    -- the whole document loader (parse_data: header scan, startxref, /Prev chain, xref tables and streams,
    -- object loading in two passes, object streams), composed from the stage models, for every file below
    -- 2^62 bytes and decoders that are total
    (∀ (data : Bytes), data.length < 2 ^ 62 → LoaderNoPanic.DecodersTotal → (Loader.parseData data).isPanic = false) ∧
    -- the type-check work loop terminates within the explicit work bound, for every graph and specification
    (∀ (g : TC.Graph) (ctx : TC.Ctx) (o : TC.Obj) (c : TC.Chk),
        (TC.checkTypeFuel TC.Fix.tree g ctx (TC.Term.workBound TC.Fix.tree g ctx o c) o c).1 ≠ .outOfFuel) :=
  ⟨fun c s i hi hc => ⟨C16.parse_never_panics c s i hi hc, C16.depth_restored c s i hi hc⟩,
   fun c s i hi hc => (C05.indirect_never_panics c s i hi hc).1,
   C13.table_never_panics,
   C13.dictinfo_never_panics,
   C07.predictor_never_panics,
   C14.objstm_never_panics,
   C11.dom_terminates,
   C03.load_never_panics_partial,
   fun g ctx o c => C09.machine_terminates TC.Fix.tree rfl g ctx o c⟩

/-! ## the end-to-end theorem -/

/-- the loader variant of the pipeline agrees with the loader model of C03/C04 on everything that one returns -/
theorem parseDataE_agrees (data : Bytes) :
    Pipeline.Out.map Pipeline.LoadedE.toLoaded (Pipeline.parseDataE data) = Loader.parseData data :=
  PipelineLemmas.parseDataE_eq data

theorem parseDataE_no_panic (data : Bytes) (hlen : data.length < 2 ^ 62) (hdec : LoaderNoPanic.DecodersTotal)
    (p : String) : Pipeline.parseDataE data ≠ .panic p := by
  intro h
  have h1 := parseDataE_agrees data
  rw [h] at h1
  have h2 := C03.load_never_panics_partial data hlen hdec
  rw [← h1] at h2
  simp [Pipeline.Out.map, Loader.Out.isPanic] at h2

theorem collect_no_panic (hdec : LoaderNoPanic.DecodersTotal) :
    ∀ (cs : List (PageDom.Src × Obj.Obj)) (buf : Bytes) (p : String), Pipeline.collect cs buf ≠ .panic p := by
  intro cs
  induction cs with
  | nil => intro buf p; simp [Pipeline.collect]
  | cons c t ih =>
    intro buf p
    obtain ⟨src, o⟩ := c
    cases o <;> simp only [Pipeline.collect] <;> try (intro h; cases h)
    rename_i kvs sc
    split
    · exact ih _ _
    · simp
    · rename_i q hq; exact absurd hq (PipelineLemmas.decodeObjStream_np hdec _ _ _)

theorem pagesLoop_no_panic (hdec : LoaderNoPanic.DecodersTotal) (d : Nat) :
    ∀ (pages : List (PageDom.ObjId × PageDom.PageKid)), (Pipeline.pagesLoop d pages).isPanic = false := by
  intro pages
  induction pages with
  | nil => rfl
  | cons pg t ih =>
    obtain ⟨id, kid⟩ := pg
    cases kid with
    | node n => simpa [Pipeline.pagesLoop] using ih
    | leaf p =>
      simp only [Pipeline.pagesLoop]
      split
      · rfl
      · split
        · rename_i q hq; exact absurd hq (collect_no_panic hdec _ _ _)
        · rfl
        · exact ih
        · split
          · exact ih
          · rfl
          · rename_i q hq; exact absurd hq (ContentTotal.extract_never_panics _ _ _)

theorem afterCheck_no_panic (hdec : LoaderNoPanic.DecodersTotal) (l : Pipeline.LoadedE) (rootObj : Obj.Obj)
    (tc : TC.Outcome) (h1 : ∀ s, tc ≠ .panic s) (h2 : tc ≠ .outOfFuel) :
    (Pipeline.afterCheck l rootObj tc).isPanic = false := by
  cases tc with
  | reject k => rfl
  | panic s => exact absurd rfl (h1 s)
  | outOfFuel => exact absurd rfl h2
  | accept =>
    simp only [Pipeline.afterCheck]
    split
    · rfl
    · rename_i q hq; exact absurd hq (C11.dom_never_panics _ _ _)
    · exact pagesLoop_no_panic hdec _ _

theorem processFile_no_panic (hdec : LoaderNoPanic.DecodersTotal) (l : Pipeline.LoadedE) :
    (Pipeline.processFile l).isPanic = false := by
  unfold Pipeline.processFile
  split
  · rfl
  · rename_i rootObj _
    rw [PipelineLemmas.dumpRoot_ok l.defs rootObj hdec l.enc]
    exact afterCheck_no_panic hdec l rootObj _ (PipelineTC.typeCheck_np _ _) (PipelineTC.typeCheck_fuel _ _)

/-- **C01, end to end.**  FULL STATEMENT WANTED: for every byte string, `Pipeline.run bs` is `completed` or
    `rejected`.  PROVED: exactly that for every file below 2^62 bytes, under the one hypothesis inherited from the
    loader theorem of C03: the stream decoders are total (`DecodersTotal`: the zlib inflate model does not run out
    of its own fuel and decoders return at most 2^63 bytes).  No other panic site or fuel of any stage is
    reachable: loader, dump_root traversal, type-check machine (work bound, `unreachable!` sites), page DOM,
    content decoding glue, text extractor (all three fuels). -/
theorem pipeline_never_panics_partial (bs : Bytes) (hlen : bs.length < 2 ^ 62) (hdec : LoaderNoPanic.DecodersTotal) :
    Pipeline.run bs = .completed ∨ Pipeline.run bs = .rejected := by
  have h : (Pipeline.run bs).isPanic = false := by
    unfold Pipeline.run
    split
    · rfl
    · rename_i q hq; exact absurd hq (parseDataE_no_panic bs hlen hdec q)
    · exact processFile_no_panic hdec _
  cases hr : Pipeline.run bs with
  | completed => exact Or.inl rfl
  | rejected => exact Or.inr rfl
  | panic s => rw [hr] at h; cases h

/-- the stages after the loader need no size bound -/
theorem process_file_never_panics (hdec : LoaderNoPanic.DecodersTotal) (l : Pipeline.LoadedE) :
    Pipeline.processFile l = .completed ∨ Pipeline.processFile l = .rejected := by
  have h := processFile_no_panic hdec l
  cases hr : Pipeline.processFile l with
  | completed => exact Or.inl rfl
  | rejected => exact Or.inr rfl
  | panic s => rw [hr] at h; cases h

/-- the text extractor is total on every input (full strength: no hypothesis) -/
theorem extract_never_panics (d : Nat) (s : Bytes) (p : String) : Content.extract d s ≠ .panic p :=
  ContentTotal.extract_never_panics d s p

/-- dump_root never panics and always finishes within its budget, on every definition map and root -/
theorem dump_root_terminates (hdec : LoaderNoPanic.DecodersTotal) (enc : Bool) (defs : ObjStm.Defs) (root : Obj.Obj) :
    Pipeline.dumpRoot enc defs root = .ok () :=
  PipelineLemmas.dumpRoot_ok defs root hdec enc

/-- the type-check machine on the shipped specification: neither `unreachable!` site, never out of its work bound -/
theorem shipped_check_total (g : TC.Graph) (o : TC.Obj) :
    (∀ s, Pipeline.typeCheck g o ≠ .panic s) ∧ Pipeline.typeCheck g o ≠ .outOfFuel :=
  ⟨PipelineTC.typeCheck_np g o, PipelineTC.typeCheck_fuel g o⟩

/-- **explicit budgets** of the loops of the pipeline, each in terms of the loaded document.
    FULL STATEMENT WANTED: one closed-form step bound in |bs|.  PROVED: the per-loop budgets below and that
    more fuel never changes a result; they are functions of the loaded definitions, not of |bs| alone, because an
    object stream may decode to more bytes than the file has (the loader's own loops are bounded in |bs|:
    C04.chain_length_bounded, and the two passes are structural in the entry list). -/
theorem pipeline_fuel_bound_partial :
    -- dump_root: at most |objU| objects are dequeued, for every graph (cyclic ones included)
    (∀ (_ : LoaderNoPanic.DecodersTotal) (enc : Bool) (defs : ObjStm.Defs) (root : Obj.Obj) (f : Nat),
        Pipeline.bfsFuel defs root ≤ f → Pipeline.bfs enc defs f [root] [Pipeline.toTC root] = .ok ()) ∧
    -- check_type on the shipped specification: within workBound iterations; any larger fuel gives the same run
    (∀ (g : TC.Graph) (o : TC.Obj) (m : Nat),
        TC.Term.workBound TC.Fix.tree g Pipeline.shippedCtx o Pipeline.shippedCat ≤ m →
        TC.checkTypeFuel TC.Fix.tree g Pipeline.shippedCtx m o Pipeline.shippedCat =
          TC.checkTypeFuel TC.Fix.tree g Pipeline.shippedCtx
            (TC.Term.workBound TC.Fix.tree g Pipeline.shippedCtx o Pipeline.shippedCat) o Pipeline.shippedCat) ∧
    -- to_page_dom: within |defs|+1 iterations
    (∀ (defs : PageDom.Defs) (cat : Obj.Obj) (fuel : Nat), defs.length + 1 ≤ fuel →
        PageDom.toPageDomFuel defs fuel cat = PageDom.toPageDom defs cat) ∧
    -- text extraction: the budgets |content|+1 (loop) and 2|content|+2 (object parser) are never exhausted
    (∀ (d : Nat) (s : Bytes) (p : String), Content.extract d s ≠ .panic p) := by
  refine ⟨?_, ?_, ?_, extract_never_panics⟩
  · intro hdec enc defs root f hf
    apply PipelineLemmas.bfs_ok defs root hdec enc
    · refine ⟨?_, ?_, by simp⟩
      · intro o ho
        simp only [List.mem_singleton] at ho
        subst ho
        simp [TC.Term.objU, TC.Term.objSubs_self]
      · intro x hx
        simp only [List.mem_singleton] at hx
        subst hx
        simp [TC.Term.objU, TC.Term.objSubs_self]
    · unfold Pipeline.bfsFuel at hf
      have h1 : 1 ≤ (TC.Term.objU (Pipeline.toGraph defs) (Pipeline.toTC root)).length := by simp [TC.Term.objU]
      show [root].length + ((TC.Term.objU (Pipeline.toGraph defs) (Pipeline.toTC root)).length - [Pipeline.toTC root].length) < f
      simp only [List.length_cons, List.length_nil]
      omega
  · intro g o m hm
    exact (C09.machine_work_bound TC.Fix.tree rfl g Pipeline.shippedCtx o Pipeline.shippedCat).2 m hm
  · intro defs cat fuel h
    exact (C11.dom_terminates defs cat fuel h).1

/-! ## non-vacuity: concrete runs of the stages on one complete document, evaluated by the KERNEL
    (tests of the definitions on an instance, not theorems about all files).  The whole `Pipeline.run` on this
    document and on ~3000 others is executed, compiled, by the correspondence run and must equal the exit
    status of the real binary (corpus/C01/tiny_complete.case). -/

/-- a complete one-page document: catalog, page tree, page, content stream `BT (Hi) Tj ET q Q`, standard font -/
def tinyDoc : Bytes := [
  37, 80, 68, 70, 45, 49, 46, 52, 10, 49, 32, 48, 32, 111, 98, 106, 10, 60, 60, 32, 47, 84, 121, 112, 101, 32,
  47, 67, 97, 116, 97, 108, 111, 103, 32, 47, 80, 97, 103, 101, 115, 32, 50, 32, 48, 32, 82, 32, 62, 62, 10,
  101, 110, 100, 111, 98, 106, 10, 50, 32, 48, 32, 111, 98, 106, 10, 60, 60, 32, 47, 84, 121, 112, 101, 32, 47,
  80, 97, 103, 101, 115, 32, 47, 75, 105, 100, 115, 32, 91, 51, 32, 48, 32, 82, 93, 32, 47, 67, 111, 117, 110,
  116, 32, 49, 32, 62, 62, 10, 101, 110, 100, 111, 98, 106, 10, 51, 32, 48, 32, 111, 98, 106, 10, 60, 60, 32,
  47, 84, 121, 112, 101, 32, 47, 80, 97, 103, 101, 32, 47, 80, 97, 114, 101, 110, 116, 32, 50, 32, 48, 32, 82,
  32, 47, 77, 101, 100, 105, 97, 66, 111, 120, 32, 91, 48, 32, 48, 32, 57, 32, 57, 93, 32, 47, 67, 111, 110,
  116, 101, 110, 116, 115, 32, 52, 32, 48, 32, 82, 32, 47, 82, 101, 115, 111, 117, 114, 99, 101, 115, 32, 60,
  60, 32, 47, 70, 111, 110, 116, 32, 60, 60, 32, 47, 70, 49, 32, 53, 32, 48, 32, 82, 32, 62, 62, 32, 62, 62, 32,
  62, 62, 10, 101, 110, 100, 111, 98, 106, 10, 52, 32, 48, 32, 111, 98, 106, 10, 60, 60, 32, 47, 76, 101, 110,
  103, 116, 104, 32, 49, 55, 32, 62, 62, 10, 115, 116, 114, 101, 97, 109, 10, 66, 84, 32, 40, 72, 105, 41, 32,
  84, 106, 32, 69, 84, 32, 113, 32, 81, 10, 101, 110, 100, 115, 116, 114, 101, 97, 109, 10, 101, 110, 100, 111,
  98, 106, 10, 53, 32, 48, 32, 111, 98, 106, 10, 60, 60, 32, 47, 84, 121, 112, 101, 32, 47, 70, 111, 110, 116,
  32, 47, 83, 117, 98, 116, 121, 112, 101, 32, 47, 84, 121, 112, 101, 49, 32, 47, 66, 97, 115, 101, 70, 111,
  110, 116, 32, 47, 72, 101, 108, 118, 101, 116, 105, 99, 97, 32, 62, 62, 10, 101, 110, 100, 111, 98, 106, 10,
  120, 114, 101, 102, 10, 48, 32, 54, 10, 48, 48, 48, 48, 48, 48, 48, 48, 48, 48, 32, 54, 53, 53, 51, 53, 32,
  102, 32, 10, 48, 48, 48, 48, 48, 48, 48, 48, 48, 57, 32, 48, 48, 48, 48, 48, 32, 110, 32, 10, 48, 48, 48, 48,
  48, 48, 48, 48, 53, 56, 32, 48, 48, 48, 48, 48, 32, 110, 32, 10, 48, 48, 48, 48, 48, 48, 48, 49, 49, 53, 32,
  48, 48, 48, 48, 48, 32, 110, 32, 10, 48, 48, 48, 48, 48, 48, 48, 50, 51, 55, 32, 48, 48, 48, 48, 48, 32, 110,
  32, 10, 48, 48, 48, 48, 48, 48, 48, 51, 48, 52, 32, 48, 48, 48, 48, 48, 32, 110, 32, 10, 116, 114, 97, 105,
  108, 101, 114, 10, 60, 60, 32, 47, 83, 105, 122, 101, 32, 54, 32, 47, 82, 111, 111, 116, 32, 49, 32, 48, 32,
  82, 32, 62, 62, 10, 115, 116, 97, 114, 116, 120, 114, 101, 102, 10, 51, 55, 52, 10, 37, 37, 69, 79, 70, 10]

example : tinyDoc.length < 2 ^ 62 := by decide +kernel

/-- what the loader leaves behind for `tinyDoc` -/
def tinyLoaded : Pipeline.LoadedE :=
  match Pipeline.parseDataE tinyDoc with
  | .ok l => l
  | _ => ⟨[], (0, 0), false, 0, 0⟩

def tinyRoot : Obj.Obj := (ObjStm.defsGet tinyLoaded.root tinyLoaded.defs).getD .null

-- the loader accepts it: root 1 0, five definitions, not encrypted, nesting depth back at 0 of 50
example : (match Pipeline.parseDataE tinyDoc with
    | .ok l => l.root == (1, 0) && l.defs.length == 5 && !l.enc && l.cur == 0 && l.max == 50
    | _ => false) = true := by decide +kernel
-- dump_root finishes within its budget
example : (match Pipeline.dumpRoot tinyLoaded.enc tinyLoaded.defs tinyRoot with | .ok _ => true | _ => false) = true := by
  decide +kernel
-- the shipped specification accepts its catalog (so the non-panic theorem is not about a machine that always rejects)
set_option maxRecDepth 100000 in
example : Pipeline.typeCheck (Pipeline.toGraph tinyLoaded.defs) (Pipeline.toTC tinyRoot) = .accept := by decide +kernel
-- the page DOM has its one page
example : (match PageDom.toPageDom tinyLoaded.defs tinyRoot with | .ok (_, dom) => dom.pages.length == 1 | _ => false) = true := by
  decide +kernel
-- the traversal budget on a cyclic graph: `1 0 obj [1 0 R]`
example : (match Pipeline.dumpRoot false [((1, 0), .arr [.ref 1 0])] (.arr [.ref 1 0]) with | .ok _ => true | _ => false) = true := by
  decide +kernel

end Parsley.C01
