/-
  C01 — Arbitrary input files are processed without panic, abort or hang.

  There is no single end-to-end model of `pdf_printer`'s glue.  What is proved is the
  property's *logical core stage by stage*: for every input, every modelled stage of the
  pipeline ends in a value or an error — never in one of the model's explicit panic sites
  (Rust `unwrap`, `assert!`, slice/index, arithmetic overflow, `unreachable!`), and its loops
  run within an explicit fuel bound.  The stage theorems live in the Props files of the
  properties that own the stage models; this file gathers them into one obligation so that
  a stage model losing its no-panic theorem breaks C01 as well.

  `pipeline_stages_never_panic_partial` leaves out (named in CFG["partial"]): the composition
  glue in src/bin/pdf_printer.rs and pdf_traverse_xref.rs between the stages, the machine stack,
  zlib / jpeg-decoder / regex internals, allocation failure and wall-clock time.  Those are
  covered only by running the real binary on adversarial documents (the correspondence side).
-/
import Parsley.Props.C16
import Parsley.Props.C05
import Parsley.Props.C07
import Parsley.Props.C13
import Parsley.Props.C14
import Parsley.Props.C11
import Parsley.Props.C09
import Parsley.Props.C03
namespace Parsley.C01
open Parsley

/-- every modelled stage, on every input, ends without reaching a panic site -/
theorem pipeline_stages_never_panic_partial :
    -- object parser (parse_pdf_obj): no panic, context depth restored, nesting budget = configured depth
    (∀ (c : Obj.Depth) (s : Bytes) (i : Nat), i ≤ s.length → c.cur ≤ c.max →
        (Obj.parseObj c s i).1.1.isPanic = false ∧ (Obj.parseObj c s i).2 = c) ∧
    -- indirect objects and stream framing (parse_pdf_indirect_obj)
    (∀ (c : Indirect.Ctx) (s : Bytes) (i : Nat), i ≤ s.length → c.cur ≤ c.max →
        (Indirect.parseIndirect c s i).1.1.isPanic = false) ∧
    -- classic cross-reference table (XrefSectP)
    (∀ (s : Bytes) (i : Nat) (p : String) (c : Nat), Xref.xrefSectP s i ≠ (.panic p, c)) ∧
    -- cross-reference stream dictionary and rows (XrefStreamP)
    (∀ (d : Xref.Dict) (p : String), Xref.getDictInfo d ≠ .panic p) ∧
    -- predictor reversal for every value of /Predictor /Colors /Columns /BitsPerComponent
    (∀ (predictor colors columns bpc : Option Int) (decoded : Bytes),
        (Pred.transformTail predictor colors columns bpc decoded).isPanic = false) ∧
    -- object streams (ObjStreamP), for any non-panicking stream decoder and all /N, /First, offsets
    (∀ (dec : ObjStm.Decoder) (vbase : Nat) (ctx : ObjStm.Ctx) (dict : ObjStm.Dict) (view : Bytes) (cur : Nat),
        (∀ f d p, dec f d ≠ .panic p) → (∀ f d d', dec f d = .ok d' → d'.length ≤ 2 ^ 63) →
        vbase + view.length ≤ 2 ^ 63 → ctx.depth.cur ≤ ctx.depth.max → ObjStm.DefsSorted ctx.defs →
        (ObjStm.objStmParse dec vbase ctx dict view cur).1.isPanic = false) ∧
    -- page DOM construction (to_page_dom): terminates within |defs|+1 loop iterations, never panics
    (∀ (defs : PageDom.Defs) (cat : Obj.Obj) (fuel : Nat), defs.length + 1 ≤ fuel →
        PageDom.toPageDomFuel defs fuel cat = PageDom.toPageDom defs cat ∧ ∀ p, PageDom.toPageDom defs cat ≠ .panic p) ∧
    -- the whole document loader (parse_data: header scan, startxref, /Prev chain, xref tables and streams,
    -- object loading in two passes, object streams), composed from the stage models, for every file below
    -- 2^62 bytes and decoders that are total
    (∀ (data : Bytes), data.length < 2 ^ 62 → LoaderNoPanic.DecodersTotal → (Loader.parseData data).isPanic = false) ∧
    -- the type-check work loop terminates within the explicit work bound, for every graph and specification
    (∀ (g : TC.Graph) (ctx : TC.Ctx) (o : TC.Obj) (c : TC.Chk),
        (TC.checkTypeFuel TC.Fix.tree g ctx (TC.Term.workBound TC.Fix.tree g ctx o c) o c).1 ≠ .outOfFuel) :=
  ⟨fun c s i hi hc => ⟨C16.parse_never_panics c s i hi hc, C16.depth_restored c s i hi hc⟩,
   fun c s i hi hc => (C05.indirect_never_panics c s i hi hc).1,
   C13.table_never_panics,
   C13.dictinfo_never_panics,
   C07.predictor_never_panics,
   C14.objstm_never_panics,
   C11.dom_terminates,
   C03.load_never_panics_partial,
   fun g ctx o c => C09.machine_terminates TC.Fix.tree rfl g ctx o c⟩

end Parsley.C01
