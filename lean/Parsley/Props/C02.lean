/-
  C02 — Every spelling of a PDF object parses to exactly that object.
  Token-level round-trip theorems (all inputs, all encoder choices).
-/
import Parsley.Lemmas.Obj
import Parsley.Spec.Spelling
namespace Parsley.C02
open Parsley Parsley.Prim Parsley.Obj Parsley.Spelling

/-! ## names: the windowed decoder equals the two-line recursive `#hh` decoder -/

/-- the declarative `#hh` decoder: left to right, an escape is '#' followed by two hex digits -/
def nameDecSpec : Bytes → Option Bytes
  | a :: b :: c :: t =>
    if a == 35 && isHexDigit b && isHexDigit c then
      if 16 * hexVal b + hexVal c == 0 then none
      else (nameDecSpec t).map ((16 * hexVal b + hexVal c) :: ·)
    else (nameDecSpec (b :: c :: t)).map (a :: ·)
  | l => some l
termination_by l => l.length

/-- **`name_window_decoder_eq`**: the `windows(3)` loop of `NameP`/`OperatorP` computes exactly
    the declarative decoder, for every span. -/
theorem name_window_decoder_eq (l : Bytes) : nameDec l = nameDecSpec l := by
  fun_induction nameDec l
  case case8 l h =>
    unfold nameDecSpec
    split
    · rename_i a b c t; exact absurd rfl (h a b c t)
    · rfl
  all_goals (unfold nameDecSpec; simp_all +zetaDelta [nameDecSpec])
