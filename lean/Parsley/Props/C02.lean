/-
  C02 — Every spelling of a PDF object parses to exactly that object.
  Token-level round-trip theorems (all inputs, all encoder choices).
-/
import Parsley.Lemmas.Obj
import Parsley.Spec.Spelling
namespace Parsley.C02
open Parsley Parsley.Prim Parsley.Obj Parsley.Spelling

/-! ## names: the windowed decoder equals the two-line recursive `#hh` decoder -/

/-- the declarative `#hh` decoder: left to right, an escape is '#' followed by two hex digits -/
def nameDecSpec : Bytes → Option Bytes
  | a :: b :: c :: t =>
    if a == 35 && isHexDigit b && isHexDigit c then
      if 16 * hexVal b + hexVal c == 0 then none
      else (nameDecSpec t).map ((16 * hexVal b + hexVal c) :: ·)
    else (nameDecSpec (b :: c :: t)).map (a :: ·)
  | l => some l
termination_by l => l.length

/-- **`name_window_decoder_eq`**: the `windows(3)` loop of `NameP`/`OperatorP` computes exactly
    the declarative decoder, for every span. -/
theorem name_window_decoder_eq (l : Bytes) : nameDec l = nameDecSpec l := by
  fun_induction nameDec l
  case case8 l h =>
    unfold nameDecSpec
    split
    · rename_i a b c t; exact absurd rfl (h a b c t)
    · rfl
  all_goals (unfold nameDecSpec; simp_all +zetaDelta [nameDecSpec])

/-! ## names: every `#hh`/raw spelling of a byte string without null bytes decodes to it -/

theorem hexDigitOf_ok : ∀ n : Fin 16, ∀ up : Bool,
    isHexDigit (hexDigitOf n.val up) = true ∧ hexVal (hexDigitOf n.val up) = UInt8.ofNat n.val := by
  decide

theorem byte_split (b : UInt8) : 16 * UInt8.ofNat (b.toNat / 16) + UInt8.ofNat (b.toNat % 16) = b := by
  apply UInt8.toNat_inj.mp
  have := b.toNat_lt
  simp [UInt8.toNat_add, UInt8.toNat_mul, UInt8.toNat_ofNat]
  omega

theorem escape_decodes (b : UInt8) (u1 u2 : Bool) :
    isHexDigit (hexDigitOf (b.toNat / 16) u1) = true ∧ isHexDigit (hexDigitOf (b.toNat % 16) u2) = true ∧
    16 * hexVal (hexDigitOf (b.toNat / 16) u1) + hexVal (hexDigitOf (b.toNat % 16) u2) = b := by
  have hb := b.toNat_lt
  have h1 := hexDigitOf_ok ⟨b.toNat / 16, by omega⟩ u1
  have h2 := hexDigitOf_ok ⟨b.toNat % 16, by omega⟩ u2
  refine ⟨h1.1, h2.1, ?_⟩
  rw [h1.2, h2.2]
  exact byte_split b

theorem nameBody_cons (x : UInt8) (t : Bytes) (c : Ch) :
    ∃ raw u1 u2 c', (nameBody (x :: t) c).1 = encByte x raw u1 u2 ++ (nameBody t c').1 :=
  ⟨_, _, _, _, rfl⟩

theorem encByte_cases (x : UInt8) (raw u1 u2 : Bool) :
    (encByte x raw u1 u2 = [x] ∧ isRegularByte x = true ∧ x ≠ 35) ∨
    (encByte x raw u1 u2 = [35, hexDigitOf (x.toNat / 16) u1, hexDigitOf (x.toNat % 16) u2]) := by
  unfold encByte
  split
  · rename_i h
    simp only [Bool.and_eq_true, bne_iff_ne, ne_eq] at h
    exact Or.inl ⟨rfl, h.1.1, h.1.2⟩
  · exact Or.inr rfl

/-- a spelling of fewer than three bytes is all raw, hence equal to the name -/
theorem nameBody_short (b : Bytes) (c : Ch) (h : (nameBody b c).1.length < 3) : (nameBody b c).1 = b := by
  induction b generalizing c with
  | nil => rfl
  | cons x t ih =>
    obtain ⟨raw, u1, u2, c', hc⟩ := nameBody_cons x t c
    rw [hc] at h ⊢
    rcases encByte_cases x raw u1 u2 with ⟨he, -, -⟩ | he
    · rw [he] at h ⊢
      simp only [List.cons_append, List.nil_append, List.length_cons] at h
      rw [ih c' (by omega)]
      rfl
    · rw [he] at h; simp only [List.cons_append, List.length_cons] at h; omega

theorem nameBody_head_raw (x : UInt8) (t : Bytes) (c : Ch) :
    (∃ r, (nameBody (x :: t) c).1 = x :: r ∧ isRegularByte x = true ∧ x ≠ 35 ∧ ∃ c', r = (nameBody t c').1) ∨
    (∃ u1 u2 c', (nameBody (x :: t) c).1 =
        35 :: hexDigitOf (x.toNat / 16) u1 :: hexDigitOf (x.toNat % 16) u2 :: (nameBody t c').1) := by
  obtain ⟨raw, u1, u2, c', hc⟩ := nameBody_cons x t c
  rcases encByte_cases x raw u1 u2 with ⟨he, h1, h2⟩ | he
  · left; rw [hc, he]; exact ⟨_, rfl, h1, h2, c', rfl⟩
  · right; rw [hc, he]; exact ⟨u1, u2, c', rfl⟩

/-- **`name_spelling_decodes`**: for every byte string without a null byte and every choice of
    raw vs `#hh` per byte and of hex digit case, the decoder returns the byte string. -/
theorem name_spelling_decodes (b : Bytes) (c : Ch) (hb : okKey b = true) :
    nameDec (nameBody b c).1 = some b := by
  rw [name_window_decoder_eq]
  induction b generalizing c with
  | nil => simp [nameBody, nameDecSpec]
  | cons x t ih =>
    have hx : x ≠ 0 ∧ okKey t = true := by
      simp only [okKey, List.all_cons, Bool.and_eq_true, bne_iff_ne, ne_eq] at hb
      exact ⟨hb.1, by simpa [okKey] using hb.2⟩
    by_cases hlen : (nameBody (x :: t) c).1.length < 3
    · have := nameBody_short (x :: t) c hlen
      rw [this]
      rw [this] at hlen
      unfold nameDecSpec
      split
      · rename_i heq; rw [heq] at hlen; simp only [List.length_cons] at hlen; omega
      · rfl
    · rcases nameBody_head_raw x t c with ⟨r, hr, hreg, h35, c', hc'⟩ | ⟨u1, u2, c', hr⟩
      · rw [hr] at hlen ⊢
        match r, hc' with
        | [], _ => simp at hlen
        | [_], _ => simp at hlen
        | y :: z :: r', hc' =>
          unfold nameDecSpec
          have : ¬ ((x == 35 && isHexDigit y && isHexDigit z) = true) := by simp [h35]
          simp only [this, if_false]
          rw [hc', ih c' hx.2]
          rfl
      · rw [hr]
        unfold nameDecSpec
        have e := escape_decodes x u1 u2
        simp only [e.1, e.2.1, e.2.2, beq_self_eq_true, Bool.and_self, if_true]
        have : ¬ ((x == 0) = true) := by simp [hx.1]
        simp only [this, if_false]
        rw [ih c' hx.2]
        rfl

/-- the whole name token followed by any context that starts with a terminator (or is empty) -/
theorem name_roundtrip (b : Bytes) (c : Ch) (ctx : Bytes) (hb : okKey b = true)
    (hctx : ∀ y, ctx.head? = some y → isNameTerm y = true)
    (hbody : ∀ y ∈ (nameBody b c).1, isNameTerm y = false) :
    nameP (47 :: (nameBody b c).1 ++ ctx) 0 = (.ok ⟨b, 0, (nameBody b c).1.length + 1⟩, (nameBody b c).1.length + 1) := by
  unfold nameP
  have hspan : untilB isNameTerm (47 :: (nameBody b c).1 ++ ctx) (0 + 1) = ((nameBody b c).1, (nameBody b c).1.length + 1) := by
    unfold untilB allowed
    have hd : List.drop (0 + 1) (47 :: (nameBody b c).1 ++ ctx) = (nameBody b c).1 ++ ctx := rfl
    rw [hd]
    have : List.takeWhile (fun b => !isNameTerm b) ((nameBody b c).1 ++ ctx) = (nameBody b c).1 := by
      rw [List.takeWhile_append_of_pos]
      · cases ctx with
        | nil => simp
        | cons y t => simp [List.takeWhile_cons, hctx y rfl]
      · intro y hy; simp [hbody y hy]
    rw [this]; simp [Nat.add_comm]
  have hp : peek (47 :: (nameBody b c).1 ++ ctx) 0 = some 47 := rfl
  simp only [hp, bne_self_eq_false, Bool.false_eq_true, if_false]
  rw [hspan]
  simp only [name_spelling_decodes b c hb]

example : nameDec [65, 35, 52, 50, 35, 50, 102] = some [65, 66, 47] := by
  rw [name_window_decoder_eq]; simp [nameDecSpec, isHexDigit, isDigit, hexVal]
example : nameDec [35, 48, 48] = none := by
  rw [name_window_decoder_eq]; simp [nameDecSpec, isHexDigit, isDigit, hexVal]
