/-
  C02 — Every spelling of a PDF object parses to exactly that object.
  Token-level round-trip theorems (all inputs, all encoder choices).
-/
import Parsley.Lemmas.Obj
import Parsley.Lemmas.Shift
import Parsley.Spec.Spelling
namespace Parsley.C02
open Parsley Parsley.Prim Parsley.Obj Parsley.Spelling

/-! ## names: the windowed decoder equals the two-line recursive `#hh` decoder -/

/-- the declarative `#hh` decoder: left to right, an escape is '#' followed by two hex digits -/
def nameDecSpec : Bytes → Option Bytes
  | a :: b :: c :: t =>
    if a == 35 && isHexDigit b && isHexDigit c then
      if 16 * hexVal b + hexVal c == 0 then none
      else (nameDecSpec t).map ((16 * hexVal b + hexVal c) :: ·)
    else (nameDecSpec (b :: c :: t)).map (a :: ·)
  | l => some l
termination_by l => l.length

/-- **`name_window_decoder_eq`**: the `windows(3)` loop of `NameP`/`OperatorP` computes exactly
    the declarative decoder, for every span. -/
theorem name_window_decoder_eq (l : Bytes) : nameDec l = nameDecSpec l := by
  fun_induction nameDec l
  case case8 l h =>
    unfold nameDecSpec
    split
    · rename_i a b c t; exact absurd rfl (h a b c t)
    · rfl
  all_goals (unfold nameDecSpec; simp_all +zetaDelta [nameDecSpec])

/-! ## names: every `#hh`/raw spelling of a byte string without null bytes decodes to it -/

theorem hexDigitOf_ok : ∀ n : Fin 16, ∀ up : Bool,
    isHexDigit (hexDigitOf n.val up) = true ∧ hexVal (hexDigitOf n.val up) = UInt8.ofNat n.val := by
  decide

theorem byte_split (b : UInt8) : 16 * UInt8.ofNat (b.toNat / 16) + UInt8.ofNat (b.toNat % 16) = b := by
  apply UInt8.toNat_inj.mp
  have := b.toNat_lt
  simp [UInt8.toNat_add, UInt8.toNat_mul, UInt8.toNat_ofNat]
  omega

theorem escape_decodes (b : UInt8) (u1 u2 : Bool) :
    isHexDigit (hexDigitOf (b.toNat / 16) u1) = true ∧ isHexDigit (hexDigitOf (b.toNat % 16) u2) = true ∧
    16 * hexVal (hexDigitOf (b.toNat / 16) u1) + hexVal (hexDigitOf (b.toNat % 16) u2) = b := by
  have hb := b.toNat_lt
  have h1 := hexDigitOf_ok ⟨b.toNat / 16, by omega⟩ u1
  have h2 := hexDigitOf_ok ⟨b.toNat % 16, by omega⟩ u2
  refine ⟨h1.1, h2.1, ?_⟩
  rw [h1.2, h2.2]
  exact byte_split b

theorem nameBody_cons (x : UInt8) (t : Bytes) (c : Ch) :
    ∃ raw u1 u2 c', (nameBody (x :: t) c).1 = encByte x raw u1 u2 ++ (nameBody t c').1 :=
  ⟨_, _, _, _, rfl⟩

theorem encByte_cases (x : UInt8) (raw u1 u2 : Bool) :
    (encByte x raw u1 u2 = [x] ∧ isRegularByte x = true ∧ x ≠ 35) ∨
    (encByte x raw u1 u2 = [35, hexDigitOf (x.toNat / 16) u1, hexDigitOf (x.toNat % 16) u2]) := by
  unfold encByte
  split
  · rename_i h
    simp only [Bool.and_eq_true, bne_iff_ne, ne_eq] at h
    exact Or.inl ⟨rfl, h.1.1, h.1.2⟩
  · exact Or.inr rfl

/-- a spelling of fewer than three bytes is all raw, hence equal to the name -/
theorem nameBody_short (b : Bytes) (c : Ch) (h : (nameBody b c).1.length < 3) : (nameBody b c).1 = b := by
  induction b generalizing c with
  | nil => rfl
  | cons x t ih =>
    obtain ⟨raw, u1, u2, c', hc⟩ := nameBody_cons x t c
    rw [hc] at h ⊢
    rcases encByte_cases x raw u1 u2 with ⟨he, -, -⟩ | he
    · rw [he] at h ⊢
      simp only [List.cons_append, List.nil_append, List.length_cons] at h
      rw [ih c' (by omega)]
      rfl
    · rw [he] at h; simp only [List.cons_append, List.length_cons] at h; omega

theorem nameBody_head_raw (x : UInt8) (t : Bytes) (c : Ch) :
    (∃ r, (nameBody (x :: t) c).1 = x :: r ∧ isRegularByte x = true ∧ x ≠ 35 ∧ ∃ c', r = (nameBody t c').1) ∨
    (∃ u1 u2 c', (nameBody (x :: t) c).1 =
        35 :: hexDigitOf (x.toNat / 16) u1 :: hexDigitOf (x.toNat % 16) u2 :: (nameBody t c').1) := by
  obtain ⟨raw, u1, u2, c', hc⟩ := nameBody_cons x t c
  rcases encByte_cases x raw u1 u2 with ⟨he, h1, h2⟩ | he
  · left; rw [hc, he]; exact ⟨_, rfl, h1, h2, c', rfl⟩
  · right; rw [hc, he]; exact ⟨u1, u2, c', rfl⟩

/-- **`name_spelling_decodes`**: for every byte string without a null byte and every choice of
    raw vs `#hh` per byte and of hex digit case, the decoder returns the byte string. -/
theorem name_spelling_decodes (b : Bytes) (c : Ch) (hb : okKey b = true) :
    nameDec (nameBody b c).1 = some b := by
  rw [name_window_decoder_eq]
  induction b generalizing c with
  | nil => simp [nameBody, nameDecSpec]
  | cons x t ih =>
    have hx : x ≠ 0 ∧ okKey t = true := by
      simp only [okKey, List.all_cons, Bool.and_eq_true, bne_iff_ne, ne_eq] at hb
      exact ⟨hb.1, by simpa [okKey] using hb.2⟩
    by_cases hlen : (nameBody (x :: t) c).1.length < 3
    · have := nameBody_short (x :: t) c hlen
      rw [this]
      rw [this] at hlen
      unfold nameDecSpec
      split
      · rename_i heq; rw [heq] at hlen; simp only [List.length_cons] at hlen; omega
      · rfl
    · rcases nameBody_head_raw x t c with ⟨r, hr, hreg, h35, c', hc'⟩ | ⟨u1, u2, c', hr⟩
      · rw [hr] at hlen ⊢
        match r, hc' with
        | [], _ => simp at hlen
        | [_], _ => simp at hlen
        | y :: z :: r', hc' =>
          unfold nameDecSpec
          have : ¬ ((x == 35 && isHexDigit y && isHexDigit z) = true) := by simp [h35]
          simp only [this, if_false]
          rw [hc', ih c' hx.2]
          rfl
      · rw [hr]
        unfold nameDecSpec
        have e := escape_decodes x u1 u2
        simp only [e.1, e.2.1, e.2.2, beq_self_eq_true, Bool.and_self, if_true]
        have : ¬ ((x == 0) = true) := by simp [hx.1]
        simp only [this, if_false]
        rw [ih c' hx.2]
        rfl

/-- the whole name token followed by any context that starts with a terminator (or is empty) -/
theorem name_roundtrip (b : Bytes) (c : Ch) (ctx : Bytes) (hb : okKey b = true)
    (hctx : ∀ y, ctx.head? = some y → isNameTerm y = true)
    (hbody : ∀ y ∈ (nameBody b c).1, isNameTerm y = false) :
    nameP (47 :: (nameBody b c).1 ++ ctx) 0 = (.ok ⟨b, 0, (nameBody b c).1.length + 1⟩, (nameBody b c).1.length + 1) := by
  unfold nameP
  have hspan : untilB isNameTerm (47 :: (nameBody b c).1 ++ ctx) (0 + 1) = ((nameBody b c).1, (nameBody b c).1.length + 1) := by
    unfold untilB allowed
    have hd : List.drop (0 + 1) (47 :: (nameBody b c).1 ++ ctx) = (nameBody b c).1 ++ ctx := rfl
    rw [hd]
    have : List.takeWhile (fun b => !isNameTerm b) ((nameBody b c).1 ++ ctx) = (nameBody b c).1 := by
      rw [List.takeWhile_append_of_pos]
      · cases ctx with
        | nil => simp
        | cons y t => simp [List.takeWhile_cons, hctx y rfl]
      · intro y hy; simp [hbody y hy]
    rw [this]; simp [Nat.add_comm]
  have hp : peek (47 :: (nameBody b c).1 ++ ctx) 0 = some 47 := rfl
  simp only [hp, bne_self_eq_false, Bool.false_eq_true, if_false]
  rw [hspan]
  simp only [name_spelling_decodes b c hb]

example : nameDec [65, 35, 52, 50, 35, 50, 102] = some [65, 66, 47] := by
  rw [name_window_decoder_eq]; simp [nameDecSpec, isHexDigit, isDigit, hexVal]
example : nameDec [35, 48, 48] = none := by
  rw [name_window_decoder_eq]; simp [nameDecSpec, isHexDigit, isDigit, hexVal]

/-! ## numbers -/

/-- value of a digit string continuing from `acc` -/
def digitsVal (ds : Bytes) (acc : Nat) : Nat := ds.foldl (fun a c => a * 10 + (c.toNat - 48)) acc

theorem digitsVal_ge (ds : Bytes) (acc : Nat) : acc ≤ digitsVal ds acc := by
  induction ds generalizing acc with
  | nil => exact Nat.le_refl _
  | cons c t ih =>
    simp only [digitsVal, List.foldl_cons]
    have := ih (acc * 10 + (c.toNat - 48))
    simp only [digitsVal] at this
    omega

/-- the checked accumulation succeeds exactly when the value fits -/
theorem accDigits_eq (limit : Nat) (ds : Bytes) (acc : Nat) (h : digitsVal ds acc ≤ limit) :
    accDigits limit ds acc = some (digitsVal ds acc) := by
  induction ds generalizing acc with
  | nil => rfl
  | cons c t ih =>
    simp only [digitsVal, List.foldl_cons] at h
    have hge := digitsVal_ge t (acc * 10 + (c.toNat - 48))
    simp only [digitsVal] at hge
    unfold accDigits
    have h1 : ¬ (acc * 10 > limit) := by omega
    have h2 : ¬ (acc * 10 + (c.toNat - 48) > limit) := by omega
    simp only [h1, h2, if_false]
    exact ih _ h

theorem accDigits_overflow (limit : Nat) (ds : Bytes) (acc : Nat) (ha : acc ≤ limit)
    (h : limit < digitsVal ds acc) : accDigits limit ds acc = none := by
  induction ds generalizing acc with
  | nil => simp [digitsVal] at h; omega
  | cons c t ih =>
    simp only [digitsVal, List.foldl_cons] at h
    unfold accDigits
    split
    · rfl
    · split
      · rfl
      · exact ih _ (by omega) h

/-- a run of allowed bytes between a prefix and a context that starts with a disallowed byte -/
theorem allowed_append (f : UInt8 → Bool) (pre ds ctx : Bytes) (hds : ∀ y ∈ ds, f y = true)
    (hctx : ∀ y, ctx.head? = some y → f y = false) :
    allowed f (pre ++ ds ++ ctx) pre.length = (ds, pre.length + ds.length) := by
  unfold allowed
  have hd : List.drop pre.length (pre ++ ds ++ ctx) = ds ++ ctx := by
    rw [List.append_assoc, List.drop_left]
  rw [hd]
  have : List.takeWhile f (ds ++ ctx) = ds := by
    rw [List.takeWhile_append_of_pos hds]
    cases ctx with
    | nil => simp
    | cons y t => simp [List.takeWhile_cons, hctx y rfl]
  rw [this]

theorem peek_append (pre rest : Bytes) : peek (pre ++ rest) pre.length = rest.head? := by
  unfold peek
  cases rest with
  | nil => simp
  | cons a t => simp

/-- the three legal sign prefixes -/
inductive Sign where | none | plus | minus
deriving DecidableEq, Repr

def Sign.bytes : Sign → Bytes | .none => [] | .plus => [43] | .minus => [45]
def Sign.apply (sg : Sign) (n : Nat) : Int := match sg with | .minus => -(n : Int) | _ => (n : Int)

theorem signPrefix_spec (sg : Sign) (rest : Bytes) (h : ∀ y, rest.head? = some y → y ≠ 45 ∧ y ≠ 43) :
    signPrefix (sg.bytes ++ rest) 0 = (decide (sg = .minus), sg.bytes.length) := by
  cases sg with
  | none =>
    simp only [Sign.bytes, List.nil_append, signPrefix, peek]
    cases rest with
    | nil => simp
    | cons y t =>
      have := h y rfl
      simp [this.1, this.2]
  | plus => simp [Sign.bytes, signPrefix, peek]
  | minus => simp [Sign.bytes, signPrefix, peek]

/-- **`integer_spec`**: `IntegerP` on sign ++ digits ++ context, for every digit string (so every
    number of leading zeros), every sign and every context that does not continue the digits:
    the value is the signed decimal value when it fits an `i64`, a guard error otherwise, and the
    cursor is exactly after the last digit / unmoved. -/
theorem integer_spec (sg : Sign) (ds ctx : Bytes) (hne : ds ≠ []) (hds : ∀ y ∈ ds, isDigit y = true)
    (hctx : ∀ y, ctx.head? = some y → isDigit y = false) :
    integerP (sg.bytes ++ ds ++ ctx) 0 =
      if digitsVal ds 0 ≤ i64Max then
        (.ok ⟨sg.apply (digitsVal ds 0), 0, sg.bytes.length + ds.length⟩, sg.bytes.length + ds.length)
      else (.err .guard, 0) := by
  unfold integerP
  have hs : signPrefix (sg.bytes ++ ds ++ ctx) 0 = (decide (sg = .minus), sg.bytes.length) := by
    rw [List.append_assoc]
    apply signPrefix_spec
    intro y hy
    cases ds with
    | nil => exact absurd rfl hne
    | cons d t =>
      simp only [List.cons_append, List.head?_cons, Option.some.injEq] at hy
      subst hy
      have := hds d (List.mem_cons_self)
      simp only [isDigit, Bool.and_eq_true, decide_eq_true_eq] at this
      constructor
      · intro h; subst h; exact absurd this.1 (by decide)
      · intro h; subst h; exact absurd this.1 (by decide)
  rw [hs]
  simp only
  rw [allowed_append isDigit sg.bytes ds ctx hds hctx]
  simp only
  have hemp : ds.isEmpty = false := by cases ds <;> simp_all
  simp only [hemp, Bool.false_and, Bool.false_eq_true, if_false]
  by_cases hfit : digitsVal ds 0 ≤ i64Max
  · rw [accDigits_eq _ _ _ hfit]
    simp only [hfit, if_true]
    cases sg <;> simp [Sign.apply]
  · rw [accDigits_overflow _ _ _ (Nat.zero_le _) (by omega)]
    simp [hfit]

example : integerP [43, 48, 48, 49, 55, 93] 0 = (.ok ⟨17, 0, 5⟩, 5) := by decide

theorem digitsVal_append (a b : Bytes) (acc : Nat) : digitsVal (a ++ b) acc = digitsVal b (digitsVal a acc) := by
  simp [digitsVal, List.foldl_append]

theorem digitsVal_zeros (k acc : Nat) (h : acc = 0) : digitsVal (zeros k) acc = 0 := by
  subst h
  induction k with
  | zero => rfl
  | succ k ih =>
    simp only [zeros, List.replicate_succ, digitsVal, List.foldl_cons] at ih ⊢
    exact ih

theorem digit_ofNat (d : Nat) (h : d < 10) :
    isDigit (UInt8.ofNat (48 + d)) = true ∧ (UInt8.ofNat (48 + d)).toNat - 48 = d := by
  have : ∀ d : Fin 10, isDigit (UInt8.ofNat (48 + d.val)) = true ∧ (UInt8.ofNat (48 + d.val)).toNat - 48 = d.val := by
    decide
  exact this ⟨d, h⟩

/-- the decimal digits produced by the spec-side encoder denote the number and are digits -/
theorem decDigits_spec (f n : Nat) (h : n < 10 ^ f) :
    digitsVal (decDigits f n) 0 = n ∧ (∀ y ∈ decDigits f n, isDigit y = true) ∧ decDigits f n ≠ [] := by
  induction f generalizing n with
  | zero =>
    have : n = 0 := by simp at h; exact h
    subst this
    refine ⟨rfl, ?_, by simp [decDigits]⟩
    intro y hy; simp [decDigits] at hy; subst hy; decide
  | succ f ih =>
    unfold decDigits
    split
    · rename_i hlt
      have := digit_ofNat n hlt
      refine ⟨?_, ?_, by simp⟩
      · simp only [digitsVal, List.foldl_cons, List.foldl_nil, this.2]; omega
      · intro y hy; simp only [List.mem_singleton] at hy; subst hy; exact this.1
    · rename_i hge
      have hq : n / 10 < 10 ^ f := by
        rw [Nat.pow_succ] at h
        exact Nat.div_lt_of_lt_mul (by omega)
      obtain ⟨h1, h2, h3⟩ := ih (n / 10) hq
      have hd := digit_ofNat (n % 10) (Nat.mod_lt _ (by decide))
      refine ⟨?_, ?_, by simp⟩
      · rw [digitsVal_append, h1]
        simp only [digitsVal, List.foldl_cons, List.foldl_nil, hd.2]
        omega
      · intro y hy
        simp only [List.mem_append, List.mem_singleton] at hy
        rcases hy with hy | hy
        · exact h2 y hy
        · subst hy; exact hd.1

theorem signOf_spec (neg : Bool) (c : Ch) :
    ∃ sg : Sign, (signOf neg c).1 = sg.bytes ∧ (neg = true → sg = .minus) ∧ (neg = false → sg ≠ .minus) := by
  unfold signOf
  cases neg with
  | true => exact ⟨.minus, rfl, fun _ => rfl, fun h => by cases h⟩
  | false =>
    simp only [Bool.false_eq_true, if_false]
    split
    · exact ⟨.plus, rfl, by simp, by simp⟩
    · exact ⟨.none, rfl, by simp, by simp⟩

/-- **`integer_roundtrip`**: every spelling the encoder produces for an integer in the i64 range
    (sign choice, any number of leading zeros), followed by any context that does not continue the
    digits, is parsed by `IntegerP` to exactly that integer with the cursor after the last digit. -/
theorem integer_roundtrip (n : Int) (c : Ch) (ctx : Bytes)
    (hn : n.natAbs ≤ i64Max) (hctx : ∀ y, ctx.head? = some y → isDigit y = false) :
    integerP ((spellInt n c).1 ++ ctx) 0 =
      (.ok ⟨n, 0, (spellInt n c).1.length⟩, (spellInt n c).1.length) := by
  have hlt : n.natAbs < 10 ^ 64 := by
    have : i64Max < 10 ^ 64 := by decide
    omega
  obtain ⟨hv, hd, hne⟩ := decDigits_spec 64 n.natAbs hlt
  -- the encoder's output is sign ++ (zeros ++ digits)
  have hshape : ∃ (sg : Sign) (z : Nat), (spellInt n c).1 = sg.bytes ++ (zeros z ++ natDigits n.natAbs) ∧
      sg.apply n.natAbs = n := by
    obtain ⟨sg, hsb, h1, h2⟩ := signOf_spec (decide (n < 0)) c
    refine ⟨sg, (pick (signOf (decide (n < 0)) c).2 3).1, ?_, ?_⟩
    · have : (spellInt n c).1 = (signOf (decide (n < 0)) c).1 ++
          zeros (pick (signOf (decide (n < 0)) c).2 3).1 ++ natDigits n.natAbs := rfl
      rw [this, hsb, List.append_assoc]
    · by_cases hneg : n < 0
      · have := h1 (by simp [hneg]); subst this; simp only [Sign.apply]; omega
      · have := h2 (by simp [hneg])
        cases sg with
        | minus => exact absurd rfl this
        | none => simp only [Sign.apply]; omega
        | plus => simp only [Sign.apply]; omega
  obtain ⟨sg, z, hs, hsg⟩ := hshape
  have hds : ∀ y ∈ zeros z ++ natDigits n.natAbs, isDigit y = true := by
    intro y hy
    simp only [List.mem_append] at hy
    rcases hy with hy | hy
    · simp [zeros] at hy; rw [hy.2]; decide
    · exact hd y hy
  have hval : digitsVal (zeros z ++ natDigits n.natAbs) 0 = n.natAbs := by
    rw [digitsVal_append, digitsVal_zeros z 0 rfl]; exact hv
  have hne' : zeros z ++ natDigits n.natAbs ≠ [] := by simp [natDigits, hne]
  have := integer_spec sg (zeros z ++ natDigits n.natAbs) ctx hne' hds hctx
  rw [hs, this, hval]
  simp only [hn, if_true, hsg, List.length_append]

example : (spellInt (-42) [2]).1 = [45, 48, 48, 52, 50] := by decide

/-! ## hexadecimal strings -/

/-- the digits of a hex-string body: whitespace removed, a final odd digit padded with '0' -/
def hexDigitsOf (body : Bytes) : Bytes :=
  let hx := body.filter (fun b => !isHexWs b)
  if hx.length % 2 != 0 then hx ++ [48] else hx

/-- **`hexstring_spec`**: for every body made of hex digits and whitespace, in every context,
    `HexString` returns the bytes denoted by the digits (odd count padded with 0) and the cursor
    is just after the closing `>`. -/
theorem hexstring_spec (body ctx : Bytes) (hb : ∀ y ∈ body, (isHexDigit y || isHexWs y) = true) :
    hexString ([60] ++ body ++ [62] ++ ctx) 0 =
      (.ok ⟨hexPairs (hexDigitsOf body), 0, body.length + 2⟩, body.length + 2) := by
  unfold hexString
  have hp : peek ([60] ++ body ++ [62] ++ ctx) 0 = some 60 := rfl
  simp only [hp, bne_self_eq_false, Bool.false_eq_true, if_false]
  have ha : allowed (fun b => isHexDigit b || isHexWs b) ([60] ++ body ++ [62] ++ ctx) (0 + 1) = (body, 1 + body.length) := by
    have := allowed_append (fun b => isHexDigit b || isHexWs b) [60] body ([62] ++ ctx) hb
      (by intro y hy; simp at hy; subst hy; decide)
    simpa [List.append_assoc] using this
  rw [ha]
  simp only
  have hp2 : peek ([60] ++ body ++ [62] ++ ctx) (1 + body.length) = some 62 := by
    have := peek_append ([60] ++ body) ([62] ++ ctx)
    simp only [List.length_append, List.length_cons, List.length_nil] at this
    rw [← List.append_assoc] at this
    simpa [Nat.add_comm] using this
  simp only [hp2, bne_self_eq_false, Bool.false_eq_true, if_false, hexDigitsOf]
  have : 1 + body.length + 1 = body.length + 2 := by omega
  rw [this]

theorem wsOpt'_ws (c : Ch) : ∀ y ∈ (hexBody.wsOpt' c).1, isHexWs y = true := by
  intro y hy
  unfold hexBody.wsOpt' at hy
  simp only at hy
  split at hy <;> simp only [List.mem_cons, List.mem_nil_iff, or_false, List.not_mem_nil] at hy
  all_goals first
    | (subst hy; decide)
    | (rcases hy with h | h <;> subst h <;> decide)
    | (rcases hy with h | h | h <;> subst h <;> decide)
    | exact hy.elim

/-! ## literal strings -/

/-- the scanner's `last_slash` is stale: it points strictly before the previous byte -/
def Stale (ls : Option Nat) (pos : Nat) : Prop := ∀ p, ls = some p → p + 1 < pos

theorem notEsc {ls : Option Nat} {pos : Nat} (hs : Stale ls pos) :
    (match ls with | some p => p + 1 == pos | none => false) = false := by
  cases ls with
  | none => rfl
  | some p => have := hs p rfl; simp; omega

theorem lsNext {ls : Option Nat} {pos : Nat} (hs : Stale ls pos) :
    (match ls with | some p => if p + 1 == pos then none else some pos | none => some pos) = some pos := by
  cases ls with
  | none => rfl
  | some p =>
    have := hs p rfl
    have : ¬ (p + 1 == pos) = true := by simp; omega
    simp [this]

/-- one step of the scanner on an ordinary byte / an unescaped parenthesis / a backslash -/
theorem litLoop_step (b : UInt8) (t : Bytes) (pos : Nat) (ls : Option Nat) (depth : Nat) (acc : Bytes)
    (hs : Stale ls pos) :
    litLoop (b :: t) pos ls depth acc =
      if b == 40 then litLoop t (pos + 1) none (depth + 1) (b :: acc)
      else if b == 41 then
        (if depth - 1 == 0 then some (acc.reverse, pos + 1) else litLoop t (pos + 1) none (depth - 1) (b :: acc))
      else if b == 92 then litLoop t (pos + 1) (some pos) depth (b :: acc)
      else litLoop t (pos + 1) ls depth (b :: acc) := by
  have hne : ∀ p, ls = some p → (p + 1 == pos) = false := by
    intro p hp; have := hs p hp; simp; omega
  conv => lhs; unfold litLoop
  cases ls with
  | none => simp
  | some p => simp [hne p rfl]

/-- one step under a pending escape (the previous byte was an unescaped backslash at `pos - 1`) -/
theorem stale_none (k : Nat) : Stale none k := by intro p hp; cases hp
theorem stale_some {p k : Nat} (h : p + 1 < k) : Stale (some p) k := by intro q hq; cases hq; exact h

theorem litLoop_escaped (x : UInt8) (t : Bytes) (pos : Nat) (depth : Nat) (acc : Bytes) :
    ∃ ls2, Stale ls2 (pos + 2) ∧
      litLoop (x :: t) (pos + 1) (some pos) depth acc = litLoop t (pos + 2) ls2 depth (x :: acc) := by
  conv => enter [1, ls2, 2, 1]; unfold litLoop
  by_cases h40 : x = 40
  · subst h40; exact ⟨some pos, stale_some (by omega), by simp⟩
  · by_cases h41 : x = 41
    · subst h41; exact ⟨some pos, stale_some (by omega), by simp⟩
    · by_cases h92 : x = 92
      · subst h92; exact ⟨none, stale_none _, by simp⟩
      · exact ⟨some pos, stale_some (by omega), by simp [h40, h41, h92]⟩

/-- the scanner of `RawLiteralString` on a balanced body followed by the closing parenthesis:
    it returns exactly the body and stops just after the ')' — whatever follows. -/
theorem litLoop_balanced (body : Bytes) (d : Nat) (ctx : Bytes) (pos : Nat) (ls : Option Nat) (acc : Bytes)
    (hs : Stale ls pos) (hb : litBalanced body d = true) :
    litLoop (body ++ 41 :: ctx) pos ls (d + 1) acc = some (acc.reverse ++ body, pos + body.length + 1) := by
  fun_induction litBalanced body d generalizing pos ls acc with
  | case1 d =>
    have hd : d = 0 := by simpa using hb
    subst hd
    simp [litLoop_step _ _ _ _ _ _ hs]
  | case2 x t d ih =>
    simp only [List.cons_append]
    rw [litLoop_step _ _ _ _ _ _ hs]
    simp only [show ((92 : UInt8) == 40) = false by decide, show ((92 : UInt8) == 41) = false by decide,
      beq_self_eq_true, if_true, Bool.false_eq_true, if_false]
    obtain ⟨ls2, hst, h2⟩ := litLoop_escaped x (t ++ 41 :: ctx) pos (d + 1) (92 :: acc)
    rw [h2, ih _ _ _ hst hb]
    simp [Nat.add_assoc] <;> omega
  | case3 d => simp at hb
  | case4 t d ih =>
    simp only [List.cons_append]
    rw [litLoop_step _ _ _ _ _ _ hs]
    simp only [beq_self_eq_true, if_true]
    rw [ih _ _ _ (stale_none _) hb]
    simp [Nat.add_assoc] <;> omega
  | case5 t d ih =>
    simp only [Bool.and_eq_true, bne_iff_ne, ne_eq] at hb
    obtain ⟨hd, hb⟩ := hb
    obtain ⟨d', rfl⟩ : ∃ d', d = d' + 1 := ⟨d - 1, by omega⟩
    simp only [List.cons_append]
    rw [litLoop_step _ _ _ _ _ _ hs]
    have h2 : ¬ (d' + 1 + 1 - 1 == 0) = true := by simp
    simp only [show ((41 : UInt8) == 40) = false by decide, beq_self_eq_true, if_true, Bool.false_eq_true,
      if_false, h2]
    have : d' + 1 + 1 - 1 = d' + 1 - 1 + 1 := by omega
    rw [this, ih _ _ _ (stale_none _) hb]
    simp [Nat.add_assoc] <;> omega
  | case6 b t d h92a h92b h40 h41 ih =>
    have n92 : ¬ b = 92 := by
      intro h
      cases t with
      | nil => exact h92b h rfl
      | cons x t' => exact h92a x t' h rfl
    have e40 : (b == 40) = false := by simp; exact h40
    have e41 : (b == 41) = false := by simp; exact h41
    have e92 : (b == 92) = false := by simp [n92]
    simp only [List.cons_append]
    rw [litLoop_step _ _ _ _ _ _ hs]
    simp only [e40, e41, e92, Bool.false_eq_true, if_false]
    have hs' : Stale ls (pos + 1) := by intro p hp; have := hs p hp; omega
    rw [ih _ _ _ hs' hb]
    simp [Nat.add_assoc] <;> omega

/-- **`litstring_roundtrip`**: every balanced (modulo backslash escapes) body between parentheses,
    followed by anything at all, is returned verbatim with the cursor just after the closing ')'. -/
theorem litstring_roundtrip (body ctx : Bytes) (hb : litBalanced body 0 = true) :
    rawLitString ([40] ++ body ++ [41] ++ ctx) 0 = (.ok ⟨body, 0, body.length + 2⟩, body.length + 2) := by
  unfold rawLitString
  have hp : peek ([40] ++ body ++ [41] ++ ctx) 0 = some 40 := rfl
  simp only [hp, bne_self_eq_false, Bool.false_eq_true, if_false]
  have hd : List.drop (0 + 1) ([40] ++ body ++ [41] ++ ctx) = body ++ 41 :: ctx := by simp
  rw [hd, litLoop_balanced body 0 ctx (0 + 1) none [] (stale_none _) hb]
  simp [Nat.add_comm] <;> omega

example : litBalanced [97, 40, 98, 41, 92, 41, 99] 0 = true := by decide

/-! ## reals -/

theorem accFrac_eq (limit : Nat) (fs : Bytes) (n d : Nat)
    (hn : digitsVal fs n ≤ limit) (hd : d * 10 ^ fs.length ≤ limit) :
    accFrac limit fs n d = some (digitsVal fs n, d * 10 ^ fs.length) := by
  induction fs generalizing n d with
  | nil => simp [accFrac, digitsVal]
  | cons c t ih =>
    simp only [digitsVal, List.foldl_cons] at hn
    have hge := digitsVal_ge t (n * 10 + (c.toNat - 48))
    simp only [digitsVal] at hge
    simp only [List.length_cons, Nat.pow_succ] at hd
    have hd10 : d * 10 ≤ d * (10 ^ t.length * 10) := by
      apply Nat.mul_le_mul_left
      have : 1 ≤ 10 ^ t.length := Nat.pow_pos (by decide)
      calc 10 = 1 * 10 := by omega
        _ ≤ 10 ^ t.length * 10 := Nat.mul_le_mul_right _ this
    unfold accFrac
    have h1 : ¬ (n * 10 > limit) := by omega
    have h2 : ¬ (n * 10 + (c.toNat - 48) > limit) := by omega
    have h3 : ¬ (d * 10 > limit) := by omega
    simp only [h1, h2, h3, if_false]
    have := ih (n * 10 + (c.toNat - 48)) (d * 10) hn (by
      have : d * 10 * 10 ^ t.length = d * (10 ^ t.length * 10) := by
        rw [Nat.mul_assoc, Nat.mul_comm 10]
      omega)
    rw [this]
    simp only [digitsVal, List.foldl_cons, List.length_cons, Nat.pow_succ]
    congr 2
    rw [Nat.mul_assoc, Nat.mul_comm 10]

/-- **`real_spec`**: `RealP` on sign ++ digits ++ '.' ++ digits ++ context (either digit run may be
    empty), whenever numerator and denominator fit an `i128`: the value is the pair
    (± the integer written by all the digits, 10^(number of fraction digits)), cursor after the
    last fraction digit. -/
theorem real_spec (sg : Sign) (ds fs ctx : Bytes)
    (hds : ∀ y ∈ ds, isDigit y = true) (hfs : ∀ y ∈ fs, isDigit y = true)
    (hctx : ∀ y, ctx.head? = some y → isDigit y = false)
    (hfit : digitsVal (ds ++ fs) 0 ≤ i128Max) (hden : 10 ^ fs.length ≤ i128Max) :
    realP (sg.bytes ++ ds ++ [46] ++ fs ++ ctx) 0 =
      (.ok ⟨(sg.apply (digitsVal (ds ++ fs) 0), 10 ^ fs.length), 0, sg.bytes.length + ds.length + 1 + fs.length⟩,
        sg.bytes.length + ds.length + 1 + fs.length) := by
  unfold realP
  have hs : signPrefix (sg.bytes ++ ds ++ [46] ++ fs ++ ctx) 0 = (decide (sg = .minus), sg.bytes.length) := by
    have : sg.bytes ++ ds ++ [46] ++ fs ++ ctx = sg.bytes ++ (ds ++ [46] ++ fs ++ ctx) := by simp [List.append_assoc]
    rw [this]
    apply signPrefix_spec
    intro y hy
    cases ds with
    | nil =>
      simp at hy; subst hy; decide
    | cons d t =>
      simp only [List.cons_append, List.head?_cons, Option.some.injEq] at hy
      subst hy
      have := hds d (List.mem_cons_self)
      simp only [isDigit, Bool.and_eq_true, decide_eq_true_eq] at this
      constructor
      · intro h; subst h; exact absurd this.1 (by decide)
      · intro h; subst h; exact absurd this.1 (by decide)
  rw [hs]
  simp only
  have ha : allowed isDigit (sg.bytes ++ ds ++ [46] ++ fs ++ ctx) sg.bytes.length = (ds, sg.bytes.length + ds.length) := by
    have := allowed_append isDigit sg.bytes ds ([46] ++ fs ++ ctx) hds (by intro y hy; simp at hy; subst hy; decide)
    simpa [List.append_assoc] using this
  rw [ha]
  simp only
  have hp : peek (sg.bytes ++ ds ++ [46] ++ fs ++ ctx) (sg.bytes.length + ds.length) = some 46 := by
    have := peek_append (sg.bytes ++ ds) ([46] ++ fs ++ ctx)
    simp only [List.length_append] at this
    simpa [List.append_assoc] using this
  simp only [hp, bne_self_eq_false, Bool.and_false, Bool.false_eq_true, if_false, beq_self_eq_true, if_true]
  have hfit1 : digitsVal ds 0 ≤ i128Max := by
    have := digitsVal_ge fs (digitsVal ds 0)
    rw [digitsVal_append] at hfit
    omega
  rw [accDigits_eq _ _ _ hfit1]
  simp only
  have hb : allowed isDigit (sg.bytes ++ ds ++ [46] ++ fs ++ ctx) (sg.bytes.length + ds.length + 1) =
      (fs, sg.bytes.length + ds.length + 1 + fs.length) := by
    have := allowed_append isDigit (sg.bytes ++ ds ++ [46]) fs ctx hfs hctx
    simp only [List.length_append, List.length_cons, List.length_nil] at this
    exact this
  rw [hb]
  simp only
  rw [accFrac_eq _ _ _ _ (by rw [← digitsVal_append]; exact hfit) (by simpa using hden)]
  simp only [Nat.one_mul, ← digitsVal_append]
  cases sg <;> simp [Sign.apply]

example : realP [45, 46, 53, 48, 32] 0 = (.ok ⟨(-50, 100), 0, 4⟩, 4) := by decide

/-! ## whitespace and comments: the loop equals a byte-wise skipper -/

mutual
/-- number of bytes of whitespace and comments at the head of a byte string -/
def skipWs : Bytes → Nat
  | [] => 0
  | b :: t => if isWsEol b then 1 + skipWs t else if b == 37 then 1 + skipComment t else 0
/-- inside a comment (after '%'): up to and including the LF, then more whitespace -/
def skipComment : Bytes → Nat
  | [] => 0
  | b :: t => if b == 10 then 1 + skipWs t else 1 + skipComment t
end

theorem skipWs_takeWhile (l : Bytes) :
    skipWs l = (l.takeWhile isWsEol).length + skipWs (l.dropWhile isWsEol) := by
  induction l with
  | nil => simp [skipWs]
  | cons b t ih =>
    by_cases hb : isWsEol b = true
    · simp only [List.takeWhile_cons, List.dropWhile_cons, hb, if_true, List.length_cons]
      rw [skipWs]; simp only [hb, if_true]; omega
    · simp [List.takeWhile_cons, List.dropWhile_cons, hb]

theorem skipComment_takeWhile (l : Bytes) :
    skipComment l = (l.takeWhile (fun b => !(b == 10))).length +
      (match l.dropWhile (fun b => !(b == 10)) with
        | [] => 0
        | _ :: r => 1 + skipWs r) := by
  induction l with
  | nil => simp [skipComment]
  | cons b t ih =>
    by_cases hb : b = 10
    · subst hb; simp [skipComment, List.takeWhile_cons, List.dropWhile_cons]
    · have : (b == 10) = false := by simp [hb]
      rw [skipComment]
      simp only [this, Bool.false_eq_true, if_false, List.takeWhile_cons, List.dropWhile_cons, Bool.not_false,
        if_true, List.length_cons]
      rw [ih]; omega

theorem takeWhile_dropWhile_drop (f : UInt8 → Bool) (l : Bytes) :
    l.dropWhile f = l.drop (l.takeWhile f).length := by
  induction l with
  | nil => simp
  | cons b t ih => by_cases hb : f b = true <;> simp [List.takeWhile_cons, List.dropWhile_cons, hb, ih]

theorem head_dropWhile_not (f : UInt8 → Bool) (l : Bytes) (b : UInt8) (h : (l.dropWhile f).head? = some b) :
    f b = false := by
  induction l with
  | nil => simp at h
  | cons a t ih =>
    by_cases ha : f a = true
    · simp only [List.dropWhile_cons, ha, if_true] at h; exact ih h
    · simp only [List.dropWhile_cons, ha] at h
      simp at h; subst h; simpa using ha

/-- the whitespace run at the cursor: `allowed` returns it, and what follows does not start with whitespace -/
theorem ws_run_spec (s : Bytes) (i : Nat) :
    ∃ w, allowed isWsEol s i = (w, i + w.length) ∧
      skipWs (s.drop i) = w.length + skipWs (s.drop (i + w.length)) ∧
      (∀ b, (s.drop (i + w.length)).head? = some b → isWsEol b = false) := by
  refine ⟨(s.drop i).takeWhile isWsEol, rfl, ?_, ?_⟩
  · rw [skipWs_takeWhile, takeWhile_dropWhile_drop, List.drop_drop]
  · intro b hb
    rw [← List.drop_drop, ← takeWhile_dropWhile_drop] at hb
    exact head_dropWhile_not _ _ _ hb

/-- the text of a comment starting at `j` (after the '%', up to the LF or the end) -/
def cmtBody (s : Bytes) (j : Nat) : Bytes := (s.drop (j + 1)).takeWhile (fun b => !(b == 10))

theorem comment_eq (s : Bytes) (j : Nat) (hp : peek s j = some 37) :
    comment s j =
      if peek s (j + 1 + (cmtBody s j).length) == some 10 then
        (.ok ⟨cmtBody s j, j, j + 1 + (cmtBody s j).length + 1⟩, j + 1 + (cmtBody s j).length + 1)
      else (.ok ⟨cmtBody s j, j, j + 1 + (cmtBody s j).length⟩, j + 1 + (cmtBody s j).length) := by
  unfold comment
  simp only [hp, bne_self_eq_false, Bool.false_eq_true, if_false, untilB, allowed]
  rfl

/-- a comment at the cursor: `Comment::parse` succeeds, moves forward, and accounts for exactly
    the bytes the byte-wise skipper attributes to it -/
theorem comment_skip (s : Bytes) (j : Nat) (hp : peek s j = some 37) :
    ∃ v k, comment s j = (.ok v, k) ∧ j < k ∧ k ≤ s.length ∧
      skipWs (s.drop j) = (k - j) + skipWs (s.drop k) := by
  have hj : j < s.length := peek_some_lt hp
  have hd : s.drop j = 37 :: s.drop (j + 1) := by
    rw [List.drop_eq_getElem_cons hj]
    congr 1
    have := hp; unfold peek at this
    rw [List.getElem?_eq_getElem hj] at this
    exact Option.some.inj this
  have hnws : isWsEol 37 = false := by decide
  have hsk : skipWs (s.drop j) = 1 + skipComment (s.drop (j + 1)) := by
    rw [hd, skipWs]; simp [hnws]
  have hcl : (cmtBody s j).length ≤ s.length - (j + 1) := by
    have := takeWhile_length_le (fun b => !(b == 10)) (s.drop (j + 1)); simpa [cmtBody] using this
  have hsc := skipComment_takeWhile (s.drop (j + 1))
  rw [takeWhile_dropWhile_drop, List.drop_drop] at hsc
  change skipComment (s.drop (j + 1)) = (cmtBody s j).length +
    (match s.drop (j + 1 + (cmtBody s j).length) with | [] => 0 | _ :: r => 1 + skipWs r) at hsc
  have hpk : peek s (j + 1 + (cmtBody s j).length) = (s.drop (j + 1 + (cmtBody s j).length)).head? := by
    simp [peek, List.head?_drop]
  rw [comment_eq s j hp]
  cases hr : s.drop (j + 1 + (cmtBody s j).length) with
  | nil =>
    rw [hr] at hsc
    have hlen : s.length ≤ j + 1 + (cmtBody s j).length := by
      have := congrArg List.length hr; simp at this; omega
    rw [if_neg (by simp [hpk, hr])]
    simp only at hsc
    refine ⟨_, _, rfl, by omega, by omega, ?_⟩
    rw [hsk, hsc, hr]; simp [skipWs]; omega
  | cons b r =>
    have hb10 : b = 10 := by
      have h := head_dropWhile_not (fun b => !(b == 10)) (s.drop (j + 1)) b (by
        rw [takeWhile_dropWhile_drop, List.drop_drop]
        change (s.drop (j + 1 + (cmtBody s j).length)).head? = some b
        rw [hr]; rfl)
      simpa using h
    subst hb10
    rw [hr] at hsc
    have hlen : j + 1 + (cmtBody s j).length < s.length := by
      have := congrArg List.length hr; simp at this; omega
    have hr' : s.drop (j + 1 + (cmtBody s j).length + 1) = r := by
      rw [← List.drop_drop, hr]; rfl
    rw [if_pos (by simp [hpk, hr])]
    simp only at hsc
    refine ⟨_, _, rfl, by omega, by omega, ?_⟩
    rw [hsk, hsc, hr']; omega

/-- **`ws_loop_eq_skip`**: for every buffer and cursor, with the fuel the parser supplies, the
    whitespace/comment loop stops exactly `skipWs` bytes further, and its `is_empty` flag stays
    set iff nothing was skipped. -/
theorem ws_loop_eq_skip (f : Nat) (s : Bytes) (i : Nat) (e : Bool) (hi : i ≤ s.length)
    (hf : s.length + 1 - i ≤ f) :
    wsEOLLoop f s i e = some (i + skipWs (s.drop i), e && (skipWs (s.drop i) == 0)) := by
  induction f generalizing i e with
  | zero => omega
  | succ f ih =>
    obtain ⟨w, haw, hsk, hhead⟩ := ws_run_spec s i
    have hb := allowed_bound isWsEol s i hi
    rw [haw] at hb
    simp only at hb
    unfold wsEOLLoop
    rw [haw]
    simp only
    by_cases hp : peek s (i + w.length) = some 37
    · obtain ⟨v, k, hc, hk1, hk2, hsk2⟩ := comment_skip s (i + w.length) hp
      simp only [hp, beq_self_eq_true, if_true, hc]
      rw [ih k false hk2 (by omega)]
      have : skipWs (s.drop i) ≠ 0 := by omega
      simp only [Bool.false_and, Option.some.injEq, Prod.mk.injEq]
      exact ⟨by omega, by simp [this]⟩
    · have hne : (peek s (i + w.length) == some 37) = false := by simpa using hp
      simp only [hne, Bool.false_eq_true, if_false]
      have hz : skipWs (s.drop (i + w.length)) = 0 := by
        cases hr : s.drop (i + w.length) with
        | nil => rfl
        | cons b r =>
          have h1 := hhead b (by rw [hr]; rfl)
          have h2 : b ≠ 37 := by
            intro h; subst h
            apply hp
            simp [peek, ← List.head?_drop, hr]
          rw [skipWs]; simp [h1, h2]
      simp only [Option.some.injEq, Prod.mk.injEq]
      refine ⟨by omega, ?_⟩
      congr 1
      cases w <;> simp_all

/-! ## composing: leading whitespace, one token, any legal context -/

theorem wsEOL_eq (e : Bool) (s : Bytes) (i : Nat) (hi : i ≤ s.length) :
    wsEOL e s i =
      if (skipWs (s.drop i) == 0) && !e then (.err .guard, i)
      else (.ok ⟨(), i, i + skipWs (s.drop i)⟩, i + skipWs (s.drop i)) := by
  unfold wsEOL
  rw [ws_loop_eq_skip _ s i true hi (Nat.le_refl _)]
  simp only [Bool.true_and]
  by_cases hz : skipWs (s.drop i) = 0
  · simp [hz]
  · simp [hz]

/-- whitespace runs as the lexical rules define them: whitespace bytes and comments that carry
    their terminating LF -/
inductive WsRun : Bytes → Prop
  | nil : WsRun []
  | ws (b : UInt8) (t : Bytes) : isWsEol b = true → WsRun t → WsRun (b :: t)
  | comment (body t : Bytes) : (∀ y ∈ body, y ≠ 10) → WsRun t → WsRun (37 :: body ++ 10 :: t)

theorem skipComment_body (body rest : Bytes) (h : ∀ y ∈ body, y ≠ 10) :
    skipComment (body ++ 10 :: rest) = body.length + 1 + skipWs rest := by
  induction body with
  | nil => simp [skipComment]
  | cons a t ih =>
    have ha : (a == 10) = false := by simp [h a (List.mem_cons_self)]
    simp only [List.cons_append, skipComment, ha, Bool.false_eq_true, if_false, List.length_cons]
    rw [ih (fun y hy => h y (List.mem_cons_of_mem _ hy))]; omega

/-- a whitespace run followed by something that is neither whitespace nor a comment is skipped exactly -/
theorem skipWs_run (lead rest : Bytes) (h : WsRun lead)
    (hrest : ∀ b, rest.head? = some b → isWsEol b = false ∧ b ≠ 37) :
    skipWs (lead ++ rest) = lead.length := by
  induction h with
  | nil =>
    cases rest with
    | nil => rfl
    | cons b r =>
      have := hrest b rfl
      simp [skipWs, this.1, this.2]
  | ws b t hb _ ih =>
    simp only [List.cons_append, skipWs, hb, if_true, List.length_cons, ih]; omega
  | comment body t hbody _ ih =>
    have h37 : isWsEol 37 = false := by decide
    simp only [List.cons_append, List.append_assoc, skipWs, h37, Bool.false_eq_true, if_false,
      beq_self_eq_true, if_true]
    rw [skipComment_body body (t ++ rest) hbody, ih]
    simp; omega

theorem WsRun.append {a b : Bytes} (ha : WsRun a) (hb : WsRun b) : WsRun (a ++ b) := by
  induction ha with
  | nil => simpa
  | ws x t hx _ ih => exact WsRun.ws x _ hx ih
  | comment body t hbody _ ih =>
    have : 37 :: body ++ 10 :: t ++ b = 37 :: body ++ 10 :: (t ++ b) := by simp
    rw [this]; exact WsRun.comment body _ hbody ih

/-- every piece the spec-side encoder uses is a whitespace run … -/
theorem wsPieces_run : ∀ p ∈ wsPieces, WsRun p := by
  intro p hp
  simp only [wsPieces, List.mem_cons, List.mem_nil_iff, or_false] at hp
  have w1 : ∀ b : UInt8, isWsEol b = true → WsRun [b] := fun b hb => WsRun.ws b [] hb WsRun.nil
  rcases hp with h | h | h | h | h | h | h | h | h | h | h <;> subst h
  · exact w1 _ (by decide)
  · exact w1 _ (by decide)
  · exact w1 _ (by decide)
  · exact w1 _ (by decide)
  · exact w1 _ (by decide)
  · exact w1 _ (by decide)
  · exact WsRun.ws _ _ (by decide) (w1 _ (by decide))
  · exact WsRun.comment [99] [] (by decide) WsRun.nil
  · exact WsRun.comment [] [] (by decide) WsRun.nil
  · exact WsRun.comment [37, 69, 79, 70, 32, 40, 120, 41, 32, 60, 60, 13] [] (by decide) WsRun.nil
  · exact WsRun.ws _ _ (by decide) (w1 _ (by decide))

/-- … hence so is every run the encoder emits -/
theorem wsRun_run (k : Nat) (c : Ch) : WsRun (wsRun k c).1 := by
  induction k generalizing c with
  | zero => exact WsRun.nil
  | succ k ih =>
    simp only [wsRun]
    apply WsRun.append
    · cases h : wsPieces[(pick c wsPieces.length).1]? with
      | none => exact WsRun.ws _ _ (by decide) WsRun.nil
      | some p => exact wsPieces_run p (List.mem_of_getElem? h)
    · exact ih _

/-- **`parseObj_token`**: the composition step.  Leading whitespace/comments `lead`, then text
    `rest` on which the dispatcher (at cursor 0, at any depth, with any parser for nested
    objects) returns value `v` and stops at `n`: `parse_pdf_obj` on `lead ++ rest` returns `v`
    with span `[|lead|, |lead| + n)`, cursor `|lead| + n`, and the context unchanged. -/
theorem parseObj_token (c : Depth) (hc : c.cur < c.max) (lead rest : Bytes) (hlead : WsRun lead)
    (hrest : ∀ b, rest.head? = some b → isWsEol b = false ∧ b ≠ 37) (v : Obj) (n : Nat)
    (hint : parseInternal (parseObjB c.max (c.max - c.cur - 1)) (c.cur + 1) rest 0 = ((.ok v, n), c.cur + 1)) :
    parseObj c (lead ++ rest) 0 = ((.ok ⟨v, lead.length, lead.length + n⟩, lead.length + n), c) := by
  obtain ⟨b, hb⟩ : ∃ b, c.max - c.cur = b + 1 := ⟨c.max - c.cur - 1, by omega⟩
  have hb' : c.max - c.cur - 1 = b := by omega
  rw [hb'] at hint
  unfold parseObj
  rw [hb]
  unfold parseObjB
  have hne : (c.cur == c.max) = false := by simp; omega
  simp only [hne, Bool.false_eq_true, if_false]
  unfold objParse
  have hws : wsEOL true (lead ++ rest) 0 = (.ok ⟨(), 0, lead.length⟩, lead.length) := by
    rw [wsEOL_eq true _ 0 (Nat.zero_le _)]
    simp [skipWs_run lead rest hlead hrest]
  rw [hws]
  simp only
  have hpi := Parsley.Shift.parseInternal_pre lead rest 0 (parseObjB c.max b) (Parsley.Shift.parseObjB_pre lead c.max b) (c.cur + 1)
  simp only [Nat.add_zero] at hpi
  rw [hpi, hint]
  simp [Parsley.Shift.shiftL, leaveObj]

/-- the dispatcher on a name token -/
theorem parseInternal_name (el : Elem) (cur : Nat) (b : Bytes) (ch : Ch) (ctx : Bytes) (hb : okKey b = true)
    (hctx : ∀ y, ctx.head? = some y → isNameTerm y = true)
    (hbody : ∀ y ∈ (nameBody b ch).1, isNameTerm y = false) :
    parseInternal el cur (47 :: (nameBody b ch).1 ++ ctx) 0 =
      ((.ok (.name b), (nameBody b ch).1.length + 1), cur) := by
  unfold parseInternal
  have hp : peek (47 :: (nameBody b ch).1 ++ ctx) 0 = some 47 := rfl
  simp only [hp]
  simp only [show ((47 : UInt8) == 116 || (47 : UInt8) == 102) = false by decide,
    show ((47 : UInt8) == 110) = false by decide, show ((47 : UInt8) == 40) = false by decide,
    show ((47 : UInt8) == 37) = false by decide, beq_self_eq_true, Bool.false_eq_true, if_false, if_true]
  rw [name_roundtrip b ch ctx hb hctx hbody]
  rfl

/-- **`spell_parse_name`** (C02 for names, end to end through `parse_pdf_obj`): any leading
    whitespace/comment run, any raw/`#hh` spelling of any null-free name in any hex case, any
    context that starts with a delimiter or whitespace (or is empty), any context depth below
    the bound: the object parser returns exactly that name, located at the token, with the
    cursor immediately after its last byte and the context unchanged. -/
theorem spell_parse_name (c : Depth) (hc : c.cur < c.max) (lead : Bytes) (hlead : WsRun lead)
    (b : Bytes) (ch : Ch) (ctx : Bytes) (hb : okKey b = true)
    (hctx : ∀ y, ctx.head? = some y → isNameTerm y = true)
    (hbody : ∀ y ∈ (nameBody b ch).1, isNameTerm y = false) :
    parseObj c (lead ++ (47 :: (nameBody b ch).1 ++ ctx)) 0 =
      ((.ok ⟨.name b, lead.length, lead.length + ((nameBody b ch).1.length + 1)⟩,
        lead.length + ((nameBody b ch).1.length + 1)), c) := by
  apply parseObj_token c hc lead _ hlead
  · intro y hy
    simp only [List.cons_append, List.head?_cons, Option.some.injEq] at hy
    subst hy; decide
  · exact parseInternal_name _ _ b ch ctx hb hctx hbody

theorem parseInternal_lit (el : Elem) (cur : Nat) (body ctx : Bytes) (hb : litBalanced body 0 = true) :
    parseInternal el cur ([40] ++ body ++ [41] ++ ctx) 0 = ((.ok (.str body), body.length + 2), cur) := by
  unfold parseInternal
  have hp : peek ([40] ++ body ++ [41] ++ ctx) 0 = some 40 := rfl
  simp only [hp]
  simp only [show ((40 : UInt8) == 116 || (40 : UInt8) == 102) = false by decide,
    show ((40 : UInt8) == 110) = false by decide, beq_self_eq_true, Bool.false_eq_true, if_false, if_true]
  rw [litstring_roundtrip body ctx hb]
  rfl

/-- **`spell_parse_litstring`**: every balanced (modulo escapes) literal string, after any
    whitespace/comment run, before anything at all. -/
theorem spell_parse_litstring (c : Depth) (hc : c.cur < c.max) (lead : Bytes) (hlead : WsRun lead)
    (body ctx : Bytes) (hb : litBalanced body 0 = true) :
    parseObj c (lead ++ ([40] ++ body ++ [41] ++ ctx)) 0 =
      ((.ok ⟨.str body, lead.length, lead.length + (body.length + 2)⟩, lead.length + (body.length + 2)), c) := by
  apply parseObj_token c hc lead _ hlead
  · intro y hy
    simp only [List.cons_append, List.nil_append, List.append_assoc, List.head?_cons, Option.some.injEq] at hy
    subst hy; decide
  · exact parseInternal_lit _ _ body ctx hb

theorem parseInternal_hex (el : Elem) (cur : Nat) (body ctx : Bytes)
    (hb : ∀ y ∈ body, (isHexDigit y || isHexWs y) = true) :
    parseInternal el cur ([60] ++ body ++ [62] ++ ctx) 0 =
      ((.ok (.str (hexPairs (hexDigitsOf body))), body.length + 2), cur) := by
  unfold parseInternal
  have hp : peek ([60] ++ body ++ [62] ++ ctx) 0 = some 60 := rfl
  have hp1 : (peek ([60] ++ body ++ [62] ++ ctx) (0 + 1) == some 60) = false := by
    cases body with
    | nil => rfl
    | cons y t =>
      have := hb y (List.mem_cons_self)
      have hne : y ≠ 60 := by intro h; subst h; revert this; decide
      simp [peek, hne]
  simp only [hp]
  simp only [show ((60 : UInt8) == 116 || (60 : UInt8) == 102) = false by decide,
    show ((60 : UInt8) == 110) = false by decide, show ((60 : UInt8) == 40) = false by decide,
    show ((60 : UInt8) == 37) = false by decide, show ((60 : UInt8) == 47) = false by decide,
    show ((60 : UInt8) == 91) = false by decide, beq_self_eq_true, Bool.false_eq_true, if_false, if_true, hp1]
  rw [hexstring_spec body ctx hb]
  rfl

/-- **`spell_parse_hexstring`**: every hexadecimal string body (digits of either case, embedded
    whitespace, odd digit count), after any whitespace/comment run, before anything at all. -/
theorem spell_parse_hexstring (c : Depth) (hc : c.cur < c.max) (lead : Bytes) (hlead : WsRun lead)
    (body ctx : Bytes) (hb : ∀ y ∈ body, (isHexDigit y || isHexWs y) = true) :
    parseObj c (lead ++ ([60] ++ body ++ [62] ++ ctx)) 0 =
      ((.ok ⟨.str (hexPairs (hexDigitsOf body)), lead.length, lead.length + (body.length + 2)⟩,
        lead.length + (body.length + 2)), c) := by
  apply parseObj_token c hc lead _ hlead
  · intro y hy
    simp only [List.cons_append, List.nil_append, List.append_assoc, List.head?_cons, Option.some.injEq] at hy
    subst hy; decide
  · exact parseInternal_hex _ _ body ctx hb

theorem exact_prefix (tag ctx : Bytes) : exact tag (tag ++ ctx) 0 = (true, tag.length) := by
  unfold exact startsWith
  have : tag.isPrefixOf (List.drop 0 (tag ++ ctx)) = true := by
    simp only [List.drop_zero]
    induction tag with
    | nil => simp
    | cons a t ih => simp [List.isPrefixOf, ih]
  simp [this]

/-- **`spell_parse_keyword`**: `true`, `false` and `null`. -/
theorem spell_parse_keyword (c : Depth) (hc : c.cur < c.max) (lead : Bytes) (hlead : WsRun lead) (ctx : Bytes) :
    parseObj c (lead ++ (kwTrue ++ ctx)) 0 = ((.ok ⟨.bool true, lead.length, lead.length + 4⟩, lead.length + 4), c) ∧
    parseObj c (lead ++ (kwFalse ++ ctx)) 0 = ((.ok ⟨.bool false, lead.length, lead.length + 5⟩, lead.length + 5), c) ∧
    parseObj c (lead ++ (kwNull ++ ctx)) 0 = ((.ok ⟨.null, lead.length, lead.length + 4⟩, lead.length + 4), c) := by
  refine ⟨?_, ?_, ?_⟩
  · apply parseObj_token c hc lead _ hlead
    · intro y hy; simp [kwTrue] at hy; subst hy; decide
    · unfold parseInternal
      have hp : peek (kwTrue ++ ctx) 0 = some 116 := rfl
      simp only [hp, beq_self_eq_true, Bool.true_or, if_true, boolean, exact_prefix kwTrue ctx]
      rfl
  · apply parseObj_token c hc lead _ hlead
    · intro y hy; simp [kwFalse] at hy; subst hy; decide
    · unfold parseInternal
      have hp : peek (kwFalse ++ ctx) 0 = some 102 := rfl
      have hno : exact kwTrue (kwFalse ++ ctx) 0 = (false, 0) := by
        simp [exact, startsWith, kwTrue, kwFalse, List.isPrefixOf]
      simp only [hp, beq_self_eq_true, Bool.or_true, if_true, boolean, hno, exact_prefix kwFalse ctx]
      rfl
  · apply parseObj_token c hc lead _ hlead
    · intro y hy; simp [kwNull] at hy; subst hy; decide
    · unfold parseInternal
      have hp : peek (kwNull ++ ctx) 0 = some 110 := rfl
      simp only [hp, show ((110 : UInt8) == 116 || (110 : UInt8) == 102) = false by decide, beq_self_eq_true,
        Bool.false_eq_true, if_false, if_true, null, exact_prefix kwNull ctx]
      rfl

/-! ## integers through the dispatcher (the reference look-ahead) -/

theorem digit_not_ws (d : UInt8) (h : isDigit d = true) : isWsEol d = false ∧ d ≠ 37 := by
  have key : ∀ n : Fin 256, isDigit (UInt8.ofNat n.val) = true →
      isWsEol (UInt8.ofNat n.val) = false ∧ UInt8.ofNat n.val ≠ 37 := by decide +kernel
  have := key ⟨d.toNat, d.toNat_lt⟩
  simp only [UInt8.ofNat_toNat] at this
  exact this h


/-- `RealP` on sign ++ digits ++ context when no '.' follows: an integer-valued real -/
theorem real_nodot_spec (sg : Sign) (ds ctx : Bytes) (hne : ds ≠ [])
    (hds : ∀ y ∈ ds, isDigit y = true)
    (hctx : ∀ y, ctx.head? = some y → isDigit y = false ∧ y ≠ 46)
    (hfit : digitsVal ds 0 ≤ i128Max) :
    realP (sg.bytes ++ ds ++ ctx) 0 =
      (.ok ⟨(sg.apply (digitsVal ds 0), 1), 0, sg.bytes.length + ds.length⟩, sg.bytes.length + ds.length) := by
  unfold realP
  have hs : signPrefix (sg.bytes ++ ds ++ ctx) 0 = (decide (sg = .minus), sg.bytes.length) := by
    rw [List.append_assoc]
    apply signPrefix_spec
    intro y hy
    cases ds with
    | nil => exact absurd rfl hne
    | cons d t =>
      simp only [List.cons_append, List.head?_cons, Option.some.injEq] at hy
      subst hy
      have := hds d (List.mem_cons_self)
      simp only [isDigit, Bool.and_eq_true, decide_eq_true_eq] at this
      constructor
      · intro h; subst h; exact absurd this.1 (by decide)
      · intro h; subst h; exact absurd this.1 (by decide)
  rw [hs]
  simp only
  rw [allowed_append isDigit sg.bytes ds ctx hds (fun y hy => (hctx y hy).1)]
  simp only
  have hemp : ds.isEmpty = false := by cases ds <;> simp_all
  have hp : (peek (sg.bytes ++ ds ++ ctx) (sg.bytes.length + ds.length) == some 46) = false := by
    have := peek_append (sg.bytes ++ ds) ctx
    simp only [List.length_append] at this
    rw [this]
    cases ctx with
    | nil => rfl
    | cons y t => have := (hctx y rfl).2; simp [this]
  simp only [hemp, Bool.false_and, Bool.false_eq_true, if_false, accDigits_eq _ _ _ hfit, hp]
  cases sg <;> simp [Sign.apply]

/-- **`parseInternal_int`**: an integer token followed by the end of the buffer or by a byte that
    is not whitespace, not a comment, not a digit and not '.', — e.g. any delimiter — is an
    `Integer` (the reference look-ahead fails at its first step). -/
theorem parseInternal_int (el : Elem) (cur : Nat) (sg : Sign) (ds ctx : Bytes) (hne : ds ≠ [])
    (hds : ∀ y ∈ ds, isDigit y = true)
    (hctx : ∀ y, ctx.head? = some y → isDigit y = false ∧ y ≠ 46 ∧ isWsEol y = false ∧ y ≠ 37)
    (hfit : digitsVal ds 0 ≤ i64Max) :
    parseInternal el cur (sg.bytes ++ ds ++ ctx) 0 =
      ((.ok (.int (sg.apply (digitsVal ds 0))), sg.bytes.length + ds.length), cur) := by
  have h128 : digitsVal ds 0 ≤ i128Max := by
    have : i64Max ≤ i128Max := by decide
    omega
  -- the first byte is a sign or a digit
  obtain ⟨c0, hc0, hcls⟩ : ∃ c0, peek (sg.bytes ++ ds ++ ctx) 0 = some c0 ∧
      (isDigit c0 = true ∨ c0 = 45 ∨ c0 = 43) := by
    cases sg with
    | none =>
      cases ds with
      | nil => exact absurd rfl hne
      | cons d t => exact ⟨d, rfl, Or.inl (hds d (List.mem_cons_self))⟩
    | plus => exact ⟨43, rfl, Or.inr (Or.inr rfl)⟩
    | minus => exact ⟨45, rfl, Or.inr (Or.inl rfl)⟩
  have hdisp : ∀ c0 : UInt8, (isDigit c0 = true ∨ c0 = 45 ∨ c0 = 43) →
      (c0 == 116 || c0 == 102) = false ∧ (c0 == 110) = false ∧ (c0 == 40) = false ∧ (c0 == 37) = false ∧
      (c0 == 47) = false ∧ (c0 == 91) = false ∧ (c0 == 60) = false ∧
      (!(isDigit c0 || c0 == 45 || c0 == 43 || c0 == 46)) = false := by
    intro c0 h
    rcases h with h | h | h
    · simp only [isDigit, Bool.and_eq_true, decide_eq_true_eq] at h
      have h1 := h.1; have h2 := h.2
      refine ⟨?_, ?_, ?_, ?_, ?_, ?_, ?_, ?_⟩ <;>
        first
          | (simp only [isDigit, h1, h2, decide_true, Bool.and_self, Bool.true_or, Bool.not_true])
          | (apply Bool.eq_false_iff.mpr; intro hh
             simp only [Bool.or_eq_true, beq_iff_eq] at hh
             first
               | (rcases hh with hh | hh <;> (subst hh; revert h1 h2; decide))
               | (subst hh; revert h1 h2; decide))
    · subst h; decide
    · subst h; decide
  obtain ⟨d1, d2, d3, d4, d5, d6, d7, d8⟩ := hdisp c0 hcls
  unfold parseInternal
  simp only [hc0, d1, d2, d3, d4, d5, d6, d7, d8, Bool.false_eq_true, if_false]
  unfold numberOrRef
  rw [real_nodot_spec sg ds ctx hne hds (fun y hy => ⟨(hctx y hy).1, (hctx y hy).2.1⟩) h128]
  simp only
  have hrange : (!((1 : Nat) == 1 && decide (-(2 ^ 63 : Int) ≤ sg.apply (digitsVal ds 0)) &&
      decide (sg.apply (digitsVal ds 0) ≤ (2 ^ 63 - 1 : Int)))) = false := by
    have e63 : (2 : Int) ^ 63 = 9223372036854775808 := by decide
    have : (digitsVal ds 0 : Int) ≤ 9223372036854775807 := by
      have h := hfit; unfold i64Max at h; omega
    cases sg <;> simp [Sign.apply, e63] <;> omega
  simp only [hrange, Bool.false_eq_true, if_false]
  -- the look-ahead: no whitespace follows
  have hws : wsEOL false (sg.bytes ++ ds ++ ctx) (sg.bytes.length + ds.length) =
      (.err .guard, sg.bytes.length + ds.length) := by
    rw [wsEOL_eq false _ _ (by simp)]
    have hd : (sg.bytes ++ ds ++ ctx).drop (sg.bytes.length + ds.length) = ctx := by
      have : sg.bytes.length + ds.length = (sg.bytes ++ ds).length := by simp
      rw [this, List.drop_left]
    rw [hd]
    have : skipWs ctx = 0 := by
      cases ctx with
      | nil => rfl
      | cons y t =>
        have := hctx y rfl
        simp [skipWs, this.2.2.1, this.2.2.2]
    simp [this]
  rw [hws]

/-- **`spell_parse_int`**: every spelling of an integer in the i64 range (sign, leading zeros),
    after any whitespace/comment run, followed by the end of the buffer or a delimiter-like byte,
    parses through `parse_pdf_obj` to exactly that integer. -/
theorem spell_parse_int (c : Depth) (hc : c.cur < c.max) (lead : Bytes) (hlead : WsRun lead)
    (sg : Sign) (ds ctx : Bytes) (hne : ds ≠ []) (hds : ∀ y ∈ ds, isDigit y = true)
    (hctx : ∀ y, ctx.head? = some y → isDigit y = false ∧ y ≠ 46 ∧ isWsEol y = false ∧ y ≠ 37)
    (hfit : digitsVal ds 0 ≤ i64Max) :
    parseObj c (lead ++ (sg.bytes ++ ds ++ ctx)) 0 =
      ((.ok ⟨.int (sg.apply (digitsVal ds 0)), lead.length, lead.length + (sg.bytes.length + ds.length)⟩,
        lead.length + (sg.bytes.length + ds.length)), c) := by
  apply parseObj_token c hc lead _ hlead
  · intro y hy
    cases sg with
    | none =>
      cases ds with
      | nil => exact absurd rfl hne
      | cons d t =>
        simp only [Sign.bytes, List.nil_append, List.cons_append, List.head?_cons, Option.some.injEq] at hy
        subst hy
        exact digit_not_ws _ (hds _ (List.mem_cons_self))
    | plus => simp [Sign.bytes] at hy; subst hy; decide
    | minus => simp [Sign.bytes] at hy; subst hy; decide
  · exact parseInternal_int _ _ sg ds ctx hne hds hctx hfit

/-- first-byte dispatch facts for a byte that starts a number -/
theorem number_first_byte (c0 : UInt8) (h : isDigit c0 = true ∨ c0 = 45 ∨ c0 = 43 ∨ c0 = 46) :
    (c0 == 116 || c0 == 102) = false ∧ (c0 == 110) = false ∧ (c0 == 40) = false ∧ (c0 == 37) = false ∧
    (c0 == 47) = false ∧ (c0 == 91) = false ∧ (c0 == 60) = false ∧
    (!(isDigit c0 || c0 == 45 || c0 == 43 || c0 == 46)) = false ∧ isWsEol c0 = false ∧ c0 ≠ 37 := by
  have key : ∀ n : Fin 256, (isDigit (UInt8.ofNat n.val) = true ∨ UInt8.ofNat n.val = 45 ∨ UInt8.ofNat n.val = 43 ∨
      UInt8.ofNat n.val = 46) →
      ((UInt8.ofNat n.val == 116 || UInt8.ofNat n.val == 102) = false ∧ (UInt8.ofNat n.val == 110) = false ∧
       (UInt8.ofNat n.val == 40) = false ∧ (UInt8.ofNat n.val == 37) = false ∧
       (UInt8.ofNat n.val == 47) = false ∧ (UInt8.ofNat n.val == 91) = false ∧ (UInt8.ofNat n.val == 60) = false ∧
       (!(isDigit (UInt8.ofNat n.val) || UInt8.ofNat n.val == 45 || UInt8.ofNat n.val == 43 ||
          UInt8.ofNat n.val == 46)) = false ∧ isWsEol (UInt8.ofNat n.val) = false ∧ UInt8.ofNat n.val ≠ 37) := by
    decide +kernel
  have := key ⟨c0.toNat, c0.toNat_lt⟩
  simp only [UInt8.ofNat_toNat] at this
  exact this h

/-- **`parseInternal_real`**: sign, digits, '.', at least one fraction digit, then anything that
    does not continue the digits: a `Real` with numerator = all the digits, denominator = 10^k. -/
theorem parseInternal_real (el : Elem) (cur : Nat) (sg : Sign) (ds fs ctx : Bytes) (hfne : fs ≠ [])
    (hds : ∀ y ∈ ds, isDigit y = true) (hfs : ∀ y ∈ fs, isDigit y = true)
    (hctx : ∀ y, ctx.head? = some y → isDigit y = false)
    (hfit : digitsVal (ds ++ fs) 0 ≤ i128Max) (hden : 10 ^ fs.length ≤ i128Max) :
    parseInternal el cur (sg.bytes ++ ds ++ [46] ++ fs ++ ctx) 0 =
      ((.ok (.real (sg.apply (digitsVal (ds ++ fs) 0)) (10 ^ fs.length)),
        sg.bytes.length + ds.length + 1 + fs.length), cur) := by
  obtain ⟨c0, hc0, hcls⟩ : ∃ c0, peek (sg.bytes ++ ds ++ [46] ++ fs ++ ctx) 0 = some c0 ∧
      (isDigit c0 = true ∨ c0 = 45 ∨ c0 = 43 ∨ c0 = 46) := by
    cases sg with
    | none =>
      cases ds with
      | nil => exact ⟨46, rfl, Or.inr (Or.inr (Or.inr rfl))⟩
      | cons d t => exact ⟨d, rfl, Or.inl (hds d (List.mem_cons_self))⟩
    | plus => exact ⟨43, rfl, Or.inr (Or.inr (Or.inl rfl))⟩
    | minus => exact ⟨45, rfl, Or.inr (Or.inl rfl)⟩
  obtain ⟨d1, d2, d3, d4, d5, d6, d7, d8, -, -⟩ := number_first_byte c0 hcls
  unfold parseInternal
  simp only [hc0, d1, d2, d3, d4, d5, d6, d7, d8, Bool.false_eq_true, if_false]
  unfold numberOrRef
  rw [real_spec sg ds fs ctx hds hfs hctx hfit hden]
  simp only
  have hk : 1 ≤ fs.length := List.length_pos_iff.mpr hfne
  have hd1 : ((10 ^ fs.length == 1) = false) := by
    have : 10 ≤ 10 ^ fs.length := by
      calc 10 = 10 ^ 1 := by decide
        _ ≤ 10 ^ fs.length := Nat.pow_le_pow_right (by decide) hk
    simp; omega
  simp [hd1]

/-- **`spell_parse_real`**: every spelling of a real with at least one fraction digit. -/
theorem spell_parse_real (c : Depth) (hc : c.cur < c.max) (lead : Bytes) (hlead : WsRun lead)
    (sg : Sign) (ds fs ctx : Bytes) (hfne : fs ≠ [])
    (hds : ∀ y ∈ ds, isDigit y = true) (hfs : ∀ y ∈ fs, isDigit y = true)
    (hctx : ∀ y, ctx.head? = some y → isDigit y = false)
    (hfit : digitsVal (ds ++ fs) 0 ≤ i128Max) (hden : 10 ^ fs.length ≤ i128Max) :
    parseObj c (lead ++ (sg.bytes ++ ds ++ [46] ++ fs ++ ctx)) 0 =
      ((.ok ⟨.real (sg.apply (digitsVal (ds ++ fs) 0)) (10 ^ fs.length), lead.length,
          lead.length + (sg.bytes.length + ds.length + 1 + fs.length)⟩,
        lead.length + (sg.bytes.length + ds.length + 1 + fs.length)), c) := by
  apply parseObj_token c hc lead _ hlead
  · intro y hy
    have hcls : isDigit y = true ∨ y = 45 ∨ y = 43 ∨ y = 46 := by
      cases sg with
      | none =>
        cases ds with
        | nil => simp [Sign.bytes] at hy; exact Or.inr (Or.inr (Or.inr hy.symm))
        | cons d t =>
          simp [Sign.bytes] at hy; subst hy; exact Or.inl (hds _ (List.mem_cons_self))
      | plus => simp [Sign.bytes] at hy; exact Or.inr (Or.inr (Or.inl hy.symm))
      | minus => simp [Sign.bytes] at hy; exact Or.inr (Or.inl hy.symm)
    have := number_first_byte y hcls
    exact ⟨this.2.2.2.2.2.2.2.2.1, this.2.2.2.2.2.2.2.2.2⟩
  · exact parseInternal_real _ _ sg ds fs ctx hfne hds hfs hctx hfit hden

/-! ## the reference look-ahead, in general -/

/-- the dispatcher's look-ahead after a first integer ending at `j`: non-empty whitespace, an
    integer, non-empty whitespace, `R` ending its token -/
def lookAhead (s : Bytes) (j : Nat) : Bool :=
  match wsEOL false s j with
  | (.ok _, j1) =>
    match integerP s j1 with
    | (.ok _, j2) =>
      match wsEOL false s j2 with
      | (.ok _, j3) => startsWith [82] s j3 && !((peek s (j3 + 1)).any isRegular)
      | _ => false
    | _ => false
  | _ => false

theorem wsEOL_cases (e : Bool) (s : Bytes) (j : Nat) (hj : j ≤ s.length) :
    (∃ u j1, wsEOL e s j = (.ok u, j1) ∧ j1 ≤ s.length) ∨ (∃ k, wsEOL e s j = (.err k, j)) := by
  have p := wsEOL_progress e s j hj
  cases h : wsEOL e s j with
  | mk r j1 =>
    rw [h] at p
    cases r with
    | ok u => exact Or.inl ⟨u, j1, rfl, p.2.1⟩
    | err k => have : j1 = j := p; subst this; exact Or.inr ⟨k, rfl⟩
    | panic q => exact p.elim

theorem integerP_cases (s : Bytes) (j : Nat) (hj : j ≤ s.length) :
    (∃ g j2, integerP s j = (.ok g, j2) ∧ j2 ≤ s.length) ∨ (∃ k, integerP s j = (.err k, j)) := by
  have p := integerP_progress s j hj
  cases h : integerP s j with
  | mk r j2 =>
    rw [h] at p
    cases r with
    | ok g => exact Or.inl ⟨g, j2, rfl, p.2.2.2⟩
    | err k => have : j2 = j := p; subst this; exact Or.inr ⟨k, rfl⟩
    | panic q => exact p.elim

/-- **the number branch, characterised**: after an in-range integer-valued `RealP` result ending
    at `j`, the dispatcher returns that integer with cursor `j` unless the look-ahead succeeds,
    in which case it re-parses from the start as a reference. -/
theorem numberOrRef_after_int (s : Bytes) (i j : Nat) (n : Int) (hs : i ≤ s.length)
    (hr : realP s i = (.ok ⟨(n, 1), i, j⟩, j))
    (hn : -(2 ^ 63 : Int) ≤ n ∧ n ≤ (2 ^ 63 - 1 : Int)) :
    numberOrRef s i =
      if lookAhead s j then
        (match referenceP s i with
          | (.ok (a, g), j4) => (.ok (.ref a g), j4)
          | (.err k, j4) => (.err k, j4)
          | (.panic p, j4) => (.panic p, j4))
      else (.ok (.int n), j) := by
  have hj : j ≤ s.length := by
    have := Parsley.C15.realP_loc s i hs; rw [hr] at this; exact this.2.2.2
  unfold numberOrRef lookAhead
  rw [hr]
  simp only
  have hrange : (!((1 : Nat) == 1 && decide (-(2 ^ 63 : Int) ≤ n) && decide (n ≤ (2 ^ 63 - 1 : Int)))) = false := by
    have e63 : (2 : Int) ^ 63 = 9223372036854775808 := by decide
    rw [e63] at hn
    simp
    omega
  simp only [hrange, Bool.false_eq_true, if_false]
  rcases wsEOL_cases false s j hj with ⟨u, j1, h1, hj1⟩ | ⟨k, h1⟩
  · simp only [h1]
    rcases integerP_cases s j1 hj1 with ⟨g, j2, h2, hj2⟩ | ⟨k, h2⟩
    · simp only [h2]
      rcases wsEOL_cases false s j2 hj2 with ⟨u2, j3, h3, hj3⟩ | ⟨k, h3⟩
      · simp only [h3]
        split
        · cases referenceP s i with
          | mk r j4 =>
            cases r with
            | ok v => obtain ⟨a, g'⟩ := v; rfl
            | err k => rfl
            | panic q => rfl
        · rfl
      · simp [h3]
    · simp [h2]
  · simp [h1]

/-- no look-ahead when the integer is not followed by whitespace -/
theorem lookAhead_false_of_no_ws (s : Bytes) (j : Nat) (hj : j ≤ s.length) (h : skipWs (s.drop j) = 0) :
    lookAhead s j = false := by
  unfold lookAhead
  rw [wsEOL_eq false s j hj]
  simp [h]

/-! ## references -/

/-- whitespace at an offset: a whitespace run followed by something that is neither -/
theorem ws_at (e : Bool) (pre lead rest : Bytes) (hlead : WsRun lead)
    (hrest : ∀ b, rest.head? = some b → isWsEol b = false ∧ b ≠ 37) (hne : lead ≠ [] ∨ e = true) :
    wsEOL e (pre ++ (lead ++ rest)) pre.length =
      (.ok ⟨(), pre.length, pre.length + lead.length⟩, pre.length + lead.length) := by
  have h := Parsley.Shift.wsEOL_pre pre (lead ++ rest) 0 e
  simp only [Nat.add_zero] at h
  rw [h, wsEOL_eq e _ 0 (Nat.zero_le _)]
  simp only [List.drop_zero, skipWs_run lead rest hlead hrest, Nat.zero_add]
  have : ((lead.length == 0) && !e) = false := by
    rcases hne with h | h
    · have : lead.length ≠ 0 := by intro hh; exact h (List.length_eq_zero_iff.mp hh)
      simp [this]
    · simp [h]
  simp [this, Parsley.Shift.shift]

/-- an unsigned integer token at an offset -/
theorem int_at (pre ds ctx : Bytes) (hne : ds ≠ []) (hds : ∀ y ∈ ds, isDigit y = true)
    (hctx : ∀ y, ctx.head? = some y → isDigit y = false) (hfit : digitsVal ds 0 ≤ i64Max) :
    integerP (pre ++ (ds ++ ctx)) pre.length =
      (.ok ⟨(digitsVal ds 0 : Int), pre.length, pre.length + ds.length⟩, pre.length + ds.length) := by
  have h := Parsley.Shift.integerP_pre pre (ds ++ ctx) 0
  simp only [Nat.add_zero] at h
  have hs := integer_spec .none ds ctx hne hds hctx
  simp only [Sign.bytes, List.nil_append, List.length_nil, Nat.zero_add, hfit, if_true, Sign.apply] at hs
  rw [h, hs]
  simp [Parsley.Shift.shift]

theorem wsRun_head_not (w rest : Bytes) (hw : WsRun w) (hne : w ≠ []) :
    ∀ y, (w ++ rest).head? = some y → isDigit y = false ∧ y ≠ 46 := by
  intro y hy
  cases hw with
  | nil => exact absurd rfl hne
  | ws b t hb _ =>
    simp at hy; subst hy
    have key : ∀ n : Fin 256, isWsEol (UInt8.ofNat n.val) = true →
        isDigit (UInt8.ofNat n.val) = false ∧ UInt8.ofNat n.val ≠ 46 := by decide +kernel
    have := key ⟨b.toNat, b.toNat_lt⟩
    simp only [UInt8.ofNat_toNat] at this
    exact this hb
  | comment body t _ _ => simp at hy; subst hy; decide

theorem digits_head_not_ws (ds rest : Bytes) (hne : ds ≠ []) (hds : ∀ y ∈ ds, isDigit y = true) :
    ∀ b, (ds ++ rest).head? = some b → isWsEol b = false ∧ b ≠ 37 := by
  intro b hb
  cases ds with
  | nil => exact absurd rfl hne
  | cons d t => simp at hb; subst hb; exact digit_not_ws _ (hds _ (List.mem_cons_self))

/-- **`reference_spec`**: digits, non-empty whitespace, digits, non-empty whitespace, `R`, then the
    end of the buffer or a non-regular byte: the number branch of the dispatcher returns the
    reference and stops just after the `R`. -/
theorem reference_spec (ds1 w1 ds2 w2 ctx : Bytes)
    (h1ne : ds1 ≠ []) (h1 : ∀ y ∈ ds1, isDigit y = true) (f1 : digitsVal ds1 0 ≤ i64Max)
    (h2ne : ds2 ≠ []) (h2 : ∀ y ∈ ds2, isDigit y = true) (f2 : digitsVal ds2 0 ≤ i64Max)
    (hw1 : WsRun w1) (hw1ne : w1 ≠ []) (hw2 : WsRun w2) (hw2ne : w2 ≠ [])
    (hctx : ∀ y, ctx.head? = some y → isRegular y = false) :
    numberOrRef (ds1 ++ (w1 ++ (ds2 ++ (w2 ++ (82 :: ctx))))) 0 =
      (.ok (.ref (digitsVal ds1 0) (digitsVal ds2 0)),
        ds1.length + w1.length + ds2.length + w2.length + 1) := by
  -- abbreviations for the tails
  let t4 := 82 :: ctx
  let t3 := w2 ++ t4
  let t2 := ds2 ++ t3
  let t1 := w1 ++ t2
  have e63 : (2 : Int) ^ 63 = 9223372036854775808 := by decide
  have hR : ∀ b, t4.head? = some b → isWsEol b = false ∧ b ≠ 37 := by
    intro b hb; simp [t4] at hb; subst hb; decide
  have hRd : ∀ y, t4.head? = some y → isDigit y = false := by
    intro b hb; simp [t4] at hb; subst hb; decide
  -- first number as a real
  have hreal : realP (ds1 ++ t1) 0 = (.ok ⟨((digitsVal ds1 0 : Int), 1), 0, ds1.length⟩, ds1.length) := by
    have := real_nodot_spec .none ds1 t1 h1ne h1 (wsRun_head_not w1 t2 hw1 hw1ne)
      (by have : i64Max ≤ i128Max := by decide
          omega)
    simpa [Sign.bytes, Sign.apply] using this
  have hrange : -(2 ^ 63 : Int) ≤ (digitsVal ds1 0 : Int) ∧ (digitsVal ds1 0 : Int) ≤ (2 ^ 63 - 1 : Int) := by
    rw [e63]; unfold i64Max at f1; omega
  rw [numberOrRef_after_int (ds1 ++ t1) 0 ds1.length _ (Nat.zero_le _) hreal hrange]
  -- the pieces, each at its offset
  have a1 : wsEOL false (ds1 ++ t1) ds1.length = (.ok ⟨(), ds1.length, ds1.length + w1.length⟩, ds1.length + w1.length) :=
    ws_at false ds1 w1 t2 hw1 (digits_head_not_ws ds2 t3 h2ne h2) (Or.inl hw1ne)
  have a1' : wsEOL true (ds1 ++ t1) ds1.length = (.ok ⟨(), ds1.length, ds1.length + w1.length⟩, ds1.length + w1.length) :=
    ws_at true ds1 w1 t2 hw1 (digits_head_not_ws ds2 t3 h2ne h2) (Or.inl hw1ne)
  have a2 : integerP (ds1 ++ t1) (ds1.length + w1.length) =
      (.ok ⟨(digitsVal ds2 0 : Int), ds1.length + w1.length, ds1.length + w1.length + ds2.length⟩,
        ds1.length + w1.length + ds2.length) := by
    have := int_at (ds1 ++ w1) ds2 t3 h2ne h2 (fun y hy => (wsRun_head_not w2 t4 hw2 hw2ne y hy).1) f2
    simpa [List.append_assoc, t1, t2, Nat.add_assoc] using this
  have a3 : ∀ e, wsEOL e (ds1 ++ t1) (ds1.length + w1.length + ds2.length) =
      (.ok ⟨(), ds1.length + w1.length + ds2.length, ds1.length + w1.length + ds2.length + w2.length⟩,
        ds1.length + w1.length + ds2.length + w2.length) := by
    intro e
    have := ws_at e (ds1 ++ w1 ++ ds2) w2 t4 hw2 hR (Or.inl hw2ne)
    simpa [List.append_assoc, t1, t2, t3, Nat.add_assoc] using this
  have hdrop : (ds1 ++ t1).drop (ds1.length + w1.length + ds2.length + w2.length) = t4 := by
    have : ds1 ++ t1 = (ds1 ++ w1 ++ ds2 ++ w2) ++ t4 := by simp [t1, t2, t3, List.append_assoc]
    rw [this]
    have hl : ds1.length + w1.length + ds2.length + w2.length = (ds1 ++ w1 ++ ds2 ++ w2).length := by
      simp [Nat.add_assoc]
    rw [hl, List.drop_left]
  have a4 : startsWith [82] (ds1 ++ t1) (ds1.length + w1.length + ds2.length + w2.length) = true := by
    unfold startsWith; rw [hdrop]; simp [t4, List.isPrefixOf]
  have a5 : (peek (ds1 ++ t1) (ds1.length + w1.length + ds2.length + w2.length + 1)).any isRegular = false := by
    have : peek (ds1 ++ t1) (ds1.length + w1.length + ds2.length + w2.length + 1) = ctx.head? := by
      unfold peek
      rw [← List.head?_drop, ← List.drop_drop, hdrop]
      simp [t4]
    rw [this]
    cases hc : ctx.head? with
    | none => rfl
    | some y => simp [hctx y hc]
  have hla : lookAhead (ds1 ++ t1) ds1.length = true := by
    unfold lookAhead
    simp only [a1, a2, a3 false, a4, a5]
    rfl
  simp only [hla, if_true]
  -- ReferenceP from the start
  have b1 : integerP (ds1 ++ t1) 0 = (.ok ⟨(digitsVal ds1 0 : Int), 0, ds1.length⟩, ds1.length) := by
    have := int_at [] ds1 t1 h1ne h1 (fun y hy => (wsRun_head_not w1 t2 hw1 hw1ne y hy).1) f1
    simpa using this
  have hex : exact [82] (ds1 ++ t1) (ds1.length + w1.length + ds2.length + w2.length) =
      (true, ds1.length + w1.length + ds2.length + w2.length + 1) := by
    unfold exact; simp [a4]
  unfold referenceP
  simp only [b1, isUsize, a1', a2, a3 true, hex]
  simp

/-- the dispatcher reaches the number branch on any byte that starts a number -/
theorem parseInternal_number (el : Elem) (cur : Nat) (s : Bytes) (c0 : UInt8) (hp : peek s 0 = some c0)
    (hcls : isDigit c0 = true ∨ c0 = 45 ∨ c0 = 43 ∨ c0 = 46) :
    parseInternal el cur s 0 = (numberOrRef s 0, cur) := by
  obtain ⟨d1, d2, d3, d4, d5, d6, d7, d8, -, -⟩ := number_first_byte c0 hcls
  unfold parseInternal
  simp only [hp, d1, d2, d3, d4, d5, d6, d7, d8, Bool.false_eq_true, if_false]

/-- **`spell_parse_ref`**: `n ws⁺ g ws⁺ R` (any non-empty whitespace/comment runs, leading zeros
    allowed), after any whitespace run, before the end of the buffer or a non-regular byte. -/
theorem spell_parse_ref (c : Depth) (hc : c.cur < c.max) (lead : Bytes) (hlead : WsRun lead)
    (ds1 w1 ds2 w2 ctx : Bytes)
    (h1ne : ds1 ≠ []) (h1 : ∀ y ∈ ds1, isDigit y = true) (f1 : digitsVal ds1 0 ≤ i64Max)
    (h2ne : ds2 ≠ []) (h2 : ∀ y ∈ ds2, isDigit y = true) (f2 : digitsVal ds2 0 ≤ i64Max)
    (hw1 : WsRun w1) (hw1ne : w1 ≠ []) (hw2 : WsRun w2) (hw2ne : w2 ≠ [])
    (hctx : ∀ y, ctx.head? = some y → isRegular y = false) :
    parseObj c (lead ++ (ds1 ++ (w1 ++ (ds2 ++ (w2 ++ (82 :: ctx)))))) 0 =
      ((.ok ⟨.ref (digitsVal ds1 0) (digitsVal ds2 0), lead.length,
          lead.length + (ds1.length + w1.length + ds2.length + w2.length + 1)⟩,
        lead.length + (ds1.length + w1.length + ds2.length + w2.length + 1)), c) := by
  obtain ⟨d, t, hd⟩ : ∃ d t, ds1 = d :: t := by
    cases ds1 with
    | nil => exact absurd rfl h1ne
    | cons d t => exact ⟨d, t, rfl⟩
  have hdd : isDigit d = true := h1 d (by rw [hd]; exact List.mem_cons_self)
  apply parseObj_token c hc lead _ hlead
  · intro y hy
    rw [hd] at hy; simp at hy; subst hy
    exact digit_not_ws _ hdd
  · rw [parseInternal_number _ _ _ d (by rw [hd]; rfl) (Or.inl hdd)]
    rw [reference_spec ds1 w1 ds2 w2 ctx h1ne h1 f1 h2ne h2 f2 hw1 hw1ne hw2 hw2ne hctx]
