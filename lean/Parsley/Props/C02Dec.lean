/-
  C02 — number tokens WITH a decimal point, of ANY size: the object parser computes `DecLit.denote`.

  `real_spec` / `spell_parse_real` (Props/C02.lean) cover  [sign] ds . fs  whenever numerator and
  denominator fit an i128.  Here the rest of the token space: `RealP` has three more "numerical
  overflow" exits inside the fraction loop (numerator `checked_mul`, numerator `checked_add`,
  denominator `checked_mul`), reached by fractions of 39+ digits or by numerators beyond 2^127-1;
  each must fail with the cursor back at the start of the token (the C15 clause, `realP_dec_overflow`),
  and through `parse_pdf_obj` such a token is not an object.  `decimal_token_denotes` states all
  cases at once against the spec `DecLit.denote` (Spec/DecLit.lean), the oracle of the `dec`
  literals of C02's correspondence run:
    * beyond the range: a guard error, cursor unmoved,
    * at least one fraction digit: the Real (all digits, 10^k), whatever follows,
    * no fraction digit (`12.`): the Integer inside i64 (the point is consumed), the Real value/1
      outside.
-/
import Parsley.Props.C02Wide
import Parsley.Spec.DecLit
namespace Parsley.C02
open Parsley Parsley.Prim Parsley.Obj Parsley.Spelling

theorem decVal_eq (ds : Bytes) : DecLit.decVal ds = digitsVal ds 0 := rfl

/-- the fraction loop fails as soon as the numerator or the denominator leaves the range -/
theorem accFrac_overflow (limit : Nat) (fs : Bytes) (n d : Nat) (hn : n ≤ limit) (hd : d ≤ limit)
    (h : limit < digitsVal fs n ∨ limit < d * 10 ^ fs.length) : accFrac limit fs n d = none := by
  induction fs generalizing n d with
  | nil => simp [digitsVal] at h; omega
  | cons c t ih =>
    unfold accFrac
    split
    · rfl
    · split
      · rfl
      · split
        · rfl
        · apply ih _ _ (by omega) (by omega)
          rcases h with h | h
          · left
            simpa only [digitsVal, List.foldl_cons] using h
          · right
            simp only [List.length_cons, Nat.pow_succ] at h
            have e : d * 10 * 10 ^ t.length = d * (10 ^ t.length * 10) := by
              rw [Nat.mul_assoc, Nat.mul_comm 10]
            omega

/-- the sign prefix of `[sign] ds . …` -/
theorem signPrefix_dot (sg : Sign) (ds rest : Bytes) (hds : ∀ y ∈ ds, isDigit y = true) :
    signPrefix (sg.bytes ++ ds ++ [46] ++ rest) 0 = (decide (sg = .minus), sg.bytes.length) := by
  have : sg.bytes ++ ds ++ [46] ++ rest = sg.bytes ++ (ds ++ [46] ++ rest) := by simp [List.append_assoc]
  rw [this]
  apply signPrefix_spec
  intro y hy
  cases ds with
  | nil =>
    simp at hy; subst hy; decide
  | cons d t =>
    simp only [List.cons_append, List.head?_cons, Option.some.injEq] at hy
    subst hy
    have := hds d (List.mem_cons_self)
    simp only [isDigit, Bool.and_eq_true, decide_eq_true_eq] at this
    constructor
    · intro h; subst h; exact absurd this.1 (by decide)
    · intro h; subst h; exact absurd this.1 (by decide)

/-- **`realP_dec_overflow`**: `RealP` on sign ++ digits ++ '.' ++ digits ++ context when the number
    written by all the digits, or the power of ten of the fraction length, leaves the i128 range:
    numerical overflow, and the cursor is back where the parser started - at every one of the
    overflow exits (integer part MUL/ADD, fraction numerator MUL/ADD, denominator MUL). -/
theorem realP_dec_overflow (sg : Sign) (ds fs ctx : Bytes)
    (hds : ∀ y ∈ ds, isDigit y = true) (hfs : ∀ y ∈ fs, isDigit y = true)
    (hctx : ∀ y, ctx.head? = some y → isDigit y = false)
    (hbig : i128Max < digitsVal (ds ++ fs) 0 ∨ i128Max < 10 ^ fs.length) :
    realP (sg.bytes ++ ds ++ [46] ++ fs ++ ctx) 0 = (.err .guard, 0) := by
  unfold realP
  have hs : signPrefix (sg.bytes ++ ds ++ [46] ++ fs ++ ctx) 0 = (decide (sg = .minus), sg.bytes.length) := by
    have := signPrefix_dot sg ds (fs ++ ctx) hds
    simpa [List.append_assoc] using this
  rw [hs]
  simp only
  have ha : allowed isDigit (sg.bytes ++ ds ++ [46] ++ fs ++ ctx) sg.bytes.length = (ds, sg.bytes.length + ds.length) := by
    have := allowed_append isDigit sg.bytes ds ([46] ++ fs ++ ctx) hds (by intro y hy; simp at hy; subst hy; decide)
    simpa [List.append_assoc] using this
  rw [ha]
  simp only
  have hp : peek (sg.bytes ++ ds ++ [46] ++ fs ++ ctx) (sg.bytes.length + ds.length) = some 46 := by
    have := peek_append (sg.bytes ++ ds) ([46] ++ fs ++ ctx)
    simp only [List.length_append] at this
    simpa [List.append_assoc] using this
  simp only [hp, bne_self_eq_false, Bool.and_false, Bool.false_eq_true, if_false, beq_self_eq_true, if_true]
  by_cases hfit1 : digitsVal ds 0 ≤ i128Max
  · rw [accDigits_eq _ _ _ hfit1]
    simp only
    have hb : allowed isDigit (sg.bytes ++ ds ++ [46] ++ fs ++ ctx) (sg.bytes.length + ds.length + 1) =
        (fs, sg.bytes.length + ds.length + 1 + fs.length) := by
      have := allowed_append isDigit (sg.bytes ++ ds ++ [46]) fs ctx hfs hctx
      simp only [List.length_append, List.length_cons, List.length_nil] at this
      exact this
    rw [hb]
    simp only
    rw [accFrac_overflow _ _ _ _ hfit1 (by decide) (by
      rcases hbig with h | h
      · left; rw [← digitsVal_append]; exact h
      · right; simpa using h)]
  · rw [accDigits_overflow _ _ _ (Nat.zero_le _) (by omega)]

/-- **`numberOrRef_dec_overflow`**: such a token is not an object -/
theorem numberOrRef_dec_overflow (sg : Sign) (ds fs ctx : Bytes)
    (hds : ∀ y ∈ ds, isDigit y = true) (hfs : ∀ y ∈ fs, isDigit y = true)
    (hctx : ∀ y, ctx.head? = some y → isDigit y = false)
    (hbig : i128Max < digitsVal (ds ++ fs) 0 ∨ i128Max < 10 ^ fs.length) :
    numberOrRef (sg.bytes ++ ds ++ [46] ++ fs ++ ctx) 0 = (.err .guard, 0) := by
  unfold numberOrRef
  rw [realP_dec_overflow sg ds fs ctx hds hfs hctx hbig]

/-- the first byte of `[sign] ds . …` is a sign, a digit or the point -/
theorem decimal_head (sg : Sign) (ds rest : Bytes) (hds : ∀ y ∈ ds, isDigit y = true) :
    ∃ c0, peek (sg.bytes ++ ds ++ [46] ++ rest) 0 = some c0 ∧ (isDigit c0 = true ∨ c0 = 45 ∨ c0 = 43 ∨ c0 = 46) := by
  cases sg with
  | none =>
    cases ds with
    | nil => exact ⟨46, rfl, Or.inr (Or.inr (Or.inr rfl))⟩
    | cons d t => exact ⟨d, rfl, Or.inl (hds d (List.mem_cons_self))⟩
  | plus => exact ⟨43, rfl, Or.inr (Or.inr (Or.inl rfl))⟩
  | minus => exact ⟨45, rfl, Or.inr (Or.inl rfl)⟩

/-- `12.` : digits, a point, no fraction digit - the dispatcher reads the point-free token and
    consumes the point (context: no digit; no whitespace / comment, so that no reference look-ahead
    starts) -/
theorem parseInternal_trailing_dot (el : Elem) (cur : Nat) (sg : Sign) (ds ctx : Bytes)
    (hds : ∀ y ∈ ds, isDigit y = true)
    (hctx : ∀ y, ctx.head? = some y → isDigit y = false ∧ isWsEol y = false ∧ y ≠ 37)
    (hfit : digitsVal ds 0 ≤ i128Max) :
    parseInternal el cur (sg.bytes ++ ds ++ [46] ++ [] ++ ctx) 0 =
      match NumLit.denote (decide (sg = .minus)) (digitsVal ds 0) with
      | some v => ((.ok v, sg.bytes.length + ds.length + 1 + 0), cur)
      | none => ((.err .guard, 0), cur) := by
  obtain ⟨c0, hc0, hcls⟩ := decimal_head sg ds ([] ++ ctx) hds
  have hc0' : peek (sg.bytes ++ ds ++ [46] ++ [] ++ ctx) 0 = some c0 := by
    simpa [List.append_assoc] using hc0
  rw [parseInternal_number _ _ _ c0 hc0' hcls]
  unfold numberOrRef
  rw [real_spec sg ds [] ctx hds (by intro y hy; cases hy) (fun y hy => (hctx y hy).1)
    (by simpa using hfit) (by decide)]
  simp only [List.append_nil, List.length_nil, Nat.pow_zero]
  by_cases hin : -(2 ^ 63 : Int) ≤ sg.apply (digitsVal ds 0) ∧ sg.apply (digitsVal ds 0) ≤ (2 ^ 63 - 1 : Int)
  · rw [denote_int _ _ hfit (by rw [signed_eq_apply]; exact hin.1) (by rw [signed_eq_apply]; exact hin.2),
      signed_eq_apply]
    have hrange : (!((1 : Nat) == 1 && decide (-(2 ^ 63 : Int) ≤ sg.apply (digitsVal ds 0)) &&
        decide (sg.apply (digitsVal ds 0) ≤ (2 ^ 63 - 1 : Int)))) = false := by
      rw [decide_eq_true hin.1, decide_eq_true hin.2]; rfl
    simp only [hrange, Bool.false_eq_true, if_false]
    have hws : wsEOL false (sg.bytes ++ ds ++ [46] ++ ctx) (sg.bytes.length + ds.length + 1 + 0) =
        (.err .guard, sg.bytes.length + ds.length + 1 + 0) := by
      rw [wsEOL_eq false _ _ (by simp; omega)]
      have hd : (sg.bytes ++ ds ++ [46] ++ ctx).drop (sg.bytes.length + ds.length + 1 + 0) = ctx := by
        have : sg.bytes.length + ds.length + 1 + 0 = (sg.bytes ++ ds ++ [46]).length := by simp; omega
        rw [this, List.drop_left]
      rw [hd]
      have : skipWs ctx = 0 := by
        cases ctx with
        | nil => rfl
        | cons y t =>
          have := hctx y rfl
          simp [skipWs, this.2.1, this.2.2]
      simp [this]
    rw [hws]
  · rw [denote_real _ _ hfit (by rw [signed_eq_apply]; exact hin), signed_eq_apply]
    have hrange : (!((1 : Nat) == 1 && decide (-(2 ^ 63 : Int) ≤ sg.apply (digitsVal ds 0)) &&
        decide (sg.apply (digitsVal ds 0) ≤ (2 ^ 63 - 1 : Int)))) = true := by
      by_cases a : -(2 ^ 63 : Int) ≤ sg.apply (digitsVal ds 0) <;>
        by_cases b : sg.apply (digitsVal ds 0) ≤ (2 ^ 63 - 1 : Int)
      · exact absurd ⟨a, b⟩ hin
      · rw [decide_eq_false b]; simp
      · rw [decide_eq_false a]; simp
      · rw [decide_eq_false a]; simp
    simp only [hrange, if_true]

/-- **`decimal_token_denotes`**: on  sign ++ ds ++ '.' ++ fs ++ context  (context: end of buffer or a
    byte that is not a digit; after a token without fraction digit also not whitespace or '%') the
    dispatcher of `parse_pdf_obj` returns exactly what the spec `DecLit.denote` says the token is -
    for all digit strings, of any length: beyond the i128 range (numerator, or the power of ten of
    39+ fraction digits) it is not an object and the cursor has not moved. -/
theorem decimal_token_denotes (el : Elem) (cur : Nat) (sg : Sign) (ds fs ctx : Bytes)
    (hds : ∀ y ∈ ds, isDigit y = true) (hfs : ∀ y ∈ fs, isDigit y = true)
    (hctx : ∀ y, ctx.head? = some y → isDigit y = false ∧ (fs = [] → isWsEol y = false ∧ y ≠ 37)) :
    parseInternal el cur (sg.bytes ++ ds ++ [46] ++ fs ++ ctx) 0 =
      match DecLit.denote (decide (sg = .minus)) ds fs with
      | some v => ((.ok v, sg.bytes.length + ds.length + 1 + fs.length), cur)
      | none => ((.err .guard, 0), cur) := by
  have hctx1 : ∀ y, ctx.head? = some y → isDigit y = false := fun y hy => (hctx y hy).1
  by_cases hfit : digitsVal (ds ++ fs) 0 ≤ i128Max ∧ 10 ^ fs.length ≤ i128Max
  · have hg : (decide (DecLit.decVal (ds ++ fs) > NumLit.i128Hi) || decide (10 ^ fs.length > NumLit.i128Hi)) = false := by
      have h1 : ¬ DecLit.decVal (ds ++ fs) > NumLit.i128Hi := Nat.not_lt.mpr hfit.1
      have h2 : ¬ 10 ^ fs.length > NumLit.i128Hi := Nat.not_lt.mpr hfit.2
      simp [h1, h2]
    cases fs with
    | nil =>
      have hd : DecLit.denote (decide (sg = .minus)) ds [] = NumLit.denote (decide (sg = .minus)) (digitsVal ds 0) := by
        simp only [List.append_nil] at hg
        unfold DecLit.denote
        simp only [List.append_nil, hg, Bool.false_eq_true, if_false, List.isEmpty_nil, if_true]
        rfl
      rw [hd]
      exact parseInternal_trailing_dot el cur sg ds ctx hds
        (fun y hy => ⟨(hctx y hy).1, (hctx y hy).2 rfl⟩) (by simpa using hfit.1)
    | cons f t =>
      have hd : DecLit.denote (decide (sg = .minus)) ds (f :: t) =
          some (.real (sg.apply (digitsVal (ds ++ f :: t) 0)) (10 ^ (f :: t).length)) := by
        unfold DecLit.denote
        simp only [hg, Bool.false_eq_true, if_false, List.isEmpty_cons, signed_eq_apply]
        rfl
      rw [hd]
      exact parseInternal_real el cur sg ds (f :: t) ctx (by simp) hds hfs hctx1 hfit.1 hfit.2
  · have hbig : i128Max < digitsVal (ds ++ fs) 0 ∨ i128Max < 10 ^ fs.length := by
      by_cases h1 : digitsVal (ds ++ fs) 0 ≤ i128Max
      · right; exact Nat.lt_of_not_le (fun h2 => hfit ⟨h1, h2⟩)
      · left; exact Nat.lt_of_not_le h1
    have hd : DecLit.denote (decide (sg = .minus)) ds fs = none := by
      unfold DecLit.denote
      have hg : (decide (DecLit.decVal (ds ++ fs) > NumLit.i128Hi) || decide (10 ^ fs.length > NumLit.i128Hi)) = true := by
        rcases hbig with h | h
        · have : DecLit.decVal (ds ++ fs) > NumLit.i128Hi := h
          simp [this]
        · have : 10 ^ fs.length > NumLit.i128Hi := h
          simp [this]
      simp only [hg, if_true]
    rw [hd]
    obtain ⟨c0, hc0, hcls⟩ := decimal_head sg ds (fs ++ ctx) hds
    have hc0' : peek (sg.bytes ++ ds ++ [46] ++ fs ++ ctx) 0 = some c0 := by
      simpa [List.append_assoc] using hc0
    rw [parseInternal_number _ _ _ c0 hc0' hcls, numberOrRef_dec_overflow sg ds fs ctx hds hfs hctx1 hbig]

/-- **`spell_parse_decimal`**: the accepted tokens through `parse_pdf_obj`: after any
    whitespace/comment run, at any depth with room for one object. -/
theorem spell_parse_decimal (c : Depth) (hc : c.cur < c.max) (lead : Bytes) (hlead : WsRun lead)
    (sg : Sign) (ds fs ctx : Bytes)
    (hds : ∀ y ∈ ds, isDigit y = true) (hfs : ∀ y ∈ fs, isDigit y = true)
    (hctx : ∀ y, ctx.head? = some y → isDigit y = false ∧ (fs = [] → isWsEol y = false ∧ y ≠ 37))
    (v : Obj) (hv : DecLit.denote (decide (sg = .minus)) ds fs = some v) :
    parseObj c (lead ++ (sg.bytes ++ ds ++ [46] ++ fs ++ ctx)) 0 =
      ((.ok ⟨v, lead.length, lead.length + (sg.bytes.length + ds.length + 1 + fs.length)⟩,
        lead.length + (sg.bytes.length + ds.length + 1 + fs.length)), c) := by
  obtain ⟨c0, hc0, hcls⟩ := decimal_head sg ds (fs ++ ctx) hds
  apply parseObj_token c hc lead _ hlead
  · intro y hy
    have hp : peek (sg.bytes ++ ds ++ [46] ++ fs ++ ctx) 0 = (sg.bytes ++ ds ++ [46] ++ fs ++ ctx).head? := by
      cases (sg.bytes ++ ds ++ [46] ++ fs ++ ctx) <;> rfl
    have hc0' : peek (sg.bytes ++ ds ++ [46] ++ fs ++ ctx) 0 = some c0 := by
      simpa [List.append_assoc] using hc0
    rw [hp, hy] at hc0'
    have hyc : y = c0 := Option.some.inj hc0'
    subst hyc
    obtain ⟨-, -, -, -, -, -, -, -, h9, h10⟩ := number_first_byte y hcls
    exact ⟨h9, h10⟩
  · rw [decimal_token_denotes _ _ sg ds fs ctx hds hfs hctx, hv]

/-! ## non-vacuity: one token at each of the three fraction exits, and the last accepted ones -/

/-- numerator `checked_mul` in the fraction: `1.` + 39 zeros -/
example : realP (bs "1.000000000000000000000000000000000000000 ") 0 = (.err .guard, 0) := by decide +kernel
/-- numerator `checked_add` in the fraction: 17014118346046923173168730371588410572.8 = (2^127-1 + 1)/10 -/
example : realP (bs "17014118346046923173168730371588410572.8") 0 = (.err .guard, 0) := by decide +kernel
example : (realP (bs "17014118346046923173168730371588410572.7") 0).2 = 40 := by decide +kernel
/-- denominator `checked_mul`: 39 fraction digits after a zero numerator -/
example : realP (bs "-.000000000000000000000000000000000000000/") 0 = (.err .guard, 0) := by decide +kernel
/-- 38 fraction digits are accepted: 10^38 < 2^127 -/
example : (realP (bs "1.00000000000000000000000000000000000000") 0).2 = 40 := by decide +kernel
example : (DecLit.denote false (bs "1") (bs "000000000000000000000000000000000000000")).isNone = true := by decide +kernel
example : (DecLit.denote false (bs "1") (bs "00000000000000000000000000000000000000")).isSome = true := by decide +kernel
example : DecLit.isInt true (bs "12") [] = true := by decide +kernel
/-- the hypotheses of `decimal_token_denotes` hold for `+17014118346046923173168730371588410572.8]` (93 = `]`) -/
example : parseInternal (fun c _ i => ((.err .guard, i), c)) 1
    (Sign.plus.bytes ++ bs "17014118346046923173168730371588410572" ++ [46] ++ bs "8" ++ [93]) 0 = ((.err .guard, 0), 1) := by
  have h := decimal_token_denotes (fun c _ i => ((.err .guard, i), c)) 1 Sign.plus
    (bs "17014118346046923173168730371588410572") (bs "8") [93] (by decide +kernel) (by decide +kernel)
    (by intro y hy; cases hy; exact ⟨by decide, by intro h; exact absurd h (by decide +kernel)⟩)
  have hd : DecLit.denote (decide (Sign.plus = .minus)) (bs "17014118346046923173168730371588410572") (bs "8") = none := by
    decide +kernel
  rw [hd] at h
  exact h

end Parsley.C02
