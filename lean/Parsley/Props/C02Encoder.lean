/-
  C02 — the round trip on the EXECUTABLE encoder itself (no relational premise left).

  `spell` (Spec/Spelling.lean) is the generator of the correspondence run: it turns a value and a
  stream of encoder choices into a spelling.  Lemmas/SpellEncoder.lean proves that for every value
  in its domain `wfDeep` (Spec/SpellingWF.lean) and EVERY choice stream the output is a legal
  spelling in the sense of the relational spec (`spell_is_Spells`: scalars, references, arrays and
  dictionaries, nested to any depth).  Composed with `spell_parse` (Props/C02Struct.lean):

  * `spell_parse_encoder_canon` — parse_pdf_obj (model) on `ws ++ spell v choices ++ rest` returns
    `canon v` (the dictionaries of `v`, written in ANY entry order, as sorted maps), located at the
    spelling, cursor after its last byte, depth restored; for all `v` with `wfDeep`, all choice
    streams, all whitespace/comment runs, all contexts with `Follows`, all depths with room.
  * `spell_parse_encoder` — for `v` with sorted dictionaries (`sortedDeep`), exactly `v`.

  The exclusions of `wfDeep` are necessary: witnesses below (`*_witness`).
-/
import Parsley.Lemmas.SpellEncoder
namespace Parsley.C02
open Parsley Parsley.Prim Parsley.Obj Parsley.Spelling

/-- **`spell_parse_encoder_canon` (C02, on the executable encoder, any entry order)**: for every
    value `v` in the encoder's domain, every choice stream `ch`, every leading whitespace/comment
    run, every following context that is legal after `v` and every parser context with room for
    the nesting depth of `v`: `parse_pdf_obj` on the encoder's spelling returns the value with its
    dictionaries as sorted maps, located at the spelling, the cursor immediately after its last
    byte, the context depth unchanged. -/
theorem spell_parse_encoder_canon (v : Obj) (ch : Ch) (hwf : wfDeep v = true) (c : Depth)
    (hc : c.cur + depth v ≤ c.max) (lead : Bytes) (hlead : WsRun lead) (rest : Bytes) (hf : Follows v rest) :
    parseObj c (lead ++ ((spell v ch).1 ++ rest)) 0 =
      ((.ok ⟨canon v, lead.length, lead.length + (spell v ch).1.length⟩, lead.length + (spell v ch).1.length), c) :=
  spell_parse (spell_is_Spells v ch (depth v) hwf (Nat.le_refl _)) c hc lead hlead rest (follows_canon v rest hf)

/-- **`spell_parse_encoder` (C02, on the executable encoder)**: for every value `v` in the
    encoder's domain whose dictionaries are sorted (the `BTreeMap` form the parser produces), every
    choice stream, whitespace run, legal context and depth with room: `parse_pdf_obj` on
    `ws ++ spell v choices ++ rest` returns exactly `v`. -/
theorem spell_parse_encoder (v : Obj) (ch : Ch) (hwf : wfDeep v = true) (hsorted : sortedDeep v = true) (c : Depth)
    (hc : c.cur + depth v ≤ c.max) (lead : Bytes) (hlead : WsRun lead) (rest : Bytes) (hf : Follows v rest) :
    parseObj c (lead ++ ((spell v ch).1 ++ rest)) 0 =
      ((.ok ⟨v, lead.length, lead.length + (spell v ch).1.length⟩, lead.length + (spell v ch).1.length), c) := by
  have := spell_parse_encoder_canon v ch hwf c hc lead hlead rest hf
  rwa [canon_sorted v hsorted] at this

/-- the same anywhere in a buffer, with the encoder's own whitespace run in front (the `sp` cases
    of the driver are exactly this with `pre = []`) -/
theorem spell_parse_encoder_at (v : Obj) (ch : Ch) (hwf : wfDeep v = true) (c : Depth)
    (hc : c.cur + depth v ≤ c.max) (pre : Bytes) (k : Nat) (wch : Ch) (rest : Bytes) (hf : Follows v rest) :
    parseObj c (pre ++ ((wsRun k wch).1 ++ ((spell v ch).1 ++ rest))) pre.length =
      ((.ok ⟨canon v, pre.length + (wsRun k wch).1.length,
          pre.length + ((wsRun k wch).1.length + (spell v ch).1.length)⟩,
        pre.length + ((wsRun k wch).1.length + (spell v ch).1.length)), c) :=
  spell_parse_at (spell_is_Spells v ch (depth v) hwf (Nat.le_refl _)) c hc pre _ (wsRun_run k wch) rest
    (follows_canon v rest hf)

/-- every encoder output for a value within the depth bound is accepted at that bound (C16 side) -/
theorem encoder_within_bound_accepted (v : Obj) (ch : Ch) (hwf : wfDeep v = true) (bound : Nat)
    (hd : depth v ≤ bound) (lead : Bytes) (hlead : WsRun lead) (rest : Bytes) (hf : Follows v rest) :
    (parseObj ⟨0, bound⟩ (lead ++ ((spell v ch).1 ++ rest)) 0).1 =
      (.ok ⟨canon v, lead.length, lead.length + (spell v ch).1.length⟩, lead.length + (spell v ch).1.length) := by
  rw [spell_parse_encoder_canon v ch hwf ⟨0, bound⟩ (by simpa using hd) lead hlead rest hf]

/-- canonical form does not deepen a value (a consequence of `Spells.depth_le`: the encoder's
    spelling, extra null entries included, has spelling depth `depth v`) -/
theorem encoder_depth_le (v : Obj) (hwf : wfDeep v = true) : depth (canon v) ≤ depth v :=
  (spell_is_Spells v [] (depth v) hwf (Nat.le_refl _)).depth_le

/-! ## the generator's contexts are legal contexts -/

def isIntV : Obj → Bool
  | .int _ => true
  | _ => false

def headNonReg (c : Bytes) : Bool := match c.head? with | some y => !isRegular y | none => true

/-- every following context of the generator (`genContexts`, with ` 2 R` replaced by ` 2 RG` after
    an integer) satisfies `Follows`, for every value -/
theorem genContexts_follow (v : Obj) : ∀ ctx ∈ genContexts, Follows v (genContextFor (isIntV v) ctx) := by
  have h1 : ∀ ctx ∈ genContexts, ∀ b : Bool, headNonReg (genContextFor b ctx) = true := by decide +kernel
  have h2 : ∀ ctx ∈ genContexts, lookAhead (genContextFor true ctx) 0 = false := by decide +kernel
  intro ctx hctx
  refine ⟨fun _ y hy => ?_, fun ⟨n, hn⟩ hr => ?_⟩
  · have := h1 ctx hctx (isIntV v)
    unfold headNonReg at this
    rw [hy] at this
    simpa using this
  · subst hn
    have := refTail_lookAhead _ hr
    simp only [isIntV] at this
    rw [h2 ctx hctx] at this
    cases this

/-- the `sp` cases of the driver, as a theorem: value `v` in the domain, any choice stream, the
    encoder's own whitespace run in front, any generator context behind, any depth slack -/
theorem generator_case_parses (v : Obj) (ch wch : Ch) (k extra : Nat) (hwf : wfDeep v = true) :
    ∀ ctx ∈ genContexts,
    (parseObj ⟨0, depth v + extra⟩ ((wsRun k wch).1 ++ ((spell v ch).1 ++ genContextFor (isIntV v) ctx)) 0).1 =
      (.ok ⟨canon v, (wsRun k wch).1.length, (wsRun k wch).1.length + (spell v ch).1.length⟩,
        (wsRun k wch).1.length + (spell v ch).1.length) := by
  intro ctx hctx
  rw [spell_parse_encoder_canon v ch hwf ⟨0, depth v + extra⟩ (by simp) _ (wsRun_run k wch) _
    (genContexts_follow v ctx hctx)]

/-! ## non-vacuity -/

/-- `<</A [1 3 0 R /B null] /K <</\x01nul (\()>>>>`: nested dictionary/array/reference/name/null -/
def exV : Obj := .dict [([65], .arr [.int 1, .ref 3 0, .name [66], .null]), ([75], .dict [(nulKey, .str [40])])]
def exCh : Ch := [1,0, 1,0,0, 2,5,7, 0, 0,0, 1, 0,0,0,0, 0,0, 0,0,0, 0, 0, 1,1,1, 1, 0,0,0, 0,0,0,0,0,0,0,0,0,0,0,0,0,0,0,0,0,1,1,1,1,1,1,1,1,1,1,1]

/-- the choices exercise: whitespace and a comment after `[`, mandatory separators `1 3  0 R`, none
    before `/#42`, a `#hh` key, the extra entry `/#01nul null` in front of the very key `\x01nul`
    (legal: it is the last written key), a hexadecimal string with embedded whitespace and the
    odd-digit shorthand: `<< /A\n[\f%c\n1 3  0 R/#42\nnull] /#4b <</#01nul null\n/#01#6e#75#6c\n<2 8>\n\n>>>>` -/
example : (spell exV exCh).1 =
    [60, 60, 32, 47, 65, 10, 91, 12, 37, 99, 10, 49, 32, 51, 32, 32, 48, 32, 82, 47, 35, 52, 50, 10, 110, 117, 108,
     108, 93, 32, 47, 35, 52, 98, 32, 60, 60, 47, 35, 48, 49, 110, 117, 108, 32, 110, 117, 108, 108, 10, 47, 35, 48,
     49, 35, 54, 101, 35, 55, 53, 35, 54, 99, 10, 60, 50, 32, 56, 62, 10, 10, 62, 62, 62, 62] := by decide +kernel

example : parseObj ⟨2, 5⟩ ([13, 10] ++ ((spell exV exCh).1 ++ [32, 50, 32, 82])) 0 =
    ((.ok ⟨exV, 2, 2 + (spell exV exCh).1.length⟩, 2 + (spell exV exCh).1.length), ⟨2, 5⟩) :=
  spell_parse_encoder exV exCh (by decide) (by decide) ⟨2, 5⟩ (by decide) [13, 10]
    (WsRun.ws 13 _ (by decide) ws10) [32, 50, 32, 82]
    ⟨fun h => by simp [exV, endsReg] at h, fun ⟨n, h⟩ => by simp [exV] at h⟩

/-- entry order is free: the same entries written in the other order denote the same value -/
def exVrev : Obj := .dict [([75], .dict [(nulKey, .str [40])]), ([65], .arr [.int 1, .ref 3 0, .name [66], .null])]
example : wfDeep exVrev = true ∧ sortedDeep exVrev = false := by decide
theorem exVrev_canon : canon exVrev = exV := by rfl

/-! ## the exclusions of `wfDeep` are necessary -/

theorem int1 : Spells 1 (.int 1) [49] := Spells.int 0 .none [49] (by simp) (by decide) (by decide)

/-- a repeated key: the encoder writes `<</#41 1/#41 2>>`, which the parser rejects -/
def vDup : Obj := .dict [([65], .int 1), ([65], .int 2)]
theorem dup_key_witness : wfDeep vDup = false ∧ wfDeep (.dict [([65], .int 1)]) = true ∧
    ∃ j, parseObj ⟨0, 2⟩ (spell vDup []).1 0 = ((.err .guard, j), ⟨0, 2⟩) := by
  refine ⟨by decide, by decide, ?_⟩
  have hb : (spell vDup []).1 = [] ++ (60 :: 60 :: (([] ++ (47 :: (nameBody [65] []).1 ++ ([32] ++ ([49] ++ [])))) ++
      ([] ++ (47 :: (nameBody [65] []).1 ++ [32, 50, 62, 62])))) := by decide +kernel
  have d0 : SpellsEntries 1 [] [([65], .int 1)] ([] ++ (47 :: (nameBody [65] []).1 ++ ([32] ++ ([49] ++ [])))) :=
    SpellsEntries.cons 1 [] [65] (.int 1) [] [] [] [32] [49] [] WsRun.nil (by decide) (by simp) ws32
      int1 (fun _ => by simp) (SpellsEntries.nil 1 _)
  rw [hb]
  exact ⟨_, dict_duplicate_rejected d0 [] [65] [] [32, 50, 62, 62] WsRun.nil (by decide)
    ⟨.int 1, by simp, rfl⟩ (by intro y hy; simp at hy; subst hy; decide) ⟨0, 2⟩ (by decide) [] WsRun.nil⟩

/-- the key `\x01nul` in a position other than the last: with the choice that emits the extra
    entry before the second key the encoder writes `<</#01#6e#75#6c 1/#01nul null\n/#41 2>>`, which
    repeats a key that has a non-null value; the parser rejects it.  (As the LAST key it is fine:
    `exV` above.) -/
def vNul : Obj := .dict [(nulKey, .int 1), ([65], .int 2)]
def chNul : Ch := List.replicate 27 0 ++ [1]
theorem nulKey_not_last_witness : wfDeep vNul = false ∧ sortedDeep vNul = true ∧
    wfDeep (.dict [([65], .int 2), (nulKey, .int 1)]) = true ∧
    ∃ j, parseObj ⟨0, 2⟩ (spell vNul chNul).1 0 = ((.err .guard, j), ⟨0, 2⟩) := by
  refine ⟨by decide, by decide, by decide, ?_⟩
  have hb : (spell vNul chNul).1 = [] ++ (60 :: 60 :: (([] ++ (47 :: (nameBody nulKey []).1 ++ ([32] ++ ([49] ++ [])))) ++
      ([] ++ (47 :: (nameBody nulKey nulCh).1 ++ [32, 110, 117, 108, 108, 10, 47, 35, 52, 49, 32, 50, 62, 62])))) := by
    decide +kernel
  have d0 : SpellsEntries 1 [] [(nulKey, .int 1)] ([] ++ (47 :: (nameBody nulKey []).1 ++ ([32] ++ ([49] ++ [])))) :=
    SpellsEntries.cons 1 [] nulKey (.int 1) [] [] [] [32] [49] [] WsRun.nil (by decide) (by simp) ws32
      int1 (fun _ => by simp) (SpellsEntries.nil 1 _)
  rw [hb]
  exact ⟨_, dict_duplicate_rejected d0 [] nulKey nulCh _ WsRun.nil (by decide)
    ⟨.int 1, by simp, rfl⟩ (by intro y hy; simp at hy; subst hy; decide) ⟨0, 2⟩ (by decide) [] WsRun.nil⟩

/-- a null-valued entry: the encoder writes `<</#41 null>>`, which is legal but denotes the EMPTY
    dictionary (the entry is dropped), not the value spelled -/
theorem null_value_witness : wfDeep (.dict [([65], .null)]) = false ∧
    ∃ j, parseObj ⟨0, 2⟩ (spell (.dict [([65], .null)]) []).1 0 = ((.ok ⟨.dict [], 0, j⟩, j), ⟨0, 2⟩) := by
  refine ⟨by decide, ?_⟩
  have hb : (spell (.dict [([65], .null)]) []).1 =
      [] ++ ((60 :: 60 :: (([] ++ (47 :: (nameBody [65] []).1 ++ ([32] ++ (kwNull ++ [])))) ++ ([] ++ [62, 62]))) ++ []) := by
    decide +kernel
  have d0 : SpellsEntries 1 [] [([65], .null)] ([] ++ (47 :: (nameBody [65] []).1 ++ ([32] ++ (kwNull ++ [])))) :=
    SpellsEntries.cons 1 [] [65] .null [] [] [] [32] kwNull [] WsRun.nil (by decide) (by simp) ws32
      (Spells.null 0) (fun _ => by simp) (SpellsEntries.nil 1 _)
  rw [hb]
  exact ⟨_, spell_parse (Spells.dict 1 _ _ [] d0 WsRun.nil) ⟨0, 2⟩ (by decide) [] WsRun.nil [] (follows_nil _)⟩

/-- an object number above i64::MAX (`wf` allows it, `wfDeep` does not): the parser reads
    `9223372036854775808 0 R` (23 bytes) as the real 2^63/1 and stops after 19 bytes -/
theorem ref_range_witness : wfDeep (.ref (2 ^ 63) 0) = false ∧ wf (.ref (2 ^ 63) 0) = true ∧
    (spell (.ref (2 ^ 63) 0) []).1.length = 23 ∧ (parseObj ⟨0, 1⟩ (spell (.ref (2 ^ 63) 0) []).1 0).1.2 = 19 := by
  refine ⟨by decide, by decide, by decide +kernel, by decide +kernel⟩

end Parsley.C02
