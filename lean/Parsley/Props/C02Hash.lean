/-
  C02, names with raw `#` bytes (additive; nothing imports this module).

  Spec/NameLit.lean states what the characters of a name token denote: `#` + two hexadecimal
  digits is one byte (never NUL), ANY OTHER `#` is the literal byte `#`.  The encoder of
  Spec/Spelling.lean always writes that byte as `#23`, so the `Spells` relation / `spell_parse`
  family never exercises a raw `#`.  Here the freedom is added as theorems of its own:

  * `name_model_eq_nameDenote`  the `windows(3)` loop of the model computes `nameDenote`, every span;
  * `name_raw_hash_parse`       every token of regular characters that denotes a name - raw `#`
                                anywhere - parses to exactly that name through `parse_pdf_obj`
                                (any leading whitespace / comments, any terminator behind, any depth);
  * `name_null_code_rejected`   a token with a `#00` code is rejected, cursor restored to the token;
  * `nameDenote_hash_*`         where a `#` is literal: last byte, second-to-last byte, before two
                                bytes that are not both hex digits; and where it is a code.
  The dictionary-level statements (`spell_parse`, `dict_duplicate_rejected`) keep the encoder's
  key spellings; extending the inductive `Spells` (imported by C05/C14 files) was left alone.
-/
import Parsley.Props.C02Struct
import Parsley.Spec.NameLit
namespace Parsley.C02
open Parsley Parsley.Prim Parsley.Obj Parsley.Spelling Parsley.NameLit

/-- the spec's digit table agrees with the model's `isHexDigit` / `hexVal` on every byte -/
theorem hexDigit?_eq (b : UInt8) : hexDigit? b = if isHexDigit b then some (hexVal b) else none := by
  have h : ∀ n : Fin 256, hexDigit? (UInt8.ofNat n.val) =
      if isHexDigit (UInt8.ofNat n.val) then some (hexVal (UInt8.ofNat n.val)) else none := by
    decide +kernel
  have := h ⟨b.toNat, b.toNat_lt⟩
  simpa using this

theorem code?_eq (h l : UInt8) :
    code? h l = if isHexDigit h && isHexDigit l then some (16 * hexVal h + hexVal l) else none := by
  unfold code?
  rw [hexDigit?_eq h, hexDigit?_eq l]
  cases isHexDigit h <;> cases isHexDigit l <;> rfl

theorem sel_eq (b h l : UInt8) :
    (if b == 35 then code? h l else none) =
      if (b == 35 && isHexDigit h && isHexDigit l) = true then some (16 * hexVal h + hexVal l) else none := by
  rw [code?_eq]
  by_cases hb : b = 35
  · subst hb; simp
  · simp [hb]

/-- the spec-side reading equals the declarative decoder of Props/C02.lean -/
theorem nameDenote_eq_nameDecSpec (t : Bytes) : nameDenote t = nameDecSpec t := by
  fun_induction nameDenote t
  case case1 => simp [nameDecSpec]
  case case2 => simp [nameDecSpec]
  case case3 => simp [nameDecSpec]
  case case4 b h l t ch hc hz =>
    simp only [dite_eq_ite] at hc
    rw [sel_eq] at hc
    by_cases hcond : (b == 35 && isHexDigit h && isHexDigit l) = true
    · rw [if_pos hcond] at hc
      cases hc
      unfold nameDecSpec
      simp only [hcond, if_true, hz]
    · rw [if_neg hcond] at hc; cases hc
  case case5 b h l t ch hc hz ih =>
    simp only [dite_eq_ite] at hc
    rw [sel_eq] at hc
    by_cases hcond : (b == 35 && isHexDigit h && isHexDigit l) = true
    · rw [if_pos hcond] at hc
      cases hc
      unfold nameDecSpec
      simp only [hcond, if_true, hz, ih]
      rfl
    · rw [if_neg hcond] at hc; cases hc
  case case6 b h l t hc ih =>
    simp only [dite_eq_ite] at hc
    rw [sel_eq] at hc
    by_cases hcond : (b == 35 && isHexDigit h && isHexDigit l) = true
    · rw [if_pos hcond] at hc; cases hc
    · unfold nameDecSpec
      simp only [hcond, ih]
      rfl

/-- **`name_model_eq_nameDenote`**: the normalisation loop of `NameP` / `OperatorP` (model of the
    `windows(3)` loop with its trailing-byte cases) computes the left-to-right reading of the lexical
    rule, for every span. -/
theorem name_model_eq_nameDenote (t : Bytes) : nameDec t = nameDenote t := by
  rw [name_window_decoder_eq, nameDenote_eq_nameDecSpec]

/-! ### where a `#` is a literal byte -/

/-- `#` as the last byte of the token -/
theorem nameDenote_hash_last : nameDenote [35] = some [35] := by simp [nameDenote]
/-- `#` as the second-to-last byte, whatever follows -/
theorem nameDenote_hash_second_last (x : UInt8) : nameDenote [35, x] = some [35, x] := by simp [nameDenote]
/-- `#` before two bytes that are not both hexadecimal digits (one hex + one non-hex, `##`, ...): the
    literal byte `#`, and the reading goes on with the NEXT byte -/
theorem nameDenote_hash_literal (h l : UInt8) (t : Bytes) (hn : (isHexDigit h && isHexDigit l) = false) :
    nameDenote (35 :: h :: l :: t) = (nameDenote (h :: l :: t)).map (35 :: ·) := by
  rw [nameDenote]
  simp [code?_eq, hn]
/-- `#` before two hexadecimal digits: one byte, the reading goes on behind the digits -/
theorem nameDenote_hash_code (h l : UInt8) (t : Bytes) (hh : isHexDigit h = true) (hl : isHexDigit l = true) :
    nameDenote (35 :: h :: l :: t) =
      if 16 * hexVal h + hexVal l = 0 then none else (nameDenote t).map ((16 * hexVal h + hexVal l) :: ·) := by
  rw [nameDenote]
  simp [code?_eq, hh, hl]
/-- any byte but `#` stands for itself -/
theorem nameDenote_plain (b h l : UInt8) (t : Bytes) (hb : b ≠ 35) :
    nameDenote (b :: h :: l :: t) = (nameDenote (h :: l :: t)).map (b :: ·) := by
  rw [nameDenote]
  simp [hb]

/-! ### through the parsers -/

theorem untilB_token (tok ctx : Bytes) (hctx : ∀ y, ctx.head? = some y → isNameTerm y = true)
    (htok : ∀ y ∈ tok, isNameTerm y = false) :
    untilB isNameTerm (47 :: tok ++ ctx) (0 + 1) = (tok, tok.length + 1) := by
  unfold untilB allowed
  have hd : List.drop (0 + 1) (47 :: tok ++ ctx) = tok ++ ctx := rfl
  rw [hd]
  have : List.takeWhile (fun b => !isNameTerm b) (tok ++ ctx) = tok := by
    rw [List.takeWhile_append_of_pos]
    · cases ctx with
      | nil => simp
      | cons y t => simp [hctx y rfl]
    · intro y hy; simp [htok y hy]
  rw [this]; simp [Nat.add_comm]

/-- `NameP` on a whole token: the name it denotes, or the guard error with the cursor back at `/` -/
theorem nameP_token (tok ctx : Bytes) (hctx : ∀ y, ctx.head? = some y → isNameTerm y = true)
    (htok : ∀ y ∈ tok, isNameTerm y = false) :
    nameP (47 :: tok ++ ctx) 0 =
      match nameDenote tok with
      | some b => (.ok ⟨b, 0, tok.length + 1⟩, tok.length + 1)
      | none => (.err .guard, 0) := by
  unfold nameP
  have hp : peek (47 :: tok ++ ctx) 0 = some 47 := rfl
  simp only [hp, bne_self_eq_false, Bool.false_eq_true, if_false]
  rw [untilB_token tok ctx hctx htok, name_model_eq_nameDenote]
  cases nameDenote tok <;> rfl

theorem parseInternal_name_token (el : Elem) (cur : Nat) (tok ctx : Bytes)
    (hctx : ∀ y, ctx.head? = some y → isNameTerm y = true) (htok : ∀ y ∈ tok, isNameTerm y = false) :
    parseInternal el cur (47 :: tok ++ ctx) 0 =
      match nameDenote tok with
      | some b => ((.ok (.name b), tok.length + 1), cur)
      | none => ((.err .guard, 0), cur) := by
  unfold parseInternal
  have hp : peek (47 :: tok ++ ctx) 0 = some 47 := rfl
  simp only [hp]
  simp only [show ((47 : UInt8) == 116 || (47 : UInt8) == 102) = false by decide,
    show ((47 : UInt8) == 110) = false by decide, show ((47 : UInt8) == 40) = false by decide,
    show ((47 : UInt8) == 37) = false by decide, beq_self_eq_true, Bool.false_eq_true, if_false, if_true]
  rw [nameP_token tok ctx hctx htok]
  cases nameDenote tok <;> rfl

/-- **`name_raw_hash_parse`** (C02 for name tokens with raw `#`, end to end through `parse_pdf_obj`):
    any leading whitespace / comment run, ANY run of regular characters `tok` - `#xx` codes, raw `#`
    wherever it does not start a code, any other regular byte - that denotes the name `b`
    (`NameLit.nameDenote`), any context that starts with a delimiter or whitespace (or is empty), any
    context depth below the bound: the object parser returns exactly the name `b`, located at the token,
    with the cursor immediately after its last byte and the context unchanged. -/
theorem name_raw_hash_parse (c : Depth) (hc : c.cur < c.max) (lead : Bytes) (hlead : WsRun lead)
    (tok b ctx : Bytes) (hden : nameDenote tok = some b)
    (hctx : ∀ y, ctx.head? = some y → isNameTerm y = true)
    (htok : ∀ y ∈ tok, isNameTerm y = false) :
    parseObj c (lead ++ (47 :: tok ++ ctx)) 0 =
      ((.ok ⟨.name b, lead.length, lead.length + (tok.length + 1)⟩, lead.length + (tok.length + 1)), c) := by
  apply parseObj_token c hc lead _ hlead
  · intro y hy
    simp only [List.cons_append, List.head?_cons, Option.some.injEq] at hy
    subst hy; decide
  · rw [parseInternal_name_token _ _ tok ctx hctx htok, hden]

/-- **`name_null_code_rejected`**: a token in which the reading meets the code `#00` is not a name:
    `parse_pdf_obj` fails with the guard error at the `/`, context unchanged - whatever else the token
    contains (raw `#` behind the code included). -/
theorem name_null_code_rejected (c : Depth) (hc : c.cur < c.max) (lead : Bytes) (hlead : WsRun lead)
    (tok ctx : Bytes) (hden : nameDenote tok = none)
    (hctx : ∀ y, ctx.head? = some y → isNameTerm y = true)
    (htok : ∀ y ∈ tok, isNameTerm y = false) :
    parseObj c (lead ++ (47 :: tok ++ ctx)) 0 = ((.err .guard, lead.length + 0), c) := by
  apply parseObj_token_err c hc lead _ hlead
  · intro y hy
    simp only [List.cons_append, List.head?_cons, Option.some.injEq] at hy
    subst hy; decide
  · rw [parseInternal_name_token _ _ tok ctx hctx htok, hden]

/-! ### non-vacuity: the minimal instances of the family -/

/-- `#41B#` denotes `AB#` (a code, then a raw `#` as last byte) -/
theorem denote_41B_hash : nameDenote [35, 52, 49, 66, 35] = some [65, 66, 35] := by
  rw [nameDenote_hash_code _ _ _ (by decide) (by decide)]
  simp [nameDenote, hexVal, isDigit]

/-- `A#20B#4` denotes `A B#4` (a raw `#` as second-to-last byte, before a hex digit) -/
theorem denote_A20B_hash4 : nameDenote [65, 35, 50, 48, 66, 35, 52] = some [65, 32, 66, 35, 52] := by
  rw [nameDenote_plain _ _ _ _ (by decide), nameDenote_hash_code _ _ _ (by decide) (by decide)]
  simp [nameDenote, hexVal, isDigit]

/-- `#00#` is not a name -/
theorem denote_00_hash : nameDenote [35, 48, 48, 35] = none := by
  rw [nameDenote_hash_code _ _ _ (by decide) (by decide)]
  simp [hexVal, isDigit]

example : parseObj ⟨0, 5⟩ ([32] ++ (47 :: [35, 52, 49, 66, 35] ++ [62, 62])) 0 =
    ((.ok ⟨.name [65, 66, 35], 1, 1 + (5 + 1)⟩, 1 + (5 + 1)), ⟨0, 5⟩) :=
  name_raw_hash_parse ⟨0, 5⟩ (by decide) [32] (WsRun.ws 32 [] (by decide) WsRun.nil) _ _ [62, 62] denote_41B_hash
    (by intro y hy; simp at hy; subst hy; decide) (by decide)

example : parseObj ⟨0, 5⟩ ([] ++ (47 :: [65, 35, 50, 48, 66, 35, 52] ++ [])) 0 =
    ((.ok ⟨.name [65, 32, 66, 35, 52], 0, 0 + (7 + 1)⟩, 0 + (7 + 1)), ⟨0, 5⟩) :=
  name_raw_hash_parse ⟨0, 5⟩ (by decide) [] WsRun.nil _ _ [] denote_A20B_hash4 (by simp) (by decide)

example : parseObj ⟨0, 5⟩ ([] ++ (47 :: [35, 48, 48, 35] ++ [32])) 0 = ((.err .guard, 0 + 0), ⟨0, 5⟩) :=
  name_null_code_rejected ⟨0, 5⟩ (by decide) [] WsRun.nil _ [32] denote_00_hash
    (by intro y hy; simp at hy; subst hy; decide) (by decide)

end Parsley.C02
