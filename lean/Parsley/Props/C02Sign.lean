/-
  C02, explicit signs on the two numbers of an indirect reference (additive; nothing imports
  this module).

  `Spells.ref` of Props/C02Struct.lean writes both numbers of a reference as bare digit strings,
  so `spell_parse` does not cover `7 +0 R`, `+7 0 R`, `+007 +00 R`, `7 -0 R`, `-0 0 R` - which
  ReferenceP (two IntegerP tokens) and the number-vs-reference look-ahead of PDFObjP accept as the
  reference.  Here the freedom is added as theorems of its own, generalising `reference_spec` /
  `spell_parse_ref` of Props/C02.lean:

  * `signed_reference_spec`   the number branch of the dispatcher on
                              `<sg1><ds1> w1 <sg2><ds2> w2 R ctx`: sign none / `+` on any value in
                              range, `-` when the digit string denotes 0; any zero padding; any
                              non-empty whitespace/comment runs; end of buffer or a non-regular byte
                              behind the `R`;
  * `spell_parse_signed_ref`  the same through `parse_pdf_obj`, after any whitespace/comment run,
                              at any depth below the limit, cursor immediately after `R`.
  Extending the inductive `Spells` (imported by C05/C14 files) was left alone; the statements for
  references inside arrays / dictionaries keep the unsigned spellings.
-/
import Parsley.Props.C02Struct
namespace Parsley.C02
open Parsley Parsley.Prim Parsley.Obj

/-- a sign that does not change the value: none, `+`, or `-` in front of a zero -/
def Sign.keeps (sg : Sign) (n : Nat) : Prop := sg = .minus → n = 0

theorem Sign.apply_keeps (sg : Sign) (n : Nat) (h : sg.keeps n) : sg.apply n = (n : Int) := by
  cases sg with
  | none => rfl
  | plus => rfl
  | minus => have := h rfl; subst this; rfl

/-- a signed integer token at an offset -/
theorem int_at_signed (pre : Bytes) (sg : Sign) (ds ctx : Bytes) (hne : ds ≠ [])
    (hds : ∀ y ∈ ds, isDigit y = true)
    (hctx : ∀ y, ctx.head? = some y → isDigit y = false) (hfit : digitsVal ds 0 ≤ i64Max) :
    integerP (pre ++ (sg.bytes ++ ds ++ ctx)) pre.length =
      (.ok ⟨sg.apply (digitsVal ds 0), pre.length, pre.length + (sg.bytes.length + ds.length)⟩,
        pre.length + (sg.bytes.length + ds.length)) := by
  have h := Parsley.Shift.integerP_pre pre (sg.bytes ++ ds ++ ctx) 0
  simp only [Nat.add_zero] at h
  have hs := integer_spec sg ds ctx hne hds hctx
  simp only [hfit, if_true] at hs
  rw [h, hs]
  simp [Parsley.Shift.shift]

theorem peek_zero_head (s : Bytes) : peek s 0 = s.head? := by
  cases s <;> simp [peek]

/-- the first byte of a signed digit string -/
theorem signed_first (sg : Sign) (ds rest : Bytes) (hne : ds ≠ []) (hds : ∀ y ∈ ds, isDigit y = true) :
    ∃ c0, (sg.bytes ++ ds ++ rest).head? = some c0 ∧ (isDigit c0 = true ∨ c0 = 45 ∨ c0 = 43 ∨ c0 = 46) := by
  cases sg with
  | none =>
    cases ds with
    | nil => exact absurd rfl hne
    | cons d t => exact ⟨d, by simp [Sign.bytes], Or.inl (hds d List.mem_cons_self)⟩
  | plus => exact ⟨43, by simp [Sign.bytes], Or.inr (Or.inr (Or.inl rfl))⟩
  | minus => exact ⟨45, by simp [Sign.bytes], Or.inr (Or.inl rfl)⟩

theorem signedTok_not_ws (sg : Sign) (ds rest : Bytes) (hne : ds ≠ []) (hds : ∀ y ∈ ds, isDigit y = true) :
    ∀ b, (sg.bytes ++ ds ++ rest).head? = some b → isWsEol b = false ∧ b ≠ 37 := by
  intro b hb
  obtain ⟨c0, h0, hcls⟩ := signed_first sg ds rest hne hds
  rw [h0] at hb
  obtain rfl : c0 = b := Option.some.inj hb
  exact (number_first_byte c0 hcls).2.2.2.2.2.2.2.2

/-- **`signed_reference_spec`**: sign, digits, non-empty whitespace, sign, digits, non-empty
    whitespace, `R`, then the end of the buffer or a non-regular byte: the number branch of the
    dispatcher returns the reference and stops just after the `R`.  Each sign is none, `+`, or `-`
    before a digit string that denotes 0 (`Sign.keeps`). -/
theorem signed_reference_spec (sg1 sg2 : Sign) (ds1 w1 ds2 w2 ctx : Bytes)
    (h1ne : ds1 ≠ []) (h1 : ∀ y ∈ ds1, isDigit y = true) (f1 : digitsVal ds1 0 ≤ i64Max)
    (h2ne : ds2 ≠ []) (h2 : ∀ y ∈ ds2, isDigit y = true) (f2 : digitsVal ds2 0 ≤ i64Max)
    (k1 : sg1.keeps (digitsVal ds1 0)) (k2 : sg2.keeps (digitsVal ds2 0))
    (hw1 : WsRun w1) (hw1ne : w1 ≠ []) (hw2 : WsRun w2) (hw2ne : w2 ≠ [])
    (hctx : ∀ y, ctx.head? = some y → isRegular y = false) :
    numberOrRef (sg1.bytes ++ ds1 ++ (w1 ++ (sg2.bytes ++ ds2 ++ (w2 ++ (82 :: ctx))))) 0 =
      (.ok (.ref (digitsVal ds1 0) (digitsVal ds2 0)),
        (sg1.bytes.length + ds1.length) + w1.length + (sg2.bytes.length + ds2.length) + w2.length + 1) := by
  let p1 := sg1.bytes ++ ds1
  let p2 := sg2.bytes ++ ds2
  let t4 := 82 :: ctx
  let t3 := w2 ++ t4
  let t2 := p2 ++ t3
  let t1 := w1 ++ t2
  have lp1 : p1.length = sg1.bytes.length + ds1.length := by simp [p1]
  have lp2 : p2.length = sg2.bytes.length + ds2.length := by simp [p2]
  show numberOrRef (p1 ++ t1) 0 = _
  rw [← lp1, ← lp2]
  have v1 := Sign.apply_keeps sg1 _ k1
  have v2 := Sign.apply_keeps sg2 _ k2
  have e63 : (2 : Int) ^ 63 = 9223372036854775808 := by decide
  have hR : ∀ b, t4.head? = some b → isWsEol b = false ∧ b ≠ 37 := by
    intro b hb; simp [t4] at hb; subst hb; decide
  -- first number as a real
  have hreal : realP (p1 ++ t1) 0 = (.ok ⟨((digitsVal ds1 0 : Int), 1), 0, p1.length⟩, p1.length) := by
    have := real_nodot_spec sg1 ds1 t1 h1ne h1 (wsRun_head_not w1 t2 hw1 hw1ne)
      (by have : i64Max ≤ i128Max := by decide
          omega)
    rw [v1, ← lp1] at this
    exact this
  have hrange : -(2 ^ 63 : Int) ≤ (digitsVal ds1 0 : Int) ∧ (digitsVal ds1 0 : Int) ≤ (2 ^ 63 - 1 : Int) := by
    rw [e63]; unfold i64Max at f1; omega
  rw [numberOrRef_after_int (p1 ++ t1) 0 p1.length _ (Nat.zero_le _) hreal hrange]
  -- the pieces, each at its offset
  have hp2 : ∀ b, t2.head? = some b → isWsEol b = false ∧ b ≠ 37 :=
    signedTok_not_ws sg2 ds2 t3 h2ne h2
  have a1 : wsEOL false (p1 ++ t1) p1.length = (.ok ⟨(), p1.length, p1.length + w1.length⟩, p1.length + w1.length) :=
    ws_at false p1 w1 t2 hw1 hp2 (Or.inl hw1ne)
  have a1' : wsEOL true (p1 ++ t1) p1.length = (.ok ⟨(), p1.length, p1.length + w1.length⟩, p1.length + w1.length) :=
    ws_at true p1 w1 t2 hw1 hp2 (Or.inl hw1ne)
  have a2 : integerP (p1 ++ t1) (p1.length + w1.length) =
      (.ok ⟨(digitsVal ds2 0 : Int), p1.length + w1.length, p1.length + w1.length + p2.length⟩,
        p1.length + w1.length + p2.length) := by
    have := int_at_signed (p1 ++ w1) sg2 ds2 t3 h2ne h2 (fun y hy => (wsRun_head_not w2 t4 hw2 hw2ne y hy).1) f2
    rw [v2, ← lp2] at this
    simpa [List.append_assoc, t1, t2, p2, Nat.add_assoc] using this
  have a3 : ∀ e, wsEOL e (p1 ++ t1) (p1.length + w1.length + p2.length) =
      (.ok ⟨(), p1.length + w1.length + p2.length, p1.length + w1.length + p2.length + w2.length⟩,
        p1.length + w1.length + p2.length + w2.length) := by
    intro e
    have := ws_at e (p1 ++ w1 ++ p2) w2 t4 hw2 hR (Or.inl hw2ne)
    simpa [List.append_assoc, t1, t2, t3, Nat.add_assoc] using this
  have hdrop : (p1 ++ t1).drop (p1.length + w1.length + p2.length + w2.length) = t4 := by
    have : p1 ++ t1 = (p1 ++ w1 ++ p2 ++ w2) ++ t4 := by simp [t1, t2, t3, List.append_assoc]
    rw [this]
    have hl : p1.length + w1.length + p2.length + w2.length = (p1 ++ w1 ++ p2 ++ w2).length := by
      simp [Nat.add_assoc]
    rw [hl, List.drop_left]
  have a4 : startsWith [82] (p1 ++ t1) (p1.length + w1.length + p2.length + w2.length) = true := by
    unfold startsWith; rw [hdrop]; simp [t4, List.isPrefixOf]
  have a5 : (peek (p1 ++ t1) (p1.length + w1.length + p2.length + w2.length + 1)).any isRegular = false := by
    have : peek (p1 ++ t1) (p1.length + w1.length + p2.length + w2.length + 1) = ctx.head? := by
      unfold peek
      rw [← List.head?_drop, ← List.drop_drop, hdrop]
      simp [t4]
    rw [this]
    cases hc : ctx.head? with
    | none => rfl
    | some y => simp [hctx y hc]
  have hla : lookAhead (p1 ++ t1) p1.length = true := by
    unfold lookAhead
    simp only [a1, a2, a3 false, a4, a5]
    rfl
  simp only [hla, if_true]
  -- ReferenceP from the start
  have b1 : integerP (p1 ++ t1) 0 = (.ok ⟨(digitsVal ds1 0 : Int), 0, p1.length⟩, p1.length) := by
    have := int_at_signed [] sg1 ds1 t1 h1ne h1 (fun y hy => (wsRun_head_not w1 t2 hw1 hw1ne y hy).1) f1
    rw [v1, ← lp1] at this
    simpa [p1] using this
  have hex : exact [82] (p1 ++ t1) (p1.length + w1.length + p2.length + w2.length) =
      (true, p1.length + w1.length + p2.length + w2.length + 1) := by
    unfold exact; simp [a4]
  unfold referenceP
  simp only [b1, isUsize, a1', a2, a3 true, hex]
  simp

/-- **`spell_parse_signed_ref`**: `<sign>n ws⁺ <sign>g ws⁺ R` (sign none / `+` / `-` before a
    zero, any leading zeros, any non-empty whitespace/comment runs), after any whitespace run, at
    any cursor depth below the limit, before the end of the buffer or a non-regular byte:
    `parse_pdf_obj` yields exactly `Reference(n, g)`, located from the first byte of the spelling
    to immediately after the `R`. -/
theorem spell_parse_signed_ref (c : Depth) (hc : c.cur < c.max) (lead : Bytes) (hlead : WsRun lead)
    (sg1 sg2 : Sign) (ds1 w1 ds2 w2 ctx : Bytes)
    (h1ne : ds1 ≠ []) (h1 : ∀ y ∈ ds1, isDigit y = true) (f1 : digitsVal ds1 0 ≤ i64Max)
    (h2ne : ds2 ≠ []) (h2 : ∀ y ∈ ds2, isDigit y = true) (f2 : digitsVal ds2 0 ≤ i64Max)
    (k1 : sg1.keeps (digitsVal ds1 0)) (k2 : sg2.keeps (digitsVal ds2 0))
    (hw1 : WsRun w1) (hw1ne : w1 ≠ []) (hw2 : WsRun w2) (hw2ne : w2 ≠ [])
    (hctx : ∀ y, ctx.head? = some y → isRegular y = false) :
    parseObj c (lead ++ (sg1.bytes ++ ds1 ++ (w1 ++ (sg2.bytes ++ ds2 ++ (w2 ++ (82 :: ctx)))))) 0 =
      ((.ok ⟨.ref (digitsVal ds1 0) (digitsVal ds2 0), lead.length,
          lead.length + ((sg1.bytes.length + ds1.length) + w1.length + (sg2.bytes.length + ds2.length) + w2.length + 1)⟩,
        lead.length + ((sg1.bytes.length + ds1.length) + w1.length + (sg2.bytes.length + ds2.length) + w2.length + 1)), c) := by
  obtain ⟨c0, h0, hcls⟩ := signed_first sg1 ds1 (w1 ++ (sg2.bytes ++ ds2 ++ (w2 ++ (82 :: ctx)))) h1ne h1
  apply parseObj_token c hc lead _ hlead
  · exact signedTok_not_ws sg1 ds1 _ h1ne h1
  · rw [parseInternal_number _ _ _ c0 (by rw [← h0]; exact peek_zero_head _) hcls]
    rw [signed_reference_spec sg1 sg2 ds1 w1 ds2 w2 ctx h1ne h1 f1 h2ne h2 f2 k1 k2 hw1 hw1ne hw2 hw2ne hctx]

/-- non-vacuity, the seeded shape `7 +0 R` (end of buffer behind the `R`) -/
example : parseObj ⟨0, 5⟩ ([] ++ (Sign.none.bytes ++ [55] ++ ([32] ++ (Sign.plus.bytes ++ [48] ++ ([32] ++ (82 :: [])))))) 0 =
    ((.ok ⟨.ref 7 0, 0, 0 + ((0 + 1) + 1 + (1 + 1) + 1 + 1)⟩, 0 + ((0 + 1) + 1 + (1 + 1) + 1 + 1)), ⟨0, 5⟩) :=
  spell_parse_signed_ref ⟨0, 5⟩ (by decide) [] WsRun.nil .none .plus [55] [32] [48] [32] []
    (by decide) (by decide) (by decide) (by decide) (by decide) (by decide)
    (by intro h; cases h) (by intro h; cases h)
    (WsRun.ws 32 [] (by decide) WsRun.nil) (by decide) (WsRun.ws 32 [] (by decide) WsRun.nil) (by decide) (by simp)

/-- the same bytes written out: `7 +0 R` is `[55, 32, 43, 48, 32, 82]` -/
example : ([] ++ (Sign.none.bytes ++ [55] ++ ([32] ++ (Sign.plus.bytes ++ [48] ++ ([32] ++ (82 :: [])))))) =
    ([55, 32, 43, 48, 32, 82] : Bytes) := by decide

/-- non-vacuity, `+007 -00 R>>` after a blank (both signs, zero padding, `-` before a zero, a delimiter behind) -/
example : parseObj ⟨1, 5⟩ ([32] ++ (Sign.plus.bytes ++ [48, 48, 55] ++ ([10] ++ (Sign.minus.bytes ++ [48, 48] ++ ([32, 32] ++ (82 :: [62, 62])))))) 0 =
    ((.ok ⟨.ref 7 0, 1, 1 + ((1 + 3) + 1 + (1 + 2) + 2 + 1)⟩, 1 + ((1 + 3) + 1 + (1 + 2) + 2 + 1)), ⟨1, 5⟩) :=
  spell_parse_signed_ref ⟨1, 5⟩ (by decide) [32] (WsRun.ws 32 [] (by decide) WsRun.nil) .plus .minus
    [48, 48, 55] [10] [48, 48] [32, 32] [62, 62]
    (by decide) (by decide) (by decide) (by decide) (by decide) (by decide)
    (by intro h; cases h) (by intro _; decide)
    (WsRun.ws 10 [] (by decide) WsRun.nil) (by decide)
    (WsRun.ws 32 [32] (by decide) (WsRun.ws 32 [] (by decide) WsRun.nil)) (by decide)
    (by intro y hy; simp at hy; subst hy; decide)

end Parsley.C02
