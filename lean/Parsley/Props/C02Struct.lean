/-
  C02 — the structural part: a relational specification of the legal spellings of PDF objects
  (mutual over values, array element lists and dictionary entry lists), the context condition
  `Follows`, and the theorem `spell_parse`: every legal spelling, after any whitespace/comment run
  and before any legal context, parses through `parse_pdf_obj` to exactly the value spelled, with
  the cursor immediately after the last byte and the context depth restored.
-/
import Parsley.Props.C02
import Parsley.Props.C16
namespace Parsley.C02
open Parsley Parsley.Prim Parsley.Obj Parsley.Spelling

/-! ## (1) the relation of legal spellings -/

/-- values whose spelling ends in a regular character (and therefore has to be terminated by a
    non-regular byte): keywords, numbers, references and names (an empty name `/` counts: a
    following regular character would be absorbed into it) -/
def endsReg : Obj → Bool
  | .null | .bool _ | .int _ | .real _ _ | .name _ | .ref _ _ => true
  | _ => false

/-- values whose spelling starts with a regular character: keywords, numbers, references -/
def startsReg : Obj → Bool
  | .null | .bool _ | .int _ | .real _ _ | .ref _ _ => true
  | _ => false

def isNullV : Obj → Bool
  | .null => true
  | _ => false

/-- the keys that have a non-null value after the entries `ents` (most recent first) -/
def accNames (names : List Bytes) : List (Bytes × Obj) → List Bytes
  | [] => names
  | (k, v) :: t => accNames (if isNullV v then names else k :: names) t

/-- the map after the entries `ents`: null-valued entries are dropped, the others inserted in order -/
def accMap (map : List (Bytes × Obj)) : List (Bytes × Obj) → List (Bytes × Obj)
  | [] => map
  | (k, v) :: t => accMap (if isNullV v then map else dictInsert k v map) t

/-- the dictionary value denoted by a written entry list -/
def dictOf (ents : List (Bytes × Obj)) : List (Bytes × Obj) := accMap [] ents

mutual
/-- `Spells d v tok`: `tok` is a legal spelling (no leading or trailing whitespace) of the value `v`
    whose nesting depth — counting the values of dropped null entries too — is at most `d`. -/
inductive Spells : Nat → Obj → Bytes → Prop
  | null (d : Nat) : Spells (d + 1) .null kwNull
  | tru (d : Nat) : Spells (d + 1) (.bool true) kwTrue
  | fls (d : Nat) : Spells (d + 1) (.bool false) kwFalse
  /-- optional sign, any non-empty digit string (leading zeros allowed) denoting an `i64` magnitude -/
  | int (d : Nat) (sg : Sign) (ds : Bytes) (hne : ds ≠ []) (hds : ∀ y ∈ ds, isDigit y = true)
      (hfit : digitsVal ds 0 ≤ i64Max) :
      Spells (d + 1) (.int (sg.apply (digitsVal ds 0))) (sg.bytes ++ ds)
  /-- optional sign, digits (possibly none), '.', at least one fraction digit -/
  | real (d : Nat) (sg : Sign) (ds fs : Bytes) (hfne : fs ≠ [])
      (hds : ∀ y ∈ ds, isDigit y = true) (hfs : ∀ y ∈ fs, isDigit y = true)
      (hfit : digitsVal (ds ++ fs) 0 ≤ i128Max) (hden : 10 ^ fs.length ≤ i128Max) :
      Spells (d + 1) (.real (sg.apply (digitsVal (ds ++ fs) 0)) (10 ^ fs.length)) (sg.bytes ++ ds ++ [46] ++ fs)
  /-- '/' and, per byte of the (null-free) name, the byte itself if regular and not '#', or `#hh`
      in either hex case (`ch` are the per-byte choices) -/
  | name (d : Nat) (b : Bytes) (ch : Ch) (hb : okKey b = true) : Spells (d + 1) (.name b) (47 :: (nameBody b ch).1)
  /-- a literal string: any body balanced modulo backslash escapes; the value is the raw body -/
  | lit (d : Nat) (body : Bytes) (hb : litBalanced body 0 = true) : Spells (d + 1) (.str body) ([40] ++ body ++ [41])
  /-- a hexadecimal string: digits of either case and embedded whitespace, odd digit count padded -/
  | hex (d : Nat) (body : Bytes) (hb : ∀ y ∈ body, (isHexDigit y || isHexWs y) = true) :
      Spells (d + 1) (.str (hexPairs (hexDigitsOf body))) ([60] ++ body ++ [62])
  /-- `n ws⁺ g ws⁺ R` -/
  | ref (d : Nat) (ds1 w1 ds2 w2 : Bytes)
      (h1ne : ds1 ≠ []) (h1 : ∀ y ∈ ds1, isDigit y = true) (f1 : digitsVal ds1 0 ≤ i64Max)
      (h2ne : ds2 ≠ []) (h2 : ∀ y ∈ ds2, isDigit y = true) (f2 : digitsVal ds2 0 ≤ i64Max)
      (hw1 : WsRun w1) (hw1ne : w1 ≠ []) (hw2 : WsRun w2) (hw2ne : w2 ≠ []) :
      Spells (d + 1) (.ref (digitsVal ds1 0) (digitsVal ds2 0)) (ds1 ++ (w1 ++ (ds2 ++ (w2 ++ [82]))))
  | arr (d : Nat) (xs : List Obj) (body : Bytes) (h : SpellsElems d false xs body) :
      Spells (d + 1) (.arr xs) (91 :: body)
  /-- `<<`, entries, optional whitespace, `>>`; the value keeps the non-null entries -/
  | dict (d : Nat) (ents : List (Bytes × Obj)) (body sep : Bytes) (h : SpellsEntries d [] ents body)
      (hsep : WsRun sep) :
      Spells (d + 1) (.dict (dictOf ents)) (60 :: 60 :: (body ++ (sep ++ [62, 62])))
/-- `SpellsElems d prevReg xs body`: the elements `xs` and the closing bracket, after a token that
    ends in a regular character iff `prevReg`.  The separator before an element may be empty
    unless both neighbours are regular characters. -/
inductive SpellsElems : Nat → Bool → List Obj → Bytes → Prop
  | nil (d : Nat) (p : Bool) (sep : Bytes) (hsep : WsRun sep) : SpellsElems d p [] (sep ++ [93])
  | cons (d : Nat) (p : Bool) (x : Obj) (xs : List Obj) (sep sx r : Bytes) (hsep : WsRun sep)
      (hx : Spells d x sx) (hreq : p = true → startsReg x = true → sep ≠ [])
      (hr : SpellsElems d (endsReg x) xs r) :
      SpellsElems d p (x :: xs) (sep ++ (sx ++ r))
/-- `SpellsEntries d names ents body`: the written entries `ents` (null-valued ones included), when
    `names` are the keys that already have a non-null value: optional whitespace, the key, a
    separator (non-empty iff the value starts with a regular character), the value.  A key that
    already has a non-null value may not be written again. -/
inductive SpellsEntries : Nat → List Bytes → List (Bytes × Obj) → Bytes → Prop
  | nil (d : Nat) (names : List Bytes) : SpellsEntries d names [] []
  | cons (d : Nat) (names : List Bytes) (k : Bytes) (v : Obj) (ents : List (Bytes × Obj))
      (sep1 : Bytes) (ch : Ch) (sep2 sv r : Bytes)
      (hsep1 : WsRun sep1) (hk : okKey k = true) (hnew : k ∉ names) (hsep2 : WsRun sep2)
      (hv : Spells d v sv) (hreq : startsReg v = true → sep2 ≠ [])
      (hr : SpellsEntries d (if isNullV v then names else k :: names) ents r) :
      SpellsEntries d names ((k, v) :: ents) (sep1 ++ (47 :: (nameBody k ch).1 ++ (sep2 ++ (sv ++ r))))
end

/-! ### first bytes -/

/-- bytes that can start a spelling -/
def tokStart (b : UInt8) : Bool :=
  isDigit b || b == 43 || b == 45 || b == 46 || b == 110 || b == 116 || b == 102 || b == 47 || b == 40 ||
  b == 60 || b == 91

def isNum : Obj → Bool
  | .int _ | .real _ _ | .ref _ _ => true
  | _ => false

theorem byte_cases (P : UInt8 → Prop) (h : ∀ n : Fin 256, P (UInt8.ofNat n.val)) (b : UInt8) : P b := by
  have := h ⟨b.toNat, b.toNat_lt⟩
  simpa only [UInt8.ofNat_toNat] using this

theorem tokStart_facts (b : UInt8) (h : tokStart b = true) :
    isWsEol b = false ∧ b ≠ 37 ∧ b ≠ 82 ∧ b ≠ 93 ∧ b ≠ 62 := by
  revert h
  apply byte_cases (fun b => tokStart b = true → isWsEol b = false ∧ b ≠ 37 ∧ b ≠ 82 ∧ b ≠ 93 ∧ b ≠ 62)
  decide +kernel

theorem digit_facts (b : UInt8) (h : isDigit b = true) :
    tokStart b = true ∧ isRegular b = true ∧ b ≠ 82 ∧ b ≠ 46 ∧ b ≠ 43 ∧ b ≠ 45 := by
  revert h
  apply byte_cases (fun b => isDigit b = true →
    tokStart b = true ∧ isRegular b = true ∧ b ≠ 82 ∧ b ≠ 46 ∧ b ≠ 43 ∧ b ≠ 45)
  decide +kernel

theorem hexDigit_regular (b : UInt8) (h : isHexDigit b = true) : isNameTerm b = false := by
  revert h
  apply byte_cases (fun b => isHexDigit b = true → isNameTerm b = false)
  decide +kernel

theorem ws_not_regular (b : UInt8) (h : isWsEol b = true) : isRegular b = false := by
  revert h
  apply byte_cases (fun b => isWsEol b = true → isRegular b = false)
  decide +kernel

/-- every byte of a name spelling is a regular character -/
theorem nameBody_regular (b : Bytes) (c : Ch) : ∀ y ∈ (nameBody b c).1, isNameTerm y = false := by
  induction b generalizing c with
  | nil => intro y hy; simp [nameBody] at hy
  | cons x t ih =>
    obtain ⟨raw, u1, u2, c', hc⟩ := nameBody_cons x t c
    intro y hy
    rw [hc, List.mem_append] at hy
    rcases hy with hy | hy
    · rcases encByte_cases x raw u1 u2 with ⟨he, hreg, -⟩ | he
      · rw [he] at hy; simp only [List.mem_singleton] at hy; subst hy
        simpa [isRegularByte] using hreg
      · rw [he] at hy
        have e := escape_decodes x u1 u2
        simp only [List.mem_cons, List.mem_nil_iff, or_false] at hy
        rcases hy with hy | hy | hy
        · subst hy; decide
        · subst hy; exact hexDigit_regular _ e.1
        · subst hy; exact hexDigit_regular _ e.2.1
    · exact ih c' y hy

theorem Spells.head {d : Nat} {v : Obj} {tok : Bytes} (h : Spells d v tok) :
    ∃ b t, tok = b :: t ∧ tokStart b = true ∧ (startsReg v = false → isRegular b = false) ∧
      (isNum v = false → isDigit b = false ∧ b ≠ 43 ∧ b ≠ 45) := by
  cases h with
  | null => exact ⟨110, _, rfl, by decide, by simp [startsReg], by decide⟩
  | tru => exact ⟨116, _, rfl, by decide, by simp [startsReg], by decide⟩
  | fls => exact ⟨102, _, rfl, by decide, by simp [startsReg], by decide⟩
  | int d sg ds hne hds hfit =>
    cases sg with
    | none =>
      cases ds with
      | nil => exact absurd rfl hne
      | cons y t =>
        exact ⟨y, t, rfl, (digit_facts y (hds y List.mem_cons_self)).1, by simp [startsReg], by simp [isNum]⟩
    | plus => exact ⟨43, ds, rfl, by decide, by simp [startsReg], by simp [isNum]⟩
    | minus => exact ⟨45, ds, rfl, by decide, by simp [startsReg], by simp [isNum]⟩
  | real d sg ds fs hfne hds hfs hfit hden =>
    cases sg with
    | none =>
      cases ds with
      | nil => exact ⟨46, fs, rfl, by decide, by simp [startsReg], by simp [isNum]⟩
      | cons y t =>
        exact ⟨y, _, rfl, (digit_facts y (hds y List.mem_cons_self)).1, by simp [startsReg], by simp [isNum]⟩
    | plus => exact ⟨43, _, rfl, by decide, by simp [startsReg], by simp [isNum]⟩
    | minus => exact ⟨45, _, rfl, by decide, by simp [startsReg], by simp [isNum]⟩
  | name d b ch hb => exact ⟨47, _, rfl, by decide, fun _ => by decide, fun _ => by decide⟩
  | lit d body hb => exact ⟨40, _, rfl, by decide, fun _ => by decide, fun _ => by decide⟩
  | hex d body hb => exact ⟨60, _, rfl, by decide, fun _ => by decide, fun _ => by decide⟩
  | ref d ds1 w1 ds2 w2 h1ne h1 =>
    cases ds1 with
    | nil => exact absurd rfl h1ne
    | cons y t =>
      exact ⟨y, _, rfl, (digit_facts y (h1 y List.mem_cons_self)).1, by simp [startsReg], by simp [isNum]⟩
  | arr d xs body h => exact ⟨91, _, rfl, by decide, fun _ => by decide, fun _ => by decide⟩
  | dict d ents body sep h hsep => exact ⟨60, _, rfl, by decide, fun _ => by decide, fun _ => by decide⟩

theorem Spells.pos {d : Nat} {v : Obj} {tok : Bytes} (h : Spells d v tok) : 1 ≤ d := by
  cases h <;> omega

/-! ## parser-level helper steps -/

theorem lookAhead_pre (pre s : Bytes) (i : Nat) : lookAhead (pre ++ s) (pre.length + i) = lookAhead s i := by
  unfold lookAhead
  rw [Parsley.Shift.wsEOL_pre]
  cases h1 : wsEOL false s i with
  | mk r1 j1 =>
    cases r1 with
    | err e => simp [Parsley.Shift.shift]
    | panic q => simp [Parsley.Shift.shift]
    | ok u =>
      simp only [Parsley.Shift.shift]
      rw [Parsley.Shift.integerP_pre]
      cases h2 : integerP s j1 with
      | mk r2 j2 =>
        cases r2 with
        | err e => simp [Parsley.Shift.shift]
        | panic q => simp [Parsley.Shift.shift]
        | ok g =>
          simp only [Parsley.Shift.shift]
          rw [Parsley.Shift.wsEOL_pre]
          cases h3 : wsEOL false s j2 with
          | mk r3 j3 =>
            cases r3 with
            | err e => simp [Parsley.Shift.shift]
            | panic q => simp [Parsley.Shift.shift]
            | ok u3 =>
              simp only [Parsley.Shift.shift, Parsley.Shift.startsWith_pre]
              rw [Nat.add_assoc, Parsley.Shift.peek_pre]

/-- whitespace at an offset, with the buffer given up to equality -/
theorem ws_at' (e : Bool) (s pre lead rest : Bytes) (hs : s = pre ++ (lead ++ rest)) (hlead : WsRun lead)
    (hrest : ∀ b, rest.head? = some b → isWsEol b = false ∧ b ≠ 37) (hne : lead ≠ [] ∨ e = true) :
    wsEOL e s pre.length = (.ok ⟨(), pre.length, pre.length + lead.length⟩, pre.length + lead.length) := by
  subst hs; exact ws_at e pre lead rest hlead hrest hne

theorem peek_at (s pre rest : Bytes) (hs : s = pre ++ rest) : peek s pre.length = rest.head? := by
  subst hs; exact peek_append pre rest

/-- `exact` fails when the byte at the cursor differs from the first byte of the tag -/
theorem exact_head_ne (c : UInt8) (tag s : Bytes) (i : Nat) (h : peek s i ≠ some c) :
    exact (c :: tag) s i = (false, i) := by
  unfold exact startsWith
  have hp : peek s i = (s.drop i).head? := by simp [peek, List.head?_drop]
  rw [hp] at h
  cases hd : s.drop i with
  | nil => simp [List.isPrefixOf]
  | cons y t =>
    rw [hd] at h
    have : y ≠ c := by intro hh; subst hh; exact h rfl
    simp [List.isPrefixOf, this.symm]

theorem exact_at (tag s pre rest : Bytes) (hs : s = pre ++ (tag ++ rest)) :
    exact tag s pre.length = (true, pre.length + tag.length) := by
  subst hs
  have := Parsley.Shift.exact_pre pre (tag ++ rest) 0 tag
  simp only [Nat.add_zero] at this
  rw [this, exact_prefix]

/-- `IntegerP` fails on anything that does not start with a sign or a digit -/
theorem integerP_err (s : Bytes) (h : ∀ b, s.head? = some b → isDigit b = false ∧ b ≠ 43 ∧ b ≠ 45) :
    integerP s 0 = (.err .guard, 0) := by
  unfold integerP signPrefix allowed
  cases s with
  | nil => simp [peek]
  | cons b t =>
    obtain ⟨h1, h2, h3⟩ := h b rfl
    simp [peek, h1, h2, h3]

theorem nonreg_facts (b : UInt8) (h : isRegular b = false) :
    isDigit b = false ∧ b ≠ 46 ∧ b ≠ 43 ∧ b ≠ 45 ∧ b ≠ 82 ∧ isNameTerm b = true := by
  revert h
  apply byte_cases (fun b => isRegular b = false →
    isDigit b = false ∧ b ≠ 46 ∧ b ≠ 43 ∧ b ≠ 45 ∧ b ≠ 82 ∧ isNameTerm b = true)
  decide +kernel

/-- the head of a non-empty whitespace run is a whitespace byte or '%' -/
theorem wsRun_head (w rest : Bytes) (hw : WsRun w) (hne : w ≠ []) :
    ∀ y, (w ++ rest).head? = some y → isRegular y = false := by
  intro y hy
  cases hw with
  | nil => exact absurd rfl hne
  | ws b t hb _ => simp at hy; subst hy; exact ws_not_regular _ hb
  | comment body t _ _ => simp at hy; subst hy; decide

/-! ## the parser-level context condition -/

/-- what the parser needs from the bytes after a token: a token that ends in a regular character is
    followed by a non-regular byte or the end of the buffer; after an integer the reference
    look-ahead fails -/
def CtxOK (v : Obj) (rest : Bytes) : Prop :=
  (endsReg v = true → ∀ y, rest.head? = some y → isRegular y = false) ∧
  ((∃ n, v = .int n) → lookAhead rest 0 = false)

/-! ## scalars through the dispatcher -/

theorem parseInternal_kw (el : Elem) (cur : Nat) (ctx : Bytes) :
    parseInternal el cur (kwTrue ++ ctx) 0 = ((.ok (.bool true), 4), cur) ∧
    parseInternal el cur (kwFalse ++ ctx) 0 = ((.ok (.bool false), 5), cur) ∧
    parseInternal el cur (kwNull ++ ctx) 0 = ((.ok .null, 4), cur) := by
  refine ⟨?_, ?_, ?_⟩
  · unfold parseInternal
    have hp : peek (kwTrue ++ ctx) 0 = some 116 := rfl
    simp only [hp, beq_self_eq_true, Bool.true_or, if_true, boolean, exact_prefix kwTrue ctx]
    rfl
  · unfold parseInternal
    have hp : peek (kwFalse ++ ctx) 0 = some 102 := rfl
    have hno : exact kwTrue (kwFalse ++ ctx) 0 = (false, 0) := by
      simp [exact, startsWith, kwTrue, kwFalse, List.isPrefixOf]
    simp only [hp, beq_self_eq_true, Bool.or_true, if_true, boolean, hno, exact_prefix kwFalse ctx]
    rfl
  · unfold parseInternal
    have hp : peek (kwNull ++ ctx) 0 = some 110 := rfl
    simp only [hp, show ((110 : UInt8) == 116 || (110 : UInt8) == 102) = false by decide, beq_self_eq_true,
      Bool.false_eq_true, if_false, if_true, null, exact_prefix kwNull ctx]
    rfl

/-- an integer token followed by a non-regular byte (or nothing), when the look-ahead fails -/
theorem parseInternal_int_la (el : Elem) (cur : Nat) (sg : Sign) (ds rest : Bytes) (hne : ds ≠ [])
    (hds : ∀ y ∈ ds, isDigit y = true) (hfit : digitsVal ds 0 ≤ i64Max)
    (hctx : ∀ y, rest.head? = some y → isRegular y = false) (hla : lookAhead rest 0 = false) :
    parseInternal el cur (sg.bytes ++ ds ++ rest) 0 =
      ((.ok (.int (sg.apply (digitsVal ds 0))), sg.bytes.length + ds.length), cur) := by
  have h128 : digitsVal ds 0 ≤ i128Max := by
    have : i64Max ≤ i128Max := by decide
    omega
  obtain ⟨c0, hc0, hcls⟩ : ∃ c0, peek (sg.bytes ++ ds ++ rest) 0 = some c0 ∧
      (isDigit c0 = true ∨ c0 = 45 ∨ c0 = 43 ∨ c0 = 46) := by
    cases sg with
    | none =>
      cases ds with
      | nil => exact absurd rfl hne
      | cons d t => exact ⟨d, rfl, Or.inl (hds d (List.mem_cons_self))⟩
    | plus => exact ⟨43, rfl, Or.inr (Or.inr (Or.inl rfl))⟩
    | minus => exact ⟨45, rfl, Or.inr (Or.inl rfl)⟩
  rw [parseInternal_number el cur _ c0 hc0 hcls]
  have hreal := real_nodot_spec sg ds rest hne hds
    (fun y hy => ⟨(nonreg_facts y (hctx y hy)).1, (nonreg_facts y (hctx y hy)).2.1⟩) h128
  have hrange : -(2 ^ 63 : Int) ≤ sg.apply (digitsVal ds 0) ∧ sg.apply (digitsVal ds 0) ≤ (2 ^ 63 - 1 : Int) := by
    have e63 : (2 : Int) ^ 63 = 9223372036854775808 := by decide
    have : (digitsVal ds 0 : Int) ≤ 9223372036854775807 := by
      have h := hfit; unfold i64Max at h; omega
    rw [e63]
    cases sg <;> simp [Sign.apply] <;> omega
  rw [numberOrRef_after_int _ 0 _ _ (Nat.zero_le _) hreal hrange]
  have : lookAhead (sg.bytes ++ ds ++ rest) (sg.bytes.length + ds.length) = false := by
    have := lookAhead_pre (sg.bytes ++ ds) rest 0
    simp only [List.length_append, Nat.add_zero] at this
    rw [this, hla]
  rw [this]
  simp

/-! ## (2) the reference look-ahead on structured continuations -/

/-- the second half of the look-ahead: non-empty whitespace, then `R` ending its token -/
def la2 (s : Bytes) (j2 : Nat) : Bool :=
  match wsEOL false s j2 with
  | (.ok _, j3) => startsWith [82] s j3 && !((peek s (j3 + 1)).any isRegular)
  | _ => false

theorem lookAhead_ws_err (s : Bytes) (j : Nat) (k : ErrK) (j' : Nat) (h : wsEOL false s j = (.err k, j')) :
    lookAhead s j = false := by
  unfold lookAhead; rw [h]

theorem lookAhead_int_err (s : Bytes) (j j1 j1' : Nat) (u : Located Unit) (k : ErrK)
    (h1 : wsEOL false s j = (.ok u, j1)) (h2 : integerP s j1 = (.err k, j1')) : lookAhead s j = false := by
  unfold lookAhead; rw [h1]; simp only; rw [h2]

theorem lookAhead_steps (s : Bytes) (j j1 j2 : Nat) (u : Located Unit) (g : Located Int)
    (h1 : wsEOL false s j = (.ok u, j1)) (h2 : integerP s j1 = (.ok g, j2)) : lookAhead s j = la2 s j2 := by
  unfold lookAhead la2; rw [h1]; simp only; rw [h2]; simp only
  cases wsEOL false s j2 with
  | mk r j3 => cases r <;> rfl

theorem startsWith_head_ne (c : UInt8) (tag s : Bytes) (i : Nat) (h : peek s i ≠ some c) :
    startsWith (c :: tag) s i = false := by
  have := exact_head_ne c tag s i h
  unfold exact at this
  split at this
  · simp at this
  · rename_i hh; simpa using hh

/-- no whitespace at the cursor: `WhitespaceEOL(false)` fails -/
theorem ws_at_none (s pre rest : Bytes) (hs : s = pre ++ rest)
    (hrest : ∀ b, rest.head? = some b → isWsEol b = false ∧ b ≠ 37) :
    wsEOL false s pre.length = (.err .guard, pre.length) := by
  subst hs
  have h := Parsley.Shift.wsEOL_pre pre rest 0 false
  simp only [Nat.add_zero] at h
  rw [h, wsEOL_eq false _ 0 (Nat.zero_le _)]
  have := skipWs_run [] rest WsRun.nil hrest
  simp only [List.nil_append, List.length_nil] at this
  simp [this, Parsley.Shift.shift]

/-- after the second integer: a whitespace run and then something that does not start with `R` -/
theorem la2_tail (s pre sep u : Bytes) (hs : s = pre ++ (sep ++ u)) (hsep : WsRun sep)
    (hu : ∀ b, u.head? = some b → isWsEol b = false ∧ b ≠ 37 ∧ b ≠ 82) : la2 s pre.length = false := by
  have hu' : ∀ b, u.head? = some b → isWsEol b = false ∧ b ≠ 37 := fun b hb => ⟨(hu b hb).1, (hu b hb).2.1⟩
  unfold la2
  by_cases hne : sep = []
  · subst hne
    rw [ws_at_none s pre u (by simpa using hs) hu']
  · rw [ws_at' false s pre sep u hs hsep hu' (Or.inl hne)]
    simp only
    have hp : peek s (pre.length + sep.length) = u.head? := by
      have := peek_at s (pre ++ sep) u (by rw [hs, List.append_assoc])
      simpa using this
    have : startsWith [82] s (pre.length + sep.length) = false := by
      apply startsWith_head_ne
      rw [hp]
      intro hh
      exact (hu 82 hh).2.2 rfl
    simp [this]

/-- a signed integer token at an offset -/
theorem int_at_sg (s pre : Bytes) (sg : Sign) (ds ctx : Bytes) (hs : s = pre ++ (sg.bytes ++ ds ++ ctx))
    (hne : ds ≠ []) (hds : ∀ y ∈ ds, isDigit y = true) (hctx : ∀ y, ctx.head? = some y → isDigit y = false) :
    integerP s pre.length =
      if digitsVal ds 0 ≤ i64Max then
        (.ok ⟨sg.apply (digitsVal ds 0), pre.length, pre.length + (sg.bytes.length + ds.length)⟩,
          pre.length + (sg.bytes.length + ds.length))
      else (.err .guard, pre.length) := by
  subst hs
  have h := Parsley.Shift.integerP_pre pre (sg.bytes ++ ds ++ ctx) 0
  simp only [Nat.add_zero] at h
  rw [h, integer_spec sg ds ctx hne hds hctx]
  split <;> simp [Parsley.Shift.shift]

/-- sign without digits: `IntegerP` fails -/
theorem integerP_nodigits (s pre : Bytes) (sg : Sign) (ctx : Bytes) (hs : s = pre ++ (sg.bytes ++ ctx))
    (hctx : ∀ y, ctx.head? = some y → isDigit y = false ∧ y ≠ 45 ∧ y ≠ 43) :
    integerP s pre.length = (.err .guard, pre.length) := by
  subst hs
  have h := Parsley.Shift.integerP_pre pre (sg.bytes ++ ctx) 0
  simp only [Nat.add_zero] at h
  rw [h]
  have : integerP (sg.bytes ++ ctx) 0 = (.err .guard, 0) := by
    unfold integerP
    rw [signPrefix_spec sg ctx (fun y hy => ⟨(hctx y hy).2.1, (hctx y hy).2.2⟩)]
    simp only
    have := allowed_append isDigit sg.bytes [] ctx (by simp) (fun y hy => (hctx y hy).1)
    simp only [List.append_nil] at this
    rw [this]
    simp
  rw [this]; simp [Parsley.Shift.shift]

/-- the look-ahead fails before anything that does not start with a sign or a digit -/
theorem lookAhead_closer (sep u : Bytes) (hsep : WsRun sep)
    (hu : ∀ b, u.head? = some b → isWsEol b = false ∧ b ≠ 37 ∧ isDigit b = false ∧ b ≠ 43 ∧ b ≠ 45) :
    lookAhead (sep ++ u) 0 = false := by
  have hu' : ∀ b, u.head? = some b → isWsEol b = false ∧ b ≠ 37 := fun b hb => ⟨(hu b hb).1, (hu b hb).2.1⟩
  by_cases hne : sep = []
  · subst hne
    exact lookAhead_ws_err _ _ _ _ (ws_at_none _ [] u rfl hu')
  · have h1 := ws_at' false (sep ++ u) [] sep u rfl hsep hu' (Or.inl hne)
    have h2 : integerP (sep ++ u) sep.length = (.err .guard, sep.length) := by
      have h := Parsley.Shift.integerP_pre sep u 0
      simp only [Nat.add_zero] at h
      rw [h, integerP_err u (fun b hb => (hu b hb).2.2)]
      simp [Parsley.Shift.shift]
    simp only [List.length_nil, Nat.zero_add] at h1
    exact lookAhead_int_err _ _ _ _ _ _ h1 h2

/-- what can follow a token inside a container: a whitespace run, then the end of the buffer or a
    byte that is not whitespace, '%' or 'R'; when the previous token ends in a regular character
    and the run is empty, that byte is not regular -/
def TailP (p : Bool) (t : Bytes) : Prop :=
  ∃ sep u, t = sep ++ u ∧ WsRun sep ∧ (∀ b, u.head? = some b → isWsEol b = false ∧ b ≠ 37 ∧ b ≠ 82) ∧
    (p = true → sep = [] → ∀ b, u.head? = some b → isRegular b = false)

theorem TailP.head_nonreg {t : Bytes} (h : TailP true t) : ∀ y, t.head? = some y → isRegular y = false := by
  obtain ⟨sep, u, rfl, hsep, -, hp⟩ := h
  by_cases hne : sep = []
  · subst hne; simpa using hp rfl rfl
  · exact wsRun_head sep u hsep hne

/-- **no look-ahead inside containers**: a whitespace run, any legal spelling, and a continuation
    that does not start with `R` — the reference look-ahead of a preceding integer fails, because
    no spelling starts with `R` (the second number of `1 2 R` is followed by `R`, but then the
    first is not parsed as an integer element at all). -/
theorem lookAhead_sep_tok (sep : Bytes) (hsep : WsRun sep) {d : Nat} {x : Obj} {sx : Bytes} (hx : Spells d x sx)
    (t : Bytes) (ht : TailP (endsReg x) t) : lookAhead (sep ++ (sx ++ t)) 0 = false := by
  obtain ⟨b0, tl, hsx, hstart, -, hnum⟩ := hx.head
  obtain ⟨f1, f2, f3, -, -⟩ := tokStart_facts b0 hstart
  have hhead : ∀ b, (sx ++ t).head? = some b → isWsEol b = false ∧ b ≠ 37 := by
    intro b hb; rw [hsx] at hb; simp at hb; subst hb; exact ⟨f1, f2⟩
  by_cases hne : sep = []
  · subst hne
    exact lookAhead_ws_err _ _ _ _ (ws_at_none _ [] (sx ++ t) rfl hhead)
  have h1 := ws_at' false (sep ++ (sx ++ t)) [] sep (sx ++ t) rfl hsep hhead (Or.inl hne)
  simp only [List.length_nil, Nat.zero_add] at h1
  by_cases hn : isNum x = false
  · apply lookAhead_closer sep (sx ++ t) hsep
    intro b hb
    have := hhead b hb
    rw [hsx] at hb; simp at hb; subst hb
    exact ⟨this.1, this.2, hnum hn⟩
  obtain ⟨sep', u', ht', hsep', hu', hp'⟩ := ht
  cases hx with
  | null | tru | fls | name | lit | hex | arr | dict => simp [isNum] at hn
  | int d sg ds hne' hds hfit =>
    have hth : ∀ y, t.head? = some y → isDigit y = false := fun y hy =>
      (nonreg_facts y (TailP.head_nonreg ⟨sep', u', ht', hsep', hu', hp'⟩ y hy)).1
    have h2 := int_at_sg (sep ++ (sg.bytes ++ ds ++ t)) sep sg ds t rfl hne' hds hth
    rw [if_pos hfit] at h2
    rw [lookAhead_steps _ _ _ _ _ _ h1 h2]
    have := la2_tail (sep ++ (sg.bytes ++ ds ++ t)) (sep ++ (sg.bytes ++ ds)) sep' u'
      (by rw [ht']; simp [List.append_assoc]) hsep' hu'
    simpa [Nat.add_assoc] using this
  | real d sg ds fs hfne hds hfs hfit hden =>
    by_cases hde : ds = []
    · subst hde
      have h2 := integerP_nodigits (sep ++ (sg.bytes ++ [] ++ [46] ++ fs ++ t)) sep sg ([46] ++ fs ++ t)
        (by simp [List.append_assoc]) (by intro y hy; simp at hy; subst hy; decide)
      exact lookAhead_int_err _ _ _ _ _ _ h1 h2
    · have h2 := int_at_sg (sep ++ (sg.bytes ++ ds ++ [46] ++ fs ++ t)) sep sg ds ([46] ++ fs ++ t)
        (by simp [List.append_assoc]) hde hds (by intro y hy; simp at hy; subst hy; decide)
      by_cases hfit64 : digitsVal ds 0 ≤ i64Max
      · rw [if_pos hfit64] at h2
        rw [lookAhead_steps _ _ _ _ _ _ h1 h2]
        have := la2_tail (sep ++ (sg.bytes ++ ds ++ [46] ++ fs ++ t)) (sep ++ (sg.bytes ++ ds)) [] ([46] ++ fs ++ t)
          (by simp [List.append_assoc]) WsRun.nil (by intro b hb; simp at hb; subst hb; decide)
        simpa [Nat.add_assoc] using this
      · rw [if_neg hfit64] at h2
        exact lookAhead_int_err _ _ _ _ _ _ h1 h2
  | ref d ds1 w1 ds2 w2 h1ne h1d f1' h2ne h2d f2' hw1 hw1ne hw2 hw2ne =>
    have h2 := int_at_sg (sep ++ (ds1 ++ (w1 ++ (ds2 ++ (w2 ++ [82]))) ++ t)) sep .none ds1
      (w1 ++ (ds2 ++ (w2 ++ [82])) ++ t) (by simp [Sign.bytes, List.append_assoc]) h1ne h1d
      (fun y hy => (wsRun_head_not w1 ((ds2 ++ (w2 ++ [82])) ++ t) hw1 hw1ne y
        (by rw [List.append_assoc] at hy; exact hy)).1)
    rw [if_pos f1'] at h2
    rw [lookAhead_steps _ _ _ _ _ _ h1 h2]
    have := la2_tail (sep ++ (ds1 ++ (w1 ++ (ds2 ++ (w2 ++ [82]))) ++ t)) (sep ++ ds1) w1 (ds2 ++ (w2 ++ [82]) ++ t)
      (by simp [List.append_assoc]) hw1
      (by
        intro b hb
        cases ds2 with
        | nil => exact absurd rfl h2ne
        | cons y tl =>
          simp at hb; subst hb
          have := digit_facts _ (h2d _ List.mem_cons_self)
          have t1 := tokStart_facts _ this.1
          exact ⟨t1.1, t1.2.1, this.2.2.1⟩)
    simpa [Sign.bytes, Nat.add_assoc] using this

/-! ### continuations inside arrays and dictionaries -/

theorem elems_tail {d : Nat} {p : Bool} {xs : List Obj} {r : Bytes} (h : SpellsElems d p xs r) (rest : Bytes) :
    TailP p (r ++ rest) := by
  cases h with
  | nil d p sep hsep =>
    refine ⟨sep, 93 :: rest, by simp, hsep, ?_, ?_⟩
    · intro b hb; simp at hb; subst hb; decide
    · intro _ _ b hb; simp at hb; subst hb; decide
  | cons d p x xs sep sx r' hsep hx hreq hr =>
    obtain ⟨b0, tl, hsx, hstart, hsr, -⟩ := hx.head
    obtain ⟨f1, f2, f3, -, -⟩ := tokStart_facts b0 hstart
    refine ⟨sep, sx ++ r' ++ rest, by simp [List.append_assoc], hsep, ?_, ?_⟩
    · intro b hb; rw [hsx] at hb; simp at hb; subst hb; exact ⟨f1, f2, f3⟩
    · intro hp hs b hb
      rw [hsx] at hb; simp at hb; subst hb
      apply hsr
      cases hsv : startsReg x with
      | false => rfl
      | true => exact absurd hs (hreq hp hsv)

/-- inside a legally spelled array the look-ahead never fires -/
theorem lookAhead_elems {d : Nat} {p : Bool} {xs : List Obj} {r : Bytes} (h : SpellsElems d p xs r) (rest : Bytes) :
    lookAhead (r ++ rest) 0 = false := by
  cases h with
  | nil d p sep hsep =>
    have := lookAhead_closer sep (93 :: rest) hsep (by intro b hb; simp at hb; subst hb; decide)
    simpa [List.append_assoc] using this
  | cons d p x xs sep sx r' hsep hx hreq hr =>
    have := lookAhead_sep_tok sep hsep hx (r' ++ rest) (elems_tail hr rest)
    simpa [List.append_assoc] using this

theorem elems_ctx {d : Nat} {x : Obj} {xs : List Obj} {r : Bytes} (h : SpellsElems d (endsReg x) xs r) (rest : Bytes) :
    CtxOK x (r ++ rest) := by
  refine ⟨?_, fun _ => lookAhead_elems h rest⟩
  intro he
  have := elems_tail h rest
  rw [he] at this
  exact this.head_nonreg

/-- what follows a value inside a dictionary: a whitespace run, then a key or `>>` -/
def DictTail (t : Bytes) : Prop :=
  ∃ sep u, t = sep ++ u ∧ WsRun sep ∧ (∃ u', u = 47 :: u' ∨ u = 62 :: u')

theorem DictTail.ctx {t : Bytes} (h : DictTail t) (v : Obj) : CtxOK v t := by
  obtain ⟨sep, u, rfl, hsep, u', hu⟩ := h
  have hh : ∀ b, u.head? = some b → b = 47 ∨ b = 62 := by
    intro b hb
    rcases hu with hu | hu <;> (rw [hu] at hb; simp at hb; subst hb; simp)
  constructor
  · intro _
    apply TailP.head_nonreg
    refine ⟨sep, u, rfl, hsep, ?_, ?_⟩
    · intro b hb; rcases hh b hb with h | h <;> (subst h; decide)
    · intro _ _ b hb; rcases hh b hb with h | h <;> (subst h; decide)
  · intro _
    apply lookAhead_closer sep u hsep
    intro b hb; rcases hh b hb with h | h <;> (subst h; decide)

theorem entries_tail {d : Nat} {names : List Bytes} {ents : List (Bytes × Obj)} {r : Bytes}
    (h : SpellsEntries d names ents r) (rest : Bytes) (hrest : DictTail rest) : DictTail (r ++ rest) := by
  cases h with
  | nil => simpa using hrest
  | cons d names k v ents sep1 ch sep2 sv r' hsep1 =>
    exact ⟨sep1, 47 :: ((nameBody k ch).1 ++ (sep2 ++ (sv ++ (r' ++ rest)))), by simp [List.append_assoc], hsep1,
      _, Or.inl rfl⟩

theorem entries_length {d : Nat} {names : List Bytes} {ents : List (Bytes × Obj)} {r : Bytes}
    (h : SpellsEntries d names ents r) : ents.length ≤ r.length := by
  induction ents generalizing names r with
  | nil => exact Nat.zero_le _
  | cons e t ih =>
    cases h with
    | cons d names k v ents sep1 ch sep2 sv r' hsep1 hk hnew hsep2 hv hreq hr =>
      have := ih hr
      simp only [List.length_cons, List.length_append]
      omega

/-! ## (3) the main induction -/

/-- the statement proved by strong induction on the length of the spelling: the dispatcher, run
    inside the depth wrapper at context depth `cur`, on a legal spelling followed by a legal
    context -/
def CoreAt (n : Nat) : Prop :=
  ∀ (d : Nat) (v : Obj) (tok : Bytes), tok.length ≤ n → Spells d v tok →
    ∀ (max cur : Nat) (rest : Bytes), CtxOK v rest → cur + d ≤ max + 1 →
      parseInternal (parseObjB max (max - cur)) cur (tok ++ rest) 0 = ((.ok v, tok.length), cur)

/-- one nested `parse_pdf_obj` call at an offset, on a legal spelling -/
theorem elem_ok {n : Nat} (hcore : CoreAt n) {d : Nat} {x : Obj} {sx : Bytes} (hx : Spells d x sx)
    (hlen : sx.length ≤ n) (max cur : Nat) (t : Bytes) (hctx : CtxOK x t) (hd : cur + d ≤ max)
    (s pre : Bytes) (hs : s = pre ++ (sx ++ t)) :
    parseObjB max (max - cur) cur s pre.length =
      ((.ok ⟨x, pre.length, pre.length + sx.length⟩, pre.length + sx.length), cur) := by
  subst hs
  have hpos := hx.pos
  obtain ⟨b0, tl, hsx, hstart, -, -⟩ := hx.head
  obtain ⟨f1, f2, -, -, -⟩ := tokStart_facts b0 hstart
  have h0 : parseObjB max (max - cur) cur (sx ++ t) 0 = ((.ok ⟨x, 0, sx.length⟩, sx.length), cur) := by
    obtain ⟨b, hb⟩ : ∃ b, max - cur = b + 1 := ⟨max - cur - 1, by omega⟩
    have hb' : b = max - (cur + 1) := by omega
    rw [hb]
    unfold parseObjB
    have hne : (cur == max) = false := by simp; omega
    simp only [hne, Bool.false_eq_true, if_false]
    unfold objParse
    have hws : wsEOL true (sx ++ t) 0 = (.ok ⟨(), 0, 0⟩, 0) := by
      have := ws_at' true (sx ++ t) [] [] (sx ++ t) rfl WsRun.nil
        (by intro b hb; rw [hsx] at hb; simp at hb; subst hb; exact ⟨f1, f2⟩) (Or.inr rfl)
      simpa using this
    rw [hws]
    simp only
    rw [hb', hcore d x sx hlen hx max (cur + 1) t hctx (by omega)]
    simp [leaveObj]
  have := Parsley.Shift.parseObjB_pre pre max (max - cur) cur (sx ++ t) 0
  simp only [Nat.add_zero] at this
  rw [this, h0]
  simp [Parsley.Shift.shiftR, Parsley.Shift.shift]

/-- the element loop of `ArrayP` on a legally spelled element list -/
theorem arrayLoop_spells {n : Nat} (hcore : CoreAt n) (max cur d : Nat) (hd : cur + d ≤ max) :
    ∀ (xs : List Obj) (p : Bool) (body : Bytes), body.length ≤ n → SpellsElems d p xs body →
      ∀ (f : Nat) (acc : List Obj) (rest : Bytes), body.length ≤ f →
        arrayLoop (parseObjB max (max - cur)) f cur (body ++ rest) 0 acc =
          ((.ok (acc.reverse ++ xs), body.length), cur) := by
  intro xs
  induction xs with
  | nil =>
    intro p body hn hsp f acc rest hf
    cases hsp with
    | nil d p sep hsep =>
      obtain ⟨f', rfl⟩ : ∃ f', f = f' + 1 := ⟨f - 1, by simp at hf; omega⟩
      unfold arrayLoop
      have h1 := ws_at' true (sep ++ [93] ++ rest) [] sep (93 :: rest) (by simp) hsep
        (by intro b hb; simp at hb; subst hb; decide) (Or.inr rfl)
      simp only [List.length_nil, Nat.zero_add] at h1
      rw [h1]
      simp only
      rw [exact_at [93] (sep ++ [93] ++ rest) sep rest (by simp)]
      simp
  | cons x xs ih =>
    intro p body hn hsp f acc rest hf
    cases hsp with
    | cons d p x xs sep sx r hsep hx hreq hr =>
      obtain ⟨b0, tl, hsx, hstart, -, -⟩ := hx.head
      obtain ⟨f1, f2, -, f4, -⟩ := tokStart_facts b0 hstart
      have hsxpos : 1 ≤ sx.length := by rw [hsx]; simp
      simp only [List.length_append] at hn hf
      obtain ⟨f', rfl⟩ : ∃ f', f = f' + 1 := ⟨f - 1, by omega⟩
      have hs : sep ++ (sx ++ r) ++ rest = sep ++ (sx ++ (r ++ rest)) := by simp [List.append_assoc]
      rw [hs]
      unfold arrayLoop
      have h1 := ws_at' true (sep ++ (sx ++ (r ++ rest))) [] sep (sx ++ (r ++ rest)) rfl hsep
        (by intro b hb; rw [hsx] at hb; simp at hb; subst hb; exact ⟨f1, f2⟩) (Or.inr rfl)
      simp only [List.length_nil, Nat.zero_add] at h1
      rw [h1]
      simp only
      have h2 : exact [93] (sep ++ (sx ++ (r ++ rest))) sep.length = (false, sep.length) := by
        apply exact_head_ne
        rw [peek_at _ sep (sx ++ (r ++ rest)) rfl, hsx]
        simp; exact f4
      rw [h2]
      simp only
      rw [elem_ok hcore hx (by omega) max cur (r ++ rest) (elems_ctx hr rest) hd _ sep rfl]
      simp only
      have h3 := Parsley.Shift.arrayLoop_pre (sep ++ sx) (r ++ rest) 0 (parseObjB max (max - cur))
        (Parsley.Shift.parseObjB_pre (sep ++ sx) max (max - cur)) f' cur (x :: acc)
      simp only [List.length_append, Nat.add_zero, List.append_assoc] at h3
      rw [h3, ih (endsReg x) r (by omega) hr f' (x :: acc) rest (by omega)]
      simp [Parsley.Shift.shiftL, Nat.add_assoc]

theorem shiftL_add {α : Type} (a b : Nat) (x : (Res α × Nat) × Nat) :
    Parsley.Shift.shiftL a (Parsley.Shift.shiftL b x) = Parsley.Shift.shiftL (a + b) x := by
  obtain ⟨⟨r, k⟩, c⟩ := x
  simp [Parsley.Shift.shiftL, Nat.add_assoc]

/-- the entry loop of `DictP` on legally spelled entries: after the entries the loop continues on
    the rest with the accumulated key set and map (one unit of fuel per entry) -/
theorem dictLoop_spells {n : Nat} (hcore : CoreAt n) (max cur d : Nat) (hd : cur + d ≤ max) :
    ∀ (ents : List (Bytes × Obj)) (names : List Bytes) (body : Bytes), body.length ≤ n →
      SpellsEntries d names ents body →
      ∀ (g : Nat) (map : List (Bytes × Obj)) (rest : Bytes), DictTail rest →
        dictLoop (parseObjB max (max - cur)) (ents.length + g) cur (body ++ rest) 0 names map =
          Parsley.Shift.shiftL body.length
            (dictLoop (parseObjB max (max - cur)) g cur rest 0 (accNames names ents) (accMap map ents)) := by
  intro ents
  induction ents with
  | nil =>
    intro names body hn hsp g map rest hrest
    cases hsp with
    | nil =>
      simp only [List.length_nil, Nat.zero_add, List.nil_append, accNames, accMap]
      cases dictLoop (parseObjB max (max - cur)) g cur rest 0 names map with
      | mk a c => obtain ⟨r, k⟩ := a; simp [Parsley.Shift.shiftL]
  | cons e ents ih =>
    intro names body hn hsp g map rest hrest
    cases hsp with
    | cons d names k v ents sep1 ch sep2 sv r hsep1 hk hnew hsep2 hv hreq hr =>
      obtain ⟨b0, tl, hsv, hstart, hsr, -⟩ := hv.head
      obtain ⟨f1, f2, -, -, -⟩ := tokStart_facts b0 hstart
      simp only [List.length_append, List.length_cons] at hn
      have hfuel : ((k, v) :: ents).length + g = (ents.length + g) + 1 := by simp; omega
      rw [hfuel]
      -- the buffer, right-nested
      have hs : sep1 ++ (47 :: (nameBody k ch).1 ++ (sep2 ++ (sv ++ r))) ++ rest =
          sep1 ++ (47 :: (nameBody k ch).1 ++ (sep2 ++ (sv ++ (r ++ rest)))) := by simp [List.append_assoc]
      rw [hs]
      generalize hS : sep1 ++ (47 :: (nameBody k ch).1 ++ (sep2 ++ (sv ++ (r ++ rest)))) = S
      have hS' := hS.symm
      conv => lhs; unfold dictLoop
      -- leading whitespace
      have h1 := ws_at' true S [] sep1 (47 :: (nameBody k ch).1 ++ (sep2 ++ (sv ++ (r ++ rest)))) (by simpa using hS')
        hsep1 (by intro b hb; simp at hb; subst hb; decide) (Or.inr rfl)
      simp only [List.length_nil, Nat.zero_add] at h1
      rw [h1]
      simp only
      -- not `>>`
      have h2 : exact [62, 62] S sep1.length = (false, sep1.length) := by
        apply exact_head_ne
        rw [peek_at S sep1 _ hS']
        simp
      rw [h2]
      simp only
      -- the key
      have hterm : ∀ y, (sep2 ++ (sv ++ (r ++ rest))).head? = some y → isNameTerm y = true := by
        intro y hy
        by_cases hne : sep2 = []
        · subst hne
          rw [hsv] at hy; simp at hy; subst hy
          have : startsReg v = false := by
            cases hsv' : startsReg v with
            | false => rfl
            | true => exact absurd rfl (hreq hsv')
          exact (nonreg_facts _ (hsr this)).2.2.2.2.2
        · exact (nonreg_facts _ (wsRun_head sep2 _ hsep2 hne y hy)).2.2.2.2.2
      have h3 : nameP S sep1.length =
          (.ok ⟨k, sep1.length, sep1.length + ((nameBody k ch).1.length + 1)⟩,
            sep1.length + ((nameBody k ch).1.length + 1)) := by
        rw [hS']
        have := Parsley.Shift.nameP_pre sep1 (47 :: (nameBody k ch).1 ++ (sep2 ++ (sv ++ (r ++ rest)))) 0
        simp only [Nat.add_zero] at this
        rw [this, name_roundtrip k ch _ hk hterm (nameBody_regular k ch)]
        simp [Parsley.Shift.shift]
      rw [h3]
      simp only
      have h4 : names.contains k = false := by simpa using hnew
      rw [h4]
      simp only [Bool.false_eq_true, if_false]
      -- the separator
      have hpre2 : (sep1 ++ (47 :: (nameBody k ch).1)).length = sep1.length + ((nameBody k ch).1.length + 1) := by simp
      have h5 := ws_at' true S (sep1 ++ (47 :: (nameBody k ch).1)) sep2 (sv ++ (r ++ rest))
        (by rw [hS']; simp [List.append_assoc]) hsep2
        (by intro b hb; rw [hsv] at hb; simp at hb; subst hb; exact ⟨f1, f2⟩) (Or.inr rfl)
      rw [hpre2] at h5
      rw [h5]
      simp only
      -- the value
      have hpre3 : (sep1 ++ (47 :: (nameBody k ch).1) ++ sep2).length =
          sep1.length + ((nameBody k ch).1.length + 1) + sep2.length := by
        simp only [List.length_append, List.length_cons] <;> omega
      have h6 := elem_ok hcore hv (by omega) max cur (r ++ rest) ((entries_tail hr rest hrest).ctx v) hd S
        (sep1 ++ (47 :: (nameBody k ch).1) ++ sep2) (by rw [hS']; simp [List.append_assoc])
      rw [hpre3] at h6
      rw [h6]
      simp only
      -- the rest of the loop, re-based
      have hpre4 : (sep1 ++ (47 :: (nameBody k ch).1) ++ sep2 ++ sv).length =
          sep1.length + ((nameBody k ch).1.length + 1) + sep2.length + sv.length := by
        simp only [List.length_append, List.length_cons] <;> omega
      have hS4 : S = (sep1 ++ (47 :: (nameBody k ch).1) ++ sep2 ++ sv) ++ (r ++ rest) := by
        rw [hS']; simp [List.append_assoc]
      have hloop : ∀ names' map',
          dictLoop (parseObjB max (max - cur)) (ents.length + g) cur S
            (sep1.length + ((nameBody k ch).1.length + 1) + sep2.length + sv.length) names' map' =
          Parsley.Shift.shiftL (sep1.length + ((nameBody k ch).1.length + 1) + sep2.length + sv.length)
            (dictLoop (parseObjB max (max - cur)) (ents.length + g) cur (r ++ rest) 0 names' map') := by
        intro names' map'
        have := Parsley.Shift.dictLoop_pre (sep1 ++ (47 :: (nameBody k ch).1) ++ sep2 ++ sv) (r ++ rest) 0
          (parseObjB max (max - cur)) (Parsley.Shift.parseObjB_pre _ max (max - cur)) (ents.length + g) cur names' map'
        rw [hpre4, ← hS4] at this
        simpa using this
      have hlenS : (sep1 ++ (47 :: (nameBody k ch).1 ++ (sep2 ++ (sv ++ r)))).length =
          sep1.length + ((nameBody k ch).1.length + 1) + sep2.length + sv.length + r.length := by
        simp only [List.length_append, List.length_cons] <;> omega
      rw [hlenS]
      cases hnull : isNullV v with
      | true =>
        have hvn : v = .null := by cases v <;> simp_all [isNullV]
        subst hvn
        simp only [hloop]
        have hr' : SpellsEntries d names ents r := by simpa [isNullV] using hr
        rw [ih names r (by omega) hr' g map rest hrest]
        rw [shiftL_add]
        simp only [accNames, accMap, isNullV, if_true]
      | false =>
        have hr' : SpellsEntries d (k :: names) ents r := by simpa [hnull] using hr
        split
        · simp [isNullV] at hnull
        · simp only [hloop]
          rw [ih (k :: names) r (by omega) hr' g (dictInsert k v map) rest hrest]
          rw [shiftL_add]
          simp only [accNames, accMap, hnull, Bool.false_eq_true, if_false]

/-- the closing `>>` -/
theorem dictLoop_close (el : Elem) (g cur : Nat) (sep rest : Bytes) (names : List Bytes) (map : List (Bytes × Obj))
    (hsep : WsRun sep) :
    dictLoop el (g + 1) cur (sep ++ ([62, 62] ++ rest)) 0 names map = ((.ok map, sep.length + 2), cur) := by
  unfold dictLoop
  have h1 := ws_at' true (sep ++ ([62, 62] ++ rest)) [] sep ([62, 62] ++ rest) rfl hsep
    (by intro b hb; simp at hb; subst hb; decide) (Or.inr rfl)
  simp only [List.length_nil, Nat.zero_add] at h1
  rw [h1]
  simp only
  rw [exact_at [62, 62] (sep ++ ([62, 62] ++ rest)) sep rest rfl]
  rfl

/-- a key that already has a non-null value: the guard error of `DictP` -/
theorem dictLoop_dup (el : Elem) (g cur : Nat) (sep k : Bytes) (ch : Ch) (ctx : Bytes) (names : List Bytes)
    (map : List (Bytes × Obj)) (hsep : WsRun sep) (hk : okKey k = true) (hdup : k ∈ names)
    (hctx : ∀ y, ctx.head? = some y → isNameTerm y = true) :
    dictLoop el (g + 1) cur (sep ++ (47 :: (nameBody k ch).1 ++ ctx)) 0 names map =
      ((.err .guard, sep.length + ((nameBody k ch).1.length + 1)), cur) := by
  unfold dictLoop
  have h1 := ws_at' true (sep ++ (47 :: (nameBody k ch).1 ++ ctx)) [] sep (47 :: (nameBody k ch).1 ++ ctx) rfl hsep
    (by intro b hb; simp at hb; subst hb; decide) (Or.inr rfl)
  simp only [List.length_nil, Nat.zero_add] at h1
  rw [h1]
  simp only
  have h2 : exact [62, 62] (sep ++ (47 :: (nameBody k ch).1 ++ ctx)) sep.length = (false, sep.length) := by
    apply exact_head_ne
    rw [peek_at _ sep _ rfl]
    simp
  rw [h2]
  simp only
  have h3 : nameP (sep ++ (47 :: (nameBody k ch).1 ++ ctx)) sep.length =
      (.ok ⟨k, sep.length, sep.length + ((nameBody k ch).1.length + 1)⟩,
        sep.length + ((nameBody k ch).1.length + 1)) := by
    have := Parsley.Shift.nameP_pre sep (47 :: (nameBody k ch).1 ++ ctx) 0
    simp only [Nat.add_zero] at this
    rw [this, name_roundtrip k ch _ hk hctx (nameBody_regular k ch)]
    simp [Parsley.Shift.shift]
  rw [h3]
  simp only
  have h4 : names.contains k = true := by simpa using hdup
  rw [h4]
  simp

theorem core_all : ∀ n, CoreAt n := by
  intro n
  induction n with
  | zero =>
    intro d v tok hlen hsp
    obtain ⟨b0, tl, htok, -⟩ := hsp.head
    rw [htok] at hlen; simp at hlen
  | succ n ih =>
    intro d v tok hlen hsp max cur rest hctx hd
    have hnonreg : endsReg v = true → ∀ y, rest.head? = some y → isRegular y = false := hctx.1
    cases hsp with
    | null d => exact (parseInternal_kw _ cur rest).2.2
    | tru d => exact (parseInternal_kw _ cur rest).1
    | fls d => exact (parseInternal_kw _ cur rest).2.1
    | int d sg ds hne hds hfit =>
      rw [parseInternal_int_la _ cur sg ds rest hne hds hfit (hnonreg rfl) (hctx.2 ⟨_, rfl⟩)]
      simp
    | real d sg ds fs hfne hds hfs hfit hden =>
      rw [parseInternal_real _ cur sg ds fs rest hfne hds hfs
        (fun y hy => (nonreg_facts y (hnonreg rfl y hy)).1) hfit hden]
      simp only [List.length_append, List.length_cons, List.length_nil]
    | name d b ch hb =>
      rw [parseInternal_name _ cur b ch rest hb (fun y hy => (nonreg_facts y (hnonreg rfl y hy)).2.2.2.2.2)
        (nameBody_regular b ch)]
      simp
    | lit d body hb =>
      rw [parseInternal_lit _ cur body rest hb]
      simp
    | hex d body hb =>
      rw [parseInternal_hex _ cur body rest hb]
      simp
    | ref d ds1 w1 ds2 w2 h1ne h1 f1 h2ne h2 f2 hw1 hw1ne hw2 hw2ne =>
      have hs : ds1 ++ (w1 ++ (ds2 ++ (w2 ++ [82]))) ++ rest = ds1 ++ (w1 ++ (ds2 ++ (w2 ++ (82 :: rest)))) := by
        simp [List.append_assoc]
      rw [hs]
      obtain ⟨y, t, hd1⟩ : ∃ y t, ds1 = y :: t := by
        cases ds1 with
        | nil => exact absurd rfl h1ne
        | cons y t => exact ⟨y, t, rfl⟩
      have hyd : isDigit y = true := h1 y (by rw [hd1]; exact List.mem_cons_self)
      rw [parseInternal_number _ cur _ y (by rw [hd1]; rfl) (Or.inl hyd)]
      rw [reference_spec ds1 w1 ds2 w2 rest h1ne h1 f1 h2ne h2 f2 hw1 hw1ne hw2 hw2ne (hnonreg rfl)]
      simp [Nat.add_assoc]
    | arr d xs body h =>
      have hbl : body.length ≤ n := by simp at hlen; omega
      unfold parseInternal
      have hp : peek (91 :: body ++ rest) 0 = some 91 := rfl
      simp only [hp]
      simp only [show ((91 : UInt8) == 116 || (91 : UInt8) == 102) = false by decide,
        show ((91 : UInt8) == 110) = false by decide, show ((91 : UInt8) == 40) = false by decide,
        show ((91 : UInt8) == 37) = false by decide, show ((91 : UInt8) == 47) = false by decide,
        beq_self_eq_true, Bool.false_eq_true, if_false, if_true]
      have hF : body.length ≤ (91 :: body ++ rest).length + 1 - 0 := by simp; omega
      generalize (91 :: body ++ rest).length + 1 - 0 = F at hF
      have h3 := Parsley.Shift.arrayLoop_pre [91] (body ++ rest) 0 (parseObjB max (max - cur))
        (Parsley.Shift.parseObjB_pre [91] max (max - cur)) F cur []
      rw [show arrayLoop (parseObjB max (max - cur)) F cur (91 :: body ++ rest) (0 + 1) [] =
        Parsley.Shift.shiftL 1 (arrayLoop (parseObjB max (max - cur)) F cur (body ++ rest) 0 []) from h3]
      rw [arrayLoop_spells ih max cur d (by omega) xs false body hbl h F [] rest hF]
      simp [Parsley.Shift.shiftL, Nat.add_comm]
    | dict d ents body sep h hsep =>
      have hbl : body.length ≤ n := by simp at hlen; omega
      have hel := entries_length h
      unfold parseInternal
      have hp : peek (60 :: 60 :: (body ++ (sep ++ [62, 62])) ++ rest) 0 = some 60 := rfl
      have hp1 : peek (60 :: 60 :: (body ++ (sep ++ [62, 62])) ++ rest) (0 + 1) = some 60 := rfl
      simp only [hp, hp1]
      simp only [show ((60 : UInt8) == 116 || (60 : UInt8) == 102) = false by decide,
        show ((60 : UInt8) == 110) = false by decide, show ((60 : UInt8) == 40) = false by decide,
        show ((60 : UInt8) == 37) = false by decide, show ((60 : UInt8) == 47) = false by decide,
        show ((60 : UInt8) == 91) = false by decide,
        beq_self_eq_true, Bool.false_eq_true, if_false, if_true]
      obtain ⟨g, hg⟩ : ∃ g, (60 :: 60 :: (body ++ (sep ++ [62, 62])) ++ rest).length + 1 - 0 = ents.length + (g + 1) :=
        ⟨(60 :: 60 :: (body ++ (sep ++ [62, 62])) ++ rest).length + 1 - 0 - ents.length - 1, by simp; omega⟩
      rw [hg]
      have hs : 60 :: 60 :: (body ++ (sep ++ [62, 62])) ++ rest = [60, 60] ++ (body ++ (sep ++ ([62, 62] ++ rest))) := by
        simp [List.append_assoc]
      rw [hs]
      have h3 := Parsley.Shift.dictLoop_pre [60, 60] (body ++ (sep ++ ([62, 62] ++ rest))) 0 (parseObjB max (max - cur))
        (Parsley.Shift.parseObjB_pre [60, 60] max (max - cur)) (ents.length + (g + 1)) cur [] []
      rw [show dictLoop (parseObjB max (max - cur)) (ents.length + (g + 1)) cur
          ([60, 60] ++ (body ++ (sep ++ ([62, 62] ++ rest)))) (0 + 2) [] [] =
        Parsley.Shift.shiftL 2 (dictLoop (parseObjB max (max - cur)) (ents.length + (g + 1)) cur
          (body ++ (sep ++ ([62, 62] ++ rest))) 0 [] []) from h3]
      rw [dictLoop_spells ih max cur d (by omega) ents [] body hbl h (g + 1) [] (sep ++ ([62, 62] ++ rest))
        ⟨sep, [62, 62] ++ rest, rfl, hsep, _, Or.inr rfl⟩]
      rw [dictLoop_close _ g cur sep rest _ _ hsep]
      simp [Parsley.Shift.shiftL, dictOf]
      omega

/-! ## (2, continued) the declarative context condition -/

/-- the shape the reference look-ahead recognises after a first integer: a non-empty
    whitespace/comment run, an (optionally signed) `i64` integer, a non-empty run, `R`, and then the
    end of the buffer or a non-regular byte -/
def RefTail (rest : Bytes) : Prop :=
  ∃ (w1 : Bytes) (sg : Sign) (ds w2 tail : Bytes),
    rest = w1 ++ (sg.bytes ++ ds ++ (w2 ++ (82 :: tail))) ∧
    WsRun w1 ∧ w1 ≠ [] ∧ ds ≠ [] ∧ (∀ y ∈ ds, isDigit y = true) ∧ digitsVal ds 0 ≤ i64Max ∧
    WsRun w2 ∧ w2 ≠ [] ∧ (∀ y, tail.head? = some y → isRegular y = false)

/-- **the context condition of C02**: a token that ends in a regular character is followed by the
    end of the buffer or a non-regular byte, and an integer is not followed by
    `ws⁺ integer ws⁺ R <non-regular>` (which would make it the first number of a reference) -/
def Follows (v : Obj) (rest : Bytes) : Prop :=
  (endsReg v = true → ∀ y, rest.head? = some y → isRegular y = false) ∧
  ((∃ n, v = .int n) → ¬ RefTail rest)

/-- what the byte-wise skipper skips is a whitespace run in the sense of the lexical rules, unless
    it runs into the end of the buffer (an unterminated comment) -/
theorem skipWs_wsRun (l : Bytes) :
    (l.drop (skipWs l) ≠ [] → WsRun (l.take (skipWs l))) ∧
    (l.drop (skipComment l) ≠ [] →
      ∃ body t, l.take (skipComment l) = body ++ 10 :: t ∧ (∀ y ∈ body, y ≠ 10) ∧ WsRun t) := by
  induction l with
  | nil => simp [skipWs, skipComment]
  | cons b t ih =>
    have e1 : skipWs (b :: t) = if isWsEol b then skipWs t + 1 else if b == 37 then skipComment t + 1 else 0 := by
      rw [skipWs]; simp only [Nat.add_comm]
    have e2 : skipComment (b :: t) = if b == 10 then skipWs t + 1 else skipComment t + 1 := by
      rw [skipComment]; simp only [Nat.add_comm]
    constructor
    · intro h
      rw [e1] at h ⊢
      by_cases hb : isWsEol b = true
      · simp only [hb, if_true, List.drop_succ_cons, List.take_succ_cons] at h ⊢
        exact WsRun.ws b _ hb (ih.1 h)
      · by_cases h37 : b = 37
        · subst h37
          simp only [show isWsEol 37 = false by decide, Bool.false_eq_true, if_false, beq_self_eq_true, if_true,
            List.drop_succ_cons, List.take_succ_cons] at h ⊢
          obtain ⟨body, t', htk, hbody, hw⟩ := ih.2 h
          rw [htk]
          exact WsRun.comment body t' hbody hw
        · have : (b == 37) = false := by simp [h37]
          simp only [hb, this, Bool.false_eq_true, if_false, List.take_zero]
          exact WsRun.nil
    · intro h
      rw [e2] at h ⊢
      by_cases h10 : b = 10
      · subst h10
        simp only [beq_self_eq_true, if_true, List.drop_succ_cons, List.take_succ_cons] at h ⊢
        exact ⟨[], _, rfl, by simp, ih.1 h⟩
      · have : (b == 10) = false := by simp [h10]
        simp only [this, Bool.false_eq_true, if_false, List.drop_succ_cons, List.take_succ_cons] at h ⊢
        obtain ⟨body, t', htk, hbody, hw⟩ := ih.2 h
        refine ⟨b :: body, t', by rw [htk]; rfl, ?_, hw⟩
        intro y hy
        simp only [List.mem_cons] at hy
        rcases hy with hy | hy
        · subst hy; exact h10
        · exact hbody y hy

/-- successful non-empty whitespace: the cursor advances by what the skipper skips, which is not nothing -/
theorem wsEOL_false_ok (s : Bytes) (j j1 : Nat) (u : Located Unit) (hj : j ≤ s.length)
    (h : wsEOL false s j = (.ok u, j1)) : j1 = j + skipWs (s.drop j) ∧ skipWs (s.drop j) ≠ 0 := by
  rw [wsEOL_eq false s j hj] at h
  by_cases hz : skipWs (s.drop j) = 0
  · simp [hz] at h
  · simp [hz] at h
    exact ⟨h.2.symm, hz⟩

theorem accDigits_some (limit : Nat) (ds : Bytes) (n : Nat) (h : accDigits limit ds 0 = some n) :
    digitsVal ds 0 ≤ limit := by
  apply Nat.le_of_not_lt
  intro hlt
  rw [accDigits_overflow limit ds 0 (Nat.zero_le _) hlt] at h
  cases h

theorem mem_takeWhile_true (f : UInt8 → Bool) (l : Bytes) (y : UInt8) (h : y ∈ l.takeWhile f) : f y = true := by
  induction l with
  | nil => simp at h
  | cons a t ih =>
    by_cases ha : f a = true
    · simp only [List.takeWhile_cons, ha, if_true, List.mem_cons] at h
      rcases h with h | h
      · subst h; exact ha
      · exact ih h
    · simp [ha] at h

/-- inversion of a successful `IntegerP`: optional sign, a maximal non-empty digit run, in range -/
theorem integerP_ok_inv (s : Bytes) (i j : Nat) (g : Located Int) (h : integerP s i = (.ok g, j)) :
    ∃ (sg : Sign) (ds : Bytes), s.drop i = sg.bytes ++ ds ++ s.drop j ∧ j = i + sg.bytes.length + ds.length ∧
      ds ≠ [] ∧ (∀ y ∈ ds, isDigit y = true) ∧ digitsVal ds 0 ≤ i64Max := by
  unfold integerP at h
  -- the sign
  obtain ⟨sg, hsgn, hsgd⟩ : ∃ sg : Sign, (signPrefix s i).2 = i + sg.bytes.length ∧
      s.drop i = sg.bytes ++ s.drop (i + sg.bytes.length) := by
    have hdrop : ∀ c : UInt8, peek s i = some c → s.drop i = c :: s.drop (i + 1) := by
      intro c hc
      have hi : i < s.length := peek_some_lt hc
      rw [List.drop_eq_getElem_cons hi]
      congr 1
      unfold peek at hc
      rw [List.getElem?_eq_getElem hi] at hc
      exact Option.some.inj hc
    unfold signPrefix
    by_cases h45 : peek s i = some 45
    · exact ⟨.minus, by simp [h45, Sign.bytes], by simpa [Sign.bytes] using hdrop 45 h45⟩
    · by_cases h43 : peek s i = some 43
      · exact ⟨.plus, by simp [h43, Sign.bytes], by simpa [Sign.bytes] using hdrop 43 h43⟩
      · exact ⟨.none, by simp [h45, h43, Sign.bytes], by simp [Sign.bytes]⟩
  generalize hsp : signPrefix s i = sp at h hsgn
  obtain ⟨minus, i1⟩ := sp
  simp only at hsgn h
  subst hsgn
  unfold allowed at h
  simp only at h
  generalize hds : List.takeWhile isDigit (s.drop (i + sg.bytes.length)) = ds at h
  by_cases hemp : ds.isEmpty = true
  · simp [hemp] at h
  · simp only [hemp, Bool.false_eq_true, if_false] at h
    cases hacc : accDigits i64Max ds 0 with
    | none => simp [hacc] at h
    | some n =>
      simp only [hacc, Prod.mk.injEq] at h
      have hj : j = i + sg.bytes.length + ds.length := h.2.symm
      refine ⟨sg, ds, ?_, hj, by intro hh; subst hh; simp at hemp, ?_, accDigits_some _ _ _ hacc⟩
      · rw [hsgd, List.append_assoc]
        congr 1
        have := List.takeWhile_append_dropWhile (p := isDigit) (l := s.drop (i + sg.bytes.length))
        rw [hds, takeWhile_dropWhile_drop, hds, List.drop_drop] at this
        rw [hj]; exact this.symm
      · intro y hy
        rw [← hds] at hy
        exact mem_takeWhile_true isDigit _ y hy

theorem signed_head (sg : Sign) (ds X : Bytes) (hne : ds ≠ []) (hds : ∀ y ∈ ds, isDigit y = true) :
    ∀ b, (sg.bytes ++ ds ++ X).head? = some b → isWsEol b = false ∧ b ≠ 37 := by
  intro b hb
  cases sg with
  | none =>
    cases ds with
    | nil => exact absurd rfl hne
    | cons y t =>
      simp [Sign.bytes] at hb; subst hb
      exact digit_not_ws _ (hds _ List.mem_cons_self)
  | plus => simp [Sign.bytes] at hb; subst hb; decide
  | minus => simp [Sign.bytes] at hb; subst hb; decide

/-- the look-ahead succeeds exactly on the declared shape (→) -/
theorem lookAhead_refTail (rest : Bytes) (h : lookAhead rest 0 = true) : RefTail rest := by
  have p1 := wsEOL_progress false rest 0 (Nat.zero_le _)
  cases h1 : wsEOL false rest 0 with
  | mk r1 j1 =>
  rw [h1] at p1
  cases r1 with
  | err k => rw [lookAhead_ws_err _ _ _ _ h1] at h; cases h
  | panic q => exact p1.elim
  | ok u =>
    have p2 := integerP_progress rest j1 p1.2.1
    cases h2 : integerP rest j1 with
    | mk r2 j2 =>
    rw [h2] at p2
    cases r2 with
    | err k => rw [lookAhead_int_err _ _ _ _ _ _ h1 h2] at h; cases h
    | panic q => exact p2.elim
    | ok g =>
      rw [lookAhead_steps _ _ _ _ _ _ h1 h2] at h
      unfold la2 at h
      have hj2 : j2 ≤ rest.length := p2.2.2.2
      cases h3 : wsEOL false rest j2 with
      | mk r3 j3 =>
      rw [h3] at h
      cases r3 with
      | err k => cases h
      | panic q => cases h
      | ok u3 =>
        simp only [Bool.and_eq_true, Bool.not_eq_true'] at h
        obtain ⟨hsw, hpk⟩ := h
        obtain ⟨ej1, hk1⟩ := wsEOL_false_ok rest 0 j1 u (Nat.zero_le _) h1
        obtain ⟨sg, ds, hdrop1, ej2, hdne, hds, hfit⟩ := integerP_ok_inv rest j1 j2 g h2
        obtain ⟨ej3, hk2⟩ := wsEOL_false_ok rest j2 j3 u3 hj2 h3
        simp only [List.drop_zero, Nat.zero_add] at ej1 hk1
        -- the `R`
        have hR : rest.drop j3 = 82 :: rest.drop (j3 + 1) := by
          unfold startsWith at hsw
          cases hd : rest.drop j3 with
          | nil => rw [hd] at hsw; simp [List.isPrefixOf] at hsw
          | cons y t =>
            rw [hd] at hsw
            simp [List.isPrefixOf] at hsw
            subst hsw
            have : rest.drop (j3 + 1) = t := by rw [← List.drop_drop, hd]; rfl
            rw [this]
        have hpk' : ∀ y, (rest.drop (j3 + 1)).head? = some y → isRegular y = false := by
          intro y hy
          have : peek rest (j3 + 1) = some y := by simpa [peek, List.head?_drop] using hy
          rw [this] at hpk
          simpa using hpk
        -- the second whitespace run
        have hw2 : WsRun ((rest.drop j2).take (skipWs (rest.drop j2))) := by
          apply (skipWs_wsRun (rest.drop j2)).1
          rw [List.drop_drop, ← ej3, hR]; simp
        have hsplit2 : rest.drop j2 = (rest.drop j2).take (skipWs (rest.drop j2)) ++ (82 :: rest.drop (j3 + 1)) := by
          rw [← hR, ej3, ← List.drop_drop]
          exact (List.take_append_drop _ _).symm
        -- the first whitespace run
        have hw1 : WsRun (rest.take j1) := by
          rw [ej1]
          apply (skipWs_wsRun rest).1
          rw [← ej1, hdrop1]
          cases ds with
          | nil => exact absurd rfl hdne
          | cons y t => simp
        refine ⟨rest.take j1, sg, ds, (rest.drop j2).take (skipWs (rest.drop j2)), rest.drop (j3 + 1), ?_,
          hw1, ?_, hdne, hds, hfit, hw2, ?_, hpk'⟩
        · rw [← hsplit2, ← hdrop1]
          exact (List.take_append_drop _ _).symm
        · intro hh
          have := congrArg List.length hh
          simp only [List.length_take, List.length_nil] at this
          have : j1 ≤ rest.length := p1.2.1
          omega
        · intro hh
          have := congrArg List.length hh
          simp only [List.length_take, List.length_nil, List.length_drop] at this
          have : j3 ≤ rest.length := by
            have := wsEOL_progress false rest j2 hj2
            rw [h3] at this; exact this.2.1
          omega

/-- the look-ahead succeeds exactly on the declared shape (←) -/
theorem refTail_lookAhead (rest : Bytes) (h : RefTail rest) : lookAhead rest 0 = true := by
  obtain ⟨w1, sg, ds, w2, tail, hs, hw1, hw1ne, hdne, hds, hfit, hw2, hw2ne, htail⟩ := h
  have h1 := ws_at' false rest [] w1 (sg.bytes ++ ds ++ (w2 ++ (82 :: tail))) (by simpa using hs) hw1
    (signed_head sg ds _ hdne hds) (Or.inl hw1ne)
  simp only [List.length_nil, Nat.zero_add] at h1
  have h2 := int_at_sg rest w1 sg ds (w2 ++ (82 :: tail)) hs hdne hds
    (fun y hy => (wsRun_head_not w2 _ hw2 hw2ne y hy).1)
  rw [if_pos hfit] at h2
  rw [lookAhead_steps _ _ _ _ _ _ h1 h2]
  unfold la2
  have hs3 : rest = (w1 ++ (sg.bytes ++ ds)) ++ (w2 ++ (82 :: tail)) := by rw [hs]; simp [List.append_assoc]
  have h3 := ws_at' false rest (w1 ++ (sg.bytes ++ ds)) w2 (82 :: tail) hs3 hw2
    (by intro b hb; simp at hb; subst hb; decide) (Or.inl hw2ne)
  have hl : (w1 ++ (sg.bytes ++ ds)).length = w1.length + (sg.bytes.length + ds.length) := by simp
  rw [hl] at h3
  rw [h3]
  simp only
  have hs4 : rest = (w1 ++ (sg.bytes ++ ds) ++ w2) ++ (82 :: tail) := by rw [hs]; simp [List.append_assoc]
  have hl4 : (w1 ++ (sg.bytes ++ ds) ++ w2).length = w1.length + (sg.bytes.length + ds.length) + w2.length := by
    simp only [List.length_append]
  have hdrop : rest.drop (w1.length + (sg.bytes.length + ds.length) + w2.length) = 82 :: tail := by
    rw [← hl4]; conv => lhs; rw [hs4]
    exact List.drop_left
  have a4 : startsWith [82] rest (w1.length + (sg.bytes.length + ds.length) + w2.length) = true := by
    unfold startsWith; rw [hdrop]; simp [List.isPrefixOf]
  have a5 : (peek rest (w1.length + (sg.bytes.length + ds.length) + w2.length + 1)).any isRegular = false := by
    have : peek rest (w1.length + (sg.bytes.length + ds.length) + w2.length + 1) = tail.head? := by
      unfold peek
      rw [← List.head?_drop, ← List.drop_drop, hdrop]
      simp
    rw [this]
    cases hc : tail.head? with
    | none => rfl
    | some y => simp [htail y hc]
  simp [a4, a5]

theorem lookAhead_iff_refTail (rest : Bytes) : lookAhead rest 0 = true ↔ RefTail rest :=
  ⟨lookAhead_refTail rest, refTail_lookAhead rest⟩

/-- the declarative context condition is exactly what the parser needs -/
theorem follows_iff_ctxOK (v : Obj) (rest : Bytes) : Follows v rest ↔ CtxOK v rest := by
  unfold Follows CtxOK
  constructor
  · intro ⟨h1, h2⟩
    refine ⟨h1, fun hv => ?_⟩
    cases hla : lookAhead rest 0 with
    | false => rfl
    | true => exact absurd (lookAhead_refTail rest hla) (h2 hv)
  · intro ⟨h1, h2⟩
    refine ⟨h1, fun hv hr => ?_⟩
    rw [refTail_lookAhead rest hr] at h2
    exact absurd (h2 hv) (by simp)

/-- in terms of the buffer the parser sees: the look-ahead of the dispatcher, at the end of the token -/
theorem follows_lookAhead (n : Int) (tok rest : Bytes) (h : Follows (.int n) rest) :
    lookAhead (tok ++ rest) tok.length = false := by
  have := lookAhead_pre tok rest 0
  simp only [Nat.add_zero] at this
  rw [this]
  exact ((follows_iff_ctxOK _ _).mp h).2 ⟨n, rfl⟩

/-- inside a legally spelled array or dictionary every element is in a legal context: the
    look-ahead never fires (no spelling and no closing delimiter starts with `R`) -/
theorem follows_in_array {d : Nat} {x : Obj} {xs : List Obj} {r : Bytes}
    (h : SpellsElems d (endsReg x) xs r) (rest : Bytes) : Follows x (r ++ rest) :=
  (follows_iff_ctxOK _ _).mpr (elems_ctx h rest)

theorem follows_in_dict {t : Bytes} (h : DictTail t) (v : Obj) : Follows v t :=
  (follows_iff_ctxOK _ _).mpr (h.ctx v)

/-! ## (3) the main theorem -/

/-- the dispatcher on a legal spelling in a legal context (any nested-object parser budget that the
    depth wrapper supplies) -/
theorem parseInternal_spells {d : Nat} {v : Obj} {tok : Bytes} (h : Spells d v tok) (max cur : Nat)
    (rest : Bytes) (hf : Follows v rest) (hd : cur + d ≤ max + 1) :
    parseInternal (parseObjB max (max - cur)) cur (tok ++ rest) 0 = ((.ok v, tok.length), cur) :=
  core_all tok.length d v tok (Nat.le_refl _) h max cur rest ((follows_iff_ctxOK _ _).mp hf) hd

/-- **`spell_parse` (C02)**: for every value `v`, every legal spelling `tok` of it (of nesting depth
    at most `d`), every leading whitespace/comment run, every following context that is legal
    after `v`, and every parser context with `cur + d ≤ max`: `parse_pdf_obj` returns exactly `v`,
    located at the spelling, with the cursor immediately after its last byte and the context's
    depth unchanged. -/
theorem spell_parse {d : Nat} {v : Obj} {tok : Bytes} (h : Spells d v tok) (c : Depth) (hc : c.cur + d ≤ c.max)
    (lead : Bytes) (hlead : WsRun lead) (rest : Bytes) (hf : Follows v rest) :
    parseObj c (lead ++ (tok ++ rest)) 0 =
      ((.ok ⟨v, lead.length, lead.length + tok.length⟩, lead.length + tok.length), c) := by
  have hpos := h.pos
  obtain ⟨b0, tl, htok, hstart, -, -⟩ := h.head
  obtain ⟨f1, f2, -, -, -⟩ := tokStart_facts b0 hstart
  apply parseObj_token c (by omega) lead (tok ++ rest) hlead
  · intro b hb; rw [htok] at hb; simp at hb; subst hb; exact ⟨f1, f2⟩
  · have : c.max - c.cur - 1 = c.max - (c.cur + 1) := by omega
    rw [this]
    exact parseInternal_spells h c.max (c.cur + 1) rest hf (by omega)

/-- the same at an arbitrary cursor: the spelling anywhere in a buffer -/
theorem spell_parse_at {d : Nat} {v : Obj} {tok : Bytes} (h : Spells d v tok) (c : Depth) (hc : c.cur + d ≤ c.max)
    (pre lead : Bytes) (hlead : WsRun lead) (rest : Bytes) (hf : Follows v rest) :
    parseObj c (pre ++ (lead ++ (tok ++ rest))) pre.length =
      ((.ok ⟨v, pre.length + lead.length, pre.length + (lead.length + tok.length)⟩,
        pre.length + (lead.length + tok.length)), c) := by
  have := Parsley.Shift.parseObj_pre pre (lead ++ (tok ++ rest)) 0 c
  simp only [Nat.add_zero] at this
  rw [this, spell_parse h c hc lead hlead rest hf]
  simp [Parsley.Shift.shift]

/-- the end of the buffer is a legal context after anything -/
theorem follows_nil (v : Obj) : Follows v [] := by
  refine ⟨fun _ y hy => by simp at hy, fun _ hr => ?_⟩
  obtain ⟨w1, sg, ds, w2, tail, hs, -, hne, -⟩ := hr
  cases w1 with
  | nil => exact hne rfl
  | cons a t => simp at hs

/-- a delimiter or a whitespace byte that does not start `ws⁺ int ws⁺ R` is a legal context; in
    particular any non-regular byte other than whitespace and '%' -/
theorem follows_delim (v : Obj) (y : UInt8) (t : Bytes) (hy : isRegular y = false) (hws : isWsEol y = false)
    (h37 : y ≠ 37) : Follows v (y :: t) := by
  refine ⟨fun _ z hz => by simp at hz; subst hz; exact hy, fun _ hr => ?_⟩
  obtain ⟨w1, sg, ds, w2, tail, hs, hw1, hne, -⟩ := hr
  cases hw1 with
  | nil => exact hne rfl
  | ws b t' hb _ => simp at hs; rw [hs.1] at hws; rw [hws] at hb; cases hb
  | comment body t' _ _ => simp at hs; exact h37 hs.1

/-! ## (4) corollaries -/

/-- **`within_bound_accepted` (C16)**: every legally spelled object whose nesting depth is at most
    the bound is accepted at that bound (from a fresh context), whatever legal context follows. -/
theorem within_bound_accepted {d : Nat} {v : Obj} {tok : Bytes} (h : Spells d v tok) (bound : Nat) (hd : d ≤ bound)
    (lead : Bytes) (hlead : WsRun lead) (rest : Bytes) (hf : Follows v rest) :
    (parseObj ⟨0, bound⟩ (lead ++ (tok ++ rest)) 0).1 =
      (.ok ⟨v, lead.length, lead.length + tok.length⟩, lead.length + tok.length) := by
  rw [spell_parse h ⟨0, bound⟩ (by simpa using hd) lead hlead rest hf]

/-- the depth index of a spelling bounds the depth of the value -/
theorem Spells.depth_le {d : Nat} {v : Obj} {tok : Bytes} (h : Spells d v tok) : depth v ≤ d := by
  have hp := spell_parse h ⟨0, d⟩ (by simp) [] WsRun.nil [] (follows_nil v)
  have := Parsley.C16.accepted_depth_le ⟨0, d⟩ ([] ++ (tok ++ [])) 0 (Nat.zero_le _) (Nat.zero_le _) _ _
    (by rw [hp])
  simpa using this

/-- the keys with a non-null value are exactly the keys of the written non-null entries -/
theorem mem_accNames (k : Bytes) (ents : List (Bytes × Obj)) (names : List Bytes) :
    k ∈ accNames names ents ↔ k ∈ names ∨ ∃ v, (k, v) ∈ ents ∧ isNullV v = false := by
  induction ents generalizing names with
  | nil => simp [accNames]
  | cons e t ih =>
    obtain ⟨k', v'⟩ := e
    simp only [accNames]
    rw [ih]
    cases hn : isNullV v' with
    | true =>
      simp only [if_true, List.mem_cons, Prod.mk.injEq]
      constructor
      · rintro (h | ⟨v, hv, hvn⟩)
        · exact Or.inl h
        · exact Or.inr ⟨v, Or.inr hv, hvn⟩
      · rintro (h | ⟨v, hv | hv, hvn⟩)
        · exact Or.inl h
        · rw [hv.2, hn] at hvn; cases hvn
        · exact Or.inr ⟨v, hv, hvn⟩
    | false =>
      simp only [Bool.false_eq_true, if_false, List.mem_cons, Prod.mk.injEq]
      constructor
      · rintro ((h | h) | ⟨v, hv, hvn⟩)
        · exact Or.inr ⟨v', Or.inl ⟨h, rfl⟩, hn⟩
        · exact Or.inl h
        · exact Or.inr ⟨v, Or.inr hv, hvn⟩
      · rintro (h | ⟨v, hv | hv, hvn⟩)
        · exact Or.inl (Or.inr h)
        · exact Or.inl (Or.inl hv.1)
        · exact Or.inr ⟨v, hv, hvn⟩

/-- leading whitespace and a dispatcher error: `parse_pdf_obj` fails with that error -/
theorem parseObj_token_err (c : Depth) (hc : c.cur < c.max) (lead rest : Bytes) (hlead : WsRun lead)
    (hrest : ∀ b, rest.head? = some b → isWsEol b = false ∧ b ≠ 37) (e : ErrK) (n : Nat)
    (hint : parseInternal (parseObjB c.max (c.max - c.cur - 1)) (c.cur + 1) rest 0 = ((.err e, n), c.cur + 1)) :
    parseObj c (lead ++ rest) 0 = ((.err e, lead.length + n), c) := by
  obtain ⟨b, hb⟩ : ∃ b, c.max - c.cur = b + 1 := ⟨c.max - c.cur - 1, by omega⟩
  have hb' : c.max - c.cur - 1 = b := by omega
  rw [hb'] at hint
  unfold parseObj
  rw [hb]
  unfold parseObjB
  have hne : (c.cur == c.max) = false := by simp; omega
  simp only [hne, Bool.false_eq_true, if_false]
  unfold objParse
  have hws : wsEOL true (lead ++ rest) 0 = (.ok ⟨(), 0, lead.length⟩, lead.length) := by
    rw [wsEOL_eq true _ 0 (Nat.zero_le _)]
    simp [skipWs_run lead rest hlead hrest]
  rw [hws]
  simp only
  have hpi := Parsley.Shift.parseInternal_pre lead rest 0 (parseObjB c.max b) (Parsley.Shift.parseObjB_pre lead c.max b) (c.cur + 1)
  simp only [Nat.add_zero] at hpi
  rw [hpi, hint]
  simp [Parsley.Shift.shiftL, leaveObj]

/-- **`dict_duplicate_rejected`**: for every dictionary text that, after any legally spelled entries,
    writes again a key that already has a non-null value — whatever follows the key — the parser
    fails with the guard error at the end of the repeated key, and restores the context depth. -/
theorem dict_duplicate_rejected {d : Nat} {ents : List (Bytes × Obj)} {body : Bytes}
    (h : SpellsEntries d [] ents body) (sep k : Bytes) (ch : Ch) (ctx : Bytes) (hsep : WsRun sep)
    (hk : okKey k = true) (hdup : ∃ v, (k, v) ∈ ents ∧ isNullV v = false)
    (hctx : ∀ y, ctx.head? = some y → isNameTerm y = true)
    (c : Depth) (hc : c.cur + (d + 1) ≤ c.max) (lead : Bytes) (hlead : WsRun lead) :
    parseObj c (lead ++ (60 :: 60 :: (body ++ (sep ++ (47 :: (nameBody k ch).1 ++ ctx))))) 0 =
      ((.err .guard, lead.length + (2 + (body.length + (sep.length + ((nameBody k ch).1.length + 1))))), c) := by
  apply parseObj_token_err c (by omega) lead _ hlead
  · intro b hb; simp at hb; subst hb; decide
  · have hm : c.max - c.cur - 1 = c.max - (c.cur + 1) := by omega
    rw [hm]
    have hel := entries_length h
    generalize hcur : c.cur + 1 = cur
    have hd : cur + d ≤ c.max := by omega
    unfold parseInternal
    have hp : peek (60 :: 60 :: (body ++ (sep ++ (47 :: (nameBody k ch).1 ++ ctx)))) 0 = some 60 := rfl
    have hp1 : peek (60 :: 60 :: (body ++ (sep ++ (47 :: (nameBody k ch).1 ++ ctx)))) (0 + 1) = some 60 := rfl
    simp only [hp, hp1]
    simp only [show ((60 : UInt8) == 116 || (60 : UInt8) == 102) = false by decide,
      show ((60 : UInt8) == 110) = false by decide, show ((60 : UInt8) == 40) = false by decide,
      show ((60 : UInt8) == 37) = false by decide, show ((60 : UInt8) == 47) = false by decide,
      show ((60 : UInt8) == 91) = false by decide,
      beq_self_eq_true, Bool.false_eq_true, if_false, if_true]
    obtain ⟨g, hg⟩ : ∃ g, (60 :: 60 :: (body ++ (sep ++ (47 :: (nameBody k ch).1 ++ ctx)))).length + 1 - 0 =
        ents.length + (g + 1) :=
      ⟨(60 :: 60 :: (body ++ (sep ++ (47 :: (nameBody k ch).1 ++ ctx)))).length + 1 - 0 - ents.length - 1, by
        simp; omega⟩
    rw [hg]
    have h3 := Parsley.Shift.dictLoop_pre [60, 60] (body ++ (sep ++ (47 :: (nameBody k ch).1 ++ ctx))) 0
      (parseObjB c.max (c.max - cur)) (Parsley.Shift.parseObjB_pre [60, 60] c.max (c.max - cur))
      (ents.length + (g + 1)) cur [] []
    rw [show dictLoop (parseObjB c.max (c.max - cur)) (ents.length + (g + 1)) cur
        (60 :: 60 :: (body ++ (sep ++ (47 :: (nameBody k ch).1 ++ ctx)))) (0 + 2) [] [] =
      Parsley.Shift.shiftL 2 (dictLoop (parseObjB c.max (c.max - cur)) (ents.length + (g + 1)) cur
        (body ++ (sep ++ (47 :: (nameBody k ch).1 ++ ctx))) 0 [] []) from h3]
    rw [dictLoop_spells (core_all body.length) c.max cur d hd ents [] body (Nat.le_refl _) h (g + 1) []
      (sep ++ (47 :: (nameBody k ch).1 ++ ctx)) ⟨sep, _, rfl, hsep, _, Or.inl rfl⟩]
    rw [dictLoop_dup _ g cur sep k ch ctx _ _ hsep hk
      ((mem_accNames k ents []).mpr (Or.inr hdup)) hctx]
    simp [Parsley.Shift.shiftL]

/-! ### no dictionary, at any nesting level, has a null-valued entry (all inputs) -/

mutual
/-- no dictionary inside the value (at any level) has an entry whose value is `null` -/
def noNull : Obj → Bool
  | .arr xs => noNullList xs
  | .dict kvs => noNullKvs kvs
  | .stream kvs _ => noNullKvs kvs
  | _ => true
def noNullList : List Obj → Bool
  | [] => true
  | x :: t => noNull x && noNullList t
def noNullKvs : List (Bytes × Obj) → Bool
  | [] => true
  | (_, v) :: t => !isNullV v && noNull v && noNullKvs t
end

theorem noNullList_iff (l : List Obj) : noNullList l = true ↔ ∀ x ∈ l, noNull x = true := by
  induction l with
  | nil => simp [noNullList]
  | cons a t ih => simp [noNullList, ih]

theorem noNullKvs_iff (l : List (Bytes × Obj)) :
    noNullKvs l = true ↔ ∀ p ∈ l, isNullV p.2 = false ∧ noNull p.2 = true := by
  induction l with
  | nil => simp [noNullKvs]
  | cons a t ih =>
    obtain ⟨k, v⟩ := a
    simp [noNullKvs, ih, and_assoc]

theorem noNullKvs_insert (k : Bytes) (v : Obj) (kvs : List (Bytes × Obj)) (hv : isNullV v = false)
    (hn : noNull v = true) (h : noNullKvs kvs = true) : noNullKvs (dictInsert k v kvs) = true := by
  induction kvs with
  | nil => simp [dictInsert, noNullKvs, hv, hn]
  | cons a t ih =>
    obtain ⟨k', v'⟩ := a
    simp only [noNullKvs, Bool.and_eq_true, Bool.not_eq_true'] at h
    unfold dictInsert
    split
    · simp [noNullKvs, hv, hn, h.1.1, h.1.2, h.2]
    · split
      · simp [noNullKvs, h.1.1, h.1.2, ih h.2]
      · simp [noNullKvs, hv, hn, h.2]

/-- an element parser whose successful results are null-entry free -/
def ElemNN (el : Elem) : Prop :=
  ∀ (cur : Nat) (s : Bytes) (i : Nat) (o : Located Obj) (k cur' : Nat),
    el cur s i = ((.ok o, k), cur') → noNull o.val = true

theorem arrayLoop_nn (el : Elem) (hel : ElemNN el) (f cur : Nat) (s : Bytes) (i : Nat) (acc : List Obj)
    (hacc : ∀ x ∈ acc, noNull x = true) (xs : List Obj) (k cur' : Nat)
    (h : arrayLoop el f cur s i acc = ((.ok xs, k), cur')) : ∀ x ∈ xs, noNull x = true := by
  induction f generalizing cur i acc with
  | zero => simp [arrayLoop] at h
  | succ f ih =>
    unfold arrayLoop at h
    split at h
    · cases h
    · cases h
    · split at h
      · cases h
        intro x hx; exact hacc x (List.mem_reverse.mp hx)
      · split at h
        · rename_i o k2 cur2 heq
          apply ih cur2 k2 (o.val :: acc) _ h
          intro x hx
          simp only [List.mem_cons] at hx
          rcases hx with hx | hx
          · subst hx; exact hel _ _ _ _ _ _ heq
          · exact hacc x hx
        · cases h
        · cases h

theorem dictLoop_nn (el : Elem) (hel : ElemNN el) (f cur : Nat) (s : Bytes) (i : Nat) (names : List Bytes)
    (map : List (Bytes × Obj)) (hmap : noNullKvs map = true) (kvs : List (Bytes × Obj)) (k cur' : Nat)
    (h : dictLoop el f cur s i names map = ((.ok kvs, k), cur')) : noNullKvs kvs = true := by
  induction f generalizing cur i names map with
  | zero => simp [dictLoop] at h
  | succ f ih =>
    unfold dictLoop at h
    split at h
    · cases h
    · cases h
    · split at h
      · cases h; exact hmap
      · split at h
        · cases h
        · cases h
        · split at h
          · cases h
          · split at h
            · cases h
            · cases h
            · split at h
              · cases h
              · cases h
              · rename_i o k2 cur2 heq
                have hnn := hel _ _ _ _ _ _ heq
                split at h
                · exact ih cur2 k2 names map hmap h
                · rename_i hv
                  apply ih cur2 k2 _ _ _ h
                  apply noNullKvs_insert _ _ _ _ hnn hmap
                  cases hov : o.val <;> simp_all [isNullV]

def okNN : Res Obj × Nat → Prop
  | (.ok v, _) => noNull v = true
  | _ => True

theorem numberOrRef_okNN (s : Bytes) (i : Nat) : okNN (numberOrRef s i) := by
  unfold numberOrRef
  split
  · simp [okNN]
  · simp [okNN]
  · simp only
    split
    · simp [okNN, noNull]
    · split
      · simp [okNN]
      · simp [okNN, noNull]
      · split
        · simp [okNN]
        · simp [okNN, noNull]
        · split
          · simp [okNN]
          · simp [okNN, noNull]
          · split
            · split
              · simp [okNN, noNull]
              · simp [okNN]
              · simp [okNN]
            · simp [okNN, noNull]

theorem numberOrRef_nn (s : Bytes) (i : Nat) (v : Obj) (k : Nat) (h : numberOrRef s i = (.ok v, k)) :
    noNull v = true := by
  have := numberOrRef_okNN s i
  rw [h] at this
  exact this

theorem liftTok_nn {α : Type} (f : α → Obj) (hf : ∀ a, noNull (f a) = true) (cur : Nat) (r : Res (Located α) × Nat)
    (v : Obj) (k cur' : Nat) (h : liftTok f cur r = ((.ok v, k), cur')) : noNull v = true := by
  obtain ⟨r, j⟩ := r
  cases r with
  | ok a => simp [liftTok] at h; rw [← h.1.1]; exact hf _
  | err e => simp [liftTok] at h
  | panic p => simp [liftTok] at h

theorem parseInternal_nn (el : Elem) (hel : ElemNN el) (cur : Nat) (s : Bytes) (i : Nat) (v : Obj) (k cur' : Nat)
    (h : parseInternal el cur s i = ((.ok v, k), cur')) : noNull v = true := by
  unfold parseInternal at h
  split at h
  · cases h
  · split at h
    · exact liftTok_nn _ (fun _ => rfl) _ _ _ _ _ h
    · split at h
      · exact liftTok_nn _ (fun _ => rfl) _ _ _ _ _ h
      · split at h
        · exact liftTok_nn _ (fun _ => rfl) _ _ _ _ _ h
        · split at h
          · exact liftTok_nn _ (fun _ => rfl) _ _ _ _ _ h
          · split at h
            · exact liftTok_nn _ (fun _ => rfl) _ _ _ _ _ h
            · split at h
              · split at h
                · rename_i xs j c2 heq
                  cases h
                  simp only [noNull]
                  rw [noNullList_iff]
                  exact arrayLoop_nn el hel _ _ _ _ [] (by simp) _ _ _ heq
                · cases h
                · cases h
              · split at h
                · split at h
                  · split at h
                    · rename_i kvs j c2 heq
                      cases h
                      simp only [noNull]
                      exact dictLoop_nn el hel _ _ _ _ [] [] rfl _ _ _ heq
                    · cases h
                    · cases h
                  · exact liftTok_nn _ (fun _ => rfl) _ _ _ _ _ h
                · split at h
                  · cases h
                  · simp only [Prod.mk.injEq] at h
                    exact numberOrRef_nn s i v k h.1

theorem parseObjB_nn (max : Nat) : ∀ b, ElemNN (parseObjB max b) := by
  intro b
  induction b with
  | zero =>
    intro cur s i o k cur' h
    unfold parseObjB at h
    split at h <;> cases h
  | succ b ih =>
    intro cur s i o k cur' h
    unfold parseObjB at h
    split at h
    · cases h
    · unfold objParse at h
      cases hw : wsEOL true s i with
      | mk r1 st =>
      rw [hw] at h
      cases r1 with
      | err e => simp [leaveObj] at h
      | panic p => simp [leaveObj] at h
      | ok u =>
        simp only at h
        cases hp : parseInternal (parseObjB max b) (cur + 1) s st with
        | mk a c2 =>
        obtain ⟨r, j⟩ := a
        rw [hp] at h
        cases r with
        | err e => simp only [leaveObj] at h; split at h <;> cases h
        | panic p => simp only [leaveObj] at h; split at h <;> cases h
        | ok v =>
          have hnn := parseInternal_nn _ ih _ _ _ _ _ _ hp
          simp only [leaveObj] at h
          split at h
          · cases h
          · cases h; exact hnn

/-- **`dict_no_null_values`**: for every input, cursor and context — whatever `parse_pdf_obj`
    accepts contains, at every nesting level, no dictionary entry whose value is `null`. -/
theorem dict_no_null_values (c : Depth) (s : Bytes) (i : Nat) (o : Located Obj) (k : Nat)
    (h : (parseObj c s i).1 = (.ok o, k)) : noNull o.val = true := by
  unfold parseObj at h
  cases hp : parseObjB c.max (c.max - c.cur) c.cur s i with
  | mk r cur' =>
    rw [hp] at h
    simp only at h
    subst h
    exact parseObjB_nn c.max _ _ _ _ _ _ _ hp

/-- in particular: the entries of an accepted dictionary all have non-null values -/
theorem dict_no_null_values_top (c : Depth) (s : Bytes) (i : Nat) (o : Located Obj) (k : Nat)
    (kvs : List (Bytes × Obj)) (h : (parseObj c s i).1 = (.ok o, k)) (hd : o.val = .dict kvs) :
    ∀ p ∈ kvs, p.2 ≠ .null := by
  have := dict_no_null_values c s i o k h
  rw [hd] at this
  simp only [noNull] at this
  intro p hp hnull
  have := ((noNullKvs_iff kvs).mp this p hp).1
  rw [hnull] at this
  simp [isNullV] at this

/-! ## non-vacuity: concrete instances of the hypotheses -/

theorem ws32 : WsRun [32] := WsRun.ws 32 [] (by decide) WsRun.nil

/-- `[1 2 3 0 R]`: integers followed by whitespace and integers, then a reference -/
def exArr : Bytes := [91, 49, 32, 50, 32, 51, 32, 48, 32, 82, 93]

theorem exArr_spells : Spells 2 (.arr [.int 1, .int 2, .ref 3 0]) exArr := by
  have i1 : Spells 1 (.int 1) [49] := Spells.int 0 .none [49] (by simp) (by decide) (by decide)
  have i2 : Spells 1 (.int 2) [50] := Spells.int 0 .none [50] (by simp) (by decide) (by decide)
  have r3 : Spells 1 (.ref 3 0) [51, 32, 48, 32, 82] :=
    Spells.ref 0 [51] [32] [48] [32] (by simp) (by decide) (by decide) (by simp) (by decide) (by decide)
      ws32 (by simp) ws32 (by simp)
  have e3 : SpellsElems 1 true [] [93] := SpellsElems.nil 1 true [] WsRun.nil
  have e2 : SpellsElems 1 true [.ref 3 0] [32, 51, 32, 48, 32, 82, 93] :=
    SpellsElems.cons 1 true (.ref 3 0) [] [32] [51, 32, 48, 32, 82] [93] ws32 r3 (fun _ _ => by simp) e3
  have e1 : SpellsElems 1 true [.int 2, .ref 3 0] [32, 50, 32, 51, 32, 48, 32, 82, 93] :=
    SpellsElems.cons 1 true (.int 2) [.ref 3 0] [32] [50] _ ws32 i2 (fun _ _ => by simp) e2
  have e0 : SpellsElems 1 false [.int 1, .int 2, .ref 3 0] [49, 32, 50, 32, 51, 32, 48, 32, 82, 93] :=
    SpellsElems.cons 1 false (.int 1) [.int 2, .ref 3 0] [] [49] _ WsRun.nil i1 (fun h => by cases h) e1
  exact Spells.arr 1 _ _ e0

/-- `spell_parse` applied: ` [1 2 3 0 R]` followed by ` 1` at the depth bound -/
example : parseObj ⟨0, 2⟩ ([32] ++ (exArr ++ [32, 49])) 0 =
    ((.ok ⟨.arr [.int 1, .int 2, .ref 3 0], 1, 12⟩, 12), ⟨0, 2⟩) :=
  spell_parse exArr_spells ⟨0, 2⟩ (by decide) [32] ws32 [32, 49]
    ⟨fun h => by simp [endsReg] at h, fun ⟨n, h⟩ => by cases h⟩

/-- `<</A 1/B null>>`: the null-valued entry is dropped -/
def exDict : Bytes := [60, 60, 47, 65, 32, 49, 47, 66, 32, 110, 117, 108, 108, 62, 62]

theorem exDict_spells : Spells 2 (.dict [([65], .int 1)]) exDict := by
  have i1 : Spells 1 (.int 1) [49] := Spells.int 0 .none [49] (by simp) (by decide) (by decide)
  have n0 : Spells 1 .null [110, 117, 108, 108] := Spells.null 0
  have kA : (nameBody [65] [1, 0, 0]).1 = [65] := by decide
  have kB : (nameBody [66] [1, 0, 0]).1 = [66] := by decide
  have d2 : SpellsEntries 1 [[65]] [] [] := SpellsEntries.nil 1 _
  have d1 : SpellsEntries 1 [[65]] [([66], .null)] [47, 66, 32, 110, 117, 108, 108] := by
    have := SpellsEntries.cons 1 [[65]] [66] .null [] [] [1, 0, 0] [32] _ [] WsRun.nil (by decide) (by decide) ws32
      n0 (fun _ => by simp) (by simpa [isNullV] using d2)
    rw [kB] at this
    exact this
  have d0 : SpellsEntries 1 [] [([65], .int 1), ([66], .null)] [47, 65, 32, 49, 47, 66, 32, 110, 117, 108, 108] := by
    have := SpellsEntries.cons 1 [] [65] (.int 1) [([66], .null)] [] [1, 0, 0] [32] _ _ WsRun.nil (by decide) (by simp) ws32
      i1 (fun _ => by simp) (by simpa [isNullV] using d1)
    rw [kA] at this
    exact this
  exact Spells.dict 1 _ _ [] d0 WsRun.nil

example : parseObj ⟨3, 5⟩ (exDict ++ []) 0 = ((.ok ⟨.dict [([65], .int 1)], 0, 15⟩, 15), ⟨3, 5⟩) := by
  have := spell_parse exDict_spells ⟨3, 5⟩ (by decide) [] WsRun.nil [] (follows_nil _)
  simpa [exDict] using this

/-- the depth index counts dropped entries: `<</A null>>` spells the empty dictionary (value depth 1)
    with spelling depth 2; `spell_parse` applies from `cur + 2 ≤ max` on.  (At `cur + 1 = max` the
    parser rejects this text: `enter_obj` fails on the value `null`.) -/
example : Spells 2 (.dict []) [60, 60, 47, 65, 32, 110, 117, 108, 108, 62, 62] := by
  have kA : (nameBody [65] [1, 0, 0]).1 = [65] := by decide
  have d0 : SpellsEntries 1 [] [([65], .null)] [47, 65, 32, 110, 117, 108, 108] := by
    have := SpellsEntries.cons 1 [] [65] .null [] [] [1, 0, 0] [32] _ [] WsRun.nil (by decide) (by simp) ws32
      (Spells.null 0) (fun _ => by simp) (SpellsEntries.nil 1 _)
    rw [kA] at this
    exact this
  exact Spells.dict 1 _ _ [] d0 WsRun.nil

/-- the context condition: `1` before ` 2 RG` is an integer (the look-ahead needs `R` to end its
    token), `1` before ` 2 R` is not in a legal integer context -/
example : Follows (.int 1) [32, 50, 32, 82, 71] :=
  ⟨fun _ y hy => by simp at hy; subst hy; decide,
   fun _ hr => by have := refTail_lookAhead _ hr; revert this; decide⟩
example : RefTail [32, 50, 32, 82] :=
  ⟨[32], .none, [50], [32], [], rfl, ws32, by simp, by simp, by decide, by decide, ws32, by simp, by simp⟩
example : parseObj ⟨0, 1⟩ ([] ++ ([49] ++ [32, 50, 32, 82, 71])) 0 = ((.ok ⟨.int 1, 0, 1⟩, 1), ⟨0, 1⟩) :=
  spell_parse (Spells.int 0 .none [49] (by simp) (by decide) (by decide)) ⟨0, 1⟩ (by decide) [] WsRun.nil _
    ⟨fun _ y hy => by simp at hy; subst hy; decide,
     fun _ hr => by have := refTail_lookAhead _ hr; revert this; decide⟩

/-- `dict_duplicate_rejected` applied: `<</A 1/A` … is rejected at the end of the second `/A` -/
example : parseObj ⟨0, 2⟩ ([] ++ (60 :: 60 :: ([47, 65, 32, 49] ++ ([] ++ (47 :: (nameBody [65] [1, 0, 0]).1 ++ [32, 50, 62, 62]))))) 0 =
    ((.err .guard, 0 + (2 + (4 + (0 + ((nameBody [65] [1, 0, 0]).1.length + 1))))), ⟨0, 2⟩) := by
  have i1 : Spells 1 (.int 1) [49] := Spells.int 0 .none [49] (by simp) (by decide) (by decide)
  have kA : (nameBody [65] [1, 0, 0]).1 = [65] := by decide
  have d0 : SpellsEntries 1 [] [([65], .int 1)] [47, 65, 32, 49] := by
    have := SpellsEntries.cons 1 [] [65] (.int 1) [] [] [1, 0, 0] [32] _ _ WsRun.nil (by decide) (by simp) ws32
      i1 (fun _ => by simp) (SpellsEntries.nil 1 _)
    rw [kA] at this
    exact this
  exact dict_duplicate_rejected d0 [] [65] [1, 0, 0] [32, 50, 62, 62] WsRun.nil (by decide)
    ⟨.int 1, by simp, rfl⟩ (by intro y hy; simp at hy; subst hy; decide) ⟨0, 2⟩ (by decide) [] WsRun.nil

example : noNull (.arr [.dict [([65], .null)]]) = false := by decide
example : noNull (.dict [([65], .int 1)]) = true :=
  dict_no_null_values ⟨3, 5⟩ (exDict ++ []) 0 ⟨.dict [([65], .int 1)], 0, 15⟩ 15 (by
    have := spell_parse exDict_spells ⟨3, 5⟩ (by decide) [] WsRun.nil [] (follows_nil _)
    simp only [List.nil_append, List.length_nil, Nat.zero_add] at this
    rw [this]; rfl)

/-! ## (5) the executable encoder of Spec/Spelling.lean produces legal spellings -/

/-- the encoder's integer spelling: sign, leading zeros, decimal digits -/
theorem spellInt_shape (n : Int) (c : Ch) (hn : n.natAbs ≤ i64Max) :
    ∃ (sg : Sign) (ds : Bytes), (spellInt n c).1 = sg.bytes ++ ds ∧ ds ≠ [] ∧ (∀ y ∈ ds, isDigit y = true) ∧
      digitsVal ds 0 = n.natAbs ∧ sg.apply n.natAbs = n := by
  have hlt : n.natAbs < 10 ^ 64 := by
    have : i64Max < 10 ^ 64 := by decide
    omega
  obtain ⟨hv, hd, hne⟩ := decDigits_spec 64 n.natAbs hlt
  obtain ⟨sg, hsb, h1, h2⟩ := signOf_spec (decide (n < 0)) c
  refine ⟨sg, zeros (pick (signOf (decide (n < 0)) c).2 3).1 ++ natDigits n.natAbs, ?_, ?_, ?_, ?_, ?_⟩
  · have : (spellInt n c).1 = (signOf (decide (n < 0)) c).1 ++
        zeros (pick (signOf (decide (n < 0)) c).2 3).1 ++ natDigits n.natAbs := rfl
    rw [this, hsb, List.append_assoc]
  · simp [natDigits, hne]
  · intro y hy
    simp only [List.mem_append] at hy
    rcases hy with hy | hy
    · simp [zeros] at hy; rw [hy.2]; decide
    · exact hd y hy
  · rw [digitsVal_append, digitsVal_zeros _ 0 rfl]; exact hv
  · by_cases hneg : n < 0
    · have := h1 (by simp [hneg]); subst this; simp only [Sign.apply]; omega
    · have := h2 (by simp [hneg])
      cases sg with
      | minus => exact absurd rfl this
      | none => simp only [Sign.apply]; omega
      | plus => simp only [Sign.apply]; omega

theorem wsPieces_ne : ∀ p ∈ wsPieces, p ≠ [] := by decide

/-- mandatory whitespace of the encoder: a non-empty run -/
theorem wsReq_run (c : Ch) : WsRun (wsReq c).1 ∧ (wsReq c).1 ≠ [] := by
  unfold wsReq
  refine ⟨wsRun_run _ _, ?_⟩
  simp only [wsRun]
  intro h
  have h' := (List.append_eq_nil_iff.mp h).1
  cases hp : wsPieces[(pick (pick c 3).2 wsPieces.length).1]? with
  | none => rw [hp] at h'; simp at h'
  | some p => rw [hp] at h'; exact wsPieces_ne p (List.mem_of_getElem? hp) h'

theorem natDigits_spec (n : Nat) (hn : n ≤ i64Max) :
    natDigits n ≠ [] ∧ (∀ y ∈ natDigits n, isDigit y = true) ∧ digitsVal (natDigits n) 0 = n := by
  have hlt : n < 10 ^ 64 := by
    have : i64Max < 10 ^ 64 := by decide
    omega
  obtain ⟨hv, hd, hne⟩ := decDigits_spec 64 n hlt
  exact ⟨hne, hd, hv⟩

theorem hexDigit_not_ws (y : UInt8) (h : isHexDigit y = true) : isHexWs y = false := by
  revert h
  apply byte_cases (fun y => isHexDigit y = true → isHexWs y = false)
  decide +kernel

/-- the hex digits of a body: whitespace removed -/
def hexF (l : Bytes) : Bytes := l.filter (fun b => !isHexWs b)

theorem hexF_ws (w : Bytes) (h : ∀ y ∈ w, isHexWs y = true) : hexF w = [] := by
  unfold hexF
  rw [List.filter_eq_nil_iff]
  intro y hy; simp [h y hy]

theorem hexF_append (a b : Bytes) : hexF (a ++ b) = hexF a ++ hexF b := by simp [hexF]

theorem hexF_digit (y : UInt8) (h : isHexDigit y = true) : hexF [y] = [y] := by
  simp [hexF, hexDigit_not_ws y h]

theorem hexBody_two (b b' : UInt8) (t : Bytes) (c : Ch) :
    ∃ (u1 u2 : Bool) (w1 w2 : Bytes) (c' : Ch), (∀ y ∈ w1, isHexWs y = true) ∧ (∀ y ∈ w2, isHexWs y = true) ∧
      (hexBody (b :: b' :: t) c).1 =
        [hexDigitOf (b.toNat / 16) u1] ++ w1 ++ [hexDigitOf (b.toNat % 16) u2] ++ w2 ++ (hexBody (b' :: t) c').1 :=
  ⟨_, _, _, _, _, wsOpt'_ws _, wsOpt'_ws _, rfl⟩

theorem hexBody_one (b : UInt8) (c : Ch) :
    ∃ (u1 u2 : Bool) (w : Bytes), (∀ y ∈ w, isHexWs y = true) ∧
      ((hexBody [b] c).1 = [hexDigitOf (b.toNat / 16) u1] ++ w ++ [hexDigitOf (b.toNat % 16) u2] ∨
       (b.toNat % 16 = 0 ∧ (hexBody [b] c).1 = [hexDigitOf (b.toNat / 16) u1] ++ w)) := by
  unfold hexBody
  simp only
  split
  · rename_i h
    simp only [Bool.and_eq_true, beq_iff_eq] at h
    exact ⟨_, true, _, wsOpt'_ws _, Or.inr ⟨h.1, rfl⟩⟩
  · exact ⟨_, _, _, wsOpt'_ws _, Or.inl rfl⟩

theorem hexDigitsOf_eq (body : Bytes) :
    hexDigitsOf body = if (hexF body).length % 2 != 0 then hexF body ++ [48] else hexF body := rfl

theorem hexVal_zero_digit (u : Bool) : hexVal (hexDigitOf 0 u) = 0 := by cases u <;> decide

/-- the encoder's hexadecimal body consists of hex digits and whitespace and denotes the bytes -/
theorem hexBody_spec (b : Bytes) : ∀ c : Ch,
    (∀ y ∈ (hexBody b c).1, (isHexDigit y || isHexWs y) = true) ∧ hexPairs (hexDigitsOf (hexBody b c).1) = b := by
  induction b with
  | nil => intro c; simp [hexBody, hexDigitsOf, hexPairs]
  | cons x t ih =>
    intro c
    have e := escape_decodes x
    cases t with
    | nil =>
      obtain ⟨u1, u2, w, hw, hcase⟩ := hexBody_one x c
      rcases hcase with hb | ⟨hz, hb⟩
      · rw [hb]
        constructor
        · intro y hy
          simp only [List.mem_append, List.mem_singleton] at hy
          rcases hy with (hy | hy) | hy
          · subst hy; simp [(e u1 u2).1]
          · simp [hw y hy]
          · subst hy; simp [(e u1 u2).2.1]
        · rw [hexDigitsOf_eq]
          simp only [hexF_append, hexF_ws w hw, hexF_digit _ (e u1 u2).1, hexF_digit _ (e u1 u2).2.1, List.append_nil]
          simp [hexPairs, (e u1 u2).2.2]
      · rw [hb]
        constructor
        · intro y hy
          simp only [List.mem_append, List.mem_singleton] at hy
          rcases hy with hy | hy
          · subst hy; simp [(e u1 u2).1]
          · simp [hw y hy]
        · rw [hexDigitsOf_eq]
          simp only [hexF_append, hexF_ws w hw, hexF_digit _ (e u1 u2).1, List.append_nil]
          have h3 := (e u1 true).2.2
          rw [hz, hexVal_zero_digit] at h3
          simp [hexPairs, show hexVal 48 = 0 by decide]
          simpa using h3
    | cons x' t' =>
      obtain ⟨u1, u2, w1, w2, c', hw1, hw2, hb⟩ := hexBody_two x x' t' c
      obtain ⟨ih1, ih2⟩ := ih c'
      rw [hb]
      constructor
      · intro y hy
        simp only [List.mem_append, List.mem_singleton] at hy
        rcases hy with (((hy | hy) | hy) | hy) | hy
        · subst hy; simp [(e u1 u2).1]
        · simp [hw1 y hy]
        · subst hy; simp [(e u1 u2).2.1]
        · simp [hw2 y hy]
        · exact ih1 y hy
      · have hF : hexF ([hexDigitOf (x.toNat / 16) u1] ++ w1 ++ [hexDigitOf (x.toNat % 16) u2] ++ w2 ++
            (hexBody (x' :: t') c').1) =
            hexDigitOf (x.toNat / 16) u1 :: hexDigitOf (x.toNat % 16) u2 :: hexF (hexBody (x' :: t') c').1 := by
          rw [hexF_append, hexF_append, hexF_append, hexF_append, hexF_ws w1 hw1, hexF_ws w2 hw2,
            hexF_digit _ (e u1 u2).1, hexF_digit _ (e u1 u2).2.1]
          simp
        rw [hexDigitsOf_eq] at ih2 ⊢
        rw [hF]
        simp only [List.length_cons, List.cons_append]
        have hpar : ((hexF (hexBody (x' :: t') c').1).length + 1 + 1) % 2 = (hexF (hexBody (x' :: t') c').1).length % 2 := by
          omega
        rw [hpar]
        split
        · rename_i hodd
          rw [if_pos hodd] at ih2
          simp only [hexPairs, ih2, (e u1 u2).2.2]
        · rename_i hev
          rw [if_neg hev] at ih2
          simp only [hexPairs, ih2, (e u1 u2).2.2]

theorem zeros_digits (k : Nat) : ∀ y ∈ zeros k, isDigit y = true := by
  intro y hy; simp [zeros] at hy; rw [hy.2]; decide

theorem digitsVal_zeros_pre (k : Nat) (l : Bytes) : digitsVal (zeros k ++ l) 0 = digitsVal l 0 := by
  rw [digitsVal_append, digitsVal_zeros k 0 rfl]

theorem digitsVal_allzero (l : Bytes) (h : l.all (· == 48) = true) : digitsVal l 0 = 0 := by
  induction l with
  | nil => rfl
  | cons a t ih =>
    simp only [List.all_cons, Bool.and_eq_true, beq_iff_eq] at h
    obtain ⟨ha, ht⟩ := h
    subst ha
    simp only [digitsVal, List.foldl_cons] at ih ⊢
    exact ih ht

theorem digitsVal_pow10 (k : Nat) (acc : Nat) : digitsVal (List.replicate k 48) acc = acc * 10 ^ k := by
  induction k generalizing acc with
  | zero => simp [digitsVal]
  | succ k ih =>
    simp only [List.replicate_succ, digitsVal, List.foldl_cons] at ih ⊢
    rw [ih]
    simp [Nat.pow_succ, Nat.mul_assoc, Nat.mul_comm 10]

/-- a well-formed denominator is the power of ten that the encoder's digit count says -/
theorem isPow10_spec (d : Nat) (hd : d < 10 ^ 30) (h : isPow10 d = true) : d = 10 ^ ((natDigits d).length - 1) := by
  have hlt : d < 10 ^ 64 := by
    have : (10 : Nat) ^ 30 < 10 ^ 64 := by decide
    omega
  obtain ⟨hv, -, -⟩ := decDigits_spec 64 d hlt
  unfold isPow10 at h
  simp only [Bool.and_eq_true, beq_iff_eq] at h
  obtain ⟨h1, h2⟩ := h
  change digitsVal (natDigits d) 0 = d at hv
  cases hnd : natDigits d with
  | nil => rw [hnd] at h1; simp at h1
  | cons a t =>
    rw [hnd] at h1 h2 hv
    simp only [List.head?_cons, Option.some.injEq] at h1
    subst h1
    simp only [List.drop_succ_cons, List.drop_zero] at h2
    have ht : t = List.replicate t.length 48 := by
      apply List.eq_replicate_iff.mpr
      refine ⟨rfl, ?_⟩
      intro y hy
      have := List.all_eq_true.mp h2 y hy
      simpa using this
    simp only [List.length_cons, Nat.add_sub_cancel]
    rw [← hv, ht]
    simp only [digitsVal, List.foldl_cons]
    have := digitsVal_pow10 t.length (0 * 10 + ((49 : UInt8).toNat - 48))
    simp only [digitsVal] at this
    rw [this]
    simp

theorem spellReal_shape (n : Int) (k : Nat) (c : Ch) (hn : n.natAbs < 10 ^ 64) :
    ∃ (sg : Sign) (ip fp : Bytes), (spellReal n k c).1 = sg.bytes ++ ip ++ [46] ++ fp ∧ fp.length = k ∧
      (∀ y ∈ ip, isDigit y = true) ∧ (∀ y ∈ fp, isDigit y = true) ∧ digitsVal (ip ++ fp) 0 = n.natAbs ∧
      sg.apply n.natAbs = n := by
  obtain ⟨hv, hd, hne⟩ := decDigits_spec 64 n.natAbs hn
  change digitsVal (natDigits n.natAbs) 0 = n.natAbs at hv
  change ∀ y ∈ natDigits n.natAbs, isDigit y = true at hd
  obtain ⟨sg, hsb, h1, h2⟩ := signOf_spec (decide (n < 0)) c
  have hsg : sg.apply n.natAbs = n := by
    by_cases hneg : n < 0
    · have := h1 (by simp [hneg]); subst this; simp only [Sign.apply]; omega
    · have := h2 (by simp [hneg])
      cases sg with
      | minus => exact absurd rfl this
      | none => simp only [Sign.apply]; omega
      | plus => simp only [Sign.apply]; omega
  generalize hds' : zeros (k - (natDigits n.natAbs).length) ++ natDigits n.natAbs = ds'
  have hlen : k ≤ ds'.length := by rw [← hds']; simp [zeros]; omega
  have hdig : ∀ y ∈ ds', isDigit y = true := by
    intro y hy; rw [← hds'] at hy
    simp only [List.mem_append] at hy
    rcases hy with hy | hy
    · exact zeros_digits _ y hy
    · exact hd y hy
  have hval : digitsVal ds' 0 = n.natAbs := by rw [← hds', digitsVal_zeros_pre]; exact hv
  generalize hip : ds'.take (ds'.length - k) = ip
  generalize hfp : ds'.drop (ds'.length - k) = fp
  have hsplit : ip ++ fp = ds' := by rw [← hip, ← hfp]; exact List.take_append_drop _ _
  have hfl : fp.length = k := by rw [← hfp]; simp; omega
  have hipd : ∀ y ∈ ip, isDigit y = true := fun y hy => hdig y (by rw [← hsplit]; exact List.mem_append_left _ hy)
  have hfpd : ∀ y ∈ fp, isDigit y = true := fun y hy => hdig y (by rw [← hsplit]; exact List.mem_append_right _ hy)
  generalize hz : (pick (signOf (decide (n < 0)) c).2 3).1 = z
  have hshape : (spellReal n k c).1 = sg.bytes ++
      (if ip.all (· == 48) then (if z == 0 then [] else zeros z) else zeros z ++ ip) ++ [46] ++ fp := by
    rw [← hsb, ← hz, ← hip, ← hfp, ← hds']
    rfl
  refine ⟨sg, _, fp, hshape, hfl, ?_, hfpd, ?_, hsg⟩
  · intro y hy
    split at hy
    · split at hy
      · simp at hy
      · exact zeros_digits _ y hy
    · simp only [List.mem_append] at hy
      rcases hy with hy | hy
      · exact zeros_digits _ y hy
      · exact hipd y hy
  · rw [digitsVal_append]
    have : digitsVal (if ip.all (· == 48) then (if z == 0 then [] else zeros z) else zeros z ++ ip) 0 = digitsVal ip 0 := by
      split
      · rename_i hall
        rw [digitsVal_allzero ip hall]
        split
        · rfl
        · exact digitsVal_zeros z 0 rfl
      · exact digitsVal_zeros_pre z ip
    rw [this, ← digitsVal_append, hsplit, hval]

/-- the values for which the connection to the executable encoder is proved: keywords, integers,
    reals, names, strings (literal and hexadecimal spellings), references with the object number in the `i64`
    range (`wf` bounds only the generation number) -/
def encSimple (v : Obj) : Prop :=
  match v with
  | .null | .bool _ | .int _ | .real _ _ | .name _ | .str _ => True
  | .ref n _ => n ≤ i64Max
  | _ => False

/-- **`spell_is_Spells_partial`**: for every well-formed scalar value (keyword, integer, real,
    name, string, reference) and every choice stream, the encoder `spell` of Spec/Spelling.lean
    produces a legal spelling in the sense of `Spells`.  (Not proved: arrays and dictionaries of the
    encoder.) -/
theorem spell_is_Spells_partial (v : Obj) (ch : Ch) (hwf : wf v = true) (hs : encSimple v) :
    Spells 1 v (spell v ch).1 := by
  cases v with
  | null =>
    have e : (spell .null ch).1 = kwNull := by
      show bs "null" = kwNull
      decide +kernel
    rw [e]; exact Spells.null 0
  | bool b =>
    cases b with
    | true =>
      have e : (spell (.bool true) ch).1 = kwTrue := by
        show bs "true" = kwTrue
        decide +kernel
      rw [e]; exact Spells.tru 0
    | false =>
      have e : (spell (.bool false) ch).1 = kwFalse := by
        show bs "false" = kwFalse
        decide +kernel
      rw [e]; exact Spells.fls 0
  | int n =>
    have hn : n.natAbs ≤ i64Max := by
      simp only [wf, decide_eq_true_eq] at hwf
      unfold i64Max; omega
    obtain ⟨sg, ds, hs, hne, hds, hval, hsg⟩ := spellInt_shape n ch hn
    have := Spells.int 0 sg ds hne hds (by rw [hval]; exact hn)
    rw [hval, hsg] at this
    simp only [spell]
    rw [hs]; exact this
  | name b =>
    simp only [wf] at hwf
    exact Spells.name 0 b ch hwf
  | str b =>
    by_cases hcond : ((pick ch 2).1 == 0 && litBalanced b 0) = true
    · have hb : litBalanced b 0 = true := by
        simp only [Bool.and_eq_true] at hcond; exact hcond.2
      have : (spell (.str b) ch).1 = [40] ++ b ++ [41] := by
        simp only [spell]
        simp only [hcond, if_true]
      rw [this]
      exact Spells.lit 0 b hb
    · have : (spell (.str b) ch).1 = [60] ++ (hexBody b (pick ch 2).2).1 ++ [62] := by
        simp only [spell]
        simp only [hcond, Bool.false_eq_true, if_false]
      rw [this]
      obtain ⟨h1, h2⟩ := hexBody_spec b (pick ch 2).2
      have := Spells.hex 0 (hexBody b (pick ch 2).2).1 h1
      rw [h2] at this
      exact this
  | ref n g =>
    have hn : n ≤ i64Max := hs
    simp only [wf, decide_eq_true_eq] at hwf
    have hg : g ≤ i64Max := by unfold i64Max; omega
    obtain ⟨n1, n2, n3⟩ := natDigits_spec n hn
    obtain ⟨g1, g2, g3⟩ := natDigits_spec g hg
    obtain ⟨w1a, w1b⟩ := wsReq_run ch
    obtain ⟨w2a, w2b⟩ := wsReq_run (wsReq ch).2
    have := Spells.ref 0 (natDigits n) (wsReq ch).1 (natDigits g) (wsReq (wsReq ch).2).1 n1 n2 (by rw [n3]; exact hn)
      g1 g2 (by rw [g3]; exact hg) w1a w1b w2a w2b
    rw [n3, g3] at this
    have hs : (spell (.ref n g) ch).1 =
        natDigits n ++ ((wsReq ch).1 ++ (natDigits g ++ ((wsReq (wsReq ch).2).1 ++ [82]))) := by
      simp only [spell]
      simp [List.append_assoc]
    rw [hs]; exact this
  | real n d =>
    simp only [wf, Bool.and_eq_true, decide_eq_true_eq] at hwf
    obtain ⟨⟨⟨hn, hd10⟩, hd30⟩, hp10⟩ := hwf
    have hdk := isPow10_spec d hd30 hp10
    generalize hk : (natDigits d).length - 1 = k at hdk
    have hn64 : n.natAbs < 10 ^ 64 := by
      have : (2 : Nat) ^ 120 < 10 ^ 64 := by decide
      omega
    obtain ⟨sg, ip, fp, hshape, hfl, hipd, hfpd, hval, hsg⟩ := spellReal_shape n k ch hn64
    have hk1 : 1 ≤ k := by
      cases k with
      | zero => rw [hdk] at hd10; simp at hd10
      | succ k => omega
    have hfne : fp ≠ [] := by intro h; rw [h] at hfl; simp at hfl; omega
    have := Spells.real 0 sg ip fp hfne hipd hfpd
      (by rw [hval]
          have : (2 : Nat) ^ 120 ≤ i128Max := by decide
          omega)
      (by rw [hfl, ← hdk]
          have : (10 : Nat) ^ 30 ≤ i128Max := by decide
          omega)
    rw [hval, hsg, hfl, ← hdk] at this
    have hs : (spell (.real n d) ch).1 = (spellReal n k ch).1 := by
      simp only [spell, hk]
    rw [hs, hshape]; exact this
  | arr xs => exact hs.elim
  | dict kvs => exact hs.elim
  | comment b => exact hs.elim
  | stream kvs sc => exact hs.elim

example : (spell (.ref 12 0) [0, 0, 0, 0, 0]).1 = [49, 50, 32, 48, 32, 82] := by decide

end Parsley.C02
