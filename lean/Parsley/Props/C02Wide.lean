/-
  C02 — point-free number tokens of ANY size: the object parser computes `NumLit.denote`.

  `spell_parse_int` (Props/C02.lean) covers digit strings whose value is at most 2^63-1.  Here the
  rest of the token space: a sign and a run of digits (any number of leading zeros), no decimal
  point, is
    * the Integer of the written value inside  -2^63 .. 2^63-1  (i64::MIN included: it is reached
      through the real-number path of the dispatcher, not through `IntegerP`),
    * the Real value/1 outside that range while the magnitude fits an i128 - whatever follows the
      token (no reference look-ahead is attempted),
    * a guard error (numerical overflow), cursor unmoved, beyond the i128 range.
  `number_token_denotes` states the three cases at once against the spec `NumLit.denote`
  (Spec/NumLit.lean), which is the oracle of the wide-literal cases of the correspondence runs of
  C02 (`lit` / `nolit`) and C05 (Spec/FramingWide.lean).
-/
import Parsley.Props.C02
import Parsley.Spec.NumLit
namespace Parsley.C02
open Parsley Parsley.Prim Parsley.Obj Parsley.Spelling

/-! ## the spec `NumLit.denote`, case by case -/

theorem signed_eq_apply (sg : Sign) (n : Nat) : NumLit.signed (decide (sg = .minus)) n = sg.apply n := by
  cases sg <;> simp [NumLit.signed, Sign.apply]

theorem denote_overflow (neg : Bool) (mag : Nat) (h : i128Max < mag) : NumLit.denote neg mag = none := by
  unfold NumLit.denote
  have h1 : mag > NumLit.i128Hi := h
  simp [h1]

theorem denote_int (neg : Bool) (mag : Nat) (hfit : mag ≤ i128Max)
    (hlo : -(2 ^ 63 : Int) ≤ NumLit.signed neg mag) (hhi : NumLit.signed neg mag ≤ (2 ^ 63 - 1 : Int)) :
    NumLit.denote neg mag = some (.int (NumLit.signed neg mag)) := by
  unfold NumLit.denote
  have h1 : ¬ mag > NumLit.i128Hi := Nat.not_lt.mpr hfit
  have h2 : NumLit.i64Lo ≤ NumLit.signed neg mag := hlo
  have h3 : NumLit.signed neg mag ≤ NumLit.i64Hi := hhi
  simp [h1, h2, h3]

theorem denote_real (neg : Bool) (mag : Nat) (hfit : mag ≤ i128Max)
    (hout : ¬ (-(2 ^ 63 : Int) ≤ NumLit.signed neg mag ∧ NumLit.signed neg mag ≤ (2 ^ 63 - 1 : Int))) :
    NumLit.denote neg mag = some (.real (NumLit.signed neg mag) 1) := by
  unfold NumLit.denote
  have h1 : ¬ mag > NumLit.i128Hi := Nat.not_lt.mpr hfit
  have h2 : ¬ (NumLit.i64Lo ≤ NumLit.signed neg mag ∧ NumLit.signed neg mag ≤ NumLit.i64Hi) := hout
  simp only [h1, if_false, Bool.and_eq_true, decide_eq_true_eq, h2]

/-- a literal of magnitude at least 2^63 - whatever its low 64 bits - is not an Integer, except
    `-2^63` itself -/
theorem denote_wide_not_int (neg : Bool) (mag : Nat) (h : 2 ^ 63 ≤ mag) (hmin : ¬ (neg = true ∧ mag = 2 ^ 63)) (z : Int) :
    NumLit.denote neg mag ≠ some (.int z) := by
  by_cases hfit : mag ≤ i128Max
  · rw [denote_real neg mag hfit]
    · intro hc; cases hc
    · have e63 : (2 : Int) ^ 63 = 9223372036854775808 := by decide
      have e63n : (2 : Nat) ^ 63 = 9223372036854775808 := by decide
      rw [e63n] at h hmin
      cases neg
      · simp only [NumLit.signed, Bool.false_eq_true, if_false, e63]; omega
      · have hm : mag ≠ 9223372036854775808 := fun hh => hmin ⟨rfl, hh⟩
        simp only [NumLit.signed, if_true, e63]; omega
  · rw [denote_overflow neg mag (Nat.lt_of_not_le hfit)]
    intro hc; cases hc

/-! ## the parser model on number tokens -/

/-- the first byte of sign ++ digits is a sign or a digit -/
theorem number_head (sg : Sign) (ds ctx : Bytes) (hne : ds ≠ []) (hds : ∀ y ∈ ds, isDigit y = true) :
    ∃ c0, peek (sg.bytes ++ ds ++ ctx) 0 = some c0 ∧ (isDigit c0 = true ∨ c0 = 45 ∨ c0 = 43 ∨ c0 = 46) := by
  cases sg with
  | none =>
    cases ds with
    | nil => exact absurd rfl hne
    | cons d t => exact ⟨d, rfl, Or.inl (hds d (List.mem_cons_self))⟩
  | plus => exact ⟨43, rfl, Or.inr (Or.inr (Or.inl rfl))⟩
  | minus => exact ⟨45, rfl, Or.inr (Or.inl rfl)⟩

/-- **`numberOrRef_wide`**: outside the i64 range (inside the i128 range) the token is the real
    value/1, before ANY context that does not continue the digits - in particular before
    `ws+ int ws+ R`: no reference is looked for, and no value other than the written one appears. -/
theorem numberOrRef_wide (sg : Sign) (ds ctx : Bytes) (hne : ds ≠ []) (hds : ∀ y ∈ ds, isDigit y = true)
    (hctx : ∀ y, ctx.head? = some y → isDigit y = false ∧ y ≠ 46)
    (hfit : digitsVal ds 0 ≤ i128Max)
    (hout : ¬ (-(2 ^ 63 : Int) ≤ sg.apply (digitsVal ds 0) ∧ sg.apply (digitsVal ds 0) ≤ (2 ^ 63 - 1 : Int))) :
    numberOrRef (sg.bytes ++ ds ++ ctx) 0 =
      (.ok (.real (sg.apply (digitsVal ds 0)) 1), sg.bytes.length + ds.length) := by
  unfold numberOrRef
  rw [real_nodot_spec sg ds ctx hne hds hctx hfit]
  simp only
  have hrange : (!((1 : Nat) == 1 && decide (-(2 ^ 63 : Int) ≤ sg.apply (digitsVal ds 0)) &&
      decide (sg.apply (digitsVal ds 0) ≤ (2 ^ 63 - 1 : Int)))) = true := by
    by_cases a : -(2 ^ 63 : Int) ≤ sg.apply (digitsVal ds 0) <;>
      by_cases b : sg.apply (digitsVal ds 0) ≤ (2 ^ 63 - 1 : Int)
    · exact absurd ⟨a, b⟩ hout
    · rw [decide_eq_false b]; simp
    · rw [decide_eq_false a]; simp
    · rw [decide_eq_false a]; simp
  simp only [hrange, if_true]

/-- **`spell_parse_wide`**: the same through `parse_pdf_obj`: after any whitespace/comment run, at
    any depth with room for one object, before any context that does not continue the digits. -/
theorem spell_parse_wide (c : Depth) (hc : c.cur < c.max) (lead : Bytes) (hlead : WsRun lead)
    (sg : Sign) (ds ctx : Bytes) (hne : ds ≠ []) (hds : ∀ y ∈ ds, isDigit y = true)
    (hctx : ∀ y, ctx.head? = some y → isDigit y = false ∧ y ≠ 46)
    (hfit : digitsVal ds 0 ≤ i128Max)
    (hout : ¬ (-(2 ^ 63 : Int) ≤ sg.apply (digitsVal ds 0) ∧ sg.apply (digitsVal ds 0) ≤ (2 ^ 63 - 1 : Int))) :
    parseObj c (lead ++ (sg.bytes ++ ds ++ ctx)) 0 =
      ((.ok ⟨.real (sg.apply (digitsVal ds 0)) 1, lead.length, lead.length + (sg.bytes.length + ds.length)⟩,
        lead.length + (sg.bytes.length + ds.length)), c) := by
  obtain ⟨c0, hc0, hcls⟩ := number_head sg ds ctx hne hds
  apply parseObj_token c hc lead _ hlead
  · intro y hy
    have : peek (sg.bytes ++ ds ++ ctx) 0 = (sg.bytes ++ ds ++ ctx).head? := by
      cases (sg.bytes ++ ds ++ ctx) <;> rfl
    rw [this, hy] at hc0
    have hyc : y = c0 := Option.some.inj hc0
    subst hyc
    obtain ⟨-, -, -, -, -, -, -, -, h9, h10⟩ := number_first_byte y hcls
    exact ⟨h9, h10⟩
  · rw [parseInternal_number _ _ _ c0 hc0 hcls, numberOrRef_wide sg ds ctx hne hds hctx hfit hout]

/-- `RealP` beyond the i128 range: numerical overflow, cursor restored -/
theorem realP_overflow (sg : Sign) (ds ctx : Bytes) (hne : ds ≠ []) (hds : ∀ y ∈ ds, isDigit y = true)
    (hctx : ∀ y, ctx.head? = some y → isDigit y = false)
    (hbig : i128Max < digitsVal ds 0) :
    realP (sg.bytes ++ ds ++ ctx) 0 = (.err .guard, 0) := by
  unfold realP
  have hs : signPrefix (sg.bytes ++ ds ++ ctx) 0 = (decide (sg = .minus), sg.bytes.length) := by
    rw [List.append_assoc]
    apply signPrefix_spec
    intro y hy
    cases ds with
    | nil => exact absurd rfl hne
    | cons d t =>
      simp only [List.cons_append, List.head?_cons, Option.some.injEq] at hy
      subst hy
      have := hds d (List.mem_cons_self)
      simp only [isDigit, Bool.and_eq_true, decide_eq_true_eq] at this
      constructor
      · intro h; subst h; exact absurd this.1 (by decide)
      · intro h; subst h; exact absurd this.1 (by decide)
  rw [hs]
  simp only
  rw [allowed_append isDigit sg.bytes ds ctx hds hctx]
  simp only
  have hemp : ds.isEmpty = false := by cases ds <;> simp_all
  simp only [hemp, Bool.false_and, Bool.false_eq_true, if_false,
    accDigits_overflow i128Max ds 0 (Nat.zero_le _) hbig]

/-- **`numberOrRef_overflow`**: a digit run beyond the i128 range is not an object -/
theorem numberOrRef_overflow (sg : Sign) (ds ctx : Bytes) (hne : ds ≠ []) (hds : ∀ y ∈ ds, isDigit y = true)
    (hctx : ∀ y, ctx.head? = some y → isDigit y = false)
    (hbig : i128Max < digitsVal ds 0) :
    numberOrRef (sg.bytes ++ ds ++ ctx) 0 = (.err .guard, 0) := by
  unfold numberOrRef
  rw [realP_overflow sg ds ctx hne hds hctx hbig]

/-- `parseInternal_int` for the whole i64 range (`-2^63` included: `parseInternal_int` asks for a
    digit value of at most 2^63-1) -/
theorem parseInternal_int_range (el : Elem) (cur : Nat) (sg : Sign) (ds ctx : Bytes) (hne : ds ≠ [])
    (hds : ∀ y ∈ ds, isDigit y = true)
    (hctx : ∀ y, ctx.head? = some y → isDigit y = false ∧ y ≠ 46 ∧ isWsEol y = false ∧ y ≠ 37)
    (hfit : digitsVal ds 0 ≤ i128Max)
    (hlo : -(2 ^ 63 : Int) ≤ sg.apply (digitsVal ds 0)) (hhi : sg.apply (digitsVal ds 0) ≤ (2 ^ 63 - 1 : Int)) :
    parseInternal el cur (sg.bytes ++ ds ++ ctx) 0 =
      ((.ok (.int (sg.apply (digitsVal ds 0))), sg.bytes.length + ds.length), cur) := by
  obtain ⟨c0, hc0, hcls⟩ := number_head sg ds ctx hne hds
  rw [parseInternal_number _ _ _ c0 hc0 hcls]
  unfold numberOrRef
  rw [real_nodot_spec sg ds ctx hne hds (fun y hy => ⟨(hctx y hy).1, (hctx y hy).2.1⟩) hfit]
  simp only
  have hrange : (!((1 : Nat) == 1 && decide (-(2 ^ 63 : Int) ≤ sg.apply (digitsVal ds 0)) &&
      decide (sg.apply (digitsVal ds 0) ≤ (2 ^ 63 - 1 : Int)))) = false := by
    rw [decide_eq_true hlo, decide_eq_true hhi]; rfl
  simp only [hrange, Bool.false_eq_true, if_false]
  -- the look-ahead: no whitespace follows
  have hws : wsEOL false (sg.bytes ++ ds ++ ctx) (sg.bytes.length + ds.length) =
      (.err .guard, sg.bytes.length + ds.length) := by
    rw [wsEOL_eq false _ _ (by simp)]
    have hd : (sg.bytes ++ ds ++ ctx).drop (sg.bytes.length + ds.length) = ctx := by
      have : sg.bytes.length + ds.length = (sg.bytes ++ ds).length := by simp
      rw [this, List.drop_left]
    rw [hd]
    have : skipWs ctx = 0 := by
      cases ctx with
      | nil => rfl
      | cons y t =>
        have := hctx y rfl
        simp [skipWs, this.2.2.1, this.2.2.2]
    simp [this]
  rw [hws]

/-- **`number_token_denotes`**: on sign ++ digits ++ context (context: end of buffer or a byte that
    is not a digit, '.', whitespace or '%') the dispatcher of `parse_pdf_obj` returns exactly what
    the spec `NumLit.denote` says the token is - for every digit string, of any length. -/
theorem number_token_denotes (el : Elem) (cur : Nat) (sg : Sign) (ds ctx : Bytes) (hne : ds ≠ [])
    (hds : ∀ y ∈ ds, isDigit y = true)
    (hctx : ∀ y, ctx.head? = some y → isDigit y = false ∧ y ≠ 46 ∧ isWsEol y = false ∧ y ≠ 37) :
    parseInternal el cur (sg.bytes ++ ds ++ ctx) 0 =
      match NumLit.denote (decide (sg = .minus)) (digitsVal ds 0) with
      | some v => ((.ok v, sg.bytes.length + ds.length), cur)
      | none => ((.err .guard, 0), cur) := by
  by_cases hfit : digitsVal ds 0 ≤ i128Max
  · by_cases hin : -(2 ^ 63 : Int) ≤ sg.apply (digitsVal ds 0) ∧ sg.apply (digitsVal ds 0) ≤ (2 ^ 63 - 1 : Int)
    · rw [denote_int _ _ hfit (by rw [signed_eq_apply]; exact hin.1) (by rw [signed_eq_apply]; exact hin.2),
        signed_eq_apply]
      exact parseInternal_int_range el cur sg ds ctx hne hds hctx hfit hin.1 hin.2
    · rw [denote_real _ _ hfit (by rw [signed_eq_apply]; exact hin), signed_eq_apply]
      obtain ⟨c0, hc0, hcls⟩ := number_head sg ds ctx hne hds
      rw [parseInternal_number _ _ _ c0 hc0 hcls,
        numberOrRef_wide sg ds ctx hne hds (fun y hy => ⟨(hctx y hy).1, (hctx y hy).2.1⟩) hfit hin]
  · rw [denote_overflow _ _ (Nat.lt_of_not_le hfit)]
    obtain ⟨c0, hc0, hcls⟩ := number_head sg ds ctx hne hds
    rw [parseInternal_number _ _ _ c0 hc0 hcls,
      numberOrRef_overflow sg ds ctx hne hds (fun y hy => (hctx y hy).1) (Nat.lt_of_not_le hfit)]

/-! ## non-vacuity: the literals of the seeded defect and the boundaries -/

/-- 2^64+5 is the real 18446744073709551621/1 (not the integer 5), also before ` 0 R` -/
example : (parseObj ⟨0, 1⟩ (bs "18446744073709551621 0 R") 0).1.2 = 20 := by decide +kernel
/-- test helpers (`Obj` has no decidable equality) -/
def isRealOf (o : Option Obj) (n : Int) : Bool := match o with | some (.real m d) => m == n && d == 1 | _ => false
def isIntOf (o : Option Obj) (n : Int) : Bool := match o with | some (.int m) => m == n | _ => false
example : isRealOf (NumLit.denote false (2 ^ 64 + 5)) 18446744073709551621 = true := by decide +kernel
example : isRealOf (NumLit.denote true (2 ^ 64 - 5)) (-18446744073709551611) = true := by decide +kernel
example : isIntOf (NumLit.denote true (2 ^ 63)) (-9223372036854775808) = true := by decide +kernel
example : isRealOf (NumLit.denote false (2 ^ 63)) 9223372036854775808 = true := by decide +kernel
example : isRealOf (NumLit.denote false (2 ^ 127 - 1)) (2 ^ 127 - 1) = true := by decide +kernel
example : (NumLit.denote false (2 ^ 127)).isNone = true := by decide +kernel
example : NumLit.wrap64 (2 ^ 64 + 5) = 5 ∧ NumLit.wrap64 (-(2 ^ 64 - 5)) = 5 ∧ NumLit.wrap64 (2 ^ 63) = -(2 ^ 63) := by
  decide +kernel
/-- the hypotheses of `spell_parse_wide` hold for `+0018446744073709551621` before `/X` -/
example : parseObj ⟨0, 1⟩ ([32] ++ (Sign.plus.bytes ++ bs "0018446744073709551621" ++ bs "/X")) 0 =
    ((.ok ⟨.real 18446744073709551621 1, 1, 24⟩, 24), ⟨0, 1⟩) := by
  have h := spell_parse_wide ⟨0, 1⟩ (by decide) [32] (by exact WsRun.append (wsPieces_run [32] (by decide)) WsRun.nil)
    Sign.plus (bs "0018446744073709551621") (bs "/X") (by decide +kernel) (by decide +kernel) (by decide +kernel)
    (by decide +kernel) (by decide +kernel)
  have hv : Sign.plus.apply (digitsVal (bs "0018446744073709551621") 0) = 18446744073709551621 := by decide +kernel
  have hl : (bs "0018446744073709551621").length = 22 := by decide +kernel
  rw [hv, hl] at h
  exact h

end Parsley.C02
