/-
  C03 - Loading a well-formed document defines exactly its objects.

  Theorems about the faithful model `Parsley.Loader` (Model/Loader.lean) of
  src/pdf_lib/pdf_traverse_xref.rs.

    identity_mismatch_rejected       for ALL inputs: if the object found at a cross-reference offset carries
                                     another identifier than its entry, loading is rejected (first pass, second
                                     pass, and lifted to parse_objects).
    load_defines_exactly_partial     the object-loading stage for DIRECT objects, for all entry lists and all
                                     object texts: if every in-use entry's offset holds an indirect object that
                                     reads (in any context not yet defining it) as (id, gen) -> value, then
                                     parse_objects defines EXACTLY those identifiers, each bound to its value,
                                     and nothing else.  (Stage "classic table / cross-reference stream with
                                     type-1 entries + direct objects"; which entries are collected is C04's
                                     merge theorem and C13's decoding theorems.)
    load_never_panics_partial        for ALL inputs below 2^62 bytes no panic site is reachable - neither in the
                                     loader's glue nor in any parser it composes (object, indirect object, xref
                                     table, xref stream, object stream; the /Prev loop never runs out of fuel) -
                                     PROVIDED the stream decoders do not panic and return buffers of at most
                                     2^63 bytes (`DecodersTotal`: zlib inflate model, ASCII85, ASCIIHex, predictor
                                     glue - C06/C07 material, not discharged here).  Proof: Lemmas/LoaderNoPanic.lean.
    hybrid_hidden_gen0_witness       known finding #31 on the faithful model.
  FOLLOW-UPS: the end-to-end theorems are in separate files (this file cannot import them: their lemmas import it):
    Props/C03E2E.lean       (C03b) single revision, classic table: load_defines_exactly_classic, _classic_fwd; `ReadsAt`
                            discharged from C02's spell_parse; the decoders' no-panic clause
    Props/C03E2EXref.lean   (C03c) cross-reference STREAM layouts (all /W widths, /Index, unfiltered / Flate stored blocks /
                            Flate + predictor): load_defines_exactly_xrefstream
    Props/C03E2EObjStm.lean (C03c) object streams and hybrid files: load_defines_exactly_objstm, _hybrid, _hybrid_objstm
    Props/C03E2EAll.lean    (C03c) all object kinds at once incl. forward-referenced Length: _xrefstream_all, _hybrid_all
    Props/C03Render.lean    (C03c) the generator `DocSpec.renderHistory` (kind 0, scalar values) writes a well-formed ClassicFile
  `load_defines_exactly_partial` below stays the stage theorem those compose; what remains without an end-to-end theorem is
  listed in checklib/props/C03.py (`partial`).  The kernel-evaluated examples at the end run the WHOLE model on one concrete
  file per layout - they are tests, labelled as such.
-/
import Parsley.Props.C05
import Parsley.Model.Loader
import Parsley.Lemmas.LoaderNoPanic
namespace Parsley.C03
open Parsley Parsley.Obj Parsley.Indirect Parsley.Loader

/-! ## identity mismatch -/

/-- **identity_mismatch_rejected** (first pass): the entry says `(id, gen)` at `ofs`, the object
    parsed there says something else - whatever else the file contains, the load is rejected. -/
theorem identity_mismatch_rejected (id gen ofs : Nat) (t : List ObjInfo) (c : Ctx) (s : Bytes)
    (os : List ObjId) (sp : List (Nat × Nat × Nat)) (io : Located Indirect) (e : Nat) (c1 : Ctx)
    (hundef : defsGet (id, gen) c.defs = none) (hofs : ofs < s.length)
    (hparse : parseIndirect c s ofs = ((.ok io, e), c1))
    (hne : (io.val.num, io.val.gen) ≠ (id, gen)) :
    firstPass (.inFile id gen ofs :: t) c s os sp = (.reject, c1) := by
  unfold firstPass
  simp [hundef, hofs, hparse, hne]

/-- the same in the second pass -/
theorem identity_mismatch_rejected_second (id gen ofs : Nat) (t : List (Nat × Nat × Nat)) (c : Ctx) (s : Bytes)
    (io : Located Indirect) (e : Nat) (c1 : Ctx)
    (hundef : defsGet (id, gen) c.defs = none) (hofs : ofs < s.length)
    (hparse : parseIndirect c s ofs = ((.ok io, e), c1))
    (hne : (io.val.num, io.val.gen) ≠ (id, gen)) :
    secondPass ((id, gen, ofs) :: t) c s = (.reject, c1) := by
  unfold secondPass
  simp [hundef, hofs, hparse, hne]

/-- a rejection in the first pass rejects `parse_objects` (hence the load) -/
theorem firstPass_reject_lifts (hofs : Nat) (st : St) (infos : List ObjInfo) (s : Bytes) (c1 : Ctx)
    (h : firstPass infos st.ctx s [] [] = (.reject, c1)) :
    (match parseObjects hofs st infos s with | .reject => true | _ => false) = true := by
  unfold parseObjects
  rw [h]

/-! ## the object-loading stage for direct objects -/

/-- one in-use entry together with the value its object denotes -/
structure Item where
  id : Nat
  gen : Nat
  ofs : Nat
  v : Located Obj

def Item.key (it : Item) : ObjId := (it.id, it.gen)
def Item.info (it : Item) : ObjInfo := .inFile it.id it.gen it.ofs

/-- "the bytes at `ofs` are the indirect object `(id, gen)` with value `v`": in every context that does
    not define it yet, `parse_pdf_indirect_obj` at `ofs` returns it and registers it.  (For objects
    that do not look anything up in the context - every object except a stream whose /Length is a
    reference - this is a property of the bytes alone; see `tiny_reads` for a proved instance.) -/
def ReadsAt (cur max : Nat) (eol : Bool) (s : Bytes) (it : Item) : Prop :=
  ∀ defs : Defs, DefsSorted defs → defsGet it.key defs = none →
    ∃ a e, parseIndirect ⟨defs, cur, max, eol⟩ s it.ofs =
      ((.ok ⟨⟨it.id, it.gen, it.v⟩, a, e⟩, e), ⟨(defsInsert it.key it.v defs).2, cur, max, eol⟩)

/-- the definitions after registering the items in order -/
def insertAll : List Item → Defs → Defs
  | [], d => d
  | it :: t, d => insertAll t (defsInsert it.key it.v d).2

theorem defsGet_insertAll_other (k : ObjId) : ∀ (items : List Item) (d : Defs),
    (∀ it ∈ items, it.key ≠ k) → defsGet k (insertAll items d) = defsGet k d
  | [], _, _ => rfl
  | it :: t, d, h => by
    simp only [insertAll]
    rw [defsGet_insertAll_other k t _ (fun x hx => h x (List.mem_cons_of_mem _ hx))]
    exact defsGet_insert_other it.key k it.v d (fun hk => h it List.mem_cons_self hk.symm)

theorem defsGet_insertAll_mem : ∀ (items : List Item) (d : Defs) (it : Item),
    (items.map Item.key).Nodup → it ∈ items → defsGet it.key (insertAll items d) = some it.v
  | [], _, _, _, h => by cases h
  | x :: t, d, it, hnd, h => by
    simp only [List.map_cons, List.nodup_cons] at hnd
    simp only [insertAll]
    rcases List.mem_cons.mp h with rfl | hin
    · rw [defsGet_insertAll_other it.key t _ (fun y hy hk => hnd.1 (by rw [← hk]; exact List.mem_map_of_mem hy))]
      exact defsGet_insert_same it.key it.v d
    · exact defsGet_insertAll_mem t _ it hnd.2 hin

theorem insertAll_sorted : ∀ (items : List Item) (d : Defs), DefsSorted d → DefsSorted (insertAll items d)
  | [], _, h => h
  | it :: t, d, h => insertAll_sorted t _ (defsInsert_sorted it.key it.v d h)

/-- the first pass over in-use entries whose objects read as stated registers exactly them -/
theorem firstPass_direct (cur max : Nat) (eol : Bool) (s : Bytes) :
    ∀ (items : List Item) (defs : Defs) (os : List ObjId) (sp : List (Nat × Nat × Nat)),
      DefsSorted defs → (items.map Item.key).Nodup →
      (∀ it ∈ items, it.ofs < s.length ∧ ReadsAt cur max eol s it) →
      (∀ it ∈ items, defsGet it.key defs = none) →
      firstPass (items.map Item.info) ⟨defs, cur, max, eol⟩ s os sp =
        (.ok (os, sp.reverse), ⟨insertAll items defs, cur, max, eol⟩)
  | [], _, _, _, _, _, _, _ => by simp [firstPass, insertAll]
  | it :: t, defs, os, sp, hs, hnd, hread, hnone => by
    simp only [List.map_cons, List.nodup_cons] at hnd
    obtain ⟨hlt, hr⟩ := hread it List.mem_cons_self
    have hn := hnone it List.mem_cons_self
    obtain ⟨a, e, hp⟩ := hr defs hs hn
    have hn' : defsGet (it.id, it.gen) defs = none := hn
    simp only [List.map_cons, Item.info, firstPass, hn', Option.isSome_none, Bool.false_eq_true, if_false, hlt,
      decide_true, Bool.not_true, hp, bne_self_eq_false]
    simp only [insertAll]
    apply firstPass_direct cur max eol s t _ os sp (defsInsert_sorted it.key it.v defs hs) hnd.2
      (fun x hx => hread x (List.mem_cons_of_mem _ hx))
    intro x hx
    rw [defsGet_insert_other it.key x.key it.v defs
      (fun hk => hnd.1 (by rw [← hk]; exact List.mem_map_of_mem hx))]
    exact hnone x (List.mem_cons_of_mem _ hx)

theorem valDefs_get (k : ObjId) : ∀ d : Defs, ObjStm.defsGet k (valDefs d) = (defsGet k d).map (·.val)
  | [] => rfl
  | (k', v) :: t => by
    simp only [valDefs, ObjStm.defsGet, defsGet]
    split
    · rfl
    · exact valDefs_get k t

/-- **load_defines_exactly_partial** (stage: direct objects).  For every list of in-use entries with
    pairwise distinct identifiers whose offsets lie in the file and hold objects that read as the
    entries say, `parse_objects` - started with an empty context, as `parse_data` does when the
    cross-reference data is a classic table - ends without rejection, defines every entry's
    identifier with the value that was written, and defines NOTHING else. -/
theorem load_defines_exactly_partial (hofs : Nat) (enc : Bool) (s : Bytes) (items : List Item)
    (hnd : (items.map Item.key).Nodup)
    (hread : ∀ it ∈ items, it.ofs < s.length ∧ ReadsAt 0 50 false s it) :
    ∃ defs, parseObjects hofs ⟨Ctx.new 50, enc⟩ (items.map Item.info) s = .ok defs ∧
      (∀ it ∈ items, ObjStm.defsGet it.key defs = some it.v.val) ∧
      (∀ k, (∀ it ∈ items, it.key ≠ k) → ObjStm.defsGet k defs = none) := by
  have hfp := firstPass_direct 0 50 false s items [] [] [] List.Pairwise.nil hnd hread (fun _ _ => rfl)
  refine ⟨valDefs (insertAll items []), ?_, ?_, ?_⟩
  · unfold parseObjects
    show (match firstPass (items.map Item.info) ⟨[], 0, 50, false⟩ s [] [] with
      | (.panic p, _) => _ | (.reject, _) => _ | (.ok (os, sp), c1) => _) = _
    rw [hfp]
    simp [secondPass, definedStreams, objStmPass]
  · intro it hit
    rw [valDefs_get, defsGet_insertAll_mem items [] it hnd hit]
    rfl
  · intro k hk
    rw [valDefs_get, defsGet_insertAll_other k items [] hk]
    rfl

/-! ### non-vacuity: a proved instance of `ReadsAt`, and the theorem applied to it -/

/-- `1 0 obj 7 endobj` -/
def tinyObj : Bytes := [49, 32, 48, 32, 111, 98, 106, 32, 55, 32, 101, 110, 100, 111, 98, 106]

set_option maxRecDepth 10000 in
theorem tiny_head (defs : Defs) :
    indirectHead ⟨defs, 0, 50, false⟩ tinyObj 0 = ((.ok ⟨1, 0, ⟨.int 7, 8, 9⟩⟩, 9), ⟨defs, 0, 50, false⟩) := by
  rfl

set_option maxRecDepth 10000 in
/-- the hypothesis of `load_defines_exactly_partial` is satisfiable: these 16 bytes read as `(1,0) -> 7`
    in every context that does not define (1,0) -/
theorem tiny_reads : ReadsAt 0 50 false tinyObj ⟨1, 0, 0, ⟨.int 7, 8, 9⟩⟩ := by
  intro defs hs hn
  have hold : (defsInsert (1, 0) ⟨.int 7, 8, 9⟩ defs).1 = none := by
    have hn' : defsGet (1, 0) defs = none := hn
    rw [defsInsert_old (1, 0) ⟨.int 7, 8, 9⟩ defs hs, hn']
  refine ⟨0, 16, ?_⟩
  have hw : Prim.wsEOL true tinyObj 0 = (.ok ⟨(), 0, 0⟩, 0) := by rfl
  have hb : indirectBody ⟨defs, 0, 50, false⟩ tinyObj ⟨.int 7, 8, 9⟩ 9 = (.ok ⟨.int 7, 8, 9⟩, 9) := by rfl
  have hw2 : Prim.wsEOL true tinyObj 9 = (.ok ⟨(), 9, 10⟩, 10) := by rfl
  have he : Prim.exact kwEndobj tinyObj 10 = (true, 16) := by rfl
  unfold parseIndirect
  rw [hw]
  simp only []
  unfold indirectInternal
  rw [tiny_head]
  simp only [hb]
  unfold indirectFinish
  rw [hw2]
  simp only [he]
  rcases hd : defsInsert (1, 0) ⟨.int 7, 8, 9⟩ defs with ⟨old, d⟩
  rw [hd] at hold
  simp only at hold
  subst hold
  simp [Item.key, hd]

example : ∃ defs, parseObjects 0 ⟨Ctx.new 50, false⟩ [.inFile 1 0 0] tinyObj = .ok defs ∧
    ObjStm.defsGet (1, 0) defs = some (.int 7) ∧ ObjStm.defsGet (2, 0) defs = none := by
  obtain ⟨defs, h1, h2, h3⟩ := load_defines_exactly_partial 0 false tinyObj [⟨1, 0, 0, ⟨.int 7, 8, 9⟩⟩]
    (by simp) (by intro it hit; simp at hit; subst hit; exact ⟨by decide, tiny_reads⟩)
  exact ⟨defs, h1, h2 _ List.mem_cons_self, h3 (2, 0) (by intro it hit; simp at hit; subst hit; simp [Item.key])⟩

/-! ## no panic -/

/-- **load_never_panics_partial.**  `partial` = conditional on the decoders (`DecodersTotal`); everything else
    (every `unwrap`/index/assert/overflow site modelled in the loader and in the parsers it calls, and the
    fuel of the /Prev loop) is proved unreachable for every input. -/
theorem load_never_panics_partial (data : Bytes) (hlen : data.length < 2 ^ 62)
    (hdec : LoaderNoPanic.DecodersTotal) : (parseData data).isPanic = false :=
  LoaderNoPanic.load_never_panics_partial data hlen hdec

/-! ## whole-model runs on one concrete file per layout (TESTS evaluated by the kernel, not theorems
    about all files), and the witness of known finding #31 -/

def lookupDef (o : Out Loaded) (id : Nat × Nat) : Option Obj :=
  match o with
  | .ok l => ObjStm.defsGet id l.defs
  | _ => none

def isIntVal (o : Option Obj) (n : Int) : Bool :=
  match o with
  | some (.int m) => m == n
  | _ => false

def isStreamOf (o : Option Obj) (data : Bytes) : Bool :=
  match o with
  | some (.stream _ sc) => sc.content == data
  | _ => false

def isRejected : Out Loaded → Bool
  | .reject => true
  | _ => false

def nDefs : Out Loaded → Nat
  | .ok l => l.defs.length
  | _ => 0

def rootIs (o : Out Loaded) (id : Nat × Nat) : Bool :=
  match o with
  | .ok l => l.root == id
  | _ => false

/-- classic table, one direct object -/
def docClassic : Bytes := [
  37, 80, 68, 70, 45, 49, 46, 48, 10, 49, 32, 48, 32, 111, 98, 106, 32, 55, 32, 101, 110, 100, 111, 98, 106, 10, 120, 114, 101, 102, 10, 48, 32, 50, 10, 48, 48, 48, 48, 48,
  48, 48, 48, 48, 48, 32, 54, 53, 53, 51, 53, 32, 102, 32, 10, 48, 48, 48, 48, 48, 48, 48, 48, 48, 57, 32, 48, 48, 48, 48, 48, 32, 110, 32, 10, 116, 114, 97, 105, 108,
  101, 114, 60, 60, 47, 82, 111, 111, 116, 32, 49, 32, 48, 32, 82, 62, 62, 10, 115, 116, 97, 114, 116, 120, 114, 101, 102, 10, 50, 54, 10, 37, 37, 69, 79, 70, 10]

/-- stream 1 with /Length 2 0 R, holder 2 written after it -/
def docForwardLength : Bytes := [
  37, 80, 68, 70, 45, 49, 46, 52, 10, 49, 32, 48, 32, 111, 98, 106, 32, 60, 60, 47, 76, 101, 110, 103, 116, 104, 32, 50, 32, 48, 32, 82, 62, 62, 115, 116, 114, 101, 97, 109,
  10, 97, 98, 99, 10, 101, 110, 100, 115, 116, 114, 101, 97, 109, 32, 101, 110, 100, 111, 98, 106, 10, 50, 32, 48, 32, 111, 98, 106, 32, 51, 32, 101, 110, 100, 111, 98, 106, 10, 120,
  114, 101, 102, 10, 48, 32, 51, 10, 48, 48, 48, 48, 48, 48, 48, 48, 48, 48, 32, 54, 53, 53, 51, 53, 32, 102, 32, 10, 48, 48, 48, 48, 48, 48, 48, 48, 48, 57, 32, 48,
  48, 48, 48, 48, 32, 110, 32, 10, 48, 48, 48, 48, 48, 48, 48, 48, 54, 50, 32, 48, 48, 48, 48, 48, 32, 110, 32, 10, 116, 114, 97, 105, 108, 101, 114, 60, 60, 47, 83, 105,
  122, 101, 32, 51, 47, 82, 111, 111, 116, 32, 49, 32, 48, 32, 82, 62, 62, 10, 115, 116, 97, 114, 116, 120, 114, 101, 102, 10, 55, 57, 10, 37, 37, 69, 79, 70, 10]

/-- cross-reference stream with /W [1 1 1] -/
def docXrefStream : Bytes := [
  37, 80, 68, 70, 45, 49, 46, 52, 10, 49, 32, 48, 32, 111, 98, 106, 32, 55, 32, 101, 110, 100, 111, 98, 106, 10, 50, 32, 48, 32, 111, 98, 106, 60, 60, 47, 84, 121, 112, 101,
  47, 88, 82, 101, 102, 47, 83, 105, 122, 101, 32, 51, 47, 87, 91, 49, 32, 49, 32, 49, 93, 47, 82, 111, 111, 116, 32, 49, 32, 48, 32, 82, 47, 76, 101, 110, 103, 116, 104, 32,
  57, 62, 62, 115, 116, 114, 101, 97, 109, 10, 0, 0, 255, 1, 9, 0, 1, 26, 0, 10, 101, 110, 100, 115, 116, 114, 101, 97, 109, 32, 101, 110, 100, 111, 98, 106, 10, 115, 116, 97,
  114, 116, 120, 114, 101, 102, 10, 50, 54, 10, 37, 37, 69, 79, 70, 10]

/-- two objects whose table offsets are exchanged -/
def docMismatch : Bytes := [
  37, 80, 68, 70, 45, 49, 46, 52, 10, 49, 32, 48, 32, 111, 98, 106, 32, 55, 32, 101, 110, 100, 111, 98, 106, 10, 50, 32, 48, 32, 111, 98, 106, 32, 56, 32, 101, 110, 100, 111,
  98, 106, 10, 120, 114, 101, 102, 10, 48, 32, 51, 10, 48, 48, 48, 48, 48, 48, 48, 48, 48, 48, 32, 54, 53, 53, 51, 53, 32, 102, 32, 10, 48, 48, 48, 48, 48, 48, 48, 48,
  50, 54, 32, 48, 48, 48, 48, 48, 32, 110, 32, 10, 48, 48, 48, 48, 48, 48, 48, 48, 48, 57, 32, 48, 48, 48, 48, 48, 32, 110, 32, 10, 116, 114, 97, 105, 108, 101, 114, 60,
  60, 47, 83, 105, 122, 101, 32, 51, 47, 82, 111, 111, 116, 32, 49, 32, 48, 32, 82, 62, 62, 10, 115, 116, 97, 114, 116, 120, 114, 101, 102, 10, 52, 51, 10, 37, 37, 69, 79, 70,
  10]

/-- hybrid file: object 2 hidden in object stream 3, its free entry in the table has generation 0 -/
def hybridGen0 : Bytes := [
  37, 80, 68, 70, 45, 49, 46, 53, 10, 49, 32, 48, 32, 111, 98, 106, 32, 55, 32, 101, 110, 100, 111, 98, 106, 10, 51, 32, 48, 32, 111, 98, 106, 60, 60, 47, 84, 121, 112, 101,
  47, 79, 98, 106, 83, 116, 109, 47, 78, 32, 49, 47, 70, 105, 114, 115, 116, 32, 52, 47, 76, 101, 110, 103, 116, 104, 32, 54, 62, 62, 115, 116, 114, 101, 97, 109, 10, 50, 32, 48,
  32, 50, 50, 10, 101, 110, 100, 115, 116, 114, 101, 97, 109, 32, 101, 110, 100, 111, 98, 106, 10, 52, 32, 48, 32, 111, 98, 106, 60, 60, 47, 84, 121, 112, 101, 47, 88, 82, 101, 102,
  47, 83, 105, 122, 101, 32, 53, 47, 87, 91, 49, 32, 49, 32, 49, 93, 47, 73, 110, 100, 101, 120, 91, 50, 32, 49, 93, 47, 76, 101, 110, 103, 116, 104, 32, 51, 62, 62, 115, 116,
  114, 101, 97, 109, 10, 2, 3, 0, 10, 101, 110, 100, 115, 116, 114, 101, 97, 109, 32, 101, 110, 100, 111, 98, 106, 10, 120, 114, 101, 102, 10, 48, 32, 53, 10, 48, 48, 48, 48, 48,
  48, 48, 48, 48, 48, 32, 54, 53, 53, 51, 53, 32, 102, 32, 10, 48, 48, 48, 48, 48, 48, 48, 48, 48, 57, 32, 48, 48, 48, 48, 48, 32, 110, 32, 10, 48, 48, 48, 48, 48,
  48, 48, 48, 48, 48, 32, 48, 48, 48, 48, 48, 32, 102, 32, 10, 48, 48, 48, 48, 48, 48, 48, 48, 50, 54, 32, 48, 48, 48, 48, 48, 32, 110, 32, 10, 48, 48, 48, 48, 48,
  48, 48, 49, 48, 49, 32, 48, 48, 48, 48, 48, 32, 110, 32, 10, 116, 114, 97, 105, 108, 101, 114, 60, 60, 47, 83, 105, 122, 101, 32, 53, 47, 82, 111, 111, 116, 32, 49, 32, 48,
  32, 82, 47, 88, 82, 101, 102, 83, 116, 109, 32, 49, 48, 49, 62, 62, 10, 115, 116, 97, 114, 116, 120, 114, 101, 102, 10, 49, 56, 54, 10, 37, 37, 69, 79, 70, 10]

/-- the same with generation 65535 in the free entry -/
def hybridGen65535 : Bytes := [
  37, 80, 68, 70, 45, 49, 46, 53, 10, 49, 32, 48, 32, 111, 98, 106, 32, 55, 32, 101, 110, 100, 111, 98, 106, 10, 51, 32, 48, 32, 111, 98, 106, 60, 60, 47, 84, 121, 112, 101,
  47, 79, 98, 106, 83, 116, 109, 47, 78, 32, 49, 47, 70, 105, 114, 115, 116, 32, 52, 47, 76, 101, 110, 103, 116, 104, 32, 54, 62, 62, 115, 116, 114, 101, 97, 109, 10, 50, 32, 48,
  32, 50, 50, 10, 101, 110, 100, 115, 116, 114, 101, 97, 109, 32, 101, 110, 100, 111, 98, 106, 10, 52, 32, 48, 32, 111, 98, 106, 60, 60, 47, 84, 121, 112, 101, 47, 88, 82, 101, 102,
  47, 83, 105, 122, 101, 32, 53, 47, 87, 91, 49, 32, 49, 32, 49, 93, 47, 73, 110, 100, 101, 120, 91, 50, 32, 49, 93, 47, 76, 101, 110, 103, 116, 104, 32, 51, 62, 62, 115, 116,
  114, 101, 97, 109, 10, 2, 3, 0, 10, 101, 110, 100, 115, 116, 114, 101, 97, 109, 32, 101, 110, 100, 111, 98, 106, 10, 120, 114, 101, 102, 10, 48, 32, 53, 10, 48, 48, 48, 48, 48,
  48, 48, 48, 48, 48, 32, 54, 53, 53, 51, 53, 32, 102, 32, 10, 48, 48, 48, 48, 48, 48, 48, 48, 48, 57, 32, 48, 48, 48, 48, 48, 32, 110, 32, 10, 48, 48, 48, 48, 48,
  48, 48, 48, 48, 48, 32, 54, 53, 53, 51, 53, 32, 102, 32, 10, 48, 48, 48, 48, 48, 48, 48, 48, 50, 54, 32, 48, 48, 48, 48, 48, 32, 110, 32, 10, 48, 48, 48, 48, 48,
  48, 48, 49, 48, 49, 32, 48, 48, 48, 48, 48, 32, 110, 32, 10, 116, 114, 97, 105, 108, 101, 114, 60, 60, 47, 83, 105, 122, 101, 32, 53, 47, 82, 111, 111, 116, 32, 49, 32, 48,
  32, 82, 47, 88, 82, 101, 102, 83, 116, 109, 32, 49, 48, 49, 62, 62, 10, 115, 116, 97, 114, 116, 120, 114, 101, 102, 10, 49, 56, 54, 10, 37, 37, 69, 79, 70, 10]

/-- test: classic table + direct object -/
example : isIntVal (lookupDef (parseData docClassic) (1, 0)) 7 = true ∧ nDefs (parseData docClassic) = 1 ∧
    rootIs (parseData docClassic) (1, 0) = true := by decide +kernel

/-- test: leading garbage before the header changes nothing -/
example : isIntVal (lookupDef (parseData ([106, 117, 110, 107, 10] ++ docClassic)) (1, 0)) 7 = true ∧
    nDefs (parseData ([106, 117, 110, 107, 10] ++ docClassic)) = 1 := by decide +kernel

/-- test: forward-referenced /Length (second pass) -/
example : isStreamOf (lookupDef (parseData docForwardLength) (1, 0)) [97, 98, 99] = true ∧
    isIntVal (lookupDef (parseData docForwardLength) (2, 0)) 3 = true ∧ nDefs (parseData docForwardLength) = 2 := by
  decide +kernel

/-- test: cross-reference stream (the stream object itself is an object of the document) -/
example : isIntVal (lookupDef (parseData docXrefStream) (1, 0)) 7 = true ∧ nDefs (parseData docXrefStream) = 2 := by
  decide +kernel

/-- test: no panic outcome on a corrupted file (truncated in the middle of the table) -/
example : (parseData (docClassic.take 60 ++ docClassic.drop 100)).isPanic = false := by decide +kernel

/-- test: identity mismatch on a whole file -/
example : isRejected (parseData docMismatch) = true := by decide +kernel

/-- test: hybrid file whose hidden object's free entry carries generation 65535: the object loads -/
example : isIntVal (lookupDef (parseData hybridGen65535) (2, 0)) 22 = true ∧ nDefs (parseData hybridGen65535) = 4 := by
  decide +kernel

/-- **Known finding C03-hybrid-hidden-gen0 (#31).**  With generation 0 in the table's free entry the
    hidden object 2 is lost (its in-stream entry (2,0) is shadowed by the free entry (2,0)), although
    the file is accepted and everything else loads. -/
theorem hybrid_hidden_gen0_witness :
    (lookupDef (parseData hybridGen0) (2, 0)).isNone = true ∧ nDefs (parseData hybridGen0) = 3 ∧
    isIntVal (lookupDef (parseData hybridGen0) (1, 0)) 7 = true := by
  decide +kernel

end Parsley.C03
