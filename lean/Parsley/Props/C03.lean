import Parsley.Model.Loader
import Parsley.Spec.Doc
namespace Parsley.C03
end Parsley.C03
