/-
  C03 - FlateDecode'd cross-reference streams and object streams compressed by ANY conformant encoder (follow-up C03e).

  Until this follow-up the storage predicates of the loader's end-to-end theorems (`LoaderE2E.Stored` for the rows of a
  cross-reference stream, `LoaderObjStm.Stored` for the data of an object stream) knew FlateDecode only as a zlib stream
  of STORED blocks.  Both predicates now have a constructor that asks for nothing but the verdict of the modelled inflate
  (`Stored.flateAny`, `Stored.flatePredAny`; proofs in Lemmas/LoaderE2EFilterAny.lean, LoaderE2EXrefLoad.lean,
  LoaderE2EObjStmW.lean), and C06 proves that verdict for every stream written by the specification's encoders: stored
  blocks, fixed-Huffman blocks from any LZ77 factorisation, dynamic-Huffman blocks with any valid header, in any mixture
  (`C06.LayerEnc`, `inflate_fixed_roundtrip_final`, `inflate_dynamic_roundtrip`).  Because every end-to-end theorem
  consumes the storage predicate only through `stored_decodes` / `decodesTo_of_stored`, ALL of them - `load_defines_exactly_
  xrefstream`, `_objstm`, `_hybrid`, `_hybrid_objstm`, `_xrefstream_all`, `_hybrid_all` here, and the history theorems of
  C04 - now cover such files without any change to their statements.  This file states the instances explicitly.

    stored_of_flate_encoder                     rows stored as any `LayerEnc` Flate encoding  =>  `Stored`
    stored_of_flate_encoder_pred                ... of the PNG / TIFF predicted image of the rows  =>  `Stored`
    container_stored_of_flate_encoder           object-stream data as any `LayerEnc` Flate encoding  =>  `LoaderObjStm.Stored`
    load_defines_exactly_xrefstream_anyflate    the end-to-end theorem for a cross-reference stream file whose stream is
                                                FlateDecode'd by any such encoder
    load_defines_exactly_xrefstream_dynflate    the instance for `DeflateDyn.zlibBlocks` (any valid plan of stored, fixed and
                                                dynamic blocks) written out
  Non-vacuity: `exZFile`, a complete file whose cross-reference stream consists of a stored block, a fixed-Huffman block
  and a final DYNAMIC-Huffman block (header as made by the generator's `mkHdr`); `exZFile_wf`; the theorem applied.
  Size hypothesis that is new: for object streams the DECODED data must be shorter than 2^63 bytes (a compressed stream can
  be shorter than its data, so the bound no longer follows from the file size).
-/
import Parsley.Props.C03E2EXref
import Parsley.Lemmas.LoaderE2EObjStmW
import Parsley.Lemmas.SpellEncoder
namespace Parsley.C03
open Parsley Parsley.Prim Parsley.Obj Parsley.Indirect Parsley.Loader Parsley.C02 Parsley.Spelling Parsley.LoaderE2E
open Parsley.XrefSpec Parsley.C13

/-- **stored_of_flate_encoder**: /Filter /FlateDecode without parameters, the stream content being a conformant Flate
    encoding (C06: stored / fixed-Huffman / dynamic-Huffman blocks of the specification's encoders in any mixture, or
    anything else the modelled inflate decodes) of the rows followed by anything. -/
theorem stored_of_flate_encoder (kvs : List (Bytes × Obj)) (rows extra z : Bytes)
    (hf : dictGet Xref.kFilter kvs = some (.name Filters.nFlate)) (hp : dictGet Xref.kDecodeParms kvs = none)
    (h : C06.LayerEnc Filters.nFlate (rows ++ extra) z) : Stored kvs rows z :=
  stored_of_layerEnc kvs rows extra z hf hp h

/-- **stored_of_flate_encoder_pred**: the same with a PNG / TIFF predictor announced in /DecodeParms: the content is a
    conformant Flate encoding of the forward-filtered image (C07's `PredSpec.predict`) of the rows. -/
theorem stored_of_flate_encoder_pred (kvs P : List (Bytes × Obj)) (p : PredSpec.Params) (img : List Bytes) (z : Bytes)
    (hf : dictGet Xref.kFilter kvs = some (.name Filters.nFlate)) (hd : dictGet Xref.kDecodeParms kvs = some (.dict P))
    (hpred : dictGet kPredictor P = some (.int (p.predictor : Int))) (hcols : dictGet kColumns P = some (.int (p.columns : Int)))
    (hcolors : dictGet kColors P = some (.int (p.colors : Int)) ∨ (dictGet kColors P = none ∧ p.colors = 1))
    (hbpc : dictGet kBpc P = some (.int (p.bpc : Int)) ∨ (dictGet kBpc P = none ∧ p.bpc = 8))
    (hacc : p.accepted) (h1 : p.columns < 18446744073709551616) (h2 : p.colors * p.bpc < 18446744073709551616)
    (h3 : p.columns * p.colors * p.bpc < 18446744073709551616)
    (hrows : ∀ r ∈ img, r.length = PredSpec.rowBytes p.columns p.colors p.bpc) (hne : p.predictor = 2 ∨ img ≠ [])
    (h : C06.LayerEnc Filters.nFlate (PredSpec.predict p img) z) : Stored kvs img.flatten z :=
  Stored.flatePredAny P p img z hf hd hpred hcols hcolors hbpc hacc h1 h2 h3 hrows hne rfl (inflate_of_layerEnc h rfl)

/-- **container_stored_of_flate_encoder**: the data of an object stream held as any conformant Flate encoding. -/
theorem container_stored_of_flate_encoder (kvs : List (Bytes × Obj)) (view decoded : Bytes)
    (hf : dictGet ObjStm.kFilter kvs = some (.name ObjStm.nFlate)) (hp : dictGet ObjStm.kDecodeParms kvs = none)
    (h : C06.LayerEnc Filters.nFlate decoded view) (hlen : decoded.length ≤ 2 ^ 63) :
    LoaderObjStm.Stored kvs view decoded :=
  LoaderObjStm.Stored.flateAny hf hp (inflate_of_layerEnc h rfl) hlen

/-- **load_defines_exactly_xrefstream_anyflate** (C03, end to end): a file whose cross-reference stream is compressed with
    FlateDecode by ANY conformant encoder loads exactly - accepted, the dictionary's /Root, every object of the body
    (the cross-reference stream object included) bound to the value written, nothing else defined. -/
theorem load_defines_exactly_xrefstream_anyflate (f : XrefStreamFile) (subs : List (Nat × List SEnt)) (w0 w1 w2 : Nat)
    (root : ObjId) (extra : Bytes) (h0 : f.WF0 subs w0 w1 w2 root)
    (hf : dictGet Xref.kFilter f.xs.kvs = some (.name Filters.nFlate)) (hp : dictGet Xref.kDecodeParms f.xs.kvs = none)
    (henc : C06.LayerEnc Filters.nFlate (XrefStreamFile.rowBytes subs w0 w1 w2 ++ extra) f.xs.data)
    (reads1 : ∀ q ∈ f.body1, q.p.Reads) (reads2 : ∀ q ∈ f.body2, q.p.Reads)
    (idsNodup : (f.objs.map fun q => (q.1.num, q.1.gen)).Nodup)
    (tableObjs : ∃ perm : List (Piece × Nat), perm.Perm f.objs ∧
      infoOf (streamEnts subs) = perm.map fun q => ObjInfo.inFile q.1.num q.1.gen q.2) :
    ∃ L : Loaded, parseData f.bytes = .ok L ∧ L.root = root ∧
      (∀ q ∈ f.objs, ObjStm.defsGet (q.1.num, q.1.gen) L.defs = some (q.1.val q.2).val) ∧
      (∀ k, (∀ q ∈ f.objs, (q.1.num, q.1.gen) ≠ k) → ObjStm.defsGet k L.defs = none) :=
  load_defines_exactly_xrefstream f subs w0 w1 w2 root
    { toWF0 := h0, stored := stored_of_flate_encoder _ _ extra _ hf hp henc, reads1 := reads1, reads2 := reads2,
      idsNodup := idsNodup, tableObjs := tableObjs }

/-- the instance for the specification's general encoder: any valid plan of stored, fixed-Huffman and dynamic-Huffman
    blocks (`DeflateDyn.planOk`), anything after the zlib stream -/
theorem load_defines_exactly_xrefstream_dynflate (f : XrefStreamFile) (subs : List (Nat × List SEnt)) (w0 w1 w2 : Nat)
    (root : ObjId) (bs : List DeflateDyn.Block) (last : DeflateDyn.Block) (trailing : Bytes)
    (h0 : f.WF0 subs w0 w1 w2 root)
    (hf : dictGet Xref.kFilter f.xs.kvs = some (.name Filters.nFlate)) (hp : dictGet Xref.kDecodeParms f.xs.kvs = none)
    (hplan : DeflateDyn.planOk bs last (XrefStreamFile.rowBytes subs w0 w1 w2))
    (hdata : f.xs.data = DeflateDyn.zlibBlocks bs last (XrefStreamFile.rowBytes subs w0 w1 w2) ++ trailing)
    (reads1 : ∀ q ∈ f.body1, q.p.Reads) (reads2 : ∀ q ∈ f.body2, q.p.Reads)
    (idsNodup : (f.objs.map fun q => (q.1.num, q.1.gen)).Nodup)
    (tableObjs : ∃ perm : List (Piece × Nat), perm.Perm f.objs ∧
      infoOf (streamEnts subs) = perm.map fun q => ObjInfo.inFile q.1.num q.1.gen q.2) :
    ∃ L : Loaded, parseData f.bytes = .ok L ∧ L.root = root ∧
      (∀ q ∈ f.objs, ObjStm.defsGet (q.1.num, q.1.gen) L.defs = some (q.1.val q.2).val) ∧
      (∀ k, (∀ q ∈ f.objs, (q.1.num, q.1.gen) ≠ k) → ObjStm.defsGet k L.defs = none) :=
  load_defines_exactly_xrefstream_anyflate f subs w0 w1 w2 root [] h0 hf hp
    (by rw [hdata, List.append_nil]; exact C06.LayerEnc.flateDyn hplan) reads1 reads2 idsNodup tableObjs

/-! ## non-vacuity: a complete file whose cross-reference stream is a stored block, a fixed-Huffman block and a final
    dynamic-Huffman block -/

/-- the rows of `exXSubs` under /W [1 1 1]: 0 0 255 / 1 9 0 / 1 26 0 -/
def exZRows : Bytes := [0, 0, 255, 1, 9, 0, 1, 26, 0]

def exZToks : List DeflateFixed.Tok := [.lit 1, .lit 26, .lit 0]

/-- the dynamic header the generator's `DeflateDyn.mkHdr exZToks 18` makes: four 2-bit codes for the literals 0, 1, 26 and
    end-of-block, one (unused) distance length, the 258 lengths spelled with long zero runs under a complete code-length
    code for the symbols 2 (1 bit), 0 and 18 (2 bits), HCLEN + 4 = 16 -/
def exZHdr : DeflateDyn.Hdr :=
  { litLens := [2, 2] ++ List.replicate 24 0 ++ [2] ++ List.replicate 229 0 ++ [2], distLens := [0],
    clLens := [2, 0, 1, 0, 0, 0, 0, 0, 0, 0, 0, 0, 0, 0, 0, 0, 0, 0, 2], ncode := 16,
    rle := [.len 2, .len 2, .zerosL 13, .len 2, .zerosL 127, .zerosL 80, .len 2, .len 0] }

/-- stored `0 0 255`, fixed-Huffman `1 9 0`, dynamic-Huffman `1 26 0` -/
def exZBlocks : List DeflateDyn.Block := [.stored [0, 0, 255], .fixed [.lit 1, .lit 9, .lit 0]]
def exZLast : DeflateDyn.Block := .dyn exZHdr exZToks

theorem exZPlan_ok : DeflateDyn.planOk exZBlocks exZLast exZRows := C06.planOkB_sound _ _ _ (by decide +kernel)

/-- the compressed stream content, followed by one byte that is not part of the zlib stream -/
def exZData : Bytes := DeflateDyn.zlibBlocks exZBlocks exZLast exZRows ++ [0]

def bF : Bytes := [70, 105, 108, 116, 101, 114]
def bFl : Bytes := [70, 108, 97, 116, 101, 68, 101, 99, 111, 100, 101]

/-- the entries of the stream dictionary, in the order written -/
def exZEnts : List (Bytes × Obj) :=
  [(bT, .name bX), (bS, .int 3), (bW, .arr [.int 1, .int 1, .int 1]), (bF, .name bFl), (bR, .ref 1 0),
   (bL, .int exZData.length)]

/-- the dictionary value: the entries as a sorted map -/
def exZKvs : List (Bytes × Obj) := insAll [] (Spelling.canonKvs exZEnts)

/-- the dictionary as spelled by the executable encoder -/
def exZTok : Bytes := (spell (.dict exZEnts) []).1

theorem exZDict_spells : Spells 3 (.dict exZKvs) exZTok :=
  spell_is_Spells (.dict exZEnts) [] 3 (by decide +kernel) (by decide +kernel)

/-- `2 0 obj<<...>>stream LF <zlib stream> LF endstream SP endobj` -/
def exZs : WStm := ⟨[], [50], [32], [48], [32], [], exZTok, [], [10], exZData, [10], [32], exZKvs, 3⟩

set_option maxRecDepth 100000 in
theorem exZs_ok : exZs.OK where
  head := {
    pad := WsRun.nil
    nne := List.cons_ne_nil _ _
    ndig := by show ∀ y ∈ ([50] : Bytes), isDigit y = true; decide
    nfit := by show digitsVal [50] 0 ≤ i64Max; decide
    w1 := ws32
    w1ne := List.cons_ne_nil _ _
    gne := List.cons_ne_nil _ _
    gdig := by show ∀ y ∈ ([48] : Bytes), isDigit y = true; decide
    gfit := by show digitsVal [48] 0 ≤ i64Max; decide
    w2 := ws32
    w3 := WsRun.nil
    spells := exZDict_spells
    depth := by show (3 : Nat) ≤ 50; decide
    w4 := WsRun.nil
    w4req := by intro h; exact absurd h (by show ¬ (endsReg (.dict exZKvs) = true); simp [endsReg]) }
  e1 := by decide
  e2 := by decide
  w4 := ws32

/-- `%PDF-1.4 LF <obj 1> LF <xref stream 2, FlateDecode> LF startxref LF 26 LF %%EOF LF` -/
def exZFile : XrefStreamFile where
  garbage := []
  hdrRest := [49, 46, 52, 10]
  body1 := [⟨exObj1.piece, [10]⟩]
  xs := exZs
  xpost := [10]
  body2 := []
  gap := []
  wsx := [10]
  ds := [50, 54]
  e := [10]
  trail := [10]

set_option maxRecDepth 100000 in
theorem exZFile_wf0 : exZFile.WF0 exXSubs 1 1 1 (1, 0) where
  noMagic := by intro k hk; simp [exZFile] at hk
  xsOK := exZs_ok
  xsLen := by rfl
  dict := {
    type := by rfl
    size := ⟨3, by rfl, Or.inr ⟨by rfl, _, rfl, rfl⟩⟩
    hw := by rfl
    hw0 := by decide
    hw1 := by decide
    hw1pos := by decide
    hw2 := by decide }
  root := by rfl
  noPrev := by rfl
  fits := by decide
  lim := by decide
  numsNodup := by decide +kernel
  wsx := WsRun.ws 10 [] (by decide) WsRun.nil
  wsxNe := by simp [exZFile]
  wsxNoS := by decide
  dsNe := by simp [exZFile]
  dsDig := by decide
  startxref := by decide
  ofsFits := by decide
  e := by decide
  trail := noLaterEOF_of_no_percent _ (by decide)

set_option maxRecDepth 100000 in
/-- the compressed file loads exactly: object 1, the cross-reference stream object 2, nothing else -/
theorem exZFile_loads : ∃ L : Loaded, parseData exZFile.bytes = .ok L ∧ L.root = (1, 0) ∧
    ObjStm.defsGet (1, 0) L.defs = some (.int 7) ∧
    (∃ sc, ObjStm.defsGet (2, 0) L.defs = some (.stream exZKvs sc) ∧ sc.content = exZData) ∧
    ObjStm.defsGet (3, 0) L.defs = none := by
  have hrows : XrefStreamFile.rowBytes exXSubs 1 1 1 = exZRows := by decide +kernel
  obtain ⟨L, h1, h2, h3, h4⟩ := load_defines_exactly_xrefstream_dynflate exZFile exXSubs 1 1 1 (1, 0) exZBlocks exZLast [0]
    exZFile_wf0 (by rfl) (by rfl) (by rw [hrows]; exact exZPlan_ok) (by rw [hrows]; rfl)
    (by
      intro q hq
      simp only [exZFile, List.mem_cons, List.mem_nil_iff, or_false] at hq
      subst hq
      exact exObj1.piece_reads exObj1_ok)
    (by intro q hq; simp [exZFile] at hq)
    (by decide +kernel) ⟨exZFile.objs, List.Perm.refl _, by decide +kernel⟩
  have hobjs : exZFile.objs = [(exObj1.piece, 9), (exZs.piece, 26)] := by rfl
  refine ⟨L, h1, h2, ?_, ?_, ?_⟩
  · exact h3 (exObj1.piece, 9) (by rw [hobjs]; simp)
  · exact ⟨_, h3 (exZs.piece, 26) (by rw [hobjs]; simp), rfl⟩
  · apply h4
    rw [hobjs]
    decide

/-- the bytes of the stream content: zlib header, a stored block, a fixed-Huffman block, a dynamic-Huffman block, the
    Adler-32 checksum, one trailing byte -/
example : exZData = [120, 1, 0, 3, 0, 252, 255, 0, 0, 255, 98, 228, 100, 0, 20, 0, 6, 36, 0, 0, 0, 0, 225, 134, 255, 67, 101, 12, 7,
    108, 1, 37, 0] := by decide +kernel

/-! ### an object-stream container compressed by the fixed-Huffman encoder satisfies the container's storage condition -/

example (kvs : List (Bytes × Obj)) (hf : dictGet ObjStm.kFilter kvs = some (.name ObjStm.nFlate))
    (hp : dictGet ObjStm.kDecodeParms kvs = none) :
    LoaderObjStm.Stored kvs (DeflateFixed.zlibFixedF [[.lit 49, .lit 48, .lit 32]] [.lit 48, .lit 32, .copy 0 0 0 0, .lit 55]
      [49, 48, 32, 48, 32, 32, 32, 32, 55] ++ [10]) [49, 48, 32, 48, 32, 32, 32, 32, 55] :=
  container_stored_of_flate_encoder kvs _ _ hf hp (C06.LayerEnc.flateFixed (by decide +kernel)) (by decide)

end Parsley.C03
