/-
  C03 - end-to-end theorems (follow-up C03b).  Proofs: Lemmas/LoaderE2E*.lean, Lemmas/LoaderDecoders.lean.

    load_defines_exactly_classic   FULL for the layout class "single revision, classic table": for EVERY file
                                   garbage ++ %PDF-… ++ objects ++ xref table ++ trailer ++ … startxref n %%EOF …
                                   (`ClassicFile`, every freedom a field: leading garbage without the magic, any
                                   header line, objects `n g obj <value> endobj` with the value in ANY legal
                                   spelling (`C02.Spells`), any digit strings, any white space / comments between
                                   the pieces, arbitrary bytes between objects, stream objects with a direct
                                   /Length, any subsection partition / entry terminators / header padding of
                                   the table (C13's encoder), the trailer dictionary in any legal spelling, any
                                   bytes between trailer and startxref) that is well formed (`ClassicFile.WF`: the
                                   table's in-use entries are exactly the objects at their offsets, distinct
                                   identifiers, /Root a reference, no /Prev, no /XRefStm, startxref = offset of
                                   the table): `parseData file = ok L`, `L.root` = the trailer's root, every
                                   object identifier is bound to the value written, nothing else is defined.
                                   Composition of: the scans (LoaderE2EScan), C13 `table_roundtrip` re-proved at
                                   an arbitrary cursor with the exact end cursor (LoaderE2ETable), the trailer
                                   parser on `Spells` (LoaderE2EObj), `ReadsAt` discharged from C02 `spell_parse`
                                   (reads_spelled) and C05's framing theorem (reads_stream_direct), and the stage
                                   theorem `load_defines_exactly_partial`.
    load_never_panics              the decoders' half of `DecodersTotal` is now a theorem (no filter model reaches
                                   a panic outcome, inflate's fuel included); what remains is only the size
                                   clause for absurdly large decoder inputs (`DecodedSizes`).
  The other layouts (follow-up C03c): cross-reference streams Props/C03E2EXref.lean, object streams and hybrid files
  Props/C03E2EObjStm.lean, all object kinds at once incl. forward-referenced Length Props/C03E2EAll.lean, the generator link
  Props/C03Render.lean.
-/
import Parsley.Lemmas.LoaderE2E
import Parsley.Lemmas.LoaderDecoders
namespace Parsley.C03
open Parsley Parsley.Prim Parsley.Obj Parsley.Indirect Parsley.Loader Parsley.C02 Parsley.Spelling Parsley.LoaderE2E
open Parsley.XrefSpec Parsley.C13

/-- **load_defines_exactly_classic** (C03 end to end; single revision, classic table, direct objects and
    streams with a direct /Length, any legal spelling, any padding, leading garbage). -/
theorem load_defines_exactly_classic (f : ClassicFile) (D : List (Bytes × Obj)) (root : ObjId) (h : f.WF D root) :
    ∃ L : Loaded, parseData f.bytes = .ok L ∧ L.root = root ∧
      (∀ q ∈ f.objs, ObjStm.defsGet (q.1.num, q.1.gen) L.defs = some (q.1.val q.2).val) ∧
      (∀ k, (∀ q ∈ f.objs, (q.1.num, q.1.gen) ≠ k) → ObjStm.defsGet k L.defs = none) :=
  load_classic f D root h

/-- **load_defines_exactly_classic_fwd**: the same including streams whose /Length is a reference to an integer
    object written before or AFTER the stream (`dep` marks them; second pass of `parse_objects`). -/
theorem load_defines_exactly_classic_fwd (f : ClassicFile) (D : List (Bytes × Obj)) (root : ObjId)
    (dep : Piece → Option (ObjId × Int)) (h : f.WFfwd D root dep) :
    ∃ L : Loaded, parseData f.bytes = .ok L ∧ L.root = root ∧
      (∀ q ∈ f.objs, ObjStm.defsGet (q.1.num, q.1.gen) L.defs = some (q.1.val q.2).val) ∧
      (∀ k, (∀ q ∈ f.objs, (q.1.num, q.1.gen) ≠ k) → ObjStm.defsGet k L.defs = none) :=
  load_classic_fwd f D root dep h

/-- **load_never_panics**: no hypothesis about the decoders' panics any more -/
theorem load_never_panics (data : Bytes) (hlen : data.length < 2 ^ 62) (hsize : LoaderDecoders.DecodedSizes) :
    (parseData data).isPanic = false :=
  LoaderDecoders.load_never_panics data hlen hsize

/-! ## non-vacuity: a concrete well-formed file (a plain object, a stream with direct /Length, garbage) -/

/-- `1 0 obj 7 endobj` -/
def exObj1 : WObj := ⟨[], [49], [32], [48], [32], [32], [55], [32], .int 7, 1⟩
/-- `2 0 obj<</Length 3>>stream LF abc LF endstream SP endobj` -/
def exStm2 : WStm := ⟨[], [50], [32], [48], [32], [], [60, 60, 47, 76, 101, 110, 103, 116, 104, 32, 51, 62, 62], [], [10],
  [97, 98, 99], [10], [32], [([76, 101, 110, 103, 116, 104], .int 3)], 2⟩

theorem ws32 : WsRun [32] := WsRun.ws 32 [] (by decide) WsRun.nil

theorem exObj1_ok : exObj1.OK where
  pad := WsRun.nil
  nne := by simp [exObj1]
  ndig := by decide
  nfit := by decide
  w1 := ws32
  w1ne := by simp [exObj1]
  gne := by simp [exObj1]
  gdig := by decide
  gfit := by decide
  w2 := ws32
  w3 := ws32
  spells := Spells.int 0 .none [55] (by simp) (by decide) (by decide)
  depth := by decide
  w4 := ws32
  w4req := by intro _; simp [exObj1]

theorem exLenDict_spells : Spells 2 (.dict [([76, 101, 110, 103, 116, 104], .int 3)])
    [60, 60, 47, 76, 101, 110, 103, 116, 104, 32, 51, 62, 62] := by
  have i3 : Spells 1 (.int 3) [51] := Spells.int 0 .none [51] (by simp) (by decide) (by decide)
  have kL : (nameBody [76, 101, 110, 103, 116, 104] [1, 0, 0, 1, 0, 0, 1, 0, 0, 1, 0, 0, 1, 0, 0, 1, 0, 0]).1 = [76, 101, 110, 103, 116, 104] := by decide
  have d0 : SpellsEntries 1 [] [([76, 101, 110, 103, 116, 104], .int 3)] [47, 76, 101, 110, 103, 116, 104, 32, 51] := by
    have := SpellsEntries.cons 1 [] [76, 101, 110, 103, 116, 104] (.int 3) [] [] [1, 0, 0, 1, 0, 0, 1, 0, 0, 1, 0, 0, 1, 0, 0, 1, 0, 0] [32] _ _ WsRun.nil (by decide) (by simp) ws32
      i3 (fun _ => by simp) (SpellsEntries.nil 1 _)
    rw [kL] at this
    exact this
  exact Spells.dict 1 _ _ [] d0 WsRun.nil

theorem exStm2_head_ok : exStm2.head.OK where
    pad := WsRun.nil
    nne := by simp [exStm2, WStm.head]
    ndig := by decide
    nfit := by decide
    w1 := ws32
    w1ne := by simp [exStm2, WStm.head]
    gne := by simp [exStm2, WStm.head]
    gdig := by decide
    gfit := by decide
    w2 := ws32
    w3 := WsRun.nil
    spells := exLenDict_spells
    depth := by decide
    w4 := WsRun.nil
    w4req := by intro h; simp [exStm2, WStm.head, endsReg] at h

theorem exStm2_ok : exStm2.OK where
  head := exStm2_head_ok
  e1 := by decide
  e2 := by decide
  w4 := ws32

/-- `<</Root 1 0 R>>` -/
theorem exTrailer_spells : Spells 2 (.dict [([82, 111, 111, 116], .ref 1 0)])
    [60, 60, 47, 82, 111, 111, 116, 32, 49, 32, 48, 32, 82, 62, 62] := by
  have r1 : Spells 1 (.ref 1 0) [49, 32, 48, 32, 82] :=
    Spells.ref 0 [49] [32] [48] [32] (by simp) (by decide) (by decide) (by simp) (by decide) (by decide)
      ws32 (by simp) ws32 (by simp)
  have kR : (nameBody [82, 111, 111, 116] [1, 0, 0, 1, 0, 0, 1, 0, 0, 1, 0, 0]).1 = [82, 111, 111, 116] := by decide
  have d0 : SpellsEntries 1 [] [([82, 111, 111, 116], .ref 1 0)] [47, 82, 111, 111, 116, 32, 49, 32, 48, 32, 82] := by
    have := SpellsEntries.cons 1 [] [82, 111, 111, 116] (.ref 1 0) [] [] [1, 0, 0, 1, 0, 0, 1, 0, 0, 1, 0, 0] [32] _ _ WsRun.nil (by decide) (by simp) ws32
      r1 (fun _ => by simp) (SpellsEntries.nil 1 _)
    rw [kR] at this
    exact this
  exact Spells.dict 1 _ _ [] d0 WsRun.nil

def exSub : TSub where
  start := 0
  wStart := 1
  wCount := 1
  lead := []
  hdrEol := [10]
  ents := [⟨0, 65535, false, .spLf⟩, ⟨9, 0, true, .spLf⟩, ⟨26, 0, true, .crLf⟩]

/-- `junk LF %PDF-1.0 LF <obj 1> LF <stream 2> LF xref ... trailer<</Root 1 0 R>> LF startxref LF 74 LF %%EOF LF` -/
def exFile : ClassicFile where
  garbage := [106, 117, 110, 107, 10]
  hdrRest := [49, 46, 48, 10]
  body := [⟨exObj1.piece, [10]⟩, ⟨exStm2.piece, [10]⟩]
  subs := [exSub]
  wt := []
  ttok := [60, 60, 47, 82, 111, 111, 116, 32, 49, 32, 48, 32, 82, 62, 62]
  gap := [10]
  wsx := [10]
  ds := [55, 52]
  e := [10]
  trail := [10]

theorem exFile_wf : exFile.WF [([82, 111, 111, 116], .ref 1 0)] (1, 0) where
  noMagic := noMagic_of_no_percent _ _ (by decide)
  reads := by
    intro q hq
    simp only [exFile, List.mem_cons, List.mem_nil_iff, or_false] at hq
    rcases hq with rfl | rfl
    · exact exObj1.piece_reads exObj1_ok
    · exact exStm2.piece_reads exStm2_ok rfl
  idsNodup := by decide
  subsNe := by simp [exFile]
  subsOk := by
    intro t ht
    simp only [exFile, List.mem_cons, List.mem_nil_iff, or_false] at ht
    subst ht
    exact ⟨by decide +kernel, by simp [exSub]⟩
  numsNodup := by decide +kernel
  tableObjs := ⟨exFile.objs, List.Perm.refl _, by decide +kernel⟩
  wt := WsRun.nil
  trailer := ⟨2, exTrailer_spells, by decide⟩
  root := rfl
  noPrev := rfl
  noXRefStm := rfl
  wsx := WsRun.ws 10 [] (by decide) WsRun.nil
  wsxNe := by simp [exFile]
  wsxNoS := by decide
  dsNe := by simp [exFile]
  dsDig := by decide
  startxref := by decide
  ofsFits := by decide
  e := by decide
  trail := noLaterEOF_of_no_percent _ (by decide)

example : ∃ L : Loaded, parseData exFile.bytes = .ok L ∧ L.root = (1, 0) ∧
    ObjStm.defsGet (1, 0) L.defs = some (.int 7) ∧
    ObjStm.defsGet (2, 0) L.defs = some (.stream [([76, 101, 110, 103, 116, 104], .int 3)] ⟨53, 3, [97, 98, 99]⟩) ∧
    ObjStm.defsGet (3, 0) L.defs = none := by
  obtain ⟨L, h1, h2, h3, h4⟩ := load_classic exFile _ _ exFile_wf
  have hobjs : exFile.objs = [(exObj1.piece, 9), (exStm2.piece, 26)] := by rfl
  refine ⟨L, h1, h2, ?_, ?_, ?_⟩
  · exact h3 (exObj1.piece, 9) (by rw [hobjs]; simp)
  · exact h3 (exStm2.piece, 26) (by rw [hobjs]; simp)
  · apply h4
    rw [hobjs]
    decide

/-! ## non-vacuity of the theorem with a forward-referenced Length: stream 1 with `/Length 2 0 R`, holder 2 written AFTER it -/

/-- `<</Length 2 0 R>>` -/
theorem exRefDict_spells : Spells 2 (.dict [([76, 101, 110, 103, 116, 104], .ref 2 0)])
    [60, 60, 47, 76, 101, 110, 103, 116, 104, 32, 50, 32, 48, 32, 82, 62, 62] := by
  have r2 : Spells 1 (.ref 2 0) [50, 32, 48, 32, 82] :=
    Spells.ref 0 [50] [32] [48] [32] (by simp) (by decide) (by decide) (by simp) (by decide) (by decide)
      ws32 (by simp) ws32 (by simp)
  have kL : (nameBody [76, 101, 110, 103, 116, 104] [1, 0, 0, 1, 0, 0, 1, 0, 0, 1, 0, 0, 1, 0, 0, 1, 0, 0]).1 = [76, 101, 110, 103, 116, 104] := by decide
  have d0 : SpellsEntries 1 [] [([76, 101, 110, 103, 116, 104], .ref 2 0)] [47, 76, 101, 110, 103, 116, 104, 32, 50, 32, 48, 32, 82] := by
    have := SpellsEntries.cons 1 [] [76, 101, 110, 103, 116, 104] (.ref 2 0) [] [] [1, 0, 0, 1, 0, 0, 1, 0, 0, 1, 0, 0, 1, 0, 0, 1, 0, 0] [32] _ _ WsRun.nil (by decide) (by simp) ws32
      r2 (fun _ => by simp) (SpellsEntries.nil 1 _)
    rw [kL] at this
    exact this
  exact Spells.dict 1 _ _ [] d0 WsRun.nil

/-- `1 0 obj<</Length 2 0 R>>stream LF abc LF endstream SP endobj` -/
def exStmF : WStm := ⟨[], [49], [32], [48], [32], [], [60, 60, 47, 76, 101, 110, 103, 116, 104, 32, 50, 32, 48, 32, 82, 62, 62], [], [10],
  [97, 98, 99], [10], [32], [([76, 101, 110, 103, 116, 104], .ref 2 0)], 2⟩
/-- `2 0 obj 3 endobj` -/
def exHolder : WObj := ⟨[], [50], [32], [48], [32], [32], [51], [32], .int 3, 1⟩

theorem exStmF_head_ok : exStmF.head.OK where
    pad := WsRun.nil
    nne := by simp [exStmF, WStm.head]
    ndig := by decide
    nfit := by decide
    w1 := ws32
    w1ne := by simp [exStmF, WStm.head]
    gne := by simp [exStmF, WStm.head]
    gdig := by decide
    gfit := by decide
    w2 := ws32
    w3 := WsRun.nil
    spells := exRefDict_spells
    depth := by decide
    w4 := WsRun.nil
    w4req := by intro h; simp [exStmF, WStm.head, endsReg] at h

theorem exStmF_ok : exStmF.OK where
  head := exStmF_head_ok
  e1 := by decide
  e2 := by decide
  w4 := ws32

theorem exHolder_ok : exHolder.OK where
  pad := WsRun.nil
  nne := by simp [exHolder]
  ndig := by decide
  nfit := by decide
  w1 := ws32
  w1ne := by simp [exHolder]
  gne := by simp [exHolder]
  gdig := by decide
  gfit := by decide
  w2 := ws32
  w3 := ws32
  spells := Spells.int 0 .none [51] (by simp) (by decide) (by decide)
  depth := by decide
  w4 := ws32
  w4req := by intro _; simp [exHolder]

def exSubF : TSub where
  start := 0
  wStart := 1
  wCount := 1
  lead := []
  hdrEol := [10]
  ents := [⟨0, 65535, false, .spLf⟩, ⟨9, 0, true, .spLf⟩, ⟨61, 0, true, .spCr⟩]

def exFileF : ClassicFile where
  garbage := []
  hdrRest := [49, 46, 52, 10]
  body := [⟨exStmF.piece, [10]⟩, ⟨exHolder.piece, [10]⟩]
  subs := [exSubF]
  wt := [10]
  ttok := [60, 60, 47, 82, 111, 111, 116, 32, 49, 32, 48, 32, 82, 62, 62]
  gap := [10]
  wsx := [13, 10]
  ds := [48, 55, 56]
  e := [10]
  trail := []

/-- which pieces depend on a holder: those whose bytes start with `1` (the stream) -/
def exDep (p : Piece) : Option (ObjId × Int) := if p.num == 1 then some ((2, 0), 3) else none

theorem exFileF_wf : exFileF.WFfwd [([82, 111, 111, 116], .ref 1 0)] (1, 0) exDep where
  noMagic := by intro k hk; simp [exFileF] at hk
  reads := by
    intro q hq
    simp only [exFileF, List.mem_cons, List.mem_nil_iff, or_false] at hq
    rcases hq with rfl | rfl
    · exact exStmF.piece_readsDep exStmF_ok (2, 0) rfl
    · exact exHolder.piece_reads exHolder_ok
  holders := by
    intro q hq h len hd
    have hobjs : exFileF.objs = [(exStmF.piece, 9), (exHolder.piece, 61)] := by rfl
    rw [hobjs] at hq ⊢
    simp only [List.mem_cons, List.mem_nil_iff, or_false] at hq
    rcases hq with rfl | rfl
    · have : exDep exStmF.piece = some ((2, 0), 3) := rfl
      rw [this] at hd
      injection hd with hd
      injection hd with h1 h2
      subst h1 h2
      exact ⟨(exHolder.piece, 61), by simp, rfl, rfl, rfl⟩
    · have : exDep exHolder.piece = none := rfl
      rw [this] at hd
      cases hd
  idsNodup := by decide
  subsNe := by simp [exFileF]
  subsOk := by
    intro t ht
    simp only [exFileF, List.mem_cons, List.mem_nil_iff, or_false] at ht
    subst ht
    exact ⟨by decide +kernel, by simp [exSubF]⟩
  numsNodup := by decide +kernel
  tableObjs := ⟨exFileF.objs, List.Perm.refl _, by decide +kernel⟩
  wt := WsRun.ws 10 [] (by decide) WsRun.nil
  trailer := ⟨2, exTrailer_spells, by decide⟩
  root := rfl
  noPrev := rfl
  noXRefStm := rfl
  wsx := WsRun.ws 13 _ (by decide) (WsRun.ws 10 [] (by decide) WsRun.nil)
  wsxNe := by simp [exFileF]
  wsxNoS := by decide
  dsNe := by simp [exFileF]
  dsDig := by decide
  startxref := by decide
  ofsFits := by decide
  e := by decide
  trail := noLaterEOF_of_no_percent _ (by decide)

example : ∃ L : Loaded, parseData exFileF.bytes = .ok L ∧ L.root = (1, 0) ∧
    ObjStm.defsGet (1, 0) L.defs = some (.stream [([76, 101, 110, 103, 116, 104], .ref 2 0)] ⟨40, 3, [97, 98, 99]⟩) ∧
    ObjStm.defsGet (2, 0) L.defs = some (.int 3) ∧ ObjStm.defsGet (3, 0) L.defs = none := by
  obtain ⟨L, h1, h2, h3, h4⟩ := load_defines_exactly_classic_fwd exFileF _ _ exDep exFileF_wf
  have hobjs : exFileF.objs = [(exStmF.piece, 9), (exHolder.piece, 61)] := by rfl
  refine ⟨L, h1, h2, ?_, ?_, ?_⟩
  · exact h3 (exStmF.piece, 9) (by rw [hobjs]; simp)
  · exact h3 (exHolder.piece, 61) (by rw [hobjs]; simp)
  · apply h4
    rw [hobjs]
    decide

end Parsley.C03
