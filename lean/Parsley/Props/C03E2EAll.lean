/-
  C03 - the most general single-revision end-to-end theorems (follow-up C03c).
  Proofs: Lemmas/LoaderE2ETwoPassStm.lean (both passes + object-stream pass from any context), LoaderE2EFwdFile.lean.

    load_defines_exactly_xrefstream_all   cross-reference stream file whose body holds objects of ALL kinds: plain
                                          objects, streams with a direct /Length, streams whose /Length is a reference
                                          to an integer object written before or AFTER them (second pass), object
                                          streams with their members
    load_defines_exactly_hybrid_all       the same for hybrid files
  With `ws = []` and `dep = fun _ => none` these specialise to the theorems of Props/C03E2EXref.lean / C03E2EObjStm.lean.
-/
import Parsley.Lemmas.LoaderE2EFwdFile
import Parsley.Props.C03E2EObjStm
namespace Parsley.C03
open Parsley Parsley.Prim Parsley.Obj Parsley.Indirect Parsley.Loader Parsley.C02 Parsley.Spelling Parsley.LoaderE2E
open Parsley.XrefSpec Parsley.C13 Parsley.LoaderObjStm

/-- **load_defines_exactly_xrefstream_all** -/
theorem load_defines_exactly_xrefstream_all (f : XrefStreamFile) (subs : List (Nat × List SEnt)) (w0 w1 w2 : Nat)
    (root : ObjId) (ws : List WCont) (dep : Piece → Option (ObjId × Int)) (h : f.WFall subs w0 w1 w2 root ws dep) :
    ∃ L : Loaded, parseData f.bytes = .ok L ∧ L.root = root ∧
      (∀ q ∈ f.objs, ObjStm.defsGet (q.1.num, q.1.gen) L.defs = some (q.1.val q.2).val) ∧
      (∀ w ∈ ws, ∀ m ∈ w.mems, ObjStm.defsGet (m.num, 0) L.defs = some m.v) ∧
      (∀ k, (∀ q ∈ f.objs, (q.1.num, q.1.gen) ≠ k) → (∀ w ∈ ws, ∀ m ∈ w.mems, (m.num, 0) ≠ k) →
        ObjStm.defsGet k L.defs = none) :=
  load_xrefstream_all f subs w0 w1 w2 root ws dep h

/-- **load_defines_exactly_hybrid_all** -/
theorem load_defines_exactly_hybrid_all (f : HybridFile) (D : List (Bytes × Obj)) (ssubs : List (Nat × List SEnt))
    (w0 w1 w2 : Nat) (root : ObjId) (ws : List WCont) (dep : Piece → Option (ObjId × Int))
    (h : f.WFall D ssubs w0 w1 w2 root ws dep) :
    ∃ L : Loaded, parseData f.bytes = .ok L ∧ L.root = root ∧
      (∀ q ∈ f.objs, ObjStm.defsGet (q.1.num, q.1.gen) L.defs = some (q.1.val q.2).val) ∧
      (∀ w ∈ ws, ∀ m ∈ w.mems, ObjStm.defsGet (m.num, 0) L.defs = some m.v) ∧
      (∀ k, (∀ q ∈ f.objs, (q.1.num, q.1.gen) ≠ k) → (∀ w ∈ ws, ∀ m ∈ w.mems, (m.num, 0) ≠ k) →
        ObjStm.defsGet k L.defs = none) :=
  load_hybrid_all f D ssubs w0 w1 w2 root ws dep h

/-! ## non-vacuity: stream 1 with `/Length 2 0 R` (`exStmF`), its holder 2 written AFTER it (`exHolder`), the object
    stream 3 (`exStm`, members 11 and 12), and the cross-reference data as object 4 -/

/-- `[1 4 11 2]` -/
theorem exIdxD_spells : Spells 2 (.arr [.int 1, .int 4, .int 11, .int 2]) [91, 49, 32, 52, 32, 49, 49, 32, 50, 93] := by
  have := arr_ints [49] [[52], [49, 49], [50]] (by
    intro ds hds
    simp only [List.mem_cons, List.mem_nil_iff, or_false] at hds
    rcases hds with rfl | rfl | rfl | rfl <;> exact digOK_dec _ (by decide))
  exact this

def exDEnts : List (Bytes × Obj) :=
  [(bT, .name bX), (bS, .int 13), (bW, .arr [.int 1, .int 1, .int 1]),
   (bI, .arr [.int 1, .int 4, .int 11, .int 2]), (bR, .ref 1 0), (bL, .int 18)]

/-- `<</Type/XRef/Size 13/W[1 1 1]/Index[1 4 11 2]/Root 1 0 R/Length 18>>` -/
def exDTok : Bytes := [60, 60, 47, 84, 121, 112, 101, 47, 88, 82, 101, 102, 47, 83, 105, 122, 101, 32, 49, 51, 47, 87, 91, 49, 32, 49,
  32, 49, 93, 47, 73, 110, 100, 101, 120, 91, 49, 32, 52, 32, 49, 49, 32, 50, 93, 47, 82, 111, 111, 116, 32, 49, 32, 48, 32, 82,
  47, 76, 101, 110, 103, 116, 104, 32, 49, 56, 62, 62]

theorem exDDict_spells : Spells 3 (.dict (dictOf exDEnts)) exDTok := by
  have vX : Spells 2 (.name bX) (47 :: (nameBody bX (rawCh 4)).1) := Spells.name 1 bX (rawCh 4) (by decide)
  have v13 : Spells 2 (.int 13) [49, 51] := Spells.int 1 .none [49, 51] (by simp) (by decide) (by decide)
  have v18 : Spells 2 (.int 18) [49, 56] := Spells.int 1 .none [49, 56] (by simp) (by decide) (by decide)
  have vR : Spells 2 (.ref 1 0) [49, 32, 48, 32, 82] :=
    Spells.ref 1 [49] [32] [48] [32] (by simp) (by decide) (by decide) (by simp) (by decide) (by decide)
      ws32 (by simp) ws32 (by simp)
  have n6 := SpellsEntries.nil 2 [bL, bR, bI, bW, bS, bT]
  have n5 := SpellsEntries.cons 2 [bR, bI, bW, bS, bT] bL (.int 18) [] [] (rawCh 6) [32] _ [] WsRun.nil (by decide) (by decide) ws32
    v18 (fun _ => by simp) n6
  have n4 := SpellsEntries.cons 2 [bI, bW, bS, bT] bR (.ref 1 0) _ [] (rawCh 4) [32] _ _ WsRun.nil (by decide) (by decide) ws32
    vR (fun _ => by simp) n5
  have n3 := SpellsEntries.cons 2 [bW, bS, bT] bI _ _ [] (rawCh 5) [] _ _ WsRun.nil (by decide) (by decide)
    WsRun.nil exIdxD_spells (fun h => by simp [startsReg] at h) n4
  have n2 := SpellsEntries.cons 2 [bS, bT] bW (.arr [.int 1, .int 1, .int 1]) _ [] (rawCh 1) [] _ _ WsRun.nil (by decide) (by decide)
    WsRun.nil exW_spells (fun h => by simp [startsReg] at h) n3
  have n1 := SpellsEntries.cons 2 [bT] bS (.int 13) _ [] (rawCh 4) [32] _ _ WsRun.nil (by decide) (by decide) ws32
    v13 (fun _ => by simp) n2
  have n0 := SpellsEntries.cons 2 [] bT (.name bX) _ [] (rawCh 4) [] _ _ WsRun.nil (by decide) (by simp) WsRun.nil
    vX (fun h => by simp [startsReg] at h) n1
  have hd := Spells.dict 2 _ _ [] n0 WsRun.nil
  have e : exDTok = 60 :: 60 :: (([] : Bytes) ++ (47 :: (nameBody bT (rawCh 4)).1 ++ ([] ++ ((47 :: (nameBody bX (rawCh 4)).1) ++
      ([] ++ (47 :: (nameBody bS (rawCh 4)).1 ++ ([32] ++ ([49, 51] ++
      ([] ++ (47 :: (nameBody bW (rawCh 1)).1 ++ ([] ++ ([91, 49, 32, 49, 32, 49, 93] ++
      ([] ++ (47 :: (nameBody bI (rawCh 5)).1 ++ ([] ++ ([91, 49, 32, 52, 32, 49, 49, 32, 50, 93] ++
      ([] ++ (47 :: (nameBody bR (rawCh 4)).1 ++ ([32] ++ ([49, 32, 48, 32, 82] ++
      ([] ++ (47 :: (nameBody bL (rawCh 6)).1 ++ ([32] ++ ([49, 56] ++ []))))))))))))))))))))))) ++ ([] ++ [62, 62])) := by
    decide +kernel
  rw [e]
  exact hd

/-- rows: 1 at 9, 2 at 61, 3 at 78, 4 at 168; 11 and 12 members 0 and 1 of stream 3 -/
def exDXs : WStm := ⟨[], [52], [32], [48], [32], [], exDTok, [], [10],
  [1, 9, 0, 1, 61, 0, 1, 78, 0, 1, 168, 0, 2, 3, 0, 2, 3, 1], [10], [32], dictOf exDEnts, 3⟩

theorem exDXs_ok : exDXs.OK where
  head := {
    pad := WsRun.nil
    nne := by simp [exDXs, WStm.head]
    ndig := by decide
    nfit := by decide
    w1 := ws32
    w1ne := by simp [exDXs, WStm.head]
    gne := by simp [exDXs, WStm.head]
    gdig := by decide
    gfit := by decide
    w2 := ws32
    w3 := WsRun.nil
    spells := exDDict_spells
    depth := by decide
    w4 := WsRun.nil
    w4req := by intro h; simp [exDXs, WStm.head, endsReg] at h }
  e1 := by decide
  e2 := by decide
  w4 := ws32

def exDSubs : List (Nat × List SEnt) :=
  [(1, [⟨1, 9, 0⟩, ⟨1, 61, 0⟩, ⟨1, 78, 0⟩, ⟨1, 168, 0⟩]), (11, [⟨2, 3, 0⟩, ⟨2, 3, 1⟩])]

def exDFile : XrefStreamFile where
  garbage := []
  hdrRest := [49, 46, 53, 10]
  body1 := [⟨exStmF.piece, [10]⟩, ⟨exHolder.piece, [10]⟩, ⟨exStm.piece, [10]⟩]
  xs := exDXs
  xpost := [10]
  body2 := []
  gap := []
  wsx := [10]
  ds := [49, 54, 56]
  e := [10]
  trail := [10]

/-- the object stream as a container: stream object 3 written at offset 78 -/
def exDW : WCont := ⟨3, exStm.kvs, ⟨78 + exStm.kwOfs + 6 + exStm.e1.length, exStm.data.length, exStm.data⟩,
  exEs, [32], exMems, []⟩

theorem exDW_data : exDW.Data exStm.data where
  type := by rfl
  n := by rfl
  first := by rfl
  ne := by simp [exDW, exMems]
  decl := by decide
  layout := by decide
  bounded := by intro e he; simp [exDW, exEs] at he; rcases he with rfl | rfl <;> decide
  tail := by decide
  mems := exMems_ok
  stored := .plain (by rfl) (by decide)

def exDObjs (x : Piece × Nat) : List (Piece × Nat) := [(exStmF.piece, 9), (exHolder.piece, 61), (exStm.piece, 78), x]

theorem exD_objs : exDFile.objs = exDObjs (exDXs.piece, 168) := by rfl

theorem exD_conts (x : Piece × Nat) (hx : (x.1.num, x.1.gen) = (4, 0)) (X : List Xref.Ent)
    (hX : stmsOf (infoOf X) = [(3, 0), (3, 0)]) : ContsOK (exDObjs x) x X [exDW] where
  stms := by
    intro id
    rw [hX]
    simp only [List.mem_cons, List.mem_nil_iff, or_false, or_self, exists_eq_left]
    exact Iff.rfl
  numsNodup := by simp
  placed := by
    intro w hw
    simp only [List.mem_cons, List.mem_nil_iff, or_false] at hw
    subst hw
    refine ⟨by rw [hx]; decide, (exStm.piece, 78), by simp [exDObjs], exStm, rfl, rfl, rfl, rfl, rfl, exDW_data⟩
  memsNodup := by decide
  memsFresh := by
    intro w hw m hm q hq
    simp only [List.mem_cons, List.mem_nil_iff, or_false] at hw
    simp only [exDObjs, List.mem_cons, List.mem_nil_iff, or_false] at hq
    subst hw
    simp only [exDW, exMems, List.mem_cons, List.mem_nil_iff, or_false] at hm
    rcases hm with rfl | rfl <;> rcases hq with rfl | rfl | rfl | rfl <;> first | decide | (rw [hx]; decide)

theorem exD_holders (x : Piece × Nat) (hx : (x.1.num, x.1.gen) = (4, 0)) : HoldersOK exDep (exDObjs x) x := by
  intro q hq h len hd
  simp only [exDObjs, List.mem_cons, List.mem_nil_iff, or_false] at hq
  have hxd : exDep x.1 = none := by
    have : x.1.num = 4 := congrArg Prod.fst hx
    simp [exDep, this]
  rcases hq with rfl | rfl | rfl | rfl
  · have : exDep exStmF.piece = some ((2, 0), 3) := rfl
    rw [this] at hd
    injection hd with hd
    injection hd with h1 h2
    subst h1 h2
    exact ⟨(exHolder.piece, 61), by simp [exDObjs], rfl, rfl, rfl, by rw [hx]; decide⟩
  · have : exDep exHolder.piece = none := rfl
    rw [this] at hd; cases hd
  · have : exDep exStm.piece = none := rfl
    rw [this] at hd; cases hd
  · rw [hxd] at hd; cases hd

theorem exD_reads : ∀ q ∈ [(⟨exStmF.piece, [10]⟩ : Placed), ⟨exHolder.piece, [10]⟩, ⟨exStm.piece, [10]⟩], PieceOK exDep q.p := by
  intro q hq
  simp only [List.mem_cons, List.mem_nil_iff, or_false] at hq
  rcases hq with rfl | rfl | rfl
  · exact exStmF.piece_readsDep exStmF_ok (2, 0) rfl
  · exact exHolder.piece_reads exHolder_ok
  · exact exStm.piece_reads exStm_ok rfl

set_option maxRecDepth 100000 in
theorem exDFile_wf : exDFile.WFall exDSubs 1 1 1 (1, 0) [exDW] exDep where
  noMagic := by intro k hk; simp [exDFile] at hk
  xsOK := exDXs_ok
  xsLen := rfl
  dict := {
    type := rfl
    size := ⟨13, rfl, Or.inl rfl⟩
    hw := rfl
    hw0 := by decide
    hw1 := by decide
    hw1pos := by decide
    hw2 := by decide }
  root := rfl
  noPrev := rfl
  fits := by decide
  lim := by decide
  numsNodup := by decide +kernel
  wsx := WsRun.ws 10 [] (by decide) WsRun.nil
  wsxNe := by simp [exDFile]
  wsxNoS := by decide
  dsNe := by simp [exDFile]
  dsDig := by decide
  startxref := by decide +kernel
  ofsFits := by decide
  e := by decide
  trail := noLaterEOF_of_no_percent _ (by decide)
  stored := Stored.plain [] rfl
  size := by decide +kernel
  reads1 := exD_reads
  reads2 := by intro q hq; simp [exDFile] at hq
  holders := by rw [exD_objs]; exact exD_holders _ (by decide +kernel)
  idsNodup := by decide
  tableObjs := ⟨exDFile.objs, List.Perm.refl _, by decide +kernel⟩
  conts := by
    rw [exD_objs]
    exact exD_conts _ (by decide +kernel) _ (by decide +kernel)

example : ∃ L : Loaded, parseData exDFile.bytes = .ok L ∧ L.root = (1, 0) ∧
    ObjStm.defsGet (1, 0) L.defs = some (.stream [([76, 101, 110, 103, 116, 104], .ref 2 0)] ⟨40, 3, [97, 98, 99]⟩) ∧
    ObjStm.defsGet (2, 0) L.defs = some (.int 3) ∧
    ObjStm.defsGet (11, 0) L.defs = some (.int 11) ∧ ObjStm.defsGet (12, 0) L.defs = some (.bool true) ∧
    ObjStm.defsGet (5, 0) L.defs = none := by
  obtain ⟨L, h1, h2, h3, h4, h5⟩ := load_defines_exactly_xrefstream_all exDFile _ _ _ _ _ _ _ exDFile_wf
  refine ⟨L, h1, h2, ?_, ?_, ?_, ?_, ?_⟩
  · exact h3 (exStmF.piece, 9) (by rw [exD_objs]; simp [exDObjs])
  · exact h3 (exHolder.piece, 61) (by rw [exD_objs]; simp [exDObjs])
  · exact h4 exDW (by simp) ⟨11, [], [], [49, 49], .int 11, 1⟩ (by simp [exDW, exMems])
  · exact h4 exDW (by simp) ⟨12, [32, 120], [32], [116, 114, 117, 101], .bool true, 1⟩ (by simp [exDW, exMems])
  · apply h5
    · rw [exD_objs]; decide
    · intro w hw m hm
      simp only [List.mem_cons, List.mem_nil_iff, or_false] at hw
      subst hw
      simp only [exDW, exMems, List.mem_cons, List.mem_nil_iff, or_false] at hm
      rcases hm with rfl | rfl <;> decide

/-! ### the same body behind a hybrid table: 0 free, 1-4 in use, hidden 11 and 12 free with generation 65535,
    trailer /XRefStm 168 -> stream 4 (`exBXs`: /Index [11 2]) -/

def exETrEnts : List (Bytes × Obj) := [(bR, .ref 1 0), (bXS, .int 168)]

/-- `<</Root 1 0 R/XRefStm 168>>` -/
def exETrTok : Bytes := [60, 60, 47, 82, 111, 111, 116, 32, 49, 32, 48, 32, 82, 47, 88, 82, 101, 102, 83, 116, 109, 32, 49, 54, 56, 62, 62]

theorem exETrailer_spells : Spells 2 (.dict (dictOf exETrEnts)) exETrTok := by
  have vR : Spells 1 (.ref 1 0) [49, 32, 48, 32, 82] :=
    Spells.ref 0 [49] [32] [48] [32] (by simp) (by decide) (by decide) (by simp) (by decide) (by decide)
      ws32 (by simp) ws32 (by simp)
  have v168 : Spells 1 (.int 168) [49, 54, 56] := Spells.int 0 .none [49, 54, 56] (by simp) (by decide) (by decide)
  have n2 := SpellsEntries.nil 1 [bXS, bR]
  have n1 := SpellsEntries.cons 1 [bR] bXS (.int 168) [] [] (rawCh 7) [32] _ [] WsRun.nil (by decide) (by decide) ws32
    v168 (fun _ => by simp) n2
  have n0 := SpellsEntries.cons 1 [] bR (.ref 1 0) _ [] (rawCh 4) [32] _ _ WsRun.nil (by decide) (by simp) ws32
    vR (fun _ => by simp) n1
  have hd := Spells.dict 1 _ _ [] n0 WsRun.nil
  have e : exETrTok = 60 :: 60 :: (([] : Bytes) ++ (47 :: (nameBody bR (rawCh 4)).1 ++ ([32] ++ ([49, 32, 48, 32, 82] ++
      ([] ++ (47 :: (nameBody bXS (rawCh 7)).1 ++ ([32] ++ ([49, 54, 56] ++ []))))))) ++ ([] ++ [62, 62])) := by
    decide +kernel
  rw [e]
  exact hd

def exESub0 : TSub := ⟨0, 1, 1, [], [10],
  [⟨0, 65535, false, .spLf⟩, ⟨9, 0, true, .spLf⟩, ⟨61, 0, true, .spCr⟩, ⟨78, 0, true, .crLf⟩, ⟨168, 0, true, .spLf⟩]⟩

def exEFile : HybridFile where
  garbage := []
  hdrRest := [49, 46, 53, 10]
  body1 := [⟨exStmF.piece, [10]⟩, ⟨exHolder.piece, [10]⟩, ⟨exStm.piece, [10]⟩]
  xs := exBXs
  xpost := [10]
  body2 := []
  subs := [exESub0, exBSub11]
  wt := [10]
  ttok := exETrTok
  gap := [10]
  wsx := [10]
  ds := [50, 53, 56]
  e := [10]
  trail := [10]

set_option maxRecDepth 100000 in
theorem exE_objs : exEFile.objs = exDObjs (exBXs.piece, 168) := by rfl

set_option maxRecDepth 100000 in
theorem exEFile_wf : exEFile.WFall (dictOf exETrEnts) exBSSubs 1 1 1 (1, 0) [exDW] exDep where
  noMagic := by intro k hk; simp [exEFile] at hk
  subsNe := by simp [exEFile]
  subsOk := by
    intro t ht
    simp only [exEFile, List.mem_cons, List.mem_nil_iff, or_false] at ht
    rcases ht with rfl | rfl
    · exact ⟨by decide +kernel, by simp [exESub0]⟩
    · exact ⟨by decide +kernel, by simp [exBSub11]⟩
  wt := WsRun.ws 10 [] (by decide) WsRun.nil
  trailer := ⟨2, exETrailer_spells, by decide⟩
  root := rfl
  noPrev := rfl
  noEncrypt := rfl
  xrefStm := rfl
  xsOK := exBXs_ok
  xsLen := rfl
  dict := {
    type := rfl
    size := ⟨13, rfl, Or.inl rfl⟩
    hw := rfl
    hw0 := by decide
    hw1 := by decide
    hw1pos := by decide
    hw2 := by decide }
  stored := Stored.plain [] rfl
  fits := by decide
  lim := by decide
  keysNodup := by decide +kernel
  wsx := WsRun.ws 10 [] (by decide) WsRun.nil
  wsxNe := by simp [exEFile]
  wsxNoS := by decide
  dsNe := by simp [exEFile]
  dsDig := by decide
  startxref := by decide +kernel
  ofsFits := by decide
  e := by decide
  trail := noLaterEOF_of_no_percent _ (by decide)
  size := by decide +kernel
  reads1 := exD_reads
  reads2 := by intro q hq; simp [exEFile] at hq
  holders := by rw [exE_objs]; exact exD_holders _ (by decide +kernel)
  idsNodup := by decide
  tableObjs := ⟨exEFile.objs, List.Perm.refl _, by decide +kernel⟩
  conts := by
    rw [exE_objs]
    exact exD_conts _ (by decide +kernel) _ (by decide +kernel)

example : ∃ L : Loaded, parseData exEFile.bytes = .ok L ∧ L.root = (1, 0) ∧
    ObjStm.defsGet (2, 0) L.defs = some (.int 3) ∧
    ObjStm.defsGet (11, 0) L.defs = some (.int 11) ∧ ObjStm.defsGet (12, 0) L.defs = some (.bool true) ∧
    ObjStm.defsGet (12, 65535) L.defs = none := by
  obtain ⟨L, h1, h2, h3, h4, h5⟩ := load_defines_exactly_hybrid_all exEFile _ _ _ _ _ _ _ _ exEFile_wf
  refine ⟨L, h1, h2, ?_, ?_, ?_, ?_⟩
  · exact h3 (exHolder.piece, 61) (by rw [exE_objs]; simp [exDObjs])
  · exact h4 exDW (by simp) ⟨11, [], [], [49, 49], .int 11, 1⟩ (by simp [exDW, exMems])
  · exact h4 exDW (by simp) ⟨12, [32, 120], [32], [116, 114, 117, 101], .bool true, 1⟩ (by simp [exDW, exMems])
  · apply h5
    · rw [exE_objs]; decide
    · intro w hw m hm
      simp only [List.mem_cons, List.mem_nil_iff, or_false] at hw
      subst hw
      simp only [exDW, exMems, List.mem_cons, List.mem_nil_iff, or_false] at hm
      rcases hm with rfl | rfl <;> decide

/-- TEST (kernel evaluation of the whole model on the same two files, independent of the theorems) -/
example : nDefs (parseData exDFile.bytes) = 6 ∧ nDefs (parseData exEFile.bytes) = 6 := by decide +kernel

end Parsley.C03
